/-
  Lemmas for Props/C01.lean about the tokeniter loop of Model/Lex.lean:
   * progress: in the root state an iteration consumes input and pushes one state; in any other state it pops the
     state or consumes input (so `2 * |rest| + |stack|` strictly decreases);
   * shape: the tokens emitted so far are a word of the begin/end automaton `delta7`, whose state is the top of
     the lexer's state stack (an invariant of the loop).
-/
import JinjaV.Lemmas.LexProgress
import JinjaV.Model.ParseShape
import JinjaV.Props.C39

namespace JinjaV.C01
open JinjaV.Lex


def mu (l : Loop) (s : Str) : Nat := 2 * s.length + l.stack.length

theorem step_root (cfg : Cfg) (hv : cfg.Valid = true) (alts : List RootKind) (l : Loop) (s : Str)
    (l' : Loop) (rest : Str) (hst : l.stack = []) (h : step cfg alts l s = .cont l' rest) : mu l' rest < mu l s := by
  unfold step at h
  rw [hst] at h
  simp only at h
  split at h
  · rename_i text kind matched sign rest' hf
    simp only [StepRes.cont.injEq] at h
    obtain ⟨rfl, rfl⟩ := h
    have e := findRoot_eq _ _ _ _ _ _ _ _ _ hf
    have hm := findRoot_ne cfg hv _ _ _ _ _ _ _ _ hf
    have : rest'.length < s.length := by
      subst e
      cases matched with
      | nil => exact absurd rfl hm
      | cons a m => simp; omega
    simp only [mu, emit_stack, hst, List.length_cons, List.length_nil]
    omega
  · split at h <;> simp at h




theorem length_le_of_append3 {t m r s : Str} (e : t ++ (m ++ r) = s) : r.length ≤ s.length := by
  subst e; simp; omega

/-- in a state other than root an iteration either pops the state or consumes input -/
theorem step_cons (cfg : Cfg) (alts : List RootKind) (l : Loop) (s : Str)
    (l' : Loop) (rest : Str) (t : St) (ts : List St) (hst : l.stack = t :: ts) (ht : t ≠ .root)
    (h : step cfg alts l s = .cont l' rest) :
    (l'.stack = ts ∧ rest.length ≤ s.length) ∨ (l'.stack = t :: ts ∧ rest.length < s.length) := by
  unfold step at h
  rw [hst] at h
  simp only [List.drop_succ_cons, List.drop_zero] at h
  cases t with
  | root => exact absurd rfl ht
  | comment =>
    simp only at h
    split at h
    · rename_i text matched u rest' hf
      simp only [StepRes.cont.injEq] at h
      obtain ⟨rfl, rfl⟩ := h
      have e := findLazy_eq _ (by
        intro x m b r hx
        cases hm : matchEnd3 cfg.trimBlocks cfg.commentEnd x with
        | none => simp [hm] at hx
        | some mr =>
          simp [hm] at hx; obtain ⟨rfl, _, rfl⟩ := hx
          exact matchEnd3_eq _ _ _ _ hm) _ _ _ _ _ hf
      exact Or.inl ⟨by simp [emit_stack], length_le_of_append3 e⟩
    · split at h <;> simp at h
  | raw =>
    simp only at h
    split at h
    · rename_i text matched sign rest' hf
      simp only [StepRes.cont.injEq] at h
      obtain ⟨rfl, rfl⟩ := h
      have e := findLazy_eq _ (by
        intro x m b r hx
        cases hm : matchEndRaw cfg x with
        | none => simp [hm] at hx
        | some mr =>
          simp [hm] at hx; obtain ⟨rfl, _, rfl⟩ := hx
          exact matchEndRaw_eq _ _ _ hm) _ _ _ _ _ hf
      exact Or.inl ⟨by simp [emit_stack], length_le_of_append3 e⟩
    · split at h <;> simp at h
  | lineComment =>
    simp only [StepRes.cont.injEq] at h
    obtain ⟨rfl, rfl⟩ := h
    refine Or.inl ⟨by simp [emit_stack], ?_⟩
    exact length_le_of_append (spanP_eq _ s)
  | block =>
    simp only at h
    split at h
    · rename_i k matched rest' hm
      simp only [StepRes.cont.injEq] at h
      obtain ⟨rfl, rfl⟩ := h
      refine Or.inl ⟨by simp [emit_stack], ?_⟩
      split at hm
      · simp at hm
      · cases h3 : matchEnd3 cfg.trimBlocks cfg.blockEnd s with
        | none => simp [h3] at hm
        | some mr => simp [h3] at hm; obtain ⟨_, rfl, rfl⟩ := hm; exact length_le_of_append (matchEnd3_eq _ _ _ _ h3)
    · split at h
      · simp at h
      · rename_i hs
        have hne : s ≠ [] := by intro e; apply hs; simp [e]
        cases ht : tagStep l s with
        | error p => rw [ht] at h; simp at h
        | ok p =>
          obtain ⟨l2, r2⟩ := p
          rw [ht] at h; simp only [StepRes.cont.injEq] at h
          obtain ⟨rfl, rfl⟩ := h
          have := tagStep_progress l _ s _ ht hne
          exact Or.inr ⟨by rw [this.2, hst], this.1⟩
  | vari =>
    simp only at h
    split at h
    · rename_i k matched rest' hm
      simp only [StepRes.cont.injEq] at h
      obtain ⟨rfl, rfl⟩ := h
      refine Or.inl ⟨by simp [emit_stack], ?_⟩
      split at hm
      · simp at hm
      · cases h3 : matchEndMinusOrPlain cfg.varEnd s with
        | none => simp [h3] at hm
        | some mr => simp [h3] at hm; obtain ⟨_, rfl, rfl⟩ := hm; exact length_le_of_append (matchEndMinusOrPlain_eq _ _ _ h3)
    · split at h
      · simp at h
      · rename_i hs
        have hne : s ≠ [] := by intro e; apply hs; simp [e]
        cases ht : tagStep l s with
        | error p => rw [ht] at h; simp at h
        | ok p =>
          obtain ⟨l2, r2⟩ := p
          rw [ht] at h; simp only [StepRes.cont.injEq] at h
          obtain ⟨rfl, rfl⟩ := h
          have := tagStep_progress l _ s _ ht hne
          exact Or.inr ⟨by rw [this.2, hst], this.1⟩
  | lineStmt =>
    simp only at h
    split at h
    · rename_i k matched rest' hm
      simp only [StepRes.cont.injEq] at h
      obtain ⟨rfl, rfl⟩ := h
      refine Or.inl ⟨by simp [emit_stack], ?_⟩
      split at hm
      · simp at hm
      · cases h3 : matchLineStmtEnd s with
        | none => simp [h3] at hm
        | some mr => simp [h3] at hm; obtain ⟨_, rfl, rfl⟩ := hm; exact length_le_of_append (matchLineStmtEnd_eq _ _ h3)
    · split at h
      · simp at h
      · rename_i hs
        have hne : s ≠ [] := by intro e; apply hs; simp [e]
        cases ht : tagStep l s with
        | error p => rw [ht] at h; simp at h
        | ok p =>
          obtain ⟨l2, r2⟩ := p
          rw [ht] at h; simp only [StepRes.cont.injEq] at h
          obtain ⟨rfl, rfl⟩ := h
          have := tagStep_progress l _ s _ ht hne
          exact Or.inr ⟨by rw [this.2, hst], this.1⟩



def isTagTok : TK → Bool
  | .whitespace | .float | .integer | .name | .string | .operator => true
  | _ => false

/-- the begin/end automaton of the raw token stream (states = lexer states) -/
def delta7 : St → TK → Option St
  | .root, .data => some .root
  | .root, .ghost => some .root
  | .root, .blockBegin => some .block
  | .root, .variableBegin => some .vari
  | .root, .rawBegin => some .raw
  | .root, .commentBegin => some .comment
  | .root, .lineStmtBegin => some .lineStmt
  | .root, .lineCommentBegin => some .lineComment
  | .block, .blockEnd => some .root
  | .vari, .variableEnd => some .root
  | .lineStmt, .lineStmtEnd => some .root
  | .raw, .data => some .raw
  | .raw, .ghost => some .raw
  | .raw, .rawEnd => some .root
  | .comment, .comment => some .comment
  | .comment, .commentEnd => some .root
  | .lineComment, .lineComment => some .lineComment
  | .lineComment, .lineCommentEnd => some .root
  | .block, k => if isTagTok k then some .block else none
  | .vari, k => if isTagTok k then some .vari else none
  | .lineStmt, k => if isTagTok k then some .lineStmt else none
  | _, _ => none

def run7 (st : St) : List TK → Option St
  | [] => some st
  | k :: ks => match delta7 st k with
    | some st' => run7 st' ks
    | none => none

def tkinds (toks : List Tok) : List TK := toks.map (·.kind)

def topOf : List St → St
  | [] => .root
  | t :: _ => t

theorem run7_append (st : St) (a b : List TK) :
    run7 st (a ++ b) = match run7 st a with | some st' => run7 st' b | none => none := by
  induction a generalizing st with
  | nil => simp [run7]
  | cons k ks ih =>
    simp only [List.cons_append, run7]
    cases delta7 st k with
    | none => rfl
    | some st' => exact ih st'

theorem run7_snoc (st st1 : St) (a : List TK) (k : TK) (h : run7 st a = some st1) :
    run7 st (a ++ [k]) = delta7 st1 k := by
  rw [run7_append, h]
  simp only [run7]
  cases delta7 st1 k <;> rfl

theorem emit_self (l : Loop) (k : TK) (text : Str) (a : Bool) (st : St)
    (h : run7 .root (tkinds l.out.reverse) = some st) (hd : delta7 st k = some st) :
    run7 .root (tkinds (emit l k text a).out.reverse) = some st := by
  unfold emit
  split
  · simp only [List.reverse_cons, tkinds, List.map_append, List.map_cons, List.map_nil] at h ⊢
    rw [run7_snoc _ _ _ _ h]; exact hd
  · exact h

theorem emit_move (l : Loop) (k : TK) (text : Str) (st st' : St)
    (h : run7 .root (tkinds l.out.reverse) = some st) (hd : delta7 st k = some st') :
    run7 .root (tkinds (emit l k text true).out.reverse) = some st' := by
  unfold emit
  simp only [Bool.true_or, if_true, List.reverse_cons, tkinds, List.map_append, List.map_cons, List.map_nil] at h ⊢
  rw [run7_snoc _ _ _ _ h]; exact hd

theorem tagRule_kind (prev : Option Char) (s : Str) (k : TK) (m r : Str) (h : tagRule prev s = .tok k m r) :
    isTagTok k = true := by
  unfold tagRule at h
  repeat' split at h
  all_goals first | (simp at h; done) | (simp at h; obtain ⟨rfl, _, _⟩ := h; rfl)

structure ShapeInv (l : Loop) : Prop where
  stack : l.stack = [] ∨ ∃ t, l.stack = [t] ∧ t ≠ .root
  run : run7 .root (tkinds l.out.reverse) = some (topOf l.stack)

theorem tagStep_shape (l l' : Loop) (s rest : Str) (st : St) (hs : st = .block ∨ st = .vari ∨ st = .lineStmt)
    (hr : run7 .root (tkinds l.out.reverse) = some st) (h : tagStep l s = .ok (l', rest)) (hne : s ≠ []) :
    run7 .root (tkinds l'.out.reverse) = some st := by
  unfold tagStep at h
  split at h
  · rename_i k text rest' hk
    cases hb : balanceFor k l.balancing text with
    | error e' => simp [hb] at h
    | ok b =>
      simp [hb] at h
      obtain ⟨rfl, rfl⟩ := h
      have hkk := tagRule_kind _ _ _ _ _ hk
      have hd : delta7 st k = some st := by
        rcases hs with rfl | rfl | rfl <;> cases k <;> simp_all [delta7, isTagTok]
      exact emit_self { l with balancing := b } k text false st hr hd
  · split at h
    · simp at h
    · exact absurd rfl hne


def toksOf : LexRes → List Tok
  | .ok t => t
  | .syntaxError t _ _ => t
  | .fuel t => t

/-- the raw token list is a (possibly cut short) word of the begin/end automaton -/
def Accepted (toks : List Tok) : Prop := run7 .root (tkinds toks) ≠ none

theorem accepted_of_run {l : Loop} {st : St} (h : run7 .root (tkinds l.out.reverse) = some st) : Accepted (finish l) := by
  unfold Accepted finish; rw [h]; simp

theorem step_shape_root (cfg : Cfg) (alts : List RootKind) (l : Loop) (s : Str) (h : ShapeInv l) (hst : l.stack = []) :
    match step cfg alts l s with
    | .cont l' _ => ShapeInv l'
    | .done r => Accepted (toksOf r) := by
  have r0 := h.run
  rw [hst] at r0
  simp only [topOf] at r0
  generalize hres : step cfg alts l s = res
  unfold step at hres
  rw [hst] at hres
  simp only at hres
  split at hres
  · rename_i text kind matched sign rest hf
    subst hres
    have r1 := emit_self l .data (lstripText cfg l.lineStarting (kind == .vari) sign text).1 false .root r0 rfl
    have r2 := emit_self _ .ghost (lstripText cfg l.lineStarting (kind == .vari) sign text).2 false .root r1 rfl
    have r3 := emit_move _ kind.tk matched .root (pushSt kind) r2 (by cases kind <;> rfl)
    constructor
    · right
      exact ⟨pushSt kind, by simp [emit_stack, hst], by cases kind <;> simp [pushSt]⟩
    · simpa [topOf] using r3
  · split at hres
    · subst hres; exact accepted_of_run r0
    · subst hres; exact accepted_of_run (emit_self l .data s false .root r0 rfl)

theorem step_shape_cons (cfg : Cfg) (alts : List RootKind) (l : Loop) (s : Str) (h : ShapeInv l) (t : St)
    (hst : l.stack = [t]) (ht : t ≠ .root) :
    match step cfg alts l s with
    | .cont l' _ => ShapeInv l'
    | .done r => Accepted (toksOf r) := by
  have r0 := h.run
  rw [hst] at r0
  simp only [topOf] at r0
  generalize hres : step cfg alts l s = res
  unfold step at hres
  rw [hst] at hres
  simp only [List.drop_succ_cons, List.drop_zero] at hres
  cases t with
  | root => exact absurd rfl ht
  | comment =>
    simp only at hres
    split at hres
    · rename_i text matched u rest hf
      subst hres
      have r1 := emit_self { l with stack := [] } .comment text false .comment r0 rfl
      have r2 := emit_move _ .commentEnd matched .comment .root r1 rfl
      exact ⟨Or.inl (by simp [emit_stack]), by simpa [emit_stack, topOf] using r2⟩
    · split at hres
      · subst hres; exact accepted_of_run r0
      · subst hres; exact accepted_of_run r0
  | raw =>
    simp only at hres
    split at hres
    · rename_i text matched sign rest hf
      subst hres
      have r1 := emit_self { l with stack := [] } .data (lstripText cfg l.lineStarting false sign text).1 false .raw r0 rfl
      have r2 := emit_self _ .ghost (lstripText cfg l.lineStarting false sign text).2 false .raw r1 rfl
      have r3 := emit_move _ .rawEnd matched .raw .root r2 rfl
      exact ⟨Or.inl (by simp [emit_stack]), by simpa [emit_stack, topOf] using r3⟩
    · split at hres
      · subst hres; exact accepted_of_run r0
      · subst hres; exact accepted_of_run r0
  | lineComment =>
    subst hres
    have r1 := emit_self { l with stack := [] } .lineComment (spanP (· != '\n') s).1 false .lineComment r0 rfl
    have r2 := emit_move _ .lineCommentEnd [] .lineComment .root r1 rfl
    exact ⟨Or.inl (by simp [emit_stack]), by simpa [emit_stack, topOf] using r2⟩
  | block =>
    simp only at hres
    split at hres
    · rename_i k matched rest hm
      subst hres
      have hk : k = .blockEnd := by
        split at hm
        · simp at hm
        · cases h3 : matchEnd3 cfg.trimBlocks cfg.blockEnd s <;> simp [h3] at hm; exact hm.1.symm
      subst hk
      have r1 := emit_move { l with stack := [] } .blockEnd matched .block .root r0 rfl
      exact ⟨Or.inl (by simp [emit_stack]), by simpa [emit_stack, topOf] using r1⟩
    · split at hres
      · subst hres; exact accepted_of_run r0
      · rename_i hs
        have hne : s ≠ [] := by intro e; apply hs; simp [e]
        cases hts : tagStep l s with
        | error p => rw [hts] at hres; simp only at hres; subst hres; exact accepted_of_run r0
        | ok p =>
          obtain ⟨l2, r2⟩ := p
          rw [hts] at hres; simp only at hres; subst hres
          have := tagStep_shape l l2 s r2 .block (Or.inl rfl) r0 hts hne
          have hs2 := (tagStep_progress l l2 s r2 hts hne).2
          exact ⟨Or.inr ⟨.block, by rw [hs2, hst], by simp⟩, by rw [hs2, hst]; simpa [topOf] using this⟩
  | vari =>
    simp only at hres
    split at hres
    · rename_i k matched rest hm
      subst hres
      have hk : k = .variableEnd := by
        split at hm
        · simp at hm
        · cases h3 : matchEndMinusOrPlain cfg.varEnd s <;> simp [h3] at hm; exact hm.1.symm
      subst hk
      have r1 := emit_move { l with stack := [] } .variableEnd matched .vari .root r0 rfl
      exact ⟨Or.inl (by simp [emit_stack]), by simpa [emit_stack, topOf] using r1⟩
    · split at hres
      · subst hres; exact accepted_of_run r0
      · rename_i hs
        have hne : s ≠ [] := by intro e; apply hs; simp [e]
        cases hts : tagStep l s with
        | error p => rw [hts] at hres; simp only at hres; subst hres; exact accepted_of_run r0
        | ok p =>
          obtain ⟨l2, r2⟩ := p
          rw [hts] at hres; simp only at hres; subst hres
          have := tagStep_shape l l2 s r2 .vari (Or.inr (Or.inl rfl)) r0 hts hne
          have hs2 := (tagStep_progress l l2 s r2 hts hne).2
          exact ⟨Or.inr ⟨.vari, by rw [hs2, hst], by simp⟩, by rw [hs2, hst]; simpa [topOf] using this⟩
  | lineStmt =>
    simp only at hres
    split at hres
    · rename_i k matched rest hm
      subst hres
      have hk : k = .lineStmtEnd := by
        split at hm
        · simp at hm
        · cases h3 : matchLineStmtEnd s <;> simp [h3] at hm; exact hm.1.symm
      subst hk
      have r1 := emit_move { l with stack := [] } .lineStmtEnd matched .lineStmt .root r0 rfl
      exact ⟨Or.inl (by simp [emit_stack]), by simpa [emit_stack, topOf] using r1⟩
    · split at hres
      · subst hres; exact accepted_of_run r0
      · rename_i hs
        have hne : s ≠ [] := by intro e; apply hs; simp [e]
        cases hts : tagStep l s with
        | error p => rw [hts] at hres; simp only at hres; subst hres; exact accepted_of_run r0
        | ok p =>
          obtain ⟨l2, r2⟩ := p
          rw [hts] at hres; simp only at hres; subst hres
          have := tagStep_shape l l2 s r2 .lineStmt (Or.inr (Or.inr rfl)) r0 hts hne
          have hs2 := (tagStep_progress l l2 s r2 hts hne).2
          exact ⟨Or.inr ⟨.lineStmt, by rw [hs2, hst], by simp⟩, by rw [hs2, hst]; simpa [topOf] using this⟩


-- line breaks -----------------------------------------------------------------------------------------

/-- the line breaks Python's `newline_re` (`\r\n|\r|\n`) finds in the source -/
def lineBreaks : Str → Nat
  | [] => 0
  | '\r' :: '\n' :: r => 1 + lineBreaks r
  | '\r' :: r => 1 + lineBreaks r
  | '\n' :: r => 1 + lineBreaks r
  | _ :: r => lineBreaks r

theorem lineBreaks_other (c : Char) (r : Str) (h1 : c = '\r' → False) (h2 : c = '\n' → False) :
    lineBreaks (c :: r) = lineBreaks r := by
  rw [lineBreaks.eq_def]
  split <;> simp_all

theorem lineBreaks_cr (r : Str) (h : ∀ r', r = '\n' :: r' → False) : lineBreaks ('\r' :: r) = 1 + lineBreaks r := by
  rw [lineBreaks.eq_def]
  split <;> simp_all
  rename_i h1 _ h2; exact h1 h2.1.symm

theorem splitLines_length (s : Str) : (splitLines s).length = lineBreaks s + 1 := by
  fun_induction splitLines s
  · simp [lineBreaks]
  · simp_all [lineBreaks]; omega
  · rename_i r h ih
    rw [lineBreaks_cr _ h]; simp_all; omega
  · simp_all [lineBreaks]; omega
  · rename_i c r h1 h2 h3 l ls heq ih
    rw [lineBreaks_other c r h2 h3, ← ih, heq]; simp
  · rename_i c r h1 h2 h3 heq ih
    rw [heq] at ih; simp at ih

theorem splitLines_noNl (s : Str) : ∀ l ∈ splitLines s, countNl l = 0 := by
  fun_induction splitLines s
  · simp [countNl]
  · simp_all [countNl]
  · simp_all [countNl]
  · simp_all [countNl]
  · rename_i c r h1 h2 h3 l ls heq ih
    intro x hx
    rw [heq] at ih
    simp only [List.mem_cons] at hx
    rcases hx with rfl | hx
    · have := ih l (by simp)
      simp only [countNl] at this ⊢
      rw [List.count_cons_of_ne (by intro e; exact h3 (by simpa using e))]; exact this
    · exact ih x (by simp [hx])
  · rename_i c r h1 h2 h3 heq ih
    intro x hx
    simp only [List.mem_singleton] at hx
    subst hx
    simp only [countNl]
    rw [List.count_cons_of_ne (by intro e; exact h3 (by simpa using e))]; simp

theorem countNl_joinNl (ls : List Str) (h : ∀ l ∈ ls, countNl l = 0) : countNl (joinNl ls) = ls.length - 1 := by
  fun_induction joinNl ls
  · rfl
  · rename_i l; simpa using h l (by simp)
  · rename_i l l2 ls ih
    have h1 := h l (by simp)
    have h2 := ih (fun x hx => h x (by simp [hx]))
    simp only [countNl, List.count_append, List.count_cons_self, List.length_cons] at h1 h2 ⊢
    rw [h1, h2]
    have : l2.length ≠ 0 := by intro e; exact ls (List.length_eq_zero_iff.mp e)
    omega


end JinjaV.C01
