/-
  Progress lemmas for the lexer model (used by Props/C01.lean): every scanner that succeeds consumes at
  least one character when the configuration is valid, so every iteration of the tokeniter loop
  strictly decreases `2 * |remaining input| + |state stack|`.
-/
import JinjaV.Lemmas.Lex

namespace JinjaV.Lex

theorem valid_parts (cfg : Cfg) (h : cfg.Valid = true) :
    cfg.blockStart ≠ [] ∧ cfg.blockEnd ≠ [] ∧ cfg.varStart ≠ [] ∧ cfg.varEnd ≠ [] ∧ cfg.commentStart ≠ [] ∧
    cfg.commentEnd ≠ [] ∧ (∀ p, cfg.lineStmt = some p → p ≠ []) ∧ (∀ p, cfg.lineComment = some p → p ≠ []) := by
  simp only [Cfg.Valid, Bool.and_eq_true, Bool.not_eq_true', List.isEmpty_eq_false_iff] at h
  obtain ⟨⟨⟨⟨⟨⟨⟨⟨h1, _⟩, ⟨h2, _⟩⟩, ⟨h3, _⟩⟩, ⟨h4, _⟩⟩, ⟨h5, _⟩⟩, ⟨h6, _⟩⟩, h7⟩, h8⟩ := h
  refine ⟨h1, h2, h3, h4, h5, h6, ?_, ?_⟩
  · intro p hp; rw [hp] at h7; simp only [Bool.and_eq_true, Bool.not_eq_true', List.isEmpty_eq_false_iff] at h7; exact h7.1
  · intro p hp; rw [hp] at h8; simp only [Bool.and_eq_true, Bool.not_eq_true', List.isEmpty_eq_false_iff] at h8; exact h8.1

theorem length_lt_of_append {m r s : Str} (e : m ++ r = s) (hm : m ≠ []) : r.length < s.length := by
  subst e
  cases m with
  | nil => exact absurd rfl hm
  | cons a m => simp; omega

theorem length_le_of_append {m r s : Str} (e : m ++ r = s) : r.length ≤ s.length := by
  subst e; simp

-- root alternatives -----------------------------------------------------------------------------------------

theorem matchKeywordTag_ne (bs kw : Str) (tail : Str → Option (Str × Str)) (s : Str) (m : Str × Str × Str)
    (hbs : bs ≠ []) (h : matchKeywordTag bs kw tail s = some m) : m.1 ≠ [] := by
  unfold matchKeywordTag at h
  split at h
  · simp at h
  · split at h
    · simp at h
    · split at h
      · simp at h
      · simp at h; subst h
        cases bs with
        | nil => exact absurd rfl hbs
        | cons a bs => simp

theorem matchDelim_ne (d s : Str) (m : Str × Str × Str) (hd : d ≠ []) (h : matchDelim d s = some m) : m.1 ≠ [] := by
  unfold matchDelim at h
  split at h
  · simp at h
  · simp at h; subst h
    cases d with
    | nil => exact absurd rfl hd
    | cons a d => simp

theorem matchPrefixed_ne (bl : Char → Bool) (p s : Str) (m : Str × Str × Str) (hp : p ≠ [])
    (h : matchPrefixed bl p s = some m) : m.1 ≠ [] := by
  unfold matchPrefixed at h
  split at h
  · simp at h
  · simp at h; subst h
    cases p with
    | nil => exact absurd rfl hp
    | cons a p => simp

theorem matchAlt_ne (cfg : Cfg) (hv : cfg.Valid = true) (prev : Option Char) (s : Str) (k : RootKind)
    (m : Str × Str × Str) (h : matchAlt cfg prev s k = some m) : m.1 ≠ [] := by
  obtain ⟨h1, _, h3, _, h5, _, h7, h8⟩ := valid_parts cfg hv
  cases k with
  | raw => exact matchKeywordTag_ne _ _ _ _ _ h1 h
  | comment => exact matchDelim_ne _ _ _ h5 h
  | block => exact matchDelim_ne _ _ _ h1 h
  | vari => exact matchDelim_ne _ _ _ h3 h
  | lineStmt =>
    simp only [matchAlt] at h
    split at h
    · simp at h
    · rename_i p hp
      split at h
      · exact matchPrefixed_ne _ _ _ _ (h7 p hp) h
      · simp at h
  | lineComment =>
    simp only [matchAlt] at h
    split at h
    · simp at h
    · rename_i p hp
      have hp' := h8 p hp
      repeat' split at h
      all_goals first | (simp at h; done) | exact matchPrefixed_ne _ _ _ _ hp' h

theorem firstAlt_ne (cfg : Cfg) (hv : cfg.Valid = true) (prev : Option Char) (s : Str) (alts : List RootKind)
    (k : RootKind) (m sg r : Str) (h : firstAlt cfg prev s alts = some (k, m, sg, r)) : m ≠ [] := by
  induction alts with
  | nil => simp [firstAlt] at h
  | cons a as ih =>
    unfold firstAlt at h
    split at h
    · rename_i m' sg' r' hm
      simp at h; obtain ⟨_, rfl, _, _⟩ := h
      exact matchAlt_ne cfg hv _ _ _ _ hm
    · exact ih h

/-- the `#bygroup` resolution always finds a group: a successful match of the root regex names the
    alternative that matched (a member of the rule list) -/
theorem firstAlt_mem (cfg : Cfg) (prev : Option Char) (s : Str) (alts : List RootKind)
    (k : RootKind) (m sg r : Str) (h : firstAlt cfg prev s alts = some (k, m, sg, r)) :
    k ∈ alts ∧ matchAlt cfg prev s k = some (m, sg, r) := by
  induction alts with
  | nil => simp [firstAlt] at h
  | cons a as ih =>
    unfold firstAlt at h
    split at h
    · rename_i m' sg' r' hm
      simp at h; obtain ⟨rfl, rfl, rfl, rfl⟩ := h
      exact ⟨List.mem_cons_self, hm⟩
    · have := ih h
      exact ⟨List.mem_cons_of_mem _ this.1, this.2⟩

theorem findRoot_ne (cfg : Cfg) (hv : cfg.Valid = true) (alts : List RootKind) (prev : Option Char) (s t : Str)
    (k : RootKind) (m sg r : Str) (h : findRoot cfg alts prev s = some (t, k, m, sg, r)) : m ≠ [] := by
  induction s generalizing prev t with
  | nil =>
    unfold findRoot at h
    split at h
    · rename_i k' m' sg' r' hf
      simp at h; obtain ⟨_, _, rfl, _, _⟩ := h
      exact firstAlt_ne cfg hv _ _ _ _ _ _ _ hf
    · simp at h
  | cons c cs ih =>
    unfold findRoot at h
    split at h
    · rename_i k' m' sg' r' hf
      simp at h; obtain ⟨_, _, rfl, _, _⟩ := h
      exact firstAlt_ne cfg hv _ _ _ _ _ _ _ hf
    · split at h
      · rename_i t' k' m' sg' r' hr
        simp at h; obtain ⟨_, rfl, rfl, rfl, rfl⟩ := h
        exact ih _ _ hr
      · simp at h

theorem findRoot_mem (cfg : Cfg) (alts : List RootKind) (prev : Option Char) (s t : Str)
    (k : RootKind) (m sg r : Str) (h : findRoot cfg alts prev s = some (t, k, m, sg, r)) :
    k ∈ alts ∧ ∃ prev', matchAlt cfg prev' (m ++ r) k = some (m, sg, r) := by
  induction s generalizing prev t with
  | nil =>
    unfold findRoot at h
    split at h
    · rename_i k' m' sg' r' hf
      simp at h; obtain ⟨_, rfl, rfl, rfl, rfl⟩ := h
      have e := firstAlt_eq _ _ _ _ _ _ _ _ hf
      have := firstAlt_mem _ _ _ _ _ _ _ _ hf
      exact ⟨this.1, prev, by rw [e]; exact this.2⟩
    · simp at h
  | cons c cs ih =>
    unfold findRoot at h
    split at h
    · rename_i k' m' sg' r' hf
      simp at h; obtain ⟨_, rfl, rfl, rfl, rfl⟩ := h
      have e := firstAlt_eq _ _ _ _ _ _ _ _ hf
      have := firstAlt_mem _ _ _ _ _ _ _ _ hf
      exact ⟨this.1, prev, by rw [e]; exact this.2⟩
    · split at h
      · rename_i t' k' m' sg' r' hr
        simp at h; obtain ⟨_, rfl, rfl, rfl, rfl⟩ := h
        exact ih _ _ hr
      · simp at h

-- tag rules -------------------------------------------------------------------------------------------------

theorem matchFloat_ne (prev : Option Char) (s : Str) (m : Str × Str) (h : matchFloat prev s = some m) : m.1 ≠ [] := by
  unfold matchFloat at h
  split at h
  · simp at h
  · split at h
    · simp at h
    · rename_i hne
      have hd : (digitRun s).1 ≠ [] := by
        intro e; apply hne; simp [e]
      split at h
      · split at h
        · simp at h; subst h; simp [hd]
        · simp at h; subst h; simp [hd]
      · split at h
        · simp at h; subst h; simp [hd]
        · simp at h

theorem matchPrefInt_ne (x : Char) (ok : Char → Bool) (s : Str) (m : Str × Str)
    (h : matchPrefInt x ok s = some m) : m.1 ≠ [] := by
  unfold matchPrefInt at h
  split at h
  · split at h
    · split at h
      · simp at h
      · simp at h; subst h; simp
    · simp at h
  · simp at h

theorem matchDecInt_ne (s : Str) (m : Str × Str) (h : matchDecInt s = some m) : m.1 ≠ [] := by
  unfold matchDecInt at h
  split at h
  · split at h
    · simp at h; subst h; simp
    · split at h
      · simp at h; subst h; simp
      · simp at h
  · simp at h

theorem matchInt_ne (s : Str) (m : Str × Str) (h : matchInt s = some m) : m.1 ≠ [] := by
  unfold matchInt at h
  split at h
  · rename_i m0 hm; simp at h; subst h; exact matchPrefInt_ne _ _ _ _ hm
  · split at h
    · rename_i m0 hm; simp at h; subst h; exact matchPrefInt_ne _ _ _ _ hm
    · split at h
      · rename_i m0 hm; simp at h; subst h; exact matchPrefInt_ne _ _ _ _ hm
      · exact matchDecInt_ne _ _ h

theorem matchName_ne (s : Str) (m : Str × Str) (h : matchName s = some m) : m.1 ≠ [] := by
  unfold matchName at h
  split at h
  · simp at h
  · rename_i hne
    simp at h; subst h
    intro e; apply hne; simp at e ⊢; exact e

theorem matchString_ne (s : Str) (m : Str × Str) (h : matchString s = some m) : m.1 ≠ [] := by
  unfold matchString at h
  split at h
  · rename_i r0
    cases hb : strBody '\'' r0 with
    | none => simp [hb] at h
    | some br => simp [hb] at h; subst h; simp
  · rename_i r0
    cases hb : strBody '"' r0 with
    | none => simp [hb] at h
    | some br => simp [hb] at h; subst h; simp
  · simp at h

theorem matchOp_ne (s : Str) (m : Str × Str) (h : matchOp s = some m) : m.1 ≠ [] := by
  unfold matchOp at h
  split at h
  · rename_i mr hf
    simp at h; subst h
    obtain ⟨o, ho, hx⟩ := List.exists_of_findSome?_eq_some hf
    cases hd : dropPrefix? o s with
    | none => simp [hd] at hx
    | some r' =>
      simp [hd] at hx; subst hx
      simp only [ops2, List.mem_cons, List.not_mem_nil, or_false] at ho
      rcases ho with rfl | rfl | rfl | rfl | rfl | rfl <;> simp
  · split at h
    · split at h
      · simp at h; subst h; simp
      · simp at h
    · simp at h

/-- no tag rule matches the empty string: the `yielded empty string without stack change` branch of
    tokeniter (lexer.py:851-855) cannot be taken -/
theorem tagRule_ne (prev : Option Char) (s : Str) (k : TK) (m r : Str)
    (h : tagRule prev s = .tok k m r) : m ≠ [] := by
  unfold tagRule at h
  split at h
  · rename_i hw
    simp at h; obtain ⟨_, rfl, _⟩ := h
    intro e; simp [e] at hw
  · split at h
    · rename_i m' hm; simp at h; obtain ⟨_, rfl, rfl⟩ := h; exact matchFloat_ne _ _ _ hm
    · split at h
      · rename_i m' hm; simp at h; obtain ⟨_, rfl, rfl⟩ := h; exact matchInt_ne _ _ hm
      · split at h
        · rename_i m' hm; simp at h; obtain ⟨_, rfl, rfl⟩ := h; exact matchName_ne _ _ hm
        · split at h
          · rename_i m' hm; simp at h; obtain ⟨_, rfl, rfl⟩ := h; exact matchString_ne _ _ hm
          · split at h
            · rename_i m' hm; simp at h; obtain ⟨_, rfl, rfl⟩ := h; exact matchOp_ne _ _ hm
            · simp at h

theorem emit_stack (l : Loop) (k : TK) (text : Str) (a : Bool) : (emit l k text a).stack = l.stack := by
  unfold emit; split <;> rfl

theorem tagStep_progress (l l' : Loop) (s rest : Str) (h : tagStep l s = .ok (l', rest)) (hs : s ≠ []) :
    rest.length < s.length ∧ l'.stack = l.stack := by
  unfold tagStep at h
  split at h
  · rename_i k text rest' hr
    cases hb : balanceFor k l.balancing text with
    | error e' => simp [hb] at h
    | ok b =>
      simp [hb] at h
      obtain ⟨rfl, rfl⟩ := h
      refine ⟨length_lt_of_append (tagRule_eq _ _ _ _ _ hr) (tagRule_ne _ _ _ _ _ hr), ?_⟩
      simp [emit_stack]
  · split at h
    · simp at h
    · exact absurd rfl hs

end JinjaV.Lex
