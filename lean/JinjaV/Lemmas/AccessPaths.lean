/-
  `allWorlds` (Gen/AccessPaths.lean) lists every `World`: a statement checked on the list holds for all worlds.
-/
import JinjaV.Model.AccessCheck

namespace JinjaV.AccessCheck
open JinjaV.Gen.AccessPaths

theorem allWorlds_complete (w : World) : w ∈ allWorlds := by
  obtain ⟨a, i, t, f, s⟩ := w
  simp only [allWorlds, List.mem_flatMap, List.mem_map]
  refine ⟨a, ?_, i, ?_, t, ?_, f, ?_, s, ?_, rfl⟩
  · cases a <;> decide
  · rcases i with _ | e
    · decide
    · cases e <;> decide
  · rcases t with _ | e
    · decide
    · cases e <;> decide
  · cases f <;> decide
  · cases s <;> decide

/-- a Boolean statement that evaluates to true on the whole list holds for every world -/
theorem forall_of_all {p : World → Bool} (h : allWorlds.all p = true) (w : World) : p w = true :=
  List.all_eq_true.mp h w (allWorlds_complete w)

end JinjaV.AccessCheck
