import JinjaV.Model.DebugInfo
namespace JinjaV.DebugInfo

def Monotone (t : List (Nat × Nat)) : Prop := t.Pairwise (fun p q => p.2 < q.2)

/-- the bookkeeping invariant kept by every operation -/
structure Inv (g : Gen) : Prop where
  pos : 1 ≤ g.codeLineno
  mono : Monotone g.debugInfo
  bound : ∀ p ∈ g.debugInfo, 2 ≤ p.2 ∧ p.2 ≤ g.codeLineno
  last : g.writeDebugInfo = some g.lastLine ∨
         (g.writeDebugInfo = none ∧ ((∃ c, g.debugInfo.getLast? = some (g.lastLine, c)) ∨ (g.debugInfo = [] ∧ g.lastLine = 0)))

theorem inv_init : Inv init := by
  refine ⟨by decide, by simp [init, Monotone], by simp [init], ?_⟩
  right; simp [init]

theorem inv_newline (g : Gen) (n : Option Nat) (e : Nat) (h : Inv g) : Inv (newline g n e) := by
  unfold newline
  cases n with
  | none => exact ⟨h.pos, h.mono, h.bound, h.last⟩
  | some ln =>
    simp only
    split
    · exact ⟨h.pos, h.mono, h.bound, Or.inl rfl⟩
    · exact ⟨h.pos, h.mono, h.bound, h.last⟩

theorem monotone_snoc (t : List (Nat × Nat)) (p : Nat × Nat) (h : Monotone t) (hb : ∀ q ∈ t, q.2 < p.2) :
    Monotone (t ++ [p]) := by
  unfold Monotone at *
  rw [List.pairwise_append]
  refine ⟨h, by simp, ?_⟩
  intro a ha b hb'
  simp at hb'
  subst hb'
  exact hb a ha

theorem inv_write (g : Gen) (x : Str) (h : Inv g) : Inv (write g x) := by
  unfold write
  split
  · rename_i hn
    have hn' : 0 < g.newLines := by
      simp at hn; omega
    cases hf : g.firstWrite
    · simp only [Bool.not_false, if_true]
      cases hw : g.writeDebugInfo with
      | none =>
        simp only
        refine ⟨by simp; have := h.pos; omega, h.mono, ?_, ?_⟩
        · intro p hp; have := h.bound p hp; simp; omega
        · have := h.last; simp [hw] at this ⊢; exact this
      | some w =>
        simp only
        refine ⟨by simp; have := h.pos; omega, ?_, ?_, ?_⟩
        · apply monotone_snoc _ _ h.mono
          intro q hq; have := h.bound q hq; simp; omega
        · intro p hp
          simp at hp
          rcases hp with hp | rfl
          · have := h.bound p hp; simp; omega
          · have := h.pos; simp; omega
        · right
          have := h.last
          simp [hw] at this
          simp [this]
    · simp only [Bool.not_true, Bool.false_eq_true, if_false]
      exact ⟨h.pos, h.mono, h.bound, h.last⟩
  · exact ⟨h.pos, h.mono, h.bound, h.last⟩

theorem inv_step (g : Gen) (op : Op) (h : Inv g) : Inv (step g op) := by
  cases op with
  | write x => exact inv_write g x h
  | newline n e => exact inv_newline g n e h
  | indent => exact ⟨h.pos, h.mono, h.bound, h.last⟩
  | outdent k => exact ⟨h.pos, h.mono, h.bound, h.last⟩

theorem inv_run (g : Gen) (ops : List Op) (h : Inv g) : Inv (run g ops) := by
  induction ops generalizing g with
  | nil => exact h
  | cons op r ih => exact ih _ (inv_step g op h)

theorem run_append (g : Gen) (a b : List Op) : run g (a ++ b) = run (run g a) b := by
  simp [run, List.foldl_append]


theorem scan_skip (ℓ : Nat) (l r : List (Nat × Nat)) (h : ∀ p ∈ l, ℓ < p.2) : scan ℓ (l ++ r) = scan ℓ r := by
  induction l with
  | nil => rfl
  | cons p l ih =>
    obtain ⟨tl, cl⟩ := p
    have h1 : ℓ < cl := h (tl, cl) (by simp)
    simp only [List.cons_append, scan]
    rw [if_neg (by omega)]
    exact ih (fun q hq => h q (by simp [hq]))

theorem scan_nil_of_all_gt (ℓ : Nat) (l : List (Nat × Nat)) (h : ∀ p ∈ l, ℓ < p.2) : scan ℓ l = 1 := by
  have := scan_skip ℓ l [] h
  simpa [scan] using this

/-- in a monotone table everything after an entry above ℓ is above ℓ -/
theorem monotone_tail_gt (b : List (Nat × Nat)) (ℓ : Nat) (hm : Monotone b) (hh : ∀ q, b.head? = some q → ℓ < q.2) :
    ∀ p ∈ b, ℓ < p.2 := by
  cases b with
  | nil => simp
  | cons q r =>
    have hq : ℓ < q.2 := hh q rfl
    intro p hp
    simp at hp
    rcases hp with rfl | hp
    · exact hq
    · have := (List.pairwise_cons.mp hm).1 p hp
      omega

theorem corresponding_snoc_le (t : List (Nat × Nat)) (tl cl ℓ : Nat) (h : cl ≤ ℓ) :
    correspondingLineno (t ++ [(tl, cl)]) ℓ = tl := by
  simp [correspondingLineno, scan, h]

/-- the result is 1 or a template line of the table -/
theorem scan_mem (ℓ : Nat) (l : List (Nat × Nat)) : scan ℓ l = 1 ∨ ∃ p ∈ l, p.1 = scan ℓ l := by
  induction l with
  | nil => left; rfl
  | cons p l ih =>
    obtain ⟨tl, cl⟩ := p
    simp only [scan]
    split
    · right; exact ⟨(tl, cl), by simp, rfl⟩
    · rcases ih with h | ⟨q, hq, e⟩
      · left; exact h
      · right; exact ⟨q, by simp [hq], e⟩


/-- the state in which template line `n` is the line reported for every code line from `c0` on:
    the last table entry carries `n`, sits at or below `c0`, nothing is pending, and `n` is the last marked line -/
structure Holds (n c0 : Nat) (g : Gen) : Prop where
  inv : Inv g
  le : c0 ≤ g.codeLineno
  pend : g.writeDebugInfo = none
  lastLine : g.lastLine = n
  entry : ∃ c, g.debugInfo.getLast? = some (n, c) ∧ c ≤ c0

/-- operations that do not announce a node on another line -/
def Op.quiet (n : Nat) : Op → Prop
  | .newline (some m) _ => m = n
  | _ => True

theorem holds_step (n c0 : Nat) (g : Gen) (op : Op) (h : Holds n c0 g) (hq : op.quiet n) : Holds n c0 (step g op) := by
  have hi := inv_step g op h.inv
  cases op with
  | indent => exact ⟨hi, h.le, h.pend, h.lastLine, h.entry⟩
  | outdent k => exact ⟨hi, h.le, h.pend, h.lastLine, h.entry⟩
  | newline m e =>
    refine ⟨hi, ?_, ?_, ?_, ?_⟩ <;> cases m with
    | none => first | exact h.le | exact h.pend | exact h.lastLine | exact h.entry
    | some m =>
      have : m = n := hq
      subst this
      have e1 : step g (.newline (some m) e) = { g with newLines := max g.newLines (1 + e) } := by
        simp [step, newline, h.lastLine]
      rw [e1]
      first | exact h.le | exact h.pend | exact h.lastLine | exact h.entry
  | write x =>
    have hp := h.pend
    refine ⟨hi, ?_, ?_, ?_, ?_⟩
    · simp only [step, write]
      split
      · cases g.firstWrite <;> simp [hp] <;> have := h.le <;> omega
      · exact h.le
    · simp only [step, write]
      split
      · cases g.firstWrite <;> simp [hp]
      · exact hp
    · simp only [step, write]
      split
      · cases g.firstWrite <;> simp [hp, h.lastLine]
      · exact h.lastLine
    · simp only [step, write]
      split
      · cases g.firstWrite <;> simp [hp] <;> exact h.entry
      · exact h.entry

theorem holds_run (n c0 : Nat) (g : Gen) (ops : List Op) (h : Holds n c0 g) (hq : ∀ op ∈ ops, op.quiet n) :
    Holds n c0 (run g ops) := by
  induction ops generalizing g with
  | nil => exact h
  | cons op r ih =>
    exact ih _ (holds_step n c0 g op h (hq op (by simp))) (fun o ho => hq o (by simp [ho]))

theorem holds_corresponding (n c0 : Nat) (g : Gen) (h : Holds n c0 g) (ℓ : Nat) (hl : c0 ≤ ℓ) :
    correspondingLineno g.debugInfo ℓ = n := by
  obtain ⟨c, hc, hle⟩ := h.entry
  obtain ⟨t, ht⟩ : ∃ t, g.debugInfo = t ++ [(n, c)] := by
    have := List.getLast?_eq_some_iff.mp hc
    exact this
  rw [ht]
  exact corresponding_snoc_le t n c ℓ (by omega)

/-- `newline(node)` directly followed by a `write`, once something was written before: the state `Holds` -/
theorem holds_after_newline_write (g : Gen) (n e : Nat) (x : Str) (hi : Inv g) (hf : g.firstWrite = false) (hn : 1 ≤ n) :
    Holds n (write (newline g (some n) e) x).codeLineno (write (newline g (some n) e) x) := by
  have hinv : Inv (write (newline g (some n) e) x) := inv_write _ _ (inv_newline _ _ _ hi)
  have hmax : max g.newLines (1 + e) ≠ 0 := by omega
  by_cases hne : (n != g.lastLine) = true
  · -- a new line is announced and recorded by this write
    have e1 : write (newline g (some n) e) x =
        { g with newLines := 0, writeDebugInfo := none, lastLine := n, firstWrite := false,
                 codeLineno := g.codeLineno + max g.newLines (1 + e),
                 debugInfo := g.debugInfo ++ [(n, g.codeLineno + max g.newLines (1 + e))],
                 streamRev := x.reverse ++ ((indentText g.indentation).reverse ++
                   (List.replicate (max g.newLines (1 + e)) '\n' ++ g.streamRev)) } := by
      simp [newline, hne, write, hf, hmax]
    rw [e1] at hinv ⊢
    exact ⟨hinv, Nat.le_refl _, rfl, rfl, ⟨_, by simp, Nat.le_refl _⟩⟩
  · have heq : n = g.lastLine := by simpa using hne
    rcases hi.last with hl | ⟨hl, hl2 | hl2⟩
    · -- the same line is still pending: recorded by this write
      have e1 : write (newline g (some n) e) x =
          { g with newLines := 0, writeDebugInfo := none, firstWrite := false,
                   codeLineno := g.codeLineno + max g.newLines (1 + e),
                   debugInfo := g.debugInfo ++ [(n, g.codeLineno + max g.newLines (1 + e))],
                   streamRev := x.reverse ++ ((indentText g.indentation).reverse ++
                     (List.replicate (max g.newLines (1 + e)) '\n' ++ g.streamRev)) } := by
        simp [newline, write, hf, hmax, hl, heq]
      rw [e1] at hinv ⊢
      exact ⟨hinv, Nat.le_refl _, rfl, heq.symm, ⟨_, by simp, Nat.le_refl _⟩⟩
    · -- the same line was recorded last: the existing entry covers the new code line
      obtain ⟨c, hc⟩ := hl2
      have e1 : write (newline g (some n) e) x =
          { g with newLines := 0, firstWrite := false,
                   codeLineno := g.codeLineno + max g.newLines (1 + e),
                   streamRev := x.reverse ++ ((indentText g.indentation).reverse ++
                     (List.replicate (max g.newLines (1 + e)) '\n' ++ g.streamRev)) } := by
        simp [newline, hne, write, hf, hmax, hl]
      rw [e1] at hinv ⊢
      have hm : (g.lastLine, c) ∈ g.debugInfo := List.mem_of_getLast? hc
      have hb := (hi.bound _ hm).2
      refine ⟨hinv, Nat.le_refl _, hl, heq.symm, ⟨c, ?_, ?_⟩⟩
      · rw [heq]; exact hc
      · show c ≤ g.codeLineno + max g.newLines (1 + e)
        simp at hb; omega
    · omega


def countNl (s : Str) : Nat := s.count '\n'

/-- no `write` of the sequence carries a line break in its text -/
def NoNl (ops : List Op) : Prop := ∀ x, Op.write x ∈ ops → '\n' ∉ x

theorem countNl_indent (n : Int) : countNl (indentText n) = 0 := by
  unfold indentText countNl
  rw [List.count_eq_zero]
  intro h
  simp [List.mem_replicate] at h
  obtain ⟨l, ⟨_, rfl⟩, hm⟩ := h
  simp at hm

theorem countNl_replicate (k : Nat) : countNl (List.replicate k '\n') = k := by
  simp [countNl]

theorem countNl_nonl (x : Str) (h : '\n' ∉ x) : countNl x = 0 := by
  simp [countNl, List.count_eq_zero, h]

/-- `code_lineno` is the 1-based number of the line being written -/
def Tracks (g : Gen) : Prop := g.codeLineno = 1 + countNl g.streamRev

theorem tracks_step (g : Gen) (op : Op) (h : Tracks g) (hx : ∀ x, op = .write x → '\n' ∉ x) : Tracks (step g op) := by
  cases op with
  | indent => exact h
  | outdent k => exact h
  | newline n e =>
    cases n with
    | none => exact h
    | some m => simp only [step, newline]; split <;> exact h
  | write x =>
    have hx0 : List.count '\n' x = 0 := countNl_nonl x (hx x rfl)
    have hi0 : List.count '\n' (indentText g.indentation) = 0 := countNl_indent g.indentation
    unfold Tracks at *
    unfold countNl at *
    simp only [step, write]
    split
    · cases g.firstWrite
      · cases g.writeDebugInfo <;>
          simp only [Bool.not_false, if_true, List.count_append, List.count_reverse, hx0, hi0,
            List.count_replicate_self, h] <;> omega
      · simp only [Bool.not_true, Bool.false_eq_true, if_false, List.count_append, List.count_reverse, hx0, hi0, h]
        omega
    · simp only [List.count_append, List.count_reverse, hx0, h]; omega

theorem tracks_run (g : Gen) (ops : List Op) (h : Tracks g) (hx : NoNl ops) : Tracks (run g ops) := by
  induction ops generalizing g with
  | nil => exact h
  | cons op r ih =>
    refine ih _ (tracks_step g op h ?_) ?_
    · intro x e; subst e; exact hx x (by simp)
    · intro x hm; exact hx x (by simp [hm])

/-- every template line in the table was the line of a node passed to `newline` -/
def NodeLines (ops : List Op) (n : Nat) : Prop := ∃ e, Op.newline (some n) e ∈ ops

structure FromNodes (P : Nat → Prop) (g : Gen) : Prop where
  table : ∀ p ∈ g.debugInfo, P p.1
  pending : ∀ w, g.writeDebugInfo = some w → P w

theorem fromNodes_step (P : Nat → Prop) (g : Gen) (op : Op) (h : FromNodes P g)
    (hp : ∀ n e, op = .newline (some n) e → P n) : FromNodes P (step g op) := by
  cases op with
  | indent => exact ⟨h.table, h.pending⟩
  | outdent k => exact ⟨h.table, h.pending⟩
  | newline n e =>
    cases n with
    | none => exact ⟨h.table, h.pending⟩
    | some m =>
      simp only [step, newline]
      split
      · exact ⟨h.table, by intro w hw; simp at hw; subst hw; exact hp m e rfl⟩
      · exact ⟨h.table, h.pending⟩
  | write x =>
    simp only [step, write]
    split
    · cases g.firstWrite
      · cases hw : g.writeDebugInfo with
        | none => exact ⟨h.table, by simp⟩
        | some w =>
          refine ⟨?_, by simp⟩
          intro p hp'
          simp at hp'
          rcases hp' with hp' | rfl
          · exact h.table p hp'
          · exact h.pending w hw
      · exact ⟨h.table, h.pending⟩
    · exact ⟨h.table, h.pending⟩

theorem fromNodes_run (g : Gen) (ops pre : List Op) (h : FromNodes (NodeLines (pre ++ ops)) g) :
    FromNodes (NodeLines (pre ++ ops)) (run g ops) := by
  induction ops generalizing g pre with
  | nil => exact h
  | cons op r ih =>
    have e : pre ++ op :: r = (pre ++ [op]) ++ r := by simp
    rw [e] at h ⊢
    refine ih _ _ (fromNodes_step _ g op h ?_)
    intro n e' ho; subst ho
    exact ⟨e', by simp⟩


theorem digitVal_digitChar_fin : ∀ d : Fin 10, digitVal? (digitChar d.val) = some d.val := by decide

theorem digitVal_digitChar (d : Nat) (h : d < 10) : digitVal? (digitChar d) = some d :=
  digitVal_digitChar_fin ⟨d, h⟩

theorem digitChar_ne_fin : ∀ d : Fin 10, digitChar d.val ≠ '&' ∧ digitChar d.val ≠ '=' := by decide

theorem digitsAux_ne_nil (f n : Nat) : digitsAux f n ≠ [] := by
  cases f <;> simp [digitsAux]
  split <;> simp

theorem digits_ne_nil (n : Nat) : digits n ≠ [] := digitsAux_ne_nil n n

theorem digitsAux_no_sep (f n : Nat) (hf : n ≤ f) : '&' ∉ digitsAux f n ∧ '=' ∉ digitsAux f n := by
  induction f generalizing n with
  | zero =>
    have : n = 0 := by omega
    subst this; decide
  | succ f ih =>
    simp only [digitsAux]
    split
    · rename_i h
      have := digitChar_ne_fin ⟨n, h⟩
      simp at this ⊢
      exact ⟨fun e => this.1 e.symm, fun e => this.2 e.symm⟩
    · have := digitChar_ne_fin ⟨n % 10, Nat.mod_lt _ (by decide)⟩
      have ih' := ih (n / 10) (by omega)
      simp at this ⊢
      exact ⟨⟨ih'.1, fun e => this.1 e.symm⟩, ⟨ih'.2, fun e => this.2 e.symm⟩⟩

theorem digits_no_sep (n : Nat) : '&' ∉ digits n ∧ '=' ∉ digits n := digitsAux_no_sep n n (Nat.le_refl _)

theorem parseNatAux_append (acc : Nat) (a b : Str) :
    parseNatAux acc (a ++ b) = (parseNatAux acc a).bind (fun v => parseNatAux v b) := by
  induction a generalizing acc with
  | nil => simp [parseNatAux]
  | cons c r ih =>
    simp only [List.cons_append, parseNatAux]
    cases digitVal? c with
    | none => simp
    | some d => exact ih _

theorem parseNatAux_digitsAux (f n : Nat) (hf : n ≤ f) : parseNatAux 0 (digitsAux f n) = some n := by
  induction f generalizing n with
  | zero =>
    have : n = 0 := by omega
    subst this; decide
  | succ f ih =>
    simp only [digitsAux]
    split
    · rename_i h
      simp [parseNatAux, digitVal_digitChar n h]
    · rw [parseNatAux_append, ih (n / 10) (by omega)]
      simp [parseNatAux, digitVal_digitChar (n % 10) (Nat.mod_lt _ (by decide))]
      omega

theorem parseNatAux_digits (n : Nat) : parseNatAux 0 (digits n) = some n :=
  parseNatAux_digitsAux n n (Nat.le_refl _)

theorem parseNat_digits (n : Nat) : parseNat (digits n) = some n := by
  have := digits_ne_nil n
  unfold parseNat
  split
  · contradiction
  · exact parseNatAux_digits n

theorem splitOn_nosep (sep : Char) (x : Str) (h : sep ∉ x) : splitOn sep x = [x] := by
  induction x with
  | nil => rfl
  | cons c r ih =>
    simp at h
    have hc : (c == sep) = false := by simp; exact fun e => h.1 e.symm
    simp [splitOn, hc, ih h.2]

theorem splitOn_append_sep (sep : Char) (x r : Str) (h : sep ∉ x) :
    splitOn sep (x ++ sep :: r) = x :: splitOn sep r := by
  induction x with
  | nil => simp [splitOn]
  | cons c x ih =>
    simp at h
    have hc : (c == sep) = false := by simp; exact fun e => h.1 e.symm
    simp [splitOn, hc, ih h.2]

theorem splitOn_intercalate (sep : Char) (ps : List Str) (hne : ps ≠ []) (h : ∀ p ∈ ps, sep ∉ p) :
    splitOn sep (intercalate [sep] ps) = ps := by
  induction ps with
  | nil => contradiction
  | cons x r ih =>
    cases r with
    | nil => simp [intercalate]; exact splitOn_nosep sep x (h x (by simp))
    | cons y r' =>
      simp only [intercalate]
      rw [List.append_assoc]
      simp only [List.singleton_append]
      rw [splitOn_append_sep sep x _ (h x (by simp))]
      rw [ih (by simp) (fun p hp => h p (by simp [hp]))]

def encPair (p : Nat × Nat) : Str := digits p.1 ++ ['='] ++ digits p.2

theorem decodePair_encPair (p : Nat × Nat) : decodePair (encPair p) = some p := by
  unfold decodePair encPair
  rw [List.append_assoc]
  simp only [List.singleton_append]
  rw [splitOn_append_sep '=' _ _ (digits_no_sep p.1).2, splitOn_nosep '=' _ (digits_no_sep p.2).2]
  simp [parseNat_digits]

theorem encPair_no_amp (p : Nat × Nat) : '&' ∉ encPair p := by
  unfold encPair
  simp [(digits_no_sep p.1).1, (digits_no_sep p.2).1]

theorem mapM_decode (t : List (Nat × Nat)) : mapM? decodePair (t.map encPair) = some t := by
  induction t with
  | nil => rfl
  | cons p r ih => simp [mapM?, decodePair_encPair, ih]

theorem intercalate_ne_nil (sep : Str) (ps : List Str) (h : ∃ p ∈ ps, p ≠ []) : intercalate sep ps ≠ [] := by
  induction ps with
  | nil => simp at h
  | cons x r ih =>
    cases r with
    | nil => simpa [intercalate] using h
    | cons y r' =>
      simp only [intercalate]
      intro e
      simp at e
      obtain ⟨e1, e2, e3⟩ := e
      subst e1
      rcases h with ⟨p, hp, hne⟩
      simp at hp
      rcases hp with rfl | hp
      · exact hne rfl
      · exact ih ⟨p, by simpa using hp, hne⟩ e3

theorem encode_eq (t : List (Nat × Nat)) : encode t = intercalate ['&'] (t.map encPair) := rfl

theorem decode_encode (t : List (Nat × Nat)) : decode (encode t) = some t := by
  cases t with
  | nil => rfl
  | cons p r =>
    rw [encode_eq]
    have hne : intercalate ['&'] ((p :: r).map encPair) ≠ [] := by
      apply intercalate_ne_nil
      refine ⟨encPair p, by simp, ?_⟩
      unfold encPair; simp
    unfold decode
    have : (intercalate ['&'] ((p :: r).map encPair)).isEmpty = false := by
      simpa [List.isEmpty_iff] using hne
    rw [this]
    simp only [Bool.false_eq_true, if_false]
    rw [splitOn_intercalate '&' _ (by simp)]
    · exact mapM_decode (p :: r)
    · intro q hq
      simp only [List.mem_map] at hq
      obtain ⟨p', _, rfl⟩ := hq
      exact encPair_no_amp p'

end JinjaV.DebugInfo
