/-
  Lemmas for Model/DumpScope.lean: what the guarded, `self.find_ref` form of `Symbols.dump_stores` computes.  Core Lean only.
-/
import JinjaV.Model.DumpScope
namespace JinjaV.DumpScope

/-- the form of `dump_stores` in the unchanged tree: `if name not in rv: rv[name] = self.find_ref(name)` -/
def P0 : DumpProg := { guardAbsent := true, value := .findRefFromSelf }

theorem hasKey_append (rv : Scope) (k : String) (kv : String × Text) :
    hasKey (rv ++ [kv]) k = (hasKey rv k || kv.1 == k) := by simp [hasKey]

theorem hasKey_eq_isSome (rv : Scope) (k : String) : hasKey rv k = (rv.lookup k).isSome := by
  induction rv with
  | nil => rfl
  | cons kv rv ih =>
    obtain ⟨a, b⟩ := kv
    by_cases h : k = a
    · subst h; simp [hasKey, List.lookup]
    · have h1 : (k == a) = false := by simpa using h
      have h2 : (a == k) = false := by simpa using fun e : a = k => h e.symm
      simp only [hasKey, List.any_cons, h2, Bool.false_or, List.lookup, h1]
      exact ih

theorem lookup_none_of_not_hasKey (rv : Scope) (k : String) (h : hasKey rv k = false) : rv.lookup k = none := by
  rw [hasKey_eq_isSome] at h
  cases hl : rv.lookup k with
  | none => rfl
  | some v => simp [hl] at h

theorem lookup_append_new (rv : Scope) (k x : String) (v : Text) (h : hasKey rv k = false) :
    (rv ++ [(k, v)]).lookup x = if x = k then some v else rv.lookup x := by
  induction rv with
  | nil =>
    by_cases hx : x = k
    · subst hx; simp [List.lookup]
    · have : (x == k) = false := by simpa using hx
      simp [List.lookup, hx, this]
  | cons kv rv ih =>
    obtain ⟨a, b⟩ := kv
    simp only [hasKey, List.any_cons, Bool.or_eq_false_iff] at h
    have hak : ¬ a = k := by simpa using h.1
    by_cases hxa : x = a
    · subst hxa
      simp [List.lookup, hak]
    · have : (x == a) = false := by simpa using hxa
      simp only [List.cons_append, List.lookup, this]
      exact ih h.2

/-- every binding in `rv` is the innermost binding of its name -/
def Sound (full rv : Scope) : Prop := ∀ x v, rv.lookup x = some v → full.lookup x = some v

theorem stepScope_P0 (full here : Scope) : (scope : Scope) → (rv : Scope) → Sound full rv →
    (∀ kv ∈ scope, hasKey full kv.1 = true) →
    Sound full (stepScope P0 full here rv scope) ∧
    (∀ k, hasKey (stepScope P0 full here rv scope) k = (hasKey rv k || hasKey scope k))
  | [], rv, hs, _ => ⟨hs, by simp [stepScope, hasKey]⟩
  | kv :: scope, rv, hs, hin => by
    have hin' : ∀ kv' ∈ scope, hasKey full kv'.1 = true := fun kv' h => hin kv' (List.mem_cons_of_mem _ h)
    simp only [stepScope, List.foldl_cons, P0, Bool.true_and]
    by_cases hk : hasKey rv kv.1 = true
    · simp only [hk, if_true]
      obtain ⟨s1, s2⟩ := stepScope_P0 full here scope rv hs hin'
      refine ⟨s1, fun k => ?_⟩
      have := s2 k
      simp only [stepScope, P0, Bool.true_and] at this
      rw [this]
      simp only [hasKey, List.any_cons]
      cases h1 : (kv.1 == k) with
      | false => simp
      | true =>
        have e : kv.1 = k := by simpa using h1
        subst e
        simp only [hasKey] at hk
        simp [hk]
    · have hk' : hasKey rv kv.1 = false := by simpa using hk
      simp only [hk', Bool.false_eq_true, if_false, setKey, valueOf]
      have hfull := hin kv (List.mem_cons_self ..)
      have hs' : Sound full (rv ++ [(kv.1, (full.lookup kv.1).getD [])]) := by
        intro x v hx
        rw [lookup_append_new rv kv.1 x _ hk'] at hx
        by_cases e : x = kv.1
        · rw [e] at hx ⊢
          simp only [if_true, Option.some.injEq] at hx
          rw [hasKey_eq_isSome] at hfull
          cases hl : full.lookup kv.1 with
          | none => rw [hl] at hfull; cases hfull
          | some w => rw [hl] at hx; simp only [Option.getD_some] at hx; rw [hx]
        · simp only [e, if_false] at hx; exact hs x v hx
      obtain ⟨s1, s2⟩ := stepScope_P0 full here scope _ hs' hin'
      refine ⟨s1, fun k => ?_⟩
      have := s2 k
      simp only [stepScope, P0, Bool.true_and, setKey, valueOf] at this
      rw [this, hasKey_append]
      simp [hasKey, Bool.or_assoc]

theorem hasKey_flatten_of_mem {chain : List Scope} {s : Scope} (hs : s ∈ chain) {kv : String × Text} (hkv : kv ∈ s) :
    hasKey chain.flatten kv.1 = true := by
  simp only [hasKey, List.any_eq_true, List.mem_flatten]
  exact ⟨kv, ⟨s, hs, hkv⟩, by simp⟩

theorem go_P0 (full : Scope) : (chain : List Scope) → (rv : Scope) → Sound full rv →
    (∀ s ∈ chain, ∀ kv ∈ s, hasKey full kv.1 = true) →
    Sound full (go P0 full chain rv) ∧ (∀ k, hasKey (go P0 full chain rv) k = (hasKey rv k || hasKey chain.flatten k))
  | [], rv, hs, _ => ⟨hs, by simp [go, hasKey]⟩
  | s :: more, rv, hs, hin => by
    obtain ⟨a1, a2⟩ := stepScope_P0 full (s :: more).flatten s rv hs (hin s (List.mem_cons_self ..))
    obtain ⟨b1, b2⟩ := go_P0 full more _ a1 (fun s' h => hin s' (List.mem_cons_of_mem _ h))
    refine ⟨b1, fun k => ?_⟩
    simp only [go]
    rw [b2 k, a2 k]
    simp [hasKey, Bool.or_assoc]

/-- guarded, `self.find_ref(name)`: the dumped dict resolves every name like the scope chain read innermost first -/
theorem run_P0 (chain : List Scope) (x : String) : (run P0 chain).lookup x = chain.flatten.lookup x := by
  obtain ⟨h1, h2⟩ := go_P0 chain.flatten chain [] (by intro x v h; simp [List.lookup] at h)
    (fun s hs kv hkv => hasKey_flatten_of_mem hs hkv)
  have hk := h2 x
  simp only [hasKey, List.any_nil, Bool.false_or] at hk
  unfold run
  cases hl : (go P0 chain.flatten chain []).lookup x with
  | some v => exact (h1 x v hl).symm
  | none =>
    have : hasKey (go P0 chain.flatten chain []) x = false := by rw [hasKey_eq_isSome, hl]; rfl
    simp only [hasKey] at this
    rw [this] at hk
    have : hasKey chain.flatten x = false := by simp only [hasKey]; exact hk.symm
    exact (lookup_none_of_not_hasKey _ _ this).symm
end JinjaV.DumpScope
