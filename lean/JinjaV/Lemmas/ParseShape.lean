/-
  Lemmas about the begin/end automaton of Model/ParseShape.lean and the proof that `subparse` never
  reaches its `internal parsing error` branch on a stream of the regular shape.
-/
import JinjaV.Model.ParseShape

namespace JinjaV.ParseShape

theorem run_append (st : PS) (a b : List PK) :
    run st (a ++ b) = match run st a with | some s => run s b | none => none := by
  induction a generalizing st with
  | nil => simp [run]
  | cons k ks ih =>
    simp only [List.cons_append, run]
    cases delta st k with
    | none => rfl
    | some st' => exact ih st'

theorem run_take_succ (toks : List PTok) (p : Nat) (t : PTok) (h : toks[p]? = some t) (st : PS) :
    run st (kinds (toks.take (p + 1))) =
      match run st (kinds (toks.take p)) with | some s => delta s t.kind | none => none := by
  rw [List.take_add_one, h]
  simp only [kinds, List.map_append, Option.toList, List.map_cons, List.map_nil]
  rw [run_append]
  cases run st (List.map (fun x => x.kind) (List.take p toks)) with
  | none => rfl
  | some s => simp only [run]; cases delta s t.kind <;> rfl

/-- the shape is prefix closed: whatever prefix of the stream the parser has consumed (or the lexer
    produced before an error or the end of input) has the shape, too -/
theorem shape_prefix (toks : List PTok) (p : Nat) (h : Shape toks) : run .root (kinds (toks.take p)) ≠ none := by
  intro hn
  apply h
  have : toks = toks.take p ++ toks.drop p := (List.take_append_drop p toks).symm
  rw [this]
  simp only [kinds, List.map_append] at hn ⊢
  rw [run_append, hn]

/-- the stream position is between two complete segments -/
def RootPos (toks : List PTok) (p : Nat) : Prop := run .root (kinds (toks.take p)) = some .root

theorem rootPos_zero (toks : List PTok) : RootPos toks 0 := by simp [RootPos, kinds, run]

theorem root_kind (toks : List PTok) (p : Nat) (t : PTok) (hS : Shape toks) (hp : RootPos toks p)
    (ht : toks[p]? = some t) : t.kind = .data ∨ t.kind = .variableBegin ∨ t.kind = .blockBegin := by
  have h1 := shape_prefix toks (p + 1) hS
  rw [run_take_succ toks p t ht, hp] at h1
  simp only at h1
  cases hk : t.kind <;> simp [hk, delta] at h1 ⊢

theorem rootPos_data (toks : List PTok) (p : Nat) (t : PTok) (hp : RootPos toks p) (ht : toks[p]? = some t)
    (hk : t.kind = .data) : RootPos toks (p + 1) := by
  unfold RootPos
  rw [run_take_succ toks p t ht, hp, hk]
  rfl

theorem rootPos_end (toks : List PTok) (q : Nat) (t : PTok) (hS : Shape toks) (ht : toks[q]? = some t)
    (hk : t.kind = .variableEnd ∨ t.kind = .blockEnd) : RootPos toks (q + 1) := by
  have h1 := shape_prefix toks (q + 1) hS
  unfold RootPos
  rw [run_take_succ toks q t ht] at h1 ⊢
  cases hr : run .root (kinds (toks.take q)) with
  | none => rw [hr] at h1; exact absurd rfl h1
  | some s =>
    rw [hr] at h1
    simp only at h1 ⊢
    rcases hk with hk | hk <;> rw [hk] at h1 ⊢ <;> cases s <;> simp [delta, isInner] at h1 ⊢

theorem expect_ok (toks : List PTok) (k : PK) (p q : Nat) (h : expect toks k p = .ok q) :
    ∃ t, toks[p]? = some t ∧ t.kind = k ∧ q = p + 1 := by
  unfold expect at h
  split at h
  · rename_i t ht
    split at h
    · rename_i hk
      simp at h
      exact ⟨t, ht, hk, h.symm⟩
    · simp at h
  · simp at h

theorem expect_ne_internal (toks : List PTok) (k : PK) (p : Nat) : expect toks k p ≠ .internal := by
  unfold expect
  split
  · split <;> simp
  · simp

/-- a statement parser raises nothing but TemplateSyntaxError itself: an internal error can only come
    out of it if it came out of `parse_statements` -/
def Faithful (f : StmtParser) : Prop := ∀ cb p, f cb p = .internal → ∃ e d q, cb e d q = .internal

def Parsers.Faithful (P : Parsers) : Prop := ∀ tag f, P.stmt tag = some f → ParseShape.Faithful f

theorem parseStatements_no_internal (toks : List PTok) (hS : Shape toks) (sub : Option (List String) → Pos → Res)
    (hsub : ∀ ends p, RootPos toks p → sub ends p ≠ .internal) (e : List String) (d : Bool) (p : Pos) :
    parseStatements toks sub e d p ≠ .internal := by
  unfold parseStatements
  simp only
  split
  · rename_i q hq
    obtain ⟨t, ht, hk, rfl⟩ := expect_ok _ _ _ _ hq
    have hr := rootPos_end toks _ t hS ht (Or.inr hk)
    have := hsub (some e) _ hr
    split
    · split <;> simp
    · exact this
  · exact expect_ne_internal _ _ _

theorem parseStatement_no_internal (P : Parsers) (hP : P.Faithful) (toks : List PTok) (hS : Shape toks)
    (sub : Option (List String) → Pos → Res) (hsub : ∀ ends p, RootPos toks p → sub ends p ≠ .internal) (p : Pos) :
    parseStatement P toks sub p ≠ .internal := by
  unfold parseStatement
  split
  · simp
  · split
    · simp
    · split
      · simp
      · rename_i f hf
        intro hi
        obtain ⟨e, d, q, hc⟩ := hP _ f hf _ _ hi
        exact parseStatements_no_internal toks hS sub hsub e d q hc

theorem subparse_no_internal_aux (P : Parsers) (hP : P.Faithful) (toks : List PTok) (hS : Shape toks) :
    ∀ fuel ends p, RootPos toks p → subparse P toks fuel ends p ≠ .internal := by
  intro fuel
  induction fuel with
  | zero => intro ends p _; simp [subparse]
  | succ n ih =>
    intro ends p hp
    unfold subparse
    split
    · simp
    · rename_i t ht
      have hk := root_kind toks p t hS hp ht
      split
      · rename_i hd
        exact ih ends (p + 1) (rootPos_data toks p t hp ht hd)
      · split
        · simp
        · rename_i q hq
          split
          · rename_i q' hq'
            obtain ⟨t', ht', hk', rfl⟩ := expect_ok _ _ _ _ hq'
            exact ih ends _ (rootPos_end toks _ t' hS ht' (Or.inl hk'))
          · exact expect_ne_internal _ _ _
      · by_cases hc : atEnd toks ends (p + 1) = true
        · rw [if_pos hc]; simp
        · rw [if_neg hc]
          split
          · rename_i q hq
            split
            · rename_i q' hq'
              obtain ⟨t', ht', hk', rfl⟩ := expect_ok _ _ _ _ hq'
              exact ih ends _ (rootPos_end toks _ t' hS ht' (Or.inr hk'))
            · exact expect_ne_internal _ _ _
          · exact parseStatement_no_internal P hP toks hS _ (fun e q hq => ih e q hq) _
      · rename_i h1 h2 h3
        rcases hk with hk | hk | hk
        · exact absurd hk h1
        · exact absurd hk h2
        · exact absurd hk h3

theorem transBlock_no_internal_aux (toks : List PTok) (hS : Shape toks) (ap : Bool) :
    ∀ fuel p, RootPos toks p → transBlock toks ap fuel p ≠ .internal := by
  intro fuel
  induction fuel with
  | zero => intro p _; simp [transBlock]
  | succ n ih =>
    intro p hp
    unfold transBlock
    split
    · simp
    · rename_i t ht
      have hk := root_kind toks p t hS hp ht
      split
      · rename_i hd
        exact ih (p + 1) (rootPos_data toks p t hp ht hd)
      · split
        · rename_i q hq
          split
          · rename_i q' hq'
            obtain ⟨t', ht', hk', rfl⟩ := expect_ok _ _ _ _ hq'
            exact ih _ (rootPos_end toks _ t' hS ht' (Or.inl hk'))
          · exact expect_ne_internal _ _ _
        · exact expect_ne_internal _ _ _
      · split
        · split
          · simp
          · split <;> simp
        · simp
      · rename_i h1 h2 h3
        rcases hk with hk | hk | hk
        · exact absurd hk h1
        · exact absurd hk h2
        · exact absurd hk h3

end JinjaV.ParseShape
