/-
  Consistent renaming of identifiers (variables, macros, namespaces) for statements: definitions and the commutation
  lemmas for the interpreter's helpers.  The theorem itself is in Props/C03.lean.
-/
import JinjaV.Model.Stmt
import JinjaV.Lemmas.Rename

namespace JinjaV.Stmt
open JinjaV.Expr

def renBinds (ρ : String → String) (bs : List (String × Expr)) : List (String × Expr) :=
  bs.map (fun b => (ρ b.1, renExpr ρ b.2))
def renInits (ρ : String → String) (bs : List (String × Expr)) : List (String × Expr) :=
  bs.map (fun b => (b.1, renExpr ρ b.2))
def renParams (ρ : String → String) (ps : List (String × Option Expr)) : List (String × Option Expr) :=
  ps.map (fun p => (ρ p.1, renOpt ρ p.2))

mutual
def renStmt (ρ : String → String) : Stmt → Stmt
  | .text t => .text t
  | .out e => .out (renExpr ρ e)
  | .ifs bs els => .ifs (renBranches ρ bs) (renStmts ρ els)
  | .for_ t i f b e => .for_ (ρ t) (renExpr ρ i) (renOpt ρ f) (renStmts ρ b) (renStmts ρ e)
  | .set n e => .set (ρ n) (renExpr ρ e)
  | .setBlock n b => .setBlock (ρ n) (renStmts ρ b)
  | .with_ bs b => .with_ (renBinds ρ bs) (renStmts ρ b)
  | .macro n ps b => .macro (ρ n) (renParams ρ ps) (renStmts ρ b)
  | .callMacro n args => .callMacro (ρ n) (renList ρ args)
  | .callBlock n args b => .callBlock (ρ n) (renList ρ args) (renStmts ρ b)
  | .callerOut => .callerOut
  | .filterBlock f b => .filterBlock f (renStmts ρ b)
  | .nsNew n inits => .nsNew (ρ n) (renInits ρ inits)
  | .nsSet ns a e => .nsSet (ρ ns) a (renExpr ρ e)
  | .break_ => .break_
  | .continue_ => .continue_
def renStmts (ρ : String → String) : List Stmt → List Stmt
  | [] => []
  | s :: r => renStmt ρ s :: renStmts ρ r
def renBranches (ρ : String → String) : List (Expr × List Stmt) → List (Expr × List Stmt)
  | [] => []
  | (c, b) :: r => (renExpr ρ c, renStmts ρ b) :: renBranches ρ r
end

def renMacro (ρ : String → String) (m : MacroDef) : MacroDef :=
  { params := renParams ρ m.params, body := renStmts ρ m.body, depth := m.depth }
def renCaller (ρ : String → String) (c : CallerDef) : CallerDef := { body := renStmts ρ c.body, depth := c.depth, site := c.site }
def renFrame (ρ : String → String) (f : Frame) : Frame :=
  { vars := renVars ρ f.vars, macros := f.macros.map (fun p => (ρ p.1, renMacro ρ p.2)),
    caller := f.caller.map (renCaller ρ), assigns := f.assigns.map ρ }
def renSt (ρ : String → String) (st : St) : St :=
  { frames := st.frames.map (renFrame ρ), ns := st.ns, quirk := st.quirk, sites := st.sites.map (List.map (renFrame ρ)) }

def mapR (ρ : String → String) : R → R
  | .ok (st, out, sig) => .ok (renSt ρ st, out, sig)
  | .error e => .error e

/-! ### static helpers commute with renaming -/

mutual
theorem exprNames_ren (ρ : String → String) : (e : Expr) → exprNames (renExpr ρ e) = (exprNames e).map ρ
  | .const _ => by simp [renExpr, exprNames]
  | .name n => by simp [renExpr, exprNames]
  | .tuple es => by simp [renExpr, exprNames, exprNamesList_ren ρ es]
  | .list es => by simp [renExpr, exprNames, exprNamesList_ren ρ es]
  | .dict kvs => by simp [renExpr, exprNames, exprNamesPairs_ren ρ kvs]
  | .cond t a b => by simp [renExpr, exprNames, exprNames_ren ρ t, exprNames_ren ρ a, exprNamesOpt_ren ρ b]
  | .and_ a b => by simp [renExpr, exprNames, exprNames_ren ρ a, exprNames_ren ρ b]
  | .or_ a b => by simp [renExpr, exprNames, exprNames_ren ρ a, exprNames_ren ρ b]
  | .not_ a => by simp [renExpr, exprNames, exprNames_ren ρ a]
  | .compare e ops => by simp [renExpr, exprNames, exprNames_ren ρ e, exprNamesCmp_ren ρ ops]
  | .bin op a b => by simp [renExpr, exprNames, exprNames_ren ρ a, exprNames_ren ρ b]
  | .concat es => by simp [renExpr, exprNames, exprNamesList_ren ρ es]
  | .un op a => by simp [renExpr, exprNames, exprNames_ren ρ a]
  | .getattr e a => by simp [renExpr, exprNames, exprNames_ren ρ e]
  | .getitem e i => by simp [renExpr, exprNames, exprNames_ren ρ e, exprNames_ren ρ i]
  | .slice e a b s => by
    simp [renExpr, exprNames, exprNames_ren ρ e, exprNamesOpt_ren ρ a, exprNamesOpt_ren ρ b, exprNamesOpt_ren ρ s]
  | .call f args => by simp [renExpr, exprNames, exprNames_ren ρ f, exprNamesList_ren ρ args]
  | .filter e name args => by simp [renExpr, exprNames, exprNames_ren ρ e, exprNamesList_ren ρ args]
  | .test e name args => by simp [renExpr, exprNames, exprNames_ren ρ e, exprNamesList_ren ρ args]
theorem exprNamesList_ren (ρ : String → String) : (es : List Expr) → exprNamesList (renList ρ es) = (exprNamesList es).map ρ
  | [] => by simp [renList, exprNamesList]
  | e :: es => by simp [renList, exprNamesList, exprNames_ren ρ e, exprNamesList_ren ρ es]
theorem exprNamesPairs_ren (ρ : String → String) :
    (kvs : List (Expr × Expr)) → exprNamesPairs (renPairs ρ kvs) = (exprNamesPairs kvs).map ρ
  | [] => by simp [renPairs, exprNamesPairs]
  | (k, v) :: rest => by
    simp [renPairs, exprNamesPairs, exprNames_ren ρ k, exprNames_ren ρ v, exprNamesPairs_ren ρ rest]
theorem exprNamesOpt_ren (ρ : String → String) : (o : Option Expr) → exprNamesOpt (renOpt ρ o) = (exprNamesOpt o).map ρ
  | none => by simp [renOpt, exprNamesOpt]
  | some e => by simp [renOpt, exprNamesOpt, exprNames_ren ρ e]
theorem exprNamesCmp_ren (ρ : String → String) :
    (ops : List (CmpOp × Expr)) → exprNamesCmp (renCmp ρ ops) = (exprNamesCmp ops).map ρ
  | [] => by simp [renCmp, exprNamesCmp]
  | (op, e) :: rest => by simp [renCmp, exprNamesCmp, exprNames_ren ρ e, exprNamesCmp_ren ρ rest]
end

/-! ### state helpers commute with renaming (ρ injective) -/

section
variable (ρ : String → String) (hρ : Function.Injective ρ)

theorem renSt_frames (st : St) : (renSt ρ st).frames = st.frames.map (renFrame ρ) := rfl

theorem visibleVars_ren (st : St) (ctxVars : List (String × Val)) :
    visibleVars (renSt ρ st) (renVars ρ ctxVars) = renVars ρ (visibleVars st ctxVars) := by
  simp [visibleVars, renSt, renVars, renFrame, List.map_flatten, Function.comp_def]

theorem mkCtx_ren (st : St) (ctxVars : List (String × Val)) :
    mkCtx (renSt ρ st) (renVars ρ ctxVars) = renCtx ρ (mkCtx st ctxVars) := by
  simp [mkCtx, renCtx, visibleVars_ren]
  rfl

include hρ

theorem evalIn_ren (st : St) (ctxVars : List (String × Val)) (e : Expr) :
    evalIn (renSt ρ st) (renVars ρ ctxVars) (renExpr ρ e) = evalIn st ctxVars e := by
  simp [evalIn, mkCtx_ren, eval_rename ρ hρ]

theorem evalListIn_ren (st : St) (ctxVars : List (String × Val)) :
    (es : List Expr) → evalListIn (renSt ρ st) (renVars ρ ctxVars) (renList ρ es) = evalListIn st ctxVars es
  | [] => by simp [renList, evalListIn]
  | e :: es => by simp [renList, evalListIn, evalIn_ren ρ hρ, evalListIn_ren st ctxVars es]

theorem any_name_ren (vars : List (String × Val)) (n : String) :
    (renVars ρ vars).any (·.1 == ρ n) = vars.any (·.1 == n) := by
  induction vars with
  | nil => simp [renVars]
  | cons p rest ih =>
    simp only [renVars, List.map_cons, List.any_cons] at ih ⊢
    by_cases h : p.1 = n
    · simp [h]
    · have h' : ρ p.1 ≠ ρ n := fun e => h (hρ e)
      have e1 : (ρ p.1 == ρ n) = false := by simp [h']
      have e2 : (p.1 == n) = false := by simp [h]
      rw [e1, e2, ih]

theorem contains_ren (xs : List String) (n : String) : (xs.map ρ).contains (ρ n) = xs.contains n := by
  induction xs with
  | nil => simp
  | cons x rest ih =>
    simp only [List.map_cons, List.contains_cons, ih]
    by_cases h : n = x
    · simp [h]
    · have h' : ρ n ≠ ρ x := fun e => h (hρ e)
      have e1 : (ρ n == ρ x) = false := by simp [h']
      have e2 : (n == x) = false := by simp [h]
      rw [e1, e2]

theorem passesLaterAssign_go_ren (n : String) :
    (frames : List Frame) → passesLaterAssign.go (ρ n) (frames.map (renFrame ρ)) = passesLaterAssign.go n frames
  | [] => by simp [passesLaterAssign.go]
  | g :: more => by
    simp only [List.map_cons, passesLaterAssign.go, renFrame, any_name_ren ρ hρ, contains_ren ρ hρ,
      passesLaterAssign_go_ren n more]

theorem passesLaterAssign_ren (frames : List Frame) (n : String) :
    passesLaterAssign (frames.map (renFrame ρ)) (ρ n) = passesLaterAssign frames n := by
  cases frames with
  | nil => simp [passesLaterAssign]
  | cons f rest =>
    simp only [List.map_cons, passesLaterAssign, renFrame, any_name_ren ρ hρ, passesLaterAssign_go_ren ρ hρ]

theorem any_passes_ren (frames : List Frame) (names : List String) :
    (names.map ρ).any (passesLaterAssign (frames.map (renFrame ρ))) = names.any (passesLaterAssign frames) := by
  induction names with
  | nil => simp
  | cons n rest ih => simp [List.any_cons, passesLaterAssign_ren ρ hρ, ih]

theorem noteReads_ren (st : St) (names : List String) :
    noteReads (renSt ρ st) (names.map ρ) = renSt ρ (noteReads st names) := by
  unfold noteReads
  rw [renSt_frames, any_passes_ren ρ hρ]
  split <;> rfl

theorem setVar_ren (vars : List (String × Val)) (n : String) (v : Val) :
    setVar (renVars ρ vars) (ρ n) v = renVars ρ (setVar vars n v) := by
  unfold setVar
  rw [any_name_ren ρ hρ]
  split
  · simp only [renVars, List.map_map]
    apply List.map_congr_left
    intro p _
    by_cases h : p.1 = n
    · simp [h]
    · have h' : ρ p.1 ≠ ρ n := fun e => h (hρ e)
      simp [h, h']
  · simp [renVars]

theorem bind_ren (st : St) (n : String) (v : Val) : (renSt ρ st).bind (ρ n) v = renSt ρ (st.bind n v) := by
  unfold St.bind
  cases hf : st.frames with
  | nil => simp [renSt, hf]
  | cons f rest =>
    simp only [renSt, hf, List.map_cons]
    simp [renFrame, setVar_ren ρ hρ]

theorem lookupFrames_ren (n : String) :
    (frames : List Frame) → lookupFrames (frames.map (renFrame ρ)) (ρ n) = lookupFrames frames n
  | [] => by simp [lookupFrames]
  | f :: rest => by
    have h := find_renVars ρ hρ f.vars n
    simp only [List.map_cons, lookupFrames, renFrame]
    cases h1 : (renVars ρ f.vars).find? (·.1 == ρ n) <;> cases h2 : f.vars.find? (·.1 == n) <;>
      simp_all [lookupFrames_ren n rest]

theorem find_macros_ren (ms : List (String × MacroDef)) (n : String) :
    ((ms.map (fun p => (ρ p.1, renMacro ρ p.2))).find? (·.1 == ρ n)).map Prod.snd =
      ((ms.find? (·.1 == n)).map Prod.snd).map (renMacro ρ) := by
  induction ms with
  | nil => simp
  | cons p rest ih =>
    simp only [List.map_cons, List.find?_cons]
    by_cases h : p.1 = n
    · have e1 : (ρ p.1 == ρ n) = true := by simp [h]
      have e2 : (p.1 == n) = true := by simp [h]
      simp only [e1, e2]; rfl
    · have h' : ρ p.1 ≠ ρ n := fun e => h (hρ e)
      have e1 : (ρ p.1 == ρ n) = false := by simp [h']
      have e2 : (p.1 == n) = false := by simp [h]
      simp only [e1, e2]
      exact ih

theorem lookupMacro_ren (n : String) :
    (frames : List Frame) → lookupMacro (frames.map (renFrame ρ)) (ρ n) = (lookupMacro frames n).map (renMacro ρ)
  | [] => by simp [lookupMacro]
  | f :: rest => by
    have h := find_macros_ren ρ hρ f.macros n
    simp only [List.map_cons, lookupMacro, renFrame]
    cases h1 : (f.macros.map (fun p => (ρ p.1, renMacro ρ p.2))).find? (·.1 == ρ n) <;>
      cases h2 : f.macros.find? (·.1 == n) <;> simp_all [lookupMacro_ren n rest]

omit hρ in
theorem lookupCaller_ren : (frames : List Frame) → lookupCaller (frames.map (renFrame ρ)) = (lookupCaller frames).map (renCaller ρ)
  | [] => by simp [lookupCaller]
  | f :: rest => by
    simp only [List.map_cons, lookupCaller, renFrame]
    cases f.caller <;> simp [lookupCaller_ren rest]

omit hρ in
theorem closureFrames_ren (frames : List Frame) (d : Nat) :
    closureFrames (frames.map (renFrame ρ)) d = (closureFrames frames d).map (renFrame ρ) := by
  simp [closureFrames, List.map_drop]

theorem bindMacro_ren (st : St) (n : String) (m : MacroDef) :
    (renSt ρ st).bindMacro (ρ n) (renMacro ρ m) = renSt ρ (st.bindMacro n m) := by
  unfold St.bindMacro
  cases hf : st.frames with
  | nil => simp [renSt, hf]
  | cons f rest =>
    simp only [renSt, hf, List.map_cons]
    simp only [renFrame, List.map_cons, List.filter_map]
    congr 1; congr 1; congr 1; congr 1; congr 1
    apply List.filter_congr
    intro p _
    by_cases h : p.1 = n
    · simp [h]
    · have h' : ρ p.1 ≠ ρ n := fun e => h (hρ e)
      have e1 : (ρ p.1 != ρ n) = true := by simp [h']
      have e2 : (p.1 != n) = true := by simp [h]
      simp only [Function.comp, e1, e2]

end

/-! ### static statement helpers -/

section
variable (ρ : String → String)

theorem assignedIn_ren : (fuel : Nat) → (body : List Stmt) → assignedIn fuel (renStmts ρ body) = (assignedIn fuel body).map ρ
  | 0, _ => by simp [assignedIn]
  | _ + 1, [] => by simp [renStmts, assignedIn]
  | fuel + 1, s :: rest => by
    have ihr := assignedIn_ren (fuel + 1) rest
    have branches : ∀ bs : List (Expr × List Stmt),
        ((renBranches ρ bs).map (fun b => assignedIn fuel b.2)).flatten =
          ((bs.map (fun b => assignedIn fuel b.2)).flatten).map ρ := by
      intro bs
      induction bs with
      | nil => simp [renBranches]
      | cons b more ihb =>
        obtain ⟨c, body⟩ := b
        simp [renBranches, assignedIn_ren fuel body, ihb]
    cases s <;> simp [renStmts, renStmt, assignedIn, ihr, branches, assignedIn_ren fuel]

theorem usesCaller_ren : (fuel : Nat) → (body : List Stmt) → usesCaller fuel (renStmts ρ body) = usesCaller fuel body
  | 0, _ => by simp [usesCaller]
  | _ + 1, [] => by simp [renStmts, usesCaller]
  | fuel + 1, s :: rest => by
    have ihr := usesCaller_ren (fuel + 1) rest
    have branches : ∀ bs : List (Expr × List Stmt),
        (renBranches ρ bs).any (fun b => usesCaller fuel b.2) = bs.any (fun b => usesCaller fuel b.2) := by
      intro bs
      induction bs with
      | nil => simp [renBranches]
      | cons b more ihb =>
        obtain ⟨c, body⟩ := b
        simp [renBranches, usesCaller_ren fuel body, ihb]
    cases s <;> simp [renStmts, renStmt, usesCaller, ihr, branches, usesCaller_ren fuel]

end

/-! ### the interpreter's helpers commute with renaming -/

/-- the runner `rn'` on renamed programs/states simulates `rn` -/
def Sim (ρ : String → String) (rn rn' : Runner) : Prop :=
  ∀ st body, rn' (renSt ρ st) (renStmts ρ body) = mapR ρ (rn st body)

section
variable (ρ : String → String) (hρ : Function.Injective ρ) (ctxVars : List (String × Val))

omit hρ in
theorem push_ren (st : St) (f : Frame) : (renSt ρ st).push (renFrame ρ f) = renSt ρ (st.push f) := rfl

omit hρ in
theorem inScope_sim (rn rn' : Runner) (h : Sim ρ rn rn') (base : St) (f : Frame) (body : List Stmt) :
    inScope rn' (renSt ρ base) (renFrame ρ f) (renStmts ρ body) = mapR ρ (inScope rn base f body) := by
  unfold inScope
  rw [push_ren, h]
  cases rn (base.push f) body with
  | error e => rfl
  | ok r => obtain ⟨st', out, sig⟩ := r; rfl

omit hρ in
theorem namesOfBinds_ren (bs : List (String × Expr)) :
    ((renBinds ρ bs).map (fun b => exprNames b.2)).flatten = ((bs.map (fun b => exprNames b.2)).flatten).map ρ := by
  induction bs with
  | nil => simp [renBinds]
  | cons b rest ih => simp [renBinds] at ih ⊢; simp [exprNames_ren, ih]

omit hρ in
theorem namesOfInits_ren (bs : List (String × Expr)) :
    ((renInits ρ bs).map (fun b => exprNames b.2)).flatten = ((bs.map (fun b => exprNames b.2)).flatten).map ρ := by
  induction bs with
  | nil => simp [renInits]
  | cons b rest ih => simp [renInits] at ih ⊢; simp [exprNames_ren, ih]

include hρ

theorem evalBinds_ren (st : St) :
    (bs : List (String × Expr)) →
      evalBindsIn (renSt ρ st) (renVars ρ ctxVars) (renBinds ρ bs) = (evalBindsIn st ctxVars bs).map (renVars ρ)
  | [] => by simp [renBinds, evalBindsIn, renVars, Except.map]
  | (n, e) :: rest => by
    have ih := evalBinds_ren st rest
    simp only [renBinds, List.map_cons, evalBindsIn] at ih ⊢
    rw [evalIn_ren ρ hρ]
    cases evalIn st ctxVars e with
    | error err => rfl
    | ok v =>
      simp only [bind, Except.bind]
      rw [show List.map (fun b => (ρ b.1, renExpr ρ b.2)) rest = renBinds ρ rest from rfl, evalBinds_ren st rest]
      cases evalBindsIn st ctxVars rest <;> rfl

theorem evalInits_ren (st : St) :
    (bs : List (String × Expr)) →
      evalBindsIn (renSt ρ st) (renVars ρ ctxVars) (renInits ρ bs) = evalBindsIn st ctxVars bs
  | [] => by simp [renInits, evalBindsIn]
  | (n, e) :: rest => by
    simp only [renInits, List.map_cons, evalBindsIn]
    rw [evalIn_ren ρ hρ]
    cases evalIn st ctxVars e with
    | error err => rfl
    | ok v =>
      simp only [bind, Except.bind]
      rw [show List.map (fun b => (b.1, renExpr ρ b.2)) rest = renInits ρ rest from rfl, evalInits_ren st rest]

theorem pickBranch_sim (els : List Stmt) :
    (bs : List (Expr × List Stmt)) → (st : St) →
      pickBranch (renVars ρ ctxVars) (renStmts ρ els) (renSt ρ st) (renBranches ρ bs) =
        (pickBranch ctxVars els st bs).map (fun r => (renSt ρ r.1, renStmts ρ r.2))
  | [], st => by simp [renBranches, pickBranch, Except.map]
  | (c, body) :: more, st => by
    simp only [renBranches, pickBranch]
    rw [exprNames_ren, noteReads_ren ρ hρ, evalIn_ren ρ hρ]
    cases evalIn (noteReads st (exprNames c)) ctxVars c with
    | error err => rfl
    | ok v =>
      simp only
      split
      · rfl
      · exact pickBranch_sim els more _

theorem bindDefaults_sim :
    (ps : List (String × Option Expr)) → (stc : St) →
      bindDefaults (renVars ρ ctxVars) (renSt ρ stc) (renParams ρ ps) = (bindDefaults ctxVars stc ps).map (renSt ρ)
  | [], stc => by simp [renParams, bindDefaults, Except.map]
  | (p, some e) :: more, stc => by
    simp only [renParams, List.map_cons, renOpt, bindDefaults]
    rw [exprNames_ren, noteReads_ren ρ hρ, evalIn_ren ρ hρ]
    cases evalIn (noteReads stc (exprNames e)) ctxVars e with
    | error err => rfl
    | ok v =>
      simp only
      rw [bind_ren ρ hρ]
      exact bindDefaults_sim more _
  | (p, none) :: more, stc => by
    simp only [renParams, List.map_cons, renOpt, bindDefaults]
    rw [bind_ren ρ hρ]
    exact bindDefaults_sim more _

end

section
variable (ρ : String → String) (hρ : Function.Injective ρ) (ctxVars : List (String × Val))
include hρ

theorem find_ctx_none (n : String) :
    ((renVars ρ ctxVars).find? (·.1 == ρ n)).isNone = (ctxVars.find? (·.1 == n)).isNone := by
  have h := find_renVars ρ hρ ctxVars n
  cases h1 : (renVars ρ ctxVars).find? (·.1 == ρ n) <;> cases h2 : ctxVars.find? (·.1 == n) <;> simp_all

omit hρ in
theorem renList_length : (args : List Expr) → (renList ρ args).length = args.length
  | [] => rfl
  | a :: r => by simp [renList, renList_length r]

omit hρ in
theorem zipVars_ren : (params : List (String × Option Expr)) → (argVals : List Val) →
    List.map (fun p => (p.1.1, p.2)) ((List.map (fun p => (ρ p.1, renOpt ρ p.2)) params).zip argVals) =
      renVars ρ (List.map (fun p => (p.1.1, p.2)) (params.zip argVals))
  | [], _ => by simp [renVars]
  | _ :: _, [] => by simp [renVars]
  | p :: ps, a :: as => by
    have ih := zipVars_ren ps as
    simp only [renVars] at ih
    simp [renVars, ih]

omit hρ in
theorem callFrame_ren (params : List (String × Option Expr)) (argVals : List Val) (caller : Option CallerDef) (fuelA : Nat)
    (body : List Stmt) :
    Frame.mk (List.map (fun p => (p.1.1, p.2)) ((List.map (fun p => (ρ p.1, renOpt ρ p.2)) params).zip argVals)).reverse []
        (caller.map (renCaller ρ)) (assignedIn fuelA (renStmts ρ body)) =
      renFrame ρ (Frame.mk (List.map (fun p => (p.1.1, p.2)) (params.zip argVals)).reverse [] caller (assignedIn fuelA body)) := by
  rw [zipVars_ren, assignedIn_ren]
  simp [renFrame, renVars, List.map_reverse]

omit hρ in
theorem closureSt_ren (fr : List Frame) (d : Nat) (ns : List (List (String × Val))) (q : Bool) (sites : List (List Frame)) :
    St.mk (closureFrames (List.map (renFrame ρ) fr) d) ns q (sites.map (List.map (renFrame ρ))) =
      renSt ρ (St.mk (closureFrames fr d) ns q sites) := by
  simp [renSt, closureFrames_ren]

omit hρ in
theorem callerDepthMismatch_ren (caller : Option CallerDef) (d : Nat) :
    callerDepthMismatch (caller.map (renCaller ρ)) d = callerDepthMismatch caller d := by
  cases caller <;> simp [callerDepthMismatch, renCaller]

theorem callMacroWith_sim (rn rn' : Runner) (h : Sim ρ rn rn') (fuelA : Nat) (st : St) (name : String) (args : List Expr)
    (caller : Option CallerDef) :
    callMacroWith rn' (renVars ρ ctxVars) fuelA (renSt ρ st) (ρ name) (renList ρ args) (caller.map (renCaller ρ)) =
      (callMacroWith rn ctxVars fuelA st name args caller).map (fun r => (renSt ρ r.1, r.2)) := by
  unfold callMacroWith
  simp only
  rw [exprNamesList_ren, noteReads_ren ρ hρ, evalListIn_ren ρ hρ]
  generalize noteReads st (exprNamesList args) = st1
  cases evalListIn st1 ctxVars args with
  | error err => rfl
  | ok argVals =>
    simp only
    rw [renSt_frames, lookupMacro_ren ρ hρ, lookupFrames_ren ρ hρ]
    cases hm : lookupMacro st1.frames name with
    | none =>
      simp only [Option.map_none]
      have hc := find_ctx_none ρ hρ ctxVars name
      cases h1 : lookupFrames st1.frames name <;>
        cases h2 : (renVars ρ ctxVars).find? (·.1 == ρ name) <;>
        cases h3 : ctxVars.find? (·.1 == name) <;> simp_all <;> rfl
    | some m =>
      simp only [Option.map_some, renMacro, renList_length, renParams, List.length_map, usesCaller_ren]
      have hcs : (caller.map (renCaller ρ)).isSome = caller.isSome := by cases caller <;> rfl
      rw [hcs]
      split
      · rfl
      · split
        · rfl
        · have e1 := callFrame_ren ρ m.params argVals caller fuelA m.body
          have e2 := closureSt_ren ρ st1.frames m.depth st1.ns st1.quirk st1.sites
          show (match bindDefaults (renVars ρ ctxVars)
                  ((St.mk (closureFrames (List.map (renFrame ρ) st1.frames) m.depth) st1.ns st1.quirk
                      (st1.sites.map (List.map (renFrame ρ)))).push
                    (Frame.mk (List.map (fun p => (p.1.1, p.2))
                      ((List.map (fun p => (ρ p.1, renOpt ρ p.2)) m.params).zip argVals)).reverse []
                      (caller.map (renCaller ρ)) (assignedIn fuelA (renStmts ρ m.body))))
                  (List.drop argVals.length (List.map (fun p => (ρ p.1, renOpt ρ p.2)) m.params)) with
              | Except.error e => Except.error e
              | Except.ok stc =>
                match rn' stc (renStmts ρ m.body) with
                | Except.ok (st', out, _) => Except.ok (renSt ρ (St.mk st1.frames st'.ns st'.quirk st1.sites), out)
                | Except.error e => Except.error e) = _
          rw [e1, e2, push_ren, ← List.map_drop]
          rw [show List.map (fun p => (ρ p.1, renOpt ρ p.2)) (List.drop argVals.length m.params) =
              renParams ρ (List.drop argVals.length m.params) from rfl, bindDefaults_sim ρ hρ]
          cases bindDefaults ctxVars _ (List.drop argVals.length m.params) with
          | error e => rfl
          | ok stc =>
            simp only [Except.map]
            rw [h]
            cases rn stc m.body with
            | error e => rfl
            | ok r => obtain ⟨st', out, sig⟩ := r; rfl

end

section
variable (ρ : String → String) (hρ : Function.Injective ρ) (ctxVars : List (String × Val))
include hρ

theorem forLoop_sim (rn rn' : Runner) (h : Sim ρ rn rn') (fuelA : Nat) (target : String) (filt : Option Expr)
    (body : List Stmt) :
    (items : List Val) → (st : St) → (acc : String) → (ran : Bool) →
      forLoop rn' (renVars ρ ctxVars) fuelA (ρ target) (renOpt ρ filt) (renStmts ρ body) (renSt ρ st) acc ran items =
        (forLoop rn ctxVars fuelA target filt body st acc ran items).map (fun r => (renSt ρ r.1, r.2))
  | [], st, acc, ran => by simp [forLoop, Except.map]
  | item :: more, st, acc, ran => by
    have hbody : ∀ st0 : St,
        inScope rn' (renSt ρ st0) (Frame.mk [(ρ target, item)] [] none (assignedIn fuelA (renStmts ρ body))) (renStmts ρ body) =
          mapR ρ (inScope rn st0 (Frame.mk [(target, item)] [] none (assignedIn fuelA body)) body) := by
      intro st0
      have : Frame.mk [(ρ target, item)] [] none (assignedIn fuelA (renStmts ρ body)) =
          renFrame ρ (Frame.mk [(target, item)] [] none (assignedIn fuelA body)) := by
        simp [renFrame, renVars, assignedIn_ren]
      rw [this, inScope_sim ρ rn rn' h]
    cases filt with
    | none =>
      simp only [forLoop, renOpt]
      show (match inScope rn' (renSt ρ st) (Frame.mk [(ρ target, item)] [] none (assignedIn fuelA (renStmts ρ body)))
              (renStmts ρ body) with
            | Except.error err => Except.error err
            | Except.ok (st', out, Sig.brk) => Except.ok (st', acc ++ out, true)
            | Except.ok (st', out, _) =>
              forLoop rn' (renVars ρ ctxVars) fuelA (ρ target) none (renStmts ρ body) st' (acc ++ out) true more) = _
      rw [hbody]
      show _ = Except.map (fun r => (renSt ρ r.1, r.2))
        (match inScope rn st (Frame.mk [(target, item)] [] none (assignedIn fuelA body)) body with
         | Except.error err => Except.error err
         | Except.ok (st', out, Sig.brk) => Except.ok (st', acc ++ out, true)
         | Except.ok (st', out, _) => forLoop rn ctxVars fuelA target none body st' (acc ++ out) true more)
      cases inScope rn st (Frame.mk [(target, item)] [] none (assignedIn fuelA body)) body with
      | error e => rfl
      | ok r =>
        obtain ⟨st', out, sig⟩ := r
        cases sig with
        | brk => rfl
        | normal => exact forLoop_sim rn rn' h fuelA target none body more st' (acc ++ out) true
        | cont => exact forLoop_sim rn rn' h fuelA target none body more st' (acc ++ out) true
    | some fe =>
      simp only [forLoop, renOpt]
      have hpush : (renSt ρ st).push (Frame.mk [(ρ target, item)] [] none []) =
          renSt ρ (st.push (Frame.mk [(target, item)] [] none [])) := by
        simp [St.push, renSt, renFrame, renVars]
      show (match (match evalIn (noteReads ((renSt ρ st).push (Frame.mk [(ρ target, item)] [] none []))
                      (exprNames (renExpr ρ fe))) (renVars ρ ctxVars) (renExpr ρ fe) with
                   | Except.ok v => Except.ok
                       (St.mk (renSt ρ st).frames (renSt ρ st).ns
                         (noteReads ((renSt ρ st).push (Frame.mk [(ρ target, item)] [] none [])) (exprNames (renExpr ρ fe))).quirk
                         (renSt ρ st).sites,
                        truth v)
                   | Except.error err => Except.error
                       (err, (noteReads ((renSt ρ st).push (Frame.mk [(ρ target, item)] [] none []))
                         (exprNames (renExpr ρ fe))).quirk)) with
            | Except.error err => Except.error err
            | Except.ok (st1, false) =>
              forLoop rn' (renVars ρ ctxVars) fuelA (ρ target) (some (renExpr ρ fe)) (renStmts ρ body) st1 acc ran more
            | Except.ok (st1, true) =>
              match inScope rn' st1 (Frame.mk [(ρ target, item)] [] none (assignedIn fuelA (renStmts ρ body)))
                  (renStmts ρ body) with
              | Except.error err => Except.error err
              | Except.ok (st', out, Sig.brk) => Except.ok (st', acc ++ out, true)
              | Except.ok (st', out, _) =>
                forLoop rn' (renVars ρ ctxVars) fuelA (ρ target) (some (renExpr ρ fe)) (renStmts ρ body) st' (acc ++ out) true more) = _
      rw [hpush, exprNames_ren, noteReads_ren ρ hρ, evalIn_ren ρ hρ]
      generalize noteReads (st.push (Frame.mk [(target, item)] [] none [])) (exprNames fe) = stf
      show _ = Except.map (fun r => (renSt ρ r.1, r.2))
        (match (match evalIn stf ctxVars fe with
                | Except.ok v => Except.ok (St.mk st.frames st.ns stf.quirk st.sites, truth v)
                | Except.error err => Except.error (err, stf.quirk)) with
         | Except.error err => Except.error err
         | Except.ok (st1, false) => forLoop rn ctxVars fuelA target (some fe) body st1 acc ran more
         | Except.ok (st1, true) =>
           match inScope rn st1 (Frame.mk [(target, item)] [] none (assignedIn fuelA body)) body with
           | Except.error err => Except.error err
           | Except.ok (st', out, Sig.brk) => Except.ok (st', acc ++ out, true)
           | Except.ok (st', out, _) => forLoop rn ctxVars fuelA target (some fe) body st' (acc ++ out) true more)
      cases evalIn stf ctxVars fe with
      | error err => rfl
      | ok v =>
        have hst : St.mk (renSt ρ st).frames (renSt ρ st).ns (renSt ρ stf).quirk (renSt ρ st).sites =
            renSt ρ (St.mk st.frames st.ns stf.quirk st.sites) := rfl
        simp only [hst]
        cases truth v with
        | false => exact forLoop_sim rn rn' h fuelA target (some fe) body more _ acc ran
        | true =>
          simp only
          rw [hbody]
          cases inScope rn (St.mk st.frames st.ns stf.quirk st.sites) (Frame.mk [(target, item)] [] none (assignedIn fuelA body)) body with
          | error e => rfl
          | ok r =>
            obtain ⟨st', out, sig⟩ := r
            cases sig with
            | brk => rfl
            | normal => exact forLoop_sim rn rn' h fuelA target (some fe) body more st' (acc ++ out) true
            | cont => exact forLoop_sim rn rn' h fuelA target (some fe) body more st' (acc ++ out) true

end

section
variable (ρ : String → String) (hρ : Function.Injective ρ) (ctxVars : List (String × Val))
include hρ

theorem mapR_ok (st : St) (out : String) (sig : Sig) : mapR ρ (.ok (st, out, sig)) = .ok (renSt ρ st, out, sig) := rfl

theorem step_sim (rn rn' : Runner) (h : Sim ρ rn rn') (fuelA : Nat) (st : St) (s : Stmt) :
    step rn' (renVars ρ ctxVars) fuelA (renSt ρ st) (renStmt ρ s) = mapR ρ (step rn ctxVars fuelA st s) := by
  have emptyFrame : ∀ body : List Stmt, Frame.mk [] [] none (assignedIn fuelA (renStmts ρ body)) =
      renFrame ρ (Frame.mk [] [] none (assignedIn fuelA body)) := by
    intro body; simp [renFrame, renVars, assignedIn_ren]
  cases s with
  | text t => rfl
  | out e =>
    simp only [renStmt, step]
    rw [exprNames_ren, noteReads_ren ρ hρ, evalIn_ren ρ hρ]
    cases evalIn (noteReads st (exprNames e)) ctxVars e <;> rfl
  | ifs branches els =>
    simp only [renStmt, step]
    rw [pickBranch_sim ρ hρ]
    cases pickBranch ctxVars els st branches with
    | error e => rfl
    | ok r => obtain ⟨st1, body⟩ := r; exact h st1 body
  | set n e =>
    simp only [renStmt, step]
    rw [exprNames_ren, noteReads_ren ρ hρ, evalIn_ren ρ hρ]
    cases evalIn (noteReads st (exprNames e)) ctxVars e with
    | error err => rfl
    | ok v => simp only [bind_ren ρ hρ]; rfl
  | setBlock n body =>
    simp only [renStmt, step]
    show (match inScope rn' (renSt ρ st) (Frame.mk [] [] none (assignedIn fuelA (renStmts ρ body))) (renStmts ρ body) with
          | Except.ok (st', out, _) => Except.ok (st'.bind (ρ n) (Val.str out), "", Sig.normal)
          | Except.error err => Except.error err) = _
    rw [emptyFrame, inScope_sim ρ rn rn' h]
    show _ = mapR ρ (match inScope rn st (Frame.mk [] [] none (assignedIn fuelA body)) body with
          | Except.ok (st', out, _) => Except.ok (st'.bind n (Val.str out), "", Sig.normal)
          | Except.error err => Except.error err)
    cases inScope rn st (Frame.mk [] [] none (assignedIn fuelA body)) body with
    | error e => rfl
    | ok r => obtain ⟨st', out, sig⟩ := r; simp only [mapR, bind_ren ρ hρ]
  | with_ binds body =>
    simp only [renStmt, step]
    rw [namesOfBinds_ren, noteReads_ren ρ hρ, evalBinds_ren ρ hρ]
    cases evalBindsIn (noteReads st ((binds.map (fun b => exprNames b.2)).flatten)) ctxVars binds with
    | error err => rfl
    | ok bs =>
      simp only [Except.map]
      have : Frame.mk (renVars ρ bs).reverse [] none (assignedIn fuelA (renStmts ρ body)) =
          renFrame ρ (Frame.mk bs.reverse [] none (assignedIn fuelA body)) := by
        simp [renFrame, renVars, assignedIn_ren, List.map_reverse]
      show inScope rn' _ (Frame.mk (renVars ρ bs).reverse [] none (assignedIn fuelA (renStmts ρ body))) _ = _
      rw [this, inScope_sim ρ rn rn' h]
  | «macro» n params body =>
    simp only [renStmt, step]
    have : (MacroDef.mk (renParams ρ params) (renStmts ρ body) (renSt ρ st).frames.length) =
        renMacro ρ (MacroDef.mk params body st.frames.length) := by simp [renMacro, renSt]
    show Except.ok ((renSt ρ st).bindMacro (ρ n) (MacroDef.mk (renParams ρ params) (renStmts ρ body) (renSt ρ st).frames.length),
      "", Sig.normal) = _
    rw [this, bindMacro_ren ρ hρ]; rfl
  | callMacro n args =>
    simp only [renStmt, step]
    have := callMacroWith_sim ρ hρ ctxVars rn rn' h fuelA st n args none
    simp only [Option.map_none] at this
    rw [this]
    cases callMacroWith rn ctxVars fuelA st n args none with
    | error e => rfl
    | ok r => obtain ⟨st', out⟩ := r; rfl
  | callBlock n args body =>
    simp only [renStmt, step]
    -- the call site's scopes are pushed onto `sites` on both sides
    have hst1 : (St.mk (renSt ρ st).frames (renSt ρ st).ns (renSt ρ st).quirk ((renSt ρ st).sites ++ [(renSt ρ st).frames])) =
        renSt ρ (St.mk st.frames st.ns st.quirk (st.sites ++ [st.frames])) := by
      simp [renSt]
    have hlen : (renSt ρ st).sites.length = st.sites.length := by simp [renSt]
    have := callMacroWith_sim ρ hρ ctxVars rn rn' h fuelA (St.mk st.frames st.ns st.quirk (st.sites ++ [st.frames])) n args
      (some (CallerDef.mk body st.frames.length st.sites.length))
    have hc : Option.map (renCaller ρ) (some (CallerDef.mk body st.frames.length st.sites.length)) =
        some (CallerDef.mk (renStmts ρ body) (renSt ρ st).frames.length (renSt ρ st).sites.length) := by
      simp [renCaller, renSt]
    rw [hc, ← hst1] at this
    show (match callMacroWith rn' (renVars ρ ctxVars) fuelA
            (St.mk (renSt ρ st).frames (renSt ρ st).ns (renSt ρ st).quirk ((renSt ρ st).sites ++ [(renSt ρ st).frames])) (ρ n)
            (renList ρ args) (some (CallerDef.mk (renStmts ρ body) (renSt ρ st).frames.length (renSt ρ st).sites.length)) with
          | Except.ok (st', out) => Except.ok (St.mk st'.frames st'.ns st'.quirk (renSt ρ st).sites, out, Sig.normal)
          | Except.error err => Except.error err) = _
    rw [this]
    show _ = mapR ρ (match callMacroWith rn ctxVars fuelA (St.mk st.frames st.ns st.quirk (st.sites ++ [st.frames])) n args
            (some (CallerDef.mk body st.frames.length st.sites.length)) with
          | Except.ok (st', out) => Except.ok (St.mk st'.frames st'.ns st'.quirk st.sites, out, Sig.normal)
          | Except.error err => Except.error err)
    cases callMacroWith rn ctxVars fuelA (St.mk st.frames st.ns st.quirk (st.sites ++ [st.frames])) n args
        (some (CallerDef.mk body st.frames.length st.sites.length)) with
    | error e => rfl
    | ok r => obtain ⟨st', out⟩ := r; rfl
  | callerOut =>
    simp only [renStmt, step]
    rw [renSt_frames, lookupCaller_ren]
    cases lookupCaller st.frames with
    | none => rfl
    | some c =>
      simp only [Option.map_some, renCaller]
      have hsite : (renSt ρ st).sites.getD c.site [] = (st.sites.getD c.site []).map (renFrame ρ) := by
        simp only [renSt, List.getD_eq_getElem?_getD, List.getElem?_map]
        cases st.sites[c.site]? <;> simp
      have e2 : St.mk ((renSt ρ st).sites.getD c.site []) st.ns st.quirk (st.sites.map (List.map (renFrame ρ))) =
          renSt ρ (St.mk (st.sites.getD c.site []) st.ns st.quirk st.sites) := by
        rw [hsite]; rfl
      show (match rn' ((St.mk ((renSt ρ st).sites.getD c.site []) st.ns st.quirk (st.sites.map (List.map (renFrame ρ)))).push
              (Frame.mk [] [] none (assignedIn fuelA (renStmts ρ c.body)))) (renStmts ρ c.body) with
            | Except.ok (st', out, _) => Except.ok (renSt ρ (St.mk st.frames st'.ns st'.quirk st.sites), out, Sig.normal)
            | Except.error err => Except.error err) = _
      rw [e2, emptyFrame, push_ren, h]
      show _ = mapR ρ (match rn ((St.mk (st.sites.getD c.site []) st.ns st.quirk st.sites).push
              (Frame.mk [] [] none (assignedIn fuelA c.body))) c.body with
            | Except.ok (st', out, _) => Except.ok (St.mk st.frames st'.ns st'.quirk st.sites, out, Sig.normal)
            | Except.error err => Except.error err)
      cases rn ((St.mk (st.sites.getD c.site []) st.ns st.quirk st.sites).push
              (Frame.mk [] [] none (assignedIn fuelA c.body))) c.body with
      | error e => rfl
      | ok r => obtain ⟨st', out, sig⟩ := r; rfl
  | filterBlock fname body =>
    simp only [renStmt, step]
    show (match inScope rn' (renSt ρ st) (Frame.mk [] [] none (assignedIn fuelA (renStmts ρ body))) (renStmts ρ body) with
          | Except.ok (st', out, sig) =>
            (match applyBlockFilter fname out with
             | Except.ok o => Except.ok (st', o, sig)
             | Except.error err => Except.error (err, st'.quirk))
          | Except.error err => Except.error err) = _
    rw [emptyFrame, inScope_sim ρ rn rn' h]
    show _ = mapR ρ (match inScope rn st (Frame.mk [] [] none (assignedIn fuelA body)) body with
          | Except.ok (st', out, sig) =>
            (match applyBlockFilter fname out with
             | Except.ok o => Except.ok (st', o, sig)
             | Except.error err => Except.error (err, st'.quirk))
          | Except.error err => Except.error err)
    cases inScope rn st (Frame.mk [] [] none (assignedIn fuelA body)) body with
    | error e => rfl
    | ok r =>
      obtain ⟨st', out, sig⟩ := r
      simp only [mapR]
      cases applyBlockFilter fname out <;> rfl
  | nsNew n inits =>
    simp only [renStmt, step]
    rw [namesOfInits_ren, noteReads_ren ρ hρ, evalInits_ren ρ hρ]
    cases evalBindsIn (noteReads st ((inits.map (fun b => exprNames b.2)).flatten)) ctxVars inits with
    | error err => rfl
    | ok bs =>
      simp only
      have : ({ renSt ρ (noteReads st ((inits.map (fun b => exprNames b.2)).flatten)) with
                ns := (renSt ρ (noteReads st ((inits.map (fun b => exprNames b.2)).flatten))).ns ++
                  [bs.foldl (fun acc p => setVar acc p.1 p.2) []] } : St) =
             renSt ρ { noteReads st ((inits.map (fun b => exprNames b.2)).flatten) with
                ns := (noteReads st ((inits.map (fun b => exprNames b.2)).flatten)).ns ++
                  [bs.foldl (fun acc p => setVar acc p.1 p.2) []] } := rfl
      rw [this, bind_ren ρ hρ]
      rfl
  | nsSet nsName attr e =>
    simp only [renStmt, step]
    have hn : (ρ nsName :: exprNames (renExpr ρ e)) = (nsName :: exprNames e).map ρ := by simp [exprNames_ren]
    rw [hn, noteReads_ren ρ hρ]
    have h1 := evalIn_ren ρ hρ (noteReads st (nsName :: exprNames e)) ctxVars (.name nsName)
    simp only [renExpr] at h1
    rw [h1, evalIn_ren ρ hρ]
    cases evalIn (noteReads st (nsName :: exprNames e)) ctxVars (.name nsName) with
    | error err => cases evalIn (noteReads st (nsName :: exprNames e)) ctxVars e <;> rfl
    | ok nv =>
      cases evalIn (noteReads st (nsName :: exprNames e)) ctxVars e with
      | error err => cases nv <;> rfl
      | ok v =>
        cases nv with
        | obj id =>
          simp only
          show (match (noteReads st (nsName :: exprNames e)).ns[id]? with
                | some cell => Except.ok (renSt ρ { noteReads st (nsName :: exprNames e) with
                    ns := (noteReads st (nsName :: exprNames e)).ns.set id (setVar cell attr v) }, "", Sig.normal)
                | none => Except.error (Err.oom, (noteReads st (nsName :: exprNames e)).quirk)) = _
          cases (noteReads st (nsName :: exprNames e)).ns[id]? <;> rfl
        | _ => rfl
  | break_ => rfl
  | continue_ => rfl
  | for_ target iter filt body els =>
    simp only [renStmt, step]
    rw [exprNames_ren, noteReads_ren ρ hρ, evalIn_ren ρ hρ]
    cases evalIn (noteReads st (exprNames iter)) ctxVars iter with
    | error err => rfl
    | ok iv =>
      simp only
      cases seqItems iv with
      | error err => rfl
      | ok items =>
        simp only
        rw [forLoop_sim ρ hρ ctxVars rn rn' h]
        cases forLoop rn ctxVars fuelA target filt body (noteReads st (exprNames iter)) "" false items with
        | error e => rfl
        | ok r =>
          obtain ⟨st', out, ran⟩ := r
          simp only [Except.map]
          cases ran with
          | true => rfl
          | false =>
            simp only
            show (match inScope rn' (renSt ρ st') (Frame.mk [] [] none (assignedIn fuelA (renStmts ρ els))) (renStmts ρ els) with
                  | Except.ok (st'', out', sig) => Except.ok (st'', out ++ out', sig)
                  | Except.error err => Except.error err) = _
            rw [emptyFrame, inScope_sim ρ rn rn' h]
            show _ = mapR ρ (match inScope rn st' (Frame.mk [] [] none (assignedIn fuelA els)) els with
                  | Except.ok (st'', out', sig) => Except.ok (st'', out ++ out', sig)
                  | Except.error err => Except.error err)
            cases inScope rn st' (Frame.mk [] [] none (assignedIn fuelA els)) els with
            | error e => rfl
            | ok r2 => obtain ⟨st'', out', sig⟩ := r2; rfl

/-- the interpreter commutes with consistent renaming, for every fuel -/
theorem run_sim : (fuel : Nat) → Sim ρ (run ctxVars fuel) (run (renVars ρ ctxVars) fuel)
  | 0 => by intro st body; simp [run, mapR, renSt]
  | fuel + 1 => by
    intro st body
    cases body with
    | nil => simp [renStmts, run, mapR]
    | cons s rest =>
      simp only [renStmts, run]
      rw [step_sim ρ hρ ctxVars (run ctxVars fuel) (run (renVars ρ ctxVars) fuel) (run_sim fuel)]
      cases step (run ctxVars fuel) ctxVars fuel st s with
      | error e => rfl
      | ok r =>
        obtain ⟨st', out, sig⟩ := r
        cases sig with
        | normal =>
          simp only [mapR]
          rw [run_sim fuel st' rest]
          cases run ctxVars fuel st' rest with
          | error e => rfl
          | ok r2 => obtain ⟨st'', out', sig'⟩ := r2; rfl
        | brk => rfl
        | cont => rfl

end

end JinjaV.Stmt
