/-
  Lemmas about Model/Escape.lean (replace chains are homomorphisms, the chain is the single pass,
  escaped text, unescape).  Core Lean only.
-/
import JinjaV.Model.Escape
namespace JinjaV.Escape
open List

-- replace chains ------------------------------------------------------------------------------

theorem replaceChar_append (x : Char) (r a b : List Char) :
    replaceChar x r (a ++ b) = replaceChar x r a ++ replaceChar x r b := by
  simp [replaceChar]

theorem replaceChar_nil (x : Char) (r : List Char) : replaceChar x r [] = [] := rfl

theorem applyChain_nil_chain (s : List Char) : applyChain [] s = s := rfl

theorem applyChain_cons (p : Char × List Char) (ch : List (Char × List Char)) (s : List Char) :
    applyChain (p :: ch) s = applyChain ch (replaceChar p.1 p.2 s) := rfl

theorem applyChain_append (ch : List (Char × List Char)) (a b : List Char) :
    applyChain ch (a ++ b) = applyChain ch a ++ applyChain ch b := by
  induction ch generalizing a b with
  | nil => rfl
  | cons p ch ih => simp only [applyChain_cons, replaceChar_append, ih]

theorem applyChain_nil (ch : List (Char × List Char)) : applyChain ch [] = [] := by
  induction ch with
  | nil => rfl
  | cons p ch ih => simpa [applyChain_cons, replaceChar_nil] using ih

/-- a chain of one-character replacements acts character by character -/
theorem applyChain_eq_flatMap (ch : List (Char × List Char)) (s : List Char) :
    applyChain ch s = s.flatMap fun c => applyChain ch [c] := by
  induction s with
  | nil => simp [applyChain_nil]
  | cons c s ih =>
    have : c :: s = [c] ++ s := rfl
    rw [this, applyChain_append, ih]
    simp

theorem applyChain_cons_str (ch : List (Char × List Char)) (c : Char) (s : List Char) :
    applyChain ch (c :: s) = applyChain ch [c] ++ applyChain ch s := by
  have : c :: s = [c] ++ s := rfl
  rw [this, applyChain_append]

/-- the image of one character under the five chained replacements is the single-pass table -/
theorem escapeChain_char (c : Char) : applyChain escapeChain [c] = escChar c := by
  by_cases h1 : c = '&'
  · subst h1; decide
  by_cases h2 : c = '<'
  · subst h2; decide
  by_cases h3 : c = '>'
  · subst h3; decide
  by_cases h4 : c = '\''
  · subst h4; decide
  by_cases h5 : c = '"'
  · subst h5; decide
  simp [applyChain, escapeChain, replaceChar, escChar, h1, h2, h3, h4, h5]

theorem escape_eq_escape1 (s : List Char) : escape s = escape1 s := by
  unfold escape escape1
  rw [applyChain_eq_flatMap]
  congr 1
  funext c
  exact escapeChain_char c

theorem escape_nil : escape [] = [] := by simp [escape_eq_escape1, escape1]

theorem escape_cons (c : Char) (s : List Char) : escape (c :: s) = escChar c ++ escape s := by
  simp [escape_eq_escape1, escape1]

theorem escape_append (a b : List Char) : escape (a ++ b) = escape a ++ escape b := by
  simp [escape_eq_escape1, escape1]

-- escaped text ----------------------------------------------------------------------------------

theorem isM_of_not_special {c : Char} (h : isSpecial c = false) : isM c = false := by
  unfold isSpecial at h; simp at h; exact h.2

theorem escChar_cases (c : Char) :
    (isSpecial c = false ∧ escChar c = [c]) ∨ (isSpecial c = true ∧ (escChar c, c) ∈ entities) := by
  by_cases h1 : c = '&'
  · subst h1; right; decide
  by_cases h2 : c = '<'
  · subst h2; right; decide
  by_cases h3 : c = '>'
  · subst h3; right; decide
  by_cases h4 : c = '\''
  · subst h4; right; decide
  by_cases h5 : c = '"'
  · subst h5; right; decide
  left
  simp [escChar, isSpecial, isM, h1, h2, h3, h4, h5]

theorem Esc.escChar_append (c : Char) {t : List Char} (h : Esc t) : Esc (escChar c ++ t) := by
  rcases escChar_cases c with ⟨hs, he⟩ | ⟨_, he⟩
  · rw [he]; exact Esc.chr c t hs h
  · exact Esc.ent _ c t he h

theorem escape_esc (s : List Char) : Esc (escape s) := by
  induction s with
  | nil => rw [escape_nil]; exact Esc.nil
  | cons c s ih => rw [escape_cons]; exact Esc.escChar_append c ih

theorem entity_mfree {e : List Char} {c : Char} (h : (e, c) ∈ entities) : MFree e := by
  simp only [entities, List.mem_cons, Prod.mk.injEq, List.not_mem_nil, or_false] at h
  rcases h with ⟨rfl, _⟩ | ⟨rfl, _⟩ | ⟨rfl, _⟩ | ⟨rfl, _⟩ | ⟨rfl, _⟩ <;> decide

theorem MFree.append {a b : List Char} (ha : MFree a) (hb : MFree b) : MFree (a ++ b) := by
  intro c hc
  rcases List.mem_append.mp hc with h | h
  · exact ha c h
  · exact hb c h

theorem MFree.nil : MFree [] := by intro c hc; cases hc

theorem MFree.cons {c : Char} {t : List Char} (hc : isM c = false) (ht : MFree t) : MFree (c :: t) := by
  intro x hx
  rcases List.mem_cons.mp hx with rfl | h
  · exact hc
  · exact ht x h

theorem MFree.of_append_left {a b : List Char} (h : MFree (a ++ b)) : MFree a :=
  fun c hc => h c (List.mem_append_left _ hc)

theorem MFree.of_append_right {a b : List Char} (h : MFree (a ++ b)) : MFree b :=
  fun c hc => h c (List.mem_append_right _ hc)

theorem MFree.sublist {a b : List Char} (hs : a.Sublist b) (h : MFree b) : MFree a :=
  fun c hc => h c (hs.subset hc)

theorem MFree.take {a : List Char} (n : Nat) (h : MFree a) : MFree (a.take n) :=
  MFree.sublist (List.take_sublist n a) h

theorem MFree.drop {a : List Char} (n : Nat) (h : MFree a) : MFree (a.drop n) :=
  MFree.sublist (List.drop_sublist n a) h

theorem MFree.flatten {l : List (List Char)} (h : ∀ x ∈ l, MFree x) : MFree l.flatten := by
  intro c hc
  obtain ⟨x, hx, hcx⟩ := List.mem_flatten.mp hc
  exact h x hx c hcx

theorem MFree.intercalate {sep : List Char} {l : List (List Char)} (hs : MFree sep) (h : ∀ x ∈ l, MFree x) :
    MFree (sep.intercalate l) := by
  induction l with
  | nil => simpa [List.intercalate] using MFree.nil
  | cons x l ih =>
    cases l with
    | nil => simpa [List.intercalate, List.intersperse] using h x (by simp)
    | cons y l =>
      have hx := h x (by simp)
      have ih' := ih (fun z hz => h z (List.mem_cons_of_mem _ hz))
      simp only [List.intercalate, List.intersperse, List.flatten_cons] at ih' ⊢
      exact MFree.append hx (MFree.append hs ih')

/-- escaped text contains none of `< > " '` -/
theorem Esc.mfree {t : List Char} (h : Esc t) : MFree t := by
  induction h with
  | nil => exact MFree.nil
  | chr c t hc _ ih => exact MFree.cons (isM_of_not_special hc) ih
  | ent e c t he _ ih => exact MFree.append (entity_mfree he) ih

/-- the language of escaped text is closed under concatenation -/
theorem Esc.append {a b : List Char} (ha : Esc a) (hb : Esc b) : Esc (a ++ b) := by
  induction ha with
  | nil => simpa using hb
  | chr c t hc _ ih => exact Esc.chr c _ hc ih
  | ent e c t he _ ih => rw [List.append_assoc]; exact Esc.ent e c _ he ih

theorem Esc.flatten {l : List (List Char)} (h : ∀ x ∈ l, Esc x) : Esc l.flatten := by
  induction l with
  | nil => exact Esc.nil
  | cons x l ih =>
    rw [List.flatten_cons]
    exact Esc.append (h x (by simp)) (ih fun y hy => h y (List.mem_cons_of_mem _ hy))

theorem entity_head {e : List Char} {c : Char} (h : (e, c) ∈ entities) : ∃ r, e = '&' :: r := by
  simp only [entities, List.mem_cons, Prod.mk.injEq, List.not_mem_nil, or_false] at h
  rcases h with ⟨rfl, _⟩ | ⟨rfl, _⟩ | ⟨rfl, _⟩ | ⟨rfl, _⟩ | ⟨rfl, _⟩ <;> exact ⟨_, rfl⟩

theorem entity_tail_noamp {e : List Char} {c : Char} (h : (e, c) ∈ entities) : '&' ∉ e.tail := by
  simp only [entities, List.mem_cons, Prod.mk.injEq, List.not_mem_nil, or_false] at h
  rcases h with ⟨rfl, _⟩ | ⟨rfl, _⟩ | ⟨rfl, _⟩ | ⟨rfl, _⟩ | ⟨rfl, _⟩ <;> decide

/-- in escaped text every `&` starts one of the five entities -/
theorem Esc.amp {t : List Char} (h : Esc t) (pre post : List Char) (ht : t = pre ++ '&' :: post) :
    ∃ e c, (e, c) ∈ entities ∧ e <+: ('&' :: post) := by
  induction h generalizing pre with
  | nil => simp at ht
  | chr c t hc _ ih =>
    cases pre with
    | nil =>
      simp only [List.nil_append, List.cons.injEq] at ht
      obtain ⟨rfl, _⟩ := ht
      simp [isSpecial] at hc
    | cons p pre =>
      simp only [List.cons_append, List.cons.injEq] at ht
      exact ih pre ht.2
  | ent e c t he _ ih =>
    obtain ⟨r, rfl⟩ := entity_head he
    cases pre with
    | nil =>
      simp only [List.nil_append, List.cons_append, List.cons.injEq, true_and] at ht
      refine ⟨'&' :: r, c, he, ?_⟩
      rw [← ht]
      exact List.cons_prefix_cons.mpr ⟨rfl, List.prefix_append r t⟩
    | cons p pre =>
      simp only [List.cons_append, List.cons.injEq] at ht
      obtain ⟨rfl, ht⟩ := ht
      -- the `&` lies beyond the entity, because an entity's tail has no `&`
      have hno : '&' ∉ r := by simpa using entity_tail_noamp he
      by_cases hlen : pre.length < r.length
      · exfalso
        have h1 : (r ++ t)[pre.length]? = some '&' := by
          rw [ht]; simp
        rw [List.getElem?_append_left hlen] at h1
        exact hno (List.mem_of_getElem? h1)
      · have hle : r.length ≤ pre.length := Nat.le_of_not_lt hlen
        have h2 : t = pre.drop r.length ++ '&' :: post := by
          have := congrArg (List.drop r.length) ht
          rw [List.drop_left, List.drop_append_of_le_length hle] at this
          exact this
        exact ih _ h2

-- unescape ------------------------------------------------------------------------------------

theorem entityAt_entity {e : List Char} {c : Char} (h : (e, c) ∈ entities) (t : List Char) :
    entityAt (e ++ t) = some (c, t) := by
  simp only [entities, List.mem_cons, Prod.mk.injEq, List.not_mem_nil, or_false] at h
  rcases h with ⟨rfl, rfl⟩ | ⟨rfl, rfl⟩ | ⟨rfl, rfl⟩ | ⟨rfl, rfl⟩ | ⟨rfl, rfl⟩ <;> rfl

theorem entityAt_not_amp {c : Char} (h : c ≠ '&') (t : List Char) : entityAt (c :: t) = none := by
  unfold entityAt
  split <;> simp_all

/-- more fuel than characters changes nothing -/
theorem unescapeF_fuel (n : Nat) (s : List Char) (h : s.length ≤ n) : unescapeF n s = unescapeF s.length s := by
  induction n using Nat.strongRecOn generalizing s with
  | _ n ih =>
    cases s with
    | nil => cases n <;> rfl
    | cons c r =>
      cases n with
      | zero => simp at h
      | succ n =>
        simp only [List.length_cons, unescapeF]
        cases he : entityAt (c :: r) with
        | none =>
          simp only
          have hr : r.length ≤ n := by simpa using h
          rw [ih n (Nat.lt_succ_self n) r hr]
        | some p =>
          obtain ⟨x, r'⟩ := p
          simp only
          have hl := entityAt_length he
          simp only [List.length_cons] at hl
          have hr : r'.length ≤ n := by simp at h; omega
          rw [ih n (Nat.lt_succ_self n) r' hr]
          by_cases hk : r.length = 0
          · have : r'.length ≤ 0 := by omega
            have hr'0 : r' = [] := List.length_eq_zero_iff.mp (Nat.le_zero.mp this)
            subst hr'0
            cases r.length <;> rfl
          · have hlt : r.length < n + 1 := by simp at h; omega
            rw [ih r.length hlt r' (by omega)]

theorem unescape_nil : unescape [] = [] := rfl

theorem unescape_entity {e : List Char} {c : Char} (h : (e, c) ∈ entities) (t : List Char) :
    unescape (e ++ t) = c :: unescape t := by
  obtain ⟨r, rfl⟩ := entity_head h
  have he := entityAt_entity h t
  unfold unescape
  simp only [List.cons_append, List.length_cons, unescapeF] at he ⊢
  rw [he]
  simp only
  rw [unescapeF_fuel _ t (by simp)]

theorem unescape_chr {c : Char} (h : c ≠ '&') (t : List Char) : unescape (c :: t) = c :: unescape t := by
  unfold unescape
  simp only [List.length_cons, unescapeF, entityAt_not_amp h]

theorem unescape_escChar (c : Char) (t : List Char) : unescape (escChar c ++ t) = c :: unescape t := by
  rcases escChar_cases c with ⟨hs, he⟩ | ⟨_, he⟩
  · rw [he]
    have : c ≠ '&' := by intro h; subst h; simp [isSpecial] at hs
    exact unescape_chr this t
  · exact unescape_entity he t

/-- unescape is a homomorphism on escaped text -/
theorem unescape_append_of_esc {a : List Char} (ha : Esc a) (b : List Char) :
    unescape (a ++ b) = unescape a ++ unescape b := by
  induction ha with
  | nil => simp [unescape_nil]
  | chr c t hc _ ih =>
    have : c ≠ '&' := by intro h; subst h; simp [isSpecial] at hc
    rw [List.cons_append, unescape_chr this, unescape_chr this, ih, List.cons_append]
  | ent e c t he _ ih =>
    rw [List.append_assoc, unescape_entity he, unescape_entity he, ih, List.cons_append]

end JinjaV.Escape
