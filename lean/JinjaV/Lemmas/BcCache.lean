/-
  Helper lemmas for C27 (Props/C27.lean): the abstract directory (`Dir.get/put/del`), operations that touch only the
  temporary file, accumulation of writes, single-class handlers.  Core Lean only.
-/
import JinjaV.Model.BcCache

namespace JinjaV.C27
open JinjaV.BcCache

theorem get_put_same (d : Dir) (n : String) (v : Bytes) : (d.put n v).get n = some v := by
  simp [Dir.put, Dir.get]

theorem get_del_ne (d : Dir) (n m : String) (h : m ≠ n) : (d.del n).get m = d.get m := by
  induction d with
  | nil => rfl
  | cons p r ih =>
    obtain ⟨k, v⟩ := p
    by_cases hk : k = n
    · subst hk
      have : Dir.del ((k, v) :: r) k = Dir.del r k := by simp [Dir.del, List.filter]
      rw [this, ih]
      have : k ≠ m := fun h' => h h'.symm
      simp [Dir.get, this]
    · have : Dir.del ((k, v) :: r) n = (k, v) :: Dir.del r n := by simp [Dir.del, List.filter, hk]
      rw [this]
      simp only [Dir.get]
      rw [ih]

theorem get_del_same (d : Dir) (n : String) : (d.del n).get n = none := by
  induction d with
  | nil => rfl
  | cons p r ih =>
    obtain ⟨k, v⟩ := p
    by_cases hk : k = n
    · subst hk
      have : Dir.del ((k, v) :: r) k = Dir.del r k := by simp [Dir.del, List.filter]
      rw [this, ih]
    · have : Dir.del ((k, v) :: r) n = (k, v) :: Dir.del r n := by simp [Dir.del, List.filter, hk]
      rw [this]
      simp only [Dir.get, hk, if_false]
      exact ih

theorem get_put_ne (d : Dir) (n m : String) (v : Bytes) (h : m ≠ n) : (d.put n v).get m = d.get m := by
  have : n ≠ m := fun h' => h h'.symm
  simp only [Dir.put, Dir.get, this, if_false]
  exact get_del_ne d n m h

/-- operations that touch nothing but the temporary -/
def tmpOnly : FsOp → Bool
  | .createTmp | .writeTmp _ | .closeTmp | .removeTmp => true
  | _ => false

theorem tmpOnly_preserves (tmp name : String) (ops : List FsOp) (h : ∀ op ∈ ops, tmpOnly op = true) (d : Dir) (m : String)
    (hm : m ≠ tmp) : (runOps tmp name d ops).get m = d.get m := by
  induction ops generalizing d with
  | nil => rfl
  | cons op ops ih =>
    simp only [runOps]
    rw [ih (fun o ho => h o (List.mem_cons_of_mem _ ho))]
    have hop := h op (List.mem_cons_self ..)
    cases op <;> simp [tmpOnly] at hop <;> simp only [FsOp.apply]
    · exact get_put_ne d tmp m _ hm
    · exact get_put_ne d tmp m _ hm
    · exact get_del_ne d tmp m hm

theorem writes_accumulate (tmp name : String) (chunks : List Bytes) (d : Dir) (acc : Bytes) (h : d.get tmp = some acc) :
    (runOps tmp name d (chunks.map .writeTmp)).get tmp = some (acc ++ chunks.flatten) := by
  induction chunks generalizing d acc with
  | nil => simpa [runOps] using h
  | cons c cs ih =>
    simp only [List.map_cons, runOps, FsOp.apply, h, Option.getD_some, List.flatten_cons]
    rw [ih _ (acc ++ c) (get_put_same ..), List.append_assoc]

theorem catches_single (c : String) (e : Exc) : catches [c] e = decide (c ∈ e) := by
  rw [Bool.eq_iff_iff]; simp [catches]

theorem run_append (tmp name : String) (a b : List FsOp) (d : Dir) :
    runOps tmp name d (a ++ b) = runOps tmp name (runOps tmp name d a) b := by
  induction a generalizing d with
  | nil => rfl
  | cons x xs ih => simp [runOps, ih]

theorem writes_tmpOnly (cs : List Bytes) : ∀ op ∈ cs.map FsOp.writeTmp, tmpOnly op = true := by
  intro op hop; simp at hop; obtain ⟨c, _, rfl⟩ := hop; rfl

/-- the state just before the handlers run: temporary created, some chunks written — only the temporary differs -/
theorem partial_write_preserves (tmp name : String) (cs : List Bytes) (d : Dir) (m : String) (hm : m ≠ tmp) :
    (runOps tmp name (FsOp.createTmp.apply tmp name d) (cs.map FsOp.writeTmp)).get m = d.get m := by
  rw [tmpOnly_preserves tmp name _ (writes_tmpOnly cs) _ m hm]
  exact get_put_ne d tmp m _ hm

end JinjaV.C27
