/-
  Helper lemmas about the scanners of Model/Lex.lean: every scanner splits its input
  (`matched ++ rest = input`), which is what losslessness and the line-number invariant rest on.
-/
import JinjaV.Model.Lex

namespace JinjaV.Lex

theorem dropPrefix?_eq (p s r : Str) (h : dropPrefix? p s = some r) : s = p ++ r := by
  induction p generalizing s with
  | nil => simp [dropPrefix?] at h; simp [h]
  | cons a p ih =>
    cases s with
    | nil => simp [dropPrefix?] at h
    | cons c cs =>
      simp only [dropPrefix?] at h
      split at h
      · rename_i hac; subst hac; simp [ih cs h]
      · simp at h

theorem spanP_eq (p : Char → Bool) (s : Str) : (spanP p s).1 ++ (spanP p s).2 = s := by
  simp [spanP]

theorem spanSpace_eq (s : Str) : (spanSpace s).1 ++ (spanSpace s).2 = s := spanP_eq _ s

theorem takeSign_eq (s : Str) : (takeSign s).1 ++ (takeSign s).2 = s := by
  unfold takeSign; split <;> simp

theorem splitTrailing_eq (p : Char → Bool) (s : Str) : (splitTrailing p s).1 ++ (splitTrailing p s).2 = s := by
  simp [splitTrailing]

theorem splitTrailing_snd_all (p : Char → Bool) (s : Str) : (splitTrailing p s).2.all p = true := by
  simp only [splitTrailing]
  have h1 : s.drop (s.length - (s.reverse.takeWhile p).length) = ((s.reverse).take (s.reverse.takeWhile p).length).reverse := by
    rw [List.take_reverse]; simp
  have h2 : (s.reverse).take (s.reverse.takeWhile p).length = s.reverse.takeWhile p := by
    have := List.takeWhile_prefix (p := p) (l := s.reverse)
    exact (List.prefix_iff_eq_take.1 this).symm
  rw [h1, h2]
  rw [List.all_reverse]
  exact List.all_takeWhile

theorem dropPrefix?_append (e r : Str) : dropPrefix? e (e ++ r) = some r := by
  induction e with
  | nil => rfl
  | cons c cs ih => simp [dropPrefix?, ih]

/-- the part kept by `splitTrailing` does not end with a character satisfying `p` -/
theorem splitTrailing_fst_last (p : Char → Bool) (s : Str) (c : Char)
    (h : (splitTrailing p s).1.getLast? = some c) : p c = false := by
  have hrev : s.reverse.takeWhile p ++ s.reverse.dropWhile p = s.reverse := List.takeWhile_append_dropWhile
  have hdw : ∀ x xs, s.reverse.dropWhile p = x :: xs → p x = false := by
    intro x xs hd
    have := List.head?_dropWhile_not p s.reverse
    simpa [hd] using this
  simp only [splitTrailing] at h
  generalize s.reverse.takeWhile p = tw at *
  generalize s.reverse.dropWhile p = dw at *
  have h1 : s = dw.reverse ++ tw.reverse := by
    have := congrArg List.reverse hrev
    rw [List.reverse_append, List.reverse_reverse] at this
    exact this.symm
  subst h1
  have hl : (dw.reverse ++ tw.reverse).length - tw.length = dw.reverse.length := by simp
  rw [hl, List.take_left, List.getLast?_reverse] at h
  cases dw with
  | nil => simp at h
  | cons x xs => simp at h; subst h; exact hdw x xs rfl

theorem rstrip_eq (s : Str) : (rstrip s).1 ++ (rstrip s).2 = s := splitTrailing_eq _ s
theorem splitLastNl_eq (s : Str) : (splitLastNl s).1 ++ (splitLastNl s).2 = s := splitTrailing_eq _ s

theorem lstripText_eq (cfg : Cfg) (ls v : Bool) (sign text : Str) :
    (lstripText cfg ls v sign text).1 ++ (lstripText cfg ls v sign text).2 = text := by
  unfold lstripText
  split
  · exact rstrip_eq text
  · split
    · have := splitLastNl_eq text
      split
      · rename_i upto tail heq
        rw [heq] at this
        split
        · exact this
        · simp
    · simp

/-- what `-` signs and `lstrip_blocks` remove is whitespace -/
theorem lstripText_removed_ws (cfg : Cfg) (ls v : Bool) (sign text : Str) :
    (lstripText cfg ls v sign text).2.all isSpace = true := by
  unfold lstripText
  split
  · exact splitTrailing_snd_all _ _
  · split
    · split
      · rename_i upto tail heq
        split
        · rename_i hc
          simp only [Bool.and_eq_true] at hc
          exact hc.2
        · simp
    · simp

theorem matchEndMinusOrPlain_eq (e s : Str) (mr : Str × Str) (h : matchEndMinusOrPlain e s = some mr) :
    mr.1 ++ mr.2 = s := by
  unfold matchEndMinusOrPlain at h
  have plain : ∀ mr, (dropPrefix? e s).map (fun r2 => (e, r2)) = some mr → mr.1 ++ mr.2 = s := by
    intro mr hp
    cases hd : dropPrefix? e s with
    | none => simp [hd] at hp
    | some r2 => simp [hd] at hp; subst hp; exact (dropPrefix?_eq _ _ _ hd).symm
  simp only at h
  split at h
  · rename_i r
    split at h
    · rename_i r2 hp
      simp at h; subst h
      have := dropPrefix?_eq _ _ _ hp
      simp [this, spanSpace_eq]
    · exact plain mr h
  · exact plain mr h

theorem matchPlainNl_eq (trim : Bool) (e s : Str) (mr : Str × Str) (h : matchPlainNl trim e s = some mr) :
    mr.1 ++ mr.2 = s := by
  unfold matchPlainNl at h
  split at h
  · rename_i r2 hd
    have := dropPrefix?_eq _ _ _ hd
    split at h
    · simp at h; subst h; simp [this]
    · simp at h; subst h; exact this.symm
  · simp at h

theorem matchEnd3_eq (trim : Bool) (e s : Str) (mr : Str × Str) (h : matchEnd3 trim e s = some mr) :
    mr.1 ++ mr.2 = s := by
  unfold matchEnd3 at h
  split at h
  · split at h
    · rename_i r2 hp
      simp at h; subst h
      simp [dropPrefix?_eq _ _ _ hp]
    · exact matchPlainNl_eq _ _ _ _ h
  · split at h
    · rename_i r2 hp
      simp at h; subst h
      simp [dropPrefix?_eq _ _ _ hp, spanSpace_eq]
    · exact matchPlainNl_eq _ _ _ _ h
  · exact matchPlainNl_eq _ _ _ _ h

theorem matchKeywordTag_eq (bs kw : Str) (tail : Str → Option (Str × Str))
    (htail : ∀ x mr, tail x = some mr → mr.1 ++ mr.2 = x) (s : Str) (m : Str × Str × Str)
    (h : matchKeywordTag bs kw tail s = some m) : m.1 ++ m.2.2 = s := by
  unfold matchKeywordTag at h
  split at h
  · simp at h
  · rename_i r1 h1
    split at h
    · simp at h
    · rename_i r4 h4
      split at h
      · simp at h
      · rename_i er h6
        simp at h; subst h
        have e1 := dropPrefix?_eq _ _ _ h1
        have e2 := takeSign_eq r1
        have e3 := spanSpace_eq (takeSign r1).2
        have e4 := dropPrefix?_eq _ _ _ h4
        have e5 := spanSpace_eq r4
        have e6 := htail _ _ h6
        simp only [List.append_assoc]
        rw [e6, e5, ← e4, e3, e2, ← e1]

theorem matchDelim_eq (d s : Str) (m : Str × Str × Str) (h : matchDelim d s = some m) : m.1 ++ m.2.2 = s := by
  unfold matchDelim at h
  split at h
  · simp at h
  · rename_i r1 h1
    simp at h; subst h
    simp [takeSign_eq, ← dropPrefix?_eq _ _ _ h1]

theorem matchPrefixed_eq (bl : Char → Bool) (p s : Str) (m : Str × Str × Str)
    (h : matchPrefixed bl p s = some m) : m.1 ++ m.2.2 = s := by
  unfold matchPrefixed at h
  split at h
  · simp at h
  · rename_i r2 h2
    simp at h; subst h
    have e1 := spanP_eq bl s
    have e2 := dropPrefix?_eq _ _ _ h2
    simp only [List.append_assoc]
    rw [takeSign_eq, ← e2, e1]

theorem matchAlt_eq (cfg : Cfg) (prev : Option Char) (s : Str) (k : RootKind) (m : Str × Str × Str)
    (h : matchAlt cfg prev s k = some m) : m.1 ++ m.2.2 = s := by
  cases k with
  | raw => exact matchKeywordTag_eq _ _ _ (matchEndMinusOrPlain_eq _) _ _ h
  | comment => exact matchDelim_eq _ _ _ h
  | block => exact matchDelim_eq _ _ _ h
  | vari => exact matchDelim_eq _ _ _ h
  | lineStmt =>
    simp only [matchAlt] at h
    split at h
    · simp at h
    · split at h
      · exact matchPrefixed_eq _ _ _ _ h
      · simp at h
  | lineComment =>
    simp only [matchAlt] at h
    repeat' split at h
    all_goals first | (simp at h; done) | exact matchPrefixed_eq _ _ _ _ h

theorem firstAlt_eq (cfg : Cfg) (prev : Option Char) (s : Str) (alts : List RootKind) (k : RootKind) (m sg r : Str)
    (h : firstAlt cfg prev s alts = some (k, m, sg, r)) : m ++ r = s := by
  induction alts with
  | nil => simp [firstAlt] at h
  | cons a as ih =>
    unfold firstAlt at h
    split at h
    · rename_i m' sg' r' hm
      simp at h; obtain ⟨_, rfl, _, rfl⟩ := h
      exact matchAlt_eq _ _ _ _ _ hm
    · exact ih h

theorem findRoot_eq (cfg : Cfg) (alts : List RootKind) (prev : Option Char) (s t : Str) (k : RootKind) (m sg r : Str)
    (h : findRoot cfg alts prev s = some (t, k, m, sg, r)) : t ++ (m ++ r) = s := by
  induction s generalizing prev t with
  | nil =>
    unfold findRoot at h
    split at h
    · rename_i k' m' sg' r' hf
      simp at h; obtain ⟨rfl, _, rfl, _, rfl⟩ := h
      simpa using firstAlt_eq _ _ _ _ _ _ _ _ hf
    · simp at h
  | cons c cs ih =>
    unfold findRoot at h
    split at h
    · rename_i k' m' sg' r' hf
      simp at h; obtain ⟨rfl, _, rfl, _, rfl⟩ := h
      simpa using firstAlt_eq _ _ _ _ _ _ _ _ hf
    · split at h
      · rename_i t' k' m' sg' r' hr
        simp at h; obtain ⟨rfl, rfl, rfl, rfl, rfl⟩ := h
        have := ih _ _ hr
        simp [← this]
      · simp at h

theorem findLazy_eq {β : Type} (f : Str → Option (Str × β × Str))
    (hf : ∀ x m b r, f x = some (m, b, r) → m ++ r = x) (s t m : Str) (b : β) (r : Str)
    (h : findLazy f s = some (t, m, b, r)) : t ++ (m ++ r) = s := by
  induction s generalizing t with
  | nil =>
    unfold findLazy at h
    split at h
    · rename_i m' b' r' hm
      simp at h; obtain ⟨rfl, rfl, _, rfl⟩ := h
      simpa using hf _ _ _ _ hm
    · simp at h
  | cons c cs ih =>
    unfold findLazy at h
    split at h
    · rename_i m' b' r' hm
      simp at h; obtain ⟨rfl, rfl, _, rfl⟩ := h
      simpa using hf _ _ _ _ hm
    · split at h
      · rename_i t' m' b' r' hr
        simp at h; obtain ⟨rfl, rfl, rfl, rfl⟩ := h
        have := ih _ hr
        simp [← this]
      · simp at h

theorem matchEndRaw_eq (cfg : Cfg) (s : Str) (m : Str × Str × Str) (h : matchEndRaw cfg s = some m) :
    m.1 ++ m.2.2 = s :=
  matchKeywordTag_eq _ _ _ (matchEnd3_eq _ _) _ _ h

-- tag rules -----------------------------------------------------------------------------------------------

theorem digitRunF_eq (n : Nat) (s : Str) : (digitRunF n s).1 ++ (digitRunF n s).2 = s := by
  induction n generalizing s with
  | zero => simp [digitRunF]
  | succ n ih =>
    unfold digitRunF
    split
    · simp
    · split
      · rename_i r2 hr
        split
        · simp
        · simp only [List.append_assoc, List.cons_append]
          rw [ih r2, ← hr]; simp
      · simp

theorem digitRun_eq (s : Str) : (digitRun s).1 ++ (digitRun s).2 = s := digitRunF_eq _ _

theorem matchFrac_eq (s : Str) (m : Str × Str) (h : matchFrac s = some m) : m.1 ++ m.2 = s := by
  unfold matchFrac at h
  split at h
  · split at h
    · simp at h
    · simp at h; subst h; simp [digitRun_eq]
  · simp at h

theorem takeExpSign_eq (s : Str) : (takeExpSign s).1 ++ (takeExpSign s).2 = s := by
  unfold takeExpSign; split <;> simp

theorem matchExpo_eq (s : Str) (m : Str × Str) (h : matchExpo s = some m) : m.1 ++ m.2 = s := by
  unfold matchExpo at h
  split at h
  · split at h
    · split at h
      · simp at h
      · simp at h; subst h
        simp only [List.cons_append, List.append_assoc, List.cons.injEq, true_and]
        rw [digitRun_eq, takeExpSign_eq]
    · simp at h
  · simp at h

theorem matchFloat_eq (prev : Option Char) (s : Str) (m : Str × Str) (h : matchFloat prev s = some m) :
    m.1 ++ m.2 = s := by
  unfold matchFloat at h
  split at h
  · simp at h
  · split at h
    · simp at h
    · have e0 := digitRun_eq s
      split at h
      · rename_i f hf
        have ef := matchFrac_eq _ _ hf
        split at h
        · rename_i x hx
          simp at h; subst h
          simp only [List.append_assoc]
          rw [matchExpo_eq _ _ hx, ef, e0]
        · simp at h; subst h
          simp only [List.append_assoc]; rw [ef, e0]
      · split at h
        · rename_i x hx
          simp at h; subst h
          simp only [List.append_assoc]; rw [matchExpo_eq _ _ hx, e0]
        · simp at h

theorem uDigits_eq (ok : Char → Bool) (s : Str) : (uDigits ok s).1 ++ (uDigits ok s).2 = s := by
  fun_induction uDigits ok s <;> simp_all

theorem matchPrefInt_eq (x : Char) (ok : Char → Bool) (s : Str) (m : Str × Str)
    (h : matchPrefInt x ok s = some m) : m.1 ++ m.2 = s := by
  unfold matchPrefInt at h
  split at h
  · split at h
    · split at h
      · simp at h
      · simp at h; subst h; simp [uDigits_eq]
    · simp at h
  · simp at h

theorem matchDecInt_eq (s : Str) (m : Str × Str) (h : matchDecInt s = some m) : m.1 ++ m.2 = s := by
  unfold matchDecInt at h
  split at h
  · split at h
    · simp at h; subst h; simp [uDigits_eq]
    · split at h
      · simp at h; subst h; simp [uDigits_eq]
      · simp at h
  · simp at h

theorem matchInt_eq (s : Str) (m : Str × Str) (h : matchInt s = some m) : m.1 ++ m.2 = s := by
  unfold matchInt at h
  split at h
  · rename_i m0 hm; simp at h; subst h; exact matchPrefInt_eq _ _ _ _ hm
  · split at h
    · rename_i m0 hm; simp at h; subst h; exact matchPrefInt_eq _ _ _ _ hm
    · split at h
      · rename_i m0 hm; simp at h; subst h; exact matchPrefInt_eq _ _ _ _ hm
      · exact matchDecInt_eq _ _ h

theorem matchName_eq (s : Str) (m : Str × Str) (h : matchName s = some m) : m.1 ++ m.2 = s := by
  unfold matchName at h
  split at h
  · simp at h
  · simp at h; subst h; simp

theorem strBody_eq (q : Char) (s b r : Str) (h : strBody q s = some (b, r)) : b ++ r = s := by
  fun_induction strBody q s generalizing b r <;> simp_all
  all_goals (obtain ⟨rfl, rfl⟩ := h; simp_all)

theorem matchString_eq (s : Str) (m : Str × Str) (h : matchString s = some m) : m.1 ++ m.2 = s := by
  unfold matchString at h
  split at h
  · rename_i r0
    cases hb : strBody '\'' r0 with
    | none => simp [hb] at h
    | some br =>
      obtain ⟨b, r2⟩ := br
      simp [hb] at h; subst h
      simp [strBody_eq _ _ _ _ hb]
  · rename_i r0
    cases hb : strBody '"' r0 with
    | none => simp [hb] at h
    | some br =>
      obtain ⟨b, r2⟩ := br
      simp [hb] at h; subst h
      simp [strBody_eq _ _ _ _ hb]
  · simp at h

theorem matchOp_eq (s : Str) (m : Str × Str) (h : matchOp s = some m) : m.1 ++ m.2 = s := by
  unfold matchOp at h
  split at h
  · rename_i mr hf
    simp at h; subst h
    obtain ⟨o, _, ho⟩ := List.exists_of_findSome?_eq_some hf
    cases hd : dropPrefix? o s with
    | none => simp [hd] at ho
    | some r' =>
      simp [hd] at ho; subst ho
      exact (dropPrefix?_eq _ _ _ hd).symm
  · split at h
    · split at h
      · simp at h; subst h; simp
      · simp at h
    · simp at h

theorem tagRule_eq (prev : Option Char) (s : Str) (k : TK) (m r : Str)
    (h : tagRule prev s = .tok k m r) : m ++ r = s := by
  unfold tagRule at h
  split at h
  · simp at h; obtain ⟨_, rfl, rfl⟩ := h; exact spanSpace_eq s
  · split at h
    · rename_i m' hm; simp at h; obtain ⟨_, rfl, rfl⟩ := h; exact matchFloat_eq _ _ _ hm
    · split at h
      · rename_i m' hm; simp at h; obtain ⟨_, rfl, rfl⟩ := h; exact matchInt_eq _ _ hm
      · split at h
        · rename_i m' hm; simp at h; obtain ⟨_, rfl, rfl⟩ := h; exact matchName_eq _ _ hm
        · split at h
          · rename_i m' hm; simp at h; obtain ⟨_, rfl, rfl⟩ := h; exact matchString_eq _ _ hm
          · split at h
            · rename_i m' hm; simp at h; obtain ⟨_, rfl, rfl⟩ := h; exact matchOp_eq _ _ hm
            · simp at h

theorem matchLineStmtEnd_eq (s : Str) (m : Str × Str) (h : matchLineStmtEnd s = some m) : m.1 ++ m.2 = s := by
  unfold matchLineStmtEnd at h
  split at h
  · simp at h; subst h; exact spanSpace_eq s
  · split at h
    · simp at h
    · simp at h; subst h
      simp only [← List.append_assoc]
      rw [splitLastNl_eq, spanSpace_eq]

end JinjaV.Lex
