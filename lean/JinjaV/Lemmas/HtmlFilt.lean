/-
  Lemmas about Model/HtmlFilt.lean.  Core Lean only.
-/
import JinjaV.Lemmas.Escape
import JinjaV.Model.HtmlFilt
namespace JinjaV.HtmlFilt
open JinjaV.Escape List

/-! ## replace chains: when does a character survive -/

/-- no later step writes `x` -/
def noIntro (x : Char) (post : List (Char × List Char)) : Bool := post.all fun p => !p.2.contains x

/-- decidable sufficient condition for "`x` does not occur after the chain": some step replaces `x` by text
    without `x`, and no later step writes `x` -/
def chainKills (x : Char) : List (Char × List Char) → Bool
  | [] => false
  | p :: rest => (p.1 == x && !p.2.contains x && noIntro x rest) || chainKills x rest

theorem replaceChar_kills {x : Char} {r : List Char} (hr : x ∉ r) (s : List Char) : x ∉ replaceChar x r s := by
  unfold replaceChar
  intro h
  obtain ⟨c, _, hc⟩ := List.mem_flatMap.mp h
  by_cases hcx : c = x
  · rw [if_pos hcx] at hc; exact hr hc
  · rw [if_neg hcx] at hc
    simp only [List.mem_singleton] at hc
    exact hcx hc.symm

theorem replaceChar_keeps {x c : Char} {r s : List Char} (hr : x ∉ r) (hs : x ∉ s) : x ∉ replaceChar c r s := by
  unfold replaceChar
  intro h
  obtain ⟨y, hy, hc⟩ := List.mem_flatMap.mp h
  by_cases hyc : y = c
  · rw [if_pos hyc] at hc; exact hr hc
  · rw [if_neg hyc] at hc
    simp only [List.mem_singleton] at hc
    subst hc; exact hs hy

theorem applyChain_keeps {x : Char} {post : List (Char × List Char)} (hp : noIntro x post = true) {s : List Char}
    (hs : x ∉ s) : x ∉ applyChain post s := by
  induction post generalizing s with
  | nil => exact hs
  | cons p post ih =>
    simp only [noIntro, List.all_cons, Bool.and_eq_true, Bool.not_eq_true', List.contains_eq_mem,
      decide_eq_false_iff_not] at hp
    rw [applyChain_cons]
    exact ih (by simpa [noIntro] using hp.2) (replaceChar_keeps hp.1 hs)

theorem chainKills_sound {x : Char} {ch : List (Char × List Char)} (h : chainKills x ch = true) (d : List Char) :
    x ∉ applyChain ch d := by
  induction ch generalizing d with
  | nil => simp [chainKills] at h
  | cons p rest ih =>
    rw [applyChain_cons]
    simp only [chainKills, Bool.or_eq_true, Bool.and_eq_true, beq_iff_eq, Bool.not_eq_true',
      List.contains_eq_mem, decide_eq_false_iff_not] at h
    rcases h with ⟨⟨hpx, hr⟩, hpost⟩ | h
    · rw [hpx]
      exact applyChain_keeps hpost (replaceChar_kills hr d)
    · exact ih h _

/-! ## the JSON string scanner reads the chain's escapes back -/

def targets (ch : List (Char × List Char)) : List Char := ch.map Prod.fst

/-- characters with a meaning inside a JSON escape sequence -/
def isProtected (c : Char) : Bool :=
  c == '\\' || c == '"' || c == 'u' || (hexVal c).isSome || (simpleEsc c).isSome

/-- the image of `x` under the chain is `\uXXXX` with `XXXX` the code of `x` -/
def imgOK (ch : List (Char × List Char)) (x : Char) : Bool :=
  match applyChain ch [x] with
  | ['\\', 'u', a, b, c, d] => hex4 a b c d == some x.toNat
  | _ => false

/-- decidable: every rewritten character is unprotected and is rewritten into its own `\uXXXX` escape -/
def chainJsonOK (ch : List (Char × List Char)) : Bool :=
  (targets ch).all fun x => !isProtected x && imgOK ch x

theorem applyChain_nontarget {ch : List (Char × List Char)} {c : Char} (h : c ∉ targets ch) :
    applyChain ch [c] = [c] := by
  induction ch with
  | nil => rfl
  | cons p rest ih =>
    simp only [targets, List.map_cons, List.mem_cons, not_or] at h
    rw [applyChain_cons]
    have : replaceChar p.1 p.2 [c] = [c] := by
      simp [replaceChar, h.1]
    rw [this]
    exact ih h.2

theorem protected_nontarget {ch : List (Char × List Char)} (hok : chainJsonOK ch = true) {c : Char}
    (hc : isProtected c = true) : applyChain ch [c] = [c] := by
  apply applyChain_nontarget
  intro hm
  have := (List.all_eq_true.mp hok) c hm
  simp [hc] at this

theorem hex_protected {c : Char} {v : Nat} (h : hexVal c = some v) : isProtected c = true := by
  simp [isProtected, h]

theorem hex4_protected {a b c d : Char} {v : Nat} (h : hex4 a b c d = some v) :
    isProtected a = true ∧ isProtected b = true ∧ isProtected c = true ∧ isProtected d = true := by
  unfold hex4 at h
  split at h
  · rename_i ha hb hc hd
    exact ⟨hex_protected ha, hex_protected hb, hex_protected hc, hex_protected hd⟩
  · simp at h

theorem simpleEsc_protected {c : Char} {v : Nat} (h : simpleEsc c = some v) : isProtected c = true := by
  simp [isProtected, h]

theorem jsonStrDecode_u_some {a b c d : Char} {rest : List Char} {v0 : Nat} {r : List Nat}
    (h1 : hex4 a b c d = some v0) (h2 : jsonStrDecode rest = some r) :
    jsonStrDecode ('\\' :: 'u' :: a :: b :: c :: d :: rest) = some (v0 :: r) := by
  rw [jsonStrDecode]; simp [h1, h2]

theorem jsonStrDecode_u_inv {a b c d : Char} {rest : List Char} {v : List Nat}
    (h : jsonStrDecode ('\\' :: 'u' :: a :: b :: c :: d :: rest) = some v) :
    ∃ v0 r, hex4 a b c d = some v0 ∧ jsonStrDecode rest = some r ∧ v = v0 :: r := by
  rw [jsonStrDecode] at h
  simp only [↓reduceIte] at h
  split at h
  · rename_i v0 r h1 h2
    exact ⟨v0, r, h1, h2, by simpa using h.symm⟩
  · simp at h

theorem jsonStrDecode_esc_some {e : Char} (he : e ≠ 'u') {rest : List Char} {v0 : Nat} {r : List Nat}
    (h1 : simpleEsc e = some v0) (h2 : jsonStrDecode rest = some r) :
    jsonStrDecode ('\\' :: e :: rest) = some (v0 :: r) := by
  rw [jsonStrDecode.eq_def]; simp [h1, h2, he]

theorem jsonStrDecode_esc_inv {e : Char} (he : e ≠ 'u') {rest : List Char} {v : List Nat}
    (h : jsonStrDecode ('\\' :: e :: rest) = some v) :
    ∃ v0 r, simpleEsc e = some v0 ∧ jsonStrDecode rest = some r ∧ v = v0 :: r := by
  rw [jsonStrDecode.eq_def] at h
  simp only [↓reduceIte, he] at h
  split at h
  · rename_i v0 r h1 h2
    exact ⟨v0, r, h1, h2, by simpa using h.symm⟩
  · simp at h

theorem jsonStrDecode_chr_some {c : Char} (h1 : c ≠ '\\') (h2 : c ≠ '"') {rest : List Char} {r : List Nat}
    (h : jsonStrDecode rest = some r) : jsonStrDecode (c :: rest) = some (c.toNat :: r) := by
  rw [jsonStrDecode.eq_def]; simp [h1, h2, h]

theorem jsonStrDecode_chr_inv {c : Char} (h1 : c ≠ '\\') (h2 : c ≠ '"') {rest : List Char} {v : List Nat}
    (h : jsonStrDecode (c :: rest) = some v) : ∃ r, jsonStrDecode rest = some r ∧ v = c.toNat :: r := by
  rw [jsonStrDecode.eq_def] at h
  simp only [h1, h2, ↓reduceIte] at h
  split at h
  · rename_i r hr
    exact ⟨r, hr, by simpa using h.symm⟩
  · simp at h
theorem json_roundtrip_aux {ch : List (Char × List Char)} (hok : chainJsonOK ch = true) :
    ∀ (n : Nat) (b : List Char) (v : List Nat), b.length ≤ n → jsonStrDecode b = some v →
      jsonStrDecode (applyChain ch b) = some v := by
  have hbs : applyChain ch ['\\'] = ['\\'] := protected_nontarget hok (by decide)
  have hu : applyChain ch ['u'] = ['u'] := protected_nontarget hok (by decide)
  intro n
  induction n using Nat.strongRecOn with
  | _ n ih =>
  intro b v hlen h
  cases b with
  | nil => rw [applyChain_nil]; exact h
  | cons c rest =>
    rw [applyChain_cons_str]
    by_cases hc : c = '\\'
    · subst hc
      rw [hbs]
      cases rest with
      | nil => simp [jsonStrDecode] at h
      | cons e rest' =>
        rw [applyChain_cons_str]
        by_cases he : e = 'u'
        · subst he
          rw [hu]
          match rest', h, hlen with
          | [], h, _ => simp [jsonStrDecode] at h
          | [_], h, _ => simp [jsonStrDecode] at h
          | [_, _], h, _ => simp [jsonStrDecode] at h
          | [_, _, _], h, _ => simp [jsonStrDecode] at h
          | a :: b :: c :: d :: rest'', h, hlen =>
            obtain ⟨v0, r, hx, hr, rfl⟩ := jsonStrDecode_u_inv h
            obtain ⟨pa, pb, pc, pd⟩ := hex4_protected hx
            rw [applyChain_cons_str ch a, applyChain_cons_str ch b, applyChain_cons_str ch c,
              applyChain_cons_str ch d, protected_nontarget hok pa, protected_nontarget hok pb,
              protected_nontarget hok pc, protected_nontarget hok pd]
            have hl : rest''.length < n := by simp only [List.length_cons] at hlen; omega
            exact jsonStrDecode_u_some hx (ih rest''.length hl rest'' r (Nat.le_refl _) hr)
        · obtain ⟨v0, r, hx, hr, rfl⟩ := jsonStrDecode_esc_inv he h
          rw [protected_nontarget hok (simpleEsc_protected hx)]
          have hl : rest'.length < n := by simp only [List.length_cons] at hlen; omega
          exact jsonStrDecode_esc_some he hx (ih rest'.length hl rest' r (Nat.le_refl _) hr)
    · by_cases hq : c = '"'
      · subst hq; rw [jsonStrDecode.eq_def] at h; simp at h
      · obtain ⟨r, hr, rfl⟩ := jsonStrDecode_chr_inv hc hq h
        have hl : rest.length < n := by simp only [List.length_cons] at hlen; omega
        have ihr := ih rest.length hl rest r (Nat.le_refl _) hr
        by_cases ht : c ∈ targets ch
        · have hc' := (List.all_eq_true.mp hok) c ht
          simp only [Bool.and_eq_true, Bool.not_eq_true'] at hc'
          have himg := hc'.2
          unfold imgOK at himg
          split at himg
          · rename_i a b c' d heq
            rw [heq]
            have : hex4 a b c' d = some c.toNat := by simpa using himg
            exact jsonStrDecode_u_some this ihr
          · simp at himg
        · rw [applyChain_nontarget ht]
          exact jsonStrDecode_chr_some hc hq ihr

/-! ## xmlattr -/

/-- the items `do_xmlattr` keeps: value neither `None` nor undefined -/
def keptItems : List (List Char × XVal) → List (List Char × Val)
  | [] => []
  | (k, .val v) :: rest => (k, v) :: keptItems rest
  | (_, .none) :: rest => keptItems rest
  | (_, .undefined) :: rest => keptItems rest

/-- `f'{escape(key)}="{escape(value)}"'` -/
def attrPiece (kv : List Char × Val) : List Char := escape kv.1 ++ '=' :: '"' :: kv.2.esc ++ ['"']

theorem xmlattrItems_ok {items : List (List Char × XVal)} {its : List (List Char)} (h : xmlattrItems items = .ok its) :
    its = (keptItems items).map attrPiece ∧ ∀ kv ∈ keptItems items, keyBad kv.1 = false := by
  induction items generalizing its with
  | nil => simp [xmlattrItems] at h; simp [keptItems, h]
  | cons p rest ih =>
    obtain ⟨k, v⟩ := p
    cases v with
    | none => simp only [xmlattrItems] at h; simpa [keptItems] using ih h
    | undefined => simp only [xmlattrItems] at h; simpa [keptItems] using ih h
    | val v =>
      simp only [xmlattrItems] at h
      by_cases hb : keyBad k = true
      · simp [hb] at h
      · simp only [hb] at h
        cases hr : xmlattrItems rest with
        | error e => simp [hr] at h
        | ok r =>
          simp only [hr, Bool.false_eq_true, ↓reduceIte, Except.ok.injEq] at h
          obtain ⟨h1, h2⟩ := ih hr
          subst h
          refine ⟨by simp [keptItems, attrPiece, h1], ?_⟩
          intro kv hkv
          simp only [keptItems, List.mem_cons] at hkv
          rcases hkv with rfl | hkv
          · simpa using hb
          · exact h2 kv hkv

theorem xmlattrItems_bad {items : List (List Char × XVal)} {k : List Char} {v : Val}
    (hm : (k, XVal.val v) ∈ items) (hb : keyBad k = true) : ∃ e, xmlattrItems items = .error e := by
  induction items with
  | nil => cases hm
  | cons p rest ih =>
    obtain ⟨k', v'⟩ := p
    rcases List.mem_cons.mp hm with heq | hm'
    · simp only [Prod.mk.injEq] at heq
      obtain ⟨rfl, rfl⟩ := heq
      exact ⟨k, by simp [xmlattrItems, hb]⟩
    · obtain ⟨e, he⟩ := ih hm'
      cases v' with
      | none => exact ⟨e, by simpa [xmlattrItems] using he⟩
      | undefined => exact ⟨e, by simpa [xmlattrItems] using he⟩
      | val v' =>
        by_cases hb' : keyBad k' = true
        · exact ⟨k', by simp [xmlattrItems, hb']⟩
        · exact ⟨e, by simp [xmlattrItems, hb', he]⟩

/-! ## urlize -/

theorem mem_takeWhile_imp {p : Char → Bool} {l : List Char} {x : Char} (h : x ∈ l.takeWhile p) : p x = true := by
  induction l with
  | nil => simp at h
  | cons a l ih =>
    simp only [List.takeWhile_cons] at h
    by_cases hp : p a = true
    · simp only [hp, ↓reduceIte, List.mem_cons] at h
      rcases h with rfl | h
      · exact hp
      · exact ih h
    · simp [hp] at h

theorem splitWsF_subset (n : Nat) (s : List Char) : ∀ w ∈ splitWsF n s, w ⊆ s := by
  induction n generalizing s with
  | zero => intro w hw; simp [splitWsF] at hw; subst hw; simp
  | succ n ih =>
    intro w hw
    simp only [splitWsF] at hw
    cases hd : s.dropWhile (fun c => !pyIsSpace c) with
    | nil =>
      simp only [hd, List.mem_singleton] at hw
      subst hw
      exact (List.takeWhile_sublist _).subset
    | cons c r =>
      simp only [hd, List.mem_cons] at hw
      have hsub : (c :: r) ⊆ s := by rw [← hd]; exact (List.dropWhile_sublist _).subset
      rcases hw with rfl | rfl | hw
      · exact (List.takeWhile_sublist _).subset
      · exact fun x hx => hsub ((List.takeWhile_sublist _).subset hx)
      · exact fun x hx => hsub ((List.dropWhile_sublist _).subset (ih _ w hw hx))

theorem splitWsF_uniform (n : Nat) (s : List Char) :
    ∀ w ∈ splitWsF n s, (∀ c ∈ w, pyIsSpace c = true) ∨ (∀ c ∈ w, pyIsSpace c = false) := by
  induction n generalizing s with
  | zero => intro w hw; simp [splitWsF] at hw; subst hw; left; simp
  | succ n ih =>
    intro w hw
    simp only [splitWsF] at hw
    have htw : ∀ c ∈ s.takeWhile (fun c => !pyIsSpace c), pyIsSpace c = false := by
      intro c hc
      simpa using mem_takeWhile_imp hc
    cases hd : s.dropWhile (fun c => !pyIsSpace c) with
    | nil =>
      simp only [hd, List.mem_singleton] at hw
      subst hw
      exact Or.inr htw
    | cons c r =>
      simp only [hd, List.mem_cons] at hw
      rcases hw with rfl | rfl | hw
      · exact Or.inr htw
      · left
        intro x hx
        exact mem_takeWhile_imp hx
      · exact ih _ w hw

theorem takeHead_subset (s : List Char) : (takeHead s).1 ⊆ s ∧ (takeHead s).2 ⊆ s := by
  induction h : s.length using Nat.strongRecOn generalizing s with
  | _ n ih =>
  cases s with
  | nil => simp [takeHead]
  | cons c r =>
    rw [takeHead.eq_def]
    simp only
    by_cases h1 : c = '(' ∨ c = '<'
    · simp only [h1, ↓reduceIte]
      have := ih r.length (by simp at h; omega) r rfl
      exact ⟨List.cons_subset_cons c this.1, fun x hx => List.mem_cons_of_mem _ (this.2 hx)⟩
    · simp only [h1, ↓reduceIte]
      by_cases h2 : c = '&'
      · simp only [h2, ↓reduceIte]
        split
        · rename_i r' 
          have := ih r'.length (by simp at h; omega) r' rfl
          constructor
          · intro x hx
            simp only [List.mem_cons] at hx ⊢
            rcases hx with rfl | rfl | rfl | rfl | hx
            · simp
            · simp
            · simp
            · simp
            · right; right; right; right; exact this.1 hx
          · intro x hx
            simp only [List.mem_cons]
            right; right; right; right; exact this.2 hx
        · simp
      · simp [h2]

theorem stripTail_subset (m acc : List Char) :
    (stripTail m acc).1 ⊆ m ∧ (stripTail m acc).2 ⊆ m ++ acc := by
  induction h : m.length using Nat.strongRecOn generalizing m acc with
  | _ n ih =>
  cases m with
  | nil => simp [stripTail]
  | cons c r =>
    rw [stripTail.eq_def]
    simp only
    by_cases h1 : isTailChar c = true
    · simp only [h1, ↓reduceIte]
      have := ih r.length (by simp at h; omega) r (c :: acc) rfl
      refine ⟨fun x hx => List.mem_cons_of_mem _ (this.1 hx), ?_⟩
      intro x hx
      have := this.2 hx
      simp only [List.mem_append, List.mem_cons] at this ⊢
      rcases this with h | h | h
      · exact Or.inl (Or.inr h)
      · exact Or.inl (Or.inl h)
      · exact Or.inr h
    · simp only [h1, Bool.false_eq_true, ↓reduceIte]
      by_cases h2 : c = ';'
      · simp only [h2, ↓reduceIte]
        split
        · rename_i r'
          have := ih r'.length (by simp at h; omega) r' ('&' :: 'g' :: 't' :: ';' :: acc) rfl
          constructor
          · intro x hx
            simp only [List.mem_cons]
            right; right; right; right; exact this.1 hx
          · intro x hx
            have := this.2 hx
            simp only [List.mem_append, List.mem_cons] at this ⊢
            rcases this with h | h | h | h | h | h
            · left; right; right; right; right; exact h
            · left; right; right; right; left; exact h
            · left; right; right; left; exact h
            · left; right; left; exact h
            · left; left; exact h
            · right; exact h
        · simp
      · simp [h2]

theorem moveTail_subset (ec : List Char) (n : Nat) (W : List Char) (mt : List Char × List Char)
    (h : mt.1 ⊆ W ∧ mt.2 ⊆ W) : (moveTail ec n mt).1 ⊆ W ∧ (moveTail ec n mt).2 ⊆ W := by
  induction n generalizing mt with
  | zero => simpa [moveTail] using h
  | succ n ih =>
    obtain ⟨m, t⟩ := mt
    simp only [moveTail]
    cases hi : indexSub ec t with
    | none => simpa using h
    | some i =>
      simp only
      apply ih
      constructor
      · intro x hx
        rcases List.mem_append.mp hx with hx | hx
        · exact h.1 hx
        · exact h.2 ((List.take_sublist _ _).subset hx)
      · exact fun x hx => h.2 ((List.drop_sublist _ _).subset hx)

theorem balance_subset (W : List Char) (mt : List Char × List Char) (h : mt.1 ⊆ W ∧ mt.2 ⊆ W) :
    (balance mt).1 ⊆ W ∧ (balance mt).2 ⊆ W := by
  unfold balance
  generalize balancePairs = ps
  induction ps generalizing mt with
  | nil => simpa using h
  | cons p ps ih =>
    simp only [List.foldl_cons]
    apply ih
    split
    · exact h
    · exact moveTail_subset _ _ W mt h

theorem splitWord_subset (word : List Char) :
    (splitWord word).1 ⊆ word ∧ (splitWord word).2.1 ⊆ word ∧ (splitWord word).2.2 ⊆ word := by
  unfold splitWord
  have hh := takeHead_subset word
  have ht := stripTail_subset (takeHead word).2.reverse []
  simp only
  have hW : ((stripTail (takeHead word).2.reverse []).1.reverse ⊆ word ∧ (stripTail (takeHead word).2.reverse []).2 ⊆ word) := by
    constructor
    · intro x hx
      have := ht.1 (List.mem_reverse.mp hx)
      exact hh.2 (List.mem_reverse.mp this)
    · intro x hx
      have := ht.2 hx
      simp only [List.append_nil, List.mem_reverse] at this
      exact hh.2 this
  have hb := balance_subset word ((stripTail (takeHead word).2.reverse []).1.reverse, (stripTail (takeHead word).2.reverse []).2) hW
  exact ⟨hh.1, hb.1, hb.2⟩

/-- the documented shape of one piece of urlize's output -/
def Seg.WF : Seg → Prop
  | .text t => MFree t
  | .anchor h r t x => MFree h ∧ (∀ c ∈ h, pyIsSpace c = false) ∧ (∀ v, r = some v → MFree v) ∧
      (∀ v, t = some v → MFree v) ∧ MFree x

theorem trimUrl_mfree (limit : Option Int) {x : List Char} (h : MFree x) : MFree (trimUrl limit x) := by
  cases limit with
  | none => exact h
  | some l =>
    simp only [trimUrl]
    split
    · apply MFree.append
      · unfold sliceTo; split <;> exact MFree.take _ h
      · decide
    · exact h

theorem anchor_render_head (h : List Char) (r t : Option (List Char)) (x : List Char) :
    ∃ rest, (Seg.anchor h r t x).render = '<' :: rest := by
  exact ⟨_, rfl⟩

theorem schemeFold_anchor (A : UrlizeArgs) (ss : List (List Char)) (hss : ∀ s ∈ ss, ∃ c r, s = c :: r ∧ c ≠ '<')
    (h : List Char) (r t : Option (List Char)) (x : List Char) :
    ss.foldl (schemeStep A) (.anchor h r t x) = .anchor h r t x := by
  induction ss with
  | nil => rfl
  | cons s ss ih =>
    simp only [List.foldl_cons]
    have hstep : schemeStep A (.anchor h r t x) s = .anchor h r t x := by
      obtain ⟨c, r', rfl, hc⟩ := hss s (by simp)
      obtain ⟨rest, hr⟩ := anchor_render_head h r t x
      simp only [schemeStep, hr]
      have : (c :: r').isPrefixOf ('<' :: rest) = false := by
        simp [List.isPrefixOf, hc]
      simp [this]
    rw [hstep]
    exact ih (fun s hs => hss s (List.mem_cons_of_mem _ hs))

theorem schemeFold_text (A : UrlizeArgs) (ss : List (List Char)) (hss : ∀ s ∈ ss, ∃ c r, s = c :: r ∧ c ≠ '<')
    (middle : List Char) :
    ss.foldl (schemeStep A) (.text middle) = .text middle ∨
    (ss.foldl (schemeStep A) (.text middle) = .anchor middle A.rel A.target middle ∧ ∃ s ∈ ss, s.isPrefixOf middle = true) := by
  induction ss with
  | nil => left; rfl
  | cons s ss ih =>
    simp only [List.foldl_cons]
    have hss' : ∀ s ∈ ss, ∃ c r, s = c :: r ∧ c ≠ '<' := fun s hs => hss s (List.mem_cons_of_mem _ hs)
    by_cases hc : middle ≠ s ∧ s.isPrefixOf middle = true
    · right
      have : schemeStep A (.text middle) s = .anchor middle A.rel A.target middle := by
        unfold schemeStep
        exact if_pos hc
      rw [this, schemeFold_anchor A ss hss']
      exact ⟨rfl, s, by simp, hc.2⟩
    · have : schemeStep A (.text middle) s = .text middle := by
        unfold schemeStep
        exact if_neg hc
      rw [this]
      rcases ih hss' with h | ⟨h, s', hs', hp⟩
      · left; exact h
      · right; exact ⟨h, s', List.mem_cons_of_mem _ hs', hp⟩

theorem isPrefixOf_head {c : Char} {r m : List Char} (h : (c :: r).isPrefixOf m = true) : c ∈ m := by
  cases m with
  | nil => simp [List.isPrefixOf] at h
  | cons a m =>
    simp only [List.isPrefixOf, Bool.and_eq_true, beq_iff_eq] at h
    simp [h.1]

/-- what `classify` returns has the documented shape, for any url / e-mail predicates whose matches contain a
    non-space character -/
theorem classify_wf (A : UrlizeArgs) (middle : List Char)
    (hurl : ∀ m, A.isUrl m = true → ∃ c ∈ m, pyIsSpace c = false)
    (hmail : ∀ m, A.isEmail m = true → ∃ c ∈ m, pyIsSpace c = false)
    (hrel : ∀ v, A.rel = some v → MFree v) (htarget : ∀ v, A.target = some v → MFree v)
    (hsch : ∀ ss, A.schemes = some ss → ∀ s ∈ ss, ∃ c r, s = c :: r ∧ c ≠ '<' ∧ pyIsSpace c = false)
    (hM : MFree middle)
    (hU : (∀ c ∈ middle, pyIsSpace c = true) ∨ (∀ c ∈ middle, pyIsSpace c = false)) :
    (classify A middle).WF := by
  -- a non-space character in `middle` makes all of it non-space
  have hns : (∃ c ∈ middle, pyIsSpace c = false) → ∀ c ∈ middle, pyIsSpace c = false := by
    rintro ⟨c, hc, hcs⟩
    rcases hU with h | h
    · have := h c hc; simp [hcs] at this
    · exact h
  have hnone : ∀ v : List Char, (none : Option (List Char)) = some v → MFree v := by intro v h; cases h
  unfold classify
  split
  · rename_i h1
    have hsp := hns (hurl _ h1)
    split
    · exact ⟨hM, hsp, hrel, htarget, trimUrl_mfree _ hM⟩
    · refine ⟨MFree.append (by decide) hM, ?_, hrel, htarget, trimUrl_mfree _ hM⟩
      have hpre : ∀ c ∈ "https://".toList, pyIsSpace c = false := by decide
      intro c hc
      rcases List.mem_append.mp hc with h | h
      · exact hpre c h
      · exact hsp c h
  · split
    · rename_i h2
      simp only [Bool.and_eq_true] at h2
      have hm : 'm' ∈ middle := isPrefixOf_head h2.1
      have hsp := hns ⟨'m', hm, by decide⟩
      exact ⟨hM, hsp, hnone, hnone, MFree.drop _ hM⟩
    · split
      · rename_i h3
        simp only [Bool.and_eq_true] at h3
        have hsp := hns (hmail _ h3.2)
        refine ⟨MFree.append (by decide) hM, ?_, hnone, hnone, hM⟩
        have hpre : ∀ c ∈ "mailto:".toList, pyIsSpace c = false := by decide
        intro c hc
        rcases List.mem_append.mp hc with h | h
        · exact hpre c h
        · exact hsp c h
      · cases hs : A.schemes with
        | none => exact hM
        | some ss =>
          simp only
          have hss := hsch ss hs
          rcases schemeFold_text A ss (fun s h => by obtain ⟨c, r, e, hc, _⟩ := hss s h; exact ⟨c, r, e, hc⟩) middle with h | ⟨h, s, hsm, hp⟩
          · rw [h]; exact hM
          · rw [h]
            obtain ⟨c, r, rfl, _, hcs⟩ := hss s hsm
            have hsp := hns ⟨c, isPrefixOf_head hp, hcs⟩
            exact ⟨hM, hsp, hrel, htarget, hM⟩

theorem wordSegs_wf (A : UrlizeArgs) (word : List Char)
    (hurl : ∀ m, A.isUrl m = true → ∃ c ∈ m, pyIsSpace c = false)
    (hmail : ∀ m, A.isEmail m = true → ∃ c ∈ m, pyIsSpace c = false)
    (hrel : ∀ v, A.rel = some v → MFree v) (htarget : ∀ v, A.target = some v → MFree v)
    (hsch : ∀ ss, A.schemes = some ss → ∀ s ∈ ss, ∃ c r, s = c :: r ∧ c ≠ '<' ∧ pyIsSpace c = false)
    (hM : MFree word)
    (hU : (∀ c ∈ word, pyIsSpace c = true) ∨ (∀ c ∈ word, pyIsSpace c = false)) :
    ∀ seg ∈ wordSegs A word, seg.WF := by
  obtain ⟨h1, h2, h3⟩ := splitWord_subset word
  intro seg hseg
  simp only [wordSegs, List.mem_cons, List.not_mem_nil, or_false] at hseg
  rcases hseg with rfl | rfl | rfl
  · exact fun c hc => hM c (h1 hc)
  · apply classify_wf A _ hurl hmail hrel htarget hsch
    · exact fun c hc => hM c (h2 hc)
    · rcases hU with h | h
      · exact Or.inl fun c hc => h c (h2 hc)
      · exact Or.inr fun c hc => h c (h2 hc)
  · exact fun c hc => hM c (h3 hc)

theorem attrArg_clean {v : Val} (hv : v.Clean) : ∀ x, attrArg (some v) = some x → MFree x := by
  intro x hx
  simp only [attrArg] at hx
  split at hx
  · cases hx
  · simp only [Option.some.injEq] at hx
    subst hx
    cases v with
    | plain s => exact (escape_esc s).mfree
    | markup s => exact hv

theorem validScheme_head {isWord : Char → Bool} {s : List Char} (h : validScheme isWord s = true)
    (hw : ∀ c, isWord c = true → c ≠ '<' ∧ pyIsSpace c = false) :
    ∃ c r, s = c :: r ∧ c ≠ '<' ∧ pyIsSpace c = false := by
  cases s with
  | nil => simp [validScheme] at h
  | cons c r =>
    refine ⟨c, r, rfl, ?_⟩
    simp only [validScheme, Bool.and_eq_true, decide_eq_true_eq] at h
    have h2 := h.1
    by_cases hc : (isWord c || c == '.' || c == '+' || c == '-') = true
    · simp only [Bool.or_eq_true, beq_iff_eq] at hc
      rcases hc with ((hc | rfl) | rfl) | rfl
      · exact hw c hc
      · decide
      · decide
      · decide
    · simp [hc] at h2

/-! ## Markup methods and the Markup-aware filters keep trusted text free of markup characters -/

theorem Val.esc_mfree {v : Val} (h : v.Clean) : MFree v.esc := by
  cases v with
  | plain s => exact (escape_esc s).mfree
  | markup s => exact h

theorem vAdd_clean {a b : Val} (ha : a.Clean) (hb : b.Clean) : (vAdd a b).Clean := by
  cases a with
  | plain x =>
    cases b with
    | plain y => trivial
    | markup y => exact MFree.append (escape_esc x).mfree hb
  | markup x => exact MFree.append ha (Val.esc_mfree hb)

theorem vJoin_clean {sep : Val} {items : List Val} (hs : sep.Clean) (hi : ∀ v ∈ items, v.Clean) :
    (vJoin sep items).Clean := by
  cases sep with
  | plain s => trivial
  | markup s =>
    apply MFree.intercalate hs
    intro x hx
    obtain ⟨v, hv, rfl⟩ := List.mem_map.mp hx
    exact Val.esc_mfree (hi v hv)

theorem sameKind_clean {v : Val} {s : List Char} (h : v.isMarkup = true → MFree s) : (sameKind v s).Clean := by
  cases v with
  | plain _ => trivial
  | markup _ => exact h rfl

theorem splitlinesAux_subset (cur : List Char) (cr : Bool) (s : List Char) :
    ∀ l ∈ splitlinesAux cur cr s, ∀ c ∈ l, c ∈ cur ∨ c ∈ s := by
  induction s generalizing cur cr with
  | nil =>
    intro l hl c hc
    simp only [splitlinesAux] at hl
    split at hl
    · cases hl
    · simp only [List.mem_singleton] at hl
      subst hl
      exact Or.inl (List.mem_reverse.mp hc)
  | cons a r ih =>
    intro l hl c hc
    simp only [splitlinesAux] at hl
    split at hl
    · rcases ih cur false l hl c hc with h | h
      · exact Or.inl h
      · exact Or.inr (List.mem_cons_of_mem _ h)
    · split at hl
      · rcases List.mem_cons.mp hl with rfl | hl
        · exact Or.inl (List.mem_reverse.mp hc)
        · rcases ih [] true l hl c hc with h | h
          · cases h
          · exact Or.inr (List.mem_cons_of_mem _ h)
      · split at hl
        · rcases List.mem_cons.mp hl with rfl | hl
          · exact Or.inl (List.mem_reverse.mp hc)
          · rcases ih [] false l hl c hc with h | h
            · cases h
            · exact Or.inr (List.mem_cons_of_mem _ h)
        · rcases ih (a :: cur) false l hl c hc with h | h
          · rcases List.mem_cons.mp h with rfl | h
            · exact Or.inr (by simp)
            · exact Or.inl h
          · exact Or.inr (List.mem_cons_of_mem _ h)

theorem splitlines_subset (s : List Char) : ∀ l ∈ splitlines s, l ⊆ s := by
  intro l hl c hc
  rcases splitlinesAux_subset [] false s l hl c hc with h | h
  · cases h
  · exact h

theorem vSplitlines_clean {v : Val} (h : v.Clean) : ∀ l ∈ vSplitlines v, l.Clean := by
  intro l hl
  obtain ⟨t, ht, rfl⟩ := List.mem_map.mp hl
  apply sameKind_clean
  intro hm
  cases v with
  | plain _ => cases hm
  | markup s => exact fun c hc => h c (splitlines_subset s t ht hc)

theorem strReplaceF_sub (old new : List Char) (n : Nat) (cnt : Option Nat) (s : List Char) :
    ∀ c ∈ strReplaceF old new n cnt s, c ∈ s ∨ c ∈ new := by
  induction n generalizing cnt s with
  | zero => intro c hc; simp only [strReplaceF] at hc; exact Or.inl hc
  | succ n ih =>
    intro c hc
    have key : ∀ cnt', c ∈ (if old.isPrefixOf s = true then new ++ strReplaceF old new n cnt' (s.drop old.length)
        else match s with | [] => [] | a :: r => a :: strReplaceF old new n cnt r) → c ∈ s ∨ c ∈ new := by
      intro cnt' hc
      split at hc
      · rcases List.mem_append.mp hc with h | h
        · exact Or.inr h
        · rcases ih _ _ c h with h | h
          · exact Or.inl ((List.drop_sublist _ _).subset h)
          · exact Or.inr h
      · cases s with
        | nil => simp at hc
        | cons a r =>
          simp only at hc
          rcases List.mem_cons.mp hc with rfl | h
          · exact Or.inl (by simp)
          · rcases ih _ _ c h with h | h
            · exact Or.inl (List.mem_cons_of_mem _ h)
            · exact Or.inr h
    cases s with
    | nil => cases cnt with
      | none => simp [strReplaceF] at hc
      | some k => cases k <;> simp [strReplaceF] at hc
    | cons a r =>
      cases cnt with
      | none =>
        apply key (Option.map (· - 1) none)
        simpa [strReplaceF] using hc
      | some k =>
        cases k with
        | zero => simp only [strReplaceF] at hc; exact Or.inl hc
        | succ k =>
          apply key (Option.map (· - 1) (some (k + 1)))
          simpa [strReplaceF] using hc

theorem interleave_sub (new : List Char) (cnt : Option Nat) (s : List Char) :
    ∀ c ∈ interleave new cnt s, c ∈ s ∨ c ∈ new := by
  induction s generalizing cnt with
  | nil =>
    intro c hc
    cases cnt with
    | none => simp [interleave] at hc; exact Or.inr hc
    | some k => cases k with
      | zero => simp [interleave] at hc
      | succ k => simp [interleave] at hc; exact Or.inr hc
  | cons a r ih =>
    intro c hc
    have key : ∀ cnt', c ∈ new ++ a :: interleave new cnt' r → c ∈ a :: r ∨ c ∈ new := by
      intro cnt' hc
      rcases List.mem_append.mp hc with h | h
      · exact Or.inr h
      · rcases List.mem_cons.mp h with rfl | h
        · exact Or.inl (by simp)
        · rcases ih _ c h with h | h
          · exact Or.inl (List.mem_cons_of_mem _ h)
          · exact Or.inr h
    cases cnt with
    | none => exact key _ (by simpa [interleave] using hc)
    | some k => cases k with
      | zero => simp only [interleave] at hc; exact Or.inl hc
      | succ k => exact key _ (by simpa [interleave] using hc)

theorem strReplace_sub (s old new : List Char) (cnt : Option Nat) :
    ∀ c ∈ strReplace s old new cnt, c ∈ s ∨ c ∈ new := by
  unfold strReplace
  split
  · exact interleave_sub _ _ _
  · exact strReplaceF_sub _ _ _ _ _

theorem vReplace_clean {s old new : Val} (cnt : Option Nat) (hs : s.Clean) (hn : new.Clean) :
    (vReplace s old new cnt).Clean := by
  cases s with
  | plain t => trivial
  | markup t =>
    intro c hc
    rcases strReplace_sub _ _ _ _ c hc with h | h
    · exact hs c h
    · exact Val.esc_mfree hn c h

theorem fmtS_sub (f : List Char) (args : List (List Char)) (t : List Char) (h : fmtS f args = some (.ok t)) :
    ∀ c ∈ t, c ∈ f ∨ ∃ a ∈ args, c ∈ a := by
  induction hn : f.length using Nat.strongRecOn generalizing f args t with
  | _ n ih =>
  cases f with
  | nil =>
    cases args with
    | nil => simp [fmtS] at h; subst h; simp
    | cons a as => simp [fmtS] at h
  | cons x r =>
    intro c hc
    rw [fmtS.eq_def] at h
    simp only at h
    by_cases hx : x = '%'
    · simp only [hx, ↓reduceIte] at h
      split at h
      · rename_i r'
        cases args with
        | nil => simp at h
        | cons a as =>
          simp only at h
          cases hr : fmtS r' as with
          | none => simp [hr] at h
          | some e =>
            cases e with
            | error u => simp [hr] at h
            | ok t' =>
              simp only [hr, Option.some.injEq, Except.ok.injEq] at h
              subst h
              rcases List.mem_append.mp hc with h1 | h1
              · exact Or.inr ⟨a, by simp, h1⟩
              · rcases ih r'.length (by simp at hn; omega) r' as t' hr rfl c h1 with h2 | ⟨b, hb, h2⟩
                · exact Or.inl (by simp [h2])
                · exact Or.inr ⟨b, List.mem_cons_of_mem _ hb, h2⟩
      · rename_i r'
        cases hr : fmtS r' args with
        | none => simp [hr] at h
        | some e =>
          cases e with
          | error u => simp [hr] at h
          | ok t' =>
            simp only [hr, Option.some.injEq, Except.ok.injEq] at h
            subst h
            rcases List.mem_cons.mp hc with rfl | h1
            · exact Or.inl (by simp)
            · rcases ih r'.length (by simp at hn; omega) r' args t' hr rfl c h1 with h2 | h2
              · exact Or.inl (by simp [h2])
              · exact Or.inr h2
      · simp at h
    · simp only [hx, ↓reduceIte] at h
      cases hr : fmtS r args with
      | none => simp [hr] at h
      | some e =>
        cases e with
        | error u => simp [hr] at h
        | ok t' =>
          simp only [hr, Option.some.injEq, Except.ok.injEq] at h
          subst h
          rcases List.mem_cons.mp hc with rfl | h1
          · exact Or.inl (by simp)
          · rcases ih r.length (by simp at hn; omega) r args t' hr rfl c h1 with h2 | h2
            · exact Or.inl (List.mem_cons_of_mem _ h2)
            · exact Or.inr h2

theorem vMod_clean {value : Val} {args : List Val} {r : Val} (hv : value.Clean) (ha : ∀ a ∈ args, a.Clean)
    (h : vMod value args = some (.ok r)) : r.Clean := by
  cases value with
  | plain f =>
    simp only [vMod] at h
    cases hf : fmtS f (args.map Val.text) with
    | none => simp [hf] at h
    | some e => cases e with
      | error u => simp [hf, Except.map] at h
      | ok t => simp [hf, Except.map] at h; subst h; trivial
  | markup f =>
    simp only [vMod] at h
    cases hf : fmtS f (args.map Val.esc) with
    | none => simp [hf] at h
    | some e => cases e with
      | error u => simp [hf, Except.map] at h
      | ok t =>
        simp [hf, Except.map] at h; subst h
        intro c hc
        rcases fmtS_sub _ _ _ hf c hc with h1 | ⟨a, ha', h1⟩
        · exact hv c h1
        · obtain ⟨v, hv', rfl⟩ := List.mem_map.mp ha'
          exact Val.esc_mfree (ha v hv') c h1

theorem beforeLastSpace_subset (s : List Char) : beforeLastSpace s ⊆ s := by
  unfold beforeLastSpace
  split
  · exact fun _ h => h
  · rename_i x r heq
    intro c hc
    have h1 : c ∈ s.reverse.dropWhile (· ≠ ' ') := by rw [heq]; exact List.mem_cons_of_mem _ (List.mem_reverse.mp hc)
    exact List.mem_reverse.mp ((List.dropWhile_sublist _).subset h1)

theorem indentArgs_clean {s : Val} {width : Width} (hw : ∀ v, width = .str v → v.Clean) :
    (indentArgs s width).1.Clean ∧ (indentArgs s width).2.Clean := by
  unfold indentArgs
  have h0 : (match width with | .str v => v | .num n => Val.plain (List.replicate n.toNat ' ')).Clean := by
    cases width with
    | num n => trivial
    | str v => exact hw v rfl
  constructor
  · simp only; split
    · exact Val.esc_mfree h0
    · exact h0
  · simp only; split
    · show MFree ['\n']; decide
    · trivial

theorem indentBody_clean {nl ind : Val} {blank : Bool} {lines : List Val} {rv : Val} (hnl : nl.Clean) (hind : ind.Clean)
    (hl : ∀ l ∈ lines, l.Clean) (h : indentBody nl ind blank lines = some rv) : rv.Clean := by
  unfold indentBody at h
  split at h
  · simp only [Option.some.injEq] at h; subst h
    exact vJoin_clean (vAdd_clean hnl hind) hl
  · split at h
    · cases h
    · rename_i l0 rest
      have hl0 : l0.Clean := hl l0 (by simp)
      split at h
      · simp only [Option.some.injEq] at h; subst h; exact hl0
      · simp only [Option.some.injEq] at h; subst h
        apply vAdd_clean hl0
        apply vAdd_clean hnl
        apply vJoin_clean hnl
        intro v hv
        obtain ⟨line, hline, rfl⟩ := List.mem_map.mp hv
        have hlc : line.Clean := hl line (List.mem_cons_of_mem _ hline)
        split
        · exact hlc
        · exact vAdd_clean hind hlc

theorem doIndent_clean {s : Val} {width : Width} {first blank : Bool} {r : Val} (hs : s.Clean)
    (hw : ∀ v, width = .str v → v.Clean) (h : doIndent s width first blank = some r) : r.Clean := by
  unfold doIndent at h
  obtain ⟨hind, hnl⟩ := indentArgs_clean (s := s) hw
  simp only at h
  cases hb : indentBody (indentArgs s width).2 (indentArgs s width).1 blank (vSplitlines (vAdd s (indentArgs s width).2)) with
  | none => simp [hb] at h
  | some rv =>
    have hrv := indentBody_clean hnl hind (vSplitlines_clean (vAdd_clean hs hnl)) hb
    simp only [hb, Option.map_some, Option.some.injEq] at h
    subst h
    split
    · exact vAdd_clean hind hrv
    · exact hrv

theorem doReplace_clean {s old new : Val} (cnt : Option Nat) (hs : s.Clean) (hn : new.Clean) :
    (doReplace true s old new cnt).Clean := by
  unfold doReplace
  simp only [Bool.not_true, Bool.false_eq_true, ↓reduceIte]
  apply vReplace_clean cnt _ hn
  split
  · exact Val.esc_mfree hs
  · exact hs

theorem doJoin_clean {value : List Val} {d : Val} (hv : ∀ v ∈ value, v.Clean) (hd : d.Clean) :
    (doJoin true value d).Clean := by
  unfold doJoin
  simp only [Bool.not_true, Bool.false_eq_true, ↓reduceIte]
  split
  · apply vJoin_clean _ hv
    split
    · exact Val.esc_mfree hd
    · exact hd
  · exact vJoin_clean hd hv

theorem doTruncate_clean {s end_ : Val} {length leeway : Nat} {kill : Bool} {r : Val} (hs : s.Clean) (he : end_.Clean)
    (h : doTruncate s length kill end_ leeway = some r) : r.Clean := by
  unfold doTruncate at h
  split at h
  · cases h
  · split at h
    · simp only [Option.some.injEq] at h; subst h; exact hs
    · have hsm : s.isMarkup = true → MFree s.text := by
        intro hm; cases s with
        | plain _ => cases hm
        | markup t => exact hs
      split at h
      · simp only [Option.some.injEq] at h; subst h
        apply vAdd_clean _ he
        exact sameKind_clean fun hm => MFree.take _ (hsm hm)
      · simp only [Option.some.injEq] at h; subst h
        apply vAdd_clean _ he
        apply sameKind_clean
        intro hm c hc
        exact hsm hm c ((List.take_sublist _ _).subset (beforeLastSpace_subset _ hc))

theorem doWordwrap_clean (wrap : List Char → List (List Char)) {s ws : Val} (hws : ws.Clean) :
    (doWordwrap wrap s ws).Clean := by
  unfold doWordwrap
  apply vJoin_clean hws
  intro v hv
  obtain ⟨line, _, rfl⟩ := List.mem_map.mp hv
  apply vJoin_clean hws
  intro p hp
  obtain ⟨t, _, rfl⟩ := List.mem_map.mp hp
  trivial

end JinjaV.HtmlFilt
