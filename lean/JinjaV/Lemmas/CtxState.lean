/-
  Helper lemmas for C29 (heap of dict objects, Model/CtxState.lean).
-/
import JinjaV.Model.CtxState

namespace JinjaV.CtxState

theorem size_alloc (h : Heap) (d : AList) : (h.alloc d).1.size = h.size + 1 := by
  simp [Heap.alloc, Heap.size]

theorem ref_alloc (h : Heap) (d : AList) : (h.alloc d).2 = h.size := rfl

theorem get_alloc_lt {h : Heap} {d : AList} {r : Nat} (hr : r < h.size) : (h.alloc d).1.get r = h.get r := by
  simp only [Heap.size] at hr
  simp [Heap.alloc, Heap.get, List.getD_eq_getElem?_getD, List.getElem?_append_left hr]

theorem get_alloc_new (h : Heap) (d : AList) : (h.alloc d).1.get h.size = d := by
  simp [Heap.alloc, Heap.get, Heap.size, List.getD_eq_getElem?_getD]

theorem size_setKey (h : Heap) (r : Nat) (k : String) (v : Val) : (h.setKey r k v).size = h.size := by
  simp [Heap.setKey, Heap.size]

theorem get_setKey_ne {h : Heap} {r p : Nat} (k : String) (v : Val) (hne : r ≠ p) :
    (h.setKey p k v).get r = h.get r := by
  simp [Heap.setKey, Heap.get, List.getD_eq_getElem?_getD, List.getElem?_modify, Ne.symm hne]

theorem get_setKey_eq {h : Heap} {p : Nat} (k : String) (v : Val) (hp : p < h.size) :
    (h.setKey p k v).get p = (h.get p).set k v := by
  simp only [Heap.size] at hp
  simp [Heap.setKey, Heap.get, List.getD_eq_getElem?_getD, List.getElem?_modify, List.getElem?_eq_getElem hp]

theorem size_writeLocals (h : Heap) (p : Nat) (ls : List (String × Option Val)) :
    (writeLocals h p ls).size = h.size := by
  induction ls generalizing h with
  | nil => rfl
  | cons x rest ih =>
    obtain ⟨k, v⟩ := x
    cases v with
    | none => simpa [writeLocals] using ih h
    | some v => simp [writeLocals, ih, size_setKey]

theorem get_writeLocals_ne {r p : Nat} (hne : r ≠ p) (h : Heap) (ls : List (String × Option Val)) :
    (writeLocals h p ls).get r = h.get r := by
  induction ls generalizing h with
  | nil => rfl
  | cons x rest ih =>
    obtain ⟨k, v⟩ := x
    cases v with
    | none => simpa [writeLocals] using ih h
    | some v => simp [writeLocals, ih, get_setKey_ne _ _ hne]

theorem get_writeLocals_eq {p : Nat} (h : Heap) (hp : p < h.size) (ls : List (String × Option Val)) :
    (writeLocals h p ls).get p = pWriteLocals (h.get p) ls := by
  induction ls generalizing h with
  | nil => rfl
  | cons x rest ih =>
    obtain ⟨k, v⟩ := x
    cases v with
    | none => simpa [writeLocals, pWriteLocals] using ih h hp
    | some v =>
      simp only [writeLocals, pWriteLocals]
      rw [ih (h.setKey p k v) (by simpa [size_setKey] using hp), get_setKey_eq k v hp]

end JinjaV.CtxState

namespace JinjaV.CtxState

theorem Ext.refl (h : Heap) : Ext h h := ⟨Nat.le_refl _, fun _ _ => rfl⟩
theorem Ext.trans {a b c : Heap} (h1 : Ext a b) (h2 : Ext b c) : Ext a c :=
  ⟨Nat.le_trans h1.1 h2.1, fun r hr => by rw [h2.2 r (Nat.lt_of_lt_of_le hr h1.1), h1.2 r hr]⟩
theorem ext_alloc (h : Heap) (d : AList) : Ext h (h.alloc d).1 :=
  ⟨by rw [size_alloc]; omega, fun _ hr => get_alloc_lt hr⟩
theorem ext_writeLocals_fresh {h0 h : Heap} {p : Nat} (hp : h0.size ≤ p) (he : Ext h0 h)
    (ls : List (String × Option Val)) : Ext h0 (writeLocals h p ls) :=
  ⟨by rw [size_writeLocals]; exact he.1, fun r hr => by
    have hne : r ≠ p := by omega
    rw [get_writeLocals_ne hne h ls]; exact he.2 r hr⟩

/-- the contents `new_context` gives the parent dict -/
def parentContent (h : Heap) (vars : Nat) (shared : Bool) (globals : Option Nat)
    (locals : List (String × Option Val)) : AList :=
  let base := if shared then h.get vars else AList.merge (globalsContent h globals) (h.get vars)
  if locals.isEmpty then base else pWriteLocals base locals

theorem newContext_spec (h : Heap) (vars : Nat) (shared : Bool) (globals : Option Nat)
    (locals : List (String × Option Val)) (hv : vars < h.size) :
    let r := newContext h vars shared globals locals
    Ext h r.1 ∧ r.2.vars < r.1.size ∧ h.size ≤ r.2.vars ∧ r.1.get r.2.vars = [] ∧
    r.2.parent < r.1.size ∧ r.2.parent ≠ r.2.vars ∧
    r.1.get r.2.parent = parentContent h vars shared globals locals ∧
    ((shared = false ∨ locals.isEmpty = false) → h.size ≤ r.2.parent) ∧
    (shared = true → locals.isEmpty = true → r.2.parent = vars) := by
  cases shared <;> by_cases hl : locals.isEmpty = true
  · -- not shared, no locals: parent = fresh merge
    simp only [newContext, hl, Bool.false_eq_true, if_false, if_true, parentContent]
    generalize hP : AList.merge (globalsContent h globals) (h.get vars) = P
    have e1 := ext_alloc h P
    have e2 := ext_alloc (h.alloc P).1 []
    have s1 := size_alloc h P
    have s2 := size_alloc (h.alloc P).1 []
    refine ⟨e1.trans e2, ?_, ?_, ?_, ?_, ?_, ?_, ?_, ?_⟩
    · (simp [ref_alloc, size_alloc, size_writeLocals] <;> omega)
    · (simp [ref_alloc, size_alloc, size_writeLocals] <;> omega)
    · rw [ref_alloc]; exact get_alloc_new _ _
    · (simp [ref_alloc, size_alloc, size_writeLocals] <;> omega)
    · (simp [ref_alloc, size_alloc, size_writeLocals] <;> omega)
    · rw [ref_alloc, get_alloc_lt (by (simp [ref_alloc, size_alloc, size_writeLocals] <;> omega))]; exact get_alloc_new _ _
    · intro _; (simp [ref_alloc, size_alloc, size_writeLocals] <;> omega)
    · intro hh; cases hh
  · -- not shared, locals: written into the fresh merge
    simp only [newContext, hl, Bool.false_eq_true, if_false, parentContent]
    generalize hP : AList.merge (globalsContent h globals) (h.get vars) = P
    have e1 := ext_alloc h P
    have s1 := size_alloc h P
    have hw := ext_writeLocals_fresh (h0 := h) (h := (h.alloc P).1) (p := (h.alloc P).2) (by (simp [ref_alloc, size_alloc, size_writeLocals] <;> omega)) e1 locals
    have sw := size_writeLocals (h.alloc P).1 (h.alloc P).2 locals
    have e3 := ext_alloc (writeLocals (h.alloc P).1 (h.alloc P).2 locals) []
    have s3 := size_alloc (writeLocals (h.alloc P).1 (h.alloc P).2 locals) []
    refine ⟨hw.trans e3, ?_, ?_, ?_, ?_, ?_, ?_, ?_, ?_⟩
    · (simp [ref_alloc, size_alloc, size_writeLocals] <;> omega)
    · (simp [ref_alloc, size_alloc, size_writeLocals] <;> omega)
    · rw [ref_alloc]; exact get_alloc_new _ _
    · (simp [ref_alloc, size_alloc, size_writeLocals] <;> omega)
    · (simp [ref_alloc, size_alloc, size_writeLocals] <;> omega)
    · rw [get_alloc_lt (by (simp [ref_alloc, size_alloc, size_writeLocals] <;> omega)), get_writeLocals_eq _ (by (simp [ref_alloc, size_alloc, size_writeLocals] <;> omega)), ref_alloc, get_alloc_new]
    · intro _; (simp [ref_alloc, size_alloc, size_writeLocals] <;> omega)
    · intro hh; cases hh
  · -- shared, no locals: the caller's dict itself is the parent (aliased), nothing is written
    simp only [newContext, hl, if_true, parentContent]
    have e1 := ext_alloc h []
    have s1 := size_alloc h []
    refine ⟨e1, ?_, ?_, ?_, ?_, ?_, ?_, ?_, ?_⟩
    · (simp [ref_alloc, size_alloc, size_writeLocals] <;> omega)
    · (simp [ref_alloc, size_alloc, size_writeLocals] <;> omega)
    · rw [ref_alloc]; exact get_alloc_new _ _
    · omega
    · (simp [ref_alloc, size_alloc, size_writeLocals] <;> omega)
    · exact get_alloc_lt hv
    · intro hh; rcases hh with hh | hh
      · cases hh
      · cases hh
    · intro _ _; trivial
  · -- shared, locals: a copy is made before writing
    simp only [newContext, hl, Bool.false_eq_true, if_false, if_true, parentContent]
    generalize hP : h.get vars = P
    have e1 := ext_alloc h P
    have s1 := size_alloc h P
    have hw := ext_writeLocals_fresh (h0 := h) (h := (h.alloc P).1) (p := (h.alloc P).2) (by (simp [ref_alloc, size_alloc, size_writeLocals] <;> omega)) e1 locals
    have sw := size_writeLocals (h.alloc P).1 (h.alloc P).2 locals
    have e3 := ext_alloc (writeLocals (h.alloc P).1 (h.alloc P).2 locals) []
    have s3 := size_alloc (writeLocals (h.alloc P).1 (h.alloc P).2 locals) []
    refine ⟨hw.trans e3, ?_, ?_, ?_, ?_, ?_, ?_, ?_, ?_⟩
    · (simp [ref_alloc, size_alloc, size_writeLocals] <;> omega)
    · (simp [ref_alloc, size_alloc, size_writeLocals] <;> omega)
    · rw [ref_alloc]; exact get_alloc_new _ _
    · (simp [ref_alloc, size_alloc, size_writeLocals] <;> omega)
    · (simp [ref_alloc, size_alloc, size_writeLocals] <;> omega)
    · rw [get_alloc_lt (by (simp [ref_alloc, size_alloc, size_writeLocals] <;> omega)), get_writeLocals_eq _ (by (simp [ref_alloc, size_alloc, size_writeLocals] <;> omega)), ref_alloc, get_alloc_new]
    · intro _; (simp [ref_alloc, size_alloc, size_writeLocals] <;> omega)
    · intro _ hh; exact hh.elim
end JinjaV.CtxState

namespace JinjaV.CtxState

theorem resolve_eq (h : Heap) (c : Ctx) (k : String) :
    resolve h c k = presolve (h.get c.vars) (h.get c.parent) k := rfl

theorem getAll_spec (h : Heap) (c : Ctx) (hv : c.vars < h.size) (hp : c.parent < h.size) :
    let r := getAll h c
    Ext h r.1 ∧ r.2 < r.1.size ∧ r.1.get r.2 = pAll (h.get c.vars) (h.get c.parent) := by
  unfold getAll pAll
  by_cases h1 : (h.get c.vars).isEmpty = true
  · simp only [h1, if_true]; exact ⟨Ext.refl h, hp, trivial⟩
  · by_cases h2 : (h.get c.parent).isEmpty = true
    · simp only [h1, h2, if_true, if_false, Bool.false_eq_true]; exact ⟨Ext.refl h, hv, trivial⟩
    · simp only [h1, h2, if_false, Bool.false_eq_true]
      refine ⟨ext_alloc _ _, ?_, ?_⟩
      · simp [ref_alloc, size_alloc]
      · rw [ref_alloc]; exact get_alloc_new _ _

theorem derived_spec (h : Heap) (c : Ctx) (locals : List (String × Option Val))
    (hv : c.vars < h.size) (hp : c.parent < h.size) :
    let r := derived h c locals
    Ext h r.1 ∧ r.2.vars < r.1.size ∧ h.size ≤ r.2.vars ∧ r.1.get r.2.vars = [] ∧
    r.2.parent < r.1.size ∧ r.2.parent ≠ r.2.vars ∧
    r.1.get r.2.parent = pDerivedParent (h.get c.vars) (h.get c.parent) locals := by
  have ga := getAll_spec h c hv hp
  unfold derived
  generalize hg : getAll h c = g at ga
  obtain ⟨hA, all⟩ := g
  simp only at ga ⊢
  obtain ⟨eA, hall, hcont⟩ := ga
  have ns := newContext_spec hA all true none locals hall
  simp only at ns
  obtain ⟨e1, n2, n3, n4, n5, n6, n7, _, _⟩ := ns
  refine ⟨eA.trans e1, n2, Nat.le_trans eA.1 n3, n4, n5, n6, ?_⟩
  rw [n7]
  simp only [parentContent, if_true, hcont, pDerivedParent]

def Refines (h : Heap) (c : Ctx) (r : Heap × List (Option Val)) (p : AList × List (Option Val)) : Prop :=
  h.size ≤ r.1.size ∧ (∀ x, x < h.size → x ≠ c.vars → r.1.get x = h.get x) ∧ r.1.get c.vars = p.1 ∧ r.2 = p.2

theorem exec_refines :
    (∀ (h : Heap) (c : Ctx) (op : Op), c.vars < h.size → c.parent < h.size → c.vars ≠ c.parent →
      Refines h c (exec h c op) (pexec (h.get c.vars) (h.get c.parent) op)) ∧
    (∀ (h : Heap) (c : Ctx) (ops : List Op), c.vars < h.size → c.parent < h.size → c.vars ≠ c.parent →
      Refines h c (execAll h c ops) (pexecAll (h.get c.vars) (h.get c.parent) ops)) := by
  apply exec.mutual_induct
  · -- set
    intro h c k v hv hp hne
    simp only [exec, pexec]
    exact ⟨by rw [size_setKey]; exact Nat.le_refl _, fun x _ hx => get_setKey_ne k v hx, get_setKey_eq k v hv, rfl⟩
  · -- copy, found
    intro h c k src v hres hv hp hne
    have hres' : presolve (h.get c.vars) (h.get c.parent) src = some v := by rw [← resolve_eq]; exact hres
    simp only [exec, pexec, hres, hres']
    exact ⟨by rw [size_setKey]; exact Nat.le_refl _, fun x _ hx => get_setKey_ne k v hx, get_setKey_eq k v hv, rfl⟩
  · -- copy, missing
    intro h c k src hres hv hp hne
    have hres' : presolve (h.get c.vars) (h.get c.parent) src = none := by rw [← resolve_eq]; exact hres
    simp only [exec, pexec, hres, hres']
    exact ⟨Nat.le_refl _, fun _ _ _ => rfl, rfl, rfl⟩
  · -- out
    intro h c k hv hp hne
    simp only [exec, pexec, resolve_eq]
    exact ⟨Nat.le_refl _, fun _ _ _ => rfl, rfl, rfl⟩
  · -- scope
    intro h c locals body h1 c' hd ih hv hp hne
    have ds := derived_spec h c locals hv hp
    rw [hd] at ds
    simp only at ds
    obtain ⟨e1, d2, d3, d4, d5, d6, d7⟩ := ds
    have ih' := ih d2 d5 (Ne.symm d6)
    rw [d4, d7] at ih'
    obtain ⟨i1, i2, i3, i4⟩ := ih'
    simp only [exec, hd, pexec]
    refine ⟨Nat.le_trans e1.1 i1, ?_, ?_, i4⟩
    · intro x hx _
      rw [i2 x (Nat.lt_of_lt_of_le hx e1.1) (by omega), e1.2 x hx]
    · rw [i2 c.vars (Nat.lt_of_lt_of_le hv e1.1) (by omega), e1.2 c.vars hv]
  · -- nil
    intro h c hv hp hne
    simp only [execAll, pexecAll]
    exact ⟨Nat.le_refl _, fun _ _ _ => rfl, rfl, rfl⟩
  · -- cons
    intro h c op rest h1 o1 he h2 o2 hea ih1 ih2 hv hp hne
    have r1 := ih1 hv hp hne
    rw [he] at r1
    obtain ⟨a1, a2, a3, a4⟩ := r1
    simp only at a1 a2 a3 a4
    have r2 := ih2 (Nat.lt_of_lt_of_le hv a1) (Nat.lt_of_lt_of_le hp a1) hne
    rw [hea, a3, a2 c.parent hp (Ne.symm hne)] at r2
    obtain ⟨b1, b2, b3, b4⟩ := r2
    simp only at b1 b2 b3 b4
    simp only [execAll, he, hea, pexecAll]
    refine ⟨Nat.le_trans a1 b1, ?_, b3, ?_⟩
    · intro x hx hxv
      rw [b2 x (Nat.lt_of_lt_of_le hx a1) hxv, a2 x hx hxv]
    · rw [a4, b4]

end JinjaV.CtxState
