/-
  Lemmas for C34: on a token list without an empty data token (and with macro bodies free of them) the template
  model yields the same pieces whether or not `Parser.subparse` skips empty data tokens.
-/
import JinjaV.Model.NativeTpl
namespace JinjaV.NativeTplGuard
open JinjaV.Lex JinjaV.Native JinjaV.NativeTpl

def MacrosOk (ms : List (Str × Str × List PTok)) : Prop := ∀ k p b, lookup k ms = some (p, b) → PTok.data [] ∉ b

theorem splitEndMacro_mem (r body r2 : List PTok) (h : splitEndMacro r = some (body, r2)) :
    (∀ t ∈ body, t ∈ r) ∧ (∀ t ∈ r2, t ∈ r) := by
  induction r generalizing body r2 with
  | nil => simp [splitEndMacro] at h
  | cons t r ih =>
    unfold splitEndMacro at h
    split at h
    · rename_i rest hp
      simp only [Option.some.injEq, Prod.mk.injEq] at h
      obtain ⟨rfl, rfl⟩ := h
      refine ⟨by simp, ?_⟩
      unfold endMacroPrefix at hp
      split at hp
      · split at hp
        · simp only [Option.some.injEq] at hp; subst hp
          rename_i heq _
          intro x hx
          rw [heq]; simp [hx]
        · cases hp
      · cases hp
    · split at h
      · cases h
      · split at h
        · rename_i b r2' heq
          simp only [Option.some.injEq, Prod.mk.injEq] at h
          obtain ⟨rfl, rfl⟩ := h
          obtain ⟨h1, h2⟩ := ih b r2' heq
          exact ⟨by intro x hx; simp only [List.mem_cons] at hx ⊢; rcases hx with rfl | hx; exact Or.inl rfl; exact Or.inr (h1 x hx),
                 by intro x hx; exact List.mem_cons_of_mem _ (h2 x hx)⟩
        · cases h

theorem lookup_mem {α : Type} (k : Str) (l : List (Str × α)) (v : α) (h : lookup k l = some v) : (k, v) ∈ l := by
  induction l with
  | nil => simp [lookup] at h
  | cons a r ih =>
    obtain ⟨k', v'⟩ := a
    unfold lookup at h
    split at h
    · rename_i hk; simp only [Option.some.injEq] at h; subst h; subst hk; simp
    · exact List.mem_cons_of_mem _ (ih h)

@[simp] theorem pushData_macros (st : JinjaV.NativeTpl.St) (s : Str) : (pushData st s).macros = st.macros := by
  unfold pushData; split; rfl; split <;> rfl

@[simp] theorem pushVal_macros (st : JinjaV.NativeTpl.St) (v : Val) : (pushVal st v).macros = st.macros := by
  unfold pushVal; split <;> rfl

@[simp] theorem pushConst_macros (st : JinjaV.NativeTpl.St) (s : String) : (pushConst st s).macros = st.macros := by
  simp [pushConst]

theorem splitVarEnd_mem (l : List PTok) (k : Str) (r2 : List PTok) (h : splitVarEnd l = some (k, r2)) :
    True ∧ ∀ t ∈ r2, t ∈ l := by
  refine ⟨trivial, ?_⟩
  induction l generalizing k r2 with
  | nil => simp [splitVarEnd] at h
  | cons t r ih =>
    intro x hx
    cases t with
    | varEnd =>
      simp only [splitVarEnd, Option.some.injEq, Prod.mk.injEq] at h
      obtain ⟨_, rfl⟩ := h
      exact List.mem_cons_of_mem _ hx
    | varBegin | blockBegin | blockEnd | data _ => simp [splitVarEnd] at h
    | name s | op s | lit s =>
      simp only [splitVarEnd] at h
      split at h
      · rename_i k' r2' heq
        simp only [Option.some.injEq, Prod.mk.injEq] at h
        obtain ⟨_, rfl⟩ := h
        exact List.mem_cons_of_mem _ (ih _ _ heq x hx)
      · cases h

@[simp] theorem endOutput_macros (st : JinjaV.NativeTpl.St) : (endOutput st).macros = st.macros := rfl

theorem macrosOk_nil : MacrosOk [] := by intro k p b h; simp [lookup] at h

theorem macrosOk_cons (m p : Str) (body : List PTok) (ms : List (Str × Str × List PTok)) (hb : PTok.data [] ∉ body)
    (h : MacrosOk ms) : MacrosOk ((m, p, body) :: ms) := by
  intro k p' b hl
  unfold lookup at hl
  split at hl
  · simp only [Option.some.injEq, Prod.mk.injEq] at hl; rw [← hl.2]; exact hb
  · exact h k p' b hl

set_option maxHeartbeats 1600000 in
theorem guard_irrelevant (n : Nat) (toks : List PTok) (st : JinjaV.NativeTpl.St) (h : PTok.data [] ∉ toks)
    (hm : MacrosOk st.macros) :
    interp true n toks st = interp false n toks st := by
  fun_induction interp true n toks st
  all_goals try (simp_all [interp]; done)
  all_goals try (
    simp only [List.mem_cons, not_or, reduceCtorEq, not_false_eq_true, true_and] at h
    simp only [interp]
    simp_all [macroState, macrosOk_nil]; done)
  all_goals try (
    obtain ⟨hs1, hs2⟩ := splitEndMacro_mem _ _ _ (by assumption)
    simp only [List.mem_cons, not_or, reduceCtorEq, not_false_eq_true, true_and] at h
    have h1 := fun hx => h (hs1 _ hx)
    have h2 := fun hx => h (hs2 _ hx)
    have hmc := fun m p => macrosOk_cons m p _ _ h1 hm
    simp only [interp]
    simp_all; done)
  all_goals try (
    obtain ⟨_, hs2⟩ := splitVarEnd_mem _ _ _ (by assumption)
    have h2 := fun hx => h (List.mem_cons_of_mem _ (hs2 _ hx))
    conv => rhs; unfold interp
    split <;> simp_all
    done)
  case case10 n f a r st hl p body va hva hmac st2 hst2 v hv ih2 ih1 =>
    have hbody := hm _ _ _ hmac
    have e2 := ih2 hbody (by simpa [macroState] using macrosOk_nil)
    simp only [List.mem_cons, not_or, reduceCtorEq, not_false_eq_true, true_and] at h
    simp only [interp]
    simp_all
  case case11 n f a r st hl p body va hva hmac st2 hst2 raw hv ih2 ih1 =>
    have hbody := hm _ _ _ hmac
    have e2 := ih2 hbody (by simpa [macroState] using macrosOk_nil)
    simp only [List.mem_cons, not_or, reduceCtorEq, not_false_eq_true, true_and] at h
    simp only [interp]
    simp_all
  case case12 n f a r st hl p body va hva hmac st2 hst2 hv1 hv2 ih2 =>
    have hbody := hm _ _ _ hmac
    have e2 := ih2 hbody (by simpa [macroState] using macrosOk_nil)
    simp only [interp]
    simp_all
  case case13 n f a r st hl p body va hva hmac hst2 ih2 =>
    have hbody := hm _ _ _ hmac
    have e2 := ih2 hbody (by simpa [macroState] using macrosOk_nil)
    simp only [interp]
    simp_all

end JinjaV.NativeTplGuard
