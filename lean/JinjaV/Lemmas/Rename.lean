/-
  Consistent renaming of variables (alpha-renaming) for expressions: the reference evaluator only ever COMPARES names.
-/
import JinjaV.Lemmas.Expr

namespace JinjaV.Expr

mutual
def renExpr (ρ : String → String) : Expr → Expr
  | .const v => .const v
  | .name n => .name (ρ n)
  | .tuple es => .tuple (renList ρ es)
  | .list es => .list (renList ρ es)
  | .dict kvs => .dict (renPairs ρ kvs)
  | .cond t a b => .cond (renExpr ρ t) (renExpr ρ a) (renOpt ρ b)
  | .and_ a b => .and_ (renExpr ρ a) (renExpr ρ b)
  | .or_ a b => .or_ (renExpr ρ a) (renExpr ρ b)
  | .not_ a => .not_ (renExpr ρ a)
  | .compare e ops => .compare (renExpr ρ e) (renCmp ρ ops)
  | .bin op a b => .bin op (renExpr ρ a) (renExpr ρ b)
  | .concat es => .concat (renList ρ es)
  | .un op a => .un op (renExpr ρ a)
  | .getattr e a => .getattr (renExpr ρ e) a
  | .getitem e i => .getitem (renExpr ρ e) (renExpr ρ i)
  | .slice e a b s => .slice (renExpr ρ e) (renOpt ρ a) (renOpt ρ b) (renOpt ρ s)
  | .call f args => .call (renExpr ρ f) (renList ρ args)
  | .filter e name args => .filter (renExpr ρ e) name (renList ρ args)
  | .test e name args => .test (renExpr ρ e) name (renList ρ args)
def renList (ρ : String → String) : List Expr → List Expr
  | [] => []
  | e :: es => renExpr ρ e :: renList ρ es
def renPairs (ρ : String → String) : List (Expr × Expr) → List (Expr × Expr)
  | [] => []
  | (k, v) :: rest => (renExpr ρ k, renExpr ρ v) :: renPairs ρ rest
def renOpt (ρ : String → String) : Option Expr → Option Expr
  | none => none
  | some e => some (renExpr ρ e)
def renCmp (ρ : String → String) : List (CmpOp × Expr) → List (CmpOp × Expr)
  | [] => []
  | (op, e) :: rest => (op, renExpr ρ e) :: renCmp ρ rest
end

def renVars (ρ : String → String) (vs : List (String × Val)) : List (String × Val) := vs.map (fun p => (ρ p.1, p.2))

def renCtx (ρ : String → String) (ctx : Ctx) : Ctx := { ctx with vars := renVars ρ ctx.vars }

theorem find_renVars (ρ : String → String) (hρ : Function.Injective ρ) (vs : List (String × Val)) (n : String) :
    ((renVars ρ vs).find? (·.1 == ρ n)).map Prod.snd = (vs.find? (·.1 == n)).map Prod.snd := by
  induction vs with
  | nil => simp [renVars]
  | cons p rest ih =>
    simp only [renVars] at ih
    simp only [renVars, List.map_cons, List.find?_cons]
    by_cases h : p.1 = n
    · have e1 : (ρ p.1 == ρ n) = true := by simp [h]
      have e2 : (p.1 == n) = true := by simp [h]
      simp only [e1, e2]; rfl
    · have h' : ρ p.1 ≠ ρ n := fun e => h (hρ e)
      have e1 : (ρ p.1 == ρ n) = false := by simp [h']
      have e2 : (p.1 == n) = false := by simp [h]
      simp only [e1, e2]
      exact ih

theorem lookupVar_rename (ρ : String → String) (hρ : Function.Injective ρ) (ctx : Ctx) (n : String) :
    lookupVar (renCtx ρ ctx) (ρ n) = lookupVar ctx n := by
  have h := find_renVars ρ hρ ctx.vars n
  unfold lookupVar renCtx
  simp only
  cases h1 : (renVars ρ ctx.vars).find? (·.1 == ρ n) <;> cases h2 : ctx.vars.find? (·.1 == n) <;> simp_all

variable (ρ : String → String) (hρ : Function.Injective ρ) (c : CCfg) (ae : Bool) (ctx : Ctx)
include hρ

mutual
/-- **alpha_expr**: renaming every variable of an expression and of the context by the same injective map does not change
    its value, its error or its hook events -/
theorem eval_rename : (e : Expr) → eval c ae (renCtx ρ ctx) (renExpr ρ e) = eval c ae ctx e
  | .const _ => by simp [renExpr, eval]
  | .name n => by simp [renExpr, eval, lookupVar_rename ρ hρ ctx n]
  | .tuple es => by simp only [renExpr, eval, evalList_rename es]
  | .list es => by simp only [renExpr, eval, evalList_rename es]
  | .dict kvs => by simp only [renExpr, eval, evalPairs_rename kvs]
  | .cond t a b => by simp only [renExpr, eval, eval_rename t, eval_rename a, evalElse_rename b]
  | .and_ a b => by simp only [renExpr, eval, eval_rename a, eval_rename b]
  | .or_ a b => by simp only [renExpr, eval, eval_rename a, eval_rename b]
  | .not_ a => by simp only [renExpr, eval, eval_rename a]
  | .compare e ops => by
    simp only [renExpr, eval, eval_rename e]
    congr; funext v; exact evalCmp_rename v ops
  | .bin op a b => by simp only [renExpr, eval, eval_rename a, eval_rename b]; rfl
  | .concat es => by simp only [renExpr, eval, evalList_rename es]
  | .un op a => by simp only [renExpr, eval, eval_rename a]; rfl
  | .getattr e a => by simp only [renExpr, eval, eval_rename e]; rfl
  | .getitem e i => by simp only [renExpr, eval, eval_rename e, eval_rename i]; rfl
  | .slice e a b s => by simp only [renExpr, eval, eval_rename e, evalOpt_rename a, evalOpt_rename b, evalOpt_rename s]
  | .call f args => by simp only [renExpr, eval, eval_rename f, evalList_rename args]; rfl
  | .filter e name args => by simp only [renExpr, eval, eval_rename e, evalList_rename args]
  | .test e name args => by simp only [renExpr, eval, eval_rename e, evalList_rename args]
theorem evalList_rename : (es : List Expr) → evalList c ae (renCtx ρ ctx) (renList ρ es) = evalList c ae ctx es
  | [] => by simp [renList, evalList]
  | e :: es => by simp only [renList, evalList, eval_rename e, evalList_rename es]
theorem evalPairs_rename : (kvs : List (Expr × Expr)) → evalPairs c ae (renCtx ρ ctx) (renPairs ρ kvs) = evalPairs c ae ctx kvs
  | [] => by simp [renPairs, evalPairs]
  | (k, v) :: rest => by simp only [renPairs, evalPairs, eval_rename k, eval_rename v, evalPairs_rename rest]
theorem evalOpt_rename : (o : Option Expr) → evalOpt c ae (renCtx ρ ctx) (renOpt ρ o) = evalOpt c ae ctx o
  | none => by simp [renOpt, evalOpt]
  | some e => by simp only [renOpt, evalOpt, eval_rename e]
theorem evalElse_rename : (o : Option Expr) → evalElse c ae (renCtx ρ ctx) (renOpt ρ o) = evalElse c ae ctx o
  | none => by simp [renOpt, evalElse]
  | some e => by simp only [renOpt, evalElse, eval_rename e]
theorem evalCmp_rename (v : Val) : (ops : List (CmpOp × Expr)) →
    evalCmp c ae (renCtx ρ ctx) v (renCmp ρ ops) = evalCmp c ae ctx v ops
  | [] => by simp [renCmp, evalCmp]
  | (op, e) :: rest => by
    simp only [renCmp, evalCmp, eval_rename e]
    congr; funext w; congr; funext r
    split
    · exact evalCmp_rename w rest
    · rfl
end

end JinjaV.Expr
