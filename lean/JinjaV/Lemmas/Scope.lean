import JinjaV.Model.Scope
/-
  Helper lemmas for C32: every frame a run enters is a frame the code generator entered (mutual structural induction
  over statements / statement lists / elif chains), and every executed load site is a reference node.
-/
namespace JinjaV.Scope.Lemmas
open JinjaV.Scope

theorem mem_rep {n : Nat} {f : Nat → List Name} {x : Name} : x ∈ rep n f → ∃ i, x ∈ f i := by
  intro h
  simp only [rep, List.mem_flatMap] at h
  obtain ⟨i, _, hi⟩ := h
  exact ⟨i, hi⟩

mutual
theorem run_sub : ∀ (s : Stmt) (o : Oracle) (outer : List Name) (st : St) (n : Name),
    n ∈ run o outer st s → n ∈ cg outer st s
  | .output e, o, outer, st, n, h => by simp [run] at h
  | .ite t b ei el, o, outer, st, n, h => by
    simp only [run] at h
    simp only [cg, List.mem_append]
    split at h
    · exact Or.inl (Or.inl (runs_sub b _ _ _ _ h))
    · split at h
      · rename_i r hr
        exact Or.inl (Or.inr (runChain_sub ei _ _ _ _ hr _ h))
      · exact Or.inr (runs_sub el _ _ _ _ h)
  | .for_ tg it body els test rc, o, outer, st, n, h => by
    simp only [run] at h
    simp only [cg, List.mem_append]
    obtain ⟨j, h⟩ := mem_rep h
    simp only [List.mem_append] at h
    rcases h with (h | h) | h
    · exact Or.inl (Or.inl (Or.inl h))
    · obtain ⟨i, h⟩ := mem_rep h
      simp only [List.mem_append] at h
      rcases h with h | h
      · exact Or.inl (Or.inl (Or.inr h))
      · exact Or.inl (Or.inr (runs_sub body _ _ _ _ h))
    · split at h
      · rename_i hc
        have : els.isEmpty = false := by simpa using hc.2
        simp only [this]
        simp only [List.mem_append] at h
        rcases h with h | h
        · exact Or.inr (by simp; exact Or.inl h)
        · exact Or.inr (by simp; exact Or.inr (runs_sub els _ _ _ _ h))
      · simp at h
  | .assign _ _, o, outer, st, n, h => by simp [run] at h
  | .assignBlock _ _ body, o, outer, st, n, h => by
    simp only [run, List.mem_append] at h
    simp only [cg, List.mem_append]
    rcases h with h | h
    · exact Or.inl h
    · exact Or.inr (runs_sub body _ _ _ _ h)
  | .with_ tg _ body, o, outer, st, n, h => by
    simp only [run, List.mem_append] at h
    simp only [cg, List.mem_append]
    rcases h with h | h
    · exact Or.inl h
    · exact Or.inr (runs_sub body _ _ _ _ h)
  | .macro_ _ args d body, o, outer, st, n, h => by
    simp only [run] at h
    simp only [cg, List.mem_append]
    obtain ⟨j, h⟩ := mem_rep h
    simp only [List.mem_append] at h
    rcases h with h | h
    · exact Or.inl h
    · exact Or.inr (runs_sub body _ _ _ _ h)
  | .callBlock _ args d body, o, outer, st, n, h => by
    simp only [run] at h
    simp only [cg, List.mem_append]
    obtain ⟨j, h⟩ := mem_rep h
    simp only [List.mem_append] at h
    rcases h with h | h
    · exact Or.inl h
    · exact Or.inr (runs_sub body _ _ _ _ h)
  | .filterBlock _ body, o, outer, st, n, h => by
    simp only [run, List.mem_append] at h
    simp only [cg, List.mem_append]
    rcases h with h | h
    · exact Or.inl h
    · exact Or.inr (runs_sub body _ _ _ _ h)
  | .block _ _ _, o, outer, st, n, h => by simp [run] at h
  | .ref _ _ _ _, o, outer, st, n, h => by simp [run] at h
  | .scope body, o, outer, st, n, h => by
    simp only [run, List.mem_append] at h
    simp only [cg, List.mem_append]
    rcases h with h | h
    · exact Or.inl h
    · exact Or.inr (runs_sub body _ _ _ _ h)
  | .evalctx _ body, o, outer, st, n, h => by
    simp only [run] at h
    simp only [cg]
    exact runs_sub body _ _ _ _ h
theorem runs_sub : ∀ (ss : List Stmt) (o : Oracle) (outer : List Name) (st : St) (n : Name),
    n ∈ runs o outer st ss → n ∈ cgs outer st ss
  | [], o, outer, st, n, h => by simp [runs] at h
  | s :: ss, o, outer, st, n, h => by
    simp only [runs, List.mem_append] at h
    simp only [cgs, List.mem_append]
    rcases h with h | h
    · exact Or.inl (run_sub s _ _ _ _ h)
    · exact Or.inr (runs_sub ss _ _ _ _ h)
theorem runChain_sub : ∀ (es : List Stmt) (o : Oracle) (outer : List Name) (st : St) (r : List Name),
    runChain o outer st es = some r → ∀ n, n ∈ r → n ∈ cgs outer st es
  | [], o, outer, st, r, h => by simp [runChain] at h
  | s :: es, o, outer, st, r, h => by
    intro n hn
    simp only [cgs, List.mem_append]
    cases s with
    | ite t b ei el =>
      simp only [runChain] at h
      simp only [cg, List.mem_append]
      split at h
      · cases h
        exact Or.inl (Or.inl (Or.inl (runs_sub b _ _ _ _ hn)))
      · exact Or.inr (runChain_sub es _ _ _ _ h n hn)
    | _ =>
      simp only [runChain] at h
      exact Or.inr (runChain_sub es _ _ _ _ h n hn)
end


theorem runBlocks_sub : ∀ (bs : List (Name × Bool × List Stmt)) (o : Oracle) (n : Name),
    n ∈ runBlocks o bs → n ∈ cgBlocks bs
  | [], o, n, h => by simp [runBlocks] at h
  | (nm, sc, body) :: bs, o, n, h => by
    simp only [runBlocks, List.mem_append] at h
    simp only [cgBlocks, List.mem_append]
    rcases h with h | h
    · obtain ⟨j, h⟩ := mem_rep h
      simp only [List.mem_append] at h
      rcases h with h | h
      · exact Or.inl (Or.inl h)
      · exact Or.inl (Or.inr (runs_sub body _ _ _ _ h))
    · exact Or.inr (runBlocks_sub bs _ _ h)

/-! ### load sites -/

theorem mem_repS {n : Nat} {f : Nat → List String} {x : String} : x ∈ rep n f → ∃ i, x ∈ f i := mem_rep

/-- what an executed site hands to the loader comes from some reference node of the template -/
def FromNode (dynv : Nat → Nat → List String) (nodes : List (RefKind × TExpr)) (s : String) : Prop :=
  ∃ k te i, (k, te) ∈ nodes ∧ s ∈ siteLoads (dynv i) k te

theorem FromNode.mono {dynv} {a b : List (RefKind × TExpr)} {s : String} (hab : ∀ x, x ∈ a → x ∈ b) :
    FromNode dynv a s → FromNode dynv b s := by
  rintro ⟨k, te, i, hm, hs⟩
  exact ⟨k, te, i, hab _ hm, hs⟩

mutual
theorem loadsRun_from : ∀ (st : Stmt) (o : Oracle) (dynv : Nat → Nat → List String) (s : String),
    s ∈ loadsRun o dynv st → FromNode dynv (refsOf st) s
  | .output _, o, dynv, s, h => by simp [loadsRun] at h
  | .ite _ b ei el, o, dynv, s, h => by
    simp only [loadsRun] at h
    simp only [refsOf]
    split at h
    · exact (loadsRuns_from b _ _ _ h).mono (by intro x hx; simp [hx])
    · split at h
      · exact (loadsRuns_from ei _ _ _ h).mono (by intro x hx; simp [hx])
      · exact (loadsRuns_from el _ _ _ h).mono (by intro x hx; simp [hx])
  | .for_ _ _ b el _ _, o, dynv, s, h => by
    simp only [loadsRun, List.mem_append] at h
    simp only [refsOf]
    rcases h with h | h
    · obtain ⟨i, h⟩ := mem_repS h
      exact (loadsRuns_from b _ _ _ h).mono (by intro x hx; simp [hx])
    · split at h
      · exact (loadsRuns_from el _ _ _ h).mono (by intro x hx; simp [hx])
      · simp at h
  | .assign _ _, o, dynv, s, h => by simp [loadsRun] at h
  | .assignBlock _ _ b, o, dynv, s, h => by
    simp only [loadsRun] at h
    simp only [refsOf]
    exact loadsRuns_from b _ _ _ h
  | .with_ _ _ b, o, dynv, s, h => by
    simp only [loadsRun] at h
    simp only [refsOf]
    exact loadsRuns_from b _ _ _ h
  | .macro_ _ _ _ b, o, dynv, s, h => by
    simp only [loadsRun] at h
    simp only [refsOf]
    obtain ⟨i, h⟩ := mem_repS h
    exact loadsRuns_from b _ _ _ h
  | .callBlock _ _ _ b, o, dynv, s, h => by
    simp only [loadsRun] at h
    simp only [refsOf]
    obtain ⟨i, h⟩ := mem_repS h
    exact loadsRuns_from b _ _ _ h
  | .filterBlock _ b, o, dynv, s, h => by
    simp only [loadsRun] at h
    simp only [refsOf]
    exact loadsRuns_from b _ _ _ h
  | .block _ _ b, o, dynv, s, h => by
    simp only [loadsRun] at h
    simp only [refsOf]
    obtain ⟨i, h⟩ := mem_repS h
    exact loadsRuns_from b _ _ _ h
  | .ref k t _ _, o, dynv, s, h => by
    simp only [loadsRun] at h
    simp only [refsOf]
    exact ⟨k, t, o 0, by simp, h⟩
  | .scope b, o, dynv, s, h => by
    simp only [loadsRun] at h
    simp only [refsOf]
    exact loadsRuns_from b _ _ _ h
  | .evalctx _ b, o, dynv, s, h => by
    simp only [loadsRun] at h
    simp only [refsOf]
    exact loadsRuns_from b _ _ _ h
theorem loadsRuns_from : ∀ (ss : List Stmt) (o : Oracle) (dynv : Nat → Nat → List String) (s : String),
    s ∈ loadsRuns o dynv ss → FromNode dynv (refsOfs ss) s
  | [], o, dynv, s, h => by simp [loadsRuns] at h
  | st :: ss, o, dynv, s, h => by
    simp only [loadsRuns, List.mem_append] at h
    simp only [refsOfs]
    rcases h with h | h
    · exact (loadsRun_from st _ _ _ h).mono (by intro x hx; simp [hx])
    · exact (loadsRuns_from ss _ _ _ h).mono (by intro x hx; simp [hx])
end

theorem mem_itemLoads : ∀ (items : List TItem) (dynv : Nat → List String) (i : Nat) (s : String),
    s ∈ itemLoads dynv i items → TItem.str s ∈ items ∨ TItem.dyn ∈ items
  | [], dynv, i, s, h => by simp [itemLoads] at h
  | .str x :: r, dynv, i, s, h => by
    simp only [itemLoads, List.mem_cons] at h
    rcases h with h | h
    · subst h; simp
    · rcases mem_itemLoads r _ _ _ h with h | h <;> simp [h]
  | .other :: r, dynv, i, s, h => by
    simp only [itemLoads] at h
    rcases mem_itemLoads r _ _ _ h with h | h <;> simp [h]
  | .dyn :: r, dynv, i, s, h => by simp

theorem mem_strsOf : ∀ (l : List (Option String)) (s : String), s ∈ strsOf l → some s ∈ l
  | [], s, h => by simp [strsOf] at h
  | some x :: r, s, h => by
    simp only [strsOf, List.mem_cons] at h
    rcases h with h | h
    · subst h; simp
    · simp [mem_strsOf r s h]
  | none :: r, s, h => by
    simp only [strsOf] at h
    simp [mem_strsOf r s h]

end JinjaV.Scope.Lemmas
