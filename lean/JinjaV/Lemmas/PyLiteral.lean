/-
  The derivative matcher `G.accepts` of `Spec/PyLiteral.lean` decides the derivation relation `Derives`.
-/
import JinjaV.Spec.PyLiteral
namespace JinjaV.Spec.PyLit

-- the derivative matcher decides the grammar -----------------------------------------------------------------

theorem nullable_iff (g : G) : g.nullable = true ↔ Derives g [] := by
  induction g with
  | none => exact ⟨fun h => (by simp [G.nullable] at h), fun h => (by cases h)⟩
  | eps => exact ⟨fun _ => .eps, fun _ => rfl⟩
  | cls p => exact ⟨fun h => (by simp [G.nullable] at h), fun h => (by cases h)⟩
  | seq a b iha ihb =>
    constructor
    · intro h
      simp only [G.nullable, Bool.and_eq_true] at h
      exact Derives.seq (s := []) (t := []) (iha.1 h.1) (ihb.1 h.2)
    · intro h
      generalize hs : ([] : Str) = u at h
      cases h with
      | seq h1 h2 =>
        rename_i s t
        have hs' : s = [] ∧ t = [] := List.append_eq_nil_iff.1 hs.symm
        simp only [G.nullable, Bool.and_eq_true]
        exact ⟨iha.2 (hs'.1 ▸ h1), ihb.2 (hs'.2 ▸ h2)⟩
  | alt a b iha ihb =>
    constructor
    · intro h
      simp only [G.nullable, Bool.or_eq_true] at h
      cases h with
      | inl h => exact .altL (iha.1 h)
      | inr h => exact .altR (ihb.1 h)
    · intro h
      simp only [G.nullable, Bool.or_eq_true]
      cases h with
      | altL h => exact Or.inl (iha.2 h)
      | altR h => exact Or.inr (ihb.2 h)
  | star a _ => exact ⟨fun _ => .starNil, fun _ => rfl⟩

/-- a derivation of a non-empty string by `a*` can be split so that its first block is non-empty -/
theorem star_cons_split {a : G} {u : Str} (h : Derives (.star a) u) :
    ∀ c s, u = c :: s → ∃ s1 s2, s = s1 ++ s2 ∧ Derives a (c :: s1) ∧ Derives (.star a) s2 := by
  generalize hg : G.star a = g at h
  induction h with
  | eps => intro c s hu; cases hu
  | cls _ => cases hg
  | seq _ _ => cases hg
  | altL _ => cases hg
  | altR _ => cases hg
  | starNil => intro c s hu; cases hu
  | @starCons a' s1 t h1 h2 _ ih2 =>
    cases hg
    intro c s hu
    cases s1 with
    | nil => exact ih2 rfl c s (by simpa using hu)
    | cons d s1' =>
      simp only [List.cons_append, List.cons.injEq] at hu
      exact ⟨s1', t, hu.2.symm, hu.1 ▸ h1, h2⟩

theorem deriv_iff (g : G) : ∀ (c : Char) (s : Str), Derives (g.deriv c) s ↔ Derives g (c :: s) := by
  induction g with
  | none => intro c s; exact ⟨fun h => (by cases h), fun h => (by cases h)⟩
  | eps => intro c s; exact ⟨fun h => (by cases h), fun h => (by cases h)⟩
  | cls p =>
    intro c s
    constructor
    · intro h
      by_cases hp : p c = true
      · simp only [G.deriv, hp, if_true] at h
        cases h
        exact .cls hp
      · simp only [G.deriv, hp] at h
        cases h
    · intro h
      cases h with
      | cls hp => simp only [G.deriv, hp, if_true]; exact .eps
  | seq a b iha ihb =>
    intro c s
    constructor
    · intro h
      by_cases hn : a.nullable = true
      · simp only [G.deriv, hn, if_true] at h
        cases h with
        | altL h =>
          cases h with
          | seq h1 h2 => exact Derives.seq ((iha c _).1 h1) h2
        | altR h => exact Derives.seq (s := []) ((nullable_iff a).1 hn) ((ihb c s).1 h)
      · simp only [G.deriv, hn] at h
        cases h with
        | seq h1 h2 => exact Derives.seq ((iha c _).1 h1) h2
    · intro h
      generalize hu : c :: s = u at h
      cases h with
      | seq h1 h2 =>
        rename_i s1 t
        cases s1 with
        | nil =>
          have hn : a.nullable = true := (nullable_iff a).2 h1
          simp only [List.nil_append] at hu
          simp only [G.deriv, hn, if_true]
          exact .altR ((ihb c s).2 (hu ▸ h2))
        | cons d s1' =>
          simp only [List.cons_append, List.cons.injEq] at hu
          have h1' : Derives (a.deriv c) s1' := (iha c s1').2 (hu.1 ▸ h1)
          have hs : s = s1' ++ t := hu.2
          by_cases hn : a.nullable = true
          · simp only [G.deriv, hn, if_true]
            exact .altL (hs ▸ Derives.seq h1' h2)
          · simp only [G.deriv, hn]
            exact hs ▸ Derives.seq h1' h2
  | alt a b iha ihb =>
    intro c s
    constructor
    · intro h
      cases h with
      | altL h => exact .altL ((iha c s).1 h)
      | altR h => exact .altR ((ihb c s).1 h)
    · intro h
      cases h with
      | altL h => exact .altL ((iha c s).2 h)
      | altR h => exact .altR ((ihb c s).2 h)
  | star a iha =>
    intro c s
    constructor
    · intro h
      cases h with
      | seq h1 h2 => exact Derives.starCons ((iha c _).1 h1) h2
    · intro h
      obtain ⟨s1, s2, hs, h1, h2⟩ := star_cons_split h c s rfl
      exact hs ▸ Derives.seq ((iha c s1).2 h1) h2

theorem accepts_iff (g : G) (s : Str) : g.accepts s = true ↔ Derives g s := by
  induction s generalizing g with
  | nil => exact nullable_iff g
  | cons c s ih =>
    have : g.accepts (c :: s) = (g.deriv c).accepts s := rfl
    rw [this, ih (g.deriv c)]
    exact deriv_iff g c s

end JinjaV.Spec.PyLit
