/-
  Helper lemmas for Props/C14.lean: the unicode-escape decoder on spelled chunks, the string scanner on
  escape-closed text, the number scanners against the reference grammar.
-/
import JinjaV.Model.Literal
import JinjaV.Lemmas.PyLiteral
namespace JinjaV.Literal
open JinjaV.Lex

-- the decoder --------------------------------------------------------------------------------------------

/-- output of a decoding step put in front of the rest's result -/
def prepend (out : List Nat) : Except DErr (List Nat) → Except DErr (List Nat)
  | .ok v => .ok (out ++ v)
  | .error e => .error e

theorem prepend_nil (r : Except DErr (List Nat)) : prepend [] r = r := by
  cases r <;> simp [prepend]

theorem prepend_prepend (a b : List Nat) (r : Except DErr (List Nat)) :
    prepend a (prepend b r) = prepend (a ++ b) r := by
  cases r <;> simp [prepend]

theorem decodeFrom_cons_ok {st st' : DState} {c : Nat} {out : List Nat} (r : List Nat)
    (h : step st c = .ok (out, st')) : decodeFrom st (c :: r) = prepend out (decodeFrom st' r) := by
  simp only [decodeFrom, h]
  cases decodeFrom st' r <;> simp [prepend]

theorem hexVal_hexDigit : ∀ d, d < 16 → hexValCP (hexDigitCP d) = some d := by decide

theorem hexDigit_ascii : ∀ d, d < 16 → hexDigitCP d < 128 := by decide

theorem hexN_ascii : ∀ (w n : Nat), n < 16 ^ w → ∀ x ∈ hexN w n, x < 128
  | 0, _, _, x, hx => by simp [hexN] at hx
  | w + 1, n, hn, x, hx => by
    simp only [hexN, List.mem_cons] at hx
    have hd : n / 16 ^ w < 16 := by
      apply Nat.div_lt_of_lt_mul
      rw [Nat.pow_succ] at hn
      exact hn
    rcases hx with hx | hx
    · rw [hx]; exact hexDigit_ascii _ hd
    · exact hexN_ascii w (n % 16 ^ w) (Nat.mod_lt _ (Nat.pow_pos (by decide))) x hx

/-- `w ≥ 1` hex digits of `n` read in state `hex w acc` give `acc * 16 ^ w + n` -/
theorem decode_hex : ∀ (w acc n : Nat) (rest : List Nat), n < 16 ^ (w + 1) → acc * 16 ^ (w + 1) + n ≤ 0x10ffff →
    decodeFrom (.hex (w + 1) acc) (hexN (w + 1) n ++ rest) = prepend [acc * 16 ^ (w + 1) + n] (decodeFrom .plain rest)
  | 0, acc, n, rest, hn, hb => by
    have hn' : n < 16 := by simpa using hn
    have : hexN 1 n = [hexDigitCP n] := by simp [hexN]
    rw [this]
    have hs : step (.hex 1 acc) (hexDigitCP n) = .ok ([acc * 16 + n], .plain) := by
      simp only [step, hexVal_hexDigit n hn']
      have : ¬ (acc * 16 + n > 0x10ffff) := by omega
      simp [this]
    rw [List.singleton_append, decodeFrom_cons_ok rest hs]
  | w + 1, acc, n, rest, hn, hb => by
    have hd : n / 16 ^ (w + 1) < 16 := by
      apply Nat.div_lt_of_lt_mul
      rw [Nat.pow_succ] at hn
      exact hn
    have hm : n % 16 ^ (w + 1) < 16 ^ (w + 1) := Nat.mod_lt _ (Nat.pow_pos (by decide))
    have hsplit : 16 ^ (w + 1) * (n / 16 ^ (w + 1)) + n % 16 ^ (w + 1) = n := Nat.div_add_mod n (16 ^ (w + 1))
    have hval : (acc * 16 + n / 16 ^ (w + 1)) * 16 ^ (w + 1) + n % 16 ^ (w + 1) = acc * 16 ^ (w + 1 + 1) + n := by
      rw [Nat.add_mul, Nat.pow_succ 16 (w + 1), Nat.mul_assoc acc, Nat.mul_comm 16 (16 ^ (w + 1)),
        Nat.mul_comm (n / 16 ^ (w + 1))]
      omega
    have hs : step (.hex (w + 1 + 1) acc) (hexDigitCP (n / 16 ^ (w + 1))) =
        .ok ([], .hex (w + 1) (acc * 16 + n / 16 ^ (w + 1))) := by
      simp only [step, hexVal_hexDigit _ hd]
      have : ¬ (w + 1 + 1 ≤ 1) := by omega
      simp [this]
    have : hexN (w + 1 + 1) n = hexDigitCP (n / 16 ^ (w + 1)) :: hexN (w + 1) (n % 16 ^ (w + 1)) := by
      simp [hexN]
    rw [this, List.cons_append, decodeFrom_cons_ok _ hs, prepend_nil,
      decode_hex w (acc * 16 + n / 16 ^ (w + 1)) (n % 16 ^ (w + 1)) rest hm (by rw [hval]; exact hb), hval]


theorem encodeAscii_append (a b : List Nat) : encodeAscii (a ++ b) = encodeAscii a ++ encodeAscii b := by
  simp [encodeAscii, List.flatMap_append]

theorem encodeAscii_cons (c : Nat) (r : List Nat) : encodeAscii (c :: r) = enc1 c ++ encodeAscii r := by
  simp [encodeAscii, List.flatMap_cons]

theorem encodeAscii_ascii : ∀ (s : List Nat), (∀ x ∈ s, x < 128) → encodeAscii s = s
  | [], _ => rfl
  | c :: r, h => by
    have hc : c < 128 := h c (by simp)
    rw [encodeAscii_cons, encodeAscii_ascii r (fun x hx => h x (by simp [hx]))]
    simp [enc1, hc]

theorem decode_x (c : Nat) (rest : List Nat) (h : c < 256) :
    decodeFrom .plain (92 :: 120 :: hexN 2 c ++ rest) = prepend [c] (decodeFrom .plain rest) := by
  have h1 : step .plain 92 = .ok ([], .esc) := rfl
  have h2 : step .esc 120 = .ok ([], .hex 2 0) := rfl
  rw [List.cons_append, List.cons_append, decodeFrom_cons_ok _ h1, decodeFrom_cons_ok _ h2, prepend_nil, prepend_nil,
    decode_hex 1 0 c rest (by simpa using h) (by omega)]
  simp

theorem decode_u (c : Nat) (rest : List Nat) (h : c < 65536) :
    decodeFrom .plain (92 :: 117 :: hexN 4 c ++ rest) = prepend [c] (decodeFrom .plain rest) := by
  have h1 : step .plain 92 = .ok ([], .esc) := rfl
  have h2 : step .esc 117 = .ok ([], .hex 4 0) := rfl
  rw [List.cons_append, List.cons_append, decodeFrom_cons_ok _ h1, decodeFrom_cons_ok _ h2, prepend_nil, prepend_nil,
    decode_hex 3 0 c rest (by simpa using h) (by omega)]
  simp

theorem decode_U (c : Nat) (rest : List Nat) (h : c < 0x110000) :
    decodeFrom .plain (92 :: 85 :: hexN 8 c ++ rest) = prepend [c] (decodeFrom .plain rest) := by
  have h1 : step .plain 92 = .ok ([], .esc) := rfl
  have h2 : step .esc 85 = .ok ([], .hex 8 0) := rfl
  rw [List.cons_append, List.cons_append, decodeFrom_cons_ok _ h1, decodeFrom_cons_ok _ h2, prepend_nil, prepend_nil,
    decode_hex 7 0 c rest (by omega) (by omega)]
  simp

theorem stepEsc_oct (a : Nat) (h : a < 8) : stepEsc (48 + a) = .ok ([], .oct 2 a) := by
  have : a = 0 ∨ a = 1 ∨ a = 2 ∨ a = 3 ∨ a = 4 ∨ a = 5 ∨ a = 6 ∨ a = 7 := by omega
  rcases this with rfl | rfl | rfl | rfl | rfl | rfl | rfl | rfl <;> rfl

theorem isOct_digit (a : Nat) (h : a < 8) : isOctCP (48 + a) = true := by
  have : a = 0 ∨ a = 1 ∨ a = 2 ∨ a = 3 ∨ a = 4 ∨ a = 5 ∨ a = 6 ∨ a = 7 := by omega
  rcases this with rfl | rfl | rfl | rfl | rfl | rfl | rfl | rfl <;> rfl

theorem decode_oct (c : Nat) (rest : List Nat) (h : c < 512) :
    decodeFrom .plain (92 :: octN c ++ rest) = prepend [c] (decodeFrom .plain rest) := by
  have h1 : step .plain 92 = .ok ([], .esc) := rfl
  have ha : c / 64 % 8 < 8 := Nat.mod_lt _ (by decide)
  have hb : c / 8 % 8 < 8 := Nat.mod_lt _ (by decide)
  have hc : c % 8 < 8 := Nat.mod_lt _ (by decide)
  have h2 : step .esc (48 + c / 64 % 8) = .ok ([], .oct 2 (c / 64 % 8)) := stepEsc_oct _ ha
  have h3 : step (.oct 2 (c / 64 % 8)) (48 + c / 8 % 8) = .ok ([], .oct 1 (c / 64 % 8 * 8 + c / 8 % 8)) := by
    have hsub : 48 + c / 8 % 8 - 48 = c / 8 % 8 := by omega
    simp only [step, isOct_digit _ hb, hsub]
    simp
  have hv : (c / 64 % 8 * 8 + c / 8 % 8) * 8 + c % 8 = c := by omega
  have h4 : step (.oct 1 (c / 64 % 8 * 8 + c / 8 % 8)) (48 + c % 8) = .ok ([c], .plain) := by
    have hsub : 48 + c % 8 - 48 = c % 8 := by omega
    simp only [step, isOct_digit _ hc, hsub, hv]
    simp
  simp only [octN, List.cons_append, List.nil_append]
  rw [decodeFrom_cons_ok _ h1, decodeFrom_cons_ok _ h2, decodeFrom_cons_ok _ h3, decodeFrom_cons_ok _ h4]
  simp [prepend_nil]


theorem simple_cases (c l : Nat) (h : simpleLetter? c = some l) :
    (c = 92 ∧ l = 92) ∨ (c = 39 ∧ l = 39) ∨ (c = 34 ∧ l = 34) ∨ (c = 7 ∧ l = 97) ∨ (c = 8 ∧ l = 98) ∨
    (c = 12 ∧ l = 102) ∨ (c = 10 ∧ l = 110) ∨ (c = 13 ∧ l = 114) ∨ (c = 9 ∧ l = 116) ∨ (c = 11 ∧ l = 118) := by
  unfold simpleLetter? at h
  repeat' split at h
  all_goals simp_all

theorem decode_simple (c l : Nat) (rest : List Nat) (h : simpleLetter? c = some l) :
    decodeFrom .plain (92 :: l :: rest) = prepend [c] (decodeFrom .plain rest) := by
  have h1 : step .plain 92 = .ok ([], .esc) := rfl
  have h2 : step .esc l = .ok ([c], .plain) := by
    rcases simple_cases c l h with ⟨rfl, rfl⟩ | ⟨rfl, rfl⟩ | ⟨rfl, rfl⟩ | ⟨rfl, rfl⟩ | ⟨rfl, rfl⟩ | ⟨rfl, rfl⟩ |
      ⟨rfl, rfl⟩ | ⟨rfl, rfl⟩ | ⟨rfl, rfl⟩ | ⟨rfl, rfl⟩ <;> rfl
  rw [decodeFrom_cons_ok _ h1, decodeFrom_cons_ok _ h2, prepend_nil]

theorem simple_letter_ascii (c l : Nat) (h : simpleLetter? c = some l) : l < 128 := by
  rcases simple_cases c l h with ⟨_, rfl⟩ | ⟨_, rfl⟩ | ⟨_, rfl⟩ | ⟨_, rfl⟩ | ⟨_, rfl⟩ | ⟨_, rfl⟩ |
      ⟨_, rfl⟩ | ⟨_, rfl⟩ | ⟨_, rfl⟩ | ⟨_, rfl⟩ <;> decide

/-- every chunk a style writes for `c` decodes (after `backslashreplace`) to exactly `c` -/
theorem decode_chunk (q c : Nat) (st : Style) (rest : List Nat) (h : st.ok q c = true) :
    decodeFrom .plain (encodeAscii (spell1 c st) ++ rest) = prepend [c] (decodeFrom .plain rest) := by
  cases st with
  | raw =>
    simp only [Style.ok, Bool.and_eq_true, bne_iff_ne, ne_eq, decide_eq_true_eq] at h
    obtain ⟨⟨⟨h92, _⟩, _⟩, hlt⟩ := h
    have e : encodeAscii (spell1 c .raw) = enc1 c := by simp [spell1, encodeAscii]
    rw [e]
    by_cases h1 : c < 128
    · have hs : step .plain c = .ok ([c], .plain) := by simp [step, stepPlain, h92]
      have e1 : enc1 c = [c] := by simp [enc1, h1]
      rw [e1, List.singleton_append, decodeFrom_cons_ok _ hs]
    · by_cases h2 : c < 256
      · have e1 : enc1 c = 92 :: 120 :: hexN 2 c := by simp [enc1, h1, h2]
        rw [e1]; exact decode_x c rest h2
      · by_cases h3 : c < 65536
        · have e1 : enc1 c = 92 :: 117 :: hexN 4 c := by simp [enc1, h1, h2, h3]
          rw [e1]; exact decode_u c rest h3
        · have e1 : enc1 c = 92 :: 85 :: hexN 8 c := by simp [enc1, h1, h2, h3]
          rw [e1]; exact decode_U c rest hlt
  | simple =>
    simp only [Style.ok, Option.isSome_iff_exists] at h
    obtain ⟨l, hl⟩ := h
    have hasc : ∀ x ∈ [92, l], x < 128 := by
      intro x hx
      simp only [List.mem_cons, List.not_mem_nil, or_false] at hx
      rcases hx with rfl | rfl
      · decide
      · exact simple_letter_ascii c _ hl
    simp only [spell1, hl]
    rw [encodeAscii_ascii _ hasc]
    exact decode_simple c l rest hl
  | hex2 =>
    simp only [Style.ok, decide_eq_true_eq] at h
    have hasc : ∀ x ∈ 92 :: 120 :: hexN 2 c, x < 128 := by
      intro x hx
      simp only [List.mem_cons] at hx
      rcases hx with rfl | rfl | hx
      · decide
      · decide
      · exact hexN_ascii 2 c (by simpa using h) x hx
    simp only [spell1]
    rw [encodeAscii_ascii _ hasc]
    exact decode_x c rest h
  | oct3 =>
    simp only [Style.ok, decide_eq_true_eq] at h
    have hasc : ∀ x ∈ 92 :: octN c, x < 128 := by
      intro x hx
      simp only [octN, List.mem_cons, List.not_mem_nil, or_false] at hx
      rcases hx with rfl | rfl | rfl | rfl <;> omega
    simp only [spell1]
    rw [encodeAscii_ascii _ hasc]
    exact decode_oct c rest h
  | u4 =>
    simp only [Style.ok, decide_eq_true_eq] at h
    have hasc : ∀ x ∈ 92 :: 117 :: hexN 4 c, x < 128 := by
      intro x hx
      simp only [List.mem_cons] at hx
      rcases hx with rfl | rfl | hx
      · decide
      · decide
      · exact hexN_ascii 4 c (by simpa using h) x hx
    simp only [spell1]
    rw [encodeAscii_ascii _ hasc]
    exact decode_u c rest h
  | u8 =>
    simp only [Style.ok, decide_eq_true_eq] at h
    have hasc : ∀ x ∈ 92 :: 85 :: hexN 8 c, x < 128 := by
      intro x hx
      simp only [List.mem_cons] at hx
      rcases hx with rfl | rfl | hx
      · decide
      · decide
      · exact hexN_ascii 8 c (by omega) x hx
    simp only [spell1]
    rw [encodeAscii_ascii _ hasc]
    exact decode_U c rest h

theorem decode_spelled (q : Nat) : ∀ (sts : List Style) (v : List Nat), stylesOk q sts v = true →
    decodeEscapes (encodeAscii (spellBody sts v)) = .ok v
  | [], [], _ => rfl
  | [], _ :: _, h => by simp [stylesOk] at h
  | _ :: _, [], h => by simp [stylesOk] at h
  | st :: sts, c :: v, h => by
    simp only [stylesOk, Bool.and_eq_true] at h
    have ih := decode_spelled q sts v h.2
    simp only [decodeEscapes] at ih ⊢
    simp only [spellBody, encodeAscii_append]
    rw [decode_chunk q c st _ h.1, ih]
    rfl


-- line-break normalisation leaves a spelled body alone -----------------------------------------------------

theorem normNl_noCR : ∀ (s : List Nat), (∀ x ∈ s, x ≠ 13) → normNl s = s
  | [], _ => rfl
  | c :: r, h => by
    have hc : c ≠ 13 := h c (by simp)
    have ih := normNl_noCR r (fun x hx => h x (by simp [hx]))
    unfold normNl
    split
    · simp_all
    · simp_all
    · simp_all
    · rename_i heq; cases heq; simp [ih]

theorem hexDigit_plain (d : Nat) : 48 ≤ hexDigitCP d ∧ hexDigitCP d ≠ 92 := by
  unfold hexDigitCP; split <;> omega

theorem hexN_plain : ∀ (w n : Nat), ∀ x ∈ hexN w n, 48 ≤ x ∧ x ≠ 92
  | 0, _, x, hx => by simp [hexN] at hx
  | w + 1, n, x, hx => by
    simp only [hexN, List.mem_cons] at hx
    rcases hx with rfl | hx
    · exact hexDigit_plain _
    · exact hexN_plain w _ x hx

/-- a chunk is one plain character, or a backslash, one ASCII character and ASCII characters that are neither a
    backslash nor a quote -/
def ChunkShape (q : Nat) (ch : List Nat) : Prop :=
  (∃ c, ch = [c] ∧ c ≠ 92 ∧ c ≠ q ∧ c ≠ 13) ∨
  (∃ x ds, ch = 92 :: x :: ds ∧ x ≠ 13 ∧ x < 128 ∧ ∀ y ∈ ds, 48 ≤ y ∧ y ≠ 92 ∧ y < 128)

theorem spell1_shape (q c : Nat) (st : Style) (h : st.ok q c = true) : ChunkShape q (spell1 c st) := by
  cases st with
  | raw =>
    simp only [Style.ok, Bool.and_eq_true, bne_iff_ne, ne_eq, decide_eq_true_eq] at h
    exact Or.inl ⟨c, rfl, h.1.1.1, h.1.1.2, h.1.2⟩
  | simple =>
    simp only [Style.ok, Option.isSome_iff_exists] at h
    obtain ⟨l, hl⟩ := h
    refine Or.inr ⟨l, [], by simp [spell1, hl], ?_, simple_letter_ascii c l hl, by simp⟩
    rcases simple_cases c l hl with ⟨_, rfl⟩ | ⟨_, rfl⟩ | ⟨_, rfl⟩ | ⟨_, rfl⟩ | ⟨_, rfl⟩ | ⟨_, rfl⟩ |
      ⟨_, rfl⟩ | ⟨_, rfl⟩ | ⟨_, rfl⟩ | ⟨_, rfl⟩ <;> decide
  | hex2 =>
    simp only [Style.ok, decide_eq_true_eq] at h
    exact Or.inr ⟨120, hexN 2 c, rfl, by decide, by decide, fun y hy =>
      ⟨(hexN_plain 2 c y hy).1, (hexN_plain 2 c y hy).2, hexN_ascii 2 c (by simpa using h) y hy⟩⟩
  | oct3 =>
    simp only [Style.ok, decide_eq_true_eq] at h
    refine Or.inr ⟨48 + c / 64 % 8, [48 + c / 8 % 8, 48 + c % 8], rfl, by omega, by omega, ?_⟩
    intro y hy
    simp only [List.mem_cons, List.not_mem_nil, or_false] at hy
    rcases hy with rfl | rfl <;> omega
  | u4 =>
    simp only [Style.ok, decide_eq_true_eq] at h
    exact Or.inr ⟨117, hexN 4 c, rfl, by decide, by decide, fun y hy =>
      ⟨(hexN_plain 4 c y hy).1, (hexN_plain 4 c y hy).2, hexN_ascii 4 c (by simpa using h) y hy⟩⟩
  | u8 =>
    simp only [Style.ok, decide_eq_true_eq] at h
    exact Or.inr ⟨85, hexN 8 c, rfl, by decide, by decide, fun y hy =>
      ⟨(hexN_plain 8 c y hy).1, (hexN_plain 8 c y hy).2, hexN_ascii 8 c (by omega) y hy⟩⟩

theorem chunk_noCR {q : Nat} {ch : List Nat} (h : ChunkShape q ch) : ∀ x ∈ ch, x ≠ 13 := by
  rcases h with ⟨c, rfl, _, _, h13⟩ | ⟨x, ds, rfl, hx, _, hds⟩
  · intro y hy; simp only [List.mem_cons, List.not_mem_nil, or_false] at hy; rw [hy]; exact h13
  · intro y hy
    simp only [List.mem_cons] at hy
    rcases hy with rfl | rfl | hy
    · decide
    · exact hx
    · have := (hds y hy).1; omega

theorem spelled_noCR (q : Nat) : ∀ (sts : List Style) (v : List Nat), stylesOk q sts v = true →
    ∀ x ∈ spellBody sts v, x ≠ 13
  | [], [], _ => by simp [spellBody]
  | [], _ :: _, h => by simp [stylesOk] at h
  | _ :: _, [], h => by simp [stylesOk] at h
  | st :: sts, c :: v, h => by
    simp only [stylesOk, Bool.and_eq_true] at h
    intro x hx
    simp only [spellBody, List.mem_append] at hx
    rcases hx with hx | hx
    · exact chunk_noCR (spell1_shape q c st h.1) x hx
    · exact spelled_noCR q sts v h.2 x hx

/-- the value level of the string round trip -/
theorem unescape_spelled (q : Nat) (sts : List Style) (v : List Nat) (h : stylesOk q sts v = true) :
    unescapeBody (spellBody sts v) = .ok v := by
  unfold unescapeBody
  rw [normNl_noCR _ (spelled_noCR q sts v h)]
  exact decode_spelled q sts v h

-- the string scanner on spelled text -----------------------------------------------------------------------

theorem toNat_ofNat_valid (n : Nat) (h : n.isValidChar) : (Char.ofNat n).toNat = n := by
  simp [Char.ofNat, h, Char.ofNatAux, Char.toNat]

theorem ofNat_invalid (n : Nat) (h : ¬ n.isValidChar) : Char.ofNat n = '\x00' := by
  simp [Char.ofNat, h]
  rfl

theorem ofNat_ne (n : Nat) (k : Char) (hk : k ≠ '\x00') (h : n ≠ k.toNat) : Char.ofNat n ≠ k := by
  by_cases hv : n.isValidChar
  · intro e; apply h; rw [← e, toNat_ofNat_valid n hv]
  · rw [ofNat_invalid n hv]; exact fun e => hk e.symm

theorem strBody_plain (q c : Char) (s : Str) (h1 : c ≠ '\\') (h2 : c ≠ q) :
    strBody q (c :: s) = (strBody q s).map (fun br => (c :: br.1, br.2)) := by
  conv => lhs; unfold strBody
  split
  · rename_i heq; cases heq
  · rename_i heq; cases heq; exact absurd rfl h1
  · rename_i heq; cases heq; exact absurd rfl h1
  · rename_i c' r _ _ heq
    cases heq
    have : (c == q) = false := by simp [h2]
    simp only [this]
    cases strBody q s <;> simp

theorem strBody_esc (q c : Char) (s : Str) :
    strBody q ('\\' :: c :: s) = (strBody q s).map (fun br => ('\\' :: c :: br.1, br.2)) := by
  conv => lhs; unfold strBody
  cases h : strBody q s <;> simp [h]

theorem strBody_quote (q : Char) (rest : Str) (h : q ≠ '\\') : strBody q (q :: rest) = some ([q], rest) := by
  conv => lhs; unfold strBody
  split
  · rename_i heq; cases heq
  · rename_i heq; cases heq; exact absurd rfl h
  · rename_i heq; cases heq; exact absurd rfl h
  · rename_i c' r _ _ heq
    cases heq
    simp

theorem strBody_plains (q : Char) : ∀ (ds : List Nat) (s : Str),
    (∀ y ∈ ds, Char.ofNat y ≠ '\\' ∧ Char.ofNat y ≠ q) →
    strBody q (ds.map Char.ofNat ++ s) = (strBody q s).map (fun br => (ds.map Char.ofNat ++ br.1, br.2))
  | [], s, _ => by cases h : strBody q s <;> simp [h]
  | d :: ds, s, h => by
    have hd := h d (by simp)
    simp only [List.map_cons, List.cons_append]
    rw [strBody_plain q _ _ hd.1 hd.2, strBody_plains q ds s (fun y hy => h y (by simp [hy]))]
    cases strBody q s <;> simp

theorem strBody_chunk (q : Char) (hq : q = '\'' ∨ q = '"') (ch : List Nat) (s : Str) (h : ChunkShape q.toNat ch) :
    strBody q (ch.map Char.ofNat ++ s) = (strBody q s).map (fun br => (ch.map Char.ofNat ++ br.1, br.2)) := by
  have hq0 : q ≠ '\x00' := by rcases hq with rfl | rfl <;> decide
  have hqn : q.toNat = 39 ∨ q.toNat = 34 := by rcases hq with rfl | rfl <;> simp
  rcases h with ⟨c, rfl, h92, hcq, _⟩ | ⟨x, ds, rfl, _, _, hds⟩
  · simp only [List.map_cons, List.map_nil, List.cons_append, List.nil_append]
    rw [strBody_plain q _ _ (ofNat_ne c '\\' (by decide) (by simpa using h92)) (ofNat_ne c q hq0 hcq)]
  · have hpl : ∀ y ∈ ds, Char.ofNat y ≠ '\\' ∧ Char.ofNat y ≠ q := by
      intro y hy
      have := hds y hy
      refine ⟨ofNat_ne y '\\' (by decide) (by simpa using this.2.1), ofNat_ne y q hq0 (by omega)⟩
    have e92 : Char.ofNat 92 = '\\' := rfl
    simp only [List.map_cons, List.cons_append, e92]
    rw [strBody_esc, strBody_plains q ds s hpl]
    cases strBody q s <;> simp

theorem strBody_spelled (q : Char) (hq : q = '\'' ∨ q = '"') (rest : Str) :
    ∀ (sts : List Style) (v : List Nat), stylesOk q.toNat sts v = true →
    strBody q ((spellBody sts v).map Char.ofNat ++ q :: rest) = some ((spellBody sts v).map Char.ofNat ++ [q], rest)
  | [], [], _ => by
    simp only [spellBody, List.map_nil, List.nil_append]
    exact strBody_quote q rest (by rcases hq with rfl | rfl <;> decide)
  | [], _ :: _, h => by simp [stylesOk] at h
  | _ :: _, [], h => by simp [stylesOk] at h
  | st :: sts, c :: v, h => by
    simp only [stylesOk, Bool.and_eq_true] at h
    simp only [spellBody, List.map_append, List.append_assoc]
    rw [strBody_chunk q hq _ _ (spell1_shape q.toNat c st h.1), strBody_spelled q hq rest sts v h.2]
    simp

/-- every raw-styled code point is a Unicode scalar value (so that it can occur in `List Char` source text) -/
def rawScalar : List Style → List Nat → Bool
  | st :: sts, c :: v => (st != .raw || (c < 0xd800 || (0xdfff < c && c < 0x110000))) && rawScalar sts v
  | _, _ => true

theorem chunk_valid {q c : Nat} {st : Style} (h : st.ok q c = true)
    (hr : (st != .raw || (c < 0xd800 || (0xdfff < c && c < 0x110000))) = true) :
    ∀ y ∈ spell1 c st, y.isValidChar := by
  rcases spell1_shape q c st h with ⟨c', hc', _, _, _⟩ | ⟨x, ds, hch, _, hx, hds⟩
  · cases st with
    | raw =>
      simp only [spell1, List.cons.injEq, and_true] at hc'
      subst hc'
      intro y hy
      simp only [spell1, List.mem_cons, List.not_mem_nil, or_false] at hy
      subst hy
      simp only [bne_self_eq_false, Bool.false_or, Bool.or_eq_true, Bool.and_eq_true, decide_eq_true_eq] at hr
      simp only [Nat.isValidChar]
      omega
    | simple => simp only [Style.ok, Option.isSome_iff_exists] at h; obtain ⟨l, hl⟩ := h; simp [spell1, hl] at hc'
    | hex2 => simp [spell1] at hc'
    | oct3 => simp [spell1, octN] at hc'
    | u4 => simp [spell1] at hc'
    | u8 => simp [spell1] at hc'
  · intro y hy
    rw [hch] at hy
    simp only [List.mem_cons] at hy
    simp only [Nat.isValidChar]
    rcases hy with rfl | rfl | hy
    · omega
    · omega
    · have := (hds y hy).2.2; omega

theorem spelled_valid (q : Nat) : ∀ (sts : List Style) (v : List Nat), stylesOk q sts v = true →
    rawScalar sts v = true → ∀ y ∈ spellBody sts v, y.isValidChar
  | [], [], _, _ => by simp [spellBody]
  | [], _ :: _, h, _ => by simp [stylesOk] at h
  | _ :: _, [], h, _ => by simp [stylesOk] at h
  | st :: sts, c :: v, h, hr => by
    simp only [stylesOk, Bool.and_eq_true] at h
    simp only [rawScalar, Bool.and_eq_true] at hr
    intro y hy
    simp only [spellBody, List.mem_append] at hy
    rcases hy with hy | hy
    · exact chunk_valid h.1 hr.1 y hy
    · exact spelled_valid q sts v h.2 hr.2 y hy

theorem map_toNat_ofNat : ∀ (s : List Nat), (∀ y ∈ s, y.isValidChar) → (s.map Char.ofNat).map Char.toNat = s
  | [], _ => rfl
  | c :: r, h => by
    simp only [List.map_cons]
    rw [toNat_ofNat_valid c (h c (by simp)), map_toNat_ofNat r (fun y hy => h y (by simp [hy]))]

end JinjaV.Literal
