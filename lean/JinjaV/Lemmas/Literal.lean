/-
  Helper lemmas for Props/C14.lean: the unicode-escape decoder on spelled chunks, the string scanner on
  escape-closed text, the number scanners against the reference grammar.
-/
import JinjaV.Model.Literal
import JinjaV.Lemmas.PyLiteral
namespace JinjaV.Literal
open JinjaV.Lex

-- the decoder --------------------------------------------------------------------------------------------

/-- output of a decoding step put in front of the rest's result -/
def prepend (out : List Nat) : Except DErr (List Nat) → Except DErr (List Nat)
  | .ok v => .ok (out ++ v)
  | .error e => .error e

theorem prepend_nil (r : Except DErr (List Nat)) : prepend [] r = r := by
  cases r <;> simp [prepend]

theorem prepend_prepend (a b : List Nat) (r : Except DErr (List Nat)) :
    prepend a (prepend b r) = prepend (a ++ b) r := by
  cases r <;> simp [prepend]

theorem decodeFrom_cons_ok {st st' : DState} {c : Nat} {out : List Nat} (r : List Nat)
    (h : step st c = .ok (out, st')) : decodeFrom st (c :: r) = prepend out (decodeFrom st' r) := by
  simp only [decodeFrom, h]
  cases decodeFrom st' r <;> simp [prepend]

theorem hexVal_hexDigit : ∀ d, d < 16 → hexValCP (hexDigitCP d) = some d := by decide

theorem hexDigit_ascii : ∀ d, d < 16 → hexDigitCP d < 128 := by decide

theorem hexN_ascii : ∀ (w n : Nat), n < 16 ^ w → ∀ x ∈ hexN w n, x < 128
  | 0, _, _, x, hx => by simp [hexN] at hx
  | w + 1, n, hn, x, hx => by
    simp only [hexN, List.mem_cons] at hx
    have hd : n / 16 ^ w < 16 := by
      apply Nat.div_lt_of_lt_mul
      rw [Nat.pow_succ] at hn
      exact hn
    rcases hx with hx | hx
    · rw [hx]; exact hexDigit_ascii _ hd
    · exact hexN_ascii w (n % 16 ^ w) (Nat.mod_lt _ (Nat.pow_pos (by decide))) x hx

/-- `w ≥ 1` hex digits of `n` read in state `hex w acc` give `acc * 16 ^ w + n` -/
theorem decode_hex : ∀ (w acc n : Nat) (rest : List Nat), n < 16 ^ (w + 1) → acc * 16 ^ (w + 1) + n ≤ 0x10ffff →
    decodeFrom (.hex (w + 1) acc) (hexN (w + 1) n ++ rest) = prepend [acc * 16 ^ (w + 1) + n] (decodeFrom .plain rest)
  | 0, acc, n, rest, hn, hb => by
    have hn' : n < 16 := by simpa using hn
    have : hexN 1 n = [hexDigitCP n] := by simp [hexN]
    rw [this]
    have hs : step (.hex 1 acc) (hexDigitCP n) = .ok ([acc * 16 + n], .plain) := by
      simp only [step, hexVal_hexDigit n hn']
      have : ¬ (acc * 16 + n > 0x10ffff) := by omega
      simp [this]
    rw [List.singleton_append, decodeFrom_cons_ok rest hs]
  | w + 1, acc, n, rest, hn, hb => by
    have hd : n / 16 ^ (w + 1) < 16 := by
      apply Nat.div_lt_of_lt_mul
      rw [Nat.pow_succ] at hn
      exact hn
    have hm : n % 16 ^ (w + 1) < 16 ^ (w + 1) := Nat.mod_lt _ (Nat.pow_pos (by decide))
    have hsplit : 16 ^ (w + 1) * (n / 16 ^ (w + 1)) + n % 16 ^ (w + 1) = n := Nat.div_add_mod n (16 ^ (w + 1))
    have hval : (acc * 16 + n / 16 ^ (w + 1)) * 16 ^ (w + 1) + n % 16 ^ (w + 1) = acc * 16 ^ (w + 1 + 1) + n := by
      rw [Nat.add_mul, Nat.pow_succ 16 (w + 1), Nat.mul_assoc acc, Nat.mul_comm 16 (16 ^ (w + 1)),
        Nat.mul_comm (n / 16 ^ (w + 1))]
      omega
    have hs : step (.hex (w + 1 + 1) acc) (hexDigitCP (n / 16 ^ (w + 1))) =
        .ok ([], .hex (w + 1) (acc * 16 + n / 16 ^ (w + 1))) := by
      simp only [step, hexVal_hexDigit _ hd]
      have : ¬ (w + 1 + 1 ≤ 1) := by omega
      simp [this]
    have : hexN (w + 1 + 1) n = hexDigitCP (n / 16 ^ (w + 1)) :: hexN (w + 1) (n % 16 ^ (w + 1)) := by
      simp [hexN]
    rw [this, List.cons_append, decodeFrom_cons_ok _ hs, prepend_nil,
      decode_hex w (acc * 16 + n / 16 ^ (w + 1)) (n % 16 ^ (w + 1)) rest hm (by rw [hval]; exact hb), hval]


theorem encodeAscii_append (a b : List Nat) : encodeAscii (a ++ b) = encodeAscii a ++ encodeAscii b := by
  simp [encodeAscii, List.flatMap_append]

theorem encodeAscii_cons (c : Nat) (r : List Nat) : encodeAscii (c :: r) = enc1 c ++ encodeAscii r := by
  simp [encodeAscii, List.flatMap_cons]

theorem encodeAscii_ascii : ∀ (s : List Nat), (∀ x ∈ s, x < 128) → encodeAscii s = s
  | [], _ => rfl
  | c :: r, h => by
    have hc : c < 128 := h c (by simp)
    rw [encodeAscii_cons, encodeAscii_ascii r (fun x hx => h x (by simp [hx]))]
    simp [enc1, hc]

theorem decode_x (c : Nat) (rest : List Nat) (h : c < 256) :
    decodeFrom .plain (92 :: 120 :: hexN 2 c ++ rest) = prepend [c] (decodeFrom .plain rest) := by
  have h1 : step .plain 92 = .ok ([], .esc) := rfl
  have h2 : step .esc 120 = .ok ([], .hex 2 0) := rfl
  rw [List.cons_append, List.cons_append, decodeFrom_cons_ok _ h1, decodeFrom_cons_ok _ h2, prepend_nil, prepend_nil,
    decode_hex 1 0 c rest (by simpa using h) (by omega)]
  simp

theorem decode_u (c : Nat) (rest : List Nat) (h : c < 65536) :
    decodeFrom .plain (92 :: 117 :: hexN 4 c ++ rest) = prepend [c] (decodeFrom .plain rest) := by
  have h1 : step .plain 92 = .ok ([], .esc) := rfl
  have h2 : step .esc 117 = .ok ([], .hex 4 0) := rfl
  rw [List.cons_append, List.cons_append, decodeFrom_cons_ok _ h1, decodeFrom_cons_ok _ h2, prepend_nil, prepend_nil,
    decode_hex 3 0 c rest (by simpa using h) (by omega)]
  simp

theorem decode_U (c : Nat) (rest : List Nat) (h : c < 0x110000) :
    decodeFrom .plain (92 :: 85 :: hexN 8 c ++ rest) = prepend [c] (decodeFrom .plain rest) := by
  have h1 : step .plain 92 = .ok ([], .esc) := rfl
  have h2 : step .esc 85 = .ok ([], .hex 8 0) := rfl
  rw [List.cons_append, List.cons_append, decodeFrom_cons_ok _ h1, decodeFrom_cons_ok _ h2, prepend_nil, prepend_nil,
    decode_hex 7 0 c rest (by omega) (by omega)]
  simp

theorem stepEsc_oct (a : Nat) (h : a < 8) : stepEsc (48 + a) = .ok ([], .oct 2 a) := by
  have : a = 0 ∨ a = 1 ∨ a = 2 ∨ a = 3 ∨ a = 4 ∨ a = 5 ∨ a = 6 ∨ a = 7 := by omega
  rcases this with rfl | rfl | rfl | rfl | rfl | rfl | rfl | rfl <;> rfl

theorem isOct_digit (a : Nat) (h : a < 8) : isOctCP (48 + a) = true := by
  have : a = 0 ∨ a = 1 ∨ a = 2 ∨ a = 3 ∨ a = 4 ∨ a = 5 ∨ a = 6 ∨ a = 7 := by omega
  rcases this with rfl | rfl | rfl | rfl | rfl | rfl | rfl | rfl <;> rfl

theorem decode_oct (c : Nat) (rest : List Nat) (h : c < 512) :
    decodeFrom .plain (92 :: octN c ++ rest) = prepend [c] (decodeFrom .plain rest) := by
  have h1 : step .plain 92 = .ok ([], .esc) := rfl
  have ha : c / 64 % 8 < 8 := Nat.mod_lt _ (by decide)
  have hb : c / 8 % 8 < 8 := Nat.mod_lt _ (by decide)
  have hc : c % 8 < 8 := Nat.mod_lt _ (by decide)
  have h2 : step .esc (48 + c / 64 % 8) = .ok ([], .oct 2 (c / 64 % 8)) := stepEsc_oct _ ha
  have h3 : step (.oct 2 (c / 64 % 8)) (48 + c / 8 % 8) = .ok ([], .oct 1 (c / 64 % 8 * 8 + c / 8 % 8)) := by
    have hsub : 48 + c / 8 % 8 - 48 = c / 8 % 8 := by omega
    simp only [step, isOct_digit _ hb, hsub]
    simp
  have hv : (c / 64 % 8 * 8 + c / 8 % 8) * 8 + c % 8 = c := by omega
  have h4 : step (.oct 1 (c / 64 % 8 * 8 + c / 8 % 8)) (48 + c % 8) = .ok ([c], .plain) := by
    have hsub : 48 + c % 8 - 48 = c % 8 := by omega
    simp only [step, isOct_digit _ hc, hsub, hv]
    simp
  simp only [octN, List.cons_append, List.nil_append]
  rw [decodeFrom_cons_ok _ h1, decodeFrom_cons_ok _ h2, decodeFrom_cons_ok _ h3, decodeFrom_cons_ok _ h4]
  simp [prepend_nil]


theorem simple_cases (c l : Nat) (h : simpleLetter? c = some l) :
    (c = 92 ∧ l = 92) ∨ (c = 39 ∧ l = 39) ∨ (c = 34 ∧ l = 34) ∨ (c = 7 ∧ l = 97) ∨ (c = 8 ∧ l = 98) ∨
    (c = 12 ∧ l = 102) ∨ (c = 10 ∧ l = 110) ∨ (c = 13 ∧ l = 114) ∨ (c = 9 ∧ l = 116) ∨ (c = 11 ∧ l = 118) := by
  unfold simpleLetter? at h
  repeat' split at h
  all_goals simp_all

theorem decode_simple (c l : Nat) (rest : List Nat) (h : simpleLetter? c = some l) :
    decodeFrom .plain (92 :: l :: rest) = prepend [c] (decodeFrom .plain rest) := by
  have h1 : step .plain 92 = .ok ([], .esc) := rfl
  have h2 : step .esc l = .ok ([c], .plain) := by
    rcases simple_cases c l h with ⟨rfl, rfl⟩ | ⟨rfl, rfl⟩ | ⟨rfl, rfl⟩ | ⟨rfl, rfl⟩ | ⟨rfl, rfl⟩ | ⟨rfl, rfl⟩ |
      ⟨rfl, rfl⟩ | ⟨rfl, rfl⟩ | ⟨rfl, rfl⟩ | ⟨rfl, rfl⟩ <;> rfl
  rw [decodeFrom_cons_ok _ h1, decodeFrom_cons_ok _ h2, prepend_nil]

theorem simple_letter_ascii (c l : Nat) (h : simpleLetter? c = some l) : l < 128 := by
  rcases simple_cases c l h with ⟨_, rfl⟩ | ⟨_, rfl⟩ | ⟨_, rfl⟩ | ⟨_, rfl⟩ | ⟨_, rfl⟩ | ⟨_, rfl⟩ |
      ⟨_, rfl⟩ | ⟨_, rfl⟩ | ⟨_, rfl⟩ | ⟨_, rfl⟩ <;> decide

/-- every chunk a style writes for `c` decodes (after `backslashreplace`) to exactly `c` -/
theorem decode_chunk (q c : Nat) (st : Style) (rest : List Nat) (h : st.ok q c = true) :
    decodeFrom .plain (encodeAscii (spell1 c st) ++ rest) = prepend [c] (decodeFrom .plain rest) := by
  cases st with
  | raw =>
    simp only [Style.ok, Bool.and_eq_true, bne_iff_ne, ne_eq, decide_eq_true_eq] at h
    obtain ⟨⟨⟨h92, _⟩, _⟩, hlt⟩ := h
    have e : encodeAscii (spell1 c .raw) = enc1 c := by simp [spell1, encodeAscii]
    rw [e]
    by_cases h1 : c < 128
    · have hs : step .plain c = .ok ([c], .plain) := by simp [step, stepPlain, h92]
      have e1 : enc1 c = [c] := by simp [enc1, h1]
      rw [e1, List.singleton_append, decodeFrom_cons_ok _ hs]
    · by_cases h2 : c < 256
      · have e1 : enc1 c = 92 :: 120 :: hexN 2 c := by simp [enc1, h1, h2]
        rw [e1]; exact decode_x c rest h2
      · by_cases h3 : c < 65536
        · have e1 : enc1 c = 92 :: 117 :: hexN 4 c := by simp [enc1, h1, h2, h3]
          rw [e1]; exact decode_u c rest h3
        · have e1 : enc1 c = 92 :: 85 :: hexN 8 c := by simp [enc1, h1, h2, h3]
          rw [e1]; exact decode_U c rest hlt
  | simple =>
    simp only [Style.ok, Option.isSome_iff_exists] at h
    obtain ⟨l, hl⟩ := h
    have hasc : ∀ x ∈ [92, l], x < 128 := by
      intro x hx
      simp only [List.mem_cons, List.not_mem_nil, or_false] at hx
      rcases hx with rfl | rfl
      · decide
      · exact simple_letter_ascii c _ hl
    simp only [spell1, hl]
    rw [encodeAscii_ascii _ hasc]
    exact decode_simple c l rest hl
  | hex2 =>
    simp only [Style.ok, decide_eq_true_eq] at h
    have hasc : ∀ x ∈ 92 :: 120 :: hexN 2 c, x < 128 := by
      intro x hx
      simp only [List.mem_cons] at hx
      rcases hx with rfl | rfl | hx
      · decide
      · decide
      · exact hexN_ascii 2 c (by simpa using h) x hx
    simp only [spell1]
    rw [encodeAscii_ascii _ hasc]
    exact decode_x c rest h
  | oct3 =>
    simp only [Style.ok, decide_eq_true_eq] at h
    have hasc : ∀ x ∈ 92 :: octN c, x < 128 := by
      intro x hx
      simp only [octN, List.mem_cons, List.not_mem_nil, or_false] at hx
      rcases hx with rfl | rfl | rfl | rfl <;> omega
    simp only [spell1]
    rw [encodeAscii_ascii _ hasc]
    exact decode_oct c rest h
  | u4 =>
    simp only [Style.ok, decide_eq_true_eq] at h
    have hasc : ∀ x ∈ 92 :: 117 :: hexN 4 c, x < 128 := by
      intro x hx
      simp only [List.mem_cons] at hx
      rcases hx with rfl | rfl | hx
      · decide
      · decide
      · exact hexN_ascii 4 c (by simpa using h) x hx
    simp only [spell1]
    rw [encodeAscii_ascii _ hasc]
    exact decode_u c rest h
  | u8 =>
    simp only [Style.ok, decide_eq_true_eq] at h
    have hasc : ∀ x ∈ 92 :: 85 :: hexN 8 c, x < 128 := by
      intro x hx
      simp only [List.mem_cons] at hx
      rcases hx with rfl | rfl | hx
      · decide
      · decide
      · exact hexN_ascii 8 c (by omega) x hx
    simp only [spell1]
    rw [encodeAscii_ascii _ hasc]
    exact decode_U c rest h

theorem decode_spelled (q : Nat) : ∀ (sts : List Style) (v : List Nat), stylesOk q sts v = true →
    decodeEscapes (encodeAscii (spellBody sts v)) = .ok v
  | [], [], _ => rfl
  | [], _ :: _, h => by simp [stylesOk] at h
  | _ :: _, [], h => by simp [stylesOk] at h
  | st :: sts, c :: v, h => by
    simp only [stylesOk, Bool.and_eq_true] at h
    have ih := decode_spelled q sts v h.2
    simp only [decodeEscapes] at ih ⊢
    simp only [spellBody, encodeAscii_append]
    rw [decode_chunk q c st _ h.1, ih]
    rfl


-- line-break normalisation leaves a spelled body alone -----------------------------------------------------

theorem normNl_noCR : ∀ (s : List Nat), (∀ x ∈ s, x ≠ 13) → normNl s = s
  | [], _ => rfl
  | c :: r, h => by
    have hc : c ≠ 13 := h c (by simp)
    have ih := normNl_noCR r (fun x hx => h x (by simp [hx]))
    unfold normNl
    split
    · simp_all
    · simp_all
    · simp_all
    · rename_i heq; cases heq; simp [ih]

theorem hexDigit_plain (d : Nat) : 48 ≤ hexDigitCP d ∧ hexDigitCP d ≠ 92 := by
  unfold hexDigitCP; split <;> omega

theorem hexN_plain : ∀ (w n : Nat), ∀ x ∈ hexN w n, 48 ≤ x ∧ x ≠ 92
  | 0, _, x, hx => by simp [hexN] at hx
  | w + 1, n, x, hx => by
    simp only [hexN, List.mem_cons] at hx
    rcases hx with rfl | hx
    · exact hexDigit_plain _
    · exact hexN_plain w _ x hx

/-- a chunk is one plain character, or a backslash, one ASCII character and ASCII characters that are neither a
    backslash nor a quote -/
def ChunkShape (q : Nat) (ch : List Nat) : Prop :=
  (∃ c, ch = [c] ∧ c ≠ 92 ∧ c ≠ q ∧ c ≠ 13) ∨
  (∃ x ds, ch = 92 :: x :: ds ∧ x ≠ 13 ∧ x < 128 ∧ ∀ y ∈ ds, 48 ≤ y ∧ y ≠ 92 ∧ y < 128)

theorem spell1_shape (q c : Nat) (st : Style) (h : st.ok q c = true) : ChunkShape q (spell1 c st) := by
  cases st with
  | raw =>
    simp only [Style.ok, Bool.and_eq_true, bne_iff_ne, ne_eq, decide_eq_true_eq] at h
    exact Or.inl ⟨c, rfl, h.1.1.1, h.1.1.2, h.1.2⟩
  | simple =>
    simp only [Style.ok, Option.isSome_iff_exists] at h
    obtain ⟨l, hl⟩ := h
    refine Or.inr ⟨l, [], by simp [spell1, hl], ?_, simple_letter_ascii c l hl, by simp⟩
    rcases simple_cases c l hl with ⟨_, rfl⟩ | ⟨_, rfl⟩ | ⟨_, rfl⟩ | ⟨_, rfl⟩ | ⟨_, rfl⟩ | ⟨_, rfl⟩ |
      ⟨_, rfl⟩ | ⟨_, rfl⟩ | ⟨_, rfl⟩ | ⟨_, rfl⟩ <;> decide
  | hex2 =>
    simp only [Style.ok, decide_eq_true_eq] at h
    exact Or.inr ⟨120, hexN 2 c, rfl, by decide, by decide, fun y hy =>
      ⟨(hexN_plain 2 c y hy).1, (hexN_plain 2 c y hy).2, hexN_ascii 2 c (by simpa using h) y hy⟩⟩
  | oct3 =>
    simp only [Style.ok, decide_eq_true_eq] at h
    refine Or.inr ⟨48 + c / 64 % 8, [48 + c / 8 % 8, 48 + c % 8], rfl, by omega, by omega, ?_⟩
    intro y hy
    simp only [List.mem_cons, List.not_mem_nil, or_false] at hy
    rcases hy with rfl | rfl <;> omega
  | u4 =>
    simp only [Style.ok, decide_eq_true_eq] at h
    exact Or.inr ⟨117, hexN 4 c, rfl, by decide, by decide, fun y hy =>
      ⟨(hexN_plain 4 c y hy).1, (hexN_plain 4 c y hy).2, hexN_ascii 4 c (by simpa using h) y hy⟩⟩
  | u8 =>
    simp only [Style.ok, decide_eq_true_eq] at h
    exact Or.inr ⟨85, hexN 8 c, rfl, by decide, by decide, fun y hy =>
      ⟨(hexN_plain 8 c y hy).1, (hexN_plain 8 c y hy).2, hexN_ascii 8 c (by omega) y hy⟩⟩

theorem chunk_noCR {q : Nat} {ch : List Nat} (h : ChunkShape q ch) : ∀ x ∈ ch, x ≠ 13 := by
  rcases h with ⟨c, rfl, _, _, h13⟩ | ⟨x, ds, rfl, hx, _, hds⟩
  · intro y hy; simp only [List.mem_cons, List.not_mem_nil, or_false] at hy; rw [hy]; exact h13
  · intro y hy
    simp only [List.mem_cons] at hy
    rcases hy with rfl | rfl | hy
    · decide
    · exact hx
    · have := (hds y hy).1; omega

theorem spelled_noCR (q : Nat) : ∀ (sts : List Style) (v : List Nat), stylesOk q sts v = true →
    ∀ x ∈ spellBody sts v, x ≠ 13
  | [], [], _ => by simp [spellBody]
  | [], _ :: _, h => by simp [stylesOk] at h
  | _ :: _, [], h => by simp [stylesOk] at h
  | st :: sts, c :: v, h => by
    simp only [stylesOk, Bool.and_eq_true] at h
    intro x hx
    simp only [spellBody, List.mem_append] at hx
    rcases hx with hx | hx
    · exact chunk_noCR (spell1_shape q c st h.1) x hx
    · exact spelled_noCR q sts v h.2 x hx

/-- the value level of the string round trip -/
theorem unescape_spelled (q : Nat) (sts : List Style) (v : List Nat) (h : stylesOk q sts v = true) :
    unescapeBody (spellBody sts v) = .ok v := by
  unfold unescapeBody
  rw [normNl_noCR _ (spelled_noCR q sts v h)]
  exact decode_spelled q sts v h

-- the string scanner on spelled text -----------------------------------------------------------------------

theorem toNat_ofNat_valid (n : Nat) (h : n.isValidChar) : (Char.ofNat n).toNat = n := by
  simp [Char.ofNat, h, Char.ofNatAux, Char.toNat]

theorem ofNat_invalid (n : Nat) (h : ¬ n.isValidChar) : Char.ofNat n = '\x00' := by
  simp [Char.ofNat, h]
  rfl

theorem ofNat_ne (n : Nat) (k : Char) (hk : k ≠ '\x00') (h : n ≠ k.toNat) : Char.ofNat n ≠ k := by
  by_cases hv : n.isValidChar
  · intro e; apply h; rw [← e, toNat_ofNat_valid n hv]
  · rw [ofNat_invalid n hv]; exact fun e => hk e.symm

theorem strBody_plain (q c : Char) (s : Str) (h1 : c ≠ '\\') (h2 : c ≠ q) :
    strBody q (c :: s) = (strBody q s).map (fun br => (c :: br.1, br.2)) := by
  conv => lhs; unfold strBody
  split
  · rename_i heq; cases heq
  · rename_i heq; cases heq; exact absurd rfl h1
  · rename_i heq; cases heq; exact absurd rfl h1
  · rename_i c' r _ _ heq
    cases heq
    have : (c == q) = false := by simp [h2]
    simp only [this]
    cases strBody q s <;> simp

theorem strBody_esc (q c : Char) (s : Str) :
    strBody q ('\\' :: c :: s) = (strBody q s).map (fun br => ('\\' :: c :: br.1, br.2)) := by
  conv => lhs; unfold strBody
  cases h : strBody q s <;> simp [h]

theorem strBody_quote (q : Char) (rest : Str) (h : q ≠ '\\') : strBody q (q :: rest) = some ([q], rest) := by
  conv => lhs; unfold strBody
  split
  · rename_i heq; cases heq
  · rename_i heq; cases heq; exact absurd rfl h
  · rename_i heq; cases heq; exact absurd rfl h
  · rename_i c' r _ _ heq
    cases heq
    simp

theorem strBody_plains (q : Char) : ∀ (ds : List Nat) (s : Str),
    (∀ y ∈ ds, Char.ofNat y ≠ '\\' ∧ Char.ofNat y ≠ q) →
    strBody q (ds.map Char.ofNat ++ s) = (strBody q s).map (fun br => (ds.map Char.ofNat ++ br.1, br.2))
  | [], s, _ => by cases h : strBody q s <;> simp [h]
  | d :: ds, s, h => by
    have hd := h d (by simp)
    simp only [List.map_cons, List.cons_append]
    rw [strBody_plain q _ _ hd.1 hd.2, strBody_plains q ds s (fun y hy => h y (by simp [hy]))]
    cases strBody q s <;> simp

theorem strBody_chunk (q : Char) (hq : q = '\'' ∨ q = '"') (ch : List Nat) (s : Str) (h : ChunkShape q.toNat ch) :
    strBody q (ch.map Char.ofNat ++ s) = (strBody q s).map (fun br => (ch.map Char.ofNat ++ br.1, br.2)) := by
  have hq0 : q ≠ '\x00' := by rcases hq with rfl | rfl <;> decide
  have hqn : q.toNat = 39 ∨ q.toNat = 34 := by rcases hq with rfl | rfl <;> simp
  rcases h with ⟨c, rfl, h92, hcq, _⟩ | ⟨x, ds, rfl, _, _, hds⟩
  · simp only [List.map_cons, List.map_nil, List.cons_append, List.nil_append]
    rw [strBody_plain q _ _ (ofNat_ne c '\\' (by decide) (by simpa using h92)) (ofNat_ne c q hq0 hcq)]
  · have hpl : ∀ y ∈ ds, Char.ofNat y ≠ '\\' ∧ Char.ofNat y ≠ q := by
      intro y hy
      have := hds y hy
      refine ⟨ofNat_ne y '\\' (by decide) (by simpa using this.2.1), ofNat_ne y q hq0 (by omega)⟩
    have e92 : Char.ofNat 92 = '\\' := rfl
    simp only [List.map_cons, List.cons_append, e92]
    rw [strBody_esc, strBody_plains q ds s hpl]
    cases strBody q s <;> simp

theorem strBody_spelled (q : Char) (hq : q = '\'' ∨ q = '"') (rest : Str) :
    ∀ (sts : List Style) (v : List Nat), stylesOk q.toNat sts v = true →
    strBody q ((spellBody sts v).map Char.ofNat ++ q :: rest) = some ((spellBody sts v).map Char.ofNat ++ [q], rest)
  | [], [], _ => by
    simp only [spellBody, List.map_nil, List.nil_append]
    exact strBody_quote q rest (by rcases hq with rfl | rfl <;> decide)
  | [], _ :: _, h => by simp [stylesOk] at h
  | _ :: _, [], h => by simp [stylesOk] at h
  | st :: sts, c :: v, h => by
    simp only [stylesOk, Bool.and_eq_true] at h
    simp only [spellBody, List.map_append, List.append_assoc]
    rw [strBody_chunk q hq _ _ (spell1_shape q.toNat c st h.1), strBody_spelled q hq rest sts v h.2]
    simp

/-- every raw-styled code point is a Unicode scalar value (so that it can occur in `List Char` source text) -/
def rawScalar : List Style → List Nat → Bool
  | st :: sts, c :: v => (st != .raw || (c < 0xd800 || (0xdfff < c && c < 0x110000))) && rawScalar sts v
  | _, _ => true

theorem chunk_valid {q c : Nat} {st : Style} (h : st.ok q c = true)
    (hr : (st != .raw || (c < 0xd800 || (0xdfff < c && c < 0x110000))) = true) :
    ∀ y ∈ spell1 c st, y.isValidChar := by
  rcases spell1_shape q c st h with ⟨c', hc', _, _, _⟩ | ⟨x, ds, hch, _, hx, hds⟩
  · cases st with
    | raw =>
      simp only [spell1, List.cons.injEq, and_true] at hc'
      subst hc'
      intro y hy
      simp only [spell1, List.mem_cons, List.not_mem_nil, or_false] at hy
      subst hy
      simp only [bne_self_eq_false, Bool.false_or, Bool.or_eq_true, Bool.and_eq_true, decide_eq_true_eq] at hr
      simp only [Nat.isValidChar]
      omega
    | simple => simp only [Style.ok, Option.isSome_iff_exists] at h; obtain ⟨l, hl⟩ := h; simp [spell1, hl] at hc'
    | hex2 => simp [spell1] at hc'
    | oct3 => simp [spell1, octN] at hc'
    | u4 => simp [spell1] at hc'
    | u8 => simp [spell1] at hc'
  · intro y hy
    rw [hch] at hy
    simp only [List.mem_cons] at hy
    simp only [Nat.isValidChar]
    rcases hy with rfl | rfl | hy
    · omega
    · omega
    · have := (hds y hy).2.2; omega

theorem spelled_valid (q : Nat) : ∀ (sts : List Style) (v : List Nat), stylesOk q sts v = true →
    rawScalar sts v = true → ∀ y ∈ spellBody sts v, y.isValidChar
  | [], [], _, _ => by simp [spellBody]
  | [], _ :: _, h, _ => by simp [stylesOk] at h
  | _ :: _, [], h, _ => by simp [stylesOk] at h
  | st :: sts, c :: v, h, hr => by
    simp only [stylesOk, Bool.and_eq_true] at h
    simp only [rawScalar, Bool.and_eq_true] at hr
    intro y hy
    simp only [spellBody, List.mem_append] at hy
    rcases hy with hy | hy
    · exact chunk_valid h.1 hr.1 y hy
    · exact spelled_valid q sts v h.2 hr.2 y hy

theorem map_toNat_ofNat : ∀ (s : List Nat), (∀ y ∈ s, y.isValidChar) → (s.map Char.ofNat).map Char.toNat = s
  | [], _ => rfl
  | c :: r, h => by
    simp only [List.map_cons]
    rw [toNat_ofNat_valid c (h c (by simp)), map_toNat_ofNat r (fun y hy => h y (by simp [hy]))]


-- characters ----------------------------------------------------------------------------------------------------

section numbers
open JinjaV.Spec.PyLit (G Derives digitValue digitsValueFrom digitsValue integerValue isHexC isDigitC star_cons_split floatDecimal isExpMark countDigits expValue)

theorem cle (a b : Char) : a ≤ b ↔ a.toNat ≤ b.toNat := by
  simp only [Char.le_def, UInt32.le_iff_toNat_le]; exact Iff.rfl

theorem char_eq_of_toNat {a b : Char} (h : a.toNat = b.toNat) : a = b :=
  Char.ext (UInt32.toNat_inj.1 h)

theorem digitVal_facts (c : Char) :
    (48 ≤ c.toNat ∧ c.toNat ≤ 57 → digitVal? c = some (c.toNat - 48) ∧ digitValue c = c.toNat - 48) ∧
    (97 ≤ c.toNat ∧ c.toNat ≤ 102 → digitVal? c = some (c.toNat - 87) ∧ digitValue c = c.toNat - 87) ∧
    (65 ≤ c.toNat ∧ c.toNat ≤ 70 → digitVal? c = some (c.toNat - 55) ∧ digitValue c = c.toNat - 55) := by
  have e : '0'.toNat = 48 ∧ '9'.toNat = 57 ∧ 'a'.toNat = 97 ∧ 'f'.toNat = 102 ∧ 'z'.toNat = 122 ∧ 'A'.toNat = 65 ∧
      'F'.toNat = 70 ∧ 'Z'.toNat = 90 := ⟨rfl, rfl, rfl, rfl, rfl, rfl, rfl, rfl⟩
  simp only [digitVal?, digitValue, Bool.and_eq_true, decide_eq_true_eq, cle, e]
  refine ⟨fun h => ?_, fun h => ?_, fun h => ?_⟩
  · rw [if_pos h, if_neg (by omega), if_neg (by omega)]; exact ⟨rfl, rfl⟩
  · rw [if_neg (by omega), if_pos (by omega), if_pos h]; exact ⟨rfl, rfl⟩
  · rw [if_neg (by omega), if_neg (by omega), if_pos (by omega), if_neg (by omega), if_pos h]; exact ⟨rfl, rfl⟩

theorem isDigit_iff (c : Char) : isDigit c = true ↔ 48 ≤ c.toNat ∧ c.toNat ≤ 57 := by
  simp only [isDigit, Bool.and_eq_true, decide_eq_true_eq, cle]
  exact Iff.rfl

theorem lower_toNat (c : Char) : (lower c).toNat = if 65 ≤ c.toNat ∧ c.toNat ≤ 90 then c.toNat + 32 else c.toNat := by
  simp only [lower, Bool.and_eq_true, decide_eq_true_eq, cle]
  have e : 'A'.toNat = 65 ∧ 'Z'.toNat = 90 := ⟨rfl, rfl⟩
  simp only [e]
  split
  · apply toNat_ofNat_valid
    simp only [Nat.isValidChar]; omega
  · rfl

/-- a character the conversion may meet: an underscore, or a digit of base `b` on whose value `int()` and the
    reference agree -/
def Good (b : Nat) (x : Char) : Prop :=
  x = '_' ∨ (x ≠ '_' ∧ ∃ d, digitVal? x = some d ∧ d < b ∧ digitValue x = d)

theorem good_of_range (b : Nat) (c : Char) (lo hi off : Nat)
    (hr : lo ≤ c.toNat ∧ c.toNat ≤ hi) (hb : hi - off < b)
    (hcase : (lo = 48 ∧ hi ≤ 57 ∧ off = 48) ∨ (lo = 97 ∧ hi ≤ 102 ∧ off = 87) ∨ (lo = 65 ∧ hi ≤ 70 ∧ off = 55)) :
    Good b c := by
  have hne : c ≠ '_' := by
    intro e; rw [e] at hr
    have : '_'.toNat = 95 := rfl
    omega
  refine Or.inr ⟨hne, c.toNat - off, ?_, by omega, ?_⟩
  · rcases hcase with ⟨rfl, h, rfl⟩ | ⟨rfl, h, rfl⟩ | ⟨rfl, h, rfl⟩
    · exact ((digitVal_facts c).1 ⟨hr.1, by omega⟩).1
    · exact ((digitVal_facts c).2.1 ⟨hr.1, by omega⟩).1
    · exact ((digitVal_facts c).2.2 ⟨hr.1, by omega⟩).1
  · rcases hcase with ⟨rfl, h, rfl⟩ | ⟨rfl, h, rfl⟩ | ⟨rfl, h, rfl⟩
    · exact ((digitVal_facts c).1 ⟨hr.1, by omega⟩).2
    · exact ((digitVal_facts c).2.1 ⟨hr.1, by omega⟩).2
    · exact ((digitVal_facts c).2.2 ⟨hr.1, by omega⟩).2

theorem good_isDigit (c : Char) (h : isDigit c = true) : Good 10 c :=
  good_of_range 10 c 48 57 48 ((isDigit_iff c).1 h) (by decide) (Or.inl ⟨rfl, by decide, rfl⟩)

theorem good_isBin (c : Char) (h : isBin c = true) : Good 2 c := by
  simp only [isBin, Bool.or_eq_true, beq_iff_eq] at h
  rcases h with rfl | rfl
  · exact good_of_range 2 '0' 48 48 48 ⟨by decide, by decide⟩ (by decide) (Or.inl ⟨rfl, by decide, rfl⟩)
  · exact good_of_range 2 '1' 48 49 48 ⟨by decide, by decide⟩ (by decide) (Or.inl ⟨rfl, by decide, rfl⟩)

theorem good_isOct (c : Char) (h : isOct c = true) : Good 8 c := by
  simp only [isOct, Bool.and_eq_true, decide_eq_true_eq, cle] at h
  exact good_of_range 8 c 48 55 48 h (by decide) (Or.inl ⟨rfl, by decide, rfl⟩)

theorem isHex_cases (c : Char) (h : Lex.isHex c = true) :
    (48 ≤ c.toNat ∧ c.toNat ≤ 57) ∨ (97 ≤ c.toNat ∧ c.toNat ≤ 102) ∨ (65 ≤ c.toNat ∧ c.toNat ≤ 70) := by
  simp only [Lex.isHex, Bool.or_eq_true, Bool.and_eq_true, decide_eq_true_eq, cle, lower_toNat] at h
  rcases h with h | h
  · exact Or.inl ((isDigit_iff c).1 h)
  · have e : 'a'.toNat = 97 ∧ 'f'.toNat = 102 := ⟨rfl, rfl⟩
    rw [e.1, e.2] at h
    split at h <;> omega

theorem good_isHex (c : Char) (h : Lex.isHex c = true) : Good 16 c := by
  rcases isHex_cases c h with h | h | h
  · exact good_of_range 16 c 48 57 48 h (by decide) (Or.inl ⟨rfl, by decide, rfl⟩)
  · exact good_of_range 16 c 97 102 87 h (by decide) (Or.inr (Or.inl ⟨rfl, by decide, rfl⟩))
  · exact good_of_range 16 c 65 70 55 h (by decide) (Or.inr (Or.inr ⟨rfl, by decide, rfl⟩))

theorem isHexC_of_isHex (c : Char) (h : Lex.isHex c = true) : isHexC c = true := by
  have e : '0'.toNat = 48 ∧ '9'.toNat = 57 ∧ 'a'.toNat = 97 ∧ 'f'.toNat = 102 ∧ 'A'.toNat = 65 ∧ 'F'.toNat = 70 :=
    ⟨rfl, rfl, rfl, rfl, rfl, rfl⟩
  simp only [isHexC, isDigitC, Bool.or_eq_true, Bool.and_eq_true, decide_eq_true_eq, cle, e]
  rcases isHex_cases c h with h | h | h
  · exact Or.inl (Or.inl h)
  · exact Or.inl (Or.inr h)
  · exact Or.inr h

theorem digitsAcc_strip (b : Nat) : ∀ (ds : Str) (acc : Nat), (∀ x ∈ ds, Good b x) →
    digitsAcc b acc (stripUnderscores ds) = some (digitsValueFrom b acc ds)
  | [], _, _ => rfl
  | c :: r, acc, h => by
    have ih := fun acc' => digitsAcc_strip b r acc' (fun x hx => h x (by simp [hx]))
    rcases h c (by simp) with rfl | ⟨hne, d, hd, hlt, hv⟩
    · have : stripUnderscores ('_' :: r) = stripUnderscores r := by simp [stripUnderscores]
      rw [this, ih]; simp [digitsValueFrom]
    · have : stripUnderscores (c :: r) = c :: stripUnderscores r := by simp [stripUnderscores, hne]
      rw [this]
      simp only [digitsAcc, hd, hlt, if_true, ih]
      have hb : (c == '_') = false := by simp [hne]
      simp [digitsValueFrom, hb, hv]

-- `(_?[digits])+` against `(["_"] digit)*` ------------------------------------------------------------------------

def itemG (ok : Char → Bool) : G := .seq (G.opt (G.lit '_')) (.cls ok)

theorem item_plain {ok : Char → Bool} {c : Char} (h : ok c = true) : Derives (itemG ok) [c] :=
  Derives.seq (s := []) (t := [c]) (.altR .eps) (.cls h)

theorem item_under {ok : Char → Bool} {c : Char} (h : ok c = true) : Derives (itemG ok) ['_', c] :=
  Derives.seq (s := ['_']) (t := [c]) (.altL (.cls (by simp))) (.cls h)

theorem uDigits_derives (ok ok' : Char → Bool) (hok : ∀ c, ok c = true → ok' c = true) (s : Str) :
    Derives (.star (itemG ok')) (uDigits ok s).1 := by
  fun_induction uDigits ok s with
  | case1 c r h ih => exact Derives.starCons (s := ['_', c]) (item_under (hok c h)) ih
  | case2 c r h => exact .starNil
  | case3 c r _ h ih =>
    simp only [Bool.and_eq_true] at h
    exact Derives.starCons (s := [c]) (item_plain (hok c h.2)) ih
  | case4 c r _ h => exact .starNil
  | case5 => exact .starNil

theorem uDigits_chars (ok : Char → Bool) (s : Str) : ∀ x ∈ (uDigits ok s).1, x = '_' ∨ ok x = true := by
  fun_induction uDigits ok s with
  | case1 c r h ih =>
    intro x hx
    simp only [List.mem_cons] at hx
    rcases hx with rfl | rfl | hx
    · exact Or.inl rfl
    · exact Or.inr h
    · exact ih x hx
  | case2 c r h => intro x hx; simp at hx
  | case3 c r _ h ih =>
    simp only [Bool.and_eq_true] at h
    intro x hx
    simp only [List.mem_cons] at hx
    rcases hx with rfl | hx
    · exact Or.inr h.2
    · exact ih x hx
  | case4 c r _ h => intro x hx; simp at hx
  | case5 => intro x hx; simp at hx

theorem uDigits_has (ok : Char → Bool) (s : Str) (h : (uDigits ok s).1 ≠ []) : ∃ x ∈ (uDigits ok s).1, ok x = true := by
  fun_induction uDigits ok s with
  | case1 c r hc ih => exact ⟨c, by simp, hc⟩
  | case2 c r hc => exact absurd rfl h
  | case3 c r _ hc ih =>
    simp only [Bool.and_eq_true] at hc
    exact ⟨c, by simp, hc.2⟩
  | case4 c r _ hc => exact absurd rfl h
  | case5 => exact absurd rfl h

theorem star_plus {a : G} {s : Str} (h : Derives (.star a) s) (hne : s ≠ []) : Derives (G.plus a) s := by
  cases s with
  | nil => exact absurd rfl hne
  | cons c s =>
    obtain ⟨s1, s2, hs, h1, h2⟩ := star_cons_split h c s rfl
    rw [hs, ← List.cons_append]
    exact Derives.seq h1 h2

theorem matchPrefInt_shape (x : Char) (ok : Char → Bool) (s m r : Str) (h : matchPrefInt x ok s = some (m, r)) :
    ∃ p t, lower p = x ∧ m = '0' :: p :: (uDigits ok t).1 ∧ (uDigits ok t).1 ≠ [] := by
  unfold matchPrefInt at h
  split at h
  · rename_i z p t
    split at h
    · rename_i hz
      simp only [Bool.and_eq_true, beq_iff_eq] at hz
      split at h
      · cases h
      · rename_i hne
        simp only [Option.some.injEq, Prod.mk.injEq] at h
        refine ⟨p, t, hz.2, ?_, by simpa using hne⟩
        rw [← h.1, hz.1]
    · cases h
  · cases h

theorem lower_eq (p k : Char) (h : lower p = k) :
    p = k ∨ p.toNat + 32 = k.toNat := by
  have := lower_toNat p
  rw [h] at this
  split at this
  · exact Or.inr this.symm
  · exact Or.inl (char_eq_of_toNat this.symm)

theorem prefInt_value (p : Char) (base : Nat) (ds : Str)
    (hp : ((p = 'b' ∨ p = 'B') ∧ base = 2) ∨ ((p = 'o' ∨ p = 'O') ∧ base = 8) ∨ ((p = 'x' ∨ p = 'X') ∧ base = 16))
    (hg : ∀ x ∈ ds, Good base x) (hne : stripUnderscores ds ≠ []) :
    intValue ('0' :: p :: ds) = some (integerValue ('0' :: p :: ds)) := by
  have hv := digitsAcc_strip base ds 0 hg
  have hl : lower 'b' = 'b' ∧ lower 'B' = 'b' ∧ lower 'o' = 'o' ∧ lower 'O' = 'o' ∧ lower 'x' = 'x' ∧ lower 'X' = 'x' := by
    decide
  have hemp : (stripUnderscores ds).isEmpty = false := by
    cases h : stripUnderscores ds with
    | nil => exact absurd h hne
    | cons _ _ => rfl
  rcases hp with ⟨rfl | rfl, rfl⟩ | ⟨rfl | rfl, rfl⟩ | ⟨rfl | rfl, rfl⟩ <;>
  · simp [intValue, stripUnderscores, intBase0, hl] 
    simp [stripUnderscores] at hv hemp
    simp [hemp, hv, integerValue, digitsValue]

theorem intBase0_nonzero (c : Char) (r : Str) (h : c ≠ '0') : intBase0 (c :: r) = digitsAcc 10 0 (c :: r) := by
  unfold intBase0
  split
  · rename_i heq; cases heq
  · rename_i heq; cases heq; exact absurd rfl h
  · rename_i heq
    cases heq
    simp [h]

theorem integerValue_default (c : Char) (r : Str) (h : c ≠ '0' ∨ ∀ x ∈ r, x = '_' ∨ x = '0') :
    integerValue (c :: r) = digitsValue 10 (c :: r) := by
  unfold integerValue
  split
  all_goals first
    | rfl
    | (rename_i heq; cases heq
       rcases h with h | h
       · exact absurd rfl h
       · have := h _ List.mem_cons_self; exact absurd this (by decide))

theorem intBase0_zeros : ∀ (z : Str), (∀ x ∈ z, x = '0') → intBase0 ('0' :: z) = some 0
  | [], _ => rfl
  | p :: ds, h => by
    have hp : p = '0' := h p (by simp)
    subst hp
    have hall : (('0' :: ds).all (· == '0')) = true := by
      simp only [List.all_eq_true, beq_iff_eq]
      exact h
    have hl : (lower '0' == 'b') = false ∧ (lower '0' == 'o') = false ∧ (lower '0' == 'x') = false := by decide
    simp only [intBase0, hl, hall]
    simp

theorem zeros_value : ∀ (z : Str) , (∀ x ∈ z, x = '_' ∨ x = '0') → digitsValueFrom 10 0 z = 0
  | [], _ => rfl
  | c :: r, h => by
    have ih := zeros_value r (fun x hx => h x (by simp [hx]))
    rcases h c (by simp) with rfl | rfl
    · simpa [digitsValueFrom] using ih
    · have : digitValue '0' = 0 := by decide
      simpa [digitsValueFrom, this] using ih

theorem strip_cons_ne (c : Char) (r : Str) (h : c ≠ '_') : stripUnderscores (c :: r) = c :: stripUnderscores r := by
  simp [stripUnderscores, h]

theorem strip_has {s : Str} {x : Char} (hx : x ∈ s) (hne : x ≠ '_') : stripUnderscores s ≠ [] := by
  intro e
  have : x ∈ stripUnderscores s := by simp [stripUnderscores, hx, hne]
  rw [e] at this
  simp at this

/-- a prefixed integer: grammar and value -/
theorem prefInt_python (x X : Char) (base : Nat) (ok ok' : Char → Bool) (s m r : Str)
    (hxX : (x = 'b' ∧ X = 'B' ∧ base = 2) ∨ (x = 'o' ∧ X = 'O' ∧ base = 8) ∨ (x = 'x' ∧ X = 'X' ∧ base = 16))
    (hcls : ∀ c, ok c = true → ok' c = true) (hgood : ∀ c, ok c = true → Good base c)
    (hund : ok '_' = false)
    (h : matchPrefInt x ok s = some (m, r)) :
    Derives (.seq (G.lit '0') (.seq (.alt (G.lit x) (G.lit X)) (G.plus (itemG ok')))) m ∧
    intValue m = some (integerValue m) := by
  obtain ⟨p, t, hp, hm, hne⟩ := matchPrefInt_shape x ok s m r h
  have hpx : p = x ∨ p = X := by
    rcases lower_eq p x hp with h | h
    · exact Or.inl h
    · right
      rcases hxX with ⟨rfl, rfl, _⟩ | ⟨rfl, rfl, _⟩ | ⟨rfl, rfl, _⟩ <;> exact char_eq_of_toNat (by
        have e : 'b'.toNat = 98 ∧ 'B'.toNat = 66 ∧ 'o'.toNat = 111 ∧ 'O'.toNat = 79 ∧ 'x'.toNat = 120 ∧ 'X'.toNat = 88 :=
          ⟨rfl, rfl, rfl, rfl, rfl, rfl⟩
        omega)
  subst hm
  constructor
  · have hd := star_plus (uDigits_derives ok ok' hcls t) hne
    have hpd : Derives (.alt (G.lit x) (G.lit X)) [p] := by
      rcases hpx with rfl | rfl
      · exact .altL (.cls (by simp))
      · exact .altR (.cls (by simp))
    exact Derives.seq (s := ['0']) (.cls (by simp)) (Derives.seq (s := [p]) hpd hd)
  · obtain ⟨y, hy, hoky⟩ := uDigits_has ok t hne
    have hyne : y ≠ '_' := by intro e; rw [e, hund] at hoky; cases hoky
    apply prefInt_value p base _ _ _ (strip_has hy hyne)
    · rcases hxX with ⟨rfl, rfl, rfl⟩ | ⟨rfl, rfl, rfl⟩ | ⟨rfl, rfl, rfl⟩
      · exact Or.inl ⟨hpx, rfl⟩
      · exact Or.inr (Or.inl ⟨hpx, rfl⟩)
      · exact Or.inr (Or.inr ⟨hpx, rfl⟩)
    · intro z hz
      rcases uDigits_chars ok t z hz with rfl | hz
      · exact Or.inl rfl
      · exact hgood z hz

/-- a decimal integer: grammar and value -/
theorem decInt_python (s m r : Str) (h : matchDecInt s = some (m, r)) :
    Derives JinjaV.Spec.PyLit.decinteger m ∧ intValue m = some (integerValue m) := by
  unfold matchDecInt at h
  split at h
  · rename_i c t
    split at h
    · rename_i h19
      simp only [Option.some.injEq, Prod.mk.injEq] at h
      have hm := h.1.symm
      subst hm
      simp only [Bool.and_eq_true, decide_eq_true_eq] at h19
      have hc0 : c ≠ '0' := by
        intro e; rw [e] at h19; exact absurd h19.1 (by decide)
      have hcd : isDigit c = true := by
        simp only [isDigit, Bool.and_eq_true, decide_eq_true_eq]
        exact ⟨Char.le_trans (by decide) h19.1, h19.2⟩
      have hcu : c ≠ '_' := by
        intro e; rw [e] at h19; exact absurd h19.2 (by decide)
      constructor
      · refine .altL (Derives.seq (s := [c]) (.cls ?_) (uDigits_derives isDigit _ (fun _ h => h) t))
        simp only [JinjaV.Spec.PyLit.isNonzeroC, Bool.and_eq_true, decide_eq_true_eq]
        exact h19
      · have hg : ∀ x ∈ c :: (uDigits isDigit t).1, Good 10 x := by
          intro x hx
          simp only [List.mem_cons] at hx
          rcases hx with rfl | hx
          · exact good_isDigit _ hcd
          · rcases uDigits_chars isDigit t x hx with rfl | hx
            · exact Or.inl rfl
            · exact good_isDigit _ hx
        have hv := digitsAcc_strip 10 _ 0 hg
        unfold intValue
        rw [strip_cons_ne c _ hcu, intBase0_nonzero c _ hc0, ← strip_cons_ne c _ hcu, hv,
          integerValue_default c _ (Or.inl hc0)]
        rfl
    · split at h
      · rename_i h0
        simp only [beq_iff_eq] at h0
        subst h0
        simp only [Option.some.injEq, Prod.mk.injEq] at h
        have hm := h.1.symm
        subst hm
        have hz : ∀ x ∈ (uDigits (· == '0') t).1, x = '_' ∨ x = '0' := by
          intro x hx
          rcases uDigits_chars _ t x hx with h | h
          · exact Or.inl h
          · exact Or.inr (by simpa using h)
        constructor
        · refine .altR (Derives.seq (s := ['0']) ?_ (uDigits_derives (· == '0') _ (fun _ h => h) t))
          exact Derives.seq (s := ['0']) (t := []) (.cls (by simp)) .starNil
        · have hs : ∀ x ∈ stripUnderscores (uDigits (· == '0') t).1, x = '0' := by
            intro x hx
            simp only [stripUnderscores, List.mem_filter, bne_iff_ne, ne_eq] at hx
            rcases hz x hx.1 with h | h
            · exact absurd h hx.2
            · exact h
          unfold intValue
          rw [strip_cons_ne '0' _ (by decide), intBase0_zeros _ hs, integerValue_default '0' _ (Or.inr hz)]
          have : digitsValue 10 ('0' :: (uDigits (· == '0') t).1) = 0 := by
            have hd0 : digitValue '0' = 0 := by decide
            have := zeros_value _ hz
            simpa [digitsValue, digitsValueFrom, hd0] using this
          rw [this]
      · cases h
  · cases h

-- floats: the scanner against `floatnumber` --------------------------------------------------------------------

theorem star_append {a : G} {s t : Str} (hs : Derives (.star a) s) (ht : Derives (.star a) t) :
    Derives (.star a) (s ++ t) := by
  generalize hg : G.star a = g at hs
  induction hs with
  | eps => cases hg
  | cls _ => cases hg
  | seq _ _ => cases hg
  | altL _ => cases hg
  | altR _ => cases hg
  | starNil => cases hg; simpa using ht
  | @starCons a' s1 t1 h1 h2 _ ih2 =>
    cases hg
    rw [List.append_assoc]
    exact Derives.starCons h1 (ih2 rfl)

theorem digits_star : ∀ (D : Str), (∀ x ∈ D, isDigit x = true) → Derives (.star (itemG JinjaV.Spec.PyLit.isDigitC)) D
  | [], _ => .starNil
  | c :: r, h => Derives.starCons (s := [c]) (item_plain (h c (by simp))) (digits_star r (fun x hx => h x (by simp [hx])))

theorem takeWhile_all (p : Char → Bool) : ∀ (s : Str), ∀ x ∈ s.takeWhile p, p x = true
  | [], x, hx => by simp at hx
  | c :: r, x, hx => by
    by_cases hc : p c = true
    · simp only [List.takeWhile_cons, hc, if_true, List.mem_cons] at hx
      rcases hx with rfl | hx
      · exact hc
      · exact takeWhile_all p r x hx
    · simp [List.takeWhile_cons, hc] at hx

/-- the digit run is empty or starts with a digit and continues with `(["_"] digit)*` -/
theorem digitRunF_shape : ∀ (n : Nat) (s : Str), (digitRunF n s).1 = [] ∨
    ∃ c t, (digitRunF n s).1 = c :: t ∧ isDigit c = true ∧ Derives (.star (itemG JinjaV.Spec.PyLit.isDigitC)) t
  | 0, s => Or.inl rfl
  | n + 1, s => by
    have hall : ∀ x ∈ s.takeWhile isDigit, isDigit x = true := takeWhile_all isDigit s
    simp only [digitRunF]
    split
    · exact Or.inl rfl
    · rename_i hne
      right
      cases hD : s.takeWhile isDigit with
      | nil => simp [hD] at hne
      | cons c D' =>
        rw [hD] at hall
        have hc := hall c (by simp)
        have hD' := digits_star D' (fun x hx => hall x (by simp [hx]))
        split
        · rename_i r2 _
          split
          · exact ⟨c, D', rfl, hc, hD'⟩
          · rename_i hne2
            rcases digitRunF_shape n r2 with h | ⟨c', t', h, hc', ht'⟩
            · simp [h] at hne2
            · refine ⟨c, D' ++ '_' :: c' :: t', by simp [h], hc, ?_⟩
              exact star_append hD' (Derives.starCons (s := ['_', c']) (item_under hc') ht')
        · exact ⟨c, D', rfl, hc, hD'⟩

theorem digitRun_part (s : Str) (h : (digitRun s).1.isEmpty = false) :
    Derives JinjaV.Spec.PyLit.digitpart (digitRun s).1 := by
  rcases digitRunF_shape s.length s with h0 | ⟨c, t, hd, hc, ht⟩
  · simp [digitRun, h0] at h
  · unfold digitRun
    rw [hd]
    exact Derives.seq (s := [c]) (.cls hc) ht

theorem matchFrac_derives (s : Str) (f : Str × Str) (h : matchFrac s = some f) :
    Derives JinjaV.Spec.PyLit.fraction f.1 := by
  unfold matchFrac at h
  split at h
  · rename_i r2
    split at h
    · cases h
    · rename_i hne
      cases h
      exact Derives.seq (s := ['.']) (.cls (by simp)) (digitRun_part r2 (by simpa using hne))
  · cases h

theorem takeExpSign_derives (r : Str) :
    Derives (G.opt (.alt (G.lit '+') (G.lit '-'))) (takeExpSign r).1 := by
  unfold takeExpSign
  split
  · exact .altL (.altL (.cls (by simp)))
  · exact .altL (.altR (.cls (by simp)))
  · exact .altR .eps

theorem matchExpo_derives (s : Str) (x : Str × Str) (h : matchExpo s = some x) :
    Derives JinjaV.Spec.PyLit.exponent x.1 := by
  unfold matchExpo at h
  split at h
  · rename_i e r2
    split at h
    · rename_i he
      split at h
      · cases h
      · rename_i hne
        cases h
        have hed : Derives (.alt (G.lit 'e') (G.lit 'E')) [e] := by
          simp only [isE, Bool.or_eq_true, beq_iff_eq] at he
          rcases he with rfl | rfl
          · exact .altL (.cls (by simp))
          · exact .altR (.cls (by simp))
        exact Derives.seq (s := [e]) hed
          (Derives.seq (takeExpSign_derives r2) (digitRun_part _ (by simpa using hne)))
    · cases h
  · cases h

theorem matchFloat_derives (prev : Option Char) (s m r : Str) (h : matchFloat prev s = some (m, r)) :
    Derives JinjaV.Spec.PyLit.floatnumber m := by
  unfold matchFloat at h
  split at h
  · cases h
  · split at h
    · cases h
    · rename_i hip
      have hipd := digitRun_part s (by simpa using hip)
      split at h
      · rename_i f hf
        have hfd := matchFrac_derives _ f hf
        split at h
        · rename_i x hx
          have hxd := matchExpo_derives _ x hx
          cases h
          exact .altR (Derives.seq (.altR (.altL (Derives.seq (.altL hipd) hfd))) hxd)
        · cases h
          exact .altL (.altL (Derives.seq (.altL hipd) hfd))
      · split at h
        · rename_i x hx
          have hxd := matchExpo_derives _ x hx
          cases h
          exact .altR (Derives.seq (.altL hipd) hxd)
        · cases h

-- floats: the modelled literal_eval against the reference decimal ------------------------------------------------

/-- a non-empty digit run: a digit, then digits and underscores -/
def IsRun (d : Str) : Prop := ∃ c t, d = c :: t ∧ isDigit c = true ∧ ∀ x ∈ t, x = '_' ∨ isDigit x = true

theorem digitRunF_chars : ∀ (n : Nat) (s : Str), ∀ x ∈ (digitRunF n s).1, x = '_' ∨ isDigit x = true
  | 0, s => by simp [digitRunF]
  | n + 1, s => by
    have hall : ∀ x ∈ s.takeWhile isDigit, isDigit x = true := takeWhile_all isDigit s
    simp only [digitRunF]
    split
    · simp
    · split
      · rename_i r2 _
        split
        · exact fun x hx => Or.inr (hall x hx)
        · intro x hx
          simp only [List.mem_append, List.mem_cons] at hx
          rcases hx with hx | rfl | hx
          · exact Or.inr (hall x hx)
          · exact Or.inl rfl
          · exact digitRunF_chars n r2 x hx
      · exact fun x hx => Or.inr (hall x hx)

theorem digitRun_isRun (s : Str) (h : (digitRun s).1.isEmpty = false) : IsRun (digitRun s).1 := by
  rcases digitRunF_shape s.length s with h0 | ⟨c, t, hd, hc, _⟩
  · simp [digitRun, h0] at h
  · refine ⟨c, t, by simpa [digitRun] using hd, hc, ?_⟩
    intro x hx
    have := digitRunF_chars s.length s x (by rw [hd]; simp [hx])
    exact this

theorem matchFrac_shape (s : Str) (f : Str × Str) (h : matchFrac s = some f) : ∃ fp, f.1 = '.' :: fp ∧ IsRun fp := by
  unfold matchFrac at h
  split at h
  · rename_i r2
    split at h
    · cases h
    · rename_i hne
      cases h
      exact ⟨_, rfl, digitRun_isRun r2 (by simpa using hne)⟩
  · cases h

theorem matchExpo_shape (s : Str) (x : Str × Str) (h : matchExpo s = some x) :
    ∃ e sg xp, x.1 = e :: sg ++ xp ∧ isE e = true ∧ (sg = [] ∨ sg = ['+'] ∨ sg = ['-']) ∧ IsRun xp := by
  unfold matchExpo at h
  split at h
  · rename_i e r2
    split at h
    · rename_i he
      split at h
      · cases h
      · rename_i hne
        cases h
        refine ⟨e, (takeExpSign r2).1, _, rfl, he, ?_, digitRun_isRun _ (by simpa using hne)⟩
        unfold takeExpSign
        split <;> simp
    · cases h
  · cases h

/-- the text the float scanner matches: integer digits, then a fraction and/or an exponent -/
theorem matchFloat_shape (prev : Option Char) (s m r : Str) (h : matchFloat prev s = some (m, r)) :
    ∃ ip, IsRun ip ∧
      ((∃ fp e sg xp, m = ip ++ '.' :: fp ++ e :: sg ++ xp ∧ IsRun fp ∧ isE e = true ∧ (sg = [] ∨ sg = ['+'] ∨ sg = ['-']) ∧ IsRun xp) ∨
       (∃ fp, m = ip ++ '.' :: fp ∧ IsRun fp) ∨
       (∃ e sg xp, m = ip ++ e :: sg ++ xp ∧ isE e = true ∧ (sg = [] ∨ sg = ['+'] ∨ sg = ['-']) ∧ IsRun xp)) := by
  unfold matchFloat at h
  split at h
  · cases h
  · split at h
    · cases h
    · rename_i hip
      refine ⟨(digitRun s).1, digitRun_isRun s (by simpa using hip), ?_⟩
      split at h
      · rename_i f hf
        obtain ⟨fp, hfp, hfr⟩ := matchFrac_shape _ f hf
        split at h
        · rename_i x hx
          obtain ⟨e, sg, xp, hxe, he, hsg, hxr⟩ := matchExpo_shape _ x hx
          cases h
          exact Or.inl ⟨fp, e, sg, xp, by rw [hfp, hxe]; simp, hfr, he, hsg, hxr⟩
        · cases h
          exact Or.inr (Or.inl ⟨fp, by rw [hfp], hfr⟩)
      · split at h
        · rename_i x hx
          obtain ⟨e, sg, xp, hxe, he, hsg, hxr⟩ := matchExpo_shape _ x hx
          cases h
          exact Or.inr (Or.inr ⟨e, sg, xp, by rw [hxe]; simp, he, hsg, hxr⟩)
        · cases h

theorem span_stop (p : Char → Bool) : ∀ (a b : Str), (∀ x ∈ a, p x = true) → (∀ c t, b = c :: t → p c = false) →
    (a ++ b).takeWhile p = a ∧ (a ++ b).dropWhile p = b
  | [], b, _, hb => by
    cases b with
    | nil => simp
    | cons c t => simp [hb c t rfl]
  | x :: a, b, ha, hb => by
    have hx := ha x (by simp)
    have ih := span_stop p a b (fun y hy => ha y (by simp [hy])) hb
    simp [hx, ih.1, ih.2]

theorem isE_not_digit (e : Char) (h : isE e = true) : isDigit e = false ∧ e ≠ '_' ∧ e ≠ '.' := by
  simp only [isE, Bool.or_eq_true, beq_iff_eq] at h
  rcases h with rfl | rfl <;> decide

theorem takeExpSign_sign (sg Xd : Str) (hsg : sg = [] ∨ sg = ['+'] ∨ sg = ['-'])
    (hX : ∃ c t, Xd = c :: t ∧ isDigit c = true) : takeExpSign (sg ++ Xd) = (sg, Xd) := by
  obtain ⟨c, t, rfl, hc⟩ := hX
  rcases hsg with rfl | rfl | rfl
  · have h1 : c ≠ '+' := by intro e; rw [e] at hc; exact absurd hc (by decide)
    have h2 : c ≠ '-' := by intro e; rw [e] at hc; exact absurd hc (by decide)
    simp only [List.nil_append]
    unfold takeExpSign
    split
    · rename_i heq; cases heq; exact absurd rfl h1
    · rename_i heq; cases heq; exact absurd rfl h2
    · rfl
  · rfl
  · rfl

/-- stripped parts: all digits -/
def AllDigits (s : Str) : Prop := ∀ x ∈ s, isDigit x = true

theorem floatLit_frac_exp (I Fd Xd sg : Str) (e : Char) (hI : AllDigits I) (hI0 : I ≠ []) (hF : AllDigits Fd)
    (he : isE e = true) (hsg : sg = [] ∨ sg = ['+'] ∨ sg = ['-']) (hX : ∃ c t, Xd = c :: t ∧ isDigit c = true)
    (x : Nat) (hx : digitsAcc 10 0 Xd = some x) :
    floatLit (I ++ '.' :: (Fd ++ e :: (sg ++ Xd))) = mkDec I Fd (if sg == ['-'] then - (x : Int) else (x : Int)) := by
  have h1 := span_stop isDigit I ('.' :: (Fd ++ e :: (sg ++ Xd))) hI (by intro c t h; cases h; decide)
  have h2 := span_stop isDigit Fd (e :: (sg ++ Xd)) hF (by intro c t h; cases h; exact (isE_not_digit _ he).1)
  have hIe : I.isEmpty = false := by cases I with | nil => exact absurd rfl hI0 | cons _ _ => rfl
  have hXe : Xd.isEmpty = false := by obtain ⟨c, t, rfl, _⟩ := hX; rfl
  simp only [floatLit, h1.1, h1.2, h2.1, h2.2, hIe, Bool.false_and, he, takeExpSign_sign sg Xd hsg hX, hXe, hx]
  simp

theorem floatLit_frac (I Fd : Str) (hI : AllDigits I) (hI0 : I ≠ []) (hF : AllDigits Fd) :
    floatLit (I ++ '.' :: Fd) = mkDec I Fd 0 := by
  have h1 := span_stop isDigit I ('.' :: Fd) hI (by intro c t h; cases h; decide)
  have h2 := span_stop isDigit Fd [] hF (by intro c t h; cases h)
  simp only [List.append_nil] at h2
  have hIe : I.isEmpty = false := by cases I with | nil => exact absurd rfl hI0 | cons _ _ => rfl
  simp only [floatLit, h1.1, h1.2, h2.1, h2.2, hIe, Bool.false_and]
  simp

theorem floatLit_exp (I Xd sg : Str) (e : Char) (hI : AllDigits I) (hI0 : I ≠ [])
    (he : isE e = true) (hsg : sg = [] ∨ sg = ['+'] ∨ sg = ['-']) (hX : ∃ c t, Xd = c :: t ∧ isDigit c = true)
    (x : Nat) (hx : digitsAcc 10 0 Xd = some x) :
    floatLit (I ++ e :: (sg ++ Xd)) = mkDec I [] (if sg == ['-'] then - (x : Int) else (x : Int)) := by
  have h1 := span_stop isDigit I (e :: (sg ++ Xd)) hI (by intro c t h; cases h; exact (isE_not_digit _ he).1)
  have hIe : I.isEmpty = false := by cases I with | nil => exact absurd rfl hI0 | cons _ _ => rfl
  have hXe : Xd.isEmpty = false := by obtain ⟨c, t, rfl, _⟩ := hX; rfl
  have hts := takeExpSign_sign sg Xd hsg hX
  have he' := he
  simp only [isE, Bool.or_eq_true, beq_iff_eq] at he'
  rcases he' with rfl | rfl <;>
  · have hXne : Xd ≠ [] := by obtain ⟨c, t, rfl, _⟩ := hX; simp
    simp only [floatLit, h1.1, h1.2, hIe, Bool.false_and]
    simp [he, hts, hx, hXne]

/-- digits and underscores only -/
def RunChars (d : Str) : Prop := ∀ x ∈ d, x = '_' ∨ isDigit x = true

theorem runchar_facts (x : Char) (h : x = '_' ∨ isDigit x = true) : isExpMark x = false ∧ x ≠ '.' ∧ x ≠ '+' ∧ x ≠ '-' := by
  rcases h with rfl | h
  · decide
  · have := (isDigit_iff x).1 h
    refine ⟨?_, ?_, ?_, ?_⟩
    · simp only [isExpMark, Bool.or_eq_false_iff, beq_eq_false_iff_ne, ne_eq]
      constructor <;> (intro e; rw [e] at this; revert this; decide)
    all_goals (intro e; rw [e] at this; revert this; decide)

theorem specExp (sg xp : Str) (hsg : sg = [] ∨ sg = ['+'] ∨ sg = ['-']) (hx : ∃ c t, xp = c :: t ∧ isDigit c = true) :
    expValue (sg ++ xp) = (if sg == ['-'] then - (digitsValue 10 xp : Int) else (digitsValue 10 xp : Int)) := by
  obtain ⟨c, t, rfl, hc⟩ := hx
  have hf := runchar_facts c (Or.inr hc)
  rcases hsg with rfl | rfl | rfl
  · simp only [List.nil_append]
    unfold expValue
    split
    · rename_i heq; cases heq; exact absurd rfl hf.2.2.2
    · rename_i heq; cases heq; exact absurd rfl hf.2.2.1
    · simp
  · simp [expValue]
  · simp [expValue]

theorem floatDecimal_frac_exp (ip fp xp sg : Str) (e : Char) (hi : RunChars ip) (hf : RunChars fp)
    (he : isE e = true) (hsg : sg = [] ∨ sg = ['+'] ∨ sg = ['-']) (hx : ∃ c t, xp = c :: t ∧ isDigit c = true) :
    floatDecimal (ip ++ '.' :: (fp ++ e :: (sg ++ xp))) =
      (digitsValue 10 (ip ++ fp),
       (if sg == ['-'] then - (digitsValue 10 xp : Int) else (digitsValue 10 xp : Int)) - (countDigits fp : Int)) := by
  have hassoc : ip ++ '.' :: (fp ++ e :: (sg ++ xp)) = (ip ++ '.' :: fp) ++ e :: (sg ++ xp) := by simp
  have hm := span_stop (fun c => !isExpMark c) (ip ++ '.' :: fp) (e :: (sg ++ xp))
    (by intro x hx'
        simp only [List.mem_append, List.mem_cons] at hx'
        rcases hx' with h | rfl | h
        · simp [(runchar_facts x (hi x h)).1]
        · decide
        · simp [(runchar_facts x (hf x h)).1])
    (by intro c t h; cases h; have : isExpMark e = true := he; simp [this])
  have hd := span_stop (· != '.') ip ('.' :: fp)
    (by intro x hx'; simpa using (runchar_facts x (hi x hx')).2.1)
    (by intro c t h; cases h; decide)
  simp only [floatDecimal, hassoc, hm.1, hm.2, hd.1, hd.2, List.drop_succ_cons, List.drop_zero, specExp sg xp hsg hx]

theorem floatDecimal_frac (ip fp : Str) (hi : RunChars ip) (hf : RunChars fp) :
    floatDecimal (ip ++ '.' :: fp) = (digitsValue 10 (ip ++ fp), (0 : Int) - (countDigits fp : Int)) := by
  have hm := span_stop (fun c => !isExpMark c) (ip ++ '.' :: fp) []
    (by intro x hx'
        simp only [List.mem_append, List.mem_cons] at hx'
        rcases hx' with h | rfl | h
        · simp [(runchar_facts x (hi x h)).1]
        · decide
        · simp [(runchar_facts x (hf x h)).1])
    (by intro c t h; cases h)
  simp only [List.append_nil] at hm
  have hd := span_stop (· != '.') ip ('.' :: fp)
    (by intro x hx'; simpa using (runchar_facts x (hi x hx')).2.1)
    (by intro c t h; cases h; decide)
  simp only [floatDecimal, hm.1, hm.2, hd.1, hd.2, List.drop_succ_cons, List.drop_zero, List.drop_nil]
  simp [expValue, digitsValue, digitsValueFrom]

theorem floatDecimal_exp (ip xp sg : Str) (e : Char) (hi : RunChars ip)
    (he : isE e = true) (hsg : sg = [] ∨ sg = ['+'] ∨ sg = ['-']) (hx : ∃ c t, xp = c :: t ∧ isDigit c = true) :
    floatDecimal (ip ++ e :: (sg ++ xp)) =
      (digitsValue 10 (ip ++ []),
       (if sg == ['-'] then - (digitsValue 10 xp : Int) else (digitsValue 10 xp : Int)) - (countDigits [] : Int)) := by
  have hm := span_stop (fun c => !isExpMark c) ip (e :: (sg ++ xp))
    (by intro x hx'; simp [(runchar_facts x (hi x hx')).1])
    (by intro c t h; cases h; have : isExpMark e = true := he; simp [this])
  have hd := span_stop (· != '.') ip []
    (by intro x hx'; simpa using (runchar_facts x (hi x hx')).2.1)
    (by intro c t h; cases h)
  simp only [List.append_nil] at hd
  simp only [floatDecimal, hm.1, hm.2, hd.1, hd.2, List.drop_succ_cons, List.drop_zero, List.drop_nil, specExp sg xp hsg hx]

theorem run_chars {d : Str} (h : IsRun d) : RunChars d := by
  obtain ⟨c, t, rfl, hc, ht⟩ := h
  intro x hx
  simp only [List.mem_cons] at hx
  rcases hx with rfl | hx
  · exact Or.inr hc
  · exact ht x hx

theorem run_head {d : Str} (h : IsRun d) : ∃ c t, d = c :: t ∧ isDigit c = true := by
  obtain ⟨c, t, rfl, hc, _⟩ := h; exact ⟨c, t, rfl, hc⟩

theorem digit_ne_underscore {c : Char} (h : isDigit c = true) : c ≠ '_' := by
  intro e; rw [e] at h; exact absurd h (by decide)

theorem strip_runchars {d : Str} (h : RunChars d) :
    AllDigits (stripUnderscores d) ∧ countDigits d = (stripUnderscores d).length ∧ ∀ x ∈ d, Good 10 x := by
  refine ⟨?_, ?_, ?_⟩
  · intro x hx
    simp only [stripUnderscores, List.mem_filter, bne_iff_ne, ne_eq] at hx
    rcases h x hx.1 with e | e
    · exact absurd e hx.2
    · exact e
  · unfold countDigits stripUnderscores
    congr 1
    apply List.filter_congr
    intro x hx
    rcases h x hx with rfl | e
    · decide
    · have : isDigitC x = true := e
      simp [this, digit_ne_underscore e]
  · intro x hx
    rcases h x hx with rfl | e
    · exact Or.inl rfl
    · exact good_isDigit x e

theorem strip_run_head {d : Str} (h : IsRun d) : ∃ c t, stripUnderscores d = c :: t ∧ isDigit c = true := by
  obtain ⟨c, t, rfl, hc, _⟩ := h
  exact ⟨c, _, strip_cons_ne c t (digit_ne_underscore hc), hc⟩

theorem strip_sign (sg xp : Str) (hsg : sg = [] ∨ sg = ['+'] ∨ sg = ['-']) :
    stripUnderscores (sg ++ xp) = sg ++ stripUnderscores xp := by
  rcases hsg with rfl | rfl | rfl <;> simp [stripUnderscores]

theorem strip_append (a b : Str) : stripUnderscores (a ++ b) = stripUnderscores a ++ stripUnderscores b := by
  simp [stripUnderscores]

theorem mantissa_value (ip fp : Str) (hi : RunChars ip) (hf : RunChars fp) :
    digitsAcc 10 0 (stripUnderscores ip ++ stripUnderscores fp) = some (digitsValue 10 (ip ++ fp)) := by
  rw [← strip_append]
  apply digitsAcc_strip 10 (ip ++ fp) 0
  intro x hx
  simp only [List.mem_append] at hx
  rcases hx with hx | hx
  · exact (strip_runchars hi).2.2 x hx
  · exact (strip_runchars hf).2.2 x hx

/-- the modelled `literal_eval` result on a text the float scanner matches is the reference decimal -/
theorem matchFloat_value (prev : Option Char) (s m r : Str) (h : matchFloat prev s = some (m, r)) :
    floatValue m = some ⟨(floatDecimal m).1, (floatDecimal m).2⟩ := by
  obtain ⟨ip, hip, hcases⟩ := matchFloat_shape prev s m r h
  have hic := run_chars hip
  have hI := (strip_runchars hic).1
  have hI0 : stripUnderscores ip ≠ [] := by obtain ⟨c, t, e, _⟩ := strip_run_head hip; rw [e]; simp
  rcases hcases with ⟨fp, e, sg, xp, rfl, hfp, he, hsg, hxp⟩ | ⟨fp, rfl, hfp⟩ | ⟨e, sg, xp, rfl, he, hsg, hxp⟩
  · have hfc := run_chars hfp
    have hxc := run_chars hxp
    have hen := (isE_not_digit e he).2.1
    have hnorm : ip ++ '.' :: fp ++ e :: sg ++ xp = ip ++ '.' :: (fp ++ e :: (sg ++ xp)) := by simp
    have hstrip : stripUnderscores (ip ++ '.' :: (fp ++ e :: (sg ++ xp))) =
        stripUnderscores ip ++ '.' :: (stripUnderscores fp ++ e :: (sg ++ stripUnderscores xp)) := by
      rw [strip_append, strip_cons_ne '.' _ (by decide), strip_append, strip_cons_ne e _ hen, strip_sign sg xp hsg]
    have hxv := digitsAcc_strip 10 xp 0 (strip_runchars hxc).2.2
    rw [hnorm]
    unfold floatValue
    rw [hstrip, floatLit_frac_exp _ _ _ sg e hI hI0 (strip_runchars hfc).1 he hsg (strip_run_head hxp) _ hxv,
      floatDecimal_frac_exp ip fp xp sg e hic hfc he hsg (run_head hxp)]
    simp only [mkDec, mantissa_value ip fp hic hfc, (strip_runchars hfc).2.1]
    rfl
  · have hfc := run_chars hfp
    have hstrip : stripUnderscores (ip ++ '.' :: fp) = stripUnderscores ip ++ '.' :: stripUnderscores fp := by
      rw [strip_append, strip_cons_ne '.' _ (by decide)]
    unfold floatValue
    rw [hstrip, floatLit_frac _ _ hI hI0 (strip_runchars hfc).1, floatDecimal_frac ip fp hic hfc]
    simp only [mkDec, mantissa_value ip fp hic hfc, (strip_runchars hfc).2.1]
  · have hxc := run_chars hxp
    have hen := (isE_not_digit e he).2.1
    have hnorm : ip ++ e :: sg ++ xp = ip ++ e :: (sg ++ xp) := by simp
    have hstrip : stripUnderscores (ip ++ e :: (sg ++ xp)) = stripUnderscores ip ++ e :: (sg ++ stripUnderscores xp) := by
      rw [strip_append, strip_cons_ne e _ hen, strip_sign sg xp hsg]
    have hxv := digitsAcc_strip 10 xp 0 (strip_runchars hxc).2.2
    have hnil : RunChars [] := by intro x hx; simp at hx
    have hm := mantissa_value ip [] hic hnil
    have hs0 : stripUnderscores ([] : Str) = [] := rfl
    rw [hs0] at hm
    rw [hnorm]
    unfold floatValue
    rw [hstrip, floatLit_exp _ _ sg e hI hI0 he hsg (strip_run_head hxp) _ hxv,
      floatDecimal_exp ip xp sg e hic he hsg (run_head hxp)]
    simp only [mkDec, hm]
    simp [countDigits]
    rfl

end numbers


-- helpers for the token-level string theorems and adjacent strings ---------------------------------------

theorem matchInt_quote (s : Str) : matchInt ('\'' :: s) = none ∧ matchInt ('"' :: s) = none := by
  constructor <;> cases s <;> simp [matchInt, matchPrefInt, matchDecInt]

theorem matchFloat_quote (prev : Option Char) (s : Str) :
    matchFloat prev ('\'' :: s) = none ∧ matchFloat prev ('"' :: s) = none := by
  constructor <;>
  · unfold matchFloat
    split
    · rfl
    · simp [digitRun, digitRunF, isDigit]

/-- at a quote character the tag rule is decided by the string scanner (no earlier rule can match) -/
theorem tagRule_quote (q : Char) (hq : q = '\'' ∨ q = '"') (prev : Option Char) (s : Str) (m : Str × Str)
    (hm : matchString (q :: s) = some m) : tagRule prev (q :: s) = .tok .string m.1 m.2 := by
  rcases hq with rfl | rfl
  · unfold tagRule
    rw [(matchFloat_quote prev s).1, (matchInt_quote s).1, hm]
    simp [spanSpace, spanP, isSpace, matchName, isWord, isDigit]
  · unfold tagRule
    rw [(matchFloat_quote prev s).2, (matchInt_quote s).2, hm]
    simp [spanSpace, spanP, isSpace, matchName, isWord, isDigit]

theorem reprStyle_ok (printable : Nat → Bool) (q c : Nat) (hq : q = 39 ∨ q = 34) (hc : c < 0x110000) :
    (reprStyle printable q c).ok q c = true := by
  unfold reprStyle
  split
  · rename_i h
    simp only [Bool.or_eq_true, beq_iff_eq] at h
    rcases h with rfl | rfl
    · rfl
    · rcases hq with rfl | rfl <;> rfl
  · split
    · rename_i h
      simp only [Bool.or_eq_true, beq_iff_eq] at h
      rcases h with (rfl | rfl) | rfl <;> rfl
    · split
      · rename_i h
        simp only [Bool.or_eq_true, beq_iff_eq, decide_eq_true_eq] at h
        simp only [Style.ok, decide_eq_true_eq]; omega
      · rename_i h1 h2 h3
        simp only [Bool.or_eq_true, beq_iff_eq, not_or] at h1 h2
        have raw_ok : Style.ok q c .raw = true := by
          simp only [Style.ok, Bool.and_eq_true, bne_iff_ne, ne_eq, decide_eq_true_eq]
          exact ⟨⟨⟨h1.1, h1.2⟩, h2.2⟩, hc⟩
        split
        · exact raw_ok
        · split
          · exact raw_ok
          · split
            · rename_i h; simpa [Style.ok] using h
            · split
              · rename_i h; simpa [Style.ok] using h
              · simpa [Style.ok] using hc

theorem repr_stylesOk (printable : Nat → Bool) (q : Nat) (hq : q = 39 ∨ q = 34) :
    ∀ (v : List Nat), (∀ c ∈ v, c < 0x110000) → stylesOk q (v.map (reprStyle printable q)) v = true
  | [], _ => rfl
  | c :: v, h => by
    simp only [List.map_cons, stylesOk, Bool.and_eq_true]
    exact ⟨reprStyle_ok printable q c hq (h c (by simp)), repr_stylesOk printable q hq v (fun x hx => h x (by simp [hx]))⟩

theorem repr_rawScalar (printable : Nat → Bool) (q : Nat)
    (hp : ∀ c, printable c = true → (c < 0xd800 ∨ (0xdfff < c ∧ c < 0x110000))) :
    ∀ (v : List Nat), rawScalar (v.map (reprStyle printable q)) v = true
  | [] => rfl
  | c :: v => by
    simp only [List.map_cons, rawScalar, Bool.and_eq_true]
    refine ⟨?_, repr_rawScalar printable q hp v⟩
    unfold reprStyle
    repeat' split
    all_goals first
      | rfl
      | (rename_i h; simp only [Bool.or_eq_true, decide_eq_true_eq, Bool.and_eq_true, bne_self_eq_false, Bool.false_or]
         first
           | (have := hp c h; omega)
           | omega)

theorem stringRun_strings (vs : List (List Nat)) (rest : List PTok) (hrest : ∀ v r, rest ≠ .string v :: r) :
    stringRun (vs.map .string ++ rest) = (vs, rest) := by
  induction vs with
  | nil =>
    simp only [List.map_nil, List.nil_append]
    unfold stringRun
    split
    · rename_i v r; exact absurd rfl (hrest v r)
    · rfl
  | cons v vs ih => simp [stringRun, ih]

-- the escape decoder against the reference escape table ----------------------------------------------------------

section escapes
open JinjaV.Spec.PyLit (StrErr simpleEscape? octValue? hexValue? takeHex takeOct escapeItem strValueF strValue)

theorem simpleEscape_cases (c v : Nat) (h : simpleEscape? c = some v) :
    (c = 92 ∧ v = 92) ∨ (c = 39 ∧ v = 39) ∨ (c = 34 ∧ v = 34) ∨ (c = 97 ∧ v = 7) ∨ (c = 98 ∧ v = 8) ∨
    (c = 102 ∧ v = 12) ∨ (c = 110 ∧ v = 10) ∨ (c = 114 ∧ v = 13) ∨ (c = 116 ∧ v = 9) ∨ (c = 118 ∧ v = 11) := by
  unfold simpleEscape? at h
  repeat' split at h
  all_goals simp_all

theorem simpleEscape_none (c : Nat) (h : simpleEscape? c = none) :
    c ≠ 92 ∧ c ≠ 39 ∧ c ≠ 34 ∧ c ≠ 97 ∧ c ≠ 98 ∧ c ≠ 102 ∧ c ≠ 110 ∧ c ≠ 114 ∧ c ≠ 116 ∧ c ≠ 118 := by
  unfold simpleEscape? at h
  repeat' split at h
  all_goals simp_all

theorem stepEsc_simple (c v : Nat) (h : simpleEscape? c = some v) : stepEsc c = .ok ([v], .plain) := by
  rcases simpleEscape_cases c v h with ⟨rfl, rfl⟩ | ⟨rfl, rfl⟩ | ⟨rfl, rfl⟩ | ⟨rfl, rfl⟩ | ⟨rfl, rfl⟩ | ⟨rfl, rfl⟩ |
      ⟨rfl, rfl⟩ | ⟨rfl, rfl⟩ | ⟨rfl, rfl⟩ | ⟨rfl, rfl⟩ <;> rfl

theorem octValue_some (c d : Nat) (h : octValue? c = some d) : 48 ≤ c ∧ c ≤ 55 ∧ d = c - 48 := by
  unfold octValue? at h
  split at h
  · rename_i hc
    simp only [Bool.and_eq_true, decide_eq_true_eq] at hc
    simp only [Option.some.injEq] at h
    omega
  · cases h

theorem octValue_none (c : Nat) (h : octValue? c = none) : isOctCP c = false := by
  unfold octValue? at h
  split at h
  · cases h
  · rename_i hc; simpa [isOctCP] using hc

theorem stepEsc_octal (c d : Nat) (h : octValue? c = some d) : stepEsc c = .ok ([], .oct 2 d) := by
  obtain ⟨h1, h2, rfl⟩ := octValue_some c d h
  have := stepEsc_oct (c - 48) (by omega)
  rwa [show 48 + (c - 48) = c by omega] at this

theorem stepEsc_other (c : Nat) (h10 : c ≠ 10) (hs : simpleEscape? c = none) (ho : octValue? c = none)
    (hx : c ≠ 120) (hu : c ≠ 117) (hU : c ≠ 85) (hN : c ≠ 78) : stepEsc c = .ok ([92, c], .plain) := by
  obtain ⟨a1, a2, a3, a4, a5, a6, a7, a8, a9, a10⟩ := simpleEscape_none c hs
  have := octValue_none c ho
  simp [stepEsc, *]

def toSpec : Except DErr (List Nat) → Except StrErr (List Nat)
  | .ok v => .ok v
  | .error .syntax => .error .syntax
  | .error .oom => .error .named

def sprepend (out : List Nat) : Except StrErr (List Nat) → Except StrErr (List Nat)
  | .ok v => .ok (out ++ v)
  | .error e => .error e

theorem toSpec_prepend (out : List Nat) (r : Except DErr (List Nat)) : toSpec (prepend out r) = sprepend out (toSpec r) := by
  cases r with
  | ok v => rfl
  | error e => cases e <;> rfl

theorem enc1_small (x : Nat) (h : x < 128) : enc1 x = [x] := by simp [enc1, h]

theorem enc1_big (x : Nat) (h : ¬ x < 128) : ∃ t, enc1 x = 92 :: t := by
  unfold enc1
  simp only [h, if_false]
  split
  · exact ⟨_, rfl⟩
  · split
    · exact ⟨_, rfl⟩
    · exact ⟨_, rfl⟩

/-- the first byte of an encoded non-empty text: the character itself if ASCII, else a backslash -/
theorem enc_head (x : Nat) (r : List Nat) :
    (x < 128 ∧ encodeAscii (x :: r) = x :: encodeAscii r) ∨ (¬ x < 128 ∧ ∃ t, encodeAscii (x :: r) = 92 :: t) := by
  by_cases h : x < 128
  · exact Or.inl ⟨h, by rw [encodeAscii_cons, enc1_small x h]; rfl⟩
  · obtain ⟨t, ht⟩ := enc1_big x h
    exact Or.inr ⟨h, t ++ encodeAscii r, by rw [encodeAscii_cons, ht]; rfl⟩

theorem oct_fallthrough (k acc y : Nat) (t : List Nat) (h : (decide (k > 0) && isOctCP y) = false) :
    decodeFrom (.oct k acc) (y :: t) = prepend [acc] (decodeFrom .plain (y :: t)) := by
  have h1 : step (.oct k acc) y = .ok (acc :: (stepPlain y).1, (stepPlain y).2) := by simp [step, h]
  have h2 : step .plain y = .ok ((stepPlain y).1, (stepPlain y).2) := rfl
  rw [decodeFrom_cons_ok t h1, decodeFrom_cons_ok t h2, prepend_prepend]
  rfl

theorem oct_end (k acc : Nat) : decodeFrom (.oct k acc) [] = prepend [acc] (decodeFrom .plain []) := rfl

theorem decode_oct_state : ∀ (k acc : Nat) (r : List Nat),
    decodeFrom (.oct k acc) (encodeAscii r) =
      prepend [(takeOct k acc r).1] (decodeFrom .plain (encodeAscii (takeOct k acc r).2))
  | 0, acc, r => by
    have : takeOct 0 acc r = (acc, r) := by cases r <;> rfl
    rw [this]
    cases h : encodeAscii r with
    | nil => exact oct_end 0 acc
    | cons y t => exact oct_fallthrough 0 acc y t (by simp)
  | k + 1, acc, [] => by
    have : takeOct (k + 1) acc [] = (acc, []) := rfl
    rw [this]; exact oct_end (k + 1) acc
  | k + 1, acc, x :: r' => by
    cases ho : octValue? x with
    | some d =>
      obtain ⟨h1, h2, hd⟩ := octValue_some x d ho
      have hto : takeOct (k + 1) acc (x :: r') = takeOct k (acc * 8 + d) r' := by simp [takeOct, ho]
      have henc : encodeAscii (x :: r') = x :: encodeAscii r' := by
        rw [encodeAscii_cons, enc1_small x (by omega)]; rfl
      have hoct : isOctCP x = true := by simp [isOctCP]; omega
      rw [hto, henc]
      cases k with
      | zero =>
        have hs : step (.oct 1 acc) x = .ok ([acc * 8 + d], .plain) := by simp [step, hoct, hd]
        have : takeOct 0 (acc * 8 + d) r' = (acc * 8 + d, r') := by cases r' <;> rfl
        rw [decodeFrom_cons_ok _ hs, this]
      | succ k =>
        have hs : step (.oct (k + 1 + 1) acc) x = .ok ([], .oct (k + 1) (acc * 8 + d)) := by simp [step, hoct, hd]
        rw [decodeFrom_cons_ok _ hs, prepend_nil]
        exact decode_oct_state (k + 1) (acc * 8 + d) r'
    | none =>
      have hto : takeOct (k + 1) acc (x :: r') = (acc, x :: r') := by simp [takeOct, ho]
      rw [hto]
      rcases enc_head x r' with ⟨_, he⟩ | ⟨_, t, he⟩
      · rw [he]; exact oct_fallthrough (k + 1) acc x _ (by simp [octValue_none x ho])
      · rw [he]; exact oct_fallthrough (k + 1) acc 92 t (by simp [isOctCP])

theorem hexValue_eq (c : Nat) : hexValue? c = hexValCP c := rfl

theorem hexVal_some (x d : Nat) (h : hexValCP x = some d) : x < 128 ∧ x ≠ 92 := by
  unfold hexValCP at h
  repeat' split at h
  all_goals simp_all
  all_goals omega

theorem hex_bad (n acc y : Nat) (t : List Nat) (h : hexValCP y = none) :
    decodeFrom (.hex n acc) (y :: t) = .error .syntax := by
  simp [decodeFrom, step, h]

theorem hex_end (n acc : Nat) : decodeFrom (.hex n acc) [] = .error .syntax := rfl

/-- `r'` is what is left of `r` after dropping characters other than the backslash -/
def PlainSuffix (r r' : List Nat) : Prop := ∃ pre, r = pre ++ r' ∧ ∀ x ∈ pre, x ≠ 92

theorem PlainSuffix.refl (r : List Nat) : PlainSuffix r r := ⟨[], rfl, by simp⟩

theorem PlainSuffix.cons {x : Nat} {r r' : List Nat} (hx : x ≠ 92) (h : PlainSuffix r r') : PlainSuffix (x :: r) r' := by
  obtain ⟨pre, rfl, hp⟩ := h
  exact ⟨x :: pre, rfl, by intro y hy; simp only [List.mem_cons] at hy; rcases hy with rfl | hy; exact hx; exact hp y hy⟩

theorem decode_hex_none : ∀ (n acc : Nat) (r : List Nat), takeHex (n + 1) acc r = none →
    decodeFrom (.hex (n + 1) acc) (encodeAscii r) = .error .syntax
  | n, acc, [], _ => hex_end _ _
  | n, acc, x :: r1, h => by
    cases hv : hexValCP x with
    | none =>
      rcases enc_head x r1 with ⟨_, he⟩ | ⟨_, t, he⟩
      · rw [he]; exact hex_bad _ _ x _ hv
      · rw [he]; exact hex_bad _ _ 92 t rfl
    | some d =>
      have hx := hexVal_some x d hv
      have henc : encodeAscii (x :: r1) = x :: encodeAscii r1 := by rw [encodeAscii_cons, enc1_small x hx.1]; rfl
      simp only [takeHex, hexValue_eq, hv] at h
      rw [henc]
      cases n with
      | zero => simp [takeHex] at h
      | succ n =>
        have hs : step (.hex (n + 1 + 1) acc) x = .ok ([], .hex (n + 1) (acc * 16 + d)) := by simp [step, hv]
        rw [decodeFrom_cons_ok _ hs, prepend_nil]
        exact decode_hex_none n (acc * 16 + d) r1 h

theorem decode_hex_some : ∀ (n acc : Nat) (r : List Nat) (v : Nat) (r' : List Nat), takeHex (n + 1) acc r = some (v, r') →
    decodeFrom (.hex (n + 1) acc) (encodeAscii r) =
      (if v > 0x10ffff then .error .syntax else prepend [v] (decodeFrom .plain (encodeAscii r'))) ∧ PlainSuffix r r'
  | n, acc, [], v, r', h => by simp [takeHex] at h
  | n, acc, x :: r1, v, r', h => by
    cases hv : hexValCP x with
    | none => simp [takeHex, hexValue_eq, hv] at h
    | some d =>
      have hx := hexVal_some x d hv
      have henc : encodeAscii (x :: r1) = x :: encodeAscii r1 := by rw [encodeAscii_cons, enc1_small x hx.1]; rfl
      simp only [takeHex, hexValue_eq, hv] at h
      rw [henc]
      cases n with
      | zero =>
        simp only [takeHex, Option.some.injEq, Prod.mk.injEq] at h
        obtain ⟨rfl, rfl⟩ := h
        refine ⟨?_, PlainSuffix.cons hx.2 (PlainSuffix.refl _)⟩
        by_cases hb : acc * 16 + d > 0x10ffff
        · simp [decodeFrom, step, hv, hb]
        · have hs : step (.hex 1 acc) x = .ok ([acc * 16 + d], .plain) := by simp [step, hv, hb]
          rw [decodeFrom_cons_ok _ hs]; simp [hb]
      | succ n =>
        have hs : step (.hex (n + 1 + 1) acc) x = .ok ([], .hex (n + 1) (acc * 16 + d)) := by simp [step, hv]
        rw [decodeFrom_cons_ok _ hs, prepend_nil]
        have ih := decode_hex_some n (acc * 16 + d) r1 v r' h
        exact ⟨ih.1, PlainSuffix.cons hx.2 ih.2⟩

theorem strValueF_esc_ok (n c : Nat) (r out r' : List Nat) (h : escapeItem c r = .ok (out, r')) :
    strValueF (n + 1) (92 :: c :: r) = sprepend out (strValueF n r') := by
  simp only [strValueF, h]
  cases strValueF n r' <;> rfl

theorem strValueF_esc_err (n c : Nat) (r : List Nat) (e : StrErr) (h : escapeItem c r = .error e) :
    strValueF (n + 1) (92 :: c :: r) = .error e := by
  simp only [strValueF, h]

theorem strValueF_plain (n c : Nat) (r : List Nat) (hc : c ≠ 92) :
    strValueF (n + 1) (c :: r) = sprepend [c] (strValueF n r) := by
  rw [JinjaV.Spec.PyLit.strValueF.eq_5 n c r (by intro h; exact absurd h hc) (by intro c' r' h; exact absurd h hc)]
  cases strValueF n r <;> rfl

theorem takeOct_suffix : ∀ (k acc : Nat) (r : List Nat), PlainSuffix r (takeOct k acc r).2
  | 0, acc, r => by cases r <;> exact PlainSuffix.refl _
  | k + 1, acc, [] => PlainSuffix.refl _
  | k + 1, acc, x :: r' => by
    cases ho : octValue? x with
    | some d =>
      have : takeOct (k + 1) acc (x :: r') = takeOct k (acc * 8 + d) r' := by simp [takeOct, ho]
      rw [this]
      exact PlainSuffix.cons (by have := octValue_some x d ho; omega) (takeOct_suffix k _ r')
    | none =>
      have : takeOct (k + 1) acc (x :: r') = (acc, x :: r') := by simp [takeOct, ho]
      rw [this]; exact PlainSuffix.refl _

theorem f13Free_plain {x : Nat} {r : List Nat} (hx : x ≠ 92) (h : f13Free (x :: r) = true) : f13Free r = true := by
  unfold f13Free at h
  split at h
  · rename_i heq; cases heq
  · rename_i heq; cases heq; exact absurd rfl hx
  · rename_i heq; cases heq; exact h

theorem f13Free_suffix {r r' : List Nat} (h : PlainSuffix r r') (hf : f13Free r = true) : f13Free r' = true := by
  obtain ⟨pre, rfl, hp⟩ := h
  induction pre with
  | nil => simpa using hf
  | cons x pre ih =>
    exact ih (fun y hy => hp y (by simp [hy])) (f13Free_plain (hp x (by simp)) hf)

theorem suffix_length {r r' : List Nat} (h : PlainSuffix r r') : r'.length ≤ r.length := by
  obtain ⟨pre, rfl, _⟩ := h; simp

theorem suffix_mem {r r' : List Nat} (h : PlainSuffix r r') : ∀ x ∈ r', x ∈ r := by
  obtain ⟨pre, rfl, _⟩ := h; intro x hx; simp [hx]

theorem f13Free_esc {c : Nat} {r : List Nat} (h : f13Free (92 :: c :: r) = true) : c < 128 ∧ f13Free r = true := by
  simpa [f13Free] using h
def Bounded (b : List Nat) : Prop := ∀ c ∈ b, c < 0x110000

theorem decode_raw (c : Nat) (h92 : c ≠ 92) (hlt : c < 0x110000) (rest : List Nat) :
    decodeFrom .plain (enc1 c ++ rest) = prepend [c] (decodeFrom .plain rest) := by
  by_cases h1 : c < 128
  · have hs : step .plain c = .ok ([c], .plain) := by simp [step, stepPlain, h92]
    have e1 : enc1 c = [c] := by simp [enc1, h1]
    rw [e1, List.singleton_append, decodeFrom_cons_ok _ hs]
  · by_cases h2 : c < 256
    · have e1 : enc1 c = 92 :: 120 :: hexN 2 c := by simp [enc1, h1, h2]
      rw [e1]; exact decode_x c rest h2
    · by_cases h3 : c < 65536
      · have e1 : enc1 c = 92 :: 117 :: hexN 4 c := by simp [enc1, h1, h2, h3]
        rw [e1]; exact decode_u c rest h3
      · have e1 : enc1 c = 92 :: 85 :: hexN 8 c := by simp [enc1, h1, h2, h3]
        rw [e1]; exact decode_U c rest hlt

theorem sprepend_nil (r : Except StrErr (List Nat)) : sprepend [] r = r := by cases r <;> simp [sprepend]

theorem esc_start (c : Nat) (r : List Nat) (hc : c < 128) :
    decodeFrom .plain (encodeAscii (92 :: c :: r)) = decodeFrom .esc (c :: encodeAscii r) := by
  have h1 : step .plain 92 = .ok ([], .esc) := rfl
  have e : encodeAscii (92 :: c :: r) = 92 :: c :: encodeAscii r := by
    rw [encodeAscii_cons, encodeAscii_cons, enc1_small 92 (by decide), enc1_small c hc]; rfl
  rw [e, decodeFrom_cons_ok _ h1, prepend_nil]

theorem esc_step {c : Nat} {out : List Nat} {st : DState} (E : List Nat) (h : stepEsc c = .ok (out, st)) :
    decodeFrom .esc (c :: E) = prepend out (decodeFrom st E) :=
  decodeFrom_cons_ok E (show step .esc c = .ok (out, st) from h)

/-- one escape item: the decoder and the reference table agree on `\\ c …`, given that they agree on every text that is left
    after the item -/
theorem escape_item_step (n c : Nat) (r : List Nat) (hc : c < 128)
    (cont : ∀ r', PlainSuffix r r' → toSpec (decodeFrom .plain (encodeAscii r')) = strValueF n r') :
    toSpec (decodeFrom .plain (encodeAscii (92 :: c :: r))) = strValueF (n + 1) (92 :: c :: r) := by
  rw [esc_start c r hc]
  by_cases h10 : c = 10
  · subst h10
    have hi : escapeItem 10 r = .ok ([], r) := by simp [escapeItem]
    rw [strValueF_esc_ok n 10 r [] r hi, esc_step _ (show stepEsc 10 = .ok ([], .plain) from rfl), prepend_nil,
      sprepend_nil, cont r (PlainSuffix.refl r)]
  · cases hs : simpleEscape? c with
    | some v =>
      have hi : escapeItem c r = .ok ([v], r) := by simp [escapeItem, h10, hs]
      rw [strValueF_esc_ok n c r [v] r hi, esc_step _ (stepEsc_simple c v hs), toSpec_prepend, cont r (PlainSuffix.refl r)]
    | none =>
      cases ho : octValue? c with
      | some d =>
        have hi : escapeItem c r = .ok ([(takeOct 2 d r).1], (takeOct 2 d r).2) := by simp [escapeItem, h10, hs, ho]
        rw [strValueF_esc_ok n c r _ _ hi, esc_step _ (stepEsc_octal c d ho), prepend_nil, decode_oct_state 2 d r,
          toSpec_prepend, cont _ (takeOct_suffix 2 d r)]
      | none =>
        have hexcase : ∀ (w : Nat), (c = 120 ∧ w = 1) ∨ (c = 117 ∧ w = 3) ∨ (c = 85 ∧ w = 7) →
            stepEsc c = .ok ([], .hex (w + 1) 0) →
            (takeHex (w + 1) 0 r = none → escapeItem c r = .error .syntax) →
            (∀ v r', takeHex (w + 1) 0 r = some (v, r') →
              escapeItem c r = if v > 0x10ffff then .error .syntax else .ok ([v], r')) →
            toSpec (decodeFrom .esc (c :: encodeAscii r)) = strValueF (n + 1) (92 :: c :: r) := by
          intro w _ hst hnone hsome
          rw [esc_step _ hst, prepend_nil]
          cases ht : takeHex (w + 1) 0 r with
          | none =>
            rw [strValueF_esc_err n c r .syntax (hnone ht), decode_hex_none w 0 r ht]; rfl
          | some p =>
            obtain ⟨v, r'⟩ := p
            have hi := hsome v r' ht
            have hd := decode_hex_some w 0 r v r' ht
            rw [hd.1]
            by_cases hv : v > 0x10ffff
            · simp only [hv, if_true] at hi ⊢
              rw [strValueF_esc_err n c r .syntax hi]; rfl
            · simp only [hv, if_false] at hi ⊢
              rw [strValueF_esc_ok n c r [v] r' hi, toSpec_prepend, cont r' hd.2]
        by_cases hx : c = 120
        · subst hx
          exact hexcase 1 (Or.inl ⟨rfl, rfl⟩) rfl (by intro h; simp [escapeItem, hs, ho, h]) (by intro v r' h; simp [escapeItem, hs, ho, h])
        · by_cases hu : c = 117
          · subst hu
            exact hexcase 3 (Or.inr (Or.inl ⟨rfl, rfl⟩)) rfl (by intro h; simp [escapeItem, hs, ho, h]) (by intro v r' h; simp [escapeItem, hs, ho, h])
          · by_cases hU : c = 85
            · subst hU
              exact hexcase 7 (Or.inr (Or.inr ⟨rfl, rfl⟩)) rfl (by intro h; simp [escapeItem, hs, ho, h]) (by intro v r' h; simp [escapeItem, hs, ho, h])
            · by_cases hN : c = 78
              · subst hN
                have hi : escapeItem 78 r = .error .named := by simp [escapeItem, hs, ho]
                rw [strValueF_esc_err n 78 r .named hi]
                simp [decodeFrom, step, stepEsc, isOctCP, toSpec]
              · have hi : escapeItem c r = .ok ([92, c], r) := by simp [escapeItem, h10, hs, ho, hx, hu, hU, hN]
                rw [strValueF_esc_ok n c r _ r hi, esc_step _ (stepEsc_other c h10 hs ho hx hu hU hN), toSpec_prepend,
                  cont r (PlainSuffix.refl r)]

/-- The whole-body agreement: on a body in which no escape-position backslash is directly followed by a non-ASCII
    code point, `backslashreplace` + `unicode-escape` computes what the reference escape table says. -/
theorem escape_spec : ∀ (n : Nat) (b : List Nat), b.length < n → f13Free b = true → Bounded b →
    toSpec (decodeFrom .plain (encodeAscii b)) = strValueF n b
  | 0, _, h, _, _ => by omega
  | n + 1, [], _, _, _ => rfl
  | n + 1, c :: r, hlen, hf, hb => by
    have hlr : r.length < n := by simp at hlen; omega
    by_cases hc : c = 92
    · subst hc
      cases r with
      | nil => rfl
      | cons c' r' =>
        obtain ⟨hc', hfr⟩ := f13Free_esc hf
        have hbr : Bounded r' := fun x hx => hb x (by simp [hx])
        apply escape_item_step n c' r' hc'
        intro r'' hs
        exact escape_spec n r'' (by have := suffix_length hs; simp at hlr; omega) (f13Free_suffix hs hfr)
          (fun x hx => hbr x (suffix_mem hs x hx))
    · rw [encodeAscii_cons, decode_raw c hc (hb c (by simp)) _, toSpec_prepend, strValueF_plain n c r hc,
        escape_spec n r hlr (f13Free_plain hc hf) (fun x hx => hb x (by simp [hx]))]

theorem normNl_mem (s : List Nat) : ∀ x ∈ normNl s, x ∈ s ∨ x = 10 := by
  fun_induction normNl s with
  | case1 => intro x hx; simp at hx
  | case2 r ih =>
    intro x hx
    simp only [List.mem_cons] at hx
    rcases hx with rfl | hx
    · exact Or.inr rfl
    · rcases ih x hx with h | h
      · exact Or.inl (by simp [h])
      · exact Or.inr h
  | case3 r _ ih =>
    intro x hx
    simp only [List.mem_cons] at hx
    rcases hx with rfl | hx
    · exact Or.inr rfl
    · rcases ih x hx with h | h
      · exact Or.inl (by simp [h])
      · exact Or.inr h
  | case4 c r _ _ ih =>
    intro x hx
    simp only [List.mem_cons] at hx
    rcases hx with rfl | hx
    · exact Or.inl (by simp)
    · rcases ih x hx with h | h
      · exact Or.inl (by simp [h])
      · exact Or.inr h

/-- `wrap`'s string pipeline against the reference escape table, for a whole body -/
theorem unescape_spec (body : List Nat) (hb : ∀ c ∈ body, c < 0x110000) (hf : f13Free (normNl body) = true) :
    toSpec (unescapeBody body) = strValue (normNl body) := by
  unfold unescapeBody decodeEscapes strValue
  apply escape_spec _ _ (by omega) hf
  intro x hx
  rcases normNl_mem body x hx with h | h
  · exact hb x h
  · omega

end escapes

end JinjaV.Literal
