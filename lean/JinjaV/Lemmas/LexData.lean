/-
  Lemma for C34: the lexer model (Model/Lex.lean) never emits an empty `data` token.
  (`emit … false` drops an empty text; every token emitted unconditionally has another kind.)
-/
import JinjaV.Model.Lex

namespace JinjaV.LexData
open JinjaV.Lex

/-- every data token of the list has a non-empty text -/
def DataOk (ts : List Tok) : Prop := ∀ t ∈ ts, t.kind = .data → t.text ≠ []

def ResOk : LexRes → Prop
  | .ok ts => DataOk ts
  | .syntaxError ts _ _ => DataOk ts
  | .fuel ts => DataOk ts

theorem emit_ok (l : Loop) (k : TK) (text : Str) (always : Bool) (h : DataOk l.out)
    (hk : k ≠ .data ∨ always = false) : DataOk (emit l k text always).out := by
  unfold emit
  simp only
  split
  · rename_i hc
    intro t ht hkind
    simp only [List.mem_cons] at ht
    rcases ht with rfl | ht
    · simp only at hkind
      rcases hk with hk | hk
      · exact absurd hkind hk
      · subst hk
        simp only [Bool.false_or, Bool.not_eq_true', List.isEmpty_eq_false_iff] at hc
        simpa using hc
    · exact h t ht hkind
  · exact h

theorem finish_ok (l : Loop) (h : DataOk l.out) : DataOk (finish l) := by
  intro t ht; exact h t (by simpa [finish] using ht)

theorem kind_tk_ne_data (k : RootKind) : k.tk ≠ .data := by cases k <;> simp [RootKind.tk]

theorem tagStep_ok (l l' : Loop) (s rest : Str) (h : DataOk l.out) (hs : tagStep l s = .ok (l', rest)) :
    DataOk l'.out := by
  unfold tagStep at hs
  split at hs
  · split at hs
    · cases hs
    · simp only [Except.ok.injEq, Prod.mk.injEq] at hs
      obtain ⟨rfl, _⟩ := hs
      exact emit_ok _ _ _ false h (Or.inr rfl)
  · split at hs
    · cases hs
    · simp only [Except.ok.injEq, Prod.mk.injEq] at hs
      obtain ⟨rfl, _⟩ := hs
      exact h

def StepOk : StepRes → Prop
  | .cont l _ => DataOk l.out
  | .done r => ResOk r

theorem step_ok (cfg : Cfg) (alts : List RootKind) (l : Loop) (s : Str) (h : DataOk l.out) :
    StepOk (step cfg alts l s) := by
  unfold step
  simp only
  repeat' split
  all_goals simp only [StepOk, ResOk]
  all_goals first
    | exact finish_ok _ h
    | exact finish_ok _ (emit_ok _ _ _ _ h (Or.inr rfl))
    | exact emit_ok _ _ _ _ (emit_ok _ _ _ _ (emit_ok _ _ _ _ h (Or.inr rfl)) (Or.inr rfl)) (Or.inl (kind_tk_ne_data _))
    | exact emit_ok _ _ _ _ (emit_ok _ _ _ _ (emit_ok _ _ _ _ h (Or.inr rfl)) (Or.inr rfl)) (Or.inl (by decide))
    | exact emit_ok _ _ _ _ (emit_ok _ _ _ _ h (Or.inr rfl)) (Or.inl (by decide))
    | exact emit_ok _ _ _ _ h (Or.inl (by decide))
    | exact tagStep_ok _ _ _ _ h (by assumption)
    | skip
  -- the end rule of a block / variable / line statement: the token kind is one of the three end kinds
  rename_i k matched rest heq
  refine emit_ok _ _ _ _ h (Or.inl ?_)
  split at heq
  · cases heq
  · split at heq <;>
      (simp only [Option.map_eq_some_iff] at heq
       obtain ⟨_, _, hk⟩ := heq
       simp only [Prod.mk.injEq] at hk
       intro hd
       rw [hd] at hk
       exact absurd hk.1 (by decide))

theorem loop_ok (cfg : Cfg) (alts : List RootKind) (fuel : Nat) (l : Loop) (s : Str) (h : DataOk l.out) :
    ResOk (loop cfg alts fuel l s) := by
  induction fuel generalizing l s with
  | zero => exact finish_ok _ h
  | succ n ih =>
    unfold loop
    have hs := step_ok cfg alts l s h
    split
    · rename_i l' rest heq
      rw [heq] at hs
      exact ih l' rest hs
    · rename_i r heq
      rw [heq] at hs
      exact hs

theorem tokeniter_ok (cfg : Cfg) (src : Str) : ResOk (tokeniter cfg src) := by
  unfold tokeniter
  exact loop_ok _ _ _ _ _ (by intro t ht; cases ht)

end JinjaV.LexData
