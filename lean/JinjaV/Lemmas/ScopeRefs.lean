import JinjaV.Model.Scope
/-
  Helper lemmas for C32 (`refs_never_fail_*`): the reference dictionary of a frame only grows during its analysis
  (`Symbols.store/load/declare_parameter/branch_update` never delete a key), and every name a statement makes the code
  generator look up in its frame is given a reference by that statement's analysis.
-/
namespace JinjaV.Scope.Lemmas
open JinjaV.Scope

/-- `find_ref(n) is not None` -/
def HasRef (outer : List Name) (st : St) (n : Name) : Prop := n ∈ keys st.loads ∨ n ∈ outer

theorem hasRef_iff {outer : List Name} {st : St} {n : Name} : hasRef outer st n = true ↔ HasRef outer st n := by
  simp [hasRef, HasRef]

theorem keys_map_set (l : List (Name × Act)) (n : Name) (a : Act) :
    keys (l.map (fun p => if p.1 = n then (n, a) else p)) = keys l := by
  simp only [keys, List.map_map]
  apply List.map_congr_left
  intro p _
  simp only [Function.comp]
  split <;> simp_all

theorem mem_keys_setL {l : List (Name × Act)} {n : Name} {a : Act} {x : Name} :
    x ∈ keys (setL l n a) ↔ x ∈ keys l ∨ x = n := by
  unfold setL
  split
  · rename_i h
    rw [keys_map_set]
    constructor
    · exact Or.inl
    · rintro (h' | rfl)
      · exact h'
      · exact h
  · simp [keys]

theorem mem_keys_updateL : ∀ (m l : List (Name × Act)) (x : Name),
    x ∈ keys (updateL l m) ↔ x ∈ keys l ∨ x ∈ keys m
  | [], l, x => by simp [updateL, keys]
  | p :: m, l, x => by
    have ih := mem_keys_updateL m (setL l p.1 p.2) x
    simp only [updateL, List.foldl_cons] at ih ⊢
    rw [ih, mem_keys_setL]
    simp only [keys, List.map_cons, List.mem_cons]
    constructor
    · rintro ((h | h) | h)
      · exact Or.inl h
      · exact Or.inr (Or.inl h)
      · exact Or.inr (Or.inr h)
    · rintro (h | h | h)
      · exact Or.inl (Or.inl h)
      · exact Or.inl (Or.inr h)
      · exact Or.inr h

/-! ### single operations -/

theorem load_mono (outer : List Name) (n : Name) (st : St) (x : Name) :
    x ∈ keys st.loads → x ∈ keys (load outer n st).loads := by
  intro h
  unfold load
  split
  · exact h
  · exact mem_keys_setL.mpr (Or.inl h)

theorem load_has (outer : List Name) (n : Name) (st : St) : HasRef outer (load outer n st) n := by
  unfold load
  split
  · rename_i h
    exact hasRef_iff.mp h
  · exact Or.inl (mem_keys_setL.mpr (Or.inr rfl))

theorem store_mono (outer : List Name) (n : Name) (st : St) (x : Name) :
    x ∈ keys st.loads → x ∈ keys (store outer n st).loads := by
  intro h
  unfold store
  simp only
  split
  · exact h
  · split
    · exact mem_keys_setL.mpr (Or.inl h)
    · exact mem_keys_setL.mpr (Or.inl h)

theorem store_has (outer : List Name) (n : Name) (st : St) : HasRef outer (store outer n st) n := by
  unfold store
  simp only
  split
  · rename_i h
    exact Or.inl h
  · split
    · exact Or.inl (mem_keys_setL.mpr (Or.inr rfl))
    · exact Or.inl (mem_keys_setL.mpr (Or.inr rfl))

theorem declParam_mono (n : Name) (st : St) (x : Name) :
    x ∈ keys st.loads → x ∈ keys (declParam n st).loads := fun h => mem_keys_setL.mpr (Or.inl h)

theorem declParam_has (n : Name) (st : St) : n ∈ keys (declParam n st).loads := mem_keys_setL.mpr (Or.inr rfl)

theorem visitTgt_mono (outer : List Name) (t : Tgt) (st : St) (x : Name) :
    x ∈ keys st.loads → x ∈ keys (visitTgt outer t st).loads := by
  cases t <;> simp only [visitTgt]
  · exact store_mono _ _ _ _
  · exact load_mono _ _ _ _

theorem visitTgt_has (outer : List Name) (t : Tgt) (st : St) : HasRef outer (visitTgt outer t st) (tgtName t) := by
  cases t <;> simp only [visitTgt, tgtName]
  · exact store_has _ _ _
  · exact load_has _ _ _

/-! ### folds -/

theorem foldl_mono {α : Type} (f : St → α → St)
    (hf : ∀ st a x, x ∈ keys st.loads → x ∈ keys (f st a).loads) :
    ∀ (l : List α) (st : St) (x : Name), x ∈ keys st.loads → x ∈ keys (l.foldl f st).loads
  | [], st, x, h => h
  | a :: l, st, x, h => by
    simp only [List.foldl_cons]
    exact foldl_mono f hf l _ _ (hf _ _ _ h)

theorem foldl_has {α : Type} (outer : List Name) (f : St → α → St) (g : α → Name)
    (hf : ∀ st a x, x ∈ keys st.loads → x ∈ keys (f st a).loads)
    (hg : ∀ st a, HasRef outer (f st a) (g a)) :
    ∀ (l : List α) (st : St) (a : α), a ∈ l → HasRef outer (l.foldl f st) (g a)
  | [], st, a, h => by simp at h
  | b :: l, st, a, h => by
    simp only [List.foldl_cons]
    rcases List.mem_cons.mp h with rfl | h
    · rcases hg st a with h' | h'
      · exact Or.inl (foldl_mono f hf l _ _ h')
      · exact Or.inr h'
    · exact foldl_has outer f g hf hg l _ a h

theorem loadAll_mono (outer : List Name) (e : Expr) (st : St) (x : Name) :
    x ∈ keys st.loads → x ∈ keys (loadAll outer e st).loads :=
  foldl_mono _ (fun st a x => load_mono outer a st x) e st x

theorem loadAll_has (outer : List Name) (e : Expr) (st : St) (n : Name) (h : n ∈ e) :
    HasRef outer (loadAll outer e st) n :=
  foldl_has outer (fun s n => load outer n s) id (fun st a x => load_mono outer a st x) (fun st a => load_has outer a st) e st n h

theorem storeAll_mono (outer : List Name) (ns : List Name) (st : St) (x : Name) :
    x ∈ keys st.loads → x ∈ keys (storeAll outer ns st).loads :=
  foldl_mono _ (fun st a x => store_mono outer a st x) ns st x

theorem storeAll_has (outer : List Name) (ns : List Name) (st : St) (n : Name) (h : n ∈ ns) :
    HasRef outer (storeAll outer ns st) n :=
  foldl_has outer (fun s n => store outer n s) id (fun st a x => store_mono outer a st x) (fun st a => store_has outer a st) ns st n h

theorem declParams_mono (ns : List Name) (st : St) (x : Name) :
    x ∈ keys st.loads → x ∈ keys (declParams ns st).loads :=
  foldl_mono _ (fun st a x => declParam_mono a st x) ns st x

theorem declParams_has (ns : List Name) (st : St) (n : Name) (h : n ∈ ns) : n ∈ keys (declParams ns st).loads := by
  have := foldl_has [] (fun s n => declParam n s) id (fun st a x => declParam_mono a st x)
    (fun st a => Or.inl (declParam_has a st)) ns st n h
  rcases this with h | h
  · exact h
  · simp at h

theorem visitTgts_mono (outer : List Name) (ts : List Tgt) (st : St) (x : Name) :
    x ∈ keys st.loads → x ∈ keys (visitTgts outer ts st).loads :=
  foldl_mono _ (fun st a x => visitTgt_mono outer a st x) ts st x

theorem visitTgts_has (outer : List Name) (ts : List Tgt) (st : St) (t : Tgt) (h : t ∈ ts) :
    HasRef outer (visitTgts outer ts st) (tgtName t) :=
  foldl_has outer (fun s t => visitTgt outer t s) tgtName (fun st a x => visitTgt_mono outer a st x)
    (fun st a => visitTgt_has outer a st) ts st t h

/-! ### branch_update keeps every key of the frame and of each branch -/

theorem foldl_setL_mono (g : Name → Act) : ∀ (ns : List Name) (l : List (Name × Act)) (x : Name),
    x ∈ keys l → x ∈ keys (ns.foldl (fun acc n => setL acc n (g n)) l)
  | [], l, x, h => h
  | n :: ns, l, x, h => by
    simp only [List.foldl_cons]
    exact foldl_setL_mono g ns _ _ (mem_keys_setL.mpr (Or.inl h))

theorem foldl_update_keys : ∀ (bs : List St) (l : List (Name × Act)) (x : Name),
    (x ∈ keys l ∨ ∃ b, b ∈ bs ∧ x ∈ keys b.loads) → x ∈ keys (bs.foldl (fun acc b => updateL acc b.loads) l)
  | [], l, x, h => by
    rcases h with h | ⟨b, hb, _⟩
    · exact h
    · simp at hb
  | b :: bs, l, x, h => by
    simp only [List.foldl_cons]
    apply foldl_update_keys bs
    rcases h with h | ⟨b', hb, hx⟩
    · exact Or.inl ((mem_keys_updateL _ _ _).mpr (Or.inl h))
    · rcases List.mem_cons.mp hb with rfl | hb
      · exact Or.inl ((mem_keys_updateL _ _ _).mpr (Or.inr hx))
      · exact Or.inr ⟨b', hb, hx⟩

theorem branchUpdate_keys (outer : List Name) (st : St) (bs : List St) (x : Name)
    (h : x ∈ keys st.loads ∨ ∃ b, b ∈ bs ∧ x ∈ keys b.loads) : x ∈ keys (branchUpdate outer st bs).loads := by
  unfold branchUpdate
  simp only
  exact foldl_setL_mono _ _ _ _ (foldl_update_keys bs st.loads x h)

/-! ### the analysis of a statement list -/

mutual
theorem fsv_mono : ∀ (s : Stmt) (outer : List Name) (st : St) (x : Name),
    x ∈ keys st.loads → x ∈ keys (fsv outer s st).loads
  | .output e, outer, st, x, h => by simp only [fsv]; exact loadAll_mono _ _ _ _ h
  | .ite t b ei el, outer, st, x, h => by
    simp only [fsv]
    exact branchUpdate_keys _ _ _ _ (Or.inl (loadAll_mono _ _ _ _ h))
  | .for_ _ it _ _ _ _, outer, st, x, h => by simp only [fsv]; exact loadAll_mono _ _ _ _ h
  | .assign ts e, outer, st, x, h => by simp only [fsv]; exact visitTgts_mono _ _ _ _ (loadAll_mono _ _ _ _ h)
  | .assignBlock t _ _, outer, st, x, h => by simp only [fsv]; exact visitTgt_mono _ _ _ _ h
  | .with_ _ vs _, outer, st, x, h => by simp only [fsv]; exact loadAll_mono _ _ _ _ h
  | .macro_ n _ _ _, outer, st, x, h => by simp only [fsv]; exact store_mono _ _ _ _ h
  | .callBlock c _ _ _, outer, st, x, h => by simp only [fsv]; exact loadAll_mono _ _ _ _ h
  | .filterBlock f _, outer, st, x, h => by simp only [fsv]; exact loadAll_mono _ _ _ _ h
  | .block _ _ _, outer, st, x, h => by simp only [fsv]; exact h
  | .ref _ _ e binds, outer, st, x, h => by simp only [fsv]; exact storeAll_mono _ _ _ _ (loadAll_mono _ _ _ _ h)
  | .scope _, outer, st, x, h => by simp only [fsv]; exact h
  | .evalctx o b, outer, st, x, h => by simp only [fsv]; exact fsvs_mono b _ _ _ (loadAll_mono _ _ _ _ h)
theorem fsvs_mono : ∀ (ss : List Stmt) (outer : List Name) (st : St) (x : Name),
    x ∈ keys st.loads → x ∈ keys (fsvs outer ss st).loads
  | [], outer, st, x, h => by simp only [fsvs]; exact h
  | s :: ss, outer, st, x, h => by simp only [fsvs]; exact fsvs_mono ss _ _ _ (fsv_mono s _ _ _ h)
end

theorem HasRef.mono {outer : List Name} {st st' : St} {n : Name}
    (hm : ∀ x, x ∈ keys st.loads → x ∈ keys st'.loads) : HasRef outer st n → HasRef outer st' n := by
  rintro (h | h)
  · exact Or.inl (hm _ h)
  · exact Or.inr h

mutual
theorem needs_have : ∀ (s : Stmt) (outer : List Name) (st : St) (n : Name),
    n ∈ needs s → HasRef outer (fsv outer s st) n
  | .output e, outer, st, n, h => by simp only [needs] at h; simp only [fsv]; exact loadAll_has _ _ _ _ h
  | .ite t b ei el, outer, st, n, h => by
    simp only [needs, List.mem_append] at h
    simp only [fsv]
    have key : ∀ B, B ∈ [fsvs outer b (loadAll outer t st), fsvs outer ei (loadAll outer t st), fsvs outer el (loadAll outer t st)] →
        HasRef outer B n → HasRef outer (branchUpdate outer (loadAll outer t st)
          [fsvs outer b (loadAll outer t st), fsvs outer ei (loadAll outer t st), fsvs outer el (loadAll outer t st)]) n := by
      intro B hB hr
      rcases hr with hr | hr
      · exact Or.inl (branchUpdate_keys _ _ _ _ (Or.inr ⟨B, hB, hr⟩))
      · exact Or.inr hr
    rcases h with ((h | h) | h) | h
    · exact (loadAll_has outer t st n h).mono (fun x hx => branchUpdate_keys _ _ _ _ (Or.inl hx))
    · exact key (fsvs outer b (loadAll outer t st)) (by simp) (needss_have b _ _ _ h)
    · exact key (fsvs outer ei (loadAll outer t st)) (by simp) (needss_have ei _ _ _ h)
    · exact key (fsvs outer el (loadAll outer t st)) (by simp) (needss_have el _ _ _ h)
  | .for_ _ it _ _ _ _, outer, st, n, h => by simp only [needs] at h; simp only [fsv]; exact loadAll_has _ _ _ _ h
  | .assign ts e, outer, st, n, h => by
    simp only [needs, List.mem_append, List.mem_map] at h
    simp only [fsv]
    rcases h with h | ⟨t, ht, rfl⟩
    · exact (loadAll_has outer e st n h).mono (fun x hx => visitTgts_mono _ _ _ _ hx)
    · exact visitTgts_has _ _ _ _ ht
  | .assignBlock t _ _, outer, st, n, h => by
    simp only [needs, List.mem_singleton] at h
    subst h
    simp only [fsv]
    exact visitTgt_has _ _ _
  | .with_ _ vs _, outer, st, n, h => by simp only [needs] at h; simp only [fsv]; exact loadAll_has _ _ _ _ h
  | .macro_ nm _ _ _, outer, st, n, h => by
    simp only [needs, List.mem_singleton] at h
    subst h
    simp only [fsv]
    exact store_has _ _ _
  | .callBlock c _ _ _, outer, st, n, h => by simp only [needs] at h; simp only [fsv]; exact loadAll_has _ _ _ _ h
  | .filterBlock _ _, outer, st, n, h => by simp [needs] at h
  | .block _ _ _, outer, st, n, h => by simp [needs] at h
  | .ref _ _ e binds, outer, st, n, h => by
    simp only [needs, List.mem_append] at h
    simp only [fsv]
    rcases h with h | h
    · exact (loadAll_has outer e st n h).mono (fun x hx => storeAll_mono _ _ _ _ hx)
    · exact storeAll_has _ _ _ _ h
  | .scope _, outer, st, n, h => by simp [needs] at h
  | .evalctx o b, outer, st, n, h => by
    simp only [needs, List.mem_append] at h
    simp only [fsv]
    rcases h with h | h
    · exact (loadAll_has outer o st n h).mono (fun x hx => fsvs_mono b _ _ _ hx)
    · exact needss_have b _ _ _ h
theorem needss_have : ∀ (ss : List Stmt) (outer : List Name) (st : St) (n : Name),
    n ∈ needss ss → HasRef outer (fsvs outer ss st) n
  | [], outer, st, n, h => by simp [needss] at h
  | s :: ss, outer, st, n, h => by
    simp only [needss, List.mem_append] at h
    simp only [fsvs]
    rcases h with h | h
    · exact (needs_have s outer st n h).mono (fun x hx => fsvs_mono ss _ _ _ hx)
    · exact needss_have ss _ _ _ h
end


/-! ### every frame: what the code generator visits in it has a reference -/

theorem allRef_of {outer : List Name} {st : St} {ns : List Name} (h : ∀ n, n ∈ ns → HasRef outer st n) :
    allRef outer st ns = true := by
  simp only [allRef, List.all_eq_true]
  intro n hn
  exact hasRef_iff.mpr (h n hn)

theorem macroFrame_eq (o' : List Name) (args : List Name) (d : Expr) (body : List Stmt) :
    ∃ st0, macroFrame o' args d body = fsvs o' body (loadAll o' d (declParams args st0)) := by
  unfold macroFrame macroAnalyse
  exact ⟨_, rfl⟩

theorem loopFrame_eq (o' : List Name) (tg : List Name) (body els : List Stmt) (rc : Bool) :
    ∃ st0, loopFrame o' tg body els rc = fsvs o' body (declParams tg st0) := by
  unfold loopFrame
  exact ⟨_, rfl⟩

mutual
theorem refOk_of : ∀ (s : Stmt) (outer : List Name) (st : St),
    (∀ n, n ∈ needs s → HasRef outer st n) → refOk outer st s = true
  | .output e, outer, st, h => by
    simp only [refOk]
    exact allRef_of (fun n hn => h n (by simpa [needs] using hn))
  | .ite t b ei el, outer, st, h => by
    simp only [refOk, Bool.and_eq_true]
    refine ⟨⟨⟨?_, ?_⟩, ?_⟩, ?_⟩
    · exact allRef_of (fun n hn => h n (by simp [needs, hn]))
    · exact refOks_of b _ _ (fun n hn => h n (by simp [needs, hn]))
    · exact refOks_of ei _ _ (fun n hn => h n (by simp [needs, hn]))
    · exact refOks_of el _ _ (fun n hn => h n (by simp [needs, hn]))
  | .for_ tg it body els test rc, outer, st, h => by
    simp only [refOk, Bool.and_eq_true]
    obtain ⟨st0, hlf⟩ := loopFrame_eq (inner outer st) tg body els rc
    refine ⟨⟨⟨⟨?_, ?_⟩, ?_⟩, ?_⟩, ?_⟩
    · exact allRef_of (fun n hn => h n (by simpa [needs] using hn))
    · rw [hlf]
      exact allRef_of (fun n hn => Or.inl (fsvs_mono body _ _ _ (declParams_has tg st0 n hn)))
    · cases test with
      | none => rfl
      | some t =>
        simp only [testFrame]
        exact allRef_of (fun n hn => loadAll_has _ _ _ _ hn)
    · rw [hlf]
      exact refOks_of body _ _ (fun n hn => needss_have body _ _ n hn)
    · simp only [elseFrame]
      exact refOks_of els _ _ (fun n hn => needss_have els _ _ n hn)
  | .assign ts e, outer, st, h => by
    simp only [refOk]
    exact allRef_of (fun n hn => h n (by simpa [needs] using hn))
  | .assignBlock t flt body, outer, st, h => by
    simp only [refOk, Bool.and_eq_true, filterFrame]
    refine ⟨⟨?_, ?_⟩, ?_⟩
    · exact allRef_of (fun n hn => h n (by simpa [needs] using hn))
    · exact allRef_of (fun n hn => loadAll_has _ _ _ _ hn)
    · exact refOks_of body _ _ (fun n hn => (needss_have body _ _ n hn).mono (fun x hx => loadAll_mono _ _ _ _ hx))
  | .with_ tg vs body, outer, st, h => by
    simp only [refOk, Bool.and_eq_true, withFrame]
    refine ⟨⟨?_, ?_⟩, ?_⟩
    · exact allRef_of (fun n hn => h n (by simpa [needs] using hn))
    · exact allRef_of (fun n hn => Or.inl (fsvs_mono body _ _ _ (declParams_has tg _ n hn)))
    · exact refOks_of body _ _ (fun n hn => needss_have body _ _ n hn)
  | .macro_ nm args d body, outer, st, h => by
    simp only [refOk, Bool.and_eq_true]
    obtain ⟨st0, hf⟩ := macroFrame_eq (inner outer st) args d body
    rw [hf]
    refine ⟨⟨?_, ?_⟩, ?_⟩
    · exact allRef_of (fun n hn => h n (by simpa [needs] using hn))
    · refine allRef_of (fun n hn => ?_)
      rcases List.mem_append.mp hn with hn | hn
      · exact Or.inl (fsvs_mono body _ _ _ (loadAll_mono _ _ _ _ (declParams_has args st0 n hn)))
      · exact (loadAll_has _ d _ n hn).mono (fun x hx => fsvs_mono body _ _ _ hx)
    · exact refOks_of body _ _ (fun n hn => needss_have body _ _ n hn)
  | .callBlock c args d body, outer, st, h => by
    simp only [refOk, Bool.and_eq_true]
    obtain ⟨st0, hf⟩ := macroFrame_eq (inner outer st) args d body
    rw [hf]
    refine ⟨⟨?_, ?_⟩, ?_⟩
    · exact allRef_of (fun n hn => h n (by simpa [needs] using hn))
    · refine allRef_of (fun n hn => ?_)
      rcases List.mem_append.mp hn with hn | hn
      · exact Or.inl (fsvs_mono body _ _ _ (loadAll_mono _ _ _ _ (declParams_has args st0 n hn)))
      · exact (loadAll_has _ d _ n hn).mono (fun x hx => fsvs_mono body _ _ _ hx)
    · exact refOks_of body _ _ (fun n hn => needss_have body _ _ n hn)
  | .filterBlock flt body, outer, st, h => by
    simp only [refOk, Bool.and_eq_true, filterFrame]
    refine ⟨?_, ?_⟩
    · exact allRef_of (fun n hn => loadAll_has _ _ _ _ hn)
    · exact refOks_of body _ _ (fun n hn => (needss_have body _ _ n hn).mono (fun x hx => loadAll_mono _ _ _ _ hx))
  | .block _ _ _, outer, st, h => by simp only [refOk]
  | .ref _ _ e binds, outer, st, h => by
    simp only [refOk]
    exact allRef_of (fun n hn => h n (by simpa [needs] using hn))
  | .scope body, outer, st, h => by
    simp only [refOk, plainFrame]
    exact refOks_of body _ _ (fun n hn => needss_have body _ _ n hn)
  | .evalctx o b, outer, st, h => by
    simp only [refOk, Bool.and_eq_true]
    refine ⟨?_, ?_⟩
    · exact allRef_of (fun n hn => h n (by simp [needs, hn]))
    · exact refOks_of b _ _ (fun n hn => h n (by simp [needs, hn]))
theorem refOks_of : ∀ (ss : List Stmt) (outer : List Name) (st : St),
    (∀ n, n ∈ needss ss → HasRef outer st n) → refOks outer st ss = true
  | [], outer, st, h => by simp only [refOks]
  | s :: ss, outer, st, h => by
    simp only [refOks, Bool.and_eq_true]
    exact ⟨refOk_of s _ _ (fun n hn => h n (by simp [needss, hn])),
           refOks_of ss _ _ (fun n hn => h n (by simp [needss, hn]))⟩
end

end JinjaV.Scope.Lemmas
