/-
  C15's invariant over Model/Autoesc.lean: every Markup value that can be constructed is free of `< > " '`.  Core Lean only.
-/
import JinjaV.Lemmas.Escape
import JinjaV.Lemmas.HtmlFilt
import JinjaV.Model.Autoesc
namespace JinjaV.Autoesc
open JinjaV.Escape JinjaV.HtmlFilt List

theorem lookup_clean {env : List Val} (he : ∀ v ∈ env, v.Clean) (i : Nat) : (lookup env i).Clean := by
  unfold lookup
  induction env generalizing i with
  | nil => simp [Val.Clean]
  | cons v vs ih =>
    cases i with
    | zero => simpa using he v (by simp)
    | succ i => simpa using ih (fun x hx => he x (List.mem_cons_of_mem _ hx)) i

theorem markupJoin_clean {a b : Val} (ha : a.Clean) (hb : b.Clean) : (markupJoin a b).Clean := by
  unfold markupJoin
  split
  · exact MFree.append (Val.esc_mfree ha) (Val.esc_mfree hb)
  · trivial

theorem doEscape_clean {v : Val} (hv : v.Clean) : (doEscape v).Clean := Val.esc_mfree hv

theorem doForceescape_clean (v : Val) : (doForceescape v).Clean := (escape_esc _).mfree

/-- the invariant, for values and bodies at once: with template text free of `< > " '` and an environment whose Markup
    values are free of them, every value constructed is clean and everything written is free of them -/
theorem clean_aux (wrap : List Char → List (List Char)) (t : Tm) (ht : ∀ x ∈ t.texts, MFree x) :
    ∀ env : List Val, (∀ v ∈ env, v.Clean) → (valOn wrap t env).Clean ∧ MFree (outOn wrap t env) := by
  induction t with
  | lit s => intro env _; simp only [valOn, outOn]; exact ⟨trivial, (escape_esc s).mfree⟩
  | var i => intro env he; simp only [valOn, outOn]; exact ⟨lookup_clean he i, Val.esc_mfree (lookup_clean he i)⟩
  | cat a b iha ihb =>
    intro env he
    simp only [Tm.texts, List.mem_append] at ht
    have h := markupJoin_clean (iha (fun x hx => ht x (Or.inl hx)) env he).1 (ihb (fun x hx => ht x (Or.inr hx)) env he).1
    simp only [valOn, outOn]
    exact ⟨h, Val.esc_mfree h⟩
  | blk n ih =>
    intro env he
    have h := (ih ht env he).2
    simp only [valOn, outOn]
    exact ⟨h, h⟩
  | text t =>
    intro env _
    have h : MFree t := ht t (by simp [Tm.texts])
    simp only [valOn, outOn]
    exact ⟨h, h⟩
  | emit e ih =>
    intro env he
    have h := Val.esc_mfree (ih ht env he).1
    simp only [valOn, outOn]
    exact ⟨h, h⟩
  | seq a b iha ihb =>
    intro env he
    simp only [Tm.texts, List.mem_append] at ht
    have h := MFree.append (iha (fun x hx => ht x (Or.inl hx)) env he).2 (ihb (fun x hx => ht x (Or.inr hx)) env he).2
    simp only [valOn, outOn]
    exact ⟨h, h⟩
  | bind e n ihe ihn =>
    intro env he
    simp only [Tm.texts, List.mem_append] at ht
    have hv := (ihe (fun x hx => ht x (Or.inl hx)) env he).1
    have h := (ihn (fun x hx => ht x (Or.inr hx)) (valOn wrap e env :: env) (by
      intro v hvm
      rcases List.mem_cons.mp hvm with rfl | hvm
      · exact hv
      · exact he v hvm)).2
    simp only [valOn, outOn]
    exact ⟨h, h⟩
  | empty => intro env _; simp only [valOn, outOn]; exact ⟨MFree.nil, MFree.nil⟩
  | esc e ih =>
    intro env he
    have h := doEscape_clean (ih ht env he).1
    simp only [valOn, outOn]
    exact ⟨h, Val.esc_mfree h⟩
  | force e ih =>
    intro env he
    have h := doForceescape_clean (valOn wrap e env)
    simp only [valOn, outOn]
    exact ⟨h, Val.esc_mfree h⟩
  | add a b iha ihb =>
    intro env he
    simp only [Tm.texts, List.mem_append] at ht
    have h := vAdd_clean (iha (fun x hx => ht x (Or.inl hx)) env he).1 (ihb (fun x hx => ht x (Or.inr hx)) env he).1
    simp only [valOn, outOn]
    exact ⟨h, Val.esc_mfree h⟩
  | mod f a ihf iha =>
    intro env he
    simp only [Tm.texts, List.mem_append] at ht
    have hf := (ihf (fun x hx => ht x (Or.inl hx)) env he).1
    have ha := (iha (fun x hx => ht x (Or.inr hx)) env he).1
    simp only [valOn, outOn]
    cases hm : vMod (valOn wrap f env) [valOn wrap a env] with
    | none => exact ⟨trivial, MFree.nil⟩
    | some r =>
      cases r with
      | error u => exact ⟨trivial, MFree.nil⟩
      | ok v =>
        have hv : v.Clean := vMod_clean hf (by intro x hx; simp only [List.mem_singleton] at hx; subst hx; exact ha) hm
        exact ⟨hv, Val.esc_mfree hv⟩
  | join d a b ihd iha ihb =>
    intro env he
    simp only [Tm.texts, List.mem_append] at ht
    have hd := (ihd (fun x hx => ht x (Or.inl (Or.inl hx))) env he).1
    have ha := (iha (fun x hx => ht x (Or.inl (Or.inr hx))) env he).1
    have hb := (ihb (fun x hx => ht x (Or.inr hx)) env he).1
    have h := doJoin_clean (value := [valOn wrap a env, valOn wrap b env]) (d := valOn wrap d env) (by
      intro v hv
      simp only [List.mem_cons, List.not_mem_nil, or_false] at hv
      rcases hv with rfl | rfl
      · exact ha
      · exact hb) hd
    simp only [valOn, outOn]
    exact ⟨h, Val.esc_mfree h⟩
  | replace s o n ihs iho ihn =>
    intro env he
    simp only [Tm.texts, List.mem_append] at ht
    have hs := (ihs (fun x hx => ht x (Or.inl (Or.inl hx))) env he).1
    have hn := (ihn (fun x hx => ht x (Or.inr hx)) env he).1
    have h := doReplace_clean (old := valOn wrap o env) none hs hn
    simp only [valOn, outOn]
    exact ⟨h, Val.esc_mfree h⟩
  | indent s w ihs ihw =>
    intro env he
    simp only [Tm.texts, List.mem_append] at ht
    have hs := (ihs (fun x hx => ht x (Or.inl hx)) env he).1
    have hw := (ihw (fun x hx => ht x (Or.inr hx)) env he).1
    have h : ((doIndent (valOn wrap s env) (.str (valOn wrap w env)) true false).getD (.plain [])).Clean := by
      cases hi : doIndent (valOn wrap s env) (.str (valOn wrap w env)) true false with
      | none => trivial
      | some r =>
        exact doIndent_clean hs (by intro v hv; cases hv; exact hw) hi
    simp only [valOn, outOn]
    exact ⟨h, Val.esc_mfree h⟩
  | truncate s e n ihs ihe =>
    intro env he
    simp only [Tm.texts, List.mem_append] at ht
    have hs := (ihs (fun x hx => ht x (Or.inl hx)) env he).1
    have hee := (ihe (fun x hx => ht x (Or.inr hx)) env he).1
    have h : ((doTruncate (valOn wrap s env) n true (valOn wrap e env) 0).getD (.plain [])).Clean := by
      cases hi : doTruncate (valOn wrap s env) n true (valOn wrap e env) 0 with
      | none => trivial
      | some r => exact doTruncate_clean hs hee hi
    simp only [valOn, outOn]
    exact ⟨h, Val.esc_mfree h⟩
  | wordwrap s w ihs ihw =>
    intro env he
    simp only [Tm.texts, List.mem_append] at ht
    have hw := (ihw (fun x hx => ht x (Or.inr hx)) env he).1
    have h := doWordwrap_clean wrap (s := valOn wrap s env) hw
    simp only [valOn, outOn]
    exact ⟨h, Val.esc_mfree h⟩

end JinjaV.Autoesc
