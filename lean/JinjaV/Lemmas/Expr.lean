/-
  Helper lemmas for M-Expr (monad laws of the event-logging evaluator, context independence of lookups on
  literal values).
-/
import JinjaV.Model.Expr

namespace JinjaV.Expr

theorem bind_ok {α β} (a : α) (f : α → M β) : (M.ok a >>= f) = f a := by
  show (match (([], Except.ok a) : List Ev × Except Err α) with
    | (l, .ok a) => let r := f a; ((l ++ r.1, r.2) : List Ev × Except Err β)
    | (l, .error e) => (l, .error e)) = f a
  simp; rfl

theorem pure_def {α} (a : α) : (pure a : M α) = M.ok a := rfl

theorem lift_ok {α} (a : α) : (M.lift (.ok a) : M α) = M.ok a := rfl

theorem okOpt_some {α} {x : Except Err α} {a : α} (h : okOpt x = some a) : x = .ok a := by
  cases x <;> simp_all [okOpt]

theorem constResult_some {g : Guards} {r : Option Val} {v : Val} (h : constResult g r = some v) : r = some v := by
  unfold constResult at h
  split at h
  · split at h <;> simp_all
  · simp at h

theorem pyGetattr_ctx (ctx : Ctx) (v : Val) (a : String) (h : isObj v = false) :
    pyGetattr ctx v a = pyGetattr emptyCtx v a := by
  cases v <;> simp_all [pyGetattr, isObj]

theorem pyGetitem_ctx (ctx : Ctx) (v k : Val) (h : isObj v = false) :
    pyGetitem ctx v k = pyGetitem emptyCtx v k := by
  cases v <;> simp_all [pyGetitem, isObj]

theorem envGetattr_ctx (ctx : Ctx) (v : Val) (a : String) (h : isObj v = false) :
    envGetattr ctx v a = envGetattr emptyCtx v a := by
  simp [envGetattr, pyGetattr_ctx ctx v a h, pyGetitem_ctx ctx v _ h]

theorem envGetitem_ctx (ctx : Ctx) (v k : Val) (h : isObj v = false) :
    envGetitem ctx v k = envGetitem emptyCtx v k := by
  simp [envGetitem, pyGetitem_ctx ctx v k h]
  split <;> try rfl
  all_goals (split <;> simp [pyGetattr_ctx ctx v _ h])

end JinjaV.Expr
