/-
  Lemmas about Model/Autoesc.lean.  Core Lean only.
-/
import JinjaV.Lemmas.Escape
import JinjaV.Lemmas.HtmlFilt
import JinjaV.Model.Autoesc
namespace JinjaV.Autoesc
open JinjaV.Escape JinjaV.HtmlFilt List

theorem AmpOK.append {a b : List Char} (ha : AmpOK a) (hb : AmpOK b) : AmpOK (a ++ b) := by
  induction ha with
  | nil => simpa using hb
  | chr c t hc _ ih => exact AmpOK.chr c _ hc ih
  | ent e c t he _ ih => rw [List.append_assoc]; exact AmpOK.ent e c _ he ih

theorem AmpOK.of_esc {t : List Char} (h : Esc t) : AmpOK t := by
  induction h with
  | nil => exact AmpOK.nil
  | chr c t hc _ ih =>
    refine AmpOK.chr c t ?_ ih
    intro h; subst h; simp [isSpecial] at hc
  | ent e c t he _ ih => exact AmpOK.ent e c t he ih

theorem AmpOK.of_noamp {t : List Char} (h : '&' ∉ t) : AmpOK t := by
  induction t with
  | nil => exact AmpOK.nil
  | cons c t ih =>
    simp only [List.mem_cons, not_or] at h
    exact AmpOK.chr c t (fun e => h.1 e.symm) (ih h.2)

/-- `unescape` is a homomorphism on text whose `&`s all start entities -/
theorem unescape_append_of_ampok {a : List Char} (ha : AmpOK a) (b : List Char) :
    unescape (a ++ b) = unescape a ++ unescape b := by
  induction ha with
  | nil => simp [unescape_nil]
  | chr c t hc _ ih => rw [List.cons_append, unescape_chr hc, unescape_chr hc, ih, List.cons_append]
  | ent e c t he _ ih => rw [List.append_assoc, unescape_entity he, unescape_entity he, ih, List.cons_append]

theorem unescape_noamp {t : List Char} (h : '&' ∉ t) : unescape t = t := by
  induction t with
  | nil => rfl
  | cons c t ih =>
    simp only [List.mem_cons, not_or] at h
    rw [unescape_chr (fun e => h.1 e.symm), ih h.2]

theorem unescape_escape (s : List Char) : unescape (escape s) = s := by
  induction s with
  | nil => rw [escape_nil]; rfl
  | cons c s ih => rw [escape_cons, unescape_escChar, ih]

/-- the output step keeps the relation: `escape(v)` unescapes to the string printed without autoescape -/
theorem Once.esc {v : Val} {s : List Char} (h : Once v s) : AmpOK v.esc ∧ unescape v.esc = s := by
  cases v with
  | plain p =>
    simp only [Once] at h
    subst h
    exact ⟨AmpOK.of_esc (escape_esc p), unescape_escape p⟩
  | markup m => exact h

theorem Once.text {v : Val} {s : List Char} (h : Once v s) : v.isMarkup = false → v.text = s := by
  intro hm
  cases v with
  | plain p => exact h
  | markup m => cases hm

theorem once_markupJoin {x y : Val} {sx sy : List Char} (hx : Once x sx) (hy : Once y sy) :
    Once (markupJoin x y) (sx ++ sy) := by
  unfold markupJoin
  split
  · obtain ⟨ax, ux⟩ := hx.esc
    obtain ⟨ay, uy⟩ := hy.esc
    exact ⟨ax.append ay, by rw [unescape_append_of_ampok ax, ux, uy]⟩
  · rename_i hm
    simp only [Bool.or_eq_true, not_or, Bool.not_eq_true] at hm
    show x.text ++ y.text = sx ++ sy
    rw [hx.text hm.1, hy.text hm.2]

/-- `join` keeps the relation whichever of delimiter and items are Markup: all plain → a plain join; otherwise a Markup
    join in which every plain piece is escaped and every Markup piece (the delimiter included) is kept -/
theorem once_doJoin {x y d : Val} {sx sy sd : List Char} (hx : Once x sx) (hy : Once y sy) (hd : Once d sd) :
    Once (doJoin true [x, y] d) (sx ++ sd ++ sy) := by
  obtain ⟨ax, ux⟩ := hx.esc
  obtain ⟨ay, uy⟩ := hy.esc
  obtain ⟨ad, ud⟩ := hd.esc
  have hm : Once (Val.markup (x.esc ++ d.esc ++ y.esc)) (sx ++ sd ++ sy) :=
    ⟨(ax.append ad).append ay, by
      rw [unescape_append_of_ampok (ax.append ad), unescape_append_of_ampok ax, ux, ud, uy]⟩
  have h2 : ∀ (s p q : List Char), s.intercalate [p, q] = p ++ s ++ q := by
    intro s p q; simp [List.intercalate, List.intersperse]
  cases d with
  | markup dm =>
    have e : doJoin true [x, y] (.markup dm) = .markup (x.esc ++ dm ++ y.esc) := by
      have hdm : (Val.markup dm).isMarkup = true := rfl
      simp only [doJoin, Bool.not_true, Bool.false_eq_true, ↓reduceIte, hdm, vJoin, List.map_cons, List.map_nil, h2]
    rw [e]; exact hm
  | plain dp =>
    have hdp : (Val.plain dp).isMarkup = false := rfl
    by_cases hany : (x.isMarkup || y.isMarkup) = true
    · have e : doJoin true [x, y] (.plain dp) = .markup (x.esc ++ (Val.plain dp).esc ++ y.esc) := by
        simp only [doJoin, Bool.not_true, Bool.false_eq_true, ↓reduceIte, hdp, Bool.not_false, List.any_cons, List.any_nil,
          Bool.or_false, hany, vJoin, List.map_cons, List.map_nil, h2]
      rw [e]; exact hm
    · have e : doJoin true [x, y] (.plain dp) = .plain (x.text ++ dp ++ y.text) := by
        simp only [doJoin, Bool.not_true, Bool.false_eq_true, ↓reduceIte, hdp, Bool.not_false, List.any_cons, List.any_nil,
          Bool.or_false, hany, vJoin, List.map_cons, List.map_nil, h2]
      rw [e]
      simp only [Bool.or_eq_true, not_or, Bool.not_eq_true] at hany
      show x.text ++ dp ++ y.text = sx ++ sd ++ sy
      rw [hx.text hany.1, hy.text hany.2]
      have : dp = sd := hd
      rw [this]

theorem once_lookup {envOn : List Val} {envOff : List (List Char)} (h : EnvOnce envOn envOff) (i : Nat) :
    Once (lookup envOn i) (envOff.getD i []) := by
  induction h generalizing i with
  | nil => simp [lookup, Once]
  | cons hab _ ih =>
    cases i with
    | zero => simpa [lookup] using hab
    | succ i => simpa [lookup] using ih i

/-- the invariant of C16, for values and for bodies at once -/
theorem once_aux (wrap : List Char → List (List Char)) (t : Tm) (hn : t.neutral = true) (ht : ∀ x ∈ t.texts, '&' ∉ x) :
    ∀ (envOn : List Val) (envOff : List (List Char)), EnvOnce envOn envOff →
      Once (valOn wrap t envOn) (valOff t envOff) ∧
      (AmpOK (outOn wrap t envOn) ∧ unescape (outOn wrap t envOn) = outOff t envOff) := by
  induction t with
  | lit s =>
    intro envOn envOff _
    simp only [valOn, valOff, outOn, outOff]
    exact ⟨rfl, AmpOK.of_esc (escape_esc s), unescape_escape s⟩
  | var i =>
    intro envOn envOff he
    simp only [valOn, valOff, outOn, outOff]
    exact ⟨once_lookup he i, (once_lookup he i).esc⟩
  | cat a b iha ihb =>
    intro envOn envOff he
    simp only [Tm.neutral, Bool.and_eq_true] at hn
    simp only [Tm.texts, List.mem_append] at ht
    have ha := (iha hn.1 (fun x hx => ht x (Or.inl hx)) envOn envOff he).1
    have hb := (ihb hn.2 (fun x hx => ht x (Or.inr hx)) envOn envOff he).1
    simp only [valOn, valOff, outOn, outOff]
    exact ⟨once_markupJoin ha hb, (once_markupJoin ha hb).esc⟩
  | blk n ih =>
    intro envOn envOff he
    simp only [Tm.neutral] at hn
    have h := (ih hn ht envOn envOff he).2
    simp only [valOn, valOff, outOn, outOff]
    exact ⟨h, h⟩
  | text t =>
    intro envOn envOff _
    have h : '&' ∉ t := ht t (by simp [Tm.texts])
    simp only [valOn, valOff, outOn, outOff]
    exact ⟨⟨AmpOK.of_noamp h, unescape_noamp h⟩, AmpOK.of_noamp h, unescape_noamp h⟩
  | emit e ih =>
    intro envOn envOff he
    simp only [Tm.neutral] at hn
    have h := (ih hn ht envOn envOff he).1.esc
    simp only [valOn, valOff, outOn, outOff]
    exact ⟨h, h⟩
  | seq a b iha ihb =>
    intro envOn envOff he
    simp only [Tm.neutral, Bool.and_eq_true] at hn
    simp only [Tm.texts, List.mem_append] at ht
    obtain ⟨aa, ua⟩ := (iha hn.1 (fun x hx => ht x (Or.inl hx)) envOn envOff he).2
    obtain ⟨ab, ub⟩ := (ihb hn.2 (fun x hx => ht x (Or.inr hx)) envOn envOff he).2
    have h : AmpOK (outOn wrap a envOn ++ outOn wrap b envOn) ∧
        unescape (outOn wrap a envOn ++ outOn wrap b envOn) = outOff a envOff ++ outOff b envOff :=
      ⟨aa.append ab, by rw [unescape_append_of_ampok aa, ua, ub]⟩
    simp only [valOn, valOff, outOn, outOff]
    exact ⟨h, h⟩
  | bind e n ihe ihn =>
    intro envOn envOff he
    simp only [Tm.neutral, Bool.and_eq_true] at hn
    simp only [Tm.texts, List.mem_append] at ht
    have hv := (ihe hn.1 (fun x hx => ht x (Or.inl hx)) envOn envOff he).1
    have h := (ihn hn.2 (fun x hx => ht x (Or.inr hx)) _ _ (EnvOnce.cons hv he)).2
    simp only [valOn, valOff, outOn, outOff]
    exact ⟨h, h⟩
  | empty =>
    intro envOn envOff _
    simp only [valOn, valOff, outOn, outOff]
    exact ⟨⟨AmpOK.nil, rfl⟩, AmpOK.nil, rfl⟩
  | esc e _ => simp [Tm.neutral] at hn
  | force e _ => simp [Tm.neutral] at hn
  | add a b _ _ => simp [Tm.neutral] at hn
  | mod f a _ _ => simp [Tm.neutral] at hn
  | join d a b ihd iha ihb =>
    intro envOn envOff he
    simp only [Tm.neutral, Bool.and_eq_true] at hn
    simp only [Tm.texts, List.mem_append] at ht
    have hd := (ihd hn.1.1 (fun x hx => ht x (Or.inl (Or.inl hx))) envOn envOff he).1
    have ha := (iha hn.1.2 (fun x hx => ht x (Or.inl (Or.inr hx))) envOn envOff he).1
    have hb := (ihb hn.2 (fun x hx => ht x (Or.inr hx)) envOn envOff he).1
    have h := once_doJoin ha hb hd
    simp only [valOn, valOff, outOn, outOff]
    exact ⟨h, h.esc⟩
  | replace s o n _ _ _ => simp [Tm.neutral] at hn
  | indent s w _ _ => simp [Tm.neutral] at hn
  | truncate s e n _ _ => simp [Tm.neutral] at hn
  | wordwrap s w _ _ => simp [Tm.neutral] at hn

end JinjaV.Autoesc
