import JinjaV.Model.I18n
import JinjaV.Spec.I18n
/-
  Helper lemmas for Props/C33.lean (core Lean only).
-/
namespace JinjaV.I18n
open JinjaV.Spec.I18n

/-! ### `%` un-doubling -/

theorem undouble_cons_ne (c : Char) (r : Text) (h : c ≠ '%') : undouble (c :: r) = c :: undouble r := by
  rw [undouble]
  intro r' h1 _
  exact absurd h1 h

theorem escPct_cons_pct (r : Text) : escPct ('%' :: r) = '%' :: '%' :: escPct r := by simp [escPct]
theorem escPct_cons_ne (c : Char) (r : Text) (h : c ≠ '%') : escPct (c :: r) = c :: escPct r := by simp [escPct, h]

theorem undouble_escPct (t : Text) : undouble (escPct t) = t := by
  induction t with
  | nil => rfl
  | cons c r ih =>
    by_cases h : c = '%'
    · subst h; rw [escPct_cons_pct, undouble, ih]
    · rw [escPct_cons_ne _ _ h, undouble_cons_ne _ _ h, ih]

/-! ### `%`-formatting -/

/-- the shape of every recursive result of `fmtGo` -/
def mapOk (f : Text → Text) : Except FmtErr Text → Except FmtErr Text
  | .ok o => .ok (f o)
  | .error e => .error e

theorem fmtGo_text_cons_ne (L : Text → Option Text) (c : Char) (r : Text) (h : c ≠ '%') :
    fmtGo L .text (c :: r) = mapOk (c :: ·) (fmtGo L .text r) := by
  rw [fmtGo]; simp only [h, if_false]; cases fmtGo L .text r <;> rfl

theorem fmtGo_text_pct_pct (L : Text → Option Text) (r : Text) :
    fmtGo L .text ('%' :: '%' :: r) = mapOk ('%' :: ·) (fmtGo L .text r) := by
  rw [fmtGo]; simp only [if_true]; rw [fmtGo]; simp only [if_true]; cases fmtGo L .text r <;> rfl

theorem mapOk_mapOk (f g : Text → Text) (x : Except FmtErr Text) : mapOk f (mapOk g x) = mapOk (f ∘ g) x := by
  cases x <;> rfl

/-- literal text escaped by `_parse_block` formats back to itself -/
theorem fmtGo_escPct (L : Text → Option Text) (t rest : Text) :
    fmtGo L .text (escPct t ++ rest) = mapOk (t ++ ·) (fmtGo L .text rest) := by
  induction t with
  | nil => simp [escPct]; cases fmtGo L .text rest <;> rfl
  | cons c r ih =>
    by_cases h : c = '%'
    · subst h
      rw [escPct_cons_pct]; simp only [List.cons_append]
      rw [fmtGo_text_pct_pct, ih, mapOk_mapOk]; rfl
    · rw [escPct_cons_ne _ _ h]; simp only [List.cons_append]
      rw [fmtGo_text_cons_ne _ _ _ h, ih, mapOk_mapOk]; rfl

/-- names the model accepts inside `%(…)s` and as trans variables: no parentheses (identifiers have none) and no
    whitespace -/
def NameOk (n : Text) : Prop := '(' ∉ n ∧ ')' ∉ n ∧ ∀ c ∈ n, pyWs c = false

theorem fmtGo_key (L : Text → Option Text) (n : Text) (h1 : '(' ∉ n) (h2 : ')' ∉ n) (acc r : Text) :
    fmtGo L (.key acc) (n ++ ')' :: r) = fmtGo L (.conv (acc.reverse ++ n)) r := by
  induction n generalizing acc with
  | nil => simp; rw [fmtGo]; simp
  | cons c n ih =>
    simp only [List.mem_cons, not_or] at h1 h2
    simp only [List.cons_append]
    rw [fmtGo]
    have hc1 : c ≠ ')' := fun h => h2.1 h.symm
    have hc2 : c ≠ '(' := fun h => h1.1 h.symm
    simp only [hc1, hc2, if_false]
    rw [ih h1.2 h2.2]; simp

theorem fmtGo_directive (L : Text → Option Text) (n : Text) (hn : NameOk n) (rest : Text) :
    fmtGo L .text (directive n ++ rest) =
      match L n with
      | none => .error (.keyError n)
      | some v => mapOk (v ++ ·) (fmtGo L .text rest) := by
  unfold directive
  simp only [List.cons_append, List.append_assoc]
  rw [fmtGo]; simp only [if_true]
  rw [fmtGo]; simp only [show ('(' : Char) ≠ '%' by decide, if_false, if_true]
  rw [fmtGo_key L n hn.1 hn.2.1]
  simp only [List.reverse_nil, List.nil_append, List.cons_append]
  rw [fmtGo]; simp only [if_true]
  cases L n with
  | none => rfl
  | some v => simp only; cases fmtGo L .text rest <;> rfl

/-! ### source symbols -/

/-- the message text of a symbol: what `_parse_block` appends for it -/
def Sym.msg : Sym → Text
  | .ch c => if c = '%' then ['%', '%'] else [c]
  | .ref n => directive n

def msgS (ss : List Sym) : Text := ss.flatMap Sym.msg

def Sym.refs : Sym → List Text
  | .ch _ => []
  | .ref n => [n]

def refsS (ss : List Sym) : List Text := ss.flatMap Sym.refs

theorem msgS_syms (b : Body) : msgS (syms b) = (parseBlock b).2 := by
  induction b with
  | nil => rfl
  | cons p r ih =>
    cases p with
    | data t =>
      simp only [syms, msgS, parseBlock, List.flatMap_cons, List.flatMap_append, Piece.msg] at ih ⊢
      rw [ih]; congr 1
      simp [escPct, List.flatMap_map, Sym.msg]
    | var n =>
      simp only [syms, msgS, parseBlock, List.flatMap_cons, Piece.msg, Sym.msg] at ih ⊢
      rw [ih]

theorem refsS_syms (b : Body) : refsS (syms b) = (parseBlock b).1 := by
  induction b with
  | nil => rfl
  | cons p r ih =>
    cases p with
    | data t =>
      simp only [syms, refsS, parseBlock, List.flatMap_cons, List.flatMap_append, Piece.names, List.nil_append] at ih ⊢
      rw [ih]
      have : List.flatMap Sym.refs (List.map Sym.ch t) = [] := by
        induction t with
        | nil => rfl
        | cons c t iht => simp [Sym.refs, iht]
      rw [this]; rfl
    | var n =>
      simp only [syms, refsS, parseBlock, List.flatMap_cons, Piece.names, Sym.refs] at ih ⊢
      rw [ih]

theorem fill_syms (σ : Text → Text) (b : Body) : fill σ (syms b) = subst σ b := by
  induction b with
  | nil => rfl
  | cons p r ih =>
    cases p with
    | data t =>
      simp only [syms, fill, subst, List.flatMap_cons, List.flatMap_append] at ih ⊢
      rw [ih]; congr 1
      induction t with
      | nil => rfl
      | cons c t iht => simp [iht]
    | var n =>
      simp only [syms, fill, subst, List.flatMap_cons] at ih ⊢
      rw [ih]

/-- **round trip on symbols**: formatting the message of a symbol list gives the symbols with the variables filled
    in, provided every referenced name is a key of the mapping -/
theorem fmtGo_msgS (L : Text → Option Text) (σ : Text → Text) (ss : List Sym)
    (hn : ∀ n ∈ refsS ss, NameOk n) (hl : ∀ n ∈ refsS ss, L n = some (σ n)) (rest : Text) :
    fmtGo L .text (msgS ss ++ rest) = mapOk (fill σ ss ++ ·) (fmtGo L .text rest) := by
  induction ss with
  | nil => simp [msgS, fill]; cases fmtGo L .text rest <;> rfl
  | cons s r ih =>
    have hn' : ∀ n ∈ refsS r, NameOk n := fun n h => hn n (by simp [refsS] at h ⊢; exact Or.inr h)
    have hl' : ∀ n ∈ refsS r, L n = some (σ n) := fun n h => hl n (by simp [refsS] at h ⊢; exact Or.inr h)
    have ih := ih hn' hl'
    cases s with
    | ch c =>
      have : msgS (Sym.ch c :: r) = escPct [c] ++ msgS r := by simp [msgS, Sym.msg, escPct]
      rw [this, List.append_assoc, fmtGo_escPct, ih, mapOk_mapOk]
      simp [fill, Function.comp_def]
    | ref n =>
      have : msgS (Sym.ref n :: r) = directive n ++ msgS r := by simp [msgS, Sym.msg]
      have hmem : n ∈ refsS (Sym.ref n :: r) := by simp [refsS, Sym.refs]
      rw [this, List.append_assoc, fmtGo_directive L n (hn n hmem), hl n hmem]
      simp only
      rw [ih, mapOk_mapOk]
      simp [fill, Function.comp_def]

theorem pyPercentFormat_msgS (L : Text → Option Text) (σ : Text → Text) (ss : List Sym)
    (hn : ∀ n ∈ refsS ss, NameOk n) (hl : ∀ n ∈ refsS ss, L n = some (σ n)) :
    pyPercentFormat L (msgS ss) = .ok (fill σ ss) := by
  have := fmtGo_msgS L σ ss hn hl []
  simp only [List.append_nil] at this
  rw [pyPercentFormat, this]; rw [fmtGo]; simp [mapOk]

/-- text without `%` is a fixed point of formatting, whatever the mapping -/
theorem pyPercentFormat_no_pct (L : Text → Option Text) (t : Text) (h : '%' ∉ t) : pyPercentFormat L t = .ok t := by
  unfold pyPercentFormat
  induction t with
  | nil => rw [fmtGo]
  | cons c r ih =>
    simp only [List.mem_cons, not_or] at h
    rw [fmtGo_text_cons_ne _ _ _ (fun e => h.1 e.symm), ih h.2]; rfl

/-! ### trimming -/

section Trim
variable {α : Type} (ws nl : α → Bool) (sp : α)

theorem collapse_nil : collapse ws nl sp [] = [] := by rw [collapse]

theorem collapse_cons_ws (c : α) (r : List α) (h : ws c = true) :
    collapse ws nl sp (c :: r) =
      (if (c :: r.takeWhile ws).any nl then [sp] else c :: r.takeWhile ws) ++ collapse ws nl sp (r.dropWhile ws) := by
  rw [collapse]; simp only [h, if_true]

theorem collapse_cons_nonws (c : α) (r : List α) (h : ws c = false) :
    collapse ws nl sp (c :: r) = c :: collapse ws nl sp r := by
  rw [collapse]; simp [h]

/-- a word (no whitespace) passes through -/
theorem collapse_word_append (w : List α) (hw : ∀ x ∈ w, ws x = false) (r : List α) :
    collapse ws nl sp (w ++ r) = w ++ collapse ws nl sp r := by
  induction w with
  | nil => rfl
  | cons c w ih =>
    simp only [List.cons_append]
    rw [collapse_cons_nonws _ _ _ _ _ (hw c (by simp)), ih (fun x hx => hw x (by simp [hx]))]

theorem takeWhile_append_of_head (p : α → Bool) (r v : List α) (hv : ∀ x, v.head? = some x → p x = false) :
    (r ++ v).takeWhile p = r.takeWhile p := by
  induction r with
  | nil =>
    cases v with
    | nil => rfl
    | cons x v => simp [List.takeWhile_cons, hv x (by simp)]
  | cons a r ih => simp only [List.cons_append, List.takeWhile_cons, ih]

theorem dropWhile_append_of_head (p : α → Bool) (r v : List α) (hv : ∀ x, v.head? = some x → p x = false) :
    (r ++ v).dropWhile p = r.dropWhile p ++ v := by
  induction r with
  | nil =>
    cases v with
    | nil => rfl
    | cons x v => simp [List.dropWhile_cons, hv x (by simp)]
  | cons a r ih =>
    simp only [List.cons_append, List.dropWhile_cons, ih]
    split <;> simp

theorem takeWhile_all (p : α → Bool) (g : List α) (h : ∀ x ∈ g, p x = true) : g.takeWhile p = g := by
  induction g with
  | nil => rfl
  | cons a g ih => simp [List.takeWhile_cons, h a (by simp), ih (fun x hx => h x (by simp [hx]))]

theorem dropWhile_all (p : α → Bool) (g : List α) (h : ∀ x ∈ g, p x = true) : g.dropWhile p = [] := by
  induction g with
  | nil => rfl
  | cons a g ih => simp [List.dropWhile_cons, h a (by simp), ih (fun x hx => h x (by simp [hx]))]

/-- a run of whitespace in front of a word boundary: replaced by one space iff it contains a line break -/
theorem collapse_run_append (g : List α) (hg : ∀ x ∈ g, ws x = true) (hne : g ≠ []) (v : List α)
    (hv : ∀ x, v.head? = some x → ws x = false) :
    collapse ws nl sp (g ++ v) = (if g.any nl then [sp] else g) ++ collapse ws nl sp v := by
  cases g with
  | nil => exact absurd rfl hne
  | cons c g =>
    have hall : ∀ x ∈ g, ws x = true := fun x hx => hg x (by simp [hx])
    have htw : g.takeWhile ws = g := takeWhile_all _ _ hall
    have hdw : g.dropWhile ws = [] := dropWhile_all _ _ hall
    simp only [List.cons_append]
    rw [collapse_cons_ws _ _ _ _ _ (hg c (by simp)), takeWhile_append_of_head _ _ _ hv, dropWhile_append_of_head _ _ _ hv,
      htw, hdw]
    simp

/-- splitting at a word start -/
theorem collapse_append_of_head (u v : List α) (hv : ∀ x, v.head? = some x → ws x = false) :
    collapse ws nl sp (u ++ v) = collapse ws nl sp u ++ collapse ws nl sp v := by
  fun_induction collapse ws nl sp u with
  | case1 => simp [collapse_nil]
  | case2 c r hc ih =>
    simp only [List.cons_append]
    rw [collapse_cons_ws _ _ _ _ _ hc, takeWhile_append_of_head _ _ _ hv, dropWhile_append_of_head _ _ _ hv, ih]
    simp
  | case3 c r hc ih =>
    simp only [List.cons_append]
    rw [collapse_cons_nonws _ _ _ _ _ (by simpa using hc), ih]

/-! #### elements of the result -/

theorem mem_takeWhile {p : α → Bool} {l : List α} {x : α} (h : x ∈ l.takeWhile p) : x ∈ l ∧ p x = true := by
  induction l with
  | nil => simp at h
  | cons a l ih =>
    simp only [List.takeWhile_cons] at h
    split at h
    · rcases List.mem_cons.mp h with rfl | h'
      · exact ⟨by simp, by assumption⟩
      · exact ⟨by simp [(ih h').1], (ih h').2⟩
    · simp at h

theorem mem_dropWhile {p : α → Bool} {l : List α} {x : α} (h : x ∈ l.dropWhile p) : x ∈ l := by
  induction l with
  | nil => simp at h
  | cons a l ih =>
    simp only [List.dropWhile_cons] at h
    split at h
    · simp [ih h]
    · exact h

theorem mem_collapse {l : List α} {x : α} (h : x ∈ collapse ws nl sp l) : x ∈ l ∨ x = sp := by
  fun_induction collapse ws nl sp l with
  | case1 => simp at h
  | case2 c r hc ih =>
    rcases List.mem_append.mp h with h | h
    · split at h
      · right; simpa using h
      · left
        rcases List.mem_cons.mp h with rfl | h
        · simp
        · simp [(mem_takeWhile h).1]
    · rcases ih h with h | h
      · left; simp [mem_dropWhile h]
      · right; exact h
  | case3 c r hc ih =>
    rcases List.mem_cons.mp h with rfl | h
    · left; simp
    · rcases ih h with h | h
      · left; simp [h]
      · right; exact h

theorem stripR_cons_nonws (c : α) (r : List α) (h : ws c = false) : stripR ws (c :: r) = c :: stripR ws r := by
  rw [stripR]; split
  · rename_i heq; simp [h, heq]
  · rename_i heq; simp

theorem stripR_cons_ws (c : α) (r : List α) (h : ws c = true) :
    stripR ws (c :: r) = if stripR ws r = [] then [] else c :: stripR ws r := by
  rw [stripR]; split
  · rename_i heq; simp [h, heq]
  · rename_i hne; 
    have : stripR ws r ≠ [] := fun e => hne e
    simp [this]

theorem mem_stripR {l : List α} {x : α} (h : x ∈ stripR ws l) : x ∈ l := by
  induction l with
  | nil => simp [stripR] at h
  | cons c r ih =>
    cases hc : ws c with
    | false =>
      rw [stripR_cons_nonws _ _ _ hc] at h
      rcases List.mem_cons.mp h with rfl | h
      · simp
      · simp [ih h]
    | true =>
      rw [stripR_cons_ws _ _ _ hc] at h
      split at h
      · simp at h
      · rcases List.mem_cons.mp h with rfl | h
        · simp
        · simp [ih h]

theorem mem_trimG {l : List α} {x : α} (h : x ∈ trimG ws nl sp l) : x ∈ l ∨ x = sp := by
  rcases mem_collapse ws nl sp h with h | h
  · left; exact mem_dropWhile (mem_stripR ws h)
  · right; exact h


/-! #### trimming commutes with a whitespace-respecting expansion of the symbols -/

/-- `f` expands each symbol of `α` into symbols of `β`: a whitespace symbol into one whitespace symbol with the same
    line-break status, any other symbol into a non-empty word -/
structure Respects {β : Type} (wsB nlB : β → Bool) (spB : β) (f : α → List β) : Prop where
  onWs : ∀ a, ws a = true → ∃ c, f a = [c] ∧ wsB c = true ∧ nlB c = nl a
  onWord : ∀ a, ws a = false → f a ≠ [] ∧ ∀ c ∈ f a, wsB c = false
  onSp : f sp = [spB]

variable {β : Type} (wsB nlB : β → Bool) (spB : β) (f : α → List β)

theorem flatMap_eq_nil_of_respects (H : Respects ws nl sp wsB nlB spB f) (l : List α) :
    l.flatMap f = [] ↔ l = [] := by
  cases l with
  | nil => simp
  | cons a l =>
    simp only [List.flatMap_cons, List.append_eq_nil_iff, reduceCtorEq, iff_false, not_and]
    intro h
    cases ha : ws a with
    | true => obtain ⟨c, hc, _⟩ := H.onWs a ha; rw [hc] at h; simp at h
    | false => exact absurd h (H.onWord a ha).1

theorem head_flatMap_nonws (H : Respects ws nl sp wsB nlB spB f) (l : List α)
    (hl : ∀ x, l.head? = some x → ws x = false) : ∀ y, (l.flatMap f).head? = some y → wsB y = false := by
  intro y hy
  cases l with
  | nil => simp at hy
  | cons a l =>
    have ha := hl a (by simp)
    obtain ⟨hne, hall⟩ := H.onWord a ha
    cases hfa : f a with
    | nil => exact absurd hfa hne
    | cons c w =>
      simp only [List.flatMap_cons, hfa, List.cons_append, List.head?_cons, Option.some.injEq] at hy
      subst hy; exact hall c (by simp [hfa])

theorem head_dropWhile (p : α → Bool) (l : List α) : ∀ x, (l.dropWhile p).head? = some x → p x = false := by
  intro x hx
  induction l with
  | nil => simp at hx
  | cons a l ih =>
    simp only [List.dropWhile_cons] at hx
    split at hx
    · exact ih hx
    · simp at hx; subst hx; simpa using ‹¬ p a = true›

theorem takeWhile_flatMap (H : Respects ws nl sp wsB nlB spB f) (l : List α) :
    (l.flatMap f).takeWhile wsB = (l.takeWhile ws).flatMap f := by
  induction l with
  | nil => rfl
  | cons a l ih =>
    cases ha : ws a with
    | true =>
      obtain ⟨c, hc, hwc, _⟩ := H.onWs a ha
      simp [List.flatMap_cons, hc, List.takeWhile_cons, hwc, ha, ih]
    | false =>
      have := head_flatMap_nonws ws nl sp wsB nlB spB f H (a :: l) (by intro x hx; simp at hx; subst hx; exact ha)
      simp only [List.takeWhile_cons, ha]
      cases hfl : (a :: l).flatMap f with
      | nil => simp
      | cons y r => simp [List.takeWhile_cons, this y (by simp [hfl])]

theorem dropWhile_flatMap (H : Respects ws nl sp wsB nlB spB f) (l : List α) :
    (l.flatMap f).dropWhile wsB = (l.dropWhile ws).flatMap f := by
  induction l with
  | nil => rfl
  | cons a l ih =>
    cases ha : ws a with
    | true =>
      obtain ⟨c, hc, hwc, _⟩ := H.onWs a ha
      simp [List.flatMap_cons, hc, List.dropWhile_cons, hwc, ha, ih]
    | false =>
      have := head_flatMap_nonws ws nl sp wsB nlB spB f H (a :: l) (by intro x hx; simp at hx; subst hx; exact ha)
      have hr : List.dropWhile ws (a :: l) = a :: l := by simp [List.dropWhile_cons, ha]
      rw [hr]
      generalize (a :: l).flatMap f = L at this ⊢
      cases L with
      | nil => rfl
      | cons y r => simp [List.dropWhile_cons, this y (by simp)]

theorem any_flatMap_run (H : Respects ws nl sp wsB nlB spB f) (g : List α) (hg : ∀ x ∈ g, ws x = true) :
    (g.flatMap f).any nlB = g.any nl := by
  induction g with
  | nil => rfl
  | cons a g ih =>
    obtain ⟨c, hc, _, hnl⟩ := H.onWs a (hg a (by simp))
    simp [List.flatMap_cons, hc, hnl, ih (fun x hx => hg x (by simp [hx]))]

theorem collapse_flatMap (H : Respects ws nl sp wsB nlB spB f) (l : List α) :
    collapse wsB nlB spB (l.flatMap f) = (collapse ws nl sp l).flatMap f := by
  fun_induction collapse ws nl sp l with
  | case1 => simp [collapse_nil]
  | case2 c r hc ih =>
    obtain ⟨c', hc', hwc, hnl⟩ := H.onWs c hc
    have hrun : ∀ x ∈ c :: List.takeWhile ws r, ws x = true := by
      intro x hx
      rcases List.mem_cons.mp hx with rfl | hx
      · exact hc
      · exact (mem_takeWhile hx).2
    have hany := any_flatMap_run ws nl sp wsB nlB spB f H _ hrun
    simp only [List.flatMap_cons, hc', List.cons_append, List.nil_append] at hany ⊢
    rw [collapse_cons_ws _ _ _ _ _ hwc, takeWhile_flatMap ws nl sp wsB nlB spB f H, dropWhile_flatMap ws nl sp wsB nlB spB f H,
      ih, hany]
    split
    · simp [H.onSp]
    · simp [List.flatMap_cons, hc']
  | case3 c r hc ih =>
    have hc : ws c = false := by simpa using hc
    obtain ⟨_, hall⟩ := H.onWord c hc
    simp only [List.flatMap_cons]
    rw [collapse_word_append _ _ _ _ hall, ih]

theorem stripR_word_append (w : List α) (hw : ∀ x ∈ w, ws x = false) (r : List α) :
    stripR ws (w ++ r) = w ++ stripR ws r := by
  induction w with
  | nil => rfl
  | cons c w ih =>
    simp only [List.cons_append]
    rw [stripR_cons_nonws _ _ _ (hw c (by simp)), ih (fun x hx => hw x (by simp [hx]))]

theorem stripR_flatMap (H : Respects ws nl sp wsB nlB spB f) (l : List α) :
    stripR wsB (l.flatMap f) = (stripR ws l).flatMap f := by
  induction l with
  | nil => rfl
  | cons a l ih =>
    cases ha : ws a with
    | true =>
      obtain ⟨c, hc, hwc, _⟩ := H.onWs a ha
      simp only [List.flatMap_cons, hc, List.cons_append, List.nil_append]
      rw [stripR_cons_ws _ _ _ hwc, stripR_cons_ws _ _ _ ha, ih]
      by_cases he : stripR ws l = []
      · simp [he]
      · have : (stripR ws l).flatMap f ≠ [] := by
          rw [Ne, flatMap_eq_nil_of_respects ws nl sp wsB nlB spB f H]; exact he
        simp [he, this, hc]
    | false =>
      obtain ⟨_, hall⟩ := H.onWord a ha
      simp only [List.flatMap_cons]
      rw [stripR_word_append _ _ hall, stripR_cons_nonws _ _ _ ha, ih]; simp

/-- **trimming the message = trimming the source** -/
theorem trimG_flatMap (H : Respects ws nl sp wsB nlB spB f) (l : List α) :
    trimG wsB nlB spB (l.flatMap f) = (trimG ws nl sp l).flatMap f := by
  unfold trimG stripL
  rw [dropWhile_flatMap ws nl sp wsB nlB spB f H, stripR_flatMap ws nl sp wsB nlB spB f H,
    collapse_flatMap ws nl sp wsB nlB spB f H]


/-! #### what a trimmed list looks like -/

section Shape
variable {α : Type} (ws nl : α → Bool) (sp : α)

def StartsNonWs (l : List α) : Prop := ∀ x, l.head? = some x → ws x = false
def EndsNonWs (l : List α) : Prop := ∀ x, l.getLast? = some x → ws x = false

theorem collapse_ne_nil (l : List α) (h : l ≠ []) : collapse ws nl sp l ≠ [] := by
  cases l with
  | nil => exact absurd rfl h
  | cons c r =>
    cases hc : ws c with
    | true => rw [collapse_cons_ws _ _ _ _ _ hc]; split <;> simp
    | false => rw [collapse_cons_nonws _ _ _ _ _ hc]; simp

theorem endsNonWs_tail {c : α} {r : List α} (h : EndsNonWs ws (c :: r)) (hr : r ≠ []) : EndsNonWs ws r := by
  intro x hx
  apply h x
  rw [List.getLast?_cons_of_ne_nil hr] <;> exact hx

theorem endsNonWs_dropWhile {l : List α} (h : EndsNonWs ws l) : EndsNonWs ws (l.dropWhile ws) := by
  induction l with
  | nil => exact h
  | cons a l ih =>
    simp only [List.dropWhile_cons]
    split
    · by_cases hl : l = []
      · subst hl; intro x hx; simp at hx
      · exact ih (endsNonWs_tail ws h hl)
    · exact h

theorem all_of_dropWhile_nil (p : α → Bool) (r : List α) (e : r.dropWhile p = []) : ∀ x ∈ r, p x = true := by
  induction r with
  | nil => intro x hx; simp at hx
  | cons a r ih =>
    simp only [List.dropWhile_cons] at e
    split at e
    · intro x hx
      rcases List.mem_cons.mp hx with rfl | hx
      · assumption
      · exact ih e x hx
    · simp at e

theorem dropWhile_ne_nil_of_ends {c : α} {r : List α} (hc : ws c = true) (h : EndsNonWs ws (c :: r)) :
    r ≠ [] ∧ r.dropWhile ws ≠ [] := by
  have hr : r ≠ [] := by
    intro e; subst e
    have := h c (by simp); rw [hc] at this; exact absurd this (by simp)
  refine ⟨hr, ?_⟩
  intro e
  have hall : ∀ x ∈ r, ws x = true := by
    intro x hx
    exact all_of_dropWhile_nil ws r e x hx
  obtain ⟨y, hy⟩ : ∃ y, r.getLast? = some y := by
    cases hrl : r.getLast? with
    | none => rw [List.getLast?_eq_none_iff] at hrl; exact absurd hrl hr
    | some y => exact ⟨y, rfl⟩
  have hy' : ws y = false := h y (by rw [List.getLast?_cons_of_ne_nil hr]; exact hy)
  have : y ∈ r := List.mem_of_getLast? hy
  rw [hall y this] at hy'; exact absurd hy' (by simp)

theorem endsNonWs_collapse (l : List α) (h : EndsNonWs ws l) : EndsNonWs ws (collapse ws nl sp l) := by
  fun_induction collapse ws nl sp l with
  | case1 => exact h
  | case2 c r hc ih =>
    obtain ⟨hr, hd⟩ := dropWhile_ne_nil_of_ends ws hc h
    have hD := ih (endsNonWs_dropWhile ws (endsNonWs_tail ws h hr))
    have hne := collapse_ne_nil ws nl sp _ hd
    intro x hx
    apply hD x
    rw [List.getLast?_append] at hx
    cases hl : (collapse ws nl sp (List.dropWhile ws r)).getLast? with
    | none => rw [List.getLast?_eq_none_iff] at hl; exact absurd hl hne
    | some y => rw [hl] at hx; simpa using hx
  | case3 c r hc ih =>
    by_cases hr : r = []
    · subst hr; simpa [collapse_nil] using h
    · have := ih (endsNonWs_tail ws h hr)
      intro x hx
      apply this x
      rw [List.getLast?_cons_of_ne_nil (collapse_ne_nil ws nl sp _ hr)] at hx; exact hx

theorem startsNonWs_collapse (l : List α) (h : StartsNonWs ws l) : StartsNonWs ws (collapse ws nl sp l) := by
  cases l with
  | nil => simpa [collapse_nil] using h
  | cons c r =>
    have hc : ws c = false := h c (by simp)
    rw [collapse_cons_nonws _ _ _ _ _ hc]
    intro x hx; simp at hx; subst hx; exact hc

theorem stripR_eq_self {l : List α} (h : EndsNonWs ws l) : stripR ws l = l := by
  induction l with
  | nil => rfl
  | cons c r ih =>
    by_cases hr : r = []
    · subst hr
      have hc : ws c = false := h c (by simp)
      rw [stripR_cons_nonws _ _ _ hc]; rfl
    · have := ih (endsNonWs_tail ws h hr)
      cases hc : ws c with
      | true => rw [stripR_cons_ws _ _ _ hc, this]; simp [hr]
      | false => rw [stripR_cons_nonws _ _ _ hc, this]

theorem stripL_eq_self {l : List α} (h : StartsNonWs ws l) : stripL ws l = l := by
  cases l with
  | nil => rfl
  | cons c r => simp [stripL, List.dropWhile_cons, h c (by simp)]

theorem endsNonWs_stripR (l : List α) : EndsNonWs ws (stripR ws l) := by
  induction l with
  | nil => intro x hx; simp [stripR] at hx
  | cons c r ih =>
    cases hc : ws c with
    | true =>
      rw [stripR_cons_ws _ _ _ hc]
      split
      · intro x hx; simp at hx
      · rename_i hne
        intro x hx
        rw [List.getLast?_cons_of_ne_nil hne] at hx; exact ih x hx
    | false =>
      rw [stripR_cons_nonws _ _ _ hc]
      by_cases hne : stripR ws r = []
      · rw [hne]; intro x hx; simp at hx; subst hx; exact hc
      · intro x hx
        rw [List.getLast?_cons_of_ne_nil hne] at hx; exact ih x hx

theorem startsNonWs_stripR {l : List α} (h : StartsNonWs ws l) : StartsNonWs ws (stripR ws l) := by
  cases l with
  | nil => exact h
  | cons c r =>
    have hc : ws c = false := h c (by simp)
    rw [stripR_cons_nonws _ _ _ hc]
    intro x hx; simp at hx; subst hx; exact hc

theorem startsNonWs_trimG (l : List α) : StartsNonWs ws (trimG ws nl sp l) :=
  startsNonWs_collapse ws nl sp _ (startsNonWs_stripR ws (head_dropWhile ws l))

theorem endsNonWs_trimG (l : List α) : EndsNonWs ws (trimG ws nl sp l) :=
  endsNonWs_collapse ws nl sp _ (endsNonWs_stripR ws _)

/-- no element of the result is a line break (a run with a line break became the space) -/
theorem no_nl_collapse (hsp : nl sp = false) (hnl : ∀ x, nl x = true → ws x = true) (l : List α) :
    ∀ x ∈ collapse ws nl sp l, nl x = false := by
  fun_induction collapse ws nl sp l with
  | case1 => intro x hx; simp at hx
  | case2 c r hc ih =>
    intro x hx
    rcases List.mem_append.mp hx with hx | hx
    · split at hx
      · simp at hx; subst hx; exact hsp
      · rename_i hany
        cases hx' : nl x with
        | false => rfl
        | true => exact absurd (List.any_eq_true.mpr ⟨x, hx, hx'⟩) hany
    · exact ih x hx
  | case3 c r hc ih =>
    intro x hx
    rcases List.mem_cons.mp hx with rfl | hx
    · cases hx' : nl x with
      | false => rfl
      | true => exact absurd (hnl x hx') hc
    · exact ih x hx

/-- without a line break nothing changes -/
theorem collapse_eq_self (l : List α) (h : ∀ x ∈ l, nl x = false) : collapse ws nl sp l = l := by
  fun_induction collapse ws nl sp l with
  | case1 => rfl
  | case2 c r hc ih =>
    have hany : (c :: List.takeWhile ws r).any nl = false := by
      rw [List.any_eq_false]
      intro x hx
      have : x ∈ c :: r := by
        rcases List.mem_cons.mp hx with rfl | hx
        · simp
        · simp [(mem_takeWhile hx).1]
      simp [h x this]
    rw [hany, ih (fun x hx => h x (by simp [mem_dropWhile hx]))]
    simp
  | case3 c r hc ih => rw [ih (fun x hx => h x (by simp [hx]))]

theorem trimG_idem (hsp : nl sp = false) (hnl : ∀ x, nl x = true → ws x = true) (l : List α) :
    trimG ws nl sp (trimG ws nl sp l) = trimG ws nl sp l := by
  have h1 := startsNonWs_trimG ws nl sp l
  have h2 := endsNonWs_trimG ws nl sp l
  have h3 : ∀ x ∈ trimG ws nl sp l, nl x = false := no_nl_collapse ws nl sp hsp hnl _
  generalize trimG ws nl sp l = t at h1 h2 h3
  unfold trimG
  rw [stripL_eq_self ws h1, stripR_eq_self ws h2, collapse_eq_self ws nl sp t h3]

/-- the non-whitespace symbols survive, in order -/
theorem filter_dropWhile (l : List α) : (l.dropWhile ws).filter (fun x => !ws x) = l.filter (fun x => !ws x) := by
  induction l with
  | nil => rfl
  | cons a l ih =>
    simp only [List.dropWhile_cons]
    split
    · rename_i h; simp [List.filter_cons, h, ih]
    · rfl

theorem filter_takeWhile (l : List α) : (l.takeWhile ws).filter (fun x => !ws x) = [] := by
  rw [List.filter_eq_nil_iff]
  intro x hx; simp [(mem_takeWhile hx).2]

theorem filter_stripR (l : List α) : (stripR ws l).filter (fun x => !ws x) = l.filter (fun x => !ws x) := by
  induction l with
  | nil => rfl
  | cons c r ih =>
    cases hc : ws c with
    | true =>
      rw [stripR_cons_ws _ _ _ hc]
      split
      · rename_i he; rw [he] at ih; simp [List.filter_cons, hc, ← ih]
      · simp [List.filter_cons, hc, ih]
    | false => rw [stripR_cons_nonws _ _ _ hc]; simp [List.filter_cons, hc, ih]

theorem filter_collapse (hsp : ws sp = true) (l : List α) :
    (collapse ws nl sp l).filter (fun x => !ws x) = l.filter (fun x => !ws x) := by
  fun_induction collapse ws nl sp l with
  | case1 => rfl
  | case2 c r hc ih =>
    rw [List.filter_append, ih, filter_dropWhile]
    have : List.filter (fun x => !ws x) (if (c :: List.takeWhile ws r).any nl = true then [sp] else c :: List.takeWhile ws r) = [] := by
      split
      · simp [List.filter_cons, hsp]
      · simp [List.filter_cons, hc, filter_takeWhile]
    rw [this]; simp [List.filter_cons, hc]
  | case3 c r hc ih => simp [List.filter_cons, hc, ih]

theorem filter_trimG (hsp : ws sp = true) (l : List α) :
    (trimG ws nl sp l).filter (fun x => !ws x) = l.filter (fun x => !ws x) := by
  unfold trimG stripL
  rw [filter_collapse ws nl sp hsp, filter_stripR, filter_dropWhile]

theorem takeWhile_append_of_mem (p : α → Bool) (r v : List α) (h : ∃ x ∈ r, p x = false) :
    (r ++ v).takeWhile p = r.takeWhile p ∧ (r ++ v).dropWhile p = r.dropWhile p ++ v := by
  induction r with
  | nil => simp at h
  | cons a r ih =>
    simp only [List.cons_append, List.takeWhile_cons, List.dropWhile_cons]
    cases ha : p a with
    | false => simp
    | true =>
      obtain ⟨x, hx, hpx⟩ := h
      have : ∃ x ∈ r, p x = false := by
        rcases List.mem_cons.mp hx with rfl | hx
        · rw [ha] at hpx; exact absurd hpx (by simp)
        · exact ⟨x, hx, hpx⟩
      simp [ih this]

/-- splitting after a word end -/
theorem collapse_append_of_last (u v : List α) (hu : EndsNonWs ws u) :
    collapse ws nl sp (u ++ v) = collapse ws nl sp u ++ collapse ws nl sp v := by
  fun_induction collapse ws nl sp u with
  | case1 => simp [collapse_nil]
  | case2 c r hc ih =>
    obtain ⟨hr, hd⟩ := dropWhile_ne_nil_of_ends ws hc hu
    have hex : ∃ x ∈ r, ws x = false := by
      cases hdr : List.dropWhile ws r with
      | nil => exact absurd hdr hd
      | cons y t =>
        exact ⟨y, mem_dropWhile (by rw [hdr]; simp), head_dropWhile ws r y (by rw [hdr]; simp)⟩
    obtain ⟨h1, h2⟩ := takeWhile_append_of_mem ws r v hex
    simp only [List.cons_append]
    rw [collapse_cons_ws _ _ _ _ _ hc, h1, h2, ih (endsNonWs_dropWhile ws (endsNonWs_tail ws hu hr))]
    simp
  | case3 c r hc ih =>
    have hc : ws c = false := by simpa using hc
    simp only [List.cons_append]
    rw [collapse_cons_nonws _ _ _ _ _ hc]
    by_cases hr : r = []
    · subst hr; simp [collapse_nil]
    · rw [ih (endsNonWs_tail ws hu hr)]

theorem endsNonWs_append {u v : List α} (hv : EndsNonWs ws v) (hne : v ≠ []) : EndsNonWs ws (u ++ v) := by
  intro x hx
  apply hv x
  rw [List.getLast?_append] at hx
  cases hl : v.getLast? with
  | none => rw [List.getLast?_eq_none_iff] at hl; exact absurd hl hne
  | some y => rw [hl] at hx; simpa using hx

/-- **runs**: between two words a whitespace run becomes one space iff it contains a line break, and is kept as it is
    otherwise -/
theorem trimG_word_run_word (u g v : List α) (hu1 : StartsNonWs ws u) (hu2 : EndsNonWs ws u) (hune : u ≠ [])
    (hg : ∀ x ∈ g, ws x = true) (hgne : g ≠ []) (hv1 : StartsNonWs ws v) (hv2 : EndsNonWs ws v) (hvne : v ≠ []) :
    trimG ws nl sp (u ++ g ++ v) =
      trimG ws nl sp u ++ (if g.any nl then [sp] else g) ++ trimG ws nl sp v := by
  have hstart : StartsNonWs ws (u ++ g ++ v) := by
    cases u with
    | nil => exact absurd rfl hune
    | cons c u => intro x hx; simp at hx; subst hx; exact hu1 c (by simp)
  have hend : EndsNonWs ws (u ++ g ++ v) := endsNonWs_append ws hv2 hvne
  unfold trimG
  rw [stripL_eq_self ws hstart, stripR_eq_self ws hend, stripL_eq_self ws hu1, stripR_eq_self ws hu2,
    stripL_eq_self ws hv1, stripR_eq_self ws hv2, List.append_assoc,
    collapse_append_of_last ws nl sp u (g ++ v) hu2, collapse_run_append ws nl sp g hg hgne v hv1]
  simp

end Shape
end Trim
/-! ### facts about the whitespace table -/
theorem pyWs_space : pyWs ' ' = true := by decide
theorem isNl_space : isNl ' ' = false := by decide
theorem isNl_ws (c : Char) (h : isNl c = true) : pyWs c = true := by
  have : c = '\n' := by simpa [isNl] using h
  subst this; decide

/-! ### the message expansion respects whitespace -/

/-- `Sym.msg`, made total for names with whitespace (which the theorems exclude) -/
def Sym.msgSafe : Sym → Text
  | .ch c => if c = '%' then ['%', '%'] else [c]
  | .ref n => if n.all (fun c => !pyWs c) then directive n else ['x']

theorem msgSafe_respects : Respects Sym.ws Sym.nl (Sym.ch ' ') pyWs isNl ' ' Sym.msgSafe where
  onWs := by
    intro a ha
    cases a with
    | ref n => simp [Sym.ws] at ha
    | ch c =>
      have hc : c ≠ '%' := by
        intro e; subst e; simp [Sym.ws] at ha; revert ha; decide
      exact ⟨c, by simp [Sym.msgSafe, hc], by simpa [Sym.ws] using ha, by simp [Sym.nl]⟩
  onWord := by
    intro a ha
    cases a with
    | ch c =>
      have ha : pyWs c = false := by simpa [Sym.ws] using ha
      by_cases hc : c = '%'
      · subst hc; simp [Sym.msgSafe]; decide
      · simp [Sym.msgSafe, hc, ha]
    | ref n =>
      by_cases hn : n.all (fun c => !pyWs c) = true
      · simp only [Sym.msgSafe, hn, if_true, directive]
        refine ⟨by simp, ?_⟩
        intro c hc
        simp only [List.mem_cons, List.mem_append, List.not_mem_nil, or_false] at hc
        rcases hc with rfl | rfl | hc | rfl | rfl
        · decide
        · decide
        · have := List.all_eq_true.mp hn c hc; simpa using this
        · decide
        · decide
      · simp only [Sym.msgSafe, hn]
        refine ⟨by simp, ?_⟩
        intro c hc; simp at hc; subst hc; decide
  onSp := by simp [Sym.msgSafe]

theorem msgSafe_eq (ss : List Sym) (h : ∀ n ∈ refsS ss, NameOk n) : ss.flatMap Sym.msgSafe = msgS ss := by
  induction ss with
  | nil => rfl
  | cons s r ih =>
    have hr : ∀ n ∈ refsS r, NameOk n := fun n hn => h n (by simp [refsS] at hn ⊢; exact Or.inr hn)
    simp only [List.flatMap_cons, msgS, ih hr]
    congr 1
    cases s with
    | ch c => rfl
    | ref n =>
      have hn := (h n (by simp [refsS, Sym.refs])).2.2
      have : n.all (fun c => !pyWs c) = true := by
        rw [List.all_eq_true]; intro c hc; simp [hn c hc]
      simp [Sym.msgSafe, Sym.msg, this]

theorem refsS_mem_of_mem {ss : List Sym} {n : Text} : n ∈ refsS ss ↔ Sym.ref n ∈ ss := by
  induction ss with
  | nil => simp [refsS]
  | cons s r ih =>
    cases s with
    | ch c => simp [refsS, Sym.refs] at ih ⊢; exact ih
    | ref m => simp [refsS, Sym.refs] at ih ⊢; rw [ih]

def trimS (ss : List Sym) : List Sym := trimG Sym.ws Sym.nl (Sym.ch ' ') ss

theorem refsS_trimS {ss : List Sym} {n : Text} (h : n ∈ refsS (trimS ss)) : n ∈ refsS ss := by
  rw [refsS_mem_of_mem] at h ⊢
  rcases mem_trimG Sym.ws Sym.nl (Sym.ch ' ') h with h | h
  · exact h
  · simp at h

/-- **trimming the gettext message = trimming the source symbols** -/
theorem trimWhitespace_msgS (ss : List Sym) (h : ∀ n ∈ refsS ss, NameOk n) :
    trimWhitespace (msgS ss) = msgS (trimS ss) := by
  have h' : ∀ n ∈ refsS (trimS ss), NameOk n := fun n hn => h n (refsS_trimS hn)
  rw [← msgSafe_eq ss h, ← msgSafe_eq _ h']
  exact trimG_flatMap Sym.ws Sym.nl (Sym.ch ' ') pyWs isNl ' ' Sym.msgSafe msgSafe_respects ss

/-! ### messages without variables -/

theorem msgS_no_refs (σ : Text → Text) (ss : List Sym) (h : refsS ss = []) : msgS ss = escPct (fill σ ss) := by
  induction ss with
  | nil => rfl
  | cons s r ih =>
    cases s with
    | ref n => simp [refsS, Sym.refs] at h
    | ch c =>
      have hr : refsS r = [] := by simpa [refsS, Sym.refs] using h
      have := ih hr
      simp only [msgS, fill, List.flatMap_cons, escPct, List.flatMap_append, Sym.msg] at this ⊢
      rw [this]; simp

theorem undouble_msgS_no_refs (σ : Text → Text) (ss : List Sym) (h : refsS ss = []) : undouble (msgS ss) = fill σ ss := by
  rw [msgS_no_refs σ ss h, undouble_escPct]

theorem fill_no_refs (σ τ : Text → Text) (ss : List Sym) (h : refsS ss = []) : fill σ ss = fill τ ss := by
  induction ss with
  | nil => rfl
  | cons s r ih =>
    cases s with
    | ref n => simp [refsS, Sym.refs] at h
    | ch c =>
      have hr : refsS r = [] := by simpa [refsS, Sym.refs] using h
      simp only [fill, List.flatMap_cons] at ih ⊢
      rw [ih hr]

/-! ### mappings -/

theorem lookupIn_append (a b : List (Text × Text)) (k : Text) :
    lookupIn (a ++ b) k = match lookupIn a k with | some v => some v | none => lookupIn b k := by
  unfold lookupIn
  rw [List.find?_append]
  cases List.find? (fun e => e.1 == k) a <;> simp

theorem lookupIn_cons (a v : Text) (m : List (Text × Text)) (k : Text) :
    lookupIn ((a, v) :: m) k = if a = k then some v else lookupIn m k := by
  unfold lookupIn
  rw [List.find?_cons]
  by_cases e : a = k
  · simp [e]
  · have : (a == k) = false := by simpa using e
    simp [this, e]

theorem lookupIn_map_mem (ks : List Text) (g : Text → Text) (k : Text) (h : k ∈ ks) :
    lookupIn (ks.map fun k => (k, g k)) k = some (g k) := by
  induction ks with
  | nil => simp at h
  | cons a ks ih =>
    rw [List.map_cons, lookupIn_cons]
    by_cases e : a = k
    · subst e; simp
    · have hk : k ∈ ks := by
        rcases List.mem_cons.mp h with rfl | h
        · exact absurd rfl e
        · exact h
      simp [e, ih hk]

theorem lookupIn_map_not_mem (ks : List Text) (g : Text → Text) (k : Text) (h : k ∉ ks) :
    lookupIn (ks.map fun k => (k, g k)) k = none := by
  induction ks with
  | nil => rfl
  | cons a ks ih =>
    simp only [List.mem_cons, not_or] at h
    rw [List.map_cons, lookupIn_cons]
    have e : ¬ a = k := fun e => h.1 e.symm
    simp [e, ih h.2]

/-! ### the header loop -/

def orElse' {α} : Option α → Option α → Option α
  | some a, _ => some a
  | none, b => b

theorem headerLoop_spec (items : List (Text × Bool)) (h0 h : Header) (hok : headerLoop h0 items = .ok h) :
    h.vars = h0.vars ++ headerVars items h0.trimmed.isSome ∧
    h.trimmed = orElse' h0.trimmed (flag items) ∧
    h.pluralKey = orElse' h0.pluralKey (headerVars items h0.trimmed.isSome).head? ∧
    ((h0.numCalledNum = true → h0.pluralKey = some kwNum) → (h.numCalledNum = true → h.pluralKey = some kwNum)) := by
  induction items generalizing h0 with
  | nil =>
    simp only [headerLoop, Except.ok.injEq] at hok; subst hok
    cases h0.pluralKey <;> cases h0.trimmed <;> simp [headerVars, flag, orElse']
  | cons it r ih =>
    obtain ⟨n, assigned⟩ := it
    simp only [headerLoop] at hok
    split at hok
    · rename_i h1 hstep
      have := ih h1 hok
      simp only [headerStep] at hstep
      split at hstep
      · simp at hstep
      · split at hstep
        · -- the trimmed / notrimmed flag
          rename_i hdup hflag
          simp only [Except.ok.injEq] at hstep; subst hstep
          simp only [Bool.and_eq_true, Bool.not_eq_eq_eq_not, Bool.not_true, Option.isNone_iff_eq_none, Bool.or_eq_true,
            beq_iff_eq] at hflag
          obtain ⟨⟨ha, ht⟩, hn⟩ := hflag
          simp only [ht, Option.isSome_none, Option.isSome_some] at this ⊢
          have hcond : (!false && !assigned && (n == kwTrimmed || n == kwNotrimmed)) = true := by
            simp [ha]; rcases hn with e | e <;> simp [e]
          have hcond2 : (!assigned && (n == kwTrimmed || n == kwNotrimmed)) = true := by simpa using hcond
          simp only [headerVars, flag, hcond, hcond2, if_true]
          refine ⟨this.1, ?_, this.2.2.1, this.2.2.2⟩
          rw [this.2.1]; simp [orElse']
        · -- a variable
          rename_i hdup hflag
          simp only [Except.ok.injEq] at hstep; subst hstep
          simp only at this
          have hcond : (!h0.trimmed.isSome && !assigned && (n == kwTrimmed || n == kwNotrimmed)) = false := by
            cases ht : h0.trimmed <;> simp [ht] at hflag ⊢
            exact hflag
          simp only [headerVars, hcond, Bool.false_eq_true, if_false]
          refine ⟨by rw [this.1]; simp, ?_, ?_, ?_⟩
          · rw [this.2.1]
            cases ht : h0.trimmed with
            | some t => simp [orElse']
            | none =>
              simp only [ht, Option.isSome_none, Bool.not_false, Bool.true_and] at hcond
              simp [orElse', flag, hcond]
          · rw [this.2.2.1]
            cases hp : h0.pluralKey <;> simp [orElse']
          · intro hinv
            apply this.2.2.2
            cases hp : h0.pluralKey with
            | none => simp [kwNum]
            | some k => simp only [hp] at hinv ⊢; intro hh; exact hinv hh
    · simp at hok

theorem headerLoop_init (items : List (Text × Bool)) (h : Header) (hok : headerLoop {} items = .ok h) :
    h.vars = headerVars items false ∧ h.trimmed = flag items ∧ h.pluralKey = h.vars.head? ∧
    (h.numCalledNum = true → h.pluralKey = some kwNum) := by
  obtain ⟨h1, h2, h3, h4⟩ := headerLoop_spec items {} h hok
  simp only [List.nil_append, Option.isSome_none] at h1
  refine ⟨h1, by simpa [orElse'] using h2, ?_, h4 (by simp)⟩
  rw [h3, h1]; simp [orElse']

/-! ### `parse` and `_make_node` -/

def keysOf (vars referenced : List Text) : List Text :=
  vars ++ (dedup referenced).filter (fun n => !(vars.contains n))

theorem mem_dedup {l : List Text} {n : Text} : n ∈ dedup l ↔ n ∈ l := by
  induction l with
  | nil => simp [dedup]
  | cons a l ih =>
    simp only [dedup, List.mem_cons, List.mem_filter, ih]
    constructor
    · rintro (h | ⟨h, _⟩)
      · exact Or.inl h
      · exact Or.inr h
    · intro h
      by_cases e : n = a
      · exact Or.inl e
      · rcases h with h | h
        · exact absurd h e
        · exact Or.inr ⟨h, by simpa using e⟩

theorem mem_keysOf {vars referenced : List Text} {n : Text} (h : n ∈ referenced) : n ∈ keysOf vars referenced := by
  unfold keysOf
  by_cases hv : n ∈ vars
  · exact List.mem_append_left _ hv
  · apply List.mem_append_right
    rw [List.mem_filter]
    exact ⟨mem_dedup.mpr h, by simpa using hv⟩

theorem keysOf_nil (vars : List Text) : keysOf vars [] = vars := by simp [keysOf, dedup]

/-- the new-style mapping -/
def newMap (ae : Bool) (σ : Text → Val) (keys : List Text) (ctx pk : Option Text) (ncn : Bool) : List (Text × Text) :=
  (keys.filter (fun k => !(ncn && k == kwNum))).map (fun k => (k, (σ k).show ae)) ++
    (match ctx with | some c => [(kwContext, (Val.str c false).show ae)] | none => []) ++
    (match pk with | some k => [(kwNum, (σ k).show ae)] | none => [])

theorem lookupIn_newMap (ae : Bool) (σ : Text → Val) (keys : List Text) (ctx pk : Option Text) (ncn : Bool)
    (hncn : ncn = true → pk = some kwNum) (n : Text) (hn : n ∈ keys) :
    lookupIn (newMap ae σ keys ctx pk ncn) n = some ((σ n).show ae) := by
  unfold newMap
  rw [List.append_assoc, lookupIn_append]
  by_cases hf : n ∈ keys.filter (fun k => !(ncn && k == kwNum))
  · rw [lookupIn_map_mem _ (fun k => (σ k).show ae) n hf]
  · rw [lookupIn_map_not_mem _ (fun k => (σ k).show ae) n hf]
    simp only [List.mem_filter, hn, true_and, Bool.not_eq_eq_eq_not, Bool.not_true, Bool.and_eq_false_imp,
      beq_eq_false_iff_ne, ne_eq, Classical.not_imp, Decidable.not_not] at hf
    obtain ⟨h1, h2⟩ := hf
    subst h2
    rw [hncn h1]
    simp only
    rw [lookupIn_append]
    cases ctx with
    | none => simp [lookupIn_cons, lookupIn]
    | some c =>
      have : ¬ kwContext = kwNum := by decide
      simp [lookupIn_cons, this]
      rfl

/-- closed form of rendering what `_make_node` built, under the identity translation -/
theorem renderNode_makeNode (ns ae : Bool) (σ : Text → Val) (S : Text) (P : Option Text) (ctx : Option Text)
    (keys : List Text) (pk : Option Text) (vr ncn : Bool) :
    renderNode ae identityTr σ (makeNode ns S P ctx keys pk vr ncn) =
      (let S' := if (keys.isEmpty && !ns) = true then undouble S else S
       let P' := if (keys.isEmpty && !ns) = true then P.map undouble else P
       let X := match pk with | none => S' | some k => if (σ k).isOne then S' else P'.getD []
       if ns = true then pyPercentFormat (lookupIn (newMap ae σ keys ctx pk ncn)) X
       else if keys.isEmpty = true then .ok X
       else pyPercentFormat (lookupIn (keys.map fun k => (k, (σ k).show ae))) X) := by
  cases ns <;> cases ctx <;> cases pk <;> cases hk : keys.isEmpty <;>
    simp [renderNode, makeNode, Node.mapping, Node.translated, identityTr, newMap, hk]


/-- what `parse` hands to `_make_node`, in terms of the Spec's reading of the header -/
theorem parseTrans_view (cfg : Cfg) (b : Block) (node : Node) (hok : parseTrans cfg b = .ok node) :
    let vars := headerVars b.header false
    let T := fun (t : Text) => if (flag b.header).getD cfg.policyTrimmed = true then trimWhitespace t else t
    let s := parseBlock b.singular
    (b.plural = none ∧ node = makeNode cfg.newstyle (T s.2) none b.ctx (keysOf vars s.1) none (!s.1.isEmpty) false) ∨
    (∃ pn pb k ncn, b.plural = some (pn, pb) ∧ countName b = some k ∧ (ncn = true → k = kwNum) ∧
      node = makeNode cfg.newstyle (T s.2) (some (T (parseBlock pb).2)) b.ctx (keysOf vars (s.1 ++ (parseBlock pb).1))
        (some k) (!(s.1 ++ (parseBlock pb).1).isEmpty) ncn) := by
  intro vars T s
  unfold parseTrans at hok
  split at hok
  · simp at hok
  · rename_i h hh
    obtain ⟨hv, ht, hp, hn⟩ := headerLoop_init _ _ hh
    simp only at hok
    split at hok
    · -- no pluralize
      rename_i hpl
      left
      simp only [Except.ok.injEq] at hok
      refine ⟨hpl, ?_⟩
      rw [← hok, hv, ht]; rfl
    · rename_i pn pb hpl
      right
      split at hok
      · simp at hok
      · rename_i pk hpk
        split at hok
        · simp at hok
        · rename_i k hk
          simp only [Except.ok.injEq] at hok
          refine ⟨pn, pb, k, pk.2, hpl, ?_, ?_, ?_⟩
          · -- the count variable is the documented one
            unfold countName
            rw [hpl]
            cases pn with
            | some n =>
              simp only at hpk ⊢
              split at hpk
              · simp only [Except.ok.injEq] at hpk; rw [← hpk] at hk; simpa using hk
              · simp at hpk
            | none =>
              simp only [Except.ok.injEq] at hpk ⊢
              rw [← hpk] at hk
              rw [← hv]
              rw [hp] at hk
              cases hvars : h.vars with
              | nil =>
                rw [hvars] at hk
                cases hs : (parseBlock b.singular).1 with
                | nil => rw [hs] at hk; simp at hk
                | cons n r => rw [hs] at hk; simpa using hk
              | cons v r => rw [hvars] at hk; simpa using hk
          · -- num_called_num only when the count variable is called num
            intro hncn
            cases pn with
            | some n =>
              simp only at hpk
              split at hpk
              · simp only [Except.ok.injEq] at hpk; rw [← hpk] at hk hncn
                simp only [Option.some.injEq] at hk; subst hk; simpa using hncn
              · simp at hpk
            | none =>
              simp only [Except.ok.injEq] at hpk
              rw [← hpk] at hk hncn
              cases hpk' : h.pluralKey with
              | some k' =>
                rw [hpk'] at hk hncn
                simp only at hk hncn
                have := hn hncn
                rw [hpk'] at this; rw [hk] at this; simpa using this
              | none =>
                rw [hpk'] at hk hncn
                cases hs : (parseBlock b.singular).1 with
                | nil => rw [hs] at hk; simp at hk
                | cons n r =>
                  rw [hs] at hk hncn
                  simp only [Option.some.injEq] at hk hncn; subst hk; simpa using hncn
          · rw [← hok, hv, ht]; rfl


/-- the symbols of a body after the trimming decision -/
def TS (trimmed : Bool) (ss : List Sym) : List Sym := if trimmed = true then trimS ss else ss

theorem refs_TS {trimmed : Bool} {ss : List Sym} {n : Text} (h : n ∈ refsS (TS trimmed ss)) : n ∈ refsS ss := by
  unfold TS at h
  split at h
  · exact refsS_trimS h
  · exact h

theorem T_msg (trimmed : Bool) (B : Body) (hn : ∀ n ∈ (parseBlock B).1, NameOk n) :
    (if trimmed = true then trimWhitespace (parseBlock B).2 else (parseBlock B).2) = msgS (TS trimmed (syms B)) := by
  rw [← refsS_syms] at hn
  unfold TS
  split
  · rw [← msgS_syms, trimWhitespace_msgS _ hn]
  · rw [msgS_syms]

def textOf (B : Body) : Text := subst (fun _ => []) B

theorem mem_fill_no_refs (τ : Text → Text) (ss : List Sym) (h : refsS ss = []) (c : Char) :
    c ∈ fill τ ss ↔ Sym.ch c ∈ ss := by
  induction ss with
  | nil => simp [fill]
  | cons s r ih =>
    cases s with
    | ref n => simp [refsS, Sym.refs] at h
    | ch d =>
      have hr : refsS r = [] := by simpa [refsS, Sym.refs] using h
      have := ih hr
      simp only [fill, List.flatMap_cons, List.mem_append, List.mem_cons, List.not_mem_nil, or_false,
        Sym.ch.injEq] at this ⊢
      rw [this]

theorem refsS_TS_nil {trimmed : Bool} {ss : List Sym} (h : refsS ss = []) : refsS (TS trimmed ss) = [] := by
  cases hr : refsS (TS trimmed ss) with
  | nil => rfl
  | cons n r =>
    have : n ∈ refsS ss := refs_TS (by rw [hr]; simp)
    rw [h] at this; simp at this

/-- one form (singular or plural body `B`) of a block, rendered the way `_make_node` arranged it -/
theorem render_form (ns ae : Bool) (σ : Text → Val) (B : Body) (refsAll vars : List Text) (trimmed : Bool)
    (ctx pk : Option Text) (ncn : Bool)
    (hB : ∀ n ∈ (parseBlock B).1, n ∈ refsAll) (hnames : ∀ n ∈ refsAll, NameOk n)
    (hncn : ncn = true → pk = some kwNum) :
    (let M := if trimmed = true then trimWhitespace (parseBlock B).2 else (parseBlock B).2
     let keys := keysOf vars refsAll
     let X := if (keys.isEmpty && !ns) = true then undouble M else M
     if ns = true then pyPercentFormat (lookupIn (newMap ae σ keys ctx pk ncn)) X
     else if keys.isEmpty = true then .ok X
     else pyPercentFormat (lookupIn (keys.map fun k => (k, (σ k).show ae))) X)
      = .ok (fill (fun n => (σ n).show ae) (TS trimmed (syms B))) := by
  have hBn : ∀ n ∈ (parseBlock B).1, NameOk n := fun n hn => hnames n (hB n hn)
  have hM := T_msg trimmed B hBn
  have hrn : ∀ n ∈ refsS (TS trimmed (syms B)), NameOk n := by
    intro n hn; have := refs_TS hn; rw [refsS_syms] at this; exact hBn n this
  have hrk : ∀ n ∈ refsS (TS trimmed (syms B)), n ∈ keysOf vars refsAll := by
    intro n hn; have := refs_TS hn; rw [refsS_syms] at this; exact mem_keysOf (hB n this)
  simp only
  rw [hM]
  cases ns with
  | true =>
    simp only [Bool.not_true, Bool.and_false, Bool.false_eq_true, if_false, if_true]
    exact pyPercentFormat_msgS _ _ _ hrn (fun n hn => lookupIn_newMap ae σ _ ctx pk ncn hncn n (hrk n hn))
  | false =>
    simp only [Bool.false_eq_true, if_false, Bool.not_false, Bool.and_true]
    cases hk : (keysOf vars refsAll).isEmpty with
    | true =>
      -- no variables at all: nothing is formatted, the message is un-doubled statically
      have hknil : keysOf vars refsAll = [] := by simpa using hk
      have hr0 : refsS (TS trimmed (syms B)) = [] := by
        cases hr : refsS (TS trimmed (syms B)) with
        | nil => rfl
        | cons n r => have := hrk n (by rw [hr]; simp); rw [hknil] at this; simp at this
      simp only [if_true]
      rw [undouble_msgS_no_refs (fun n => (σ n).show ae) _ hr0]
    | false =>
      -- there are variables: the message stays doubled and is formatted with the dict
      simp only [Bool.false_eq_true, if_false]
      exact pyPercentFormat_msgS _ _ _ hrn (fun n hn => lookupIn_map_mem _ (fun k => (σ k).show ae) n (hrk n hn))

/-! ### oracle and extraction helpers -/

theorem expected_eq (pt ae : Bool) (σ : Text → Val) (b : Block) :
    expected pt ae σ b = fill (fun n => (σ n).show ae) (TS ((flag b.header).getD pt) (syms (chosen σ b))) := by
  unfold expected TS trimS
  split <;> rfl

theorem toCall_recorded (n : Node) : n.toCall.recorded = n.recorded := by
  have he : effective n.func.name = n.func.name := by cases n.func <;> decide
  cases hc : n.ctx <;> cases hp : n.plural <;>
    simp [Node.toCall, ECall.recorded, Node.recorded, leadingStrs, he, hc, hp]

theorem trans_call_mem (cfg : Cfg) (nodes : List TNode) (calls : List ECall) (h : callsOf cfg nodes = .ok calls)
    (b : Block) (hb : TNode.trans b ∈ nodes) : ∃ n, parseTrans cfg b = .ok n ∧ n.toCall ∈ calls := by
  induction nodes generalizing calls with
  | nil => simp at hb
  | cons t r ih =>
    cases t with
    | data d =>
      simp only [callsOf] at h
      have hb' : TNode.trans b ∈ r := by simpa using hb
      exact ih calls h hb'
    | call c =>
      simp only [callsOf] at h
      split at h
      · rename_i cs hcs
        simp only [Except.ok.injEq] at h; subst h
        have hb' : TNode.trans b ∈ r := by simpa using hb
        obtain ⟨n, hn, hm⟩ := ih cs hcs hb'
        exact ⟨n, hn, by simp [hm]⟩
      · simp at h
    | trans b' =>
      simp only [callsOf] at h
      split at h
      · rename_i n cs hn hcs
        simp only [Except.ok.injEq] at h; subst h
        rcases List.mem_cons.mp hb with e | hb'
        · simp only [TNode.trans.injEq] at e; subst e
          exact ⟨n, hn, by simp⟩
        · obtain ⟨m, hm1, hm2⟩ := ih cs hcs hb'
          exact ⟨m, hm1, by simp [hm2]⟩
      · simp at h
      · simp at h

end JinjaV.I18n
