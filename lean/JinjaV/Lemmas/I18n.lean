import JinjaV.Model.I18n
import JinjaV.Spec.I18n
/-
  Helper lemmas for Props/C33.lean (core Lean only).
-/
namespace JinjaV.I18n
open JinjaV.Spec.I18n

/-! ### `%` un-doubling -/

theorem undouble_cons_ne (c : Char) (r : Text) (h : c ≠ '%') : undouble (c :: r) = c :: undouble r := by
  rw [undouble]
  intro r' h1 _
  exact absurd h1 h

theorem escPct_cons_pct (r : Text) : escPct ('%' :: r) = '%' :: '%' :: escPct r := by simp [escPct]
theorem escPct_cons_ne (c : Char) (r : Text) (h : c ≠ '%') : escPct (c :: r) = c :: escPct r := by simp [escPct, h]

theorem undouble_escPct (t : Text) : undouble (escPct t) = t := by
  induction t with
  | nil => rfl
  | cons c r ih =>
    by_cases h : c = '%'
    · subst h; rw [escPct_cons_pct, undouble, ih]
    · rw [escPct_cons_ne _ _ h, undouble_cons_ne _ _ h, ih]

/-! ### `%`-formatting -/

/-- the shape of every recursive result of `fmtGo` -/
def mapOk (f : Text → Text) : Except FmtErr Text → Except FmtErr Text
  | .ok o => .ok (f o)
  | .error e => .error e

theorem fmtGo_text_cons_ne (L : Text → Option Text) (c : Char) (r : Text) (h : c ≠ '%') :
    fmtGo L .text (c :: r) = mapOk (c :: ·) (fmtGo L .text r) := by
  rw [fmtGo]; simp only [h, if_false]; cases fmtGo L .text r <;> rfl

theorem fmtGo_text_pct_pct (L : Text → Option Text) (r : Text) :
    fmtGo L .text ('%' :: '%' :: r) = mapOk ('%' :: ·) (fmtGo L .text r) := by
  rw [fmtGo]; simp only [if_true]; rw [fmtGo]; simp only [if_true]; cases fmtGo L .text r <;> rfl

theorem mapOk_mapOk (f g : Text → Text) (x : Except FmtErr Text) : mapOk f (mapOk g x) = mapOk (f ∘ g) x := by
  cases x <;> rfl

/-- literal text escaped by `_parse_block` formats back to itself -/
theorem fmtGo_escPct (L : Text → Option Text) (t rest : Text) :
    fmtGo L .text (escPct t ++ rest) = mapOk (t ++ ·) (fmtGo L .text rest) := by
  induction t with
  | nil => simp [escPct]; cases fmtGo L .text rest <;> rfl
  | cons c r ih =>
    by_cases h : c = '%'
    · subst h
      rw [escPct_cons_pct]; simp only [List.cons_append]
      rw [fmtGo_text_pct_pct, ih, mapOk_mapOk]; rfl
    · rw [escPct_cons_ne _ _ h]; simp only [List.cons_append]
      rw [fmtGo_text_cons_ne _ _ _ h, ih, mapOk_mapOk]; rfl

/-- names the model accepts inside `%(…)s` and as trans variables: no parentheses (identifiers have none) and no
    whitespace -/
def NameOk (n : Text) : Prop := '(' ∉ n ∧ ')' ∉ n ∧ ∀ c ∈ n, pyWs c = false

theorem fmtGo_key (L : Text → Option Text) (n : Text) (h1 : '(' ∉ n) (h2 : ')' ∉ n) (acc r : Text) :
    fmtGo L (.key acc) (n ++ ')' :: r) = fmtGo L (.conv (acc.reverse ++ n)) r := by
  induction n generalizing acc with
  | nil => simp; rw [fmtGo]; simp
  | cons c n ih =>
    simp only [List.mem_cons, not_or] at h1 h2
    simp only [List.cons_append]
    rw [fmtGo]
    have hc1 : c ≠ ')' := fun h => h2.1 h.symm
    have hc2 : c ≠ '(' := fun h => h1.1 h.symm
    simp only [hc1, hc2, if_false]
    rw [ih h1.2 h2.2]; simp

theorem fmtGo_directive (L : Text → Option Text) (n : Text) (hn : NameOk n) (rest : Text) :
    fmtGo L .text (directive n ++ rest) =
      match L n with
      | none => .error (.keyError n)
      | some v => mapOk (v ++ ·) (fmtGo L .text rest) := by
  unfold directive
  simp only [List.cons_append, List.append_assoc]
  rw [fmtGo]; simp only [if_true]
  rw [fmtGo]; simp only [show ('(' : Char) ≠ '%' by decide, if_false, if_true]
  rw [fmtGo_key L n hn.1 hn.2.1]
  simp only [List.reverse_nil, List.nil_append, List.cons_append]
  rw [fmtGo]; simp only [if_true]
  cases L n with
  | none => rfl
  | some v => simp only; cases fmtGo L .text rest <;> rfl

/-! ### source symbols -/

/-- the message text of a symbol: what `_parse_block` appends for it -/
def Sym.msg : Sym → Text
  | .ch c => if c = '%' then ['%', '%'] else [c]
  | .ref n => directive n

def msgS (ss : List Sym) : Text := ss.flatMap Sym.msg

def Sym.refs : Sym → List Text
  | .ch _ => []
  | .ref n => [n]

def refsS (ss : List Sym) : List Text := ss.flatMap Sym.refs

theorem msgS_syms (b : Body) : msgS (syms b) = (parseBlock b).2 := by
  induction b with
  | nil => rfl
  | cons p r ih =>
    cases p with
    | data t =>
      simp only [syms, msgS, parseBlock, List.flatMap_cons, List.flatMap_append, Piece.msg] at ih ⊢
      rw [ih]; congr 1
      simp [escPct, List.flatMap_map, Sym.msg]
    | var n =>
      simp only [syms, msgS, parseBlock, List.flatMap_cons, Piece.msg, Sym.msg] at ih ⊢
      rw [ih]

theorem refsS_syms (b : Body) : refsS (syms b) = (parseBlock b).1 := by
  induction b with
  | nil => rfl
  | cons p r ih =>
    cases p with
    | data t =>
      simp only [syms, refsS, parseBlock, List.flatMap_cons, List.flatMap_append, Piece.names, List.nil_append] at ih ⊢
      rw [ih]
      have : List.flatMap Sym.refs (List.map Sym.ch t) = [] := by
        induction t with
        | nil => rfl
        | cons c t iht => simp [Sym.refs, iht]
      rw [this]; rfl
    | var n =>
      simp only [syms, refsS, parseBlock, List.flatMap_cons, Piece.names, Sym.refs] at ih ⊢
      rw [ih]

theorem fill_syms (σ : Text → Text) (b : Body) : fill σ (syms b) = subst σ b := by
  induction b with
  | nil => rfl
  | cons p r ih =>
    cases p with
    | data t =>
      simp only [syms, fill, subst, List.flatMap_cons, List.flatMap_append] at ih ⊢
      rw [ih]; congr 1
      induction t with
      | nil => rfl
      | cons c t iht => simp [iht]
    | var n =>
      simp only [syms, fill, subst, List.flatMap_cons] at ih ⊢
      rw [ih]

/-- **round trip on symbols**: formatting the message of a symbol list gives the symbols with the variables filled
    in, provided every referenced name is a key of the mapping -/
theorem fmtGo_msgS (L : Text → Option Text) (σ : Text → Text) (ss : List Sym)
    (hn : ∀ n ∈ refsS ss, NameOk n) (hl : ∀ n ∈ refsS ss, L n = some (σ n)) (rest : Text) :
    fmtGo L .text (msgS ss ++ rest) = mapOk (fill σ ss ++ ·) (fmtGo L .text rest) := by
  induction ss with
  | nil => simp [msgS, fill]; cases fmtGo L .text rest <;> rfl
  | cons s r ih =>
    have hn' : ∀ n ∈ refsS r, NameOk n := fun n h => hn n (by simp [refsS] at h ⊢; exact Or.inr h)
    have hl' : ∀ n ∈ refsS r, L n = some (σ n) := fun n h => hl n (by simp [refsS] at h ⊢; exact Or.inr h)
    have ih := ih hn' hl'
    cases s with
    | ch c =>
      have : msgS (Sym.ch c :: r) = escPct [c] ++ msgS r := by simp [msgS, Sym.msg, escPct]
      rw [this, List.append_assoc, fmtGo_escPct, ih, mapOk_mapOk]
      simp [fill, Function.comp_def]
    | ref n =>
      have : msgS (Sym.ref n :: r) = directive n ++ msgS r := by simp [msgS, Sym.msg]
      have hmem : n ∈ refsS (Sym.ref n :: r) := by simp [refsS, Sym.refs]
      rw [this, List.append_assoc, fmtGo_directive L n (hn n hmem), hl n hmem]
      simp only
      rw [ih, mapOk_mapOk]
      simp [fill, Function.comp_def]

theorem pyPercentFormat_msgS (L : Text → Option Text) (σ : Text → Text) (ss : List Sym)
    (hn : ∀ n ∈ refsS ss, NameOk n) (hl : ∀ n ∈ refsS ss, L n = some (σ n)) :
    pyPercentFormat L (msgS ss) = .ok (fill σ ss) := by
  have := fmtGo_msgS L σ ss hn hl []
  simp only [List.append_nil] at this
  rw [pyPercentFormat, this]; rw [fmtGo]; simp [mapOk]

/-- text without `%` is a fixed point of formatting, whatever the mapping -/
theorem pyPercentFormat_no_pct (L : Text → Option Text) (t : Text) (h : '%' ∉ t) : pyPercentFormat L t = .ok t := by
  unfold pyPercentFormat
  induction t with
  | nil => rw [fmtGo]
  | cons c r ih =>
    simp only [List.mem_cons, not_or] at h
    rw [fmtGo_text_cons_ne _ _ _ (fun e => h.1 e.symm), ih h.2]; rfl

/-! ### trimming -/

section Trim
variable {α : Type} (ws nl : α → Bool) (sp : α)

theorem collapse_nil : collapse ws nl sp [] = [] := by rw [collapse]

theorem collapse_cons_ws (c : α) (r : List α) (h : ws c = true) :
    collapse ws nl sp (c :: r) =
      (if (c :: r.takeWhile ws).any nl then [sp] else c :: r.takeWhile ws) ++ collapse ws nl sp (r.dropWhile ws) := by
  rw [collapse]; simp only [h, if_true]

theorem collapse_cons_nonws (c : α) (r : List α) (h : ws c = false) :
    collapse ws nl sp (c :: r) = c :: collapse ws nl sp r := by
  rw [collapse]; simp [h]

/-- a word (no whitespace) passes through -/
theorem collapse_word_append (w : List α) (hw : ∀ x ∈ w, ws x = false) (r : List α) :
    collapse ws nl sp (w ++ r) = w ++ collapse ws nl sp r := by
  induction w with
  | nil => rfl
  | cons c w ih =>
    simp only [List.cons_append]
    rw [collapse_cons_nonws _ _ _ _ _ (hw c (by simp)), ih (fun x hx => hw x (by simp [hx]))]

theorem takeWhile_append_of_head (p : α → Bool) (r v : List α) (hv : ∀ x, v.head? = some x → p x = false) :
    (r ++ v).takeWhile p = r.takeWhile p := by
  induction r with
  | nil =>
    cases v with
    | nil => rfl
    | cons x v => simp [List.takeWhile_cons, hv x (by simp)]
  | cons a r ih => simp only [List.cons_append, List.takeWhile_cons, ih]

theorem dropWhile_append_of_head (p : α → Bool) (r v : List α) (hv : ∀ x, v.head? = some x → p x = false) :
    (r ++ v).dropWhile p = r.dropWhile p ++ v := by
  induction r with
  | nil =>
    cases v with
    | nil => rfl
    | cons x v => simp [List.dropWhile_cons, hv x (by simp)]
  | cons a r ih =>
    simp only [List.cons_append, List.dropWhile_cons, ih]
    split <;> simp

theorem takeWhile_all (p : α → Bool) (g : List α) (h : ∀ x ∈ g, p x = true) : g.takeWhile p = g := by
  induction g with
  | nil => rfl
  | cons a g ih => simp [List.takeWhile_cons, h a (by simp), ih (fun x hx => h x (by simp [hx]))]

theorem dropWhile_all (p : α → Bool) (g : List α) (h : ∀ x ∈ g, p x = true) : g.dropWhile p = [] := by
  induction g with
  | nil => rfl
  | cons a g ih => simp [List.dropWhile_cons, h a (by simp), ih (fun x hx => h x (by simp [hx]))]

/-- a run of whitespace in front of a word boundary: replaced by one space iff it contains a line break -/
theorem collapse_run_append (g : List α) (hg : ∀ x ∈ g, ws x = true) (hne : g ≠ []) (v : List α)
    (hv : ∀ x, v.head? = some x → ws x = false) :
    collapse ws nl sp (g ++ v) = (if g.any nl then [sp] else g) ++ collapse ws nl sp v := by
  cases g with
  | nil => exact absurd rfl hne
  | cons c g =>
    have hall : ∀ x ∈ g, ws x = true := fun x hx => hg x (by simp [hx])
    have htw : g.takeWhile ws = g := takeWhile_all _ _ hall
    have hdw : g.dropWhile ws = [] := dropWhile_all _ _ hall
    simp only [List.cons_append]
    rw [collapse_cons_ws _ _ _ _ _ (hg c (by simp)), takeWhile_append_of_head _ _ _ hv, dropWhile_append_of_head _ _ _ hv,
      htw, hdw]
    simp

/-- splitting at a word start -/
theorem collapse_append_of_head (u v : List α) (hv : ∀ x, v.head? = some x → ws x = false) :
    collapse ws nl sp (u ++ v) = collapse ws nl sp u ++ collapse ws nl sp v := by
  fun_induction collapse ws nl sp u with
  | case1 => simp [collapse_nil]
  | case2 c r hc ih =>
    simp only [List.cons_append]
    rw [collapse_cons_ws _ _ _ _ _ hc, takeWhile_append_of_head _ _ _ hv, dropWhile_append_of_head _ _ _ hv, ih]
    simp
  | case3 c r hc ih =>
    simp only [List.cons_append]
    rw [collapse_cons_nonws _ _ _ _ _ (by simpa using hc), ih]

/-! #### elements of the result -/

theorem mem_takeWhile {p : α → Bool} {l : List α} {x : α} (h : x ∈ l.takeWhile p) : x ∈ l ∧ p x = true := by
  induction l with
  | nil => simp at h
  | cons a l ih =>
    simp only [List.takeWhile_cons] at h
    split at h
    · rcases List.mem_cons.mp h with rfl | h'
      · exact ⟨by simp, by assumption⟩
      · exact ⟨by simp [(ih h').1], (ih h').2⟩
    · simp at h

theorem mem_dropWhile {p : α → Bool} {l : List α} {x : α} (h : x ∈ l.dropWhile p) : x ∈ l := by
  induction l with
  | nil => simp at h
  | cons a l ih =>
    simp only [List.dropWhile_cons] at h
    split at h
    · simp [ih h]
    · exact h

theorem mem_collapse {l : List α} {x : α} (h : x ∈ collapse ws nl sp l) : x ∈ l ∨ x = sp := by
  fun_induction collapse ws nl sp l with
  | case1 => simp at h
  | case2 c r hc ih =>
    rcases List.mem_append.mp h with h | h
    · split at h
      · right; simpa using h
      · left
        rcases List.mem_cons.mp h with rfl | h
        · simp
        · simp [(mem_takeWhile h).1]
    · rcases ih h with h | h
      · left; simp [mem_dropWhile h]
      · right; exact h
  | case3 c r hc ih =>
    rcases List.mem_cons.mp h with rfl | h
    · left; simp
    · rcases ih h with h | h
      · left; simp [h]
      · right; exact h

theorem stripR_cons_nonws (c : α) (r : List α) (h : ws c = false) : stripR ws (c :: r) = c :: stripR ws r := by
  rw [stripR]; split
  · rename_i heq; simp [h, heq]
  · rename_i heq; simp

theorem stripR_cons_ws (c : α) (r : List α) (h : ws c = true) :
    stripR ws (c :: r) = if stripR ws r = [] then [] else c :: stripR ws r := by
  rw [stripR]; split
  · rename_i heq; simp [h, heq]
  · rename_i hne; 
    have : stripR ws r ≠ [] := fun e => hne e
    simp [this]

theorem mem_stripR {l : List α} {x : α} (h : x ∈ stripR ws l) : x ∈ l := by
  induction l with
  | nil => simp [stripR] at h
  | cons c r ih =>
    cases hc : ws c with
    | false =>
      rw [stripR_cons_nonws _ _ _ hc] at h
      rcases List.mem_cons.mp h with rfl | h
      · simp
      · simp [ih h]
    | true =>
      rw [stripR_cons_ws _ _ _ hc] at h
      split at h
      · simp at h
      · rcases List.mem_cons.mp h with rfl | h
        · simp
        · simp [ih h]

theorem mem_trimG {l : List α} {x : α} (h : x ∈ trimG ws nl sp l) : x ∈ l ∨ x = sp := by
  rcases mem_collapse ws nl sp h with h | h
  · left; exact mem_dropWhile (mem_stripR ws h)
  · right; exact h


/-! #### trimming commutes with a whitespace-respecting expansion of the symbols -/

/-- `f` expands each symbol of `α` into symbols of `β`: a whitespace symbol into one whitespace symbol with the same
    line-break status, any other symbol into a non-empty word -/
structure Respects {β : Type} (wsB nlB : β → Bool) (spB : β) (f : α → List β) : Prop where
  onWs : ∀ a, ws a = true → ∃ c, f a = [c] ∧ wsB c = true ∧ nlB c = nl a
  onWord : ∀ a, ws a = false → f a ≠ [] ∧ ∀ c ∈ f a, wsB c = false
  onSp : f sp = [spB]

variable {β : Type} (wsB nlB : β → Bool) (spB : β) (f : α → List β)

theorem flatMap_eq_nil_of_respects (H : Respects ws nl sp wsB nlB spB f) (l : List α) :
    l.flatMap f = [] ↔ l = [] := by
  cases l with
  | nil => simp
  | cons a l =>
    simp only [List.flatMap_cons, List.append_eq_nil_iff, reduceCtorEq, iff_false, not_and]
    intro h
    cases ha : ws a with
    | true => obtain ⟨c, hc, _⟩ := H.onWs a ha; rw [hc] at h; simp at h
    | false => exact absurd h (H.onWord a ha).1

theorem head_flatMap_nonws (H : Respects ws nl sp wsB nlB spB f) (l : List α)
    (hl : ∀ x, l.head? = some x → ws x = false) : ∀ y, (l.flatMap f).head? = some y → wsB y = false := by
  intro y hy
  cases l with
  | nil => simp at hy
  | cons a l =>
    have ha := hl a (by simp)
    obtain ⟨hne, hall⟩ := H.onWord a ha
    cases hfa : f a with
    | nil => exact absurd hfa hne
    | cons c w =>
      simp only [List.flatMap_cons, hfa, List.cons_append, List.head?_cons, Option.some.injEq] at hy
      subst hy; exact hall c (by simp [hfa])

theorem head_dropWhile (p : α → Bool) (l : List α) : ∀ x, (l.dropWhile p).head? = some x → p x = false := by
  intro x hx
  induction l with
  | nil => simp at hx
  | cons a l ih =>
    simp only [List.dropWhile_cons] at hx
    split at hx
    · exact ih hx
    · simp at hx; subst hx; simpa using ‹¬ p a = true›

theorem takeWhile_flatMap (H : Respects ws nl sp wsB nlB spB f) (l : List α) :
    (l.flatMap f).takeWhile wsB = (l.takeWhile ws).flatMap f := by
  induction l with
  | nil => rfl
  | cons a l ih =>
    cases ha : ws a with
    | true =>
      obtain ⟨c, hc, hwc, _⟩ := H.onWs a ha
      simp [List.flatMap_cons, hc, List.takeWhile_cons, hwc, ha, ih]
    | false =>
      have := head_flatMap_nonws ws nl sp wsB nlB spB f H (a :: l) (by intro x hx; simp at hx; subst hx; exact ha)
      simp only [List.takeWhile_cons, ha]
      cases hfl : (a :: l).flatMap f with
      | nil => simp
      | cons y r => simp [List.takeWhile_cons, this y (by simp [hfl])]

theorem dropWhile_flatMap (H : Respects ws nl sp wsB nlB spB f) (l : List α) :
    (l.flatMap f).dropWhile wsB = (l.dropWhile ws).flatMap f := by
  induction l with
  | nil => rfl
  | cons a l ih =>
    cases ha : ws a with
    | true =>
      obtain ⟨c, hc, hwc, _⟩ := H.onWs a ha
      simp [List.flatMap_cons, hc, List.dropWhile_cons, hwc, ha, ih]
    | false =>
      have := head_flatMap_nonws ws nl sp wsB nlB spB f H (a :: l) (by intro x hx; simp at hx; subst hx; exact ha)
      have hr : List.dropWhile ws (a :: l) = a :: l := by simp [List.dropWhile_cons, ha]
      rw [hr]
      generalize (a :: l).flatMap f = L at this ⊢
      cases L with
      | nil => rfl
      | cons y r => simp [List.dropWhile_cons, this y (by simp)]

theorem any_flatMap_run (H : Respects ws nl sp wsB nlB spB f) (g : List α) (hg : ∀ x ∈ g, ws x = true) :
    (g.flatMap f).any nlB = g.any nl := by
  induction g with
  | nil => rfl
  | cons a g ih =>
    obtain ⟨c, hc, _, hnl⟩ := H.onWs a (hg a (by simp))
    simp [List.flatMap_cons, hc, hnl, ih (fun x hx => hg x (by simp [hx]))]

theorem collapse_flatMap (H : Respects ws nl sp wsB nlB spB f) (l : List α) :
    collapse wsB nlB spB (l.flatMap f) = (collapse ws nl sp l).flatMap f := by
  fun_induction collapse ws nl sp l with
  | case1 => simp [collapse_nil]
  | case2 c r hc ih =>
    obtain ⟨c', hc', hwc, hnl⟩ := H.onWs c hc
    have hrun : ∀ x ∈ c :: List.takeWhile ws r, ws x = true := by
      intro x hx
      rcases List.mem_cons.mp hx with rfl | hx
      · exact hc
      · exact (mem_takeWhile hx).2
    have hany := any_flatMap_run ws nl sp wsB nlB spB f H _ hrun
    simp only [List.flatMap_cons, hc', List.cons_append, List.nil_append] at hany ⊢
    rw [collapse_cons_ws _ _ _ _ _ hwc, takeWhile_flatMap ws nl sp wsB nlB spB f H, dropWhile_flatMap ws nl sp wsB nlB spB f H,
      ih, hany]
    split
    · simp [H.onSp]
    · simp [List.flatMap_cons, hc']
  | case3 c r hc ih =>
    have hc : ws c = false := by simpa using hc
    obtain ⟨_, hall⟩ := H.onWord c hc
    simp only [List.flatMap_cons]
    rw [collapse_word_append _ _ _ _ hall, ih]

theorem stripR_word_append (w : List α) (hw : ∀ x ∈ w, ws x = false) (r : List α) :
    stripR ws (w ++ r) = w ++ stripR ws r := by
  induction w with
  | nil => rfl
  | cons c w ih =>
    simp only [List.cons_append]
    rw [stripR_cons_nonws _ _ _ (hw c (by simp)), ih (fun x hx => hw x (by simp [hx]))]

theorem stripR_flatMap (H : Respects ws nl sp wsB nlB spB f) (l : List α) :
    stripR wsB (l.flatMap f) = (stripR ws l).flatMap f := by
  induction l with
  | nil => rfl
  | cons a l ih =>
    cases ha : ws a with
    | true =>
      obtain ⟨c, hc, hwc, _⟩ := H.onWs a ha
      simp only [List.flatMap_cons, hc, List.cons_append, List.nil_append]
      rw [stripR_cons_ws _ _ _ hwc, stripR_cons_ws _ _ _ ha, ih]
      by_cases he : stripR ws l = []
      · simp [he]
      · have : (stripR ws l).flatMap f ≠ [] := by
          rw [Ne, flatMap_eq_nil_of_respects ws nl sp wsB nlB spB f H]; exact he
        simp [he, this, hc]
    | false =>
      obtain ⟨_, hall⟩ := H.onWord a ha
      simp only [List.flatMap_cons]
      rw [stripR_word_append _ _ hall, stripR_cons_nonws _ _ _ ha, ih]; simp

/-- **trimming the message = trimming the source** -/
theorem trimG_flatMap (H : Respects ws nl sp wsB nlB spB f) (l : List α) :
    trimG wsB nlB spB (l.flatMap f) = (trimG ws nl sp l).flatMap f := by
  unfold trimG stripL
  rw [dropWhile_flatMap ws nl sp wsB nlB spB f H, stripR_flatMap ws nl sp wsB nlB spB f H,
    collapse_flatMap ws nl sp wsB nlB spB f H]


/-! #### what a trimmed list looks like -/

section Shape
variable {α : Type} (ws nl : α → Bool) (sp : α)

def StartsNonWs (l : List α) : Prop := ∀ x, l.head? = some x → ws x = false
def EndsNonWs (l : List α) : Prop := ∀ x, l.getLast? = some x → ws x = false

theorem collapse_ne_nil (l : List α) (h : l ≠ []) : collapse ws nl sp l ≠ [] := by
  cases l with
  | nil => exact absurd rfl h
  | cons c r =>
    cases hc : ws c with
    | true => rw [collapse_cons_ws _ _ _ _ _ hc]; split <;> simp
    | false => rw [collapse_cons_nonws _ _ _ _ _ hc]; simp

theorem endsNonWs_tail {c : α} {r : List α} (h : EndsNonWs ws (c :: r)) (hr : r ≠ []) : EndsNonWs ws r := by
  intro x hx
  apply h x
  rw [List.getLast?_cons_of_ne_nil hr] <;> exact hx

theorem endsNonWs_dropWhile {l : List α} (h : EndsNonWs ws l) : EndsNonWs ws (l.dropWhile ws) := by
  induction l with
  | nil => exact h
  | cons a l ih =>
    simp only [List.dropWhile_cons]
    split
    · by_cases hl : l = []
      · subst hl; intro x hx; simp at hx
      · exact ih (endsNonWs_tail ws h hl)
    · exact h

theorem all_of_dropWhile_nil (p : α → Bool) (r : List α) (e : r.dropWhile p = []) : ∀ x ∈ r, p x = true := by
  induction r with
  | nil => intro x hx; simp at hx
  | cons a r ih =>
    simp only [List.dropWhile_cons] at e
    split at e
    · intro x hx
      rcases List.mem_cons.mp hx with rfl | hx
      · assumption
      · exact ih e x hx
    · simp at e

theorem dropWhile_ne_nil_of_ends {c : α} {r : List α} (hc : ws c = true) (h : EndsNonWs ws (c :: r)) :
    r ≠ [] ∧ r.dropWhile ws ≠ [] := by
  have hr : r ≠ [] := by
    intro e; subst e
    have := h c (by simp); rw [hc] at this; exact absurd this (by simp)
  refine ⟨hr, ?_⟩
  intro e
  have hall : ∀ x ∈ r, ws x = true := by
    intro x hx
    exact all_of_dropWhile_nil ws r e x hx
  obtain ⟨y, hy⟩ : ∃ y, r.getLast? = some y := by
    cases hrl : r.getLast? with
    | none => rw [List.getLast?_eq_none_iff] at hrl; exact absurd hrl hr
    | some y => exact ⟨y, rfl⟩
  have hy' : ws y = false := h y (by rw [List.getLast?_cons_of_ne_nil hr]; exact hy)
  have : y ∈ r := List.mem_of_getLast? hy
  rw [hall y this] at hy'; exact absurd hy' (by simp)

theorem endsNonWs_collapse (l : List α) (h : EndsNonWs ws l) : EndsNonWs ws (collapse ws nl sp l) := by
  fun_induction collapse ws nl sp l with
  | case1 => exact h
  | case2 c r hc ih =>
    obtain ⟨hr, hd⟩ := dropWhile_ne_nil_of_ends ws hc h
    have hD := ih (endsNonWs_dropWhile ws (endsNonWs_tail ws h hr))
    have hne := collapse_ne_nil ws nl sp _ hd
    intro x hx
    apply hD x
    rw [List.getLast?_append] at hx
    cases hl : (collapse ws nl sp (List.dropWhile ws r)).getLast? with
    | none => rw [List.getLast?_eq_none_iff] at hl; exact absurd hl hne
    | some y => rw [hl] at hx; simpa using hx
  | case3 c r hc ih =>
    by_cases hr : r = []
    · subst hr; simpa [collapse_nil] using h
    · have := ih (endsNonWs_tail ws h hr)
      intro x hx
      apply this x
      rw [List.getLast?_cons_of_ne_nil (collapse_ne_nil ws nl sp _ hr)] at hx; exact hx

theorem startsNonWs_collapse (l : List α) (h : StartsNonWs ws l) : StartsNonWs ws (collapse ws nl sp l) := by
  cases l with
  | nil => simpa [collapse_nil] using h
  | cons c r =>
    have hc : ws c = false := h c (by simp)
    rw [collapse_cons_nonws _ _ _ _ _ hc]
    intro x hx; simp at hx; subst hx; exact hc

theorem stripR_eq_self {l : List α} (h : EndsNonWs ws l) : stripR ws l = l := by
  induction l with
  | nil => rfl
  | cons c r ih =>
    by_cases hr : r = []
    · subst hr
      have hc : ws c = false := h c (by simp)
      rw [stripR_cons_nonws _ _ _ hc]; rfl
    · have := ih (endsNonWs_tail ws h hr)
      cases hc : ws c with
      | true => rw [stripR_cons_ws _ _ _ hc, this]; simp [hr]
      | false => rw [stripR_cons_nonws _ _ _ hc, this]

theorem stripL_eq_self {l : List α} (h : StartsNonWs ws l) : stripL ws l = l := by
  cases l with
  | nil => rfl
  | cons c r => simp [stripL, List.dropWhile_cons, h c (by simp)]

theorem endsNonWs_stripR (l : List α) : EndsNonWs ws (stripR ws l) := by
  induction l with
  | nil => intro x hx; simp [stripR] at hx
  | cons c r ih =>
    cases hc : ws c with
    | true =>
      rw [stripR_cons_ws _ _ _ hc]
      split
      · intro x hx; simp at hx
      · rename_i hne
        intro x hx
        rw [List.getLast?_cons_of_ne_nil hne] at hx; exact ih x hx
    | false =>
      rw [stripR_cons_nonws _ _ _ hc]
      by_cases hne : stripR ws r = []
      · rw [hne]; intro x hx; simp at hx; subst hx; exact hc
      · intro x hx
        rw [List.getLast?_cons_of_ne_nil hne] at hx; exact ih x hx

theorem startsNonWs_stripR {l : List α} (h : StartsNonWs ws l) : StartsNonWs ws (stripR ws l) := by
  cases l with
  | nil => exact h
  | cons c r =>
    have hc : ws c = false := h c (by simp)
    rw [stripR_cons_nonws _ _ _ hc]
    intro x hx; simp at hx; subst hx; exact hc

theorem startsNonWs_trimG (l : List α) : StartsNonWs ws (trimG ws nl sp l) :=
  startsNonWs_collapse ws nl sp _ (startsNonWs_stripR ws (head_dropWhile ws l))

theorem endsNonWs_trimG (l : List α) : EndsNonWs ws (trimG ws nl sp l) :=
  endsNonWs_collapse ws nl sp _ (endsNonWs_stripR ws _)

/-- no element of the result is a line break (a run with a line break became the space) -/
theorem no_nl_collapse (hsp : nl sp = false) (hnl : ∀ x, nl x = true → ws x = true) (l : List α) :
    ∀ x ∈ collapse ws nl sp l, nl x = false := by
  fun_induction collapse ws nl sp l with
  | case1 => intro x hx; simp at hx
  | case2 c r hc ih =>
    intro x hx
    rcases List.mem_append.mp hx with hx | hx
    · split at hx
      · simp at hx; subst hx; exact hsp
      · rename_i hany
        cases hx' : nl x with
        | false => rfl
        | true => exact absurd (List.any_eq_true.mpr ⟨x, hx, hx'⟩) hany
    · exact ih x hx
  | case3 c r hc ih =>
    intro x hx
    rcases List.mem_cons.mp hx with rfl | hx
    · cases hx' : nl x with
      | false => rfl
      | true => exact absurd (hnl x hx') hc
    · exact ih x hx

/-- without a line break nothing changes -/
theorem collapse_eq_self (l : List α) (h : ∀ x ∈ l, nl x = false) : collapse ws nl sp l = l := by
  fun_induction collapse ws nl sp l with
  | case1 => rfl
  | case2 c r hc ih =>
    have hany : (c :: List.takeWhile ws r).any nl = false := by
      rw [List.any_eq_false]
      intro x hx
      have : x ∈ c :: r := by
        rcases List.mem_cons.mp hx with rfl | hx
        · simp
        · simp [(mem_takeWhile hx).1]
      simp [h x this]
    rw [hany, ih (fun x hx => h x (by simp [mem_dropWhile hx]))]
    simp
  | case3 c r hc ih => rw [ih (fun x hx => h x (by simp [hx]))]

theorem trimG_idem (hsp : nl sp = false) (hnl : ∀ x, nl x = true → ws x = true) (l : List α) :
    trimG ws nl sp (trimG ws nl sp l) = trimG ws nl sp l := by
  have h1 := startsNonWs_trimG ws nl sp l
  have h2 := endsNonWs_trimG ws nl sp l
  have h3 : ∀ x ∈ trimG ws nl sp l, nl x = false := no_nl_collapse ws nl sp hsp hnl _
  generalize trimG ws nl sp l = t at h1 h2 h3
  unfold trimG
  rw [stripL_eq_self ws h1, stripR_eq_self ws h2, collapse_eq_self ws nl sp t h3]

/-- the non-whitespace symbols survive, in order -/
theorem filter_dropWhile (l : List α) : (l.dropWhile ws).filter (fun x => !ws x) = l.filter (fun x => !ws x) := by
  induction l with
  | nil => rfl
  | cons a l ih =>
    simp only [List.dropWhile_cons]
    split
    · rename_i h; simp [List.filter_cons, h, ih]
    · rfl

theorem filter_takeWhile (l : List α) : (l.takeWhile ws).filter (fun x => !ws x) = [] := by
  rw [List.filter_eq_nil_iff]
  intro x hx; simp [(mem_takeWhile hx).2]

theorem filter_stripR (l : List α) : (stripR ws l).filter (fun x => !ws x) = l.filter (fun x => !ws x) := by
  induction l with
  | nil => rfl
  | cons c r ih =>
    cases hc : ws c with
    | true =>
      rw [stripR_cons_ws _ _ _ hc]
      split
      · rename_i he; rw [he] at ih; simp [List.filter_cons, hc, ← ih]
      · simp [List.filter_cons, hc, ih]
    | false => rw [stripR_cons_nonws _ _ _ hc]; simp [List.filter_cons, hc, ih]

theorem filter_collapse (hsp : ws sp = true) (l : List α) :
    (collapse ws nl sp l).filter (fun x => !ws x) = l.filter (fun x => !ws x) := by
  fun_induction collapse ws nl sp l with
  | case1 => rfl
  | case2 c r hc ih =>
    rw [List.filter_append, ih, filter_dropWhile]
    have : List.filter (fun x => !ws x) (if (c :: List.takeWhile ws r).any nl = true then [sp] else c :: List.takeWhile ws r) = [] := by
      split
      · simp [List.filter_cons, hsp]
      · simp [List.filter_cons, hc, filter_takeWhile]
    rw [this]; simp [List.filter_cons, hc]
  | case3 c r hc ih => simp [List.filter_cons, hc, ih]

theorem filter_trimG (hsp : ws sp = true) (l : List α) :
    (trimG ws nl sp l).filter (fun x => !ws x) = l.filter (fun x => !ws x) := by
  unfold trimG stripL
  rw [filter_collapse ws nl sp hsp, filter_stripR, filter_dropWhile]

theorem takeWhile_append_of_mem (p : α → Bool) (r v : List α) (h : ∃ x ∈ r, p x = false) :
    (r ++ v).takeWhile p = r.takeWhile p ∧ (r ++ v).dropWhile p = r.dropWhile p ++ v := by
  induction r with
  | nil => simp at h
  | cons a r ih =>
    simp only [List.cons_append, List.takeWhile_cons, List.dropWhile_cons]
    cases ha : p a with
    | false => simp
    | true =>
      obtain ⟨x, hx, hpx⟩ := h
      have : ∃ x ∈ r, p x = false := by
        rcases List.mem_cons.mp hx with rfl | hx
        · rw [ha] at hpx; exact absurd hpx (by simp)
        · exact ⟨x, hx, hpx⟩
      simp [ih this]

/-- splitting after a word end -/
theorem collapse_append_of_last (u v : List α) (hu : EndsNonWs ws u) :
    collapse ws nl sp (u ++ v) = collapse ws nl sp u ++ collapse ws nl sp v := by
  fun_induction collapse ws nl sp u with
  | case1 => simp [collapse_nil]
  | case2 c r hc ih =>
    obtain ⟨hr, hd⟩ := dropWhile_ne_nil_of_ends ws hc hu
    have hex : ∃ x ∈ r, ws x = false := by
      cases hdr : List.dropWhile ws r with
      | nil => exact absurd hdr hd
      | cons y t =>
        exact ⟨y, mem_dropWhile (by rw [hdr]; simp), head_dropWhile ws r y (by rw [hdr]; simp)⟩
    obtain ⟨h1, h2⟩ := takeWhile_append_of_mem ws r v hex
    simp only [List.cons_append]
    rw [collapse_cons_ws _ _ _ _ _ hc, h1, h2, ih (endsNonWs_dropWhile ws (endsNonWs_tail ws hu hr))]
    simp
  | case3 c r hc ih =>
    have hc : ws c = false := by simpa using hc
    simp only [List.cons_append]
    rw [collapse_cons_nonws _ _ _ _ _ hc]
    by_cases hr : r = []
    · subst hr; simp [collapse_nil]
    · rw [ih (endsNonWs_tail ws hu hr)]

theorem endsNonWs_append {u v : List α} (hv : EndsNonWs ws v) (hne : v ≠ []) : EndsNonWs ws (u ++ v) := by
  intro x hx
  apply hv x
  rw [List.getLast?_append] at hx
  cases hl : v.getLast? with
  | none => rw [List.getLast?_eq_none_iff] at hl; exact absurd hl hne
  | some y => rw [hl] at hx; simpa using hx

/-- **runs**: between two words a whitespace run becomes one space iff it contains a line break, and is kept as it is
    otherwise -/
theorem trimG_word_run_word (u g v : List α) (hu1 : StartsNonWs ws u) (hu2 : EndsNonWs ws u) (hune : u ≠ [])
    (hg : ∀ x ∈ g, ws x = true) (hgne : g ≠ []) (hv1 : StartsNonWs ws v) (hv2 : EndsNonWs ws v) (hvne : v ≠ []) :
    trimG ws nl sp (u ++ g ++ v) =
      trimG ws nl sp u ++ (if g.any nl then [sp] else g) ++ trimG ws nl sp v := by
  have hstart : StartsNonWs ws (u ++ g ++ v) := by
    cases u with
    | nil => exact absurd rfl hune
    | cons c u => intro x hx; simp at hx; subst hx; exact hu1 c (by simp)
  have hend : EndsNonWs ws (u ++ g ++ v) := endsNonWs_append ws hv2 hvne
  unfold trimG
  rw [stripL_eq_self ws hstart, stripR_eq_self ws hend, stripL_eq_self ws hu1, stripR_eq_self ws hu2,
    stripL_eq_self ws hv1, stripR_eq_self ws hv2, List.append_assoc,
    collapse_append_of_last ws nl sp u (g ++ v) hu2, collapse_run_append ws nl sp g hg hgne v hv1]
  simp

end Shape
end Trim
end JinjaV.I18n
