/-
  Helper lemmas for Props/C23.lean (list / splitlines / joinWith / scanning facts).  Not property statements.
-/
import JinjaV.Spec.FiltStr

namespace JinjaV.C23
open JinjaV.FiltStr

theorem mem_takeWhile_imp {p : Char → Bool} {l : List Char} {c : Char} (h : c ∈ l.takeWhile p) : p c = true :=
  List.all_eq_true.mp (List.all_takeWhile (l := l) (p := p)) c h

theorem splitlinesAux_snoc_ne_nil (s cur : Str) : splitlinesAux (s ++ ['\n']) cur false ≠ [] := by
  induction s generalizing cur with
  | nil => simp [splitlinesAux, isBreak]
  | cons c cs ih =>
    simp only [List.cons_append, splitlinesAux, Bool.false_and, Bool.false_eq_true, if_false]
    split
    · simp
    · exact ih _

theorem splitlinesAux_no_break (s cur : Str) (b : Bool) (hcur : ∀ c ∈ cur, isBreak c = false) :
    ∀ l ∈ splitlinesAux s cur b, ∀ c ∈ l, isBreak c = false := by
  induction s generalizing cur b with
  | nil =>
    simp only [splitlinesAux]
    split
    · simp
    · intro l hl c hc
      rw [List.mem_singleton.mp hl] at hc
      exact hcur c (List.mem_reverse.mp hc)
  | cons x xs ih =>
    simp only [splitlinesAux]
    split
    · exact ih cur false hcur
    · split
      · intro l hl
        rcases List.mem_cons.mp hl with rfl | hl
        · intro c hc; exact hcur c (List.mem_reverse.mp hc)
        · exact ih [] _ (by simp) l hl
      · rename_i hx
        apply ih (x :: cur) false
        intro c hc
        rcases List.mem_cons.mp hc with rfl | hc
        · simpa using hx
        · exact hcur c hc

theorem splitlinesAux_append_nobreak (l rest cur : Str) (h : ∀ c ∈ l, isBreak c = false) :
    splitlinesAux (l ++ rest) cur false = splitlinesAux rest (l.reverse ++ cur) false := by
  induction l generalizing cur with
  | nil => rfl
  | cons x xs ih =>
    have hx := h x (List.mem_cons_self ..)
    simp only [List.cons_append, splitlinesAux, Bool.false_and, Bool.false_eq_true, if_false, hx]
    rw [ih _ (fun c hc => h c (List.mem_cons_of_mem _ hc))]
    simp

theorem joinWith_ind (sep ind : Str) (l0 : Str) (rest : List Str) :
    joinWith (sep ++ ind) (l0 :: rest) = joinWith sep (l0 :: rest.map (ind ++ ·)) := by
  induction rest generalizing l0 with
  | nil => rfl
  | cons l1 rest ih =>
    simp only [joinWith, List.map_cons]
    rw [ih l1]
    cases rest with
    | nil => simp [joinWith]
    | cons l2 rest2 => simp [joinWith]

theorem joinWith_head_append (sep a l0 : Str) (rest : List Str) :
    joinWith sep ((a ++ l0) :: rest) = a ++ joinWith sep (l0 :: rest) := by
  cases rest with
  | nil => rfl
  | cons l1 r => simp [joinWith]

theorem undecorate_decorate (ind : Str) (first blank : Bool) (ls : List Str) :
    undecorate ind first blank (decorate ind first blank ls) = ls := by
  cases ls with
  | nil => rfl
  | cons l0 rest =>
    simp only [decorate, undecorate, List.map_map]
    congr 1
    · cases first <;> simp
    · conv => rhs; rw [← List.map_id rest]
      apply List.map_congr_left
      intro l _
      cases blank <;> cases l <;> simp

theorem decorate_ne_nil {ind : Str} {first blank : Bool} {ls : List Str} (h : ls ≠ []) :
    decorate ind first blank ls ≠ [] := by
  cases ls with
  | nil => exact absurd rfl h
  | cons _ _ => simp [decorate]

theorem decorate_no_break {ind : Str} {first blank : Bool} {ls : List Str}
    (hind : ∀ c ∈ ind, isBreak c = false) (h : ∀ l ∈ ls, ∀ c ∈ l, isBreak c = false) :
    ∀ l ∈ decorate ind first blank ls, ∀ c ∈ l, isBreak c = false := by
  have happ : ∀ l : Str, (∀ c ∈ l, isBreak c = false) → ∀ c ∈ ind ++ l, isBreak c = false := by
    intro l hl c hc
    rcases List.mem_append.mp hc with hc | hc
    · exact hind c hc
    · exact hl c hc
  cases ls with
  | nil => simp [decorate]
  | cons l0 rest =>
    intro l hl
    simp only [decorate] at hl
    rcases List.mem_cons.mp hl with rfl | hl
    · have h0 := h l0 (List.mem_cons_self ..)
      split
      · exact happ l0 h0
      · exact h0
    · obtain ⟨l', hl', rfl⟩ := List.mem_map.mp hl
      have h' := h l' (List.mem_cons_of_mem _ hl')
      split
      · exact happ l' h'
      · exact h'

theorem head?_dropWhile_not (p : Char → Bool) (l : List Char) (c : Char)
    (h : (l.dropWhile p).head? = some c) : p c = false := by
  have hne : l.dropWhile p ≠ [] := by intro h0; rw [h0] at h; cases h
  have := List.head_dropWhile_not p hne
  rw [List.head?_eq_some_head hne] at h
  rw [← Option.some.inj h]; exact this

theorem wordcountGo_nonword {s : Str} (h : ∀ c ∈ s, isWordAscii c = false) (b : Bool) : wordcountGo s b = 0 := by
  induction s generalizing b with
  | nil => rfl
  | cons c cs ih =>
    have hc := h c (List.mem_cons_self ..)
    simp only [wordcountGo, hc, Bool.false_eq_true, if_false]
    exact ih (fun d hd => h d (List.mem_cons_of_mem _ hd)) false

theorem wordcountGo_word {s : Str} (h : ∀ c ∈ s, isWordAscii c = true) : wordcountGo s true = 0 := by
  induction s with
  | nil => rfl
  | cons c cs ih =>
    have hc := h c (List.mem_cons_self ..)
    simp only [wordcountGo, hc, if_true]
    rw [ih (fun d hd => h d (List.mem_cons_of_mem _ hd))]

theorem wordcountGo_sep (a b : Str) (sep : Char) (h : isWordAscii sep = false) (inw : Bool) :
    wordcountGo (a ++ sep :: b) inw = wordcountGo a inw + wordcountGo b false := by
  induction a generalizing inw with
  | nil => simp [wordcountGo, h]
  | cons c cs ih =>
    simp only [List.cons_append, wordcountGo]
    split
    · rw [ih]; omega
    · rw [ih]

theorem prefLoop_spec (lt : Nat → Bool) (k : Nat) (n : Nat) :
    match prefLoop lt ((List.range' k n)) with
    | some i => k ≤ i ∧ i < k + n ∧ lt i = true ∧ ∀ j, k ≤ j → j < i → lt j = false
    | none => ∀ j, k ≤ j → j < k + n → lt j = false := by
  induction n generalizing k with
  | zero => simp [prefLoop]; intro j h1 h2; omega
  | succ n ih =>
    rw [List.range'_succ]
    simp only [prefLoop]
    by_cases h : lt k = true
    · rw [if_pos h]
      exact ⟨Nat.le_refl _, by omega, h, fun j h1 h2 => by omega⟩
    · rw [if_neg h]
      have := ih (k + 1)
      split
      · rename_i i hi
        rw [hi] at this
        obtain ⟨h1, h2, h3, h4⟩ := this
        refine ⟨by omega, by omega, h3, fun j hj1 hj2 => ?_⟩
        by_cases hjk : j = k
        · rw [hjk]; simpa using h
        · exact h4 j (by omega) hj2
      · rename_i hi
        rw [hi] at this
        intro j hj1 hj2
        by_cases hjk : j = k
        · rw [hjk]; simpa using h
        · exact this j (by omega) (by omega)

theorem joinWith_head_prefix (sep s p : Str) (ps : List Str) (h : joinWith sep (p :: ps) = s) : p <+: s := by
  cases ps with
  | nil => simp only [joinWith] at h; rw [h]; exact List.prefix_refl _
  | cons q qs => simp only [joinWith] at h; rw [← h, List.append_assoc]; exact List.prefix_append _ _

theorem replaceEmpty_some (new s : Str) (n : Nat) :
    replaceEmpty new s (some n) =
      if n ≤ s.length then (s.take n).flatMap (fun c => new ++ [c]) ++ s.drop n
      else s.flatMap (fun c => new ++ [c]) ++ new := by
  induction s generalizing n with
  | nil =>
    cases n with
    | zero => simp [replaceEmpty]
    | succ m => simp [replaceEmpty]
  | cons c cs ih =>
    cases n with
    | zero => simp [replaceEmpty]
    | succ m =>
      simp only [replaceEmpty, decr, Nat.add_sub_cancel, List.length_cons, Nat.add_le_add_iff_right]
      rw [ih m]
      split <;> simp

theorem isBreak_isPySpace (c : Char) (h : isBreak c = true) : isPySpace c = true := by
  unfold isBreak at h
  simp only [Bool.or_eq_true, beq_iff_eq] at h
  rcases h with ((((((((h | h) | h) | h) | h) | h) | h) | h) | h) | h <;> subst h <;> decide

theorem nonws_append (a b : Str) : nonws (a ++ b) = nonws a ++ nonws b := List.filter_append ..

theorem nonws_cons_space (c : Char) (s : Str) (h : isPySpace c = true) : nonws (c :: s) = nonws s := by
  unfold nonws; rw [List.filter_cons_of_neg]; simp [h]

theorem nonws_splitlinesAux (s cur : Str) (b : Bool) :
    ((splitlinesAux s cur b).map nonws).flatten = nonws (cur.reverse ++ s) := by
  induction s generalizing cur b with
  | nil =>
    simp only [splitlinesAux]
    split
    · rename_i h; rw [List.isEmpty_iff.mp h]; rfl
    · simp
  | cons c rest ih =>
    simp only [splitlinesAux]
    split
    · rename_i h
      have hc : c = '\n' := by simp only [Bool.and_eq_true, beq_iff_eq] at h; exact h.2
      rw [ih, nonws_append, nonws_append, nonws_cons_space c rest (by rw [hc]; decide)]
    · split
      · rename_i hb
        simp only [List.map_cons, List.flatten_cons]
        rw [ih, nonws_append, nonws_append, nonws_cons_space c rest (isBreak_isPySpace c hb)]
        rfl
      · rw [ih, List.reverse_cons, List.append_assoc]; rfl

theorem nonws_joinWith (ws : Str) (hws : nonws ws = []) (ls : List Str) :
    nonws (joinWith ws ls) = (ls.map nonws).flatten := by
  induction ls with
  | nil => rfl
  | cons l rest ih =>
    cases rest with
    | nil => simp [joinWith]
    | cons l2 r =>
      simp only [joinWith] at ih ⊢
      rw [nonws_append, nonws_append, hws, ih]
      simp

theorem joinWith_append (sep : Str) (a b : List Str) (ha : a ≠ []) (hb : b ≠ []) :
    joinWith sep (a ++ b) = joinWith sep a ++ sep ++ joinWith sep b := by
  induction a with
  | nil => exact absurd rfl ha
  | cons x xs ih =>
    cases xs with
    | nil =>
      cases b with
      | nil => exact absurd rfl hb
      | cons y ys => simp [joinWith]
    | cons x2 xs2 =>
      have := ih (by simp)
      simp only [List.cons_append, joinWith] at this ⊢
      rw [this]; simp

/-! striptags / format helpers -/
theorem splitWsAux_words (s cur : Str) (hcur : ∀ c ∈ cur, isPySpace c = false) :
    ∀ w ∈ splitWsAux s cur, w ≠ [] ∧ ∀ c ∈ w, isPySpace c = false := by
  induction s generalizing cur with
  | nil =>
    simp only [splitWsAux]
    split
    · simp
    · rename_i h
      intro w hw
      rw [List.mem_singleton.mp hw]
      refine ⟨?_, fun c hc => hcur c (List.mem_reverse.mp hc)⟩
      intro h0; apply h; rw [List.reverse_eq_nil_iff.mp h0]; rfl
  | cons c cs ih =>
    simp only [splitWsAux]
    split
    · split
      · exact ih [] (by simp)
      · rename_i h
        intro w hw
        rcases List.mem_cons.mp hw with rfl | hw
        · refine ⟨?_, fun c hc => hcur c (List.mem_reverse.mp hc)⟩
          intro h0; apply h; rw [List.reverse_eq_nil_iff.mp h0]; rfl
        · exact ih [] (by simp) w hw
    · rename_i hc
      apply ih (c :: cur)
      intro d hd
      rcases List.mem_cons.mp hd with rfl | hd
      · simpa using hc
      · exact hcur d hd

theorem nonws_splitWsAux (s cur : Str) : ((splitWsAux s cur).map nonws).flatten = nonws (cur.reverse ++ s) := by
  induction s generalizing cur with
  | nil =>
    simp only [splitWsAux]
    split
    · rename_i h; rw [List.isEmpty_iff.mp h]; rfl
    · simp
  | cons c cs ih =>
    simp only [splitWsAux]
    split
    · rename_i hc
      split
      · rename_i h
        rw [ih, List.isEmpty_iff.mp h, nonws_append, nonws_append, nonws_cons_space c cs hc]
      · simp only [List.map_cons, List.flatten_cons]
        rw [ih, nonws_append, nonws_append, nonws_cons_space c cs hc]; rfl
    · rw [ih, List.reverse_cons, List.append_assoc]; rfl

theorem splitWsAux_append_word (w rest cur : Str) (h : ∀ c ∈ w, isPySpace c = false) :
    splitWsAux (w ++ rest) cur = splitWsAux rest (w.reverse ++ cur) := by
  induction w generalizing cur with
  | nil => rfl
  | cons x xs ih =>
    have hx := h x (List.mem_cons_self ..)
    simp only [List.cons_append, splitWsAux, hx, Bool.false_eq_true, if_false]
    rw [ih _ (fun c hc => h c (List.mem_cons_of_mem _ hc))]
    simp

theorem splitWs_join (ws : List Str) (h : ∀ w ∈ ws, w ≠ [] ∧ ∀ c ∈ w, isPySpace c = false) :
    splitWs (joinWith [' '] ws) = ws := by
  unfold splitWs
  induction ws with
  | nil => rfl
  | cons w rest ih =>
    obtain ⟨hne, hw⟩ := h w (List.mem_cons_self ..)
    have hre : w.reverse.isEmpty = false := by
      cases hr : w.reverse with
      | nil => exact absurd (List.reverse_eq_nil_iff.mp hr) hne
      | cons _ _ => rfl
    cases rest with
    | nil =>
      simp only [joinWith]
      have := splitWsAux_append_word w [] [] hw
      simp only [List.append_nil] at this
      rw [this]
      simp [splitWsAux, hre]
    | cons w2 r =>
      simp only [joinWith, List.append_assoc]
      rw [splitWsAux_append_word w _ _ hw]
      have hsp : isPySpace ' ' = true := by decide
      simp only [List.singleton_append, splitWsAux, hsp, if_true, List.append_nil, hre, Bool.false_eq_true, if_false,
        List.reverse_reverse]
      rw [ih (fun w' hw' => h w' (List.mem_cons_of_mem _ hw'))]


theorem splitFirst_some (pat : Str) (s a b : Str) (h : splitFirst pat s = some (a, b)) : s = a ++ pat ++ b := by
  induction s generalizing a with
  | nil =>
    simp only [splitFirst] at h
    split at h
    · rename_i hp; cases h; rw [List.isEmpty_iff.mp hp]; rfl
    · cases h
  | cons c cs ih =>
    simp only [splitFirst] at h
    split at h
    · rename_i hp
      cases h
      have := List.prefix_iff_eq_append.mp (List.isPrefixOf_iff_prefix.mp hp)
      simpa using this.symm
    · obtain ⟨⟨a', b'⟩, hab, heq⟩ := Option.map_eq_some_iff.mp h
      cases heq
      rw [ih a' hab]; simp

theorem splitFirst_char_some (c : Char) (s a b : Str) (h : splitFirst [c] s = some (a, b)) :
    s = a ++ c :: b ∧ c ∉ a := by
  induction s generalizing a with
  | nil => simp [splitFirst] at h
  | cons d ds ih =>
    simp only [splitFirst] at h
    split at h
    · rename_i hp
      cases h
      have : c = d := by simpa [List.isPrefixOf] using hp
      subst this; simp
    · rename_i hp
      have hne : c ≠ d := by intro e; apply hp; subst e; simp [List.isPrefixOf]
      obtain ⟨⟨a', b'⟩, hab, heq⟩ := Option.map_eq_some_iff.mp h
      cases heq
      obtain ⟨h1, h2⟩ := ih a' hab
      refine ⟨by rw [h1]; rfl, ?_⟩
      intro hm
      rcases List.mem_cons.mp hm with e | hm
      · exact hne e
      · exact h2 hm

theorem splitFirst_char_eq (c : Char) (a b : Str) (h : c ∉ a) : splitFirst [c] (a ++ c :: b) = some (a, b) := by
  induction a with
  | nil => simp [splitFirst, List.isPrefixOf]
  | cons d ds ih =>
    have hne : c ≠ d := fun e => h (e ▸ List.mem_cons_self ..)
    have hp : ([c].isPrefixOf (d :: (ds ++ c :: b))) = false := by simp [List.isPrefixOf, hne]
    simp only [List.cons_append, splitFirst, hp, Bool.false_eq_true, if_false]
    rw [ih (fun hm => h (List.mem_cons_of_mem _ hm))]; rfl

theorem splitFirst_char_none (c : Char) (s : Str) (h : splitFirst [c] s = none) : c ∉ s := by
  induction s with
  | nil => simp
  | cons d ds ih =>
    simp only [splitFirst] at h
    split at h
    · cases h
    · rename_i hp
      have hne : c ≠ d := by intro e; apply hp; subst e; simp [List.isPrefixOf]
      have hn : splitFirst [c] ds = none := by
        cases hsd : splitFirst [c] ds with
        | none => rfl
        | some ab => rw [hsd] at h; cases h
      intro hm
      rcases List.mem_cons.mp hm with e | hm
      · exact hne e
      · exact ih hn hm

/-- what one round removes: a middle part `m` that ends with `close`; the text before it is the text before the
    first `opn` -/
theorem stripStep_spec (opn close s s' : Str) (h : stripStep opn close s = some s') :
    ∃ a m b, s = a ++ m ++ b ∧ s' = a ++ b ∧ close <:+ m ∧ (splitFirst opn s).map Prod.fst = some a := by
  unfold stripStep at h
  cases h1 : splitFirst opn s with
  | none => rw [h1] at h; cases h
  | some ax =>
    obtain ⟨a, x⟩ := ax
    rw [h1] at h
    simp only at h
    cases h2 : splitFirst close (s.drop a.length) with
    | none => rw [h2] at h; cases h
    | some mb =>
      obtain ⟨m0, b⟩ := mb
      rw [h2] at h
      cases h
      have e1 := splitFirst_some opn s a x h1
      have e2 := splitFirst_some close _ m0 b h2
      refine ⟨a, m0 ++ close, b, ?_, rfl, List.suffix_append _ _, rfl⟩
      have : s = a ++ s.drop a.length := by
        conv => lhs; rw [← List.take_append_drop a.length s]
        congr 1
        rw [e1, List.append_assoc, List.take_left']
        rfl
      rw [this, e2]; simp

theorem stripStep_shorter (opn close s s' : Str) (hc : close ≠ []) (h : stripStep opn close s = some s') :
    s'.length < s.length := by
  obtain ⟨a, m, b, hs, hs', ⟨t, ht⟩, _⟩ := stripStep_spec opn close s s' h
  have : 0 < close.length := List.length_pos_iff.mpr hc
  rw [hs, hs', ← ht]; simp; omega

theorem stripAll_unfold (opn close s : Str) (hc : close ≠ []) :
    stripAll opn close s = match stripStep opn close s with
      | none => s
      | some s' => stripAll opn close s' := by
  rw [stripAll]
  cases h : stripStep opn close s with
  | none => rfl
  | some s' => simp only [if_pos (stripStep_shorter opn close s s' hc h)]

theorem mem_joinWith (sep : Str) (ws : List Str) (c : Char) (h : c ∈ joinWith sep ws) : c ∈ sep ∨ ∃ w ∈ ws, c ∈ w := by
  induction ws with
  | nil => cases h
  | cons w rest ih =>
    cases rest with
    | nil => exact Or.inr ⟨w, List.mem_cons_self .., h⟩
    | cons w2 r =>
      simp only [joinWith] at h
      rcases List.mem_append.mp h with h | h
      · rcases List.mem_append.mp h with h | h
        · exact Or.inr ⟨w, List.mem_cons_self .., h⟩
        · exact Or.inl h
      · rcases ih h with h | ⟨w', hw', hc⟩
        · exact Or.inl h
        · exact Or.inr ⟨w', List.mem_cons_of_mem _ hw', hc⟩

theorem head?_joinWith (sep w : Str) (rest : List Str) (h : w ≠ []) : (joinWith sep (w :: rest)).head? = w.head? := by
  cases w with
  | nil => exact absurd rfl h
  | cons x xs => cases rest <;> simp [joinWith]

theorem getLast?_joinWith (sep : Str) (ws : List Str) (h : ∀ w ∈ ws, w ≠ []) (hne : ws ≠ []) :
    (joinWith sep ws).getLast? = (ws.getLast hne).getLast? := by
  induction ws with
  | nil => exact absurd rfl hne
  | cons w rest ih =>
    cases rest with
    | nil => rfl
    | cons w2 r =>
      have hr := ih (fun w' hw' => h w' (List.mem_cons_of_mem _ hw')) (by simp)
      have hjn : joinWith sep (w2 :: r) ≠ [] := by
        intro h0
        have h2 := h w2 (by simp)
        cases r with
        | nil => simp only [joinWith] at h0; exact h2 h0
        | cons w3 r3 => simp only [joinWith] at h0; simp at h0; exact h2 h0.1
      simp only [joinWith, List.getLast_cons_cons]
      rw [List.getLast?_append]
      cases hl : (joinWith sep (w2 :: r)).getLast? with
      | none => exact absurd (List.getLast?_eq_none_iff.mp hl) hjn
      | some x => rw [← hr, hl]; rfl

theorem formatGo_lit (c : Char) (rest : Str) (args : List FmtArg) (hc : c ≠ '%') :
    formatGo (c :: rest) args = (formatGo rest args).cons [c] := by
  conv => lhs; unfold formatGo
  split <;> first | rfl | (simp_all; done) | (exfalso; simp_all; done)

theorem formatGo_oom (x : Char) (xs : Str) (args : List FmtArg) (h1 : x ≠ '%') (h2 : x ≠ 's') (h3 : x ≠ 'd') :
    formatGo ('%' :: x :: xs) args = .oom := by
  conv => lhs; unfold formatGo
  split <;> first | rfl | (exfalso; simp_all; done) | (exfalso; grind)

end JinjaV.C23
