/-
  Helper lemmas for Props/C23.lean (list / splitlines / joinWith / scanning facts).  Not property statements.
-/
import JinjaV.Spec.FiltStr

namespace JinjaV.C23
open JinjaV.FiltStr

theorem mem_takeWhile_imp {p : Char → Bool} {l : List Char} {c : Char} (h : c ∈ l.takeWhile p) : p c = true :=
  List.all_eq_true.mp (List.all_takeWhile (l := l) (p := p)) c h

theorem splitlinesAux_snoc_ne_nil (s cur : Str) : splitlinesAux (s ++ ['\n']) cur false ≠ [] := by
  induction s generalizing cur with
  | nil => simp [splitlinesAux, isBreak]
  | cons c cs ih =>
    simp only [List.cons_append, splitlinesAux, Bool.false_and, Bool.false_eq_true, if_false]
    split
    · simp
    · exact ih _

theorem splitlinesAux_no_break (s cur : Str) (b : Bool) (hcur : ∀ c ∈ cur, isBreak c = false) :
    ∀ l ∈ splitlinesAux s cur b, ∀ c ∈ l, isBreak c = false := by
  induction s generalizing cur b with
  | nil =>
    simp only [splitlinesAux]
    split
    · simp
    · intro l hl c hc
      rw [List.mem_singleton.mp hl] at hc
      exact hcur c (List.mem_reverse.mp hc)
  | cons x xs ih =>
    simp only [splitlinesAux]
    split
    · exact ih cur false hcur
    · split
      · intro l hl
        rcases List.mem_cons.mp hl with rfl | hl
        · intro c hc; exact hcur c (List.mem_reverse.mp hc)
        · exact ih [] _ (by simp) l hl
      · rename_i hx
        apply ih (x :: cur) false
        intro c hc
        rcases List.mem_cons.mp hc with rfl | hc
        · simpa using hx
        · exact hcur c hc

theorem splitlinesAux_append_nobreak (l rest cur : Str) (h : ∀ c ∈ l, isBreak c = false) :
    splitlinesAux (l ++ rest) cur false = splitlinesAux rest (l.reverse ++ cur) false := by
  induction l generalizing cur with
  | nil => rfl
  | cons x xs ih =>
    have hx := h x (List.mem_cons_self ..)
    simp only [List.cons_append, splitlinesAux, Bool.false_and, Bool.false_eq_true, if_false, hx]
    rw [ih _ (fun c hc => h c (List.mem_cons_of_mem _ hc))]
    simp

theorem joinWith_ind (sep ind : Str) (l0 : Str) (rest : List Str) :
    joinWith (sep ++ ind) (l0 :: rest) = joinWith sep (l0 :: rest.map (ind ++ ·)) := by
  induction rest generalizing l0 with
  | nil => rfl
  | cons l1 rest ih =>
    simp only [joinWith, List.map_cons]
    rw [ih l1]
    cases rest with
    | nil => simp [joinWith]
    | cons l2 rest2 => simp [joinWith]

theorem joinWith_head_append (sep a l0 : Str) (rest : List Str) :
    joinWith sep ((a ++ l0) :: rest) = a ++ joinWith sep (l0 :: rest) := by
  cases rest with
  | nil => rfl
  | cons l1 r => simp [joinWith]

theorem undecorate_decorate (ind : Str) (first blank : Bool) (ls : List Str) :
    undecorate ind first blank (decorate ind first blank ls) = ls := by
  cases ls with
  | nil => rfl
  | cons l0 rest =>
    simp only [decorate, undecorate, List.map_map]
    congr 1
    · cases first <;> simp
    · conv => rhs; rw [← List.map_id rest]
      apply List.map_congr_left
      intro l _
      cases blank <;> cases l <;> simp

theorem decorate_ne_nil {ind : Str} {first blank : Bool} {ls : List Str} (h : ls ≠ []) :
    decorate ind first blank ls ≠ [] := by
  cases ls with
  | nil => exact absurd rfl h
  | cons _ _ => simp [decorate]

theorem decorate_no_break {ind : Str} {first blank : Bool} {ls : List Str}
    (hind : ∀ c ∈ ind, isBreak c = false) (h : ∀ l ∈ ls, ∀ c ∈ l, isBreak c = false) :
    ∀ l ∈ decorate ind first blank ls, ∀ c ∈ l, isBreak c = false := by
  have happ : ∀ l : Str, (∀ c ∈ l, isBreak c = false) → ∀ c ∈ ind ++ l, isBreak c = false := by
    intro l hl c hc
    rcases List.mem_append.mp hc with hc | hc
    · exact hind c hc
    · exact hl c hc
  cases ls with
  | nil => simp [decorate]
  | cons l0 rest =>
    intro l hl
    simp only [decorate] at hl
    rcases List.mem_cons.mp hl with rfl | hl
    · have h0 := h l0 (List.mem_cons_self ..)
      split
      · exact happ l0 h0
      · exact h0
    · obtain ⟨l', hl', rfl⟩ := List.mem_map.mp hl
      have h' := h l' (List.mem_cons_of_mem _ hl')
      split
      · exact happ l' h'
      · exact h'

theorem head?_dropWhile_not (p : Char → Bool) (l : List Char) (c : Char)
    (h : (l.dropWhile p).head? = some c) : p c = false := by
  have hne : l.dropWhile p ≠ [] := by intro h0; rw [h0] at h; cases h
  have := List.head_dropWhile_not p hne
  rw [List.head?_eq_some_head hne] at h
  rw [← Option.some.inj h]; exact this

theorem wordcountGo_nonword {s : Str} (h : ∀ c ∈ s, isWordAscii c = false) (b : Bool) : wordcountGo s b = 0 := by
  induction s generalizing b with
  | nil => rfl
  | cons c cs ih =>
    have hc := h c (List.mem_cons_self ..)
    simp only [wordcountGo, hc, Bool.false_eq_true, if_false]
    exact ih (fun d hd => h d (List.mem_cons_of_mem _ hd)) false

theorem wordcountGo_word {s : Str} (h : ∀ c ∈ s, isWordAscii c = true) : wordcountGo s true = 0 := by
  induction s with
  | nil => rfl
  | cons c cs ih =>
    have hc := h c (List.mem_cons_self ..)
    simp only [wordcountGo, hc, if_true]
    rw [ih (fun d hd => h d (List.mem_cons_of_mem _ hd))]

theorem wordcountGo_sep (a b : Str) (sep : Char) (h : isWordAscii sep = false) (inw : Bool) :
    wordcountGo (a ++ sep :: b) inw = wordcountGo a inw + wordcountGo b false := by
  induction a generalizing inw with
  | nil => simp [wordcountGo, h]
  | cons c cs ih =>
    simp only [List.cons_append, wordcountGo]
    split
    · rw [ih]; omega
    · rw [ih]

theorem prefLoop_spec (lt : Nat → Bool) (k : Nat) (n : Nat) :
    match prefLoop lt ((List.range' k n)) with
    | some i => k ≤ i ∧ i < k + n ∧ lt i = true ∧ ∀ j, k ≤ j → j < i → lt j = false
    | none => ∀ j, k ≤ j → j < k + n → lt j = false := by
  induction n generalizing k with
  | zero => simp [prefLoop]; intro j h1 h2; omega
  | succ n ih =>
    rw [List.range'_succ]
    simp only [prefLoop]
    by_cases h : lt k = true
    · rw [if_pos h]
      exact ⟨Nat.le_refl _, by omega, h, fun j h1 h2 => by omega⟩
    · rw [if_neg h]
      have := ih (k + 1)
      split
      · rename_i i hi
        rw [hi] at this
        obtain ⟨h1, h2, h3, h4⟩ := this
        refine ⟨by omega, by omega, h3, fun j hj1 hj2 => ?_⟩
        by_cases hjk : j = k
        · rw [hjk]; simpa using h
        · exact h4 j (by omega) hj2
      · rename_i hi
        rw [hi] at this
        intro j hj1 hj2
        by_cases hjk : j = k
        · rw [hjk]; simpa using h
        · exact this j (by omega) (by omega)

theorem joinWith_head_prefix (sep s p : Str) (ps : List Str) (h : joinWith sep (p :: ps) = s) : p <+: s := by
  cases ps with
  | nil => simp only [joinWith] at h; rw [h]; exact List.prefix_refl _
  | cons q qs => simp only [joinWith] at h; rw [← h, List.append_assoc]; exact List.prefix_append _ _

theorem replaceEmpty_some (new s : Str) (n : Nat) :
    replaceEmpty new s (some n) =
      if n ≤ s.length then (s.take n).flatMap (fun c => new ++ [c]) ++ s.drop n
      else s.flatMap (fun c => new ++ [c]) ++ new := by
  induction s generalizing n with
  | nil =>
    cases n with
    | zero => simp [replaceEmpty]
    | succ m => simp [replaceEmpty]
  | cons c cs ih =>
    cases n with
    | zero => simp [replaceEmpty]
    | succ m =>
      simp only [replaceEmpty, decr, Nat.add_sub_cancel, List.length_cons, Nat.add_le_add_iff_right]
      rw [ih m]
      split <;> simp

theorem isBreak_isPySpace (c : Char) (h : isBreak c = true) : isPySpace c = true := by
  unfold isBreak at h
  simp only [Bool.or_eq_true, beq_iff_eq] at h
  rcases h with ((((((((h | h) | h) | h) | h) | h) | h) | h) | h) | h <;> subst h <;> decide

theorem nonws_append (a b : Str) : nonws (a ++ b) = nonws a ++ nonws b := List.filter_append ..

theorem nonws_cons_space (c : Char) (s : Str) (h : isPySpace c = true) : nonws (c :: s) = nonws s := by
  unfold nonws; rw [List.filter_cons_of_neg]; simp [h]

theorem nonws_splitlinesAux (s cur : Str) (b : Bool) :
    ((splitlinesAux s cur b).map nonws).flatten = nonws (cur.reverse ++ s) := by
  induction s generalizing cur b with
  | nil =>
    simp only [splitlinesAux]
    split
    · rename_i h; rw [List.isEmpty_iff.mp h]; rfl
    · simp
  | cons c rest ih =>
    simp only [splitlinesAux]
    split
    · rename_i h
      have hc : c = '\n' := by simp only [Bool.and_eq_true, beq_iff_eq] at h; exact h.2
      rw [ih, nonws_append, nonws_append, nonws_cons_space c rest (by rw [hc]; decide)]
    · split
      · rename_i hb
        simp only [List.map_cons, List.flatten_cons]
        rw [ih, nonws_append, nonws_append, nonws_cons_space c rest (isBreak_isPySpace c hb)]
        rfl
      · rw [ih, List.reverse_cons, List.append_assoc]; rfl

theorem nonws_joinWith (ws : Str) (hws : nonws ws = []) (ls : List Str) :
    nonws (joinWith ws ls) = (ls.map nonws).flatten := by
  induction ls with
  | nil => rfl
  | cons l rest ih =>
    cases rest with
    | nil => simp [joinWith]
    | cons l2 r =>
      simp only [joinWith] at ih ⊢
      rw [nonws_append, nonws_append, hws, ih]
      simp

theorem joinWith_append (sep : Str) (a b : List Str) (ha : a ≠ []) (hb : b ≠ []) :
    joinWith sep (a ++ b) = joinWith sep a ++ sep ++ joinWith sep b := by
  induction a with
  | nil => exact absurd rfl ha
  | cons x xs ih =>
    cases xs with
    | nil =>
      cases b with
      | nil => exact absurd rfl hb
      | cons y ys => simp [joinWith]
    | cons x2 xs2 =>
      have := ih (by simp)
      simp only [List.cons_append, joinWith] at this ⊢
      rw [this]; simp

end JinjaV.C23
