/-
  Helper lemmas for the LRU refinement (C26, reused by C25 and C13).
-/
import JinjaV.Model.LRU
import JinjaV.Spec.LRU

namespace JinjaV.LRU
open JinjaV.SpecLRU (Spec find remove touch put)

def keys (m : List (K × V)) : List K := m.map Prod.fst

@[simp] theorem keys_nil : keys [] = [] := rfl
@[simp] theorem keys_cons (p : K × V) (m) : keys (p :: m) = p.1 :: keys m := rfl

theorem mget_none_iff (m : List (K × V)) (k : K) : mget m k = Option.none ↔ k ∉ keys m := by
  induction m with
  | nil => simp [mget]
  | cons p m ih =>
    obtain ⟨k', v⟩ := p
    by_cases h : k' = k <;> simp [mget, h, ih] <;> grind

theorem mhas_iff (m : List (K × V)) (k : K) : mhas m k = true ↔ k ∈ keys m := by
  unfold mhas
  have := mget_none_iff m k
  cases h : mget m k <;> simp_all

theorem mget_mset (m : List (K × V)) (k k' : K) (v : V) :
    mget (mset m k v) k' = if k = k' then some v else mget m k' := by
  induction m with
  | nil => simp [mset, mget]
  | cons p m ih =>
    obtain ⟨a, b⟩ := p
    by_cases h : a = k <;> by_cases h' : k = k' <;> simp_all [mset, mget] <;> grind

theorem keys_mset_of_mem (m : List (K × V)) (k : K) (v : V) (h : k ∈ keys m) :
    keys (mset m k v) = keys m := by
  induction m with
  | nil => simp at h
  | cons p m ih =>
    obtain ⟨a, b⟩ := p
    by_cases h' : a = k
    · simp [mset, h']
    · simp [mset, h']
      apply ih
      simp at h
      grind

theorem keys_mset_of_not_mem (m : List (K × V)) (k : K) (v : V) (h : k ∉ keys m) :
    keys (mset m k v) = keys m ++ [k] := by
  induction m with
  | nil => simp [mset]
  | cons p m ih =>
    obtain ⟨a, b⟩ := p
    simp at h
    have h' : ¬ a = k := by grind
    simp [mset, h']
    apply ih
    grind

theorem mem_keys_mdel (m : List (K × V)) (k k' : K) (hn : (keys m).Nodup) :
    k' ∈ keys (mdel m k) ↔ (k' ∈ keys m ∧ k' ≠ k) := by
  induction m with
  | nil => simp [mdel]
  | cons p m ih =>
    obtain ⟨a, b⟩ := p
    simp at hn
    by_cases h : a = k
    · subst h; simp [mdel]; grind
    · simp [mdel, h, ih hn.2]; grind

theorem nodup_keys_mdel (m : List (K × V)) (k : K) (hn : (keys m).Nodup) :
    (keys (mdel m k)).Nodup := by
  induction m with
  | nil => simp [mdel]
  | cons p m ih =>
    obtain ⟨a, b⟩ := p
    simp at hn
    by_cases h : a = k
    · simp [mdel, h, hn.2]
    · simp [mdel, h, ih hn.2]
      intro hm
      have := (mem_keys_mdel m k a hn.2).1 hm
      exact hn.1 this.1

theorem mget_mdel (m : List (K × V)) (k k' : K) (hn : (keys m).Nodup) :
    mget (mdel m k) k' = if k = k' then Option.none else mget m k' := by
  induction m with
  | nil => simp [mdel, mget]
  | cons p m ih =>
    obtain ⟨a, b⟩ := p
    simp at hn
    by_cases h : a = k
    · subst h
      by_cases h' : a = k'
      · subst h'; simp [mdel]; exact (mget_none_iff m a).2 hn.1
      · simp [mdel, mget, h']
    · by_cases h' : k = k' <;> simp_all [mdel, mget] <;> grind

theorem length_mdel (m : List (K × V)) (k : K) (h : k ∈ keys m) :
    (mdel m k).length + 1 = m.length := by
  induction m with
  | nil => simp at h
  | cons p m ih =>
    obtain ⟨a, b⟩ := p
    by_cases h' : a = k
    · simp [mdel, h']
    · simp [mdel, h']; apply ih; simp at h; grind

/-- remove every occurrence -/
def rem (q : List K) (k : K) : List K :=
  match q with
  | [] => []
  | x :: r => if x = k then rem r k else x :: rem r k

theorem rem_of_not_mem (q : List K) (k : K) (h : k ∉ q) : rem q k = q := by
  induction q with
  | nil => simp [rem]
  | cons x q ih => simp at h; simp [rem]; grind

theorem qremove_eq_rem (q : List K) (k : K) (hn : q.Nodup) : qremove q k = rem q k := by
  induction q with
  | nil => simp [qremove, rem]
  | cons x q ih =>
    simp at hn
    by_cases h : x = k
    · subst h; simp [qremove, rem]; exact (rem_of_not_mem q x hn.1).symm
    · simp [qremove, rem, h, ih hn.2]

theorem qremove_of_not_mem (q : List K) (k : K) (h : k ∉ q) : qremove q k = q := by
  induction q with
  | nil => simp [qremove]
  | cons x q ih => simp at h; simp [qremove]; grind

theorem rem_append (a b : List K) (k : K) : rem (a ++ b) k = rem a k ++ rem b k := by
  induction a with
  | nil => simp [rem]
  | cons x a ih => by_cases h : x = k <;> simp [rem, h, ih]

theorem rem_reverse (q : List K) (k : K) : rem q.reverse k = (rem q k).reverse := by
  induction q with
  | nil => simp [rem]
  | cons x q ih => by_cases h : x = k <;> simp [rem, rem_append, h, ih]

theorem mem_rem (q : List K) (k x : K) : x ∈ rem q k ↔ (x ∈ q ∧ x ≠ k) := by
  induction q with
  | nil => simp [rem]
  | cons y q ih => by_cases h : y = k <;> simp [rem, h, ih] <;> grind

theorem nodup_rem (q : List K) (k : K) (hn : q.Nodup) : (rem q k).Nodup := by
  induction q with
  | nil => simp [rem]
  | cons y q ih =>
    simp at hn
    by_cases h : y = k
    · simp [rem, h, ih hn.2]
    · simp [rem, h, ih hn.2, mem_rem]; grind

theorem length_rem (q : List K) (k : K) (hn : q.Nodup) (h : k ∈ q) :
    (rem q k).length + 1 = q.length := by
  induction q with
  | nil => simp at h
  | cons y q ih =>
    simp at hn
    by_cases h' : y = k
    · subst h'; simp [rem, rem_of_not_mem q y hn.1]
    · simp [rem, h']; apply ih hn.2; simp at h; grind

-- spec side -----------------------------------------------------------------

theorem find_none_iff (l : List (K × V)) (k : K) : find l k = none ↔ k ∉ l.map Prod.fst := by
  induction l with
  | nil => simp [find]
  | cons p l ih =>
    obtain ⟨a, b⟩ := p
    by_cases h : a = k <;> simp [find, h, ih] <;> grind

theorem find_remove (l : List (K × V)) (k k' : K) :
    find (remove l k) k' = if k = k' then none else find l k' := by
  induction l with
  | nil => simp [remove, find]
  | cons p l ih =>
    obtain ⟨a, b⟩ := p
    by_cases h : a = k <;> by_cases h' : k = k' <;> simp_all [find, remove] <;> grind

theorem map_fst_remove (l : List (K × V)) (k : K) :
    (remove l k).map Prod.fst = rem (l.map Prod.fst) k := by
  induction l with
  | nil => simp [remove, rem]
  | cons p l ih =>
    obtain ⟨a, b⟩ := p
    by_cases h : a = k <;> simp [remove, rem, h, ih]

theorem length_remove (l : List (K × V)) (k : K) (hn : (l.map Prod.fst).Nodup)
    (h : k ∈ l.map Prod.fst) : (remove l k).length + 1 = l.length := by
  have := length_rem (l.map Prod.fst) k hn h
  rw [← map_fst_remove] at this
  simpa using this

theorem find_cons_ne (a : K) (b : V) (l : List (K × V)) (k : K) (h : ¬ a = k) :
    find ((a, b) :: l) k = find l k := by
  rw [find]; simp [h]

theorem find_dropLast (l : List (K × V)) (k' : K) (hn : (l.map Prod.fst).Nodup) :
    find l.dropLast k' =
      if (l.getLast?.map Prod.fst) = some k' then none else find l k' := by
  induction l with
  | nil => simp [find]
  | cons p l ih =>
    obtain ⟨a, b⟩ := p
    cases l with
    | nil => by_cases h : a = k' <;> simp [find, h]
    | cons p2 l2 =>
      simp only [List.dropLast_cons_cons]
      have hn' : ((p2 :: l2).map Prod.fst).Nodup := by
        simp at hn ⊢; exact hn.2
      have ih' := ih hn'
      by_cases h : a = k'
      · subst h
        have hnot : ¬ (Option.map Prod.fst ((a, b) :: p2 :: l2).getLast? = some a) := by
          rw [List.getLast?_cons_cons]
          intro hx
          cases hl : (p2 :: l2).getLast? with
          | none => simp [hl] at hx
          | some q =>
            simp [hl] at hx
            have hm := List.mem_of_getLast? hl
            have : a ∈ (p2 :: l2).map Prod.fst := List.mem_map.2 ⟨q, hm, hx⟩
            rw [List.map_cons, List.nodup_cons] at hn
            exact hn.1 this
        rw [if_neg hnot]; simp [find]
      · rw [find_cons_ne _ _ _ _ h, find_cons_ne _ _ _ _ h, ih', List.getLast?_cons_cons]

end JinjaV.LRU
