/-
  Helper lemmas for C04 (inheritance): the block registry as a function of the chain, the top-level state machine on
  templates of the documented shape, and the simulation between the model's function bodies and the specification's.
  Core Lean only.
-/
import JinjaV.Model.Inherit
import JinjaV.Spec.Inherit

namespace JinjaV.Inherit
open JinjaV.SpecInherit

/-! ## the registry -/

/-- the block function `block_b` of template `t`, if `t` declares `b` -/
def refOf (t : Tpl) (b : Name) : Option BRef := (findBlock b t.body).map (BRef.mk t.name)

/-- the block functions for `b` along a chain, most-derived first -/
def refs (chain : List Tpl) (b : Name) : List BRef := chain.filterMap (fun t => refOf t b)

theorem stackOf_sda (B : Blocks) (n b : Name) (r : BRef) :
    stackOf (setdefaultAppend B n r) b = stackOf B b ++ (if b = n then [r] else []) := by
  induction B with
  | nil =>
    by_cases h : b = n
    · subst h; simp [setdefaultAppend, stackOf, List.lookup]
    · have : (b == n) = false := by simpa using h
      simp [setdefaultAppend, stackOf, List.lookup, h, this]
  | cons kv rest ih =>
    obtain ⟨k, l⟩ := kv
    by_cases hnk : n = k
    · subst hnk
      by_cases h : b = n
      · subst h; simp [setdefaultAppend, stackOf, List.lookup]
      · have : (b == n) = false := by simpa using h
        simp [setdefaultAppend, stackOf, List.lookup, h, this]
    · have hnk' : (n == k) = false := by simpa using hnk
      by_cases hbk : b = k
      · subst hbk
        have : ¬ b = n := fun e => hnk e.symm
        simp [setdefaultAppend, stackOf, List.lookup, hnk', this]
      · have hbk' : (b == k) = false := by simpa using hbk
        simp only [stackOf] at ih
        simp [setdefaultAppend, hnk', stackOf, List.lookup, hbk', ih]

theorem find_none_of_not_contains (ds : List Decl) (b : Name)
    (h : (ds.map (·.name)).contains b = false) : ds.find? (fun d => d.name == b) = none := by
  induction ds with
  | nil => rfl
  | cons d ds ih =>
    simp only [List.map_cons, List.contains_cons, Bool.or_eq_false_iff] at h
    have h1 : (d.name == b) = false := by
      have := h.1
      simp only [beq_eq_false_iff_ne, ne_eq] at this ⊢
      exact fun e => this e.symm
    simp [List.find?, h1, ih h.2]

theorem stackOf_foldl (p : Name) (ds : List Decl) (B : Blocks) (b : Name)
    (hnd : nodupNames (ds.map (·.name)) = true) :
    stackOf (ds.foldl (fun B d => setdefaultAppend B d.name ⟨p, d⟩) B) b
      = stackOf B b ++ ((ds.find? (fun d => d.name == b)).map (BRef.mk p)).toList := by
  induction ds generalizing B with
  | nil => simp
  | cons d ds ih =>
    simp only [List.map_cons, nodupNames, Bool.and_eq_true, Bool.not_eq_true'] at hnd
    simp only [List.foldl_cons]
    rw [ih _ hnd.2, stackOf_sda]
    by_cases h : b = d.name
    · subst h
      have := find_none_of_not_contains ds d.name hnd.1
      simp [List.find?, this]
    · have h1 : (d.name == b) = false := by
        simp only [beq_eq_false_iff_ne, ne_eq]; exact fun e => h e.symm
      simp [List.find?, h1, h]

theorem stackOf_registerParent (B : Blocks) (p : Tpl) (b : Name) (hnd : nodupNames (blockNames p) = true) :
    stackOf (registerParent B p) b = stackOf B b ++ (refOf p b).toList := by
  unfold registerParent refOf findBlock
  exact stackOf_foldl p.name (declsL p.body) B b hnd

theorem lookup_map_decl (p : Name) (ds : List Decl) (b : Name) :
    List.lookup b (ds.map (fun d => (d.name, [BRef.mk p d])))
      = (ds.find? (fun d => d.name == b)).map (fun d => [BRef.mk p d]) := by
  induction ds with
  | nil => rfl
  | cons d ds ih =>
    by_cases h : b = d.name
    · subst h; simp [List.find?]
    · have h1 : (d.name == b) = false := by
        simp only [beq_eq_false_iff_ne, ne_eq]; exact fun e => h e.symm
      have h2 : (b == d.name) = false := by simpa using h
      simp [List.lookup, List.find?, h1, h2, ih]

theorem stackOf_initBlocks (t : Tpl) (b : Name) : stackOf (initBlocks t) b = (refOf t b).toList := by
  unfold stackOf initBlocks refOf findBlock
  rw [lookup_map_decl]
  cases (declsL t.body).find? (fun d => d.name == b) <;> rfl

theorem refs_cons (t : Tpl) (chain : List Tpl) (b : Name) :
    refs (t :: chain) b = (refOf t b).toList ++ refs chain b := by
  unfold refs
  cases h : refOf t b <;> simp [h]

/-- registering the parents of a chain one after the other -/
theorem stackOf_foldl_register (chain : List Tpl) (B : Blocks) (b : Name)
    (hnd : ∀ t ∈ chain, nodupNames (blockNames t) = true) :
    stackOf (chain.foldl registerParent B) b = stackOf B b ++ refs chain b := by
  induction chain generalizing B with
  | nil => simp [refs]
  | cons t chain ih =>
    simp only [List.foldl_cons]
    rw [ih _ (fun t' h => hnd t' (List.mem_cons_of_mem _ h)), stackOf_registerParent _ _ _ (hnd t (List.mem_cons_self ..)),
      refs_cons, List.append_assoc]

/-! ## the top-level state machine on templates of the documented shape -/

/-- after an executed `extends`: `parent_template` is set and the compile-time flags know about an extends -/
def Dead (st : Top) : Prop := st.parent.isSome = true ∧ (st.known = true ∨ st.extSoFar > 0)

theorem live_dead {st : Top} (h : Dead st) : live true st = false := by
  obtain ⟨h1, _⟩ := h
  cases hp : st.parent <;> simp_all [live]

theorem blockLive_dead {st : Top} (h : Dead st) : blockLive true st = false := by
  obtain ⟨h1, h2⟩ := h
  cases hk : st.known
  · have : st.extSoFar > 0 := by cases h2 with | inl h => simp [hk] at h | inr h => exact h
    simp [blockLive, hk, this, h1]
  · simp [blockLive, hk]

theorem concatM_ok_nil : (rs : List Res) → (∀ r ∈ rs, r = .ok []) → concatM rs = .ok []
  | [], _ => rfl
  | r :: rs, h => by
    have h1 := h r (List.mem_cons_self ..)
    have h2 := concatM_ok_nil rs (fun r' hr => h r' (List.mem_cons_of_mem _ hr))
    simp [concatM, h1, h2]

mutual
/-- a frame whose output statements and block call sites are both dead yields nothing -/
theorem silent_piece (callee : Callee) (vars : Vars) (B : Blocks) (cur : Option BRef) :
    (p : Piece) → (loc : Vars) → countExtP p = 0 → pieceWith callee vars B cur false false loc p = .ok []
  | .text _, _, _ => by simp [pieceWith]
  | .var _, _, _ => by simp [pieceWith]
  | .block _ _ _ _, _, _ => by simp [pieceWith]
  | .superCall _, _, _ => by simp [pieceWith]
  | .selfCall _, _, _ => by simp [pieceWith]
  | .forLoop x items body, loc, h => by
    simp only [countExtP] at h
    simp only [pieceWith]
    apply concatM_ok_nil
    intro r hr
    rw [List.mem_map] at hr
    obtain ⟨⟨i, k⟩, _, rfl⟩ := hr
    exact silent_list callee vars B cur body _ h
  | .withv x v body, loc, h => by
    simp only [countExtP] at h
    simp only [pieceWith]
    exact silent_list callee vars B cur body _ h
  | .loopAttr _, _, _ => by simp [pieceWith]
  | .ifc f body, loc, h => by
    simp only [countExtP] at h
    simp only [pieceWith]
    split
    · exact silent_list callee vars B cur body loc h
    · rfl
  | .ext _, _, h => by simp [countExtP] at h
theorem silent_list (callee : Callee) (vars : Vars) (B : Blocks) (cur : Option BRef) :
    (ps : List Piece) → (loc : Vars) → countExtL ps = 0 → listWith callee vars B cur false false loc ps = .ok []
  | [], _, _ => by simp [listWith]
  | p :: ps, loc, h => by
    simp only [countExtL] at h
    simp [listWith, silent_piece callee vars B cur p loc (by omega), silent_list callee vars B cur ps loc (by omega)]
end

mutual
theorem quiet_topPiece (L : List Tpl) (fuel : Nat) (vars : Vars) :
    (p : Piece) → (rl : Bool) → (st : Top) → Dead st → quietP p = true →
    ∃ e, topPiece L fuel vars true rl st p = .ok ({ st with extSoFar := e }, []) ∧ st.extSoFar ≤ e
  | .text s, rl, st, hd, _ => ⟨st.extSoFar, by simp [topPiece, pieceWith, live_dead hd], Nat.le_refl _⟩
  | .var x, rl, st, hd, _ => ⟨st.extSoFar, by simp [topPiece, pieceWith, live_dead hd], Nat.le_refl _⟩
  | .superCall k, rl, st, hd, _ => ⟨st.extSoFar, by simp [topPiece, pieceWith, live_dead hd], Nat.le_refl _⟩
  | .selfCall n, rl, st, hd, _ => ⟨st.extSoFar, by simp [topPiece, pieceWith, live_dead hd], Nat.le_refl _⟩
  | .block n sc rq body, rl, st, hd, _ =>
    ⟨st.extSoFar, by simp [topPiece, pieceWith, live_dead hd, blockLive_dead hd], Nat.le_refl _⟩
  | .forLoop x items body, rl, st, hd, hq => by
    simp only [quietP, beq_iff_eq] at hq
    refine ⟨st.extSoFar, ?_, Nat.le_refl _⟩
    simp only [topPiece, live_dead hd, blockLive_dead hd]
    rw [silent_piece _ _ _ _ (.forLoop x items body) [] (by simpa [countExtP] using hq)]
  | .withv x v body, rl, st, hd, hq => by
    simp only [quietP, beq_iff_eq] at hq
    refine ⟨st.extSoFar, ?_, Nat.le_refl _⟩
    simp only [topPiece, live_dead hd, blockLive_dead hd]
    rw [silent_piece _ _ _ _ (.withv x v body) [] (by simpa [countExtP] using hq)]
  | .loopAttr a, rl, st, hd, _ => ⟨st.extSoFar, by simp [topPiece, pieceWith, live_dead hd], Nat.le_refl _⟩
  | .ext _, _, _, _, hq => by simp [quietP] at hq
  | .ifc f body, rl, st, hd, hq => by
    simp only [quietP] at hq
    by_cases ht : truthy [] vars f = true
    · obtain ⟨e, he, hle⟩ := quiet_topList L fuel vars body false st hd hq
      exact ⟨e, by simp [topPiece, ht, he], hle⟩
    · exact ⟨st.extSoFar + countExtL body, by simp [topPiece, ht], Nat.le_add_right _ _⟩
theorem quiet_topList (L : List Tpl) (fuel : Nat) (vars : Vars) :
    (ps : List Piece) → (rl : Bool) → (st : Top) → Dead st → quietL ps = true →
    ∃ e, topList L fuel vars true rl st ps = .ok ({ st with extSoFar := e }, []) ∧ st.extSoFar ≤ e
  | [], rl, st, _, _ => ⟨st.extSoFar, by simp [topList], Nat.le_refl _⟩
  | p :: ps, rl, st, hd, hq => by
    simp only [quietL, Bool.and_eq_true] at hq
    obtain ⟨e1, h1, l1⟩ := quiet_topPiece L fuel vars p rl st hd hq.1
    have hd' : Dead { st with extSoFar := e1 } := by
      obtain ⟨a, b⟩ := hd
      refine ⟨a, ?_⟩
      cases b with
      | inl h => exact Or.inl h
      | inr h => exact Or.inr (Nat.lt_of_lt_of_le h l1)
    obtain ⟨e2, h2, l2⟩ := quiet_topList L fuel vars ps rl _ hd' hq.2
    exact ⟨e2, by simp [topList, h1, h2], Nat.le_trans l1 l2⟩
end

theorem live_fresh (he : Bool) (es : Nat) (B : Blocks) : live he ⟨none, false, es, B⟩ = true := by
  simp [live]

theorem blockLive_fresh (he : Bool) (es : Nat) (B : Blocks) : blockLive he ⟨none, false, es, B⟩ = true := by
  simp [blockLive]

/-- lift a body result to a top-level result -/
def liftTop (B : Blocks) (e : Nat) : Res → Except Err (Top × Text)
  | .ok o => .ok (⟨none, false, e, B⟩, o)
  | .error x => .error x

mutual
theorem root_topPiece (L : List Tpl) (fuel : Nat) (vars : Vars) (B : Blocks) :
    (p : Piece) → (he rl : Bool) → (es : Nat) → noLiveExtP vars p = true →
    ∃ e, topPiece L fuel vars he rl ⟨none, false, es, B⟩ p
      = liftTop B e (pieceWith (callFn fuel B) vars B none true true [] p)
  | .text s, he, rl, es, _ => ⟨es, by simp [topPiece, live_fresh, blockLive_fresh, liftTop]; split <;> simp_all⟩
  | .var x, he, rl, es, _ => ⟨es, by simp [topPiece, live_fresh, blockLive_fresh, liftTop]; split <;> simp_all⟩
  | .superCall k, he, rl, es, _ => ⟨es, by simp [topPiece, live_fresh, blockLive_fresh, liftTop]; split <;> simp_all⟩
  | .selfCall n, he, rl, es, _ => ⟨es, by simp [topPiece, live_fresh, blockLive_fresh, liftTop]; split <;> simp_all⟩
  | .forLoop x it body, he, rl, es, _ => ⟨es, by simp [topPiece, live_fresh, blockLive_fresh, liftTop]; split <;> simp_all⟩
  | .withv x v body, he, rl, es, _ => ⟨es, by simp [topPiece, live_fresh, blockLive_fresh, liftTop]; split <;> simp_all⟩
  | .loopAttr a, he, rl, es, _ => ⟨es, by simp [topPiece, live_fresh, blockLive_fresh, liftTop]; split <;> simp_all⟩
  | .block n sc rq body, he, rl, es, _ => ⟨es, by simp [topPiece, live_fresh, blockLive_fresh, liftTop]; split <;> simp_all⟩
  | .ext _, _, _, _, hq => by simp [noLiveExtP] at hq
  | .ifc f body, he, rl, es, hq => by
    simp only [noLiveExtP] at hq
    by_cases ht : truthy [] vars f = true
    · have hb : noLiveExtL vars body = true := by simpa [ht] using hq
      obtain ⟨e, h⟩ := root_topList L fuel vars B body he false es hb
      exact ⟨e, by simp [topPiece, pieceWith, ht, h]⟩
    · exact ⟨es + countExtL body, by simp [topPiece, pieceWith, ht, liftTop]⟩
theorem root_topList (L : List Tpl) (fuel : Nat) (vars : Vars) (B : Blocks) :
    (ps : List Piece) → (he rl : Bool) → (es : Nat) → noLiveExtL vars ps = true →
    ∃ e, topList L fuel vars he rl ⟨none, false, es, B⟩ ps
      = liftTop B e (listWith (callFn fuel B) vars B none true true [] ps)
  | [], he, rl, es, _ => ⟨es, by simp [topList, listWith, liftTop]⟩
  | p :: ps, he, rl, es, hq => by
    simp only [noLiveExtL, Bool.and_eq_true] at hq
    obtain ⟨e1, h1⟩ := root_topPiece L fuel vars B p he rl es hq.1
    obtain ⟨e2, h2⟩ := root_topList L fuel vars B ps he rl e1 hq.2
    refine ⟨e2, ?_⟩
    simp only [topList, listWith, h1]
    cases hp : pieceWith (callFn fuel B) vars B none true true [] p with
    | error x => simp [liftTop]
    | ok a =>
      simp only [liftTop, h2]
      cases hl : listWith (callFn fuel B) vars B none true true [] ps <;> simp [liftTop]
end

/-! ## chains of the documented shape -/

/-- `c` starts with an executed `{% extends %}` (plain, or inside `{% if flag %}` with a true flag) whose target is the
    template named `pn`; nothing else at its top level is an `extends` or a `for` -/
def IsChild (vars : Vars) (c : Tpl) (pn : Name) : Prop :=
  ∃ tg, headTarget vars c.body = some tg ∧ resolveTarget vars tg = some pn ∧ quietL c.body.tail = true

/-- no `extends` is reached at the top level of `t` -/
def IsRoot (vars : Vars) (t : Tpl) : Prop := noLiveExtL vars t.body = true

/-- `[cₙ, …, c₀]`: every template is what the loader returns for its name, each extends the next, the last is a root -/
def IsChain (L : List Tpl) (vars : Vars) : List Tpl → Prop
  | [] => False
  | [r] => load L r.name = .ok r ∧ IsRoot vars r
  | c :: p :: rest => load L c.name = .ok c ∧ IsChild vars c p.name ∧ IsChain L vars (p :: rest)

theorem IsChain.head_load {L vars c chain} (h : IsChain L vars (c :: chain)) : load L c.name = .ok c := by
  cases chain with
  | nil => exact h.1
  | cons p rest => exact h.1

theorem headTarget_cases {vars : Vars} {body : List Piece} {tg : Target} (h : headTarget vars body = some tg) :
    (∃ rest, body = .ext tg :: rest) ∨
    (∃ f rest, body = .ifc f [.ext tg] :: rest ∧ truthy [] vars f = true) := by
  unfold headTarget at h
  split at h
  · left; simp at h; subst h; exact ⟨_, rfl⟩
  · right
    split at h
    · simp at h; subst h; exact ⟨_, _, rfl, by assumption⟩
    · simp at h
  · simp at h

theorem child_topList (L : List Tpl) (fuel : Nat) (vars : Vars) (B : Blocks) (c p : Tpl)
    (hc : IsChild vars c p.name) (hl : load L p.name = .ok p) :
    ∃ st, topList L fuel vars (haveExt c) true ⟨none, false, 0, B⟩ c.body = .ok (st, [])
      ∧ st.parent = some p ∧ st.blocks = registerParent B p := by
  obtain ⟨tg, hh, hr, hq⟩ := hc
  rcases headTarget_cases hh with ⟨rest, hb⟩ | ⟨f, rest, hb, ht⟩
  · have hhe : haveExt c = true := by simp [haveExt, hb, countExtL, countExtP]; omega
    rw [hb] at hq ⊢
    simp only [List.tail_cons] at hq
    have hd : Dead ⟨some p, true, 1, registerParent B p⟩ := ⟨rfl, Or.inl rfl⟩
    obtain ⟨e, he, _⟩ := quiet_topList L fuel vars rest true _ hd hq
    refine ⟨⟨some p, true, e, registerParent B p⟩, ?_, rfl, rfl⟩
    simp only [hhe, topList, topPiece, hr, hl]
    simp [he]
  · have hhe : haveExt c = true := by simp [haveExt, hb, countExtL, countExtP]; omega
    rw [hb] at hq ⊢
    simp only [List.tail_cons] at hq
    have hd : Dead ⟨some p, false, 1, registerParent B p⟩ := ⟨rfl, Or.inr (by simp)⟩
    obtain ⟨e, he, _⟩ := quiet_topList L fuel vars rest true _ hd hq
    refine ⟨⟨some p, false, e, registerParent B p⟩, ?_, rfl, rfl⟩
    simp only [hhe, topList, topPiece, ht, hr, hl]
    simp [he]

theorem runRoots_chain (L : List Tpl) (fuel : Nat) (vars : Vars) :
    (chain : List Tpl) → (c : Tpl) → (hops : Nat) → (B : Blocks) → (root : Tpl) →
    IsChain L vars (c :: chain) → chain.length < hops → (c :: chain).getLast? = some root →
    runRoots L fuel vars hops B c
      = match listWith (callFn fuel (chain.foldl registerParent B)) vars (chain.foldl registerParent B) none true true []
            root.body with
        | .ok o => .ok (chain.foldl registerParent B, o)
        | .error e => .error e
  | [], c, hops, B, root, hch, hlen, hlast => by
    obtain ⟨h, rfl⟩ : ∃ h, hops = h + 1 := ⟨hops - 1, by simp at hlen; omega⟩
    simp at hlast; subst hlast
    obtain ⟨e, he⟩ := root_topList L fuel vars B c.body (haveExt c) true 0 hch.2
    simp only [runRoots, he, List.foldl_nil]
    cases listWith (callFn fuel B) vars B none true true [] c.body <;> simp [liftTop]
  | p :: rest, c, hops, B, root, hch, hlen, hlast => by
    obtain ⟨h, rfl⟩ : ∃ h, hops = h + 1 := ⟨hops - 1, by simp at hlen; omega⟩
    obtain ⟨_, hchild, hrest⟩ := hch
    obtain ⟨st, hst, hpar, hbl⟩ := child_topList L fuel vars B c p hchild hrest.head_load
    have ih := runRoots_chain L fuel vars rest p h (registerParent B p) root hrest (by simp at hlen; omega)
      (by simpa [List.getLast?_cons_cons] using hlast)
    simp only [runRoots, hst, hpar, hbl, ih, List.foldl_cons]
    cases listWith (callFn fuel (rest.foldl registerParent (registerParent B p))) vars
      (rest.foldl registerParent (registerParent B p)) none true true [] root.body <;> simp

/-! ## model function bodies vs. specification bodies -/

theorem defs_eq_refs (chain : List Tpl) (b : Name) : defs chain b = (refs chain b).map (·.decl) := by
  unfold defs refs refOf
  rw [List.map_filterMap]
  congr 1
  funext t
  cases findBlock b t.body <;> rfl

theorem refOf_some {t : Tpl} {b : Name} {r : BRef} (h : refOf t b = some r) : r.tpl = t.name ∧ r.decl.name = b := by
  unfold refOf findBlock at h
  cases hf : (declsL t.body).find? (fun d => d.name == b) with
  | none => simp [hf] at h
  | some d =>
    simp [hf] at h
    subst h
    have := List.find?_some hf
    exact ⟨rfl, by simpa using this⟩

theorem mem_refs {chain : List Tpl} {b : Name} {r : BRef} (h : r ∈ refs chain b) :
    r.tpl ∈ chain.map (·.name) ∧ r.decl.name = b := by
  unfold refs at h
  rw [List.mem_filterMap] at h
  obtain ⟨t, ht, hr⟩ := h
  obtain ⟨h1, h2⟩ := refOf_some hr
  exact ⟨by rw [h1]; exact List.mem_map_of_mem ht, h2⟩

/-- `blocks.index(current)` finds the position of `current` when the templates of the chain have distinct names -/
theorem findIdx_refs (b : Name) : (chain : List Tpl) → (i : Nat) → (c : BRef) →
    (chain.map (·.name)).Nodup → (refs chain b)[i]? = some c → (refs chain b).findIdx (sameFn c) = i
  | [], i, c, _, h => by simp [refs] at h
  | t :: rest, i, c, hnd, h => by
    rw [refs_cons] at h ⊢
    have hnd' : (rest.map (·.name)).Nodup := (List.nodup_cons.mp hnd).2
    cases hr : refOf t b with
    | none =>
      simp only [hr, Option.toList, List.nil_append] at h ⊢
      exact findIdx_refs b rest i c hnd' h
    | some r =>
      simp only [hr, Option.toList, List.cons_append, List.nil_append] at h ⊢
      cases i with
      | zero =>
        simp at h; subst h
        simp [List.findIdx_cons, sameFn]
      | succ j =>
        simp only [List.getElem?_cons_succ] at h
        have hm := mem_refs (List.mem_of_getElem? h)
        have hne : c.tpl ≠ r.tpl := by
          rw [(refOf_some hr).1]
          intro e
          have hm1 := hm.1
          rw [e] at hm1
          exact (List.nodup_cons.mp hnd).1 hm1
        have : sameFn c r = false := by simp [sameFn, hne]
        simp [List.findIdx_cons, this, findIdx_refs b rest j c hnd' h]


/-- the only way the emitted call-site test `len(blocks[n]) <= 1` can fire: the placeholder's own declaration is the
    single definition (then that definition is the required one) -/
def reqAgree (chain : List Tpl) (n : Name) (rq : Bool) : Bool :=
  match defs chain n with
  | [d] => !rq || d.req
  | _ => true

mutual
/-- every `required` placeholder of the piece is itself among the definitions of its name along the chain -/
def agreeP (chain : List Tpl) : Piece → Bool
  | .block n _ rq body => reqAgree chain n rq && agreeL chain body
  | .forLoop _ _ body => agreeL chain body
  | .ifc _ body => agreeL chain body
  | .withv _ _ body => agreeL chain body
  | _ => true
def agreeL (chain : List Tpl) : List Piece → Bool
  | [] => true
  | p :: ps => agreeP chain p && agreeL chain ps
end

def agreeAll (chain : List Tpl) : Bool := chain.all (fun t => agreeL chain t.body)

def CurRel (chain : List Tpl) : Option BRef → Option (Name × Nat) → Prop
  | none, none => True
  | some r, some (b, i) => (refs chain b)[i]? = some r
  | _, _ => False

/-- the model's callee and the specification's callee agree on every registry entry that is not a required
    declaration at the head of its stack; on those the model's block function raises at its first statement -/
structure CalleeRel (chain : List Tpl) (B : Blocks) (callee : Callee) (callee' : SpecInherit.Callee) : Prop where
  eq : ∀ vars b i r, (refs chain b)[i]? = some r → isRequiredHead B r = false → callee vars r = callee' vars b i
  req : ∀ vars r, isRequiredHead B r = true → callee vars r = .error .required

theorem sameFn_self (r : BRef) : sameFn r r = true := by simp [sameFn]

/-- `context.blocks[name][0] is block_name` holds exactly for entry 0 of the stack -/
theorem isRequiredHead_refs (chain : List Tpl) (B : Blocks) (hB : ∀ b, stackOf B b = refs chain b)
    (hnd : (chain.map (·.name)).Nodup) {b : Name} {i : Nat} {r : BRef} (h : (refs chain b)[i]? = some r) :
    isRequiredHead B r = (r.decl.req && i == 0) := by
  have hname := (mem_refs (List.mem_of_getElem? h)).2
  have hidx := findIdx_refs b chain i r hnd h
  unfold isRequiredHead
  rw [hname, hB b]
  cases hr : refs chain b with
  | nil => rw [hr] at h; simp at h
  | cons top more =>
    rw [hr] at hidx h
    simp only [List.findIdx_cons] at hidx
    cases i with
    | zero => simp at h; subst h; simp [sameFn_self]
    | succ j =>
      cases hs : sameFn r top with
      | true => simp [hs] at hidx
      | false => simp [hs]

theorem sim_block (chain : List Tpl) (B : Blocks) (callee : Callee) (callee' : SpecInherit.Callee)
    (hB : ∀ b, stackOf B b = refs chain b) (hnd : (chain.map (·.name)).Nodup) (hcal : CalleeRel chain B callee callee')
    (n : Name) (sc rq : Bool) (body : List Piece) (vars loc : Vars) (cur : Option BRef) (cur' : Option (Name × Nat))
    (ha : reqAgree chain n rq = true) :
    pieceWith callee vars B cur true true loc (.block n sc rq body)
      = piece chain callee' vars cur' loc (.block n sc rq body) := by
  simp only [pieceWith, piece, if_true, hB n]
  unfold reqAgree at ha
  rw [defs_eq_refs] at ha ⊢
  cases hr : refs chain n with
  | nil => simp
  | cons top more =>
    have h0 : (refs chain n)[0]? = some top := by simp [hr]
    have hhead := isRequiredHead_refs chain B hB hnd h0
    simp only [hr, List.map_cons] at ha
    simp only [List.map_cons, List.head?_cons]
    by_cases hq : top.decl.req = true
    · have hreq : isRequiredHead B top = true := by simp [hhead, hq]
      by_cases hc : (rq && more.isEmpty) = true
      · simp [hc, hq]
      · simp [hc, hq, hcal.req _ top hreq]
    · have hnreq : isRequiredHead B top = false := by simp [hhead, hq]
      have hc : (rq && more.isEmpty) = false := by
        cases more with
        | nil =>
          simp only [List.isEmpty_nil, Bool.and_true]
          cases rq with
          | false => rfl
          | true => simp at ha; exact absurd ha hq
        | cons _ _ => simp
      simp [hc, hq, hcal.eq _ n 0 top h0 hnreq]

theorem sim_super (chain : List Tpl) (B : Blocks) (callee : Callee) (callee' : SpecInherit.Callee)
    (hB : ∀ b, stackOf B b = refs chain b) (hnd : (chain.map (·.name)).Nodup) (hcal : CalleeRel chain B callee callee')
    (k : Nat) (vars loc : Vars) (cur : Option BRef) (cur' : Option (Name × Nat)) (hc : CurRel chain cur cur') :
    pieceWith callee vars B cur true true loc (.superCall k) = piece chain callee' vars cur' loc (.superCall k) := by
  simp only [pieceWith, piece, if_true]
  match cur, cur', hc with
  | none, none, _ => rfl
  | some c, some (b, i), hc =>
    simp only [CurRel] at hc
    have hname : c.decl.name = b := (mem_refs (List.mem_of_getElem? hc)).2
    simp only [superTarget, hname, hB b, findIdx_refs b chain i c hnd hc]
    have hlen : (defs chain b).length = (refs chain b).length := by rw [defs_eq_refs]; simp
    cases hg : (refs chain b)[i + 1 + k]? with
    | none =>
      have : ¬ i + 1 + k < (refs chain b).length := by
        intro hlt; rw [List.getElem?_eq_getElem hlt] at hg; cases hg
      simp [hlen, this]
    | some t =>
      have : i + 1 + k < (refs chain b).length := by
        rcases Nat.lt_or_ge (i + 1 + k) (refs chain b).length with h | h
        · exact h
        · rw [List.getElem?_eq_none h] at hg; cases hg
      have hnreq : isRequiredHead B t = false := by
        rw [isRequiredHead_refs chain B hB hnd hg]; simp
      simp [hlen, this, hcal.eq _ b (i + 1 + k) t hg hnreq]

theorem sim_self (chain : List Tpl) (B : Blocks) (callee : Callee) (callee' : SpecInherit.Callee)
    (hB : ∀ b, stackOf B b = refs chain b) (hnd : (chain.map (·.name)).Nodup) (hcal : CalleeRel chain B callee callee')
    (n : Name) (vars loc : Vars) (cur : Option BRef) (cur' : Option (Name × Nat)) :
    pieceWith callee vars B cur true true loc (.selfCall n) = piece chain callee' vars cur' loc (.selfCall n) := by
  simp only [pieceWith, piece, if_true, hB n]
  rw [defs_eq_refs]
  cases hr : refs chain n with
  | nil => simp
  | cons top more =>
    have h0 : (refs chain n)[0]? = some top := by simp [hr]
    have hhead := isRequiredHead_refs chain B hB hnd h0
    simp only [List.map_cons, List.head?_cons]
    by_cases hq : top.decl.req = true
    · have hreq : isRequiredHead B top = true := by simp [hhead, hq]
      simp [hq, hcal.req _ top hreq]
    · have hnreq : isRequiredHead B top = false := by simp [hhead, hq]
      simp [hq, hcal.eq _ n 0 top h0 hnreq]

mutual
theorem sim_piece (chain : List Tpl) (B : Blocks) (callee : Callee) (callee' : SpecInherit.Callee)
    (hB : ∀ b, stackOf B b = refs chain b) (hnd : (chain.map (·.name)).Nodup) (hcal : CalleeRel chain B callee callee')
    (vars : Vars) (cur : Option BRef) (cur' : Option (Name × Nat)) (hc : CurRel chain cur cur') :
    (p : Piece) → (loc : Vars) → agreeP chain p = true →
    pieceWith callee vars B cur true true loc p = piece chain callee' vars cur' loc p
  | .text s, loc, _ => by simp [pieceWith, piece]
  | .var x, loc, _ => by simp [pieceWith, piece, showVar, lookupVar]
  | .block n sc rq body, loc, ha => by
    simp only [agreeP, Bool.and_eq_true] at ha
    exact sim_block chain B callee callee' hB hnd hcal n sc rq body vars loc cur cur' ha.1
  | .superCall k, loc, _ => sim_super chain B callee callee' hB hnd hcal k vars loc cur cur' hc
  | .selfCall n, loc, _ => sim_self chain B callee callee' hB hnd hcal n vars loc cur cur'
  | .forLoop x items body, loc, ha => by
    simp only [agreeP] at ha
    simp only [pieceWith, piece]
    congr 1
    apply List.map_congr_left
    intro ik _
    exact sim_list chain B callee callee' hB hnd hcal vars cur cur' hc body _ ha
  | .withv x v body, loc, ha => by
    simp only [agreeP] at ha
    simp only [pieceWith, piece]
    exact sim_list chain B callee callee' hB hnd hcal vars cur cur' hc body _ ha
  | .loopAttr a, loc, _ => by
    simp only [pieceWith, piece, lookupVar, if_true]
    cases List.lookup ("loop." ++ a) (loc ++ vars) <;> rfl
  | .ifc f body, loc, ha => by
    simp only [agreeP] at ha
    simp only [pieceWith, piece, sim_list chain B callee callee' hB hnd hcal vars cur cur' hc body loc ha]
  | .ext _, loc, _ => by simp [pieceWith, piece]
theorem sim_list (chain : List Tpl) (B : Blocks) (callee : Callee) (callee' : SpecInherit.Callee)
    (hB : ∀ b, stackOf B b = refs chain b) (hnd : (chain.map (·.name)).Nodup) (hcal : CalleeRel chain B callee callee')
    (vars : Vars) (cur : Option BRef) (cur' : Option (Name × Nat)) (hc : CurRel chain cur cur') :
    (ps : List Piece) → (loc : Vars) → agreeL chain ps = true →
    listWith callee vars B cur true true loc ps = list chain callee' vars cur' loc ps
  | [], loc, _ => by simp [listWith, list]
  | p :: ps, loc, ha => by
    simp only [agreeL, Bool.and_eq_true] at ha
    simp only [listWith, list, sim_piece chain B callee callee' hB hnd hcal vars cur cur' hc p loc ha.1,
      sim_list chain B callee callee' hB hnd hcal vars cur cur' hc ps loc ha.2]
    cases piece chain callee' vars cur' loc p with
    | error e => rfl
    | ok a => cases list chain callee' vars cur' loc ps <;> rfl
end

mutual
theorem agree_declsP (chain : List Tpl) : (p : Piece) → agreeP chain p = true →
    ∀ d ∈ declsP p, agreeL chain d.body = true
  | .block n sc rq body, ha, d, hd => by
    simp only [agreeP, Bool.and_eq_true] at ha
    simp only [declsP, List.mem_cons] at hd
    rcases hd with rfl | hd
    · exact ha.2
    · exact agree_declsL chain body ha.2 d hd
  | .forLoop _ _ body, ha, d, hd => by
    simp only [agreeP] at ha; simp only [declsP] at hd
    exact agree_declsL chain body ha d hd
  | .ifc _ body, ha, d, hd => by
    simp only [agreeP] at ha; simp only [declsP] at hd
    exact agree_declsL chain body ha d hd
  | .withv _ _ body, ha, d, hd => by
    simp only [agreeP] at ha; simp only [declsP] at hd
    exact agree_declsL chain body ha d hd
  | .loopAttr _, _, d, hd => by simp [declsP] at hd
  | .text _, _, d, hd => by simp [declsP] at hd
  | .var _, _, d, hd => by simp [declsP] at hd
  | .superCall _, _, d, hd => by simp [declsP] at hd
  | .selfCall _, _, d, hd => by simp [declsP] at hd
  | .ext _, _, d, hd => by simp [declsP] at hd
theorem agree_declsL (chain : List Tpl) : (ps : List Piece) → agreeL chain ps = true →
    ∀ d ∈ declsL ps, agreeL chain d.body = true
  | [], _, d, hd => by simp [declsL] at hd
  | p :: ps, ha, d, hd => by
    simp only [agreeL, Bool.and_eq_true] at ha
    simp only [declsL, List.mem_append] at hd
    rcases hd with hd | hd
    · exact agree_declsP chain p ha.1 d hd
    · exact agree_declsL chain ps ha.2 d hd
end

theorem refOf_mem_decls {t : Tpl} {b : Name} {r : BRef} (h : refOf t b = some r) : r.decl ∈ declsL t.body := by
  unfold refOf findBlock at h
  cases hf : (declsL t.body).find? (fun d => d.name == b) with
  | none => simp [hf] at h
  | some d =>
    simp [hf] at h
    subst h
    exact List.mem_of_find?_eq_some hf

theorem agree_of_mem_refs {chain : List Tpl} (hag : agreeAll chain = true) {b : Name} {r : BRef}
    (h : r ∈ refs chain b) : agreeL chain r.decl.body = true := by
  unfold refs at h
  rw [List.mem_filterMap] at h
  obtain ⟨t, ht, hr⟩ := h
  have := List.all_eq_true.mp hag t ht
  exact agree_declsL chain t.body this _ (refOf_mem_decls hr)

/-- calling a block function with budget `n` = rendering the corresponding definition with budget `n`, except that
    a required declaration at the head of its stack raises -/
theorem callFn_renderDef (chain : List Tpl) (B : Blocks)
    (hB : ∀ b, stackOf B b = refs chain b) (hnd : (chain.map (·.name)).Nodup) (hag : agreeAll chain = true) :
    ∀ n, CalleeRel chain B (callFn n B) (renderDef n chain)
  | 0 => ⟨by intro vars b i r _ hn; simp [callFn, renderDef, hn], by intro vars r h; simp [callFn, h]⟩
  | n + 1 => by
    refine ⟨?_, by intro vars r h; simp [callFn, h]⟩
    intro vars b i r hr hn
    have hd : (defs chain b)[i]? = some r.decl := by rw [defs_eq_refs]; simp [List.getElem?_map, hr]
    simp only [callFn, hn, renderDef, hd]
    exact sim_list chain B _ _ hB hnd (callFn_renderDef chain B hB hnd hag n) vars (some r) (some (b, i)) hr
      r.decl.body [] (agree_of_mem_refs hag (List.mem_of_getElem? hr))

mutual
theorem agreeP_of_decls (chain : List Tpl) : (p : Piece) →
    (∀ d ∈ declsP p, reqAgree chain d.name d.req = true) → agreeP chain p = true
  | .block n sc rq body, h => by
    simp only [agreeP, Bool.and_eq_true]
    refine ⟨h ⟨n, sc, rq, body⟩ (by simp [declsP]), agreeL_of_decls chain body (fun d hd => h d (by simp [declsP, hd]))⟩
  | .forLoop _ _ body, h => by
    simp only [agreeP]; exact agreeL_of_decls chain body (fun d hd => h d (by simpa [declsP] using hd))
  | .ifc _ body, h => by
    simp only [agreeP]; exact agreeL_of_decls chain body (fun d hd => h d (by simpa [declsP] using hd))
  | .withv _ _ body, h => by
    simp only [agreeP]; exact agreeL_of_decls chain body (fun d hd => h d (by simpa [declsP] using hd))
  | .loopAttr _, _ => rfl
  | .text _, _ => rfl
  | .var _, _ => rfl
  | .superCall _, _ => rfl
  | .selfCall _, _ => rfl
  | .ext _, _ => rfl
theorem agreeL_of_decls (chain : List Tpl) : (ps : List Piece) →
    (∀ d ∈ declsL ps, reqAgree chain d.name d.req = true) → agreeL chain ps = true
  | [], _ => rfl
  | p :: ps, h => by
    simp only [agreeL, Bool.and_eq_true]
    exact ⟨agreeP_of_decls chain p (fun d hd => h d (by simp [declsL, hd])),
      agreeL_of_decls chain ps (fun d hd => h d (by simp [declsL, hd]))⟩
end

theorem find_self_of_nodup : (ds : List Decl) → nodupNames (ds.map (·.name)) = true → ∀ d ∈ ds,
    ds.find? (fun x => x.name == d.name) = some d
  | [], _, d, hd => by simp at hd
  | x :: ds, hn, d, hd => by
    simp only [List.map_cons, nodupNames, Bool.and_eq_true, Bool.not_eq_true'] at hn
    rcases List.mem_cons.mp hd with rfl | hd
    · simp [List.find?]
    · have hne : (x.name == d.name) = false := by
        simp only [beq_eq_false_iff_ne, ne_eq]
        intro e
        have : (ds.map (·.name)).contains x.name = true := by
          simp only [List.contains_eq_mem, List.mem_map, decide_eq_true_eq]
          exact ⟨d, hd, e.symm⟩
        rw [this] at hn; exact absurd hn.1 (by simp)
      simp [List.find?, hne, find_self_of_nodup ds hn.2 d hd]


/-- in a chain of templates that compile (no block name twice), every placeholder is among the definitions of its
    name: the emitted call-site test never fires on somebody else's definition -/
theorem agreeAll_of_nodup (chain : List Tpl) (h : ∀ t ∈ chain, nodupNames (blockNames t) = true) :
    agreeAll chain = true := by
  unfold agreeAll
  rw [List.all_eq_true]
  intro t ht
  apply agreeL_of_decls
  intro d hd
  have hf : findBlock d.name t.body = some d := find_self_of_nodup _ (h t ht) d hd
  have hmem : d ∈ defs chain d.name := by
    unfold defs; rw [List.mem_filterMap]; exact ⟨t, ht, hf⟩
  unfold reqAgree
  split
  · rename_i d0 heq
    rw [heq] at hmem
    simp only [List.mem_singleton] at hmem
    subst hmem
    cases d.req <;> rfl
  · rfl

theorem load_ok {L : List Tpl} {n : Name} {t : Tpl} (h : load L n = .ok t) : compileOk t = true := by
  unfold load at h
  split at h
  · cases h
  · split at h
    · cases h; assumption
    · cases h

theorem IsChain.all_load {L : List Tpl} {vars : Vars} : (chain : List Tpl) → IsChain L vars chain →
    ∀ t ∈ chain, load L t.name = .ok t
  | [], h, _, _ => h.elim
  | [r], h, t, ht => by simp at ht; subst ht; exact h.1
  | c :: p :: rest, h, t, ht => by
    rcases List.mem_cons.mp ht with rfl | ht
    · exact h.1
    · exact IsChain.all_load (p :: rest) h.2.2 t ht

theorem nodup_of_compileOk {t : Tpl} (h : compileOk t = true) : nodupNames (blockNames t) = true := by
  simp only [compileOk, Bool.and_eq_true] at h
  exact h.1.1

/-- the registry the root's body runs with (`blocks_after_chain` in the form the proofs use) -/
theorem stackOf_final (L : List Tpl) (vars : Vars) (c : Tpl) (chain : List Tpl) (hch : IsChain L vars (c :: chain))
    (b : Name) : stackOf (chain.foldl registerParent (initBlocks c)) b = refs (c :: chain) b := by
  rw [stackOf_foldl_register, stackOf_initBlocks, refs_cons]
  intro t ht
  exact nodup_of_compileOk (load_ok (IsChain.all_load _ hch t (List.mem_cons_of_mem _ ht)))

theorem renderTemplate_chain (L : List Tpl) (vars : Vars) (c : Tpl) (chain : List Tpl) (hops fuel : Nat)
    (hch : IsChain L vars (c :: chain)) (hnd : ((c :: chain).map (·.name)).Nodup) (hlen : chain.length < hops) :
    renderTemplate L hops fuel vars c.name = renderChain fuel (c :: chain) vars := by
  obtain ⟨root, hroot⟩ : ∃ root, (c :: chain).getLast? = some root := by
    cases h : (c :: chain).getLast? with
    | none => simp at h
    | some r => exact ⟨r, rfl⟩
  have hmem : root ∈ c :: chain := List.mem_of_getLast? hroot
  have hag : agreeAll (c :: chain) = true :=
    agreeAll_of_nodup _ (fun t ht => nodup_of_compileOk (load_ok (IsChain.all_load _ hch t ht)))
  simp only [renderTemplate, hch.head_load, rootRender,
    runRoots_chain L fuel vars chain c hops (initBlocks c) root hch hlen hroot, renderChain, hroot]
  have hB := stackOf_final L vars c chain hch
  have := sim_list (c :: chain) _ _ _ hB hnd (callFn_renderDef (c :: chain) _ hB hnd hag fuel) vars none none
    trivial root.body [] (List.all_eq_true.mp hag root hmem)
  rw [this]
  cases list (c :: chain) (renderDef fuel (c :: chain)) vars none [] root.body <;> rfl

/-! ## a second `extends` -/

/-- reachable top-level states: `parent_template` is set only after an `extends` was counted -/
def TopInv (st : Top) : Prop := st.parent.isSome = true → st.extSoFar > 0

mutual
theorem inv_topPiece (L : List Tpl) (fuel : Nat) (vars : Vars) (he : Bool) :
    (p : Piece) → (rl : Bool) → (st st' : Top) → (o : Text) → TopInv st →
    topPiece L fuel vars he rl st p = .ok (st', o) → TopInv st'
  | .text s, rl, st, st', o, hi, h => by
    simp only [topPiece] at h; split at h <;> simp at h; obtain ⟨rfl, _⟩ := h; exact hi
  | .var x, rl, st, st', o, hi, h => by
    simp only [topPiece] at h; split at h <;> simp at h; obtain ⟨rfl, _⟩ := h; exact hi
  | .superCall k, rl, st, st', o, hi, h => by
    simp only [topPiece] at h; split at h <;> simp at h; obtain ⟨rfl, _⟩ := h; exact hi
  | .selfCall n, rl, st, st', o, hi, h => by
    simp only [topPiece] at h; split at h <;> simp at h; obtain ⟨rfl, _⟩ := h; exact hi
  | .forLoop x it body, rl, st, st', o, hi, h => by
    simp only [topPiece] at h; split at h <;> simp at h; obtain ⟨rfl, _⟩ := h; exact hi
  | .withv x v body, rl, st, st', o, hi, h => by
    simp only [topPiece] at h; split at h <;> simp at h; obtain ⟨rfl, _⟩ := h; exact hi
  | .loopAttr a, rl, st, st', o, hi, h => by
    simp only [topPiece] at h; split at h <;> simp at h; obtain ⟨rfl, _⟩ := h; exact hi
  | .block n sc rq body, rl, st, st', o, hi, h => by
    simp only [topPiece] at h; split at h <;> simp at h; obtain ⟨rfl, _⟩ := h; exact hi
  | .ifc f body, rl, st, st', o, hi, h => by
    simp only [topPiece] at h
    split at h
    · exact inv_topList L fuel vars he body false st st' o hi h
    · simp at h; obtain ⟨rfl, _⟩ := h
      intro hp; have := hi hp; simp only; omega
  | .ext t, rl, st, st', o, hi, h => by
    simp only [topPiece] at h
    split at h
    · cases h
    · split at h
      · cases h
      · split at h
        · cases h
        · simp at h; obtain ⟨rfl, _⟩ := h; intro _; simp
theorem inv_topList (L : List Tpl) (fuel : Nat) (vars : Vars) (he : Bool) :
    (ps : List Piece) → (rl : Bool) → (st st' : Top) → (o : Text) → TopInv st →
    topList L fuel vars he rl st ps = .ok (st', o) → TopInv st'
  | [], rl, st, st', o, hi, h => by simp [topList] at h; obtain ⟨rfl, _⟩ := h; exact hi
  | p :: ps, rl, st, st', o, hi, h => by
    simp only [topList] at h
    split at h
    · cases h
    · rename_i st1 a h1
      split at h
      · cases h
      · rename_i st2 b h2
        simp at h; obtain ⟨rfl, _⟩ := h
        exact inv_topList L fuel vars he ps rl st1 st2 b (inv_topPiece L fuel vars he p rl st st1 a hi h1) h2
end

end JinjaV.Inherit
