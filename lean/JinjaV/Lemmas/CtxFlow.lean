/-
  Helper lemmas for Props/C05.lean: lookups in association lists, `get_all`, the locals loop of `new_context`,
  the dict comprehension of `_get_default_module`, `get_exported`.
-/
import JinjaV.Model.CtxFlow
import JinjaV.Spec.CtxFlow

namespace JinjaV.CtxFlow
variable {α : Type}

/-- `a <|> b` spelled the way the model and the spec spell it -/
def orElse (a b : Option α) : Option α :=
  match a with
  | some v => some v
  | none => b

@[simp] theorem orElse_some (v : α) (b : Option α) : orElse (some v) b = some v := rfl
@[simp] theorem orElse_none (b : Option α) : orElse none b = b := rfl

theorem Env.get_nil (n : Name) : Env.get ([] : Env α) n = none := rfl

theorem Env.get_cons (k : Name) (v : α) (r : Env α) (n : Name) :
    Env.get ((k, v) :: r) n = if k = n then some v else Env.get r n := rfl

theorem Env.get_append (a b : Env α) (n : Name) :
    Env.get (a ++ b) n = orElse (Env.get a n) (Env.get b n) := by
  induction a with
  | nil => rfl
  | cons p r ih =>
    obtain ⟨k, v⟩ := p
    simp only [List.cons_append, Env.get_cons]
    by_cases h : k = n
    · simp [h]
    · simp [h, ih]

theorem Env.get_eq_none_iff (e : Env α) (n : Name) : Env.get e n = none ↔ n ∉ e.keys := by
  induction e with
  | nil => simp [Env.get, Env.keys]
  | cons p r ih =>
    obtain ⟨k, v⟩ := p
    simp only [Env.get_cons, Env.keys, List.map_cons, List.mem_cons, not_or]
    by_cases h : k = n
    · simp [h]
    · simp only [h, if_false]
      rw [ih]
      constructor
      · intro hr; exact ⟨fun e => h e.symm, hr⟩
      · intro hr; exact hr.2

theorem Env.get_isSome_iff (e : Env α) (n : Name) : (Env.get e n).isSome ↔ n ∈ e.keys := by
  have := Env.get_eq_none_iff e n
  cases h : Env.get e n with
  | none => simp [h] at this ⊢; exact this
  | some v => simp [h] at this ⊢; exact this

theorem overlay_get (top base : Env α) (n : Name) :
    Env.get (overlay top base) n = orElse (Env.get top n) (Env.get base n) := Env.get_append top base n

theorem Ctx.resolve_eq (c : Ctx α) (n : Name) : c.resolve n = orElse (c.vars.get n) (c.parent.get n) := by
  unfold Ctx.resolve orElse; rfl

theorem isEmpty_get {e : Env α} (h : e.isEmpty = true) (n : Name) : Env.get e n = none := by
  cases e with
  | nil => rfl
  | cons _ _ => simp at h

/-- the three arms of `get_all` all read like `resolve` -/
theorem getAll_get (c : Ctx α) (n : Name) : Env.get c.getAll n = c.resolve n := by
  rw [Ctx.resolve_eq]
  unfold Ctx.getAll
  by_cases hv : c.vars.isEmpty = true
  · simp [hv, isEmpty_get hv]
  · by_cases hp : c.parent.isEmpty = true
    · simp only [hv, hp, if_true, Bool.false_eq_true, if_false]
      rw [isEmpty_get hp]
      cases Env.get c.vars n <;> rfl
    · simp only [hv, hp, Bool.false_eq_true, if_false]
      exact overlay_get _ _ _

/-- the locals loop of `new_context`: a non-missing local overrides, the last one for a name wins -/
theorem applyLocals_get (p : Env α) (l : Locals α) (n : Name) :
    Env.get (applyLocals p l) n = orElse (Locals.val l n) (Env.get p n) := by
  induction l generalizing p with
  | nil => rfl
  | cons e r ih =>
    obtain ⟨k, v⟩ := e
    cases v with
    | none =>
      simp only [applyLocals, Locals.val]
      rw [ih]
      cases Locals.val r n with
      | some w => rfl
      | none => by_cases h : k = n <;> simp [h]
    | some v =>
      simp only [applyLocals, Locals.val, Env.set]
      rw [ih, Env.get_cons]
      cases Locals.val r n with
      | some w => rfl
      | none => by_cases h : k = n <;> simp [h]

theorem newContext_resolve (g : Env α) (vars : Option (Env α)) (shared : Bool) (l : Locals α) (n : Name) :
    (newContext g vars shared l).resolve n =
      orElse (Locals.val l n) (if shared then Env.get (vars.getD []) n
                               else orElse (Env.get (vars.getD []) n) (Env.get g n)) := by
  rw [Ctx.resolve_eq]
  simp only [newContext, Env.get_nil, orElse_none]
  rw [applyLocals_get]
  cases shared
  · simp only [Bool.false_eq_true, if_false]; rw [overlay_get]
  · simp

/-! dict comprehensions `{k: m[k] for k in keys if k in m}` -/

theorem pickKeys_get (ks : List Name) (m : Env α) (n : Name) :
    Env.get (ks.filterMap fun k => (Env.get m k).map fun v => (k, v)) n = if n ∈ ks then Env.get m n else none := by
  induction ks with
  | nil => simp [Env.get]
  | cons k r ih =>
    simp only [List.filterMap_cons, List.mem_cons]
    cases hk : Env.get m k with
    | none =>
      simp only [Option.map_none]
      rw [ih]
      by_cases hkn : n = k
      · subst hkn; simp [hk]
      · simp [hkn]
    | some v =>
      simp only [Option.map_some, Env.get_cons]
      by_cases hkn : k = n
      · subst hkn; simp [hk]
      · have : ¬ n = k := fun e => hkn e.symm
        simp [hkn, this, ih]

theorem defaultModuleVars_get (ctx : Ctx α) (tg : Env α) (n : Name) :
    Env.get (defaultModuleVars ctx tg) n = if n ∈ extraKeys ctx tg then Env.get ctx.globals n else none :=
  pickKeys_get _ _ _

theorem mem_extraKeys (ctx : Ctx α) (tg : Env α) (k : Name) :
    k ∈ extraKeys ctx tg ↔ k ∈ ctx.gkeys ∧ k ∉ tg.keys := by
  simp [extraKeys, List.mem_filter]

/-! `dump_local_context` -/

theorem Locals.val_filter_other (l : Locals α) (k n : Name) (h : k ≠ n) :
    Locals.val (l.filter fun q => q.1 ≠ k) n = Locals.val l n := by
  induction l with
  | nil => rfl
  | cons p r ih =>
    by_cases hp : p.1 = k
    · have : ¬ p.1 = n := fun e => h (hp.symm.trans e)
      simp only [List.filter_cons, hp, ne_eq, not_true_eq_false, decide_false, Bool.false_eq_true, if_false]
      rw [ih]
      obtain ⟨pk, pv⟩ := p
      simp only at hp this
      simp only [Locals.val, this, if_false]
      cases Locals.val r n <;> rfl
    · obtain ⟨pk, pv⟩ := p
      simp only at hp
      simp only [List.filter_cons, ne_eq, hp, not_false_eq_true, decide_true, if_true, Locals.val, ih]

theorem Locals.val_filter_self (l : Locals α) (n : Name) :
    Locals.val (l.filter fun q => q.1 ≠ n) n = none := by
  induction l with
  | nil => rfl
  | cons p r ih =>
    obtain ⟨pk, pv⟩ := p
    simp only [ne_eq, decide_not] at ih ⊢
    by_cases hp : pk = n
    · simp [hp, ih]
    · simp [hp, Locals.val, ih]

/-- in a list that keeps only the first entry of every name, a name's value is that first entry's -/
theorem Locals.val_dedupFirst (l : Locals α) (n : Name) :
    Locals.val (dedupFirst l) n = ((l.find? (·.1 = n)).map (·.2)).getD none := by
  induction l with
  | nil => rfl
  | cons p r ih =>
    obtain ⟨pk, pv⟩ := p
    simp only [dedupFirst, Locals.val, List.find?_cons]
    by_cases hp : pk = n
    · subst hp
      rw [Locals.val_filter_self]
      simp
    · rw [Locals.val_filter_other _ _ _ hp, ih]
      simp only [hp, decide_false, if_false]
      cases ((r.find? (·.1 = n)).map (·.2)).getD none <;> rfl

theorem findDecl_flatten (frames : List (Frame α)) (n : Name) :
    findDecl frames n = (frames.flatten.find? (·.1 = n)).map (·.2) := by
  induction frames with
  | nil => rfl
  | cons f r ih =>
    simp only [findDecl, List.flatten_cons, List.find?_append]
    cases hf : f.find? (·.1 = n) with
    | none => simp [ih]
    | some p => obtain ⟨pk, pv⟩ := p; simp

/-- induction from the end of a list -/
theorem snoc_induction {β : Type} {P : List β → Prop} (nil : P []) (snoc : ∀ l a, P l → P (l ++ [a])) :
    ∀ l, P l := by
  intro l
  rw [← List.reverse_reverse l]
  induction l.reverse with
  | nil => exact nil
  | cons a r ih => rw [List.reverse_cons]; exact snoc _ _ ih

/-! `get_exported` -/

theorem getExported_get (c : Ctx α) (n : Name) :
    Env.get c.getExported n = if n ∈ c.exported then Env.get c.vars n else none :=
  pickKeys_get _ _ _

end JinjaV.CtxFlow
