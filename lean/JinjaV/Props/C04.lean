import JinjaV.Model.Inherit
import JinjaV.Spec.Inherit
namespace JinjaV.C04
open JinjaV.Inherit

theorem stub_placeholder (B : Blocks) (n : Name) (r : BRef) : stackOf (setdefaultAppend B n r) n = stackOf B n ++ [r] := by
  induction B with
  | nil => simp [setdefaultAppend, stackOf, List.lookup]
  | cons kv rest ih =>
    obtain ⟨k, l⟩ := kv
    by_cases h : n == k
    · simp [setdefaultAppend, stackOf, List.lookup, h]
    · simp [setdefaultAppend, stackOf, List.lookup, h] at ih ⊢
      exact ih

end JinjaV.C04
