/-
  C04 — template inheritance renders the most-derived block overrides.

  Model: `JinjaV.Inherit` (Model/Inherit.lean), the state machine of the generated code: root render functions run
  most-derived first, `extends` appends the parent's block functions to `context.blocks`, top-level output guarded by
  `has_known_extends` / `extends_so_far` / `parent_template`, block call sites dispatch to `blocks[name][0]`,
  `super()` = `index(current) + 1`, required = `len(blocks[name]) <= 1` at the declaring call site and
  `blocks[name][0] is block_name` at the head of a required declaration's own block function.
  Specification: `JinjaV.SpecInherit` (Spec/Inherit.lean), the resolver written from docs/templates.rst.

  The theorems quantify over ALL chains `c :: chain = [cₙ, …, c₀]` with `IsChain` (every template is what the loader
  returns and compiles; each starts with an executed `extends` of the next — static, `{% if flag %}`-guarded or through a
  variable —, nothing else at a child's top level is an `extends`; the last reaches no `extends`), all block
  sets, all variable bindings, every recursion budget `fuel` (nesting depth of block-function calls; the specification
  counts the same nesting, so equalities hold budget by budget, including the "budget exhausted" outcome).
  Helper lemmas: Lemmas/Inherit.lean.
-/
import JinjaV.Lemmas.Inherit
import JinjaV.Lemmas.DumpScope
import JinjaV.Gen.DumpStores

namespace JinjaV.C04
open JinjaV.Inherit JinjaV.SpecInherit

/-! ### instances used by the `example`s -/

def tx (s : String) : Piece := .text s.toList

/-- c0 `[{% block a %}A0{% for x in ['1','2'] %}{% block i scoped %}{{ x }}{% endblock %}{% endfor %}{% endblock %}|`
    `{% block b %}B0{% endblock %}{{ self.b() }}]` -/
def e0 : Tpl := ⟨"c0", [tx "[", .block "a" false false [tx "A0", .forLoop "x" ["1".toList, "2".toList]
  [.block "i" true false [.var "x"]]], tx "|", .block "b" false false [tx "B0"], .selfCall "b", tx "]"]⟩
/-- c1 `{% extends "c0" %}junk{% block b %}B1({{ super() }}){% endblock %}` -/
def e1 : Tpl := ⟨"c1", [.ext (.lit "c0"), tx "junk", .block "b" false false [tx "B1(", .superCall 0, tx ")"]]⟩
/-- c2 `{% if f %}{% extends p %}{% endif %}more junk{% block b %}B2<{{ super.super() }}>{% endblock %}`
    `{% block i %}<{{ x }}{{ super() }}>{% endblock %}` -/
def e2 : Tpl := ⟨"c2", [.ifc "f" [.ext (.dyn "p")], tx "more junk",
  .block "b" false false [tx "B2<", .superCall 1, tx ">"], .block "i" false false [tx "<", .var "x", .superCall 0, tx ">"]]⟩
def eL : List Tpl := [e1, e0, e2]
def eVars : Vars := [("f", "1".toList), ("p", "c1".toList)]

private theorem e_chain : IsChain eL eVars [e2, e1, e0] :=
  ⟨rfl, ⟨.dyn "p", rfl, rfl, rfl⟩, rfl, ⟨.lit "c0", rfl, rfl, rfl⟩, rfl, rfl⟩
private theorem e_nodup : ([e2, e1, e0].map (·.name)).Nodup := by decide

/-! ### `blocks_after_chain` -/

/-- After the root functions of `cₙ … c₀` have run, `context.blocks[b]` is the list of the block functions of the
    templates that define `b`, most-derived first — whatever the root's body then does with it. -/
theorem blocks_after_chain (L : List Tpl) (vars : Vars) (c : Tpl) (chain : List Tpl) (hops fuel : Nat)
    (hch : IsChain L vars (c :: chain)) (hlen : chain.length < hops) (B : Blocks)
    (h : blocksAfter L fuel vars hops (initBlocks c) c = .ok B) (b : Name) :
    stackOf B b = (c :: chain).filterMap (fun t => (findBlock b t.body).map (BRef.mk t.name))
    ∧ (stackOf B b).map (·.decl) = defs (c :: chain) b := by
  obtain ⟨root, hroot⟩ : ∃ root, (c :: chain).getLast? = some root := by
    cases h' : (c :: chain).getLast? with
    | none => simp at h'
    | some r => exact ⟨r, rfl⟩
  have hfin := stackOf_final L vars c chain hch b
  simp only [blocksAfter, runRoots_chain L fuel vars chain c hops (initBlocks c) root hch hlen hroot] at h
  have hB : B = chain.foldl registerParent (initBlocks c) := by
    split at h
    · cases h
    · rename_i B' o heq
      split at heq
      · cases heq; cases h; rfl
      · cases heq
  subst hB
  exact ⟨hfin, by rw [hfin, defs_eq_refs]⟩

example : blocksAfter eL 9 eVars 9 (initBlocks e2) e2 = .ok
    [("b", [⟨"c2", ⟨"b", false, false, [tx "B2<", .superCall 1, tx ">"]⟩⟩,
            ⟨"c1", ⟨"b", false, false, [tx "B1(", .superCall 0, tx ")"]⟩⟩, ⟨"c0", ⟨"b", false, false, [tx "B0"]⟩⟩]),
     ("i", [⟨"c2", ⟨"i", false, false, [tx "<", .var "x", .superCall 0, tx ">"]⟩⟩, ⟨"c0", ⟨"i", true, false, [.var "x"]⟩⟩]),
     ("a", [⟨"c0", ⟨"a", false, false, [tx "A0", .forLoop "x" ["1".toList, "2".toList] [.block "i" true false [.var "x"]]]⟩⟩])] := by
  rfl

/-! ### `render_chain` -/

/-- Rendering the most-derived template = the documented result: the root template's content with every block
    placeholder filled by the most-derived definition, `super()` / `self` resolved along the chain, nothing from the
    children outside blocks — not from their top level, and not from `if` / `for` bodies at their top level —, and
    TemplateRuntimeError exactly where the most-derived definition of a rendered block is a `required` declaration. -/
theorem render_chain (L : List Tpl) (vars : Vars) (c : Tpl) (chain : List Tpl) (hops fuel : Nat)
    (hch : IsChain L vars (c :: chain)) (hnd : ((c :: chain).map (·.name)).Nodup) (hlen : chain.length < hops) :
    renderTemplate L hops fuel vars c.name = renderChain fuel (c :: chain) vars :=
  renderTemplate_chain L vars c chain hops fuel hch hnd hlen

example : renderTemplate eL 9 9 eVars e2.name = renderChain 9 [e2, e1, e0] eVars :=
  render_chain eL eVars e2 [e1, e0] 9 9 e_chain e_nodup (by decide)
example : renderTemplate eL 9 9 eVars "c2" = .ok "[A0<11><22>|B2<B0>B2<B0>]".toList := by decide
example : renderChain 9 [e2, e1, e0] eVars = .ok "[A0<11><22>|B2<B0>B2<B0>]".toList := by decide
example : renderTemplate eL 9 9 eVars "c1" = .ok "[A012|B1(B0)B1(B0)]".toList := by decide

/-- The root function of a child yields nothing and leaves `parent_template` set and the parent's blocks appended:
    content of a child outside blocks is not rendered. -/
theorem child_root_silent (L : List Tpl) (fuel : Nat) (vars : Vars) (B : Blocks) (c p : Tpl)
    (hc : IsChild vars c p.name) (hl : load L p.name = .ok p) :
    ∃ st, topList L fuel vars (haveExt c) true ⟨none, false, 0, B⟩ c.body = .ok (st, [])
      ∧ st.parent = some p ∧ st.blocks = registerParent B p :=
  child_topList L fuel vars B c p hc hl

example : IsChild eVars e2 e1.name := ⟨.dyn "p", rfl, rfl, rfl⟩

/-- a `[{% block b %}A{% endblock %}]`, l `{% extends "a" %}{% for x in ['1','2'] %}{% block b scoped %}<{{ x }}>{% endblock %}{% endfor %}` -/
def la : Tpl := ⟨"a", [tx "[", .block "b" false false [tx "A"], tx "]"]⟩
def lc : Tpl := ⟨"l", [.ext (.lit "a"), .forLoop "x" ["1".toList, "2".toList] [.block "b" true false [tx "<", .var "x", tx ">"]]]⟩
example : IsChain [la, lc] [] [lc, la] := ⟨rfl, ⟨.lit "a", rfl, rfl, rfl⟩, rfl, rfl⟩
example : renderTemplate [la, lc] 4 4 [] "l" = .ok "[<>]".toList := by decide

/-! ### `super_next`, `self_most_derived` -/

/-- `super()` inside the `i`-th entry of `blocks[b]` renders entry `i+1`, `super.super()` entry `i+2`, …;
    undefined when the stack ends before (`index(current)` is computed on a stack of distinct functions). -/
theorem super_next (chain : List Tpl) (B : Blocks) (callee : Inherit.Callee) (vars loc : Vars) (b : Name) (i k : Nat)
    (cur : BRef) (hB : ∀ b, stackOf B b = refs chain b) (hnd : (chain.map (·.name)).Nodup)
    (hcur : (stackOf B b)[i]? = some cur) :
    pieceWith callee vars B (some cur) true true loc (.superCall k)
      = match (stackOf B b)[i + 1 + k]? with
        | some next => callee vars next
        | none => .error .undefined := by
  rw [hB b] at hcur
  have hname : cur.decl.name = b := (mem_refs (List.mem_of_getElem? hcur)).2
  simp only [pieceWith, if_true, superTarget, hname, hB b, findIdx_refs b chain i cur hnd hcur]
  cases (refs chain b)[i + 1 + k]? <;> rfl

example : pieceWith (callFn 5 (initBlocks e0)) [] (registerParent (registerParent (initBlocks e2) e1) e0)
    (some ⟨"c2", ⟨"b", false, false, [tx "B2<", .superCall 1, tx ">"]⟩⟩) true true [] (.superCall 1) = .ok "B0".toList := by
  decide
example : pieceWith (callFn 5 (initBlocks e0)) [] (registerParent (registerParent (initBlocks e2) e1) e0)
    (some ⟨"c2", ⟨"b", false, false, []⟩⟩) true true [] (.superCall 2) = .error .undefined := by decide

/-- `self.b()` renders the body of the most-derived definition of `b` along the chain (first definer, most-derived
    first) as that block function — with the context variables, without the loop variables, output live —, raises if
    that definition is a `required` declaration, and is exactly what an unscoped, non-required placeholder for `b`
    renders; a name nobody defines is undefined. -/
theorem self_most_derived (chain : List Tpl) (B : Blocks) (n : Nat) (vars loc : Vars) (cur : Option BRef) (b : Name)
    (body : List Piece) (hB : ∀ b, stackOf B b = refs chain b) (hnd : (chain.map (·.name)).Nodup) :
    pieceWith (callFn (n + 1) B) vars B cur true true loc (.selfCall b)
      = (match chain.filterMap (fun t => (findBlock b t.body).map (BRef.mk t.name)) with
        | [] => .error .undefined
        | r :: _ => if r.decl.req then .error .required
                    else listWith (callFn n B) vars B (some r) true true [] r.decl.body)
    ∧ (refs chain b ≠ [] →
        pieceWith (callFn (n + 1) B) vars B cur true true loc (.selfCall b)
          = pieceWith (callFn (n + 1) B) vars B cur true true loc (.block b false false body)) := by
  have hr : refs chain b = chain.filterMap (fun t => (findBlock b t.body).map (BRef.mk t.name)) := rfl
  rw [← hr]
  cases h : refs chain b with
  | nil => simp [pieceWith, hB b, h]
  | cons r more =>
    have h0 : (refs chain b)[0]? = some r := by simp [h]
    have hh := isRequiredHead_refs chain B hB hnd h0
    simp only [beq_self_eq_true, Bool.and_true] at hh
    simp [pieceWith, hB b, h, callFn, hh]

example : (∀ b, stackOf (registerParent (registerParent (initBlocks e2) e1) e0) b = refs [e2, e1, e0] b) :=
  fun b => stackOf_final eL eVars e2 [e1, e0] e_chain b
example : pieceWith (callFn 5 (registerParent (registerParent (initBlocks e2) e1) e0)) eVars
    (registerParent (registerParent (initBlocks e2) e1) e0) none true true [] (.selfCall "b") = .ok "B2<B0>".toList := by decide

example : stackOf (registerParent (registerParent (initBlocks e2) e1) e0) "b"
    = ⟨"c2", ⟨"b", false, false, [tx "B2<", .superCall 1, tx ">"]⟩⟩ :: [⟨"c1", ⟨"b", false, false, [tx "B1(", .superCall 0, tx ")"]⟩⟩,
        ⟨"c0", ⟨"b", false, false, [tx "B0"]⟩⟩] := by rfl

theorem self_unknown_undefined (callee : Inherit.Callee) (vars loc : Vars) (B : Blocks) (cur : Option BRef) (b : Name)
    (h : stackOf B b = []) : pieceWith callee vars B cur true true loc (.selfCall b) = .error .undefined := by
  simp [pieceWith, h]

example : stackOf (initBlocks e0) "zz" = [] := by rfl

/-! ### `scoped_sees_locals` -/

/-- A scoped placeholder hands the loop variables of its surroundings to the block function (they shadow context
    variables of the same name), an unscoped one hands over the context variables only; in both cases the most-derived
    definition is what runs. -/
theorem scoped_sees_locals (n : Nat) (B : Blocks) (vars loc : Vars) (cur : Option BRef) (b x : Name) (rq0 : Bool)
    (body : List Piece) (top : BRef) (more : List BRef) (h : stackOf B b = top :: more)
    (hbody : top.decl.body = [.var x]) (hreq : (rq0 && more.isEmpty) = false) (hnr : top.decl.req = false) :
    pieceWith (callFn (n + 1) B) vars B cur true true loc (.block b true rq0 body) = .ok (showVar loc vars x)
    ∧ pieceWith (callFn (n + 1) B) vars B cur true true loc (.block b false rq0 body) = .ok (showVar [] vars x) := by
  simp [pieceWith, h, hreq, callFn, isRequiredHead, hnr, listWith, hbody, showVar, lookupVar]

example : pieceWith (callFn 3 (initBlocks e0)) [("x", "ctx".toList)] (initBlocks e0) none true true [("x", "loop".toList)]
    (.block "i" true false []) = .ok "loop".toList := by decide
example : pieceWith (callFn 3 (initBlocks e0)) [("x", "ctx".toList)] (initBlocks e0) none true true [("x", "loop".toList)]
    (.block "i" false false []) = .ok "ctx".toList := by decide

/-! ### what a scoped block sees: the scope chain, innermost binding first -/

/-- `Symbols.dump_stores` as READ from idtracking.py (Gen/DumpStores.lean), run on any chain of scopes (innermost
    first): the dict handed to `context.derived` resolves every name to its INNERMOST binding, and binds nothing else.
    Re-proved over the regenerated program on every run. -/
theorem dump_stores_innermost_wins (chain : List DumpScope.Scope) (x : String) :
    (DumpScope.run Gen.DumpStores.prog chain).lookup x = chain.flatten.lookup x := by
  have h : Gen.DumpStores.prog = DumpScope.P0 := by decide
  rw [h]
  exact DumpScope.run_P0 chain x

/-- … hence the model's scoped call site, which passes the flattened chain `loc` in front of the context variables,
    is what the generated `context.derived(dump_local_context(frame))` resolves names to -/
theorem scoped_locals_are_dump_stores (chain : List DumpScope.Scope) (vars : Vars) (x : Name) :
    lookupVar [] (DumpScope.run Gen.DumpStores.prog chain ++ vars) x = lookupVar chain.flatten vars x := by
  simp only [lookupVar, List.nil_append, List.lookup_append, dump_stores_innermost_wins]

example : (DumpScope.run Gen.DumpStores.prog [[("x", "in".toList)], [("x", "out".toList), ("g", "w".toList)]]).lookup "x"
    = some "in".toList := by decide

/-- nested scopes binding the same name around a scoped placeholder: reused loop target, `loop` itself, `with` -/
def n0 : Tpl := ⟨"n0", [.forLoop "x" ["1".toList, "2".toList] [tx "[", .forLoop "x" ["a".toList, "b".toList]
  [.withv "w" "o".toList [.withv "w" "i".toList [.block "c" true false [.loopAttr "index", tx ":", .var "x", .var "w", tx ";"]]]], tx "]"]]⟩
def n1 : Tpl := ⟨"n1", [.ext (.lit "n0"), .block "c" false false [tx "<", .loopAttr "index", .var "x", tx "|", .superCall 0, tx ">"]]⟩
example : renderTemplate [n0, n1] 4 4 [] "n0" = .ok "[1:ai;2:bi;][1:ai;2:bi;]".toList := by decide
example : renderTemplate [n0, n1] 4 4 [] "n1" = .ok "[<1a|1:ai;><2b|2:bi;>][<1a|1:ai;><2b|2:bi;>]".toList := by decide

/-! ### required blocks -/

/-- The full-strength statement: rendering agrees with the documentation for every chain, wherever `required` is
    declared (root, middle or most-derived template; top level or nested). -/
def RequiredAnywhere : Prop :=
  ∀ (L : List Tpl) (vars : Vars) (c : Tpl) (chain : List Tpl) (hops fuel : Nat),
    IsChain L vars (c :: chain) → ((c :: chain).map (·.name)).Nodup → chain.length < hops →
    renderTemplate L hops fuel vars c.name = renderChain fuel (c :: chain) vars

theorem required_anywhere : RequiredAnywhere :=
  fun L vars c chain hops fuel hch hnd hlen => renderTemplate_chain L vars c chain hops fuel hch hnd hlen

/-- A placeholder (declared anywhere, required or not) whose most-derived definition along the chain is a `required`
    declaration raises TemplateRuntimeError: either the call-site test fires or the declaration's own block function
    refuses to be the head of its stack. -/
theorem required_most_derived_raises (chain : List Tpl) (B : Blocks) (n : Nat) (vars loc : Vars) (cur : Option BRef)
    (b : Name) (sc rq : Bool) (body : List Piece) (top : BRef) (more : List BRef)
    (hB : ∀ b, stackOf B b = refs chain b) (hnd : (chain.map (·.name)).Nodup)
    (h : refs chain b = top :: more) (hreq : top.decl.req = true) :
    pieceWith (callFn n B) vars B cur true true loc (.block b sc rq body) = .error .required := by
  have h0 : (refs chain b)[0]? = some top := by simp [h]
  have hh : isRequiredHead B top = true := by rw [isRequiredHead_refs chain B hB hnd h0]; simp [hreq]
  simp only [pieceWith, if_true, hB b, h]
  split
  · rfl
  · cases n <;> simp [callFn, hh]

/-- … and through `super()` from an override it is still reachable (it is not the head then). -/
theorem required_via_super_renders (chain : List Tpl) (B : Blocks) (n : Nat) (vars : Vars) (b : Name) (i : Nat)
    (r : BRef) (hB : ∀ b, stackOf B b = refs chain b) (hnd : (chain.map (·.name)).Nodup)
    (h : (refs chain b)[i + 1]? = some r) :
    callFn (n + 1) B vars r = listWith (callFn n B) vars B (some r) true true [] r.decl.body := by
  have : isRequiredHead B r = false := by rw [isRequiredHead_refs chain B hB hnd h]; simp
  simp [callFn, this]

/-- The placeholder of a required block declared in the root `root` (chain = `kids ++ [root]`): the call-site test
    raises iff no descendant defines the block; otherwise the most-derived descendant's definition is called. -/
theorem required_root_iff (kids : List Tpl) (root : Tpl) (B : Blocks) (callee : Inherit.Callee) (vars loc : Vars)
    (b : Name) (sc : Bool) (body : List Piece) (d : Decl)
    (hB : ∀ b, stackOf B b = refs (kids ++ [root]) b) (hroot : findBlock b root.body = some d) :
    (refs kids b = [] → pieceWith callee vars B none true true loc (.block b sc true body) = .error .required)
    ∧ (∀ top more, refs kids b = top :: more →
        pieceWith callee vars B none true true loc (.block b sc true body)
          = callee (if sc then loc ++ vars else vars) top) := by
  have happ : refs (kids ++ [root]) b = refs kids b ++ [⟨root.name, d⟩] := by
    simp [refs, List.filterMap_append, refOf, hroot]
  constructor
  · intro hk
    simp [pieceWith, hB b, happ, hk]
  · intro top more hk
    simp [pieceWith, hB b, happ, hk]

def r0 : Tpl := ⟨"r0", [tx "[", .block "b" false true [], tx "]"]⟩
def r1 : Tpl := ⟨"r1", [.ext (.lit "r0")]⟩
def r2 : Tpl := ⟨"r2", [.ext (.lit "r1"), .block "b" false false [tx "ok"]]⟩
example : IsChain [r0, r1, r2] [] [r2, r1, r0] :=
  ⟨rfl, ⟨.lit "r1", rfl, rfl, rfl⟩, rfl, ⟨.lit "r0", rfl, rfl, rfl⟩, rfl, rfl⟩
example : renderTemplate [r0, r1, r2] 9 9 [] "r2" = .ok "[ok]".toList := by decide
example : renderTemplate [r0, r1, r2] 9 9 [] "r1" = .error .required := by decide
example : renderTemplate [r0, r1, r2] 9 9 [] "r0" = .error .required := by decide

/-- the ledger entry F3: c0 `[{% block b %}base{% endblock %}]`, c1 `{% extends "c0" %}{% block b required %}{% endblock %}`,
    c2 `{% extends "c1" %}`, c3 `{% extends "c2" %}{% block b %}<{{ super() }}|{{ super.super() }}>{% endblock %}` -/
def f0 : Tpl := ⟨"c0", [tx "[", .block "b" false false [tx "base"], tx "]"]⟩
def f1 : Tpl := ⟨"c1", [.ext (.lit "c0"), .block "b" false true []]⟩
def f2 : Tpl := ⟨"c2", [.ext (.lit "c1")]⟩
def f3 : Tpl := ⟨"c3", [.ext (.lit "c2"), .block "b" false false [tx "<", .superCall 0, tx "|", .superCall 1, tx ">"]]⟩
example : IsChain [f0, f1, f2, f3] [] [f2, f1, f0] :=
  ⟨rfl, ⟨.lit "c1", rfl, rfl, rfl⟩, rfl, ⟨.lit "c0", rfl, rfl, rfl⟩, rfl, rfl⟩
example : renderTemplate [f0, f1, f2, f3] 9 9 [] "c2" = .error .required := by decide
example : renderTemplate [f0, f1, f2, f3] 9 9 [] "c1" = .error .required := by decide
example : renderChain 9 [f2, f1, f0] [] = .error .required := by decide
example : renderTemplate [f0, f1, f2, f3] 9 9 [] "c3" = .ok "[<|base>]".toList := by decide

/-! ### `extends_twice` -/

/-- Once an `extends` has been executed in a root function (so `parent_template` is set), executing another one
    raises TemplateRuntimeError("extended multiple times") — whatever ran in between, for static and conditional
    extends alike. -/
theorem extends_twice (L : List Tpl) (fuel : Nat) (vars : Vars) (he rl rl' : Bool) (B : Blocks) (ps : List Piece)
    (st : Top) (o : Text) (t : Target)
    (hrun : topList L fuel vars he rl ⟨none, false, 0, B⟩ ps = .ok (st, o)) (hext : st.parent.isSome = true) :
    topPiece L fuel vars he rl' st (.ext t) = .error .extendedTwice := by
  have hinv : TopInv st := inv_topList L fuel vars he ps rl _ st o (by intro h; simp at h) hrun
  have hpos := hinv hext
  cases hk : st.known <;> simp [topPiece, hpos, hext, hk]

def t2 : Tpl := ⟨"t2", [.ext (.lit "r0"), .block "b" false false [tx "x"], .ifc "f" [.ext (.lit "r1")]]⟩
example : renderTemplate [r0, r1, t2] 9 9 [("f", "1".toList)] "t2" = .error .extendedTwice := by decide
example : renderTemplate [r0, r1, t2] 9 9 [] "t2" = .ok "[x]".toList := by decide

end JinjaV.C04
