/-
  C25 — the template cache serves current source.
-/
import JinjaV.Model.TplCache
import JinjaV.Lemmas.LRU

namespace JinjaV.C25
open JinjaV.LRU (K V)
open JinjaV.SpecLRU (Spec find remove touch put)
open JinjaV.TplCache

def resOf : Option V → Res
  | some v => .template v
  | none => .notFound

theorem cacheGet_lru_some (sp : Spec) (k : K) (v : V) (h : find sp.items k = some v) :
    cacheGet (.lru sp) k = (.lru (touch sp k v), some v) := by
  simp [cacheGet, h]

theorem cacheGet_lru_none (sp : Spec) (k : K) (h : find sp.items k = none) :
    cacheGet (.lru sp) k = (.lru sp, none) := by
  simp [cacheGet, h]

theorem lru_get_eq (sp : Spec) (k : K) : (cacheGet (.lru sp) k).2 = find sp.items k := by
  unfold cacheGet; cases h : find sp.items k <;> simp [h]

/-- **autoreload_current**: with auto-reload, whatever the cache holds (any kind, any contents,
    any history), `get_template` returns the template compiled from the loader's *current*
    source, and TemplateNotFound exactly when the loader no longer has the name -/
theorem autoreload_current (ld : Loader) (s : St) (name : K) :
    (getTemplate true ld s name).2 = resOf (lookup ld name) := by
  unfold getTemplate
  cases hc : cacheGet s.cache name with
  | mk c1 hit =>
    simp only
    cases hit with
    | none => cases hl : lookup ld name <;> simp [resOf]
    | some v =>
      by_cases hv : lookup ld name = some v
      · simp [hv, resOf]
      · have : (lookup ld name == some v) = false := by simpa using hv
        simp only [Bool.not_true, Bool.false_or, this]
        cases hl : lookup ld name <;> simp [resOf]

/-- **no_autoreload_sticky**: without auto-reload a cached template is served unchanged and the
    loader is not consulted, whatever happened to the source -/
theorem no_autoreload_sticky (ld : Loader) (s : St) (name : K) (v : V)
    (h : (cacheGet s.cache name).2 = some v) :
    (getTemplate false ld s name).2 = .template v ∧ (getTemplate false ld s name).1.loads = s.loads := by
  unfold getTemplate
  cases hc : cacheGet s.cache name with
  | mk c1 hit =>
    rw [hc] at h; simp at h; subst h
    simp

/-- **size0_recompiles**: without a cache every successful lookup compiles again -/
theorem size0_recompiles (ar : Bool) (ld : Loader) (s : St) (name : K) (v : V)
    (hc : s.cache = .none) (hl : lookup ld name = some v) :
    (getTemplate ar ld s name).1.loads = s.loads + 1 ∧ (getTemplate ar ld s name).2 = .template v := by
  unfold getTemplate
  simp [hc, cacheGet, hl]

-- cache bound ---------------------------------------------------------------------------------

theorem length_remove_le (l : List (K × V)) (k : K) : (remove l k).length ≤ l.length := by
  induction l with
  | nil => simp [remove]
  | cons p l ih =>
    obtain ⟨a, b⟩ := p
    by_cases h : a = k <;> simp [remove, h] <;> omega

theorem length_remove_lt (l : List (K × V)) (k : K) (v : V) (h : find l k = some v) :
    (remove l k).length < l.length := by
  induction l with
  | nil => simp [find] at h
  | cons p l ih =>
    obtain ⟨a, b⟩ := p
    by_cases hk : a = k
    · simp [remove, hk]; have := length_remove_le l k; omega
    · rw [JinjaV.LRU.find_cons_ne _ _ _ _ hk] at h
      simp [remove, hk]; exact ih h

theorem touch_bound (sp : Spec) (k : K) (v : V) (hf : find sp.items k = some v) (h : sp.items.length ≤ sp.cap) :
    (touch sp k v).items.length ≤ (touch sp k v).cap := by
  simp only [touch, List.length_cons]
  have := length_remove_lt sp.items k v hf
  omega

theorem put_bound (sp : Spec) (k : K) (v : V) (hc : 1 ≤ sp.cap) (h : sp.items.length ≤ sp.cap) :
    (put sp k v).items.length ≤ (put sp k v).cap := by
  unfold put
  cases hf : find sp.items k with
  | some v0 =>
    simp only [touch, List.length_cons]
    have := length_remove_lt sp.items k v0 hf
    omega
  | none =>
    simp only
    split
    · simp only [List.length_cons, List.length_dropLast]; omega
    · simp only [List.length_cons]; omega

def Bounded : Cache → Prop
  | .lru sp => 1 ≤ sp.cap ∧ sp.items.length ≤ sp.cap
  | _ => True

theorem cacheGet_bounded (c : Cache) (k : K) (h : Bounded c) : Bounded (cacheGet c k).1 := by
  cases c with
  | lru sp =>
    cases hf : find sp.items k with
    | none => rw [cacheGet_lru_none sp k hf]; exact h
    | some v => rw [cacheGet_lru_some sp k v hf]; exact ⟨h.1, touch_bound sp k v hf h.2⟩
  | _ => trivial

theorem cacheSet_bounded (c : Cache) (k : K) (v : V) (h : Bounded c) : Bounded (cacheSet c k v) := by
  cases c with
  | lru sp =>
    refine ⟨?_, put_bound sp k v h.1 h.2⟩
    unfold put; repeat' split
    all_goals exact h.1
  | _ => trivial

theorem getTemplate_bounded (ar : Bool) (ld : Loader) (s : St) (name : K) (h : Bounded s.cache) :
    Bounded (getTemplate ar ld s name).1.cache := by
  unfold getTemplate
  have h1 := cacheGet_bounded s.cache name h
  cases hc : cacheGet s.cache name with
  | mk c1 hit =>
    rw [hc] at h1
    simp only
    split
    · exact h1
    · split
      · exact cacheSet_bounded _ _ _ h1
      · exact h1

def capOf : Cache → Option Nat
  | .lru sp => some sp.cap
  | _ => none

theorem put_cap (sp : Spec) (k : K) (v : V) : (put sp k v).cap = sp.cap := by
  unfold put; repeat' split
  all_goals rfl

theorem cacheGet_cap (c : Cache) (k : K) : capOf (cacheGet c k).1 = capOf c := by
  cases c with
  | lru sp =>
    cases hf : find sp.items k with
    | none => rw [cacheGet_lru_none sp k hf]
    | some v => rw [cacheGet_lru_some sp k v hf]; rfl
  | none => rfl
  | dict it => rfl

theorem cacheSet_cap (c : Cache) (k : K) (v : V) : capOf (cacheSet c k v) = capOf c := by
  cases c with
  | lru sp => simp [cacheSet, capOf, put_cap]
  | none => rfl
  | dict it => rfl

theorem getTemplate_cap (ar : Bool) (ld : Loader) (s : St) (name : K) :
    capOf (getTemplate ar ld s name).1.cache = capOf s.cache := by
  unfold getTemplate
  have h1 := cacheGet_cap s.cache name
  cases hc : cacheGet s.cache name with
  | mk c1 hit =>
    rw [hc] at h1
    simp only
    split
    · exact h1
    · split
      · simp only; rw [cacheSet_cap]; exact h1
      · exact h1

theorem selectTemplate_inv (ar : Bool) (ld : Loader) (s : St) (ns : List K) (h : Bounded s.cache) :
    Bounded (selectTemplate ar ld s ns).1.cache ∧ capOf (selectTemplate ar ld s ns).1.cache = capOf s.cache := by
  induction ns generalizing s with
  | nil => exact ⟨h, rfl⟩
  | cons x xs ih =>
    simp only [selectTemplate]
    have hb := getTemplate_bounded ar ld s x h
    have hcap := getTemplate_cap ar ld s x
    cases hg : getTemplate ar ld s x with
    | mk s' r =>
      rw [hg] at hb hcap
      cases r with
      | template v => exact ⟨hb, hcap⟩
      | notFound =>
        obtain ⟨i1, i2⟩ := ih s' hb
        exact ⟨i1, i2.trans hcap⟩

theorem step_inv (ar : Bool) (ld : Loader) (s : St) (op : TplCache.Op) (h : Bounded s.cache) :
    Bounded (TplCache.step ar ld s op).2.1.cache ∧ capOf (TplCache.step ar ld s op).2.1.cache = capOf s.cache := by
  cases op with
  | get nm => exact ⟨getTemplate_bounded ar ld s nm h, getTemplate_cap ar ld s nm⟩
  | select ns => exact selectTemplate_inv ar ld s ns h
  | put nm v => exact ⟨h, rfl⟩
  | delete nm => exact ⟨h, rfl⟩

/-- state after a history -/
def after (ar : Bool) : Loader → St → List TplCache.Op → Loader × St
  | ld, s, [] => (ld, s)
  | ld, s, op :: ops => after ar (TplCache.step ar ld s op).1 (TplCache.step ar ld s op).2.1 ops

theorem after_inv (ar : Bool) (ld : Loader) (s : St) (ops : List TplCache.Op) (h : Bounded s.cache) :
    Bounded (after ar ld s ops).2.cache ∧ capOf (after ar ld s ops).2.cache = capOf s.cache := by
  induction ops generalizing ld s with
  | nil => exact ⟨h, rfl⟩
  | cons op ops ih =>
    obtain ⟨h1, h2⟩ := step_inv ar ld s op h
    obtain ⟨i1, i2⟩ := ih _ _ h1
    exact ⟨i1, i2.trans h2⟩

/-- **autoreload over histories**: after *any* history of gets, selects, source changes and deletions,
    the next `get_template` answers with the loader's state at that moment -/
theorem autoreload_history (ld : Loader) (s : St) (pre : List TplCache.Op) (name : K) :
    (TplCache.step true (after true ld s pre).1 (after true ld s pre).2 (.get name)).2.2 =
      some (resOf (lookup (after true ld s pre).1 name)) := by
  simp [TplCache.step, autoreload_current]

/-- **cache_bound**: a cache of size n ≥ 1 never holds more than n templates, after any history of
    gets, selects, source changes and deletions -/
theorem cache_bound (ar : Bool) (n : Nat) (hn : 1 ≤ n) (ops : List TplCache.Op) (ld : Loader) (loads : Nat) :
    cacheSize (after ar ld { cache := .lru (JinjaV.SpecLRU.init n), loads := loads } ops).2.cache ≤ n := by
  obtain ⟨h1, h2⟩ := after_inv ar ld { cache := .lru (JinjaV.SpecLRU.init n), loads := loads } ops
    (by simp [Bounded, JinjaV.SpecLRU.init, hn])
  cases hc : (after ar ld { cache := .lru (JinjaV.SpecLRU.init n), loads := loads } ops).2.cache with
  | none => simp [cacheSize]
  | dict it => rw [hc] at h2; simp [capOf, JinjaV.SpecLRU.init] at h2
  | lru sp =>
    rw [hc] at h1 h2
    simp [capOf, JinjaV.SpecLRU.init] at h2
    simp only [cacheSize]
    have := h1.2
    omega

/-- **select_first**: `select_template` answers with the first name the loader can supply -/
theorem select_first (ld : Loader) (s : St) (ns : List K) :
    (selectTemplate true ld s ns).2 = resOf (ns.findSome? (lookup ld)) := by
  induction ns generalizing s with
  | nil => rfl
  | cons x xs ih =>
    simp only [selectTemplate]
    have h := autoreload_current ld s x
    cases hg : getTemplate true ld s x with
    | mk s' r =>
      rw [hg] at h; simp only at h
      cases hl : lookup ld x with
      | some v => rw [hl] at h; simp [resOf] at h; subst h; simp [List.findSome?, hl, resOf]
      | none => rw [hl] at h; simp [resOf] at h; subst h; simp [List.findSome?, hl, ih]

-- non-vacuity: modify, delete and evict
example : TplCache.run true [(1, 10), (2, 20)] { cache := .lru (JinjaV.SpecLRU.init 1), loads := 0 }
    [.get 1, .put 1 11, .get 1, .get 2, .delete 1, .get 1, .select [1, 2]] =
    [some (.template 10), none, some (.template 11), some (.template 20), none, some .notFound, some (.template 20)] := by
  decide

end JinjaV.C25
