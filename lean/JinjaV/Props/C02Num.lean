/-
  C02 (numbers): the documented meaning of the numeric tests, proved about the bodies READ from tests.py
  (Gen/NumTests.lean), for every rational value (numerator `v`, `a` over any common denominator `p > 0`): every int and
  every float whose `%` is exact.

    odd          <->  the value is an odd integer        (2.5 is neither odd nor even)
    even         <->  the value is an even integer
    divisibleby  <->  the value is an integer multiple of num;  num = 0 raises ZeroDivisionError
-/
import JinjaV.Gen.NumTests

namespace JinjaV.Props.C02Num
open JinjaV.NumTests JinjaV.Gen.NumTests

theorem registered_names : registered = true := by decide

private theorem two_p_ne (p : Int) (hp : 0 < p) : ((2 : Int) * p == 0) = false := by
  have : (2 : Int) * p ≠ 0 := by omega
  simpa using this

theorem odd_eval (p v a : Int) (hp : 0 < p) : evalT p v a oddBody = .ok (v.fmod (2 * p) == p) := by
  simp [oddBody, evalT, evalE, two_p_ne p hp]

theorem even_eval (p v a : Int) (hp : 0 < p) : evalT p v a evenBody = .ok (v.fmod (2 * p) == 0) := by
  simp [evenBody, evalT, evalE, two_p_ne p hp]

theorem divisibleby_eval (p v a : Int) (ha : a ≠ 0) : evalT p v a divisiblebyBody = .ok (v.fmod a == 0) := by
  have : (a == 0) = false := by simpa using ha
  simp [divisiblebyBody, evalT, evalE, this]

/-- `x is odd` is true exactly when x is an odd integer: x = 2m + 1 (as numerators over p: v = (2m+1) p) -/
theorem odd_documented (p v a : Int) (hp : 0 < p) :
    evalT p v a oddBody = .ok true ↔ ∃ m : Int, v = (2 * m + 1) * p := by
  rw [odd_eval p v a hp]
  simp only [Except.ok.injEq, beq_iff_eq]
  constructor
  · intro h
    refine ⟨v.fdiv (2 * p), ?_⟩
    have := Int.fmod_add_mul_fdiv v (2 * p)
    rw [h] at this
    grind
  · rintro ⟨m, rfl⟩
    have e : (2 * m + 1) * p = p + m * (2 * p) := by grind
    rw [e, Int.add_mul_fmod_self_right]
    exact Int.fmod_eq_of_lt (by omega) (by omega)

/-- `x is even` is true exactly when x is an even integer -/
theorem even_documented (p v a : Int) (hp : 0 < p) :
    evalT p v a evenBody = .ok true ↔ ∃ m : Int, v = 2 * m * p := by
  rw [even_eval p v a hp]
  simp only [Except.ok.injEq, beq_iff_eq]
  constructor
  · intro h
    refine ⟨v.fdiv (2 * p), ?_⟩
    have := Int.mul_fdiv_cancel_of_fmod_eq_zero h
    grind
  · rintro ⟨m, rfl⟩
    have e : 2 * m * p = m * (2 * p) := by grind
    rw [e]; exact Int.mul_fmod_left _ _

/-- odd and even never raise, and no value is both -/
theorem odd_even_total_exclusive (p v a : Int) (hp : 0 < p) :
    (∃ b, evalT p v a oddBody = .ok b) ∧ (∃ b, evalT p v a evenBody = .ok b) ∧
    ¬ (evalT p v a oddBody = .ok true ∧ evalT p v a evenBody = .ok true) := by
  refine ⟨⟨_, odd_eval p v a hp⟩, ⟨_, even_eval p v a hp⟩, ?_⟩
  rw [odd_eval p v a hp, even_eval p v a hp]
  simp only [Except.ok.injEq, beq_iff_eq]
  omega

/-- a value that is not an integer (p does not divide its numerator) is neither odd nor even -/
theorem non_integer_neither (p v a : Int) (hp : 0 < p) (h : ¬ p ∣ v) :
    evalT p v a oddBody = .ok false ∧ evalT p v a evenBody = .ok false := by
  have ho := odd_documented p v a hp
  have he := even_documented p v a hp
  rw [odd_eval p v a hp] at ho ⊢
  rw [even_eval p v a hp] at he ⊢
  constructor
  · cases hb : (v.fmod (2 * p) == p) with
    | false => rfl
    | true =>
      obtain ⟨m, rfl⟩ := ho.mp (by rw [hb])
      exact absurd (Int.dvd_mul_left _ _) h
  · cases hb : (v.fmod (2 * p) == 0) with
    | false => rfl
    | true =>
      obtain ⟨m, rfl⟩ := he.mp (by rw [hb])
      exact absurd (Int.dvd_mul_left _ _) h

/-- `x is divisibleby(n)` (n ≠ 0) is true exactly when x is an integer multiple of n -/
theorem divisibleby_documented (p v a : Int) (ha : a ≠ 0) :
    evalT p v a divisiblebyBody = .ok true ↔ ∃ m : Int, v = m * a := by
  rw [divisibleby_eval p v a ha]
  simp only [Except.ok.injEq, beq_iff_eq]
  constructor
  · intro h
    exact ⟨v.fdiv a, (Int.fdiv_mul_cancel_of_fmod_eq_zero h).symm⟩
  · rintro ⟨m, rfl⟩
    exact Int.mul_fmod_left _ _

/-- division by zero is an error, not a value -/
theorem divisibleby_zero (p v : Int) : evalT p v 0 divisiblebyBody = .error .zeroDiv := by
  simp [divisiblebyBody, evalT, evalE]

-- non-vacuity: 2.5 = 5/2 and 7 = 14/2 over p = 2; 7.5 is divisible by 2.5
example : evalT 2 5 0 oddBody = .ok false ∧ evalT 2 5 0 evenBody = .ok false ∧ evalT 2 14 0 oddBody = .ok true ∧
    evalT 2 15 5 divisiblebyBody = .ok true ∧ evalT 2 (-6) 0 oddBody = .ok true := by
  refine ⟨?_, ?_, ?_, ?_, ?_⟩ <;> rfl

end JinjaV.Props.C02Num
