/-
  C22, attribute paths: what `make_attrgetter` (Model/FiltColl.lean `attrWalk`: a fold over the parts of the dotted path, the
  default substituted after EACH part) returns, for all values, paths, defaults and undefined kinds.
-/
import JinjaV.Model.FiltColl
import JinjaV.Gen.AttrGetter

namespace JinjaV.C22Attr
open JinjaV.FiltColl

theorem walk_err (chain : Bool) (d : Option Val) (ps : List Part) :
    ps.foldl (attrStep chain d) .err = .err := by
  induction ps with
  | nil => rfl
  | cons p ps ih => simpa [List.foldl, attrStep, getitemR, substDefault] using ih

/-- **attr_defined**: when every prefix of the path is defined the getter returns the looked-up value — whatever the default and
    the undefined kind. -/
theorem attr_defined (chain : Bool) (d : Option Val) (ps : List Part) (item v : Val)
    (h : lookupPath ps item = some v) : attrWalk chain d ps item = .val v := by
  induction ps generalizing item with
  | nil => simp [lookupPath] at h; simp [attrWalk, h]
  | cons p ps ih =>
    simp only [lookupPath] at h
    cases hg : getitem item p with
    | none => simp [hg] at h
    | some w =>
      simp only [hg] at h
      have := ih w h
      simpa [attrWalk, List.foldl, attrStep, getitemR, hg, substDefault] using this

/-- walking on from the default itself gives the default again, if the default has none of the path's parts -/
theorem walk_from_default (chain : Bool) (dv : Val) (ps : List Part) (hd : ∀ p ∈ ps, getitem dv p = none) :
    ps.foldl (attrStep chain (some dv)) (.val dv) = .val dv := by
  induction ps with
  | nil => rfl
  | cons p ps ih =>
    have hp : getitem dv p = none := hd p (by simp)
    have := ih (fun q hq => hd q (by simp [hq]))
    simpa [List.foldl, attrStep, getitemR, hp, substDefault] using this

/-- **attr_default**: with a default `dv` (given, i.e. not None) that itself has none of the path's parts, the getter returns the
    looked-up value if every prefix of the path is defined and `dv` as soon as SOME prefix is undefined — first, middle or last
    part alike; it never raises and never returns an Undefined, for every undefined kind. -/
theorem attr_default (chain : Bool) (dv : Val) (ps : List Part) (item : Val) (hd : ∀ p ∈ ps, getitem dv p = none) :
    attrWalk chain (some dv) ps item = .val ((lookupPath ps item).getD dv) := by
  induction ps generalizing item with
  | nil => simp [attrWalk, lookupPath]
  | cons p ps ih =>
    have hd' : ∀ q ∈ ps, getitem dv q = none := fun q hq => hd q (by simp [hq])
    cases hg : getitem item p with
    | none =>
      have := walk_from_default chain dv ps hd'
      simpa [attrWalk, List.foldl, attrStep, getitemR, hg, substDefault, lookupPath] using this
    | some w =>
      have := ih w hd'
      simpa [attrWalk, List.foldl, attrStep, getitemR, hg, substDefault, lookupPath] using this

/-- **attr_default_total**: with ANY default that is given the getter returns a value: no UndefinedError, no Undefined (the walk
    goes on from the default when the default itself has the next part). -/
theorem attr_default_total (chain : Bool) (dv : Val) (ps : List Part) (item : Val) :
    ∃ v, attrWalk chain (some dv) ps item = .val v := by
  induction ps generalizing item with
  | nil => exact ⟨item, rfl⟩
  | cons p ps ih =>
    cases hg : getitem item p with
    | none =>
      obtain ⟨v, hv⟩ := ih dv
      exact ⟨v, by simpa [attrWalk, List.foldl, attrStep, getitemR, hg, substDefault] using hv⟩
    | some w =>
      obtain ⟨v, hv⟩ := ih w
      exact ⟨v, by simpa [attrWalk, List.foldl, attrStep, getitemR, hg, substDefault] using hv⟩

theorem walk_undef_chain (ps : List Part) : ps.foldl (attrStep true none) .undef = .undef := by
  induction ps with
  | nil => rfl
  | cons p ps ih => simpa [List.foldl, attrStep, getitemR, substDefault] using ih

/-- **attr_nodefault_chainable**: without default, under ChainableUndefined, an undefined prefix gives an Undefined (no error). -/
theorem attr_nodefault_chainable (ps : List Part) (item : Val) (h : lookupPath ps item = none) :
    attrWalk true none ps item = .undef := by
  induction ps generalizing item with
  | nil => simp [lookupPath] at h
  | cons p ps ih =>
    cases hg : getitem item p with
    | none =>
      have := walk_undef_chain ps
      simpa [attrWalk, List.foldl, attrStep, getitemR, hg, substDefault] using this
    | some w =>
      simp only [lookupPath, hg] at h
      have := ih w h
      simpa [attrWalk, List.foldl, attrStep, getitemR, hg, substDefault] using this

/-- **attr_nodefault_last**: without default (default / strict undefined), if only the LAST part is missing the result is an
    Undefined … -/
theorem attr_nodefault_last (ps : List Part) (p : Part) (item v : Val)
    (h : lookupPath ps item = some v) (hp : getitem v p = none) :
    attrWalk false none (ps ++ [p]) item = .undef := by
  have := attr_defined false none ps item v h
  simp only [attrWalk] at this
  simp [attrWalk, List.foldl_append, this, attrStep, getitemR, hp, substDefault]

/-- … **attr_nodefault_inner**: and if an earlier part is missing, looking up the next part on the Undefined raises
    UndefinedError. -/
theorem attr_nodefault_inner (ps : List Part) (p : Part) (item : Val) (h : lookupPath ps item = none) :
    attrWalk false none (ps ++ [p]) item = .err := by
  have key : ∀ (qs : List Part) (it : Val), lookupPath qs it = none →
      qs.foldl (attrStep false none) (.val it) = .undef ∨ qs.foldl (attrStep false none) (.val it) = .err := by
    intro qs
    induction qs with
    | nil => intro it h; simp [lookupPath] at h
    | cons q qs ih =>
      intro it h
      cases hg : getitem it q with
      | none =>
        cases qs with
        | nil => left; simp [List.foldl, attrStep, getitemR, hg, substDefault]
        | cons q' qs' =>
          right
          have := walk_err false none qs'
          simpa [List.foldl, attrStep, getitemR, hg, substDefault] using this
      | some w =>
        simp only [lookupPath, hg] at h
        simpa [List.foldl, attrStep, getitemR, hg, substDefault] using ih w h
  rcases key ps item h with h1 | h1 <;>
    simp [attrWalk, List.foldl_append, h1, attrStep, getitemR, substDefault]

/-- **attrgetter_shape**: the statements of `make_attrgetter.attrgetter`, `make_multi_attrgetter.attrgetter` and
    `_prepare_attribute_parts` READ from filters.py on every run (Gen/AttrGetter.lean: nesting depth, statement head) are the ones
    `attrStep` / `attrWalk` / `prepareParts` transcribe — in particular the default substitution sits INSIDE the loop over the
    parts (depth 1), after the lookup. -/
theorem attrgetter_shape :
    Gen.AttrGetter.attrgetter = [
      (0, "for part in parts"),
      (1, "item = environment.getitem(item, part)"),
      (1, "if default is not None and isinstance(item, Undefined)"),
      (2, "item = default"),
      (0, "if postprocess is not None"),
      (1, "item = postprocess(item)"),
      (0, "return item")] ∧
    Gen.AttrGetter.multiAttrgetter = [
      (0, "items = [None] * len(parts)"),
      (0, "for (i, attribute_part) in enumerate(parts)"),
      (1, "item_i = item"),
      (1, "for part in attribute_part"),
      (2, "item_i = environment.getitem(item_i, part)"),
      (1, "if postprocess is not None"),
      (2, "item_i = postprocess(item_i)"),
      (1, "items[i] = item_i"),
      (0, "return items")] ∧
    Gen.AttrGetter.prepareParts = [
      (0, "if attr is None"),
      (1, "return []"),
      (0, "if isinstance(attr, str)"),
      (1, "return [int(x) if x.isdigit() else x for x in attr.split('.')]"),
      (0, "return [attr]")] := by decide

/-! the hypotheses are satisfiable on non-trivial instances; the default is used for a missing first, middle and last part -/
private def mike : Val := .dict [("name", .str "mike")]
private def john : Val := .dict [("name", .str "john"), ("address", .obj [("city", .str "NY")])]
private def anna : Val := .dict [("address", .dict [])]
private def rows : Val := .dict [("rows", .list [.dict [("k", .int 3)]])]
private def path : List Part := [.name "address", .name "city"]       -- prepareParts "address.city"
private def path3 : List Part := [.name "rows", .idx 0, .name "k"]    -- prepareParts "rows.0.k"
private def strOf : Res → String
  | .val (.str s) => s
  | .val (.int n) => toString n
  | .undef => "<undef>"
  | .err => "<err>"
  | _ => "?"

example : (lookupPath path john).isSome ∧ lookupPath path mike = none ∧ lookupPath path anna = none := ⟨rfl, rfl, rfl⟩
example : ∀ p ∈ path, getitem (.str "zz") p = none := by
  intro p hp
  simp [path] at hp
  rcases hp with rfl | rfl <;> rfl
example : strOf (attrWalk false (some (.str "zz")) path john) = "NY" := by decide
example : strOf (attrWalk false (some (.str "zz")) path mike) = "zz" := by decide
example : strOf (attrWalk false (some (.str "zz")) path anna) = "zz" := by decide
example : strOf (attrWalk false (some (.int 0)) path3 mike) = "0" ∧ strOf (attrWalk false (some (.int 0)) path3 rows) = "3" := by decide
example : strOf (attrWalk false none path mike) = "<err>" ∧ strOf (attrWalk false none path anna) = "<undef>" := by decide
example : strOf (attrWalk true none path mike) = "<undef>" := by decide
-- a default that has the next part: the walk goes on from it (why attr_default has its hypothesis)
example : strOf (attrWalk false (some (.dict [("city", .str "X")])) path mike) = "X" := by decide

end JinjaV.C22Attr
