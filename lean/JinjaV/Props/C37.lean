/-
  C37 — concurrent async renders do not interfere.

  Over the task model of Model/AsyncTasks.lean (tasks with private state, one shared
  `_module` slot per template, switching at suspension points only):

  `task_state_private`     a step of task i leaves every other task's state untouched, and what
                           it does depends on task i's own state and the shared slots only
  `module_race_benign`     under EVERY interleaving the `_module` slots only ever hold the
                           deterministic module value, although several tasks may build and
                           assign it (`module_race_is_real`)
  `output_schedule_independent`, `concurrent_eq_alone`
                           under EVERY interleaving each task's output is a prefix-extension towards
                           the output it computes alone; once finished it IS that output
  `alone_finishes`         a task resumed alone often enough does finish (so "its output when
                           rendered alone" exists)
-/
import JinjaV.Model.AsyncTasks
import JinjaV.Gen.ModuleProtocol

namespace JinjaV.C37
open JinjaV.AsyncTasks

/-- the `_module` slots hold nothing but the deterministic module value -/
def GoodSlots (E : Env) (sh : Shared) : Prop := ∀ t m, sh.slots.lookup t = some m → m = E.make t

private theorem finishMake_spec {E : Env} {sh : Shared} (hg : GoodSlots E sh) (t : Nat) (c : Bool) :
    (finishMake E t c sh).2 = E.make t ∧ GoodSlots E (finishMake E t c sh).1 := by
  unfold finishMake
  cases c with
  | false => exact ⟨rfl, hg⟩
  | true =>
    simp only [if_true]
    refine ⟨by simp, ?_⟩
    intro t' m h
    simp only [List.lookup_cons] at h
    split at h
    · rename_i heq
      have : t' = t := by simpa using heq
      subst this; exact (Option.some.inj h).symm
    · exact hg t' m h

private theorem runProg_spec (E : Env) (p : List Instr) :
    ∀ (out : List Nat) (sh : Shared), GoodSlots E sh →
      future E (runProg E p out sh).1 = out ++ soloOut E p ∧ GoodSlots E (runProg E p out sh).2 := by
  induction p with
  | nil => intro out sh hg; exact ⟨by simp [runProg, future, pending, soloOut], hg⟩
  | cons ins p ih =>
    intro out sh hg
    cases ins with
    | emit v =>
      have := ih (out ++ [v]) sh hg
      simp only [runProg, soloOut]
      exact ⟨by rw [this.1]; simp, this.2⟩
    | await_ => exact ⟨by simp [runProg, future, pending, soloOut], hg⟩
    | importDefault t =>
      simp only [runProg, soloOut]
      cases hl : sh.slots.lookup t with
      | some m =>
        have hm := hg t m hl
        have := ih (out ++ [m]) sh hg
        simp only
        exact ⟨by rw [this.1, hm]; simp, this.2⟩
      | none =>
        simp only
        by_cases hc : E.cost t = 0
        · have hf := finishMake_spec hg t true
          have := ih (out ++ [(finishMake E t true sh).2]) (finishMake E t true sh).1 hf.2
          simp only [hc, if_true]
          exact ⟨by rw [this.1, hf.1]; simp, this.2⟩
        · simp only [hc, if_false]
          exact ⟨by simp [future, pending], hg⟩
    | importFresh t =>
      simp only [runProg, soloOut]
      by_cases hc : E.cost t = 0
      · have := ih (out ++ [E.make t]) sh hg
        simp only [hc, if_true]
        exact ⟨by rw [this.1]; simp, this.2⟩
      · simp only [hc, if_false]
        exact ⟨by simp [future, pending], hg⟩

/-- resuming a task does not change the output it is going to have, and keeps the slots good -/
theorem stepTask_spec (E : Env) (tk : Task) (sh : Shared) (hg : GoodSlots E sh) :
    future E (stepTask E tk sh).1 = future E tk ∧ GoodSlots E (stepTask E tk sh).2 := by
  obtain ⟨prog, phase, out⟩ := tk
  cases phase with
  | run =>
    have := runProg_spec E prog out sh hg
    simp only [stepTask]
    exact ⟨by rw [this.1]; simp [future, pending], this.2⟩
  | making t left cache =>
    simp only [stepTask]
    by_cases hl : left ≤ 1
    · have hf := finishMake_spec hg t cache
      have := runProg_spec E prog (out ++ [(finishMake E t cache sh).2]) (finishMake E t cache sh).1 hf.2
      simp only [hl, if_true]
      exact ⟨by rw [this.1, hf.1]; simp [future, pending], this.2⟩
    · simp only [hl, if_false]
      exact ⟨by simp [future, pending], hg⟩

/-- **task_state_private (1)**: a step of task `i` does not change the state of any other task. -/
theorem task_state_private (E : Env) (s : Sys) (i j : Nat) (h : i ≠ j) :
    (step E i s).tasks[j]? = s.tasks[j]? := by
  unfold step
  cases s.tasks[i]? with
  | none => rfl
  | some tk => simp [List.getElem?_set_ne h]

/-- **task_state_private (2)**: what a step of task `i` does to task `i` and to the shared slots is determined
    by task `i`'s own state and the shared slots — it reads no other task's state. -/
theorem step_reads_own_state_only (E : Env) (s s' : Sys) (i : Nat) (tk : Task)
    (hsh : s.shared = s'.shared) (hti : s.tasks[i]? = some tk) (hti' : s'.tasks[i]? = some tk) :
    (step E i s).shared = (step E i s').shared ∧ (step E i s).tasks[i]? = (step E i s').tasks[i]? := by
  have h1 : i < s.tasks.length := by
    rcases Nat.lt_or_ge i s.tasks.length with h | h
    · exact h
    · rw [List.getElem?_eq_none h] at hti; cases hti
  have h2 : i < s'.tasks.length := by
    rcases Nat.lt_or_ge i s'.tasks.length with h | h
    · exact h
    · rw [List.getElem?_eq_none h] at hti'; cases hti'
  unfold step
  rw [hti, hti']
  simp only [← hsh]
  simp [h1, h2]

/-- the invariant kept by every interleaving -/
structure Inv (E : Env) (s0 s : Sys) : Prop where
  good : GoodSlots E s.shared
  len : s.tasks.length = s0.tasks.length
  fut : ∀ j : Nat, (s.tasks[j]?).map (future E) = (s0.tasks[j]?).map (future E)

theorem step_inv (E : Env) (s0 s : Sys) (i : Nat) (h : Inv E s0 s) : Inv E s0 (step E i s) := by
  unfold step
  cases hi : s.tasks[i]? with
  | none => exact h
  | some tk =>
    have sp := stepTask_spec E tk s.shared h.good
    refine ⟨sp.2, by simp [h.len], fun j => ?_⟩
    by_cases hij : i = j
    · subst hij
      have h1 : i < s.tasks.length := by
        rcases Nat.lt_or_ge i s.tasks.length with h' | h'
        · exact h'
        · rw [List.getElem?_eq_none h'] at hi; cases hi
      rw [← h.fut i, hi]
      simp [h1, sp.1]
    · simp only [List.getElem?_set_ne hij]
      exact h.fut j

theorem runSched_inv (E : Env) (sched : List Nat) :
    ∀ (s0 s : Sys), Inv E s0 s → Inv E s0 (runSched E sched s) := by
  induction sched with
  | nil => intro s0 s h; exact h
  | cons i r ih => intro s0 s h; exact ih s0 (step E i s) (step_inv E s0 s i h)

theorem inv_init (E : Env) (s0 : Sys) (hg : GoodSlots E s0.shared) : Inv E s0 s0 := ⟨hg, rfl, fun _ => rfl⟩

/-- **module_race_benign**: whatever the interleaving of whatever tasks, a `_module` slot that is set holds exactly
    the value `make_module_async()` computes for that template — at every moment, in particular at the end. -/
theorem module_race_benign (E : Env) (s0 : Sys) (hg : GoodSlots E s0.shared) (sched : List Nat) :
    ∀ t m, (runSched E sched s0).shared.slots.lookup t = some m → m = E.make t :=
  (runSched_inv E sched s0 s0 (inv_init E s0 hg)).good

/-- **output_schedule_independent**: under every interleaving, at every moment, what task `j` has produced plus what it is
    still going to produce is the output it computes alone. -/
theorem output_schedule_independent (E : Env) (progs : List (List Instr)) (sched : List Nat) (j : Nat)
    (tk : Task) (h : (runSched E sched (init progs)).tasks[j]? = some tk) :
    ∃ prog, progs[j]? = some prog ∧ future E tk = soloOut E prog := by
  have inv := runSched_inv E sched (init progs) (init progs) (inv_init E _ (by intro t m h; simp [init] at h))
  have hf := inv.fut j
  rw [h] at hf
  simp only [init, List.getElem?_map, Option.map_map, Option.map_some] at hf
  cases hp : progs[j]? with
  | none => rw [hp] at hf; simp at hf
  | some prog =>
    rw [hp] at hf
    refine ⟨prog, rfl, ?_⟩
    have := Option.some.inj hf
    simpa [fresh, future, pending] using this

/-- **concurrent_eq_alone**: a task that has finished under any interleaving with any other tasks has produced exactly
    the output its program computes alone (`soloOut` mentions no shared state and no other task). -/
theorem concurrent_eq_alone (E : Env) (progs : List (List Instr)) (sched : List Nat) (j : Nat)
    (tk : Task) (h : (runSched E sched (init progs)).tasks[j]? = some tk) (hfin : tk.finished = true) :
    ∃ prog, progs[j]? = some prog ∧ tk.out = soloOut E prog := by
  obtain ⟨prog, hp, hf⟩ := output_schedule_independent E progs sched j tk h
  refine ⟨prog, hp, ?_⟩
  obtain ⟨p, ph, out⟩ := tk
  simp only [Task.finished, Bool.and_eq_true, List.isEmpty_iff, beq_iff_eq] at hfin
  obtain ⟨h1, h2⟩ := hfin
  subst h1; subst h2
  simpa [future, pending, soloOut] using hf

/-- two interleavings (for instance: with the other tasks, and all alone) give a finished task the same output -/
theorem any_two_schedules_agree (E : Env) (progs progs' : List (List Instr)) (sched sched' : List Nat) (j j' : Nat)
    (prog : List Instr) (hp : progs[j]? = some prog) (hp' : progs'[j']? = some prog)
    (tk tk' : Task) (h : (runSched E sched (init progs)).tasks[j]? = some tk)
    (h' : (runSched E sched' (init progs')).tasks[j']? = some tk')
    (hf : tk.finished = true) (hf' : tk'.finished = true) : tk.out = tk'.out := by
  obtain ⟨p1, e1, o1⟩ := concurrent_eq_alone E progs sched j tk h hf
  obtain ⟨p2, e2, o2⟩ := concurrent_eq_alone E progs' sched' j' tk' h' hf'
  rw [hp] at e1; rw [hp'] at e2
  cases e1; cases e2
  rw [o1, o2]

/-! ### the race is real in the model, and a task alone terminates -/

/-- Two tasks importing the same template: both find `None`, both build, both assign (2 writes); sequentially 1 write.
    Both get the module value either way. -/
theorem module_race_is_real :
    let E : Env := ⟨fun t => 100 + t, fun _ => 1⟩
    let progs := [[Instr.importDefault 7, .emit 1], [Instr.importDefault 7, .emit 2]]
    (runSched E [0, 1, 0, 1] (init progs)).shared.writes = 2
    ∧ (runSched E [0, 0, 1, 1] (init progs)).shared.writes = 1
    ∧ (runSched E [0, 1, 0, 1] (init progs)).tasks.map (·.out) = [[107, 1], [107, 2]]
    ∧ (runSched E [0, 0, 1, 1] (init progs)).tasks.map (·.out) = [[107, 1], [107, 2]] := by
  decide

/-! ### a task alone terminates, so "its output when rendered alone" exists -/

/-- resumptions a task still needs when it runs alone (upper bound) -/
def rem (E : Env) (tk : Task) : Nat :=
  match tk.phase with
  | .run => if tk.prog.isEmpty then 0 else 1 + work E tk.prog
  | .making _ left _ => (if left ≤ 1 then 1 else left) + work E tk.prog

private theorem ite_le (c : Prop) [Decidable c] (x : Nat) : (if c then 0 else x) ≤ x := by
  by_cases h : c <;> simp [h]

private theorem rem_zero_finished (E : Env) (tk : Task) (h : rem E tk = 0) : tk.finished = true := by
  obtain ⟨p, ph, out⟩ := tk
  cases ph with
  | run =>
    simp only [rem] at h
    cases p with
    | nil => rfl
    | cons a r => simp at h
  | making t left c => simp only [rem] at h; split at h <;> omega

private theorem runProg_rem (E : Env) (p : List Instr) :
    ∀ (out : List Nat) (sh : Shared), rem E (runProg E p out sh).1 ≤ work E p := by
  induction p with
  | nil => intro out sh; simp [runProg, work, rem]
  | cons ins p ih =>
    intro out sh
    cases ins with
    | emit v => simpa [runProg, work] using ih (out ++ [v]) sh
    | await_ =>
      simp only [runProg, work, rem]
      exact ite_le _ _
    | importDefault t =>
      simp only [runProg, work]
      cases hl : sh.slots.lookup t with
      | some m => have := ih (out ++ [m]) sh; simp only; omega
      | none =>
        simp only
        by_cases hc : E.cost t = 0
        · have := ih (out ++ [(finishMake E t true sh).2]) (finishMake E t true sh).1
          simp only [hc, if_true]; omega
        · simp only [hc, if_false, rem]; split <;> omega
    | importFresh t =>
      simp only [runProg, work]
      by_cases hc : E.cost t = 0
      · have := ih (out ++ [E.make t]) sh
        simp only [hc, if_true]; omega
      · simp only [hc, if_false, rem]; split <;> omega

private theorem stepTask_rem (E : Env) (tk : Task) (sh : Shared) :
    rem E (stepTask E tk sh).1 ≤ rem E tk - 1 := by
  obtain ⟨p, ph, out⟩ := tk
  cases ph with
  | run =>
    have := runProg_rem E p out sh
    simp only [stepTask]
    cases p with
    | nil => simp [runProg, rem]
    | cons a r => simp only [rem, List.isEmpty_cons] at this ⊢; simp only [Bool.false_eq_true, if_false]; omega
  | making t left c =>
    simp only [stepTask]
    by_cases hl : left ≤ 1
    · have := runProg_rem E p (out ++ [(finishMake E t c sh).2]) (finishMake E t c sh).1
      simp only [hl, if_true, rem] at this ⊢; omega
    · simp only [hl, if_false, rem]
      split <;> omega

/-- task `tk` resumed `n` times with nothing else running -/
def soloSteps (E : Env) : Nat → Task → Shared → Task × Shared
  | 0, tk, sh => (tk, sh)
  | n + 1, tk, sh => soloSteps E n (stepTask E tk sh).1 (stepTask E tk sh).2

private theorem soloSteps_rem (E : Env) : ∀ (n : Nat) (tk : Task) (sh : Shared),
    rem E (soloSteps E n tk sh).1 ≤ rem E tk - n := by
  intro n
  induction n with
  | zero => intro tk sh; simp [soloSteps]
  | succ n ih =>
    intro tk sh
    have h1 := stepTask_rem E tk sh
    have h2 := ih (stepTask E tk sh).1 (stepTask E tk sh).2
    simp only [soloSteps]; omega

private theorem runSched_solo (E : Env) : ∀ (n : Nat) (tk : Task) (sh : Shared),
    runSched E (List.replicate n 0) ⟨sh, [tk]⟩ = ⟨(soloSteps E n tk sh).2, [(soloSteps E n tk sh).1]⟩ := by
  intro n
  induction n with
  | zero => intro tk sh; rfl
  | succ n ih =>
    intro tk sh
    simp only [List.replicate_succ, runSched, List.foldl_cons, soloSteps]
    have : step E 0 ⟨sh, [tk]⟩ = ⟨(stepTask E tk sh).2, [(stepTask E tk sh).1]⟩ := by simp [step]
    rw [this]
    exact ih _ _

/-- **alone_finishes**: rendered alone (resumed `work + 1` times with no other task), a program finishes. -/
theorem alone_finishes (E : Env) (prog : List Instr) :
    ∃ tk, (runSched E (List.replicate (work E prog + 1) 0) (init [prog])).tasks = [tk] ∧ tk.finished = true := by
  have hs := runSched_solo E (work E prog + 1) (fresh prog) ⟨[], 0⟩
  have hr := soloSteps_rem E (work E prog + 1) (fresh prog) ⟨[], 0⟩
  refine ⟨(soloSteps E (work E prog + 1) (fresh prog) ⟨[], 0⟩).1, ?_, ?_⟩
  · simp only [init, List.map_cons, List.map_nil]; rw [hs]
  · apply rem_zero_finished E
    have : rem E (fresh prog) ≤ work E prog + 1 := by
      cases prog with
      | nil => simp [rem, fresh]
      | cons a r => simp [rem, fresh]; omega
    omega

/-- **C37 on the model**, in the words of the property: whatever other tasks run and however they are interleaved,
    a task that has finished produced exactly the output of the same program rendered alone. -/
theorem concurrent_eq_rendered_alone (E : Env) (progs : List (List Instr)) (sched : List Nat) (j : Nat)
    (prog : List Instr) (hp : progs[j]? = some prog)
    (tk : Task) (h : (runSched E sched (init progs)).tasks[j]? = some tk) (hfin : tk.finished = true) :
    ∃ alone, (runSched E (List.replicate (work E prog + 1) 0) (init [prog])).tasks = [alone]
      ∧ alone.finished = true ∧ tk.out = alone.out := by
  obtain ⟨alone, ha, hf⟩ := alone_finishes E prog
  refine ⟨alone, ha, hf, ?_⟩
  have h0 : (runSched E (List.replicate (work E prog + 1) 0) (init [prog])).tasks[0]? = some alone := by rw [ha]; rfl
  exact any_two_schedules_agree E progs [prog] sched _ j 0 prog hp rfl tk alone h h0 hfin hf

-- non-vacuity: three tasks, a shared import with two suspension points, a schedule that finishes all of them
example :
    let E : Env := ⟨fun t => 100 + t, fun _ => 2⟩
    let progs := [[Instr.emit 1, .importDefault 7, .await_, .emit 2], [Instr.importDefault 7, .importFresh 8],
                  [Instr.await_, .importDefault 7]]
    (runSched E [0, 1, 2, 1, 0, 2, 1, 1, 0, 2, 1, 1, 0, 2] (init progs)).tasks.map (fun t => (t.finished, t.out))
      = [(true, [1, 107, 2]), (true, [107, 108]), (true, [107])] := by decide

/-! ### the protocol and the shared writes, read from environment.py on every run (Gen/ModuleProtocol.lean) -/

/-- `_get_default_module_async` is the protocol `runProg`/`finishMake` transcribe: test for `None`, await
    `make_module_async()`, assign, return the slot — with no suspension point between the assignment and the return.
    (The `ctx` branch is `importFresh`: a module that is built and returned without touching the slot.) -/
theorem protocol_as_modelled :
    JinjaV.Gen.ModuleProtocol.getDefaultModuleAsync =
      ["if ctx is not None:",
       "    keys = ctx.globals_keys - self.globals.keys()",
       "    if keys:",
       "        return await self.make_module_async({k: ctx._globals[k] for k in keys if k in ctx._globals})",
       "if self._module is None:",
       "    self._module = await self.make_module_async()",
       "return self._module"]
    ∧ JinjaV.Gen.ModuleProtocol.awaitBetweenAssignAndReturn = false := by decide

/-- The model's list of shared state: the only attribute of a Template object assigned after construction is `_module`
    (by the two default-module getters), the only attribute of the Environment assigned on the render path is an entry of
    the template cache, and every render builds its Context from its own arguments. -/
theorem shared_writes_as_modelled :
    JinjaV.Gen.ModuleProtocol.templateSelfWrites = ["_get_default_module:_module", "_get_default_module_async:_module"]
    ∧ JinjaV.Gen.ModuleProtocol.environmentRenderPathSelfWrites = ["_load_template:cache[]"]
    ∧ JinjaV.Gen.ModuleProtocol.rendersCreateFreshContext = true := by decide

/-- Objects that hang off a cached default module — the module, its Macro objects, the Context the module body was
    rendered in — are shared by every render on the environment; the task model treats them as immutable values
    (`Env.make t`).  Over the regenerated table: none of these classes assigns to or mutates in place an attribute of
    `self` after construction, so a call made by one render leaves nothing on the object for another render to read. -/
theorem shared_objects_immutable_after_construction :
    JinjaV.Gen.ModuleProtocol.sharedObjectSelfWrites =
      [("Macro", []), ("Context", []), ("TemplateModule", []), ("TemplateExpression", [])] := by decide

/-- The dictionaries generated code hands to context-aware callables (`Context.call(…, _block_vars=…/_loop_vars=…)`) are
    task-private: compiler.py writes `_block_vars = {}` exactly once, inside every block function (in the loop over the
    blocks, under no condition), `_loop_vars = {}` exactly once, at the head of every loop body (under no condition), and
    the lines it writes at module level of the generated code (shared by every render of the template) are the runtime
    import, extension imports, the template name, the block table and the debug info — no mutable literal. -/
theorem local_vars_are_per_call :
    JinjaV.Gen.ModuleProtocol.localVarsInits =
      [("visit_Template", "_block_vars = {}", ["for (name, block) in self.blocks.items()"]),
       ("visit_For", "_loop_vars = {}", [])]
    ∧ JinjaV.Gen.ModuleProtocol.moduleLevelLinesBeforeRoot =
      ["'from jinja2.runtime import ' + ', '.join(exported_names)",
       "[for] f'from {module} import {obj} as {alias}'",
       "[for] f'import {imp} as {alias}'",
       "f'name = {self.name!r}'",
       "f'blocks = {{{blocks_kv_str}}}'",
       "f'debug_info = {debug_kv_str!r}'"] := by decide

end JinjaV.C37
