/-
  C28 — loaders never read outside their search path; choice/prefix resolution.
-/
import JinjaV.Model.Path
import JinjaV.Model.PathProg
import JinjaV.Gen.SplitPath

namespace JinjaV.C28
open JinjaV.Path

/-- pieces produced by `str.split("/")` contain no slash -/
theorem splitSlash_no_slash (s : Str) : ∀ p ∈ splitSlash s, '/' ∉ p := by
  induction s with
  | nil => simp [splitSlash]
  | cons c cs ih =>
    unfold splitSlash
    by_cases hc : c = '/'
    · simp only [hc, if_true]
      intro p hp
      simp at hp
      rcases hp with rfl | hp
      · simp
      · exact ih p hp
    · simp only [hc, if_false]
      cases h : splitSlash cs with
      | nil => intro p hp; simp at hp; subst hp; simp; exact fun e => hc e.symm
      | cons q qs =>
        intro p hp
        simp at hp
        rcases hp with rfl | hp
        · have := ih q (by rw [h]; simp)
          simp; exact ⟨fun e => hc e.symm, this⟩
        · exact ih p (by rw [h]; simp [hp])

theorem checkPieces_safe (sep : Char) (altsep : Option Char) (pieces ps : List Str)
    (hs : ∀ p ∈ pieces, '/' ∉ p) (h : checkPieces sep altsep pieces = some ps) :
    ∀ p ∈ ps, p ≠ [] ∧ p ≠ dot ∧ p ≠ pardir ∧ '/' ∉ p ∧ sep ∉ p ∧ (∀ a, altsep = some a → a ∉ p) := by
  induction pieces generalizing ps with
  | nil => simp [checkPieces] at h; subst h; simp
  | cons piece rest ih =>
    unfold checkPieces at h
    by_cases hbad : bad sep altsep piece = true
    · simp [hbad] at h
    · simp only [hbad, Bool.false_eq_true, if_false] at h
      have hbad' : bad sep altsep piece = false := by simpa using hbad
      unfold bad at hbad'
      simp only [Bool.or_eq_false_iff] at hbad'
      cases hr : checkPieces sep altsep rest with
      | none => simp [hr] at h
      | some ps' =>
        simp only [hr] at h
        have ihr := ih ps' (fun p hp => hs p (by simp [hp])) hr
        have good : piece ≠ pardir ∧ sep ∉ piece ∧ (∀ a, altsep = some a → a ∉ piece) := by
          refine ⟨?_, ?_, ?_⟩
          · intro e; have := hbad'.2; simp [e] at this
          · intro hm; have := hbad'.1.1; simp at this; exact this hm
          · intro a ha hm; have := hbad'.1.2; simp [hasAlt, ha] at this; exact this hm
        by_cases hkeep : (!piece.isEmpty && piece != dot) = true
        · simp only [hkeep, if_true] at h
          injection h with h; subst h
          intro p hp
          simp at hp
          rcases hp with rfl | hp
          · simp only [Bool.and_eq_true, Bool.not_eq_true', bne_iff_ne, ne_eq] at hkeep
            refine ⟨?_, hkeep.2, good.1, hs p (by simp), good.2.1, good.2.2⟩
            intro e; rw [e] at hkeep; simp at hkeep
          · exact ihr p hp
        · simp only [hkeep, Bool.false_eq_true, if_false] at h
          injection h with h; subst h; exact ihr

/-- **split_safe**: every accepted piece is non-empty, is not `.` or `..`, and contains no
    `/`, no platform separator and no alternative separator -/
theorem split_safe (sep : Char) (altsep : Option Char) (name : Str) (ps : List Str)
    (h : splitTemplatePath sep altsep name = some ps) :
    ∀ p ∈ ps, p ≠ [] ∧ p ≠ dot ∧ p ≠ pardir ∧ '/' ∉ p ∧ sep ∉ p ∧ (∀ a, altsep = some a → a ∉ p) :=
  checkPieces_safe sep altsep _ ps (splitSlash_no_slash name) h

/-- a name with a parent reference is rejected -/
theorem pardir_rejected (sep : Char) (altsep : Option Char) (name : Str)
    (h : pardir ∈ splitSlash name) : splitTemplatePath sep altsep name = none := by
  unfold splitTemplatePath
  generalize splitSlash name = pieces at h
  induction pieces with
  | nil => simp at h
  | cons piece rest ih =>
    unfold checkPieces
    simp at h
    rcases h with rfl | h
    · simp [bad]
    · by_cases hb : bad sep altsep piece = true
      · simp [hb]
      · simp [hb, ih h]

-- joining -------------------------------------------------------------------------------------

theorem splitSlash_ne_nil (s : Str) : splitSlash s ≠ [] := by
  cases s with
  | nil => simp [splitSlash]
  | cons c cs =>
    unfold splitSlash
    split
    · simp
    · split <;> simp

theorem splitSlash_append_slash (a b : Str) :
    splitSlash (a ++ '/' :: b) = splitSlash a ++ splitSlash b := by
  induction a with
  | nil => simp [splitSlash]
  | cons c cs ih =>
    by_cases hc : c = '/'
    · simp [splitSlash, hc, ih]
    · simp only [List.cons_append, splitSlash, hc, if_false, ih]
      cases h : splitSlash cs with
      | nil => exact absurd h (splitSlash_ne_nil cs)
      | cons q qs => simp

theorem splitSlash_no_slash_self (b : Str) (h : '/' ∉ b) : splitSlash b = [b] := by
  induction b with
  | nil => rfl
  | cons c cs ih =>
    simp at h
    have hc : ¬ c = '/' := fun e => h.1 e.symm
    simp [splitSlash, hc, ih h.2]

theorem components_append_slash (a b : Str) (hb : '/' ∉ b) (hne : b ≠ []) :
    components (a ++ '/' :: b) = components a ++ [b] := by
  unfold components
  rw [splitSlash_append_slash, splitSlash_no_slash_self b hb]
  simp [List.filter_append]
  cases b <;> simp_all

theorem components_trailing_slash (a b : Str) (hb : '/' ∉ b) (hne : b ≠ []) (ha : a.getLast? = some '/') :
    components (a ++ b) = components a ++ [b] := by
  obtain ⟨a', rfl⟩ : ∃ a', a = a' ++ ['/'] := by
    have := List.getLast?_eq_some_iff.1 ha
    obtain ⟨ys, h⟩ := this; exact ⟨ys, h⟩
  have e1 : a' ++ ['/'] ++ b = a' ++ '/' :: b := by simp
  have e2 : a' ++ ['/'] = a' ++ '/' :: [] := by simp
  rw [e1, components_append_slash a' b hb hne, e2]
  unfold components
  rw [splitSlash_append_slash]
  simp [List.filter_append, splitSlash]

/-- **join_inside**: joining a search directory with accepted pieces only ever appends
    components; nothing is reset (no piece is absolute) and, with `split_safe`, none of the
    appended components is `..`: the file name stays below the search directory. -/
theorem join_inside (root : Str) (ps : List Str)
    (h : ∀ p ∈ ps, p ≠ [] ∧ '/' ∉ p) :
    components (posixJoin root ps) = components root ++ ps := by
  induction ps generalizing root with
  | nil => simp [posixJoin]
  | cons b rest ih =>
    have hb := h b (by simp)
    have hrest : ∀ p ∈ rest, p ≠ [] ∧ '/' ∉ p := fun p hp => h p (by simp [hp])
    unfold posixJoin
    have hhead : ¬ b.head? = some '/' := by
      intro e
      cases b with
      | nil => simp at e
      | cons c cs => simp at e; subst e; exact hb.2 (by simp)
    simp only [hhead, if_false]
    by_cases hempty : root.isEmpty = true
    · have : root = [] := by simpa using hempty
      subst this
      simp only [List.isEmpty_nil, Bool.true_or, if_true, List.nil_append]
      rw [ih b hrest]
      unfold components
      simp [splitSlash, splitSlash_no_slash_self b hb.2]
      cases b <;> simp_all
    · by_cases hlast : root.getLast? = some '/'
      · simp only [hlast, decide_true, Bool.or_true, if_true]
        rw [ih _ hrest, components_trailing_slash root b hb.2 hb.1 hlast]
        simp
      · have : (root.isEmpty || decide (root.getLast? = some '/')) = false := by simp [hempty, hlast]
        simp only [this, Bool.false_eq_true, if_false]
        rw [ih _ hrest, components_append_slash root b hb.2 hb.1]
        simp

-- choice / prefix -----------------------------------------------------------------------------

/-- **choice_first**: the choice loader answers with the first loader that has the name -/
theorem choice_first (ls : List Loader) (n : Str) (s : Nat) :
    choice ls n = some s ↔ ∃ pre l post, ls = pre ++ l :: post ∧ l n = some s ∧ ∀ l' ∈ pre, l' n = none := by
  induction ls with
  | nil => simp [choice]
  | cons l ls ih =>
    unfold choice
    cases hl : l n with
    | some v =>
      simp only
      constructor
      · intro h; injection h with h; subst h
        exact ⟨[], l, ls, rfl, hl, by simp⟩
      · rintro ⟨pre, l', post, he, hs, hn⟩
        cases pre with
        | nil => simp at he; rw [← he.1] at hs; rw [hl] at hs; exact hs
        | cons p pre' =>
          simp at he
          have := hn p (by simp)
          rw [← he.1, hl] at this; simp at this
    | none =>
      simp only
      rw [ih]
      constructor
      · rintro ⟨pre, l', post, he, hs, hn⟩
        refine ⟨l :: pre, l', post, by simp [he], hs, ?_⟩
        intro x hx; simp at hx; rcases hx with rfl | hx
        · exact hl
        · exact hn x hx
      · rintro ⟨pre, l', post, he, hs, hn⟩
        cases pre with
        | nil => simp at he; rw [← he.1, hl] at hs; simp at hs
        | cons p pre' =>
          simp at he
          exact ⟨pre', l', post, he.2, hs, fun x hx => hn x (by simp [hx])⟩

/-- … and raises TemplateNotFound exactly when no loader has it -/
theorem choice_none_iff (ls : List Loader) (n : Str) : choice ls n = none ↔ ∀ l ∈ ls, l n = none := by
  induction ls with
  | nil => simp [choice]
  | cons l ls ih =>
    unfold choice
    cases hl : l n <;> simp [hl, ih]

/-- `split(delim, 1)` splits at the *first* occurrence -/
theorem splitFirst_spec (delim s p r : Str) (hd : delim ≠ []) (h : splitFirst delim s = some (p, r)) :
    s = p ++ delim ++ r := by
  induction s generalizing p with
  | nil => simp [splitFirst] at h; cases delim <;> simp_all
  | cons c cs ih =>
    unfold splitFirst at h
    split at h
    · rename_i hp
      simp at h
      obtain ⟨rfl, rfl⟩ := h
      have := List.prefix_iff_eq_append.1 (List.isPrefixOf_iff_prefix.1 hp)
      simpa using this.symm
    · cases hr : splitFirst delim cs with
      | none => simp [hr] at h
      | some pr =>
        obtain ⟨p', r'⟩ := pr
        simp [hr] at h
        obtain ⟨rfl, rfl⟩ := h
        have := ih p' hr
        simp [this]

/-- **prefix_dispatch**: a prefix loader answers only through the loader registered for the
    text before the first delimiter, with the remainder as name; unknown prefix or missing
    delimiter is TemplateNotFound -/
theorem prefix_dispatch (mapping : List (Str × Loader)) (delim name : Str) (s : Nat) (hd : delim ≠ [])
    (h : prefixLoad mapping delim name = some s) :
    ∃ p r l, name = p ++ delim ++ r ∧ lookup mapping p = some l ∧ l r = some s := by
  unfold prefixLoad at h
  cases hs : splitFirst delim name with
  | none => simp [hs] at h
  | some pr =>
    obtain ⟨p, r⟩ := pr
    simp only [hs] at h
    cases hl : lookup mapping p with
    | none => simp [hl] at h
    | some l =>
      simp only [hl] at h
      exact ⟨p, r, l, splitFirst_spec delim name p r hd hs, hl, h⟩

-- the whole body of split_template_path as a program read from the source ------------------------
theorem hasDisj_sound (sem : Sem) (sep : Char) (altsep : Option Char) (p : Str) (d c : Cond)
    (h : hasDisj d c = true) (hd : evalCond sem sep altsep p d = true) : evalCond sem sep altsep p c = true := by
  induction c with
  | or a b iha ihb =>
    unfold hasDisj at h
    simp only [Bool.or_eq_true, decide_eq_true_eq] at h
    rcases h with h | h | h
    · subst h; exact hd
    · simp [evalCond, iha h]
    · simp [evalCond, ihb h]
  | _ => unfold hasDisj at h; simp at h; subst h; exact hd

theorem hasConj_sound (sem : Sem) (sep : Char) (altsep : Option Char) (p : Str) (d c : Cond)
    (h : hasConj d c = true) (hc : evalCond sem sep altsep p c = true) : evalCond sem sep altsep p d = true := by
  induction c with
  | and a b iha ihb =>
    unfold hasConj at h
    simp only [Bool.or_eq_true, decide_eq_true_eq] at h
    simp only [evalCond, Bool.and_eq_true] at hc
    rcases h with h | h | h
    · subst h; simp [evalCond, hc]
    · exact iha h hc.1
    · exact ihb h hc.2
  | _ => unfold hasConj at h; simp at h; subst h; exact hc

theorem runPieces_safe (sem : Sem) (g : SplitProg) (hg : safeProg g = true) (sep : Char) (altsep : Option Char)
    (pieces ps : List Str) (h : runPieces sem g sep altsep pieces = some ps) :
    ∀ p ∈ ps, (∃ raw ∈ pieces, p = evalEx sem g.store raw) ∧ SafePiece sep altsep p := by
  unfold safeProg at hg
  simp only [Bool.and_eq_true] at hg
  obtain ⟨⟨⟨⟨hsep, halt⟩, hpar⟩, hne⟩, hdot⟩ := hg
  induction pieces generalizing ps with
  | nil => simp [runPieces] at h; subst h; simp
  | cons piece rest ih =>
    unfold runPieces at h
    by_cases hrej : evalCond sem sep altsep piece g.reject = true
    · simp [hrej] at h
    · simp only [hrej, Bool.false_eq_true, if_false] at h
      cases hr : runPieces sem g sep altsep rest with
      | none => simp [hr] at h
      | some ps' =>
        simp only [hr] at h
        have ihr := ih ps' hr
        have tail : ∀ p ∈ ps', (∃ raw ∈ piece :: rest, p = evalEx sem g.store raw) ∧ SafePiece sep altsep p := by
          intro p hp
          obtain ⟨⟨raw, hraw, he⟩, hs⟩ := ihr p hp
          exact ⟨⟨raw, by simp [hraw], he⟩, hs⟩
        by_cases hkeep : evalCond sem sep altsep piece g.keep = true
        · simp only [hkeep, if_true] at h
          injection h with h; subst h
          intro p hp
          simp only [List.mem_cons] at hp
          rcases hp with rfl | hp
          · refine ⟨⟨piece, by simp, rfl⟩, ?_⟩
            have k1 := hasConj_sound sem sep altsep piece _ _ hne hkeep
            have k2 := hasConj_sound sem sep altsep piece _ _ hdot hkeep
            have r1 : evalCond sem sep altsep piece (.sepIn g.store) ≠ true :=
              fun e => hrej (hasDisj_sound sem sep altsep piece _ _ hsep e)
            have r2 : evalCond sem sep altsep piece (.altIn g.store) ≠ true :=
              fun e => hrej (hasDisj_sound sem sep altsep piece _ _ halt e)
            have r3 : evalCond sem sep altsep piece (.eqLit g.store pardir) ≠ true :=
              fun e => hrej (hasDisj_sound sem sep altsep piece _ _ hpar e)
            simp only [evalCond] at k1 k2 r1 r2 r3
            refine ⟨?_, ?_, ?_, ?_, ?_⟩
            · intro e; rw [e] at k1; simp at k1
            · intro e; rw [e] at k2; simp at k2
            · intro e; rw [e] at r3; simp at r3
            · intro hm; apply r1; simpa using hm
            · intro a ha hm; apply r2; simp [hasAlt, ha]; exact hm
          · exact tail p hp
        · simp only [hkeep, Bool.false_eq_true, if_false] at h
          injection h with h; subst h; exact tail

/-- **prog_split_safe**: for EVERY program of the shape `split_template_path` has, every interpretation of the
    `str → str` functions it applies, every `os.sep`/`os.path.altsep` and every name: if the stored expression is the
    one the refusing and the keeping branch test (`safeProg`), every returned piece is non-empty, is not `.` or `..`,
    and contains neither separator. -/
theorem prog_split_safe (sem : Sem) (g : SplitProg) (hg : safeProg g = true) (sep : Char) (altsep : Option Char)
    (name : Str) (ps : List Str) (h : runProg sem g sep altsep name = some ps) :
    ∀ p ∈ ps, SafePiece sep altsep p :=
  fun p hp => (runPieces_safe sem g hg sep altsep _ ps h p hp).2

/-- … and contains no `/`: because it is an untransformed piece of `split("/")`, or because `/` is one of the
    separators that are refused (true on every platform: `os.sep` or `os.path.altsep` is `/`). -/
theorem prog_split_no_slash (sem : Sem) (g : SplitProg) (hg : safeProg g = true) (sep : Char) (altsep : Option Char)
    (name : Str) (ps : List Str) (h : runProg sem g sep altsep name = some ps)
    (hs : g.store = [] ∨ sep = '/' ∨ altsep = some '/') :
    ∀ p ∈ ps, '/' ∉ p := by
  intro p hp
  obtain ⟨⟨raw, hraw, he⟩, hsafe⟩ := runPieces_safe sem g hg sep altsep _ ps h p hp
  rcases hs with hs | hs | hs
  · rw [hs] at he
    simp only [evalEx, List.foldl_nil] at he
    subst he
    exact splitSlash_no_slash name p hraw
  · subst hs; exact hsafe.2.2.2.1
  · exact hsafe.2.2.2.2 '/' hs

/-- the interpreter on the reference program is the hand model (so the program semantics is the one the
    correspondence run ties to the real function) -/
theorem refProg_is_model (sem : Sem) (sep : Char) (altsep : Option Char) (name : Str) :
    runProg sem refProg sep altsep name = splitTemplatePath sep altsep name := by
  unfold runProg splitTemplatePath
  generalize splitSlash name = pieces
  induction pieces with
  | nil => rfl
  | cons piece rest ih =>
    have e1 : evalCond sem sep altsep piece refProg.reject = bad sep altsep piece := by
      simp [refProg, evalCond, evalEx, bad, Bool.or_assoc]
    have e2 : evalCond sem sep altsep piece refProg.keep = (!piece.isEmpty && piece != dot) := by
      simp [refProg, evalCond, evalEx, bne]
    have e3 : evalEx sem refProg.store piece = piece := rfl
    unfold runPieces checkPieces
    rw [ih, e1, e2, e3]
    by_cases hb : bad sep altsep piece = true
    · simp [hb]
    · simp only [hb, Bool.false_eq_true, if_false]
      cases checkPieces sep altsep rest <;> rfl

-- over the program READ from loaders.py ----------------------------------------------------------

/-- **gen_prog_safe**: the body of `split_template_path` as read from the source stores exactly the value it tested -/
theorem gen_prog_safe : safeProg Gen.SplitPath.prog = true := by decide

/-- **gen_split_safe**: the function as read from the source, for every name, every interpretation of the functions
    it applies and any separators with `/` among them, returns only pieces that are non-empty, not `.`, not `..`,
    free of `/`, `os.sep` and `os.path.altsep` -/
theorem gen_split_safe (sem : Sem) (sep : Char) (altsep : Option Char) (name : Str) (ps : List Str)
    (hs : sep = '/' ∨ altsep = some '/')
    (h : runProg sem Gen.SplitPath.prog sep altsep name = some ps) :
    ∀ p ∈ ps, SafePiece sep altsep p ∧ '/' ∉ p :=
  fun p hp => ⟨prog_split_safe sem _ gen_prog_safe sep altsep name ps h p hp,
    prog_split_no_slash sem _ gen_prog_safe sep altsep name ps h (Or.inr hs) p hp⟩

/-- **gen_split_join_inside**: joining any search directory with what the function (as read from the source) returns
    appends exactly the returned pieces as path components — none is `..`, none is absolute, none hides a separator —
    so the joined path stays below the search directory -/
theorem gen_split_join_inside (sem : Sem) (sep : Char) (altsep : Option Char) (root name : Str) (ps : List Str)
    (hs : sep = '/' ∨ altsep = some '/')
    (h : runProg sem Gen.SplitPath.prog sep altsep name = some ps) :
    components (posixJoin root ps) = components root ++ ps ∧ pardir ∉ ps ∧ dot ∉ ps := by
  have hall := gen_split_safe sem sep altsep name ps hs h
  refine ⟨join_inside root ps (fun p hp => ⟨(hall p hp).1.1, (hall p hp).2⟩), ?_, ?_⟩
  · intro hm; exact (hall _ hm).1.2.2.1 rfl
  · intro hm; exact (hall _ hm).1.2.1 rfl

/-- a transformation after the test is not safe in general: an interpretation exists under which the program of the
    shape `append(f(piece))` returns `..` (why `safeProg` has to fail for such a program) -/
theorem post_transform_can_escape : ∃ sem : Sem,
    runProg sem { refProg with store := [{ fn := "f", args := [] }] } '/' none ['x'] = some [pardir] ∧
    safeProg { refProg with store := [{ fn := "f", args := [] }] } = false := by
  refine ⟨fun _ _ _ => pardir, ?_, ?_⟩ <;> decide

-- non-vacuity
example : runProg semId Gen.SplitPath.prog '/' none "a/./b.html//c".toList = some ["a".toList, "b.html".toList, "c".toList] ∧
    runProg semId Gen.SplitPath.prog '/' none "a/../x".toList = none ∧
    runProg semId Gen.SplitPath.prog '\\' (some '/') "a\\b".toList = none := by decide


-- non-vacuity
example : splitTemplatePath '/' none "a/./b.html//c".toList = some ["a".toList, "b.html".toList, "c".toList] ∧
    splitTemplatePath '/' none "a/../x".toList = none ∧
    splitTemplatePath '\\' (some '/') "a\\b".toList = none ∧
    posixJoin "/srv/t".toList ["a".toList, "b".toList] = "/srv/t/a/b".toList := by decide

end JinjaV.C28
