/-
  C28 — loaders never read outside their search path; choice/prefix resolution.
-/
import JinjaV.Model.Path

namespace JinjaV.C28
open JinjaV.Path

/-- pieces produced by `str.split("/")` contain no slash -/
theorem splitSlash_no_slash (s : Str) : ∀ p ∈ splitSlash s, '/' ∉ p := by
  induction s with
  | nil => simp [splitSlash]
  | cons c cs ih =>
    unfold splitSlash
    by_cases hc : c = '/'
    · simp only [hc, if_true]
      intro p hp
      simp at hp
      rcases hp with rfl | hp
      · simp
      · exact ih p hp
    · simp only [hc, if_false]
      cases h : splitSlash cs with
      | nil => intro p hp; simp at hp; subst hp; simp; exact fun e => hc e.symm
      | cons q qs =>
        intro p hp
        simp at hp
        rcases hp with rfl | hp
        · have := ih q (by rw [h]; simp)
          simp; exact ⟨fun e => hc e.symm, this⟩
        · exact ih p (by rw [h]; simp [hp])

theorem checkPieces_safe (sep : Char) (altsep : Option Char) (pieces ps : List Str)
    (hs : ∀ p ∈ pieces, '/' ∉ p) (h : checkPieces sep altsep pieces = some ps) :
    ∀ p ∈ ps, p ≠ [] ∧ p ≠ dot ∧ p ≠ pardir ∧ '/' ∉ p ∧ sep ∉ p ∧ (∀ a, altsep = some a → a ∉ p) := by
  induction pieces generalizing ps with
  | nil => simp [checkPieces] at h; subst h; simp
  | cons piece rest ih =>
    unfold checkPieces at h
    by_cases hbad : bad sep altsep piece = true
    · simp [hbad] at h
    · simp only [hbad, Bool.false_eq_true, if_false] at h
      have hbad' : bad sep altsep piece = false := by simpa using hbad
      unfold bad at hbad'
      simp only [Bool.or_eq_false_iff] at hbad'
      cases hr : checkPieces sep altsep rest with
      | none => simp [hr] at h
      | some ps' =>
        simp only [hr] at h
        have ihr := ih ps' (fun p hp => hs p (by simp [hp])) hr
        have good : piece ≠ pardir ∧ sep ∉ piece ∧ (∀ a, altsep = some a → a ∉ piece) := by
          refine ⟨?_, ?_, ?_⟩
          · intro e; have := hbad'.2; simp [e] at this
          · intro hm; have := hbad'.1.1; simp at this; exact this hm
          · intro a ha hm; have := hbad'.1.2; simp [hasAlt, ha] at this; exact this hm
        by_cases hkeep : (!piece.isEmpty && piece != dot) = true
        · simp only [hkeep, if_true] at h
          injection h with h; subst h
          intro p hp
          simp at hp
          rcases hp with rfl | hp
          · simp only [Bool.and_eq_true, Bool.not_eq_true', bne_iff_ne, ne_eq] at hkeep
            refine ⟨?_, hkeep.2, good.1, hs p (by simp), good.2.1, good.2.2⟩
            intro e; rw [e] at hkeep; simp at hkeep
          · exact ihr p hp
        · simp only [hkeep, Bool.false_eq_true, if_false] at h
          injection h with h; subst h; exact ihr

/-- **split_safe**: every accepted piece is non-empty, is not `.` or `..`, and contains no
    `/`, no platform separator and no alternative separator -/
theorem split_safe (sep : Char) (altsep : Option Char) (name : Str) (ps : List Str)
    (h : splitTemplatePath sep altsep name = some ps) :
    ∀ p ∈ ps, p ≠ [] ∧ p ≠ dot ∧ p ≠ pardir ∧ '/' ∉ p ∧ sep ∉ p ∧ (∀ a, altsep = some a → a ∉ p) :=
  checkPieces_safe sep altsep _ ps (splitSlash_no_slash name) h

/-- a name with a parent reference is rejected -/
theorem pardir_rejected (sep : Char) (altsep : Option Char) (name : Str)
    (h : pardir ∈ splitSlash name) : splitTemplatePath sep altsep name = none := by
  unfold splitTemplatePath
  generalize splitSlash name = pieces at h
  induction pieces with
  | nil => simp at h
  | cons piece rest ih =>
    unfold checkPieces
    simp at h
    rcases h with rfl | h
    · simp [bad]
    · by_cases hb : bad sep altsep piece = true
      · simp [hb]
      · simp [hb, ih h]

-- joining -------------------------------------------------------------------------------------

theorem splitSlash_ne_nil (s : Str) : splitSlash s ≠ [] := by
  cases s with
  | nil => simp [splitSlash]
  | cons c cs =>
    unfold splitSlash
    split
    · simp
    · split <;> simp

theorem splitSlash_append_slash (a b : Str) :
    splitSlash (a ++ '/' :: b) = splitSlash a ++ splitSlash b := by
  induction a with
  | nil => simp [splitSlash]
  | cons c cs ih =>
    by_cases hc : c = '/'
    · simp [splitSlash, hc, ih]
    · simp only [List.cons_append, splitSlash, hc, if_false, ih]
      cases h : splitSlash cs with
      | nil => exact absurd h (splitSlash_ne_nil cs)
      | cons q qs => simp

theorem splitSlash_no_slash_self (b : Str) (h : '/' ∉ b) : splitSlash b = [b] := by
  induction b with
  | nil => rfl
  | cons c cs ih =>
    simp at h
    have hc : ¬ c = '/' := fun e => h.1 e.symm
    simp [splitSlash, hc, ih h.2]

theorem components_append_slash (a b : Str) (hb : '/' ∉ b) (hne : b ≠ []) :
    components (a ++ '/' :: b) = components a ++ [b] := by
  unfold components
  rw [splitSlash_append_slash, splitSlash_no_slash_self b hb]
  simp [List.filter_append]
  cases b <;> simp_all

theorem components_trailing_slash (a b : Str) (hb : '/' ∉ b) (hne : b ≠ []) (ha : a.getLast? = some '/') :
    components (a ++ b) = components a ++ [b] := by
  obtain ⟨a', rfl⟩ : ∃ a', a = a' ++ ['/'] := by
    have := List.getLast?_eq_some_iff.1 ha
    obtain ⟨ys, h⟩ := this; exact ⟨ys, h⟩
  have e1 : a' ++ ['/'] ++ b = a' ++ '/' :: b := by simp
  have e2 : a' ++ ['/'] = a' ++ '/' :: [] := by simp
  rw [e1, components_append_slash a' b hb hne, e2]
  unfold components
  rw [splitSlash_append_slash]
  simp [List.filter_append, splitSlash]

/-- **join_inside**: joining a search directory with accepted pieces only ever appends
    components; nothing is reset (no piece is absolute) and, with `split_safe`, none of the
    appended components is `..`: the file name stays below the search directory. -/
theorem join_inside (root : Str) (ps : List Str)
    (h : ∀ p ∈ ps, p ≠ [] ∧ '/' ∉ p) :
    components (posixJoin root ps) = components root ++ ps := by
  induction ps generalizing root with
  | nil => simp [posixJoin]
  | cons b rest ih =>
    have hb := h b (by simp)
    have hrest : ∀ p ∈ rest, p ≠ [] ∧ '/' ∉ p := fun p hp => h p (by simp [hp])
    unfold posixJoin
    have hhead : ¬ b.head? = some '/' := by
      intro e
      cases b with
      | nil => simp at e
      | cons c cs => simp at e; subst e; exact hb.2 (by simp)
    simp only [hhead, if_false]
    by_cases hempty : root.isEmpty = true
    · have : root = [] := by simpa using hempty
      subst this
      simp only [List.isEmpty_nil, Bool.true_or, if_true, List.nil_append]
      rw [ih b hrest]
      unfold components
      simp [splitSlash, splitSlash_no_slash_self b hb.2]
      cases b <;> simp_all
    · by_cases hlast : root.getLast? = some '/'
      · simp only [hlast, decide_true, Bool.or_true, if_true]
        rw [ih _ hrest, components_trailing_slash root b hb.2 hb.1 hlast]
        simp
      · have : (root.isEmpty || decide (root.getLast? = some '/')) = false := by simp [hempty, hlast]
        simp only [this, Bool.false_eq_true, if_false]
        rw [ih _ hrest, components_append_slash root b hb.2 hb.1]
        simp

-- choice / prefix -----------------------------------------------------------------------------

/-- **choice_first**: the choice loader answers with the first loader that has the name -/
theorem choice_first (ls : List Loader) (n : Str) (s : Nat) :
    choice ls n = some s ↔ ∃ pre l post, ls = pre ++ l :: post ∧ l n = some s ∧ ∀ l' ∈ pre, l' n = none := by
  induction ls with
  | nil => simp [choice]
  | cons l ls ih =>
    unfold choice
    cases hl : l n with
    | some v =>
      simp only
      constructor
      · intro h; injection h with h; subst h
        exact ⟨[], l, ls, rfl, hl, by simp⟩
      · rintro ⟨pre, l', post, he, hs, hn⟩
        cases pre with
        | nil => simp at he; rw [← he.1] at hs; rw [hl] at hs; exact hs
        | cons p pre' =>
          simp at he
          have := hn p (by simp)
          rw [← he.1, hl] at this; simp at this
    | none =>
      simp only
      rw [ih]
      constructor
      · rintro ⟨pre, l', post, he, hs, hn⟩
        refine ⟨l :: pre, l', post, by simp [he], hs, ?_⟩
        intro x hx; simp at hx; rcases hx with rfl | hx
        · exact hl
        · exact hn x hx
      · rintro ⟨pre, l', post, he, hs, hn⟩
        cases pre with
        | nil => simp at he; rw [← he.1, hl] at hs; simp at hs
        | cons p pre' =>
          simp at he
          exact ⟨pre', l', post, he.2, hs, fun x hx => hn x (by simp [hx])⟩

/-- … and raises TemplateNotFound exactly when no loader has it -/
theorem choice_none_iff (ls : List Loader) (n : Str) : choice ls n = none ↔ ∀ l ∈ ls, l n = none := by
  induction ls with
  | nil => simp [choice]
  | cons l ls ih =>
    unfold choice
    cases hl : l n <;> simp [hl, ih]

/-- `split(delim, 1)` splits at the *first* occurrence -/
theorem splitFirst_spec (delim s p r : Str) (hd : delim ≠ []) (h : splitFirst delim s = some (p, r)) :
    s = p ++ delim ++ r := by
  induction s generalizing p with
  | nil => simp [splitFirst] at h; cases delim <;> simp_all
  | cons c cs ih =>
    unfold splitFirst at h
    split at h
    · rename_i hp
      simp at h
      obtain ⟨rfl, rfl⟩ := h
      have := List.prefix_iff_eq_append.1 (List.isPrefixOf_iff_prefix.1 hp)
      simpa using this.symm
    · cases hr : splitFirst delim cs with
      | none => simp [hr] at h
      | some pr =>
        obtain ⟨p', r'⟩ := pr
        simp [hr] at h
        obtain ⟨rfl, rfl⟩ := h
        have := ih p' hr
        simp [this]

/-- **prefix_dispatch**: a prefix loader answers only through the loader registered for the
    text before the first delimiter, with the remainder as name; unknown prefix or missing
    delimiter is TemplateNotFound -/
theorem prefix_dispatch (mapping : List (Str × Loader)) (delim name : Str) (s : Nat) (hd : delim ≠ [])
    (h : prefixLoad mapping delim name = some s) :
    ∃ p r l, name = p ++ delim ++ r ∧ lookup mapping p = some l ∧ l r = some s := by
  unfold prefixLoad at h
  cases hs : splitFirst delim name with
  | none => simp [hs] at h
  | some pr =>
    obtain ⟨p, r⟩ := pr
    simp only [hs] at h
    cases hl : lookup mapping p with
    | none => simp [hl] at h
    | some l =>
      simp only [hl] at h
      exact ⟨p, r, l, splitFirst_spec delim name p r hd hs, hl, h⟩

-- non-vacuity
example : splitTemplatePath '/' none "a/./b.html//c".toList = some ["a".toList, "b.html".toList, "c".toList] ∧
    splitTemplatePath '/' none "a/../x".toList = none ∧
    splitTemplatePath '\\' (some '/') "a\\b".toList = none ∧
    posixJoin "/srv/t".toList ["a".toList, "b".toList] = "/srv/t/a/b".toList := by decide

end JinjaV.C28
