/-
  C21 — the operation table of every undefined type, performed THROUGH THE ENGINE.

  `UndefinedEngine.run` composes the class table READ from runtime.py (Gen/UndefinedTable) with the engine
  functions that sit between a template operator and the special method (Environment.getitem / getattr, the
  sandbox's, do_attr, do_int, do_float, test_iterable, Context.call), whose `except` tuples, and the exception
  class hierarchy they are interpreted over, are READ from the source on every run (Gen/ExceptionClasses).
  `runSpec` is the documented behaviour.  A change of a handler tuple, of a base class of UndefinedError, or of
  the class table that lets an operation on an undefined value stop raising (or raise about the wrong thing)
  changes the Gen data and breaks these proofs.
-/
import JinjaV.Model.UndefinedEngine
import JinjaV.Spec.ExceptionHierarchy

namespace JinjaV.C21Engine
open JinjaV.SpecUndefined JinjaV.UndefinedOps JinjaV.UndefinedEngine JinjaV.SpecExceptionHierarchy
open JinjaV.Gen.ExceptionClasses (classes builtinClasses sites caughtBuiltins undefinedException)

/-! ### the exception class hierarchy -/

/-- the depth bound of `ancestors` is enough: one more level of base classes adds no class -/
theorem hierarchy_closed :
    ∀ c ∈ classes.map (·.1) ++ builtinClasses.map (·.1),
      sameSet (ancestorsFuel depth c) (ancestorsFuel (depth + 1) c) = true := by decide +kernel

/-- exceptions.py defines exactly the documented classes -/
theorem exception_classes_listed : classes.map (·.1) = jinjaExceptions := by decide +kernel

/-- every exception class is an instance of exactly the documented classes (as the source stands today):
    TemplateNotFound / TemplatesNotFound are LookupErrors and IOErrors, nothing else is; UndefinedError,
    SecurityError, FilterArgumentError are TemplateRuntimeErrors and nothing builtin below Exception -/
theorem exception_hierarchy_pinned :
    ∀ p ∈ documentedAncestors, sameSet (ancestors p.1) p.2 = true := by decide +kernel

/-- what an undefined value raises is UndefinedError, and no `except` clause anywhere in src/jinja2 that names a
    builtin class other than Exception / BaseException catches it (LookupError, KeyError, IndexError, AttributeError,
    TypeError, ValueError, OverflowError, StopIteration, OSError, …) -/
theorem undefinedError_escapes_builtin_handlers :
    undefinedException = "UndefinedError" ∧
    ∀ b ∈ caughtBuiltins, b ≠ "Exception" → b ≠ "BaseException" → isSubclass undefinedException b = false := by
  decide +kernel

theorem templateNotFound_is_lookup_and_io :
    isSubclass "TemplateNotFound" "LookupError" = true ∧ isSubclass "TemplateNotFound" IOError = true ∧
    isSubclass "TemplatesNotFound" "LookupError" = true ∧ isSubclass "TemplatesNotFound" IOError = true ∧
    isSubclass "TemplatesNotFound" "TemplateNotFound" = true ∧
    isSubclass "TemplateAssertionError" "TemplateSyntaxError" = true := by decide +kernel

/-! ### the guards of the engine -/

/-- the guarded engine functions are the transcribed ones, each with its number of `except` clauses -/
theorem sites_present : sites.map (fun s => (s.1, s.2.length)) = guardedSites := by decide +kernel

/-- no guard of those functions catches the exception of an undefined value, and `hasattr` does not swallow it -/
theorem engine_guards_transparent :
    (∀ s ∈ sites, ∀ h ∈ s.2, catches h undefinedException = false) ∧ probeSwallowsUE = false := by
  decide +kernel

/-! ### every template operation -/

def allEnvs : List EnvKind := [.plain, .sandbox]
def allVals : List Val := [.orig, .fresh]

theorem allEnvs_complete (e : EnvKind) : e ∈ allEnvs := by cases e <;> decide
theorem allAccs_complete (a : Acc) : a ∈ allAccs := by cases a <;> decide
theorem allVals_complete (v : Val) : v ∈ allVals := by cases v <;> decide
theorem allBinOps_complete (o : BinOp) : o ∈ allBinOps := by cases o <;> decide
theorem allFinals_complete (f : Final) : f ∈ allFinals := by
  cases f with
  | bin o r => cases o <;> cases r <;> decide
  | _ => decide

/-- one access step (attribute, string key, any other key, slice, `|attr`) on an undefined value, in a plain and in a
    sandboxed environment, does what the documentation says: the value itself for a chainable undefined, UndefinedError
    (from the value, so naming what is missing) for every other type — never a new undefined -/
theorem step_eq_spec :
    ∀ e ∈ allEnvs, ∀ k ∈ allKinds, ∀ a ∈ allAccs, step outcome srcGuards e k a = stepSpec k := by
  decide +kernel

/-- every final operation of the table gives the documented text or raises, with the table and guards of the source
    as with the documented table and an engine that lets the error through -/
theorem final_eq_spec :
    ∀ e ∈ allEnvs, ∀ isAsync ∈ [false, true], ∀ k ∈ allKinds, ∀ v ∈ allVals, ∀ f ∈ allFinals,
      final outcome srcGuards e isAsync k v f = final spec transparent e isAsync k v f := by
  decide +kernel

/-- **every expression**: any chain of accesses of any length followed by any final operation, on an undefined value
    of any of the 8 types, sync and async, plain and sandboxed, evaluates as documented -/
theorem engine_eq_spec (e : EnvKind) (isAsync : Bool) (k : Kind) (hk : k ∈ allKinds) (accs : List Acc) (f : Final) :
    run e isAsync k accs f = runSpec e isAsync k accs f := by
  have hfin : ∀ v, final outcome srcGuards e isAsync k v f = final spec transparent e isAsync k v f := fun v =>
    final_eq_spec e (allEnvs_complete e) isAsync (by cases isAsync <;> decide) k hk v (allVals_complete v) f
      (allFinals_complete f)
  have hstep : ∀ a, step outcome srcGuards e k a = stepSpec k := fun a =>
    step_eq_spec e (allEnvs_complete e) k hk a (allAccs_complete a)
  unfold run runSpec
  cases accs with
  | nil => simp [runFrom, hfin]
  | cons a rest =>
    by_cases hc : chainable k = true
    · -- chainable: every step gives the same value back
      have hsame : ∀ (l : List Acc), runFrom outcome srcGuards e isAsync k .orig l f
          = final outcome srcGuards e isAsync k .orig f := by
        intro l
        induction l with
        | nil => simp [runFrom]
        | cons b l ih => simp [runFrom, hstep b, stepSpec, hc, ih]
      simp [hsame, hfin, hc]
    · have hc' : chainable k = false := by simpa using hc
      simp [runFrom, hstep a, stepSpec, hc']

/-- a raise never blames a new undefined made by the engine, and no text is rendered from one: whenever an operation
    on an undefined value fails, the message is the one of the original undefined (it names the missing variable,
    attribute or item) -/
theorem engine_error_names_origin (e : EnvKind) (isAsync : Bool) (k : Kind) (hk : k ∈ allKinds) (accs : List Acc)
    (f : Final) :
    run e isAsync k accs f ≠ .raises false ∧ ∀ ps, run e isAsync k accs f ≠ .text ps false := by
  have hspec : ∀ e ∈ allEnvs, ∀ isAsync ∈ [false, true], ∀ k ∈ allKinds, ∀ f ∈ allFinals,
      (match final spec transparent e isAsync k .orig f with
       | .raises b => b | .text _ b => b | .oom => true) = true := by decide +kernel
  have h := hspec e (allEnvs_complete e) isAsync (by cases isAsync <;> decide) k hk f (allFinals_complete f)
  rw [engine_eq_spec e isAsync k hk accs f]
  unfold runSpec
  split
  · constructor
    · intro hh; rw [hh] at h; simp at h
    · intro ps hh; rw [hh] at h; simp at h
  · constructor
    · intro hh; cases hh
    · intro ps hh; cases hh

/-- nothing of the explored space is outside the model -/
theorem engine_total (e : EnvKind) (isAsync : Bool) (k : Kind) (hk : k ∈ allKinds) (accs : List Acc) (f : Final) :
    run e isAsync k accs f ≠ .oom := by
  have hspec : ∀ e ∈ allEnvs, ∀ isAsync ∈ [false, true], ∀ k ∈ allKinds, ∀ f ∈ allFinals,
      final spec transparent e isAsync k .orig f ≠ .oom := by decide +kernel
  rw [engine_eq_spec e isAsync k hk accs f]
  unfold runSpec
  split
  · exact hspec e (allEnvs_complete e) isAsync (by cases isAsync <;> decide) k hk f (allFinals_complete f)
  · intro hh; cases hh

-- non-vacuity: the statements distinguish the types and the operations
example : run .plain false .default [.itemOther] .isDefined = .raises true ∧
    run .sandbox true (.logging .chainable) [.itemOther, .attr, .slice] .isDefined = .text [.lit "False"] true ∧
    run .plain false .debug [] .concat = .text [.lit "[", .dbg, .lit "a]"] true ∧
    run .plain true .strict [] .forLoop = .raises true ∧
    run .sandbox false .default [] .intF = .raises true ∧
    run .plain false .default [] .hashKey = .text [.lit "1"] true := by decide +kernel

-- what the guards protect against: were UndefinedError caught by Environment.getitem's first handler, a non-string
-- subscript of a default undefined would quietly give a new undefined
example : runFrom outcome { ue := fun s i => s == "Environment.getitem" && i == 0, probe := false }
    .plain false .default .orig [.itemOther] .isDefined = .text [.lit "False"] false := by decide +kernel

end JinjaV.C21Engine
