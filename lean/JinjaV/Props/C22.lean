/-
  C22 — collection filters meet their contracts (for all input lists and arguments).
-/
import JinjaV.Model.FiltColl

namespace JinjaV.C22
open JinjaV.FiltColl
open List

variable {α κ : Type}

-- slice ---------------------------------------------------------------------------------------

theorem segments_flatten (xs : List α) (b : Nat → Nat) (hmono : ∀ k, b k ≤ b (k + 1)) (n : Nat) (h0 : b 0 = 0) :
    ((List.range n).map (fun k => (xs.drop (b k)).take (b (k + 1) - b k))).flatten = xs.take (b n) := by
  induction n with
  | zero => simp [h0]
  | succ n ih =>
    rw [List.range_succ, List.map_append, List.flatten_append, ih]
    simp only [List.map_cons, List.map_nil, List.flatten_cons, List.flatten_nil, List.append_nil]
    have : b (n + 1) = b n + (b (n + 1) - b n) := by have := hmono n; omega
    conv => rhs; rw [this, List.take_add]

def bound (len n k : Nat) : Nat := min k (len % n) + k * (len / n)

theorem bound_mono (len n k : Nat) : bound len n k ≤ bound len n (k + 1) := by
  unfold bound
  have : k * (len / n) ≤ (k + 1) * (len / n) := Nat.mul_le_mul_right _ (by omega)
  omega

theorem bound_n (len n : Nat) (hn : 0 < n) : bound len n n = len := by
  unfold bound
  have h1 : len % n < n := Nat.mod_lt _ hn
  have h2 := Nat.div_add_mod len n
  rw [Nat.min_eq_right (by omega)]
  omega

theorem bound_le (len n j k : Nat) (h : j ≤ k) : bound len n j ≤ bound len n k := by
  induction k with
  | zero => have : j = 0 := by omega
            subst this; exact Nat.le_refl _
  | succ k ih =>
    by_cases hj : j = k + 1
    · subst hj; exact Nat.le_refl _
    · exact Nat.le_trans (ih (by omega)) (bound_mono _ _ _)

/-- **slice (partition)**: without fill value the `n` slices concatenate to the input, in order -/
theorem slice_flatten (xs : List α) (n : Nat) (hn : 0 < n) :
    (sliceF xs n none).flatten = xs := by
  unfold sliceF
  have := segments_flatten xs (bound xs.length n) (bound_mono xs.length n) n (by simp [bound])
  simp only [bound] at this
  simp only
  rw [this]
  have hb := bound_n xs.length n hn
  simp only [bound] at hb
  rw [hb, List.take_length]

theorem slice_count (xs : List α) (n : Nat) (fill : Option α) : (sliceF xs n fill).length = n := by
  simp [sliceF]

/-- **slice (sizes)**: slice `k` holds ⌊len/n⌋ items, plus one for the first `len mod n` slices -/
theorem slice_sizes (xs : List α) (n k : Nat) (hn : 0 < n) (hk : k < n) :
    ((sliceF xs n none)[k]?.map List.length) =
      some (xs.length / n + (if k < xs.length % n then 1 else 0)) := by
  unfold sliceF
  simp only [List.getElem?_map, List.getElem?_range hk, Option.map_some]
  congr 1
  rw [List.length_take, List.length_drop]
  have hle : bound xs.length n (k + 1) ≤ xs.length := by
    have h1 := bound_n xs.length n hn
    have h2 := bound_le xs.length n (k + 1) n (by omega)
    omega
  simp only [bound] at hle
  have hm : (k + 1) * (xs.length / n) = k * (xs.length / n) + xs.length / n := by
    rw [Nat.add_mul]; simp
  rw [hm] at hle ⊢
  generalize k * (xs.length / n) = A at *
  generalize xs.length / n = q at *
  generalize xs.length % n = r at *
  split <;> omega

/-- **slice (fill)**: the fill value is appended exactly to the slices that are one item short,
    and to none when the input divides evenly -/
theorem slice_fill (xs : List α) (n k : Nat) (f : α) (hk : k < n) :
    (sliceF xs n (some f))[k]? =
      (sliceF xs n none)[k]?.map (fun s => if xs.length % n ≠ 0 ∧ k ≥ xs.length % n then s ++ [f] else s) := by
  unfold sliceF
  simp only [List.getElem?_map, List.getElem?_range hk, Option.map_some]

-- batch ---------------------------------------------------------------------------------------

theorem batchAux_flatten (n : Nat) (xs tmp : List α) :
    (batchAux n none xs tmp).flatten = tmp ++ xs := by
  induction xs generalizing tmp with
  | nil => unfold batchAux; cases tmp <;> simp
  | cons x xs ih =>
    unfold batchAux
    split
    · simp [ih]
    · rw [ih]; simp

/-- **batch (partition)**: without fill value the batches concatenate to the input, in order -/
theorem batch_flatten (xs : List α) (n : Nat) : (batchF xs n none).flatten = xs := by
  simp [batchF, batchAux_flatten]

theorem batchAux_sizes (n : Nat) (hn : 0 < n) (fill : Option α) (xs tmp : List α) (ht : tmp.length ≤ n) :
    (∀ g ∈ (batchAux n fill xs tmp).dropLast, g.length = n) ∧
    (∀ g ∈ batchAux n fill xs tmp, 1 ≤ g.length ∧ g.length ≤ n) ∧
    (fill.isSome → ∀ g ∈ batchAux n fill xs tmp, g.length = n) := by
  induction xs generalizing tmp with
  | nil =>
    unfold batchAux
    cases htmp : tmp.isEmpty
    · have hne : tmp ≠ [] := by intro e; simp [e] at htmp
      have hpos : 1 ≤ tmp.length := by cases tmp <;> simp_all
      cases fill with
      | none => simp; exact ⟨hpos, ht⟩
      | some f => simp; omega
    · simp
  | cons x xs ih =>
    unfold batchAux
    by_cases hfull : tmp.length = n
    · simp only [hfull, if_true]
      obtain ⟨i1, i2, i3⟩ := ih [x] (by simp; omega)
      refine ⟨?_, ?_, ?_⟩
      · intro g hg
        cases hr : batchAux n fill xs [x] with
        | nil => simp [hr] at hg
        | cons g' gs =>
          rw [hr, List.dropLast_cons_cons] at hg
          simp at hg
          rcases hg with rfl | hg
          · exact hfull
          · exact i1 g (by rw [hr]; exact hg)
      · intro g hg
        simp at hg
        rcases hg with rfl | hg
        · omega
        · exact i2 g hg
      · intro hf g hg
        simp at hg
        rcases hg with rfl | hg
        · exact hfull
        · exact i3 hf g hg
    · simp only [hfull, if_false]
      exact ih (tmp ++ [x]) (by simp; omega)

/-- **batch (sizes)**: every batch but the last has exactly `n` items, none is empty or longer;
    with a fill value every batch has exactly `n` items -/
theorem batch_sizes (xs : List α) (n : Nat) (hn : 0 < n) (fill : Option α) :
    (∀ g ∈ (batchF xs n fill).dropLast, g.length = n) ∧
    (∀ g ∈ batchF xs n fill, 1 ≤ g.length ∧ g.length ≤ n) ∧
    (fill.isSome → ∀ g ∈ batchF xs n fill, g.length = n) :=
  batchAux_sizes n hn fill xs [] (by simp)

-- unique --------------------------------------------------------------------------------------

theorem uniqueAux_spec [BEq κ] [LawfulBEq κ] (key : α → κ) (xs : List α) (seen : List κ) :
    (uniqueAux key xs seen) <+ xs ∧
    (∀ x ∈ uniqueAux key xs seen, key x ∉ seen) ∧
    ((uniqueAux key xs seen).map key).Nodup ∧
    (∀ x ∈ xs, key x ∈ seen ∨ key x ∈ (uniqueAux key xs seen).map key) := by
  induction xs generalizing seen with
  | nil => simp [uniqueAux]
  | cons x xs ih =>
    unfold uniqueAux
    by_cases hs : seen.contains (key x) = true
    · simp only [hs, if_true]
      obtain ⟨i1, i2, i3, i4⟩ := ih seen
      refine ⟨i1.cons x, i2, i3, ?_⟩
      intro y hy
      simp at hy
      rcases hy with rfl | hy
      · left; simpa using hs
      · exact i4 y hy
    · simp only [hs, if_false]
      have hs' : key x ∉ seen := by simpa using hs
      obtain ⟨i1, i2, i3, i4⟩ := ih (key x :: seen)
      refine ⟨i1.cons_cons x, ?_, ?_, ?_⟩
      · intro y hy
        simp at hy
        rcases hy with rfl | hy
        · exact hs'
        · have := i2 y hy; simp at this; exact this.2
      · refine List.nodup_cons.2 ⟨?_, i3⟩
        intro hm
        obtain ⟨y, hy, hky⟩ := List.mem_map.1 hm
        have := i2 y hy
        simp at this
        exact this.1 hky
      · intro y hy
        simp at hy
        rcases hy with rfl | hy
        · right; simp
        · rcases i4 y hy with h | h
          · simp at h
            rcases h with h | h
            · right; simp [h]
            · left; exact h
          · right; simp; right; simpa using h

/-- **unique**: the result is a subsequence of the input (order kept), has pairwise distinct
    keys, and contains an item for every key that occurs -/
theorem unique_spec [BEq κ] [LawfulBEq κ] (key : α → κ) (xs : List α) :
    uniqueF key xs <+ xs ∧ ((uniqueF key xs).map key).Nodup ∧
    (∀ x ∈ xs, key x ∈ (uniqueF key xs).map key) := by
  obtain ⟨i1, _, i3, i4⟩ := uniqueAux_spec key xs []
  refine ⟨i1, i3, ?_⟩
  intro x hx
  rcases i4 x hx with h | h
  · simp at h
  · exact h

/-- … and it keeps the *first* item for each key: the head of the input is always kept -/
theorem unique_keeps_first [BEq κ] [LawfulBEq κ] (key : α → κ) (x : α) (xs : List α) :
    (uniqueF key (x :: xs)).head? = some x := by
  simp [uniqueF, uniqueAux]

-- sort ----------------------------------------------------------------------------------------

/-- **sort**: a permutation of the input, ordered by key, and stable -/
theorem sort_spec (key : α → κ) (le : κ → κ → Bool)
    (trans : ∀ a b c, le a b → le b c → le a c) (total : ∀ a b, le a b || le b a) (xs : List α) :
    (sortF key le false xs).Perm xs ∧
    (sortF key le false xs).Pairwise (fun a b => le (key a) (key b)) ∧
    (∀ a b, le (key a) (key b) → [a, b] <+ xs → [a, b] <+ sortF key le false xs) := by
  unfold sortF
  simp only [Bool.false_eq_true, if_false]
  refine ⟨List.mergeSort_perm _ _, ?_, ?_⟩
  · exact List.pairwise_mergeSort (le := fun a b => le (key a) (key b))
      (fun a b c => trans _ _ _) (fun a b => total _ _) xs
  · intro a b hab hsub
    exact List.pair_sublist_mergeSort (le := fun a b => le (key a) (key b))
      (fun a b c => trans _ _ _) (fun a b => total _ _) hab hsub

/-- **sort (reverse)**: descending by key, and still stable in Python's sense (items with
    equal keys keep their input order) -/
theorem sort_reverse_spec (key : α → κ) (le : κ → κ → Bool)
    (trans : ∀ a b c, le a b → le b c → le a c) (total : ∀ a b, le a b || le b a) (xs : List α) :
    (sortF key le true xs).Perm xs ∧
    (sortF key le true xs).Pairwise (fun a b => le (key b) (key a)) ∧
    (∀ a b, le (key b) (key a) → [a, b] <+ xs → [a, b] <+ sortF key le true xs) := by
  unfold sortF
  simp only [if_true]
  refine ⟨List.mergeSort_perm _ _, ?_, ?_⟩
  · exact List.pairwise_mergeSort (le := fun a b => le (key b) (key a))
      (fun a b c h1 h2 => trans _ _ _ h2 h1) (fun a b => by have := total (key b) (key a); simpa using this) xs
  · intro a b hab hsub
    exact List.pair_sublist_mergeSort (le := fun a b => le (key b) (key a))
      (fun a b c h1 h2 => trans _ _ _ h2 h1) (fun a b => by have := total (key b) (key a); simpa using this) hab hsub

-- groupby -------------------------------------------------------------------------------------

theorem runs_flatten [BEq κ] (key : α → κ) (xs : List α) :
    ((runs key xs).map Prod.snd).flatten = xs := by
  induction xs with
  | nil => rfl
  | cons x xs ih =>
    unfold runs
    cases hr : runs key xs with
    | nil => rw [hr] at ih; simp at ih; simp [← ih]
    | cons p rest =>
      obtain ⟨k, g⟩ := p
      rw [hr] at ih
      simp only
      split <;> simp_all

theorem runs_groups [BEq κ] [LawfulBEq κ] (key : α → κ) (xs : List α) :
    ∀ p ∈ runs key xs, p.2 ≠ [] ∧ ∀ x ∈ p.2, key x = p.1 := by
  induction xs with
  | nil => simp [runs]
  | cons x xs ih =>
    unfold runs
    cases hr : runs key xs with
    | nil => simp
    | cons q rest =>
      obtain ⟨k, g⟩ := q
      rw [hr] at ih
      simp only
      by_cases hk : (key x == k) = true
      · simp only [hk, if_true]
        intro p hp
        simp at hp
        rcases hp with rfl | hp
        · refine ⟨by simp, ?_⟩
          intro y hy
          simp at hy
          rcases hy with rfl | hy
          · simpa using hk
          · exact (ih (k, g) (by simp)).2 y hy
        · exact ih p (by simp [hp])
      · simp only [hk, Bool.false_eq_true, if_false]
        intro p hp
        simp at hp
        rcases hp with rfl | rfl | hp
        · simp
        · exact ih (k, g) (by simp)
        · exact ih p (by simp [hp])

/-- **groupby**: the groups partition the key-sorted input (hence the input, up to the stable
    sort), every group is non-empty and all its members have the group's key -/
theorem groupby_spec [BEq κ] [LawfulBEq κ] (key : α → κ) (le : κ → κ → Bool) (xs : List α) :
    (((groupbyF key le xs).map Prod.snd).flatten = sortF key le false xs) ∧
    (((groupbyF key le xs).map Prod.snd).flatten.Perm xs) ∧
    (∀ p ∈ groupbyF key le xs, p.2 ≠ [] ∧ ∀ x ∈ p.2, key x = p.1) := by
  unfold groupbyF
  refine ⟨runs_flatten _ _, ?_, runs_groups _ _⟩
  rw [runs_flatten]
  unfold sortF
  simp only [Bool.false_eq_true, if_false]
  exact List.mergeSort_perm _ _

-- min / max -----------------------------------------------------------------------------------

theorem foldl_min_spec (key : α → κ) (le : κ → κ → Bool)
    (trans : ∀ a b c, le a b → le b c → le a c) (total : ∀ a b, le a b || le b a)
    (xs : List α) (x : α) :
    let r := xs.foldl (fun best y => if le (key best) (key y) then best else y) x
    r ∈ x :: xs ∧ ∀ y ∈ x :: xs, le (key r) (key y) = true := by
  induction xs generalizing x with
  | nil =>
    simp
    have := total (key x) (key x); simpa using this
  | cons z zs ih =>
    simp only [List.foldl_cons]
    by_cases h : le (key x) (key z) = true
    · simp only [h, if_true]
      obtain ⟨m, hall⟩ := ih x
      refine ⟨?_, ?_⟩
      · simp at m ⊢; rcases m with m | m
        · left; exact m
        · right; right; exact m
      · intro y hy
        simp at hy
        rcases hy with rfl | rfl | hy
        · exact hall _ (by simp)
        · exact trans _ _ _ (hall x (by simp)) h
        · exact hall y (by simp [hy])
    · simp only [h, Bool.false_eq_true, if_false]
      have hzx : le (key z) (key x) = true := by
        have := total (key x) (key z); simp [h] at this; exact this
      obtain ⟨m, hall⟩ := ih z
      refine ⟨?_, ?_⟩
      · simp at m ⊢; rcases m with m | m
        · right; left; exact m
        · right; right; exact m
      · intro y hy
        simp at hy
        rcases hy with rfl | rfl | hy
        · exact trans _ _ _ (hall z (by simp)) hzx
        · exact hall _ (by simp)
        · exact hall y (by simp [hy])

/-- **min**: the result is an item of the input that is ≤ every item (empty input: undefined) -/
theorem min_spec (key : α → κ) (le : κ → κ → Bool)
    (trans : ∀ a b c, le a b → le b c → le a c) (total : ∀ a b, le a b || le b a) (xs : List α) :
    match minF key le xs with
    | none => xs = []
    | some r => r ∈ xs ∧ ∀ y ∈ xs, le (key r) (key y) = true := by
  cases xs with
  | nil => simp [minF]
  | cons x xs => simp only [minF]; exact foldl_min_spec key le trans total xs x

/-- **max**: dually -/
theorem max_spec (key : α → κ) (le : κ → κ → Bool)
    (trans : ∀ a b c, le a b → le b c → le a c) (total : ∀ a b, le a b || le b a) (xs : List α) :
    match maxF key le xs with
    | none => xs = []
    | some r => r ∈ xs ∧ ∀ y ∈ xs, le (key y) (key r) = true := by
  cases xs with
  | nil => simp [maxF]
  | cons x xs =>
    simp only [maxF]
    exact foldl_min_spec key (fun a b => le b a) (fun a b c h1 h2 => trans _ _ _ h2 h1)
      (fun a b => by have := total b a; simpa using this) xs x

/-- **sum**: `start` plus the items -/
theorem sum_spec (xs : List Int) (start : Int) : sumF xs start = start + xs.sum := by
  unfold sumF
  induction xs generalizing start with
  | nil => simp
  | cons x xs ih => simp [List.foldl_cons, ih, Int.add_assoc]

-- non-vacuity
example : sliceF [0, 1, 2, 3, 4, 5, 6] 3 (some 9) = [[0, 1, 2], [3, 4, 9], [5, 6, 9]] ∧
    sliceF [0, 1, 2, 3] 2 (some 9) = [[0, 1], [2, 3]] ∧
    batchF [0, 1, 2, 3, 4] 2 (some 9) = [[0, 1], [2, 3], [4, 9]] ∧
    uniqueF (fun x : Nat => x % 3) [1, 4, 2, 7, 3] = [1, 2, 3] := by decide

end JinjaV.C22
