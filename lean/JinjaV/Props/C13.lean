/-
  C13 — equivalent syntax configurations render identically; environments do not disturb each other.

  (1) The shared lexer cache is transparent: for every history of `get_lexer` calls with any keys
      and any capacity, the lexer handed out for a key is the one constructed from that key —
      provided construction depends on the key only, which is re-proved from lexer.py on every run
      (`Gen/LexerKey.lean`: everything `Lexer.__init__`/`compile_rules` read is in the key).
  (2) The tokens the lexer model emits do not mention the delimiter *strings* beyond the tag tokens
      themselves: see the C12/C39 theorems; the delimiter-translation and line-statement claims are
      established by the correspondence run (metamorphic renders), not by a theorem.
-/
import JinjaV.Props.C26
import JinjaV.Gen.LexerKey

namespace JinjaV.C13
open JinjaV.LRU JinjaV.SpecLRU JinjaV.Gen.LexerKey

/-- every environment attribute read while a lexer is built is part of the cache key -/
theorem key_covers_reads : unkeyedReads = [] := by decide +kernel

/-- `get_lexer` has the cache protocol the model below transcribes, touches no other attribute, the
    lexer keeps no reference to its environment, and `Environment.lexer` memoises nothing per instance -/
theorem get_lexer_shape :
    cacheProtocolShape = true ∧ extraFieldsInGetLexer = [] ∧ lexerKeepsEnvironment = false ∧
    lexerIsPlainProperty = true := by decide +kernel

/-- `get_lexer` on the reference LRU map: `mk k` is the lexer built from key `k` -/
def getLexer (mk : K → V) (sp : Spec) (k : K) : Spec × V :=
  match find sp.items k with
  | some v => (touch sp k v, v)        -- `_lexer_cache.get(key)` hit
  | none => (put sp k (mk k), mk k)    -- miss: `_lexer_cache[key] = lexer = Lexer(environment)`

def AllBuiltFromKey (mk : K → V) (sp : Spec) : Prop := ∀ k v, (k, v) ∈ sp.items → v = mk k

theorem mem_of_find (l : List (K × V)) (k : K) (v : V) (h : find l k = some v) : (k, v) ∈ l := by
  induction l with
  | nil => simp [find] at h
  | cons p l ih =>
    obtain ⟨a, b⟩ := p
    by_cases hk : a = k
    · subst hk; simp [find] at h; subst h; simp
    · rw [JinjaV.LRU.find_cons_ne _ _ _ _ hk] at h; simp [ih h]

theorem mem_remove (l : List (K × V)) (k : K) (p : K × V) (h : p ∈ remove l k) : p ∈ l := by
  induction l with
  | nil => simp [remove] at h
  | cons q l ih =>
    obtain ⟨a, b⟩ := q
    by_cases hk : a = k
    · simp [remove, hk] at h; simp [ih h]
    · simp [remove, hk] at h
      rcases h with h | h
      · simp [h]
      · simp [ih h]

theorem getLexer_ok (mk : K → V) (sp : Spec) (k : K) (h : AllBuiltFromKey mk sp) :
    (getLexer mk sp k).2 = mk k ∧ AllBuiltFromKey mk (getLexer mk sp k).1 := by
  unfold getLexer
  cases hf : find sp.items k with
  | some v =>
    have hv : v = mk k := h k v (mem_of_find _ _ _ hf)
    refine ⟨hv, ?_⟩
    intro k' v' hm
    simp only [touch] at hm
    simp at hm
    rcases hm with ⟨rfl, rfl⟩ | hm
    · exact hv
    · exact h k' v' (mem_remove _ _ _ hm)
  | none =>
    refine ⟨rfl, ?_⟩
    intro k' v' hm
    unfold put at hm
    simp only [hf] at hm
    split at hm
    · simp at hm
      rcases hm with ⟨rfl, rfl⟩ | hm
      · rfl
      · exact h k' v' (List.dropLast_subset _ hm)
    · simp at hm
      rcases hm with ⟨rfl, rfl⟩ | hm
      · rfl
      · exact h k' v' hm

def runGetLexer (mk : K → V) : Spec → List K → List V
  | _, [] => []
  | sp, k :: ks => (getLexer mk sp k).2 :: runGetLexer mk (getLexer mk sp k).1 ks

/-- **lexer_cache_transparent**: whatever configurations were used before, in whatever order, and
    however small the cache, every call returns the lexer built from its own key -/
theorem lexer_cache_transparent (mk : K → V) (cap : Nat) (keys : List K) :
    runGetLexer mk (SpecLRU.init cap) keys = keys.map mk := by
  have : ∀ sp, AllBuiltFromKey mk sp → runGetLexer mk sp keys = keys.map mk := by
    induction keys with
    | nil => intros; rfl
    | cons k ks ih =>
      intro sp h
      obtain ⟨h1, h2⟩ := getLexer_ok mk sp k h
      simp only [runGetLexer, List.map_cons, h1, ih _ h2]
  exact this _ (by intro k v hm; simp [SpecLRU.init] at hm)

-- non-vacuity: capacity 1 forces eviction on every alternation
example : runGetLexer (fun k => k * 10) (SpecLRU.init 1) [1, 2, 1, 1, 3] = [10, 20, 10, 10, 30] := by decide

end JinjaV.C13
