/-
  C19 — the immutable sandbox never lets builtin containers be modified.

  All theorems are over `Gen/Sandbox.lean`, regenerated from sandbox.py on every run
  (decision functions and `_mutable_spec` READ from the source, the list of mutating
  methods of the exact builtin types MEASURED from the interpreter).
-/
import JinjaV.Gen.Sandbox

namespace JinjaV.C19
open JinjaV.Gen.Sandbox

/-- every method of `list`, `dict`, `set`, `deque` that can change its receiver is refused
    by `ImmutableSandboxedEnvironment.is_safe_attribute` (first-matching-row lookup included) -/
theorem mutators_blocked :
    ∀ p ∈ builtinMutators, Immutable_is_safe_attribute (objOf p.1) p.2 = false := by decide +kernel

/-- the same methods looked up on the class object itself (`dict.clear(d)`: `dict` is a default global) are refused too
    (full strength since /repo fix "the immutable sandbox must refuse mutating methods looked up on the class") -/
theorem mutators_blocked_on_class :
    ∀ p ∈ builtinMutators, Immutable_is_safe_attribute (classObjOf p.1) p.2 = false := by decide +kernel

/-- the decision function of the immutable sandbox only admits what the plain sandbox
    admits and what does not modify a known mutable (for *every* object and name) -/
theorem immutable_attr_decision (o : Obj) (attr : String)
    (h : Immutable_is_safe_attribute o attr = true) :
    Sandboxed_is_safe_attribute o attr = true ∧ modifiesKnownMutable o attr = false := by
  unfold Immutable_is_safe_attribute at h
  cases hs : Sandboxed_is_safe_attribute o attr <;> cases hm : modifiesKnownMutable o attr <;> simp_all

/-- the four builtin types are recognised by some row of the table at all -/
theorem builtin_types_covered :
    ∀ t ∈ ["list", "dict", "set", "deque"],
      (mutableSpec.find? (fun row => (objOf t).isa row.1)).isSome = true := by decide +kernel

-- non-vacuity: the tables are not empty and the decision is not constantly `false`
example : builtinMutators.length ≥ 20 ∧ Immutable_is_safe_attribute (objOf "list") "index" = true ∧
    Immutable_is_safe_attribute (objOf "deque") "appendleft" = false := by decide +kernel

end JinjaV.C19
