/-
  C17 — the sandbox never hands out private or internal attributes (decision logic).

  Over `Gen/Sandbox.lean` (READ from sandbox.py every run).
-/
import JinjaV.Gen.Sandbox

namespace JinjaV.C17
open JinjaV.Gen.Sandbox

/-- what the sandbox admits does not start with an underscore and is not internal -/
theorem safe_attr_decision (o : Obj) (attr : String) (h : Sandboxed_is_safe_attribute o attr = true) :
    attr.startsWith "_" = false ∧ isInternalAttribute o attr = false := by
  unfold Sandboxed_is_safe_attribute at h
  cases h1 : attr.startsWith "_" <;> cases h2 : isInternalAttribute o attr <;> simp_all

/-- dunder names are internal on every object -/
theorem dunder_internal (o : Obj) (attr : String) (h : attr.startsWith "__" = true) :
    isInternalAttribute o attr = true := by
  unfold isInternalAttribute
  repeat' split
  all_goals first | rfl | exact h

/-- the documented internal attributes of special objects -/
theorem documented_internal :
    isInternalAttribute ⟨["type"], []⟩ "mro" = true ∧
    (∀ a ∈ ["gi_frame", "gi_code"], isInternalAttribute ⟨["types.GeneratorType"], []⟩ a = true) ∧
    (∀ a ∈ ["cr_frame", "cr_code"], isInternalAttribute ⟨["types.CoroutineType"], []⟩ a = true) ∧
    (∀ a ∈ ["ag_frame", "ag_code"], isInternalAttribute ⟨["types.AsyncGeneratorType"], []⟩ a = true) := by
  decide +kernel

/-- everything on code, traceback and frame objects is internal -/
theorem code_frame_traceback_all_internal (o : Obj) (attr : String)
    (hf : o.isa "types.FunctionType" = false) (hm : o.isa "types.MethodType" = false)
    (ht : o.isa "type" = false)
    (h : o.isa "types.CodeType" = true ∨ o.isa "types.TracebackType" = true ∨ o.isa "types.FrameType" = true) :
    isInternalAttribute o attr = true := by
  unfold isInternalAttribute
  rcases h with h | h | h <;> simp [hf, hm, ht, h]

/-- the immutable sandbox is at least as strict -/
theorem immutable_at_least_as_strict (o : Obj) (attr : String)
    (h : Immutable_is_safe_attribute o attr = true) :
    attr.startsWith "_" = false ∧ isInternalAttribute o attr = false := by
  unfold Immutable_is_safe_attribute at h
  apply safe_attr_decision
  cases hs : Sandboxed_is_safe_attribute o attr <;> simp_all

-- non-vacuity
example : Sandboxed_is_safe_attribute ⟨["type"], []⟩ "upper" = true ∧
    Sandboxed_is_safe_attribute ⟨[], []⟩ "_x" = false ∧
    Sandboxed_is_safe_attribute ⟨["types.FrameType"], []⟩ "f_locals" = false := by decide +kernel

end JinjaV.C17
