/-
  C17 — the sandbox never hands out private or internal attributes (decision logic).

  Over `Gen/Sandbox.lean` (decision functions) and `Gen/AccessPaths.lean` (the whole bodies of
  SandboxedEnvironment.getitem / getattr / unsafe_undefined / wrap_str_format, SandboxedFormatter.get_field and of the
  base Environment.getitem / getattr a `super()` call reaches) — both READ from the source every run.
-/
import JinjaV.Gen.Sandbox
import JinjaV.Gen.AccessPaths
import JinjaV.Model.AccessCheck
import JinjaV.Lemmas.AccessPaths

namespace JinjaV.C17
open JinjaV.Gen.Sandbox JinjaV.Gen.AccessPaths JinjaV.AccessCheck

/-- what the sandbox admits does not start with an underscore and is not internal -/
theorem safe_attr_decision (o : Obj) (attr : String) (h : Sandboxed_is_safe_attribute o attr = true) :
    attr.startsWith "_" = false ∧ isInternalAttribute o attr = false := by
  unfold Sandboxed_is_safe_attribute at h
  cases h1 : attr.startsWith "_" <;> cases h2 : isInternalAttribute o attr <;> simp_all

/-- dunder names are internal on every object -/
theorem dunder_internal (o : Obj) (attr : String) (h : attr.startsWith "__" = true) :
    isInternalAttribute o attr = true := by
  unfold isInternalAttribute
  repeat' split
  all_goals first | rfl | exact h

/-- the documented internal attributes of special objects -/
theorem documented_internal :
    isInternalAttribute ⟨["type"], [], []⟩ "mro" = true ∧
    (∀ a ∈ ["gi_frame", "gi_code"], isInternalAttribute ⟨["types.GeneratorType"], [], []⟩ a = true) ∧
    (∀ a ∈ ["cr_frame", "cr_code"], isInternalAttribute ⟨["types.CoroutineType"], [], []⟩ a = true) ∧
    (∀ a ∈ ["ag_frame", "ag_code"], isInternalAttribute ⟨["types.AsyncGeneratorType"], [], []⟩ a = true) := by
  decide +kernel

/-- everything on code, traceback and frame objects is internal -/
theorem code_frame_traceback_all_internal (o : Obj) (attr : String)
    (hf : o.isa "types.FunctionType" = false) (hm : o.isa "types.MethodType" = false)
    (ht : o.isa "type" = false)
    (h : o.isa "types.CodeType" = true ∨ o.isa "types.TracebackType" = true ∨ o.isa "types.FrameType" = true) :
    isInternalAttribute o attr = true := by
  unfold isInternalAttribute
  rcases h with h | h | h <;> simp [hf, hm, ht, h]

/-- the immutable sandbox is at least as strict -/
theorem immutable_at_least_as_strict (o : Obj) (attr : String)
    (h : Immutable_is_safe_attribute o attr = true) :
    attr.startsWith "_" = false ∧ isInternalAttribute o attr = false := by
  unfold Immutable_is_safe_attribute at h
  apply safe_attr_decision
  cases hs : Sandboxed_is_safe_attribute o attr <;> simp_all

/-! ### the lookup methods: no path reaches the raw attribute without `is_safe_attribute`

`World` fixes the kind of the argument (exact `str`, `str` subclass such as Markup, `int`, other), the outcome of
`obj[argument]` and of `getattr(obj, name)` (ok / TypeError / KeyError / IndexError / AttributeError / other), whether
the value is a `str.format` method and what `is_safe_attribute` answers.  The functions are the regenerated bodies, with
every early return, type test and `super()` delegation; the statements are checked by evaluation on all 576 worlds. -/

/-- subscript: for every kind of argument and every way the two primitive lookups can end, `getitem` hands out the
attribute value as it is only if `is_safe_attribute` said yes and the value is not a format method -/
theorem getitem_checked (w : World) (h : Sandboxed_getitem w = .rawAttr) :
    w.safeAttr = true ∧ w.isFormat = false := by
  have hall : allWorlds.all (checked Sandboxed_getitem) = true := by decide +kernel
  have := forall_of_all hall w
  simpa [checked, h] using this

/-- attribute syntax, `|attr`, format field `.name`: the same for `getattr` -/
theorem getattr_checked (w : World) (h : Sandboxed_getattr w = .rawAttr) :
    w.safeAttr = true ∧ w.isFormat = false := by
  have hall : allWorlds.all (checked Sandboxed_getattr) = true := by decide +kernel
  have := forall_of_all hall w
  simpa [checked, h] using this

/-- an attribute that exists, is not safe and is not a format method is answered with `unsafe_undefined` — for an
exact `str` name and for a `str` subclass (Markup) name alike — whenever the item lookup fails with a type or lookup
error (getitem) resp. always (getattr); and `unsafe_undefined` raises SecurityError on use -/
theorem unsafe_attr_refused (w : World) (hs : w.arg.isStr = true) (ha : w.attr = .ok)
    (hf : w.isFormat = false) (hu : w.safeAttr = false) :
    Sandboxed_getattr w = .unsafeUndefined ∧
    (w.item ∈ [.err .typeError, .err .keyError, .err .indexError] → Sandboxed_getitem w = .unsafeUndefined) ∧
    unsafeUndefinedExc = "SecurityError" := by
  have hall : allWorlds.all (fun w => !(w.arg.isStr && w.attr == .ok && !w.isFormat && !w.safeAttr) ||
      (Sandboxed_getattr w == .unsafeUndefined &&
       (!([OpRes.err .typeError, .err .keyError, .err .indexError].contains w.item) ||
          Sandboxed_getitem w == .unsafeUndefined))) = true := by decide +kernel
  have := forall_of_all hall w
  simp [hs, ha, hf, hu] at this
  refine ⟨this.1, ?_, by decide⟩
  intro hm
  rcases this.2 with h | h
  · simp at hm
    rcases hm with hm | hm | hm <;> simp [hm] at h
  · exact h

/-- end to end, default sandbox: whatever `getitem`/`getattr` hand out as a raw attribute value of object `o` under name
`attr` neither starts with an underscore nor is an internal attribute -/
theorem access_sound (o : Obj) (attr : String) (w : World)
    (hw : w.safeAttr = Sandboxed_is_safe_attribute o attr)
    (h : Sandboxed_getitem w = .rawAttr ∨ Sandboxed_getattr w = .rawAttr) :
    attr.startsWith "_" = false ∧ isInternalAttribute o attr = false := by
  apply safe_attr_decision
  rcases h with h | h
  · rw [← hw]; exact (getitem_checked w h).1
  · rw [← hw]; exact (getattr_checked w h).1

/-- the same for the immutable sandbox (it inherits both methods; the translator checks that it overrides neither) -/
theorem access_sound_immutable (o : Obj) (attr : String) (w : World)
    (hw : w.safeAttr = Immutable_is_safe_attribute o attr)
    (h : Sandboxed_getitem w = .rawAttr ∨ Sandboxed_getattr w = .rawAttr) :
    attr.startsWith "_" = false ∧ isInternalAttribute o attr = false := by
  apply immutable_at_least_as_strict
  rcases h with h | h
  · rw [← hw]; exact (getitem_checked w h).1
  · rw [← hw]; exact (getattr_checked w h).1

/-- every bound `format` / `format_map` method of a string (builtin or Python-level, e.g. Markup.format) is wrapped -/
theorem format_methods_wrapped (value : Obj) (name : String)
    (hv : value.isa "types.MethodType" = true ∨ value.isa "types.BuiltinMethodType" = true)
    (hn : name = "format" ∨ name = "format_map") : wrapReturnsNone value name true = false := by
  rcases hn with rfl | rfl <;> rcases hv with h | h <;> simp [wrapReturnsNone, h]

/-- the wrapper formats through a sandboxed formatter and never through the method it replaces; every step of a field
path (`.name`, `[key]`) is resolved by the environment's `getattr` / `getitem` -/
theorem format_fields_sandboxed :
    wrapReturnsWrapper = true ∧ wrapperReferencesRawMethod = false ∧ wrapperCalls.contains "formatter.vformat" = true ∧
    wrapFormatterClasses ≠ [] ∧
    (∀ c ∈ wrapFormatterClasses, ∃ row ∈ formatterClasses, row.1 = c ∧
        (c = "SandboxedFormatter" ∨ (row.2.1.head? = some "SandboxedFormatter" ∧ row.2.2.contains "get_field" = false))) ∧
    (∃ row ∈ formatterClasses, row.1 = "SandboxedFormatter" ∧ row.2.2.contains "get_field" = true) ∧
    getFieldSteps ≠ [] ∧
    (∀ s ∈ getFieldSteps, (s.1 = "attr" ∧ s.2 = formatterEnvField ++ ".getattr") ∨
                          (s.1 = "item" ∧ s.2 = formatterEnvField ++ ".getitem")) := by
  decide +kernel

-- non-vacuity: public attributes are handed out, also under a Markup name; the unsandboxed base methods a `super()`
-- call would reach do hand out unsafe attributes (so a delegation is visible to the theorems above)
example : Sandboxed_getitem ⟨.strSubclass, .err .keyError, .ok, false, true⟩ = .rawAttr ∧
    Sandboxed_getattr ⟨.exactStr, .ok, .ok, false, true⟩ = .rawAttr ∧
    Sandboxed_getitem ⟨.exactStr, .err .typeError, .ok, true, true⟩ = .fmtWrapper ∧
    Base_getitem ⟨.strSubclass, .err .keyError, .ok, false, false⟩ = .rawAttr ∧
    Base_getattr ⟨.exactStr, .ok, .ok, true, false⟩ = .rawAttr ∧
    wrapReturnsNone ⟨["types.BuiltinMethodType"], [], []⟩ "upper" true = true ∧
    wrapReturnsNone ⟨["types.BuiltinMethodType"], [], []⟩ "format" false = true := by decide +kernel

-- non-vacuity
example : Sandboxed_is_safe_attribute ⟨["type"], [], []⟩ "upper" = true ∧
    Sandboxed_is_safe_attribute ⟨[], [], []⟩ "_x" = false ∧
    Sandboxed_is_safe_attribute ⟨["types.FrameType"], [], []⟩ "f_locals" = false := by decide +kernel

end JinjaV.C17
