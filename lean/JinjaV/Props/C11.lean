/-
  C11 — plain text, comments and raw blocks render verbatim.

  Over the lexer model (Model/Lex.lean): line-break normalisation and trailing-newline
  handling of `preprocess`; a source in which no root alternative matches anywhere lexes to a
  single data token holding the whole preprocessed source; a comment contributes only ignored
  tokens; `wrap`'s newline conversion.
-/
import JinjaV.Props.C39

namespace JinjaV.C11
open JinjaV.Lex

/-- Spec: every `\r\n`, `\r`, `\n` becomes `\n` -/
def normNl : Str → Str
  | [] => []
  | '\r' :: '\n' :: r => '\n' :: normNl r
  | '\r' :: r => '\n' :: normNl r
  | c :: r => c :: normNl r

theorem joinNl_cons_cons (l : Str) (m : Str) (ls : List Str) : joinNl (l :: m :: ls) = l ++ '\n' :: joinNl (m :: ls) := rfl

theorem splitLines_ne_nil (s : Str) : splitLines s ≠ [] := by
  fun_induction splitLines s <;> simp_all

theorem joinNl_cons (l : Str) (ls : List Str) (h : ls ≠ []) : joinNl (l :: ls) = l ++ '\n' :: joinNl ls := by
  cases ls with
  | nil => exact absurd rfl h
  | cons m ms => rfl

/-- **preprocess (line breaks)**: splitting on the three line-break forms and re-joining with `\n`
    is exactly the replacement of every line break by `\n` -/
theorem join_split_eq_normNl (s : Str) : joinNl (splitLines s) = normNl s := by
  fun_induction splitLines s with
  | case1 => rfl
  | case2 r ih => rw [joinNl_cons _ _ (splitLines_ne_nil r), ih]; simp [normNl]
  | case3 r h ih =>
    rw [joinNl_cons _ _ (splitLines_ne_nil r), ih]
    cases r with
    | nil => simp [normNl]
    | cons c cs =>
      have : c ≠ '\n' := by intro e; subst e; exact h cs rfl
      simp [normNl, this]
  | case4 r ih => rw [joinNl_cons _ _ (splitLines_ne_nil r), ih]; simp [normNl]
  | case5 c r h1 h2 h3 l ls hs ih =>
    rw [hs] at ih
    cases ls with
    | nil =>
      simp only [joinNl] at ih ⊢
      have hc1 : ¬ c = '\r' := by intro e; subst e; simp_all
      have hc2 : ¬ c = '\n' := by intro e; subst e; simp_all
      unfold normNl
      split <;> simp_all
    | cons m ms =>
      rw [joinNl_cons_cons] at ih ⊢
      have hc1 : ¬ c = '\r' := by intro e; subst e; simp_all
      unfold normNl
      split <;> simp_all
  | case6 c r h1 h2 h3 hs ih => exact absurd hs (splitLines_ne_nil r)

/-- with `keep_trailing_newline` the preprocessed source is the normalised source -/
theorem preprocess_keep (cfg : Cfg) (s : Str) (h : cfg.keepTrailingNl = true) : preprocess cfg s = normNl s := by
  simp [preprocess, h, join_split_eq_normNl]

/-- without it, at most one trailing line break is removed: the result followed by nothing or by
    one `\n` is the normalised source -/
theorem preprocess_drop (cfg : Cfg) (s : Str) :
    preprocess cfg s = normNl s ∨ preprocess cfg s ++ ['\n'] = normNl s := by
  unfold preprocess
  simp only
  split
  · rename_i hc
    rw [← join_split_eq_normNl]
    generalize splitLines s = ls at *
    simp only [Bool.and_eq_true] at hc
    have hl : ls.getLast? = some [] := by simpa using hc.2
    obtain ⟨pre, hp⟩ : ∃ pre, ls = pre ++ [[]] := by
      have := List.getLast?_eq_some_iff.1 hl
      obtain ⟨ys, h⟩ := this; exact ⟨ys, h⟩
    subst hp
    simp only [List.dropLast_concat]
    clear hc hl
    cases pre with
    | nil => left; rfl
    | cons p0 ps0 =>
      right
      induction ps0 generalizing p0 with
      | nil => simp [joinNl]
      | cons q qs ih =>
        simp only [List.cons_append]
        rw [joinNl_cons_cons, joinNl_cons_cons]
        have := ih q
        simp only [List.cons_append] at this
        simp only [List.append_assoc, List.cons_append]
        rw [this]
  · left; exact join_split_eq_normNl s

/-- **plain text**: if no root alternative (tag start, raw start, line-statement or line-comment
    prefix) matches at any position, the whole preprocessed source is one data token -/
theorem plain_single_data (cfg : Cfg) (src : Str)
    (h : findRoot cfg (rootAlts cfg) none (preprocess cfg src) = none) :
    tokeniter cfg src =
      .ok (if (preprocess cfg src).isEmpty then [] else [⟨1, .data, preprocess cfg src⟩]) := by
  unfold tokeniter
  simp only
  generalize preprocess cfg src = s at *
  have : 2 * s.length + 4 = (2 * s.length + 3) + 1 := by omega
  rw [this]
  unfold loop step
  simp only [initLoop, h]
  by_cases hs : s.isEmpty = true
  · simp [hs, finish]
  · simp [hs, finish, emit]

/-- `wrap` converts the line breaks of a data token to the configured newline sequence -/
def convertNl (nl : Str) : Str → Str
  | [] => []
  | '\n' :: r => nl ++ convertNl nl r
  | c :: r => c :: convertNl nl r

theorem convertNl_default (s : Str) : convertNl ['\n'] s = s := by
  induction s with
  | nil => rfl
  | cons c cs ih =>
    by_cases h : c = '\n'
    · subst h; simp [convertNl, ih]
    · unfold convertNl; split <;> simp_all

/-- a comment yields only tokens the parser ignores (begin, body, end) and never data -/
theorem comment_tokens_ignored (cfg : Cfg) (l : Loop) (s text matched rest : Str)
    (hst : l.stack.head? = some St.comment)
    (hf : findLazy (fun x => (matchEnd3 cfg.trimBlocks cfg.commentEnd x).map fun (m, r) => (m, (), r)) s
        = some (text, matched, (), rest)) :
    ∃ l', step cfg (rootAlts cfg) l s = .cont l' rest ∧
      ∀ t ∈ l'.out, t ∈ l.out ∨ t.kind = .comment ∨ t.kind = .commentEnd := by
  unfold step
  cases hstk : l.stack with
  | nil => simp [hstk] at hst
  | cons t ts =>
    simp [hstk] at hst; subst hst
    simp only [hf]
    refine ⟨_, rfl, ?_⟩
    intro t ht
    simp only [emit] at ht
    repeat' split at ht
    all_goals simp at ht
    all_goals grind

-- non-vacuity
example : preprocess ⟨"{%".toList, "%}".toList, "{{".toList, "}}".toList, "{#".toList, "#}".toList, none, none,
    false, false, false⟩ "a\r\nb\rc\n".toList = "a\nb\nc".toList := by decide +kernel

end JinjaV.C11
