/-
  C21 — each undefined type supports exactly its documented operations.

  `outcome` resolves every operation through Python's special-method dispatch over the
  class table READ from runtime.py on every run (Gen/UndefinedTable.lean); `spec` is the
  documented table.  The theorem is a finite, complete enumeration (8 kinds × 38 operations).
-/
import JinjaV.Model.UndefinedOps

namespace JinjaV.C21
open JinjaV.SpecUndefined JinjaV.UndefinedOps

theorem undef_table_eq : ∀ k ∈ allKinds, ∀ op ∈ allOps, outcome k op = spec k op := by
  decide +kernel

/-- the enumeration is complete: every operation and every base kind is listed -/
theorem allOps_complete (op : Op) : op ∈ allOps := by cases op <;> decide
theorem baseKinds_complete (k : Kind) : k ∈ allKinds ∨ ∃ b c, k = .logging (.logging b) ∧ c = b := by
  cases k with
  | logging b => cases b with
    | logging c => exact Or.inr ⟨c, c, rfl, rfl⟩
    | _ => left; decide
  | _ => left; decide

/-- counterexample finder: the (kind, operation) pairs on which source table and documentation differ -/
def mismatches : List (Kind × Op) :=
  (allKinds.flatMap fun k => allOps.map fun op => (k, op)).filter fun p => outcome p.1 p.2 != spec p.1 p.2

-- non-vacuity: the table distinguishes the types
example : outcome .default .str = .emptyString ∧ outcome .strict .str = .raisesUndefined ∧
    outcome .chainable .getitem = .itself ∧ outcome .debug .str = .debugString ∧
    outcome (.logging .strict) .iter = .raisesUndefined := by decide +kernel

end JinjaV.C21
