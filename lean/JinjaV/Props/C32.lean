/-
  C32 — static template introspection over-approximates runtime behaviour.

  `Model/Scope.lean`: `resolveSites` / `undeclared` transcribe what TrackingCodeGenerator collects (the `resolve` loads of
  every frame the code generator enters), `runtimeLookups o t` is what one render fetches from the context (the prologue of
  every frame that is *dynamically* entered under the oracle `o`), `referenced` is meta.find_referenced_templates and
  `loadsRuns o dynv t` what the executed Extends/Include/Import/FromImport sites hand to the loader.
-/
import JinjaV.Model.Scope
import JinjaV.Lemmas.Scope
import JinjaV.Lemmas.ScopeRefs

namespace JinjaV.C32
open JinjaV.Scope JinjaV.Scope.Lemmas

/-- Every name a render fetches from the context — for every template of the fragment and every oracle deciding branches,
    iteration counts, loop recursion and how often macros, call blocks and block functions are invoked — is the operand of a
    `resolve(...)` in the generated module. -/
theorem lookups_subset_sites (o : Oracle) (t : List Stmt) (n : Name) :
    n ∈ runtimeLookups o t → n ∈ resolveSites t := by
  intro h
  simp only [runtimeLookups, List.mem_append] at h
  simp only [resolveSites, List.mem_append]
  rcases h with (h | h) | h
  · exact Or.inl (Or.inl h)
  · exact Or.inl (Or.inr (runs_sub t _ _ _ _ h))
  · exact Or.inr (runBlocks_sub _ _ _ h)

/-- **C32, variables**: every name looked up in the context at runtime is reported by `find_undeclared_variables`
    or is an environment global. -/
theorem lookups_subset_undeclared (globals : List Name) (o : Oracle) (t : List Stmt) (n : Name) :
    n ∈ runtimeLookups o t → n ∈ undeclared globals t ∨ n ∈ globals := by
  intro h
  have hs := lookups_subset_sites o t n h
  by_cases hg : n ∈ globals
  · exact Or.inr hg
  · refine Or.inl ?_
    simp only [undeclared]
    rw [List.mem_eraseDups]
    simp [List.mem_filter, hs, hg]

/-- the over-approximation is not vacuous at the bottom: the root frame's resolve loads are fetched by *every* run -/
theorem root_lookups_always (o : Oracle) (t : List Stmt) (n : Name) :
    n ∈ resolves (rootFrame t) → n ∈ runtimeLookups o t := by
  intro h
  simp only [runtimeLookups, List.mem_append]
  exact Or.inl (Or.inl h)

/-- Why the context is read *only* in frame prologues: whatever name the code generator visits in a frame (every `Name`
    load/store, `NSRef`, macro name, import target — `refOk` follows compiler.py), the analysis of that frame chain has given it a
    slot (`frame.symbols.ref(name)` cannot raise), so a load always compiles to a local slot and never to an ad-hoc context read.
    Holds for the root frame and everything nested in it, for every template. -/
theorem refs_never_fail_root (t : List Stmt) : refOks [] (rootFrame t) t = true := by
  unfold rootFrame
  exact refOks_of t [] _ (fun n hn => needss_have t [] _ n hn)

/-- the same for every block function (isolated frame with `self` / `super` parameters) -/
theorem refs_never_fail_block (body : List Stmt) : refOks [] (blockFrame body) body = true := by
  unfold blockFrame
  exact refOks_of body [] _ (fun n hn => needss_have body [] _ n hn)

/-- one load site: a string it can hand to the loader is yielded, or `None` is yielded for the node -/
theorem site_sound (dynv : Nat → List String) (k : RefKind) (te : TExpr) (s : String) :
    s ∈ siteLoads dynv k te → some s ∈ yielded k te ∨ none ∈ yielded k te := by
  intro h
  cases te with
  | constStr x =>
    simp only [siteLoads, List.mem_singleton] at h
    subst h
    simp [yielded]
  | constSeq items =>
    simp only [siteLoads] at h
    split at h
    · rename_i hk
      exact Or.inl (by simp only [yielded, hk, if_true]; exact mem_strsOf _ _ h)
    · simp at h
  | constOther => simp [siteLoads] at h
  | seq items =>
    simp only [siteLoads] at h
    simp only [yielded, List.mem_flatMap]
    split at h
    · rcases mem_itemLoads _ _ _ _ h with h | h
      · exact Or.inl ⟨_, h, by simp [yieldedItem]⟩
      · exact Or.inr ⟨_, h, by simp [yieldedItem]⟩
    · split at h
      · rename_i hc
        exact Or.inr ⟨.dyn, hc, by simp [yieldedItem]⟩
      · simp at h
  | dyn => simp [yielded]

/-- a node whose template expression has no dynamic part never makes `find_referenced_templates` give up on it:
    whatever it loads is yielded by name -/
theorem site_sound_const (dynv : Nat → List String) (k : RefKind) (s : String) :
    (∀ x, s ∈ siteLoads dynv k (.constStr x) → some s ∈ yielded k (.constStr x)) ∧
    (∀ items, TItem.dyn ∉ items → s ∈ siteLoads dynv .include_ (.seq items) → some s ∈ yielded .include_ (.seq items)) := by
  constructor
  · intro x h
    simp only [siteLoads, List.mem_singleton] at h
    subst h
    simp [yielded]
  · intro items hd h
    simp only [siteLoads] at h
    simp only [yielded, List.mem_flatMap]
    rcases mem_itemLoads _ _ _ _ (by simpa using h) with h | h
    · exact ⟨_, h, by simp [yieldedItem]⟩
    · exact absurd h hd

/-- **C32, templates**: for every run, every template name (string) handed to the loader by the template's code comes from
    an Extends/Include/Import/FromImport node found by `find_all`, and is yielded by `find_referenced_templates`, unless
    `None` is yielded. -/
theorem referenced_templates_sound (o : Oracle) (dynv : Nat → Nat → List String) (t : List Stmt) (s : String) :
    s ∈ loadsRuns o dynv t → some s ∈ referenced t ∨ none ∈ referenced t := by
  intro h
  obtain ⟨k, te, i, hm, hs⟩ := loadsRuns_from t o dynv s h
  simp only [referenced, List.mem_flatMap]
  rcases site_sound (dynv i) k te s hs with h | h
  · exact Or.inl ⟨(k, te), hm, h⟩
  · exact Or.inr ⟨(k, te), hm, h⟩

/-! ### non-vacuity: concrete templates on which the hypotheses hold and the inclusion is strict / tight -/

/-- `{% if c %}{% set x = 1 %}{% endif %}{{ x }}{% for i in xs %}{{ y }}{{ i }}{% endfor %}{% set y = 2 %}` -/
def ex1 : List Stmt :=
  [.ite ["c"] [.assign [.store "x"] []] [] [], .output ["x"],
   .for_ ["i"] ["xs"] [.output ["y", "i"]] [] none false, .assign [.store "y"] []]

example : undeclared [] ex1 = ["c", "x", "xs"] := by decide
example : runtimeLookups (fun _ => 1) ex1 = ["c", "x", "xs"] := by decide

/-- `{% macro m(a, b=c) %}{{ a }}{{ d }}{{ caller() }}{% endmacro %}{% block k %}{{ z }}{{ super() }}{% endblock %}` -/
def ex2 : List Stmt :=
  [.macro_ "m" ["a", "b"] ["c"] [.output ["a", "d", "caller"]], .block "k" false [.output ["z", "super"]]]

example : undeclared [] ex2 = ["c", "d", "z"] := by decide
-- macro never called, block never invoked: nothing is fetched, the report is a strict over-approximation
example : runtimeLookups (fun _ => 0) ex2 = [] := by decide
example : runtimeLookups (fun _ => 2) ex2 = ["c", "d", "c", "d", "z", "z"] := by decide
example : undeclared ["d"] ex2 = ["c", "z"] := by decide

/-- `{% extends "base" %}{% include ["a", x] %}{% import y as m %}{% if q %}{% include ("p", 3) %}{% endif %}` -/
def ex3 : List Stmt :=
  [.ref .extends_ (.constStr "base") [] [], .ref .include_ (.seq [.str "a", .dyn]) ["x"] [],
   .ref .import_ .dyn ["y"] ["m"], .ite ["q"] [.ref .include_ (.seq [.str "p", .other]) [] []] [] []]

example : referenced ex3 = [some "base", some "a", none, none, some "p"] := by decide
example : loadsRuns (fun _ => 0) (fun _ _ => ["dynamic"]) ex3 = ["base", "a", "dynamic", "dynamic", "p"] := by decide

/-- `{% if a %}{% set x = b %}{% endif %}{% for i in xs %}{% macro m(p=x) %}{{ p }}{{ i }}{{ q }}{% endmacro %}{% endfor %}` -/
def ex4 : List Stmt :=
  [.ite ["a"] [.assign [.store "x"] ["b"]] [] [],
   .for_ ["i"] ["xs"] [.macro_ "m" ["p"] ["x"] [.output ["p", "i", "q"]]] [] none false]

example : refOks [] (rootFrame ex4) ex4 = true ∧ resolveSites ex4 = ["a", "b", "x", "xs", "q"] := by decide
/-- `{% set x | replace(a, 'b') %}…{% endset %}`: the filter's names are analysed in the set block's frame
    (idtracking.py:188-195; before /repo commit db02b7e they were not and `Symbols.ref('a')` raised AssertionError) -/
example : refOkTemplate [.assignBlock (.store "x") ["a"] [.output []]] = true ∧
    resolveSites [.assignBlock (.store "x") ["a"] [.output []]] = ["a"] := by decide

end JinjaV.C32
