/-
  C09 — async mode renders exactly what sync mode renders.

  Three layers, each re-checked on every run:
  * the expression fragment: the compiled pipeline for `{{ e }}` does not observe `environment.is_async` (the only
    place `as_const` consults it is the async-variant guard of filters/tests, and folding is unobservable: C08);
  * the await model (Model/Await.lean): `auto_await`, `auto_aiter`, `auto_to_list`, `async for`, the shapes of the
    `@async_variant` pairs and `AsyncLoopContext` are transparent — on data whose awaitables / async iterables are
    replaced by their results they compute what the sync code computes;
  * the inventory of pairs and of iterable consumers read from filters.py / tests.py (Gen/AsyncPairs.lean) is the
    one these theorems are about.
-/
import JinjaV.Props.C02
import JinjaV.Props.C07
import JinjaV.Model.Await
import JinjaV.Gen.AsyncPairs

namespace JinjaV.C09
open JinjaV.Expr JinjaV.Await

/-! ## 1. the expression fragment -/

/-- the same compile-time configuration with `environment.is_async` set to `b` -/
def withAsync (c : CCfg) (b : Bool) : CCfg := { c with isAsync := b }

section
variable (c : CCfg) (b : Bool) (ae : Bool) (ctx : Ctx)

theorem applyBin_async (op : BinOp) (x y : Val) : applyBin (withAsync c b) ctx op x y = applyBin c ctx op x y := rfl
theorem applyUn_async (op : UnOp) (x : Val) : applyUn (withAsync c b) ctx op x = applyUn c ctx op x := rfl

mutual
/-- the reference evaluator never inspects `is_async` -/
theorem eval_async : (e : Expr) → eval (withAsync c b) ae ctx e = eval c ae ctx e
  | .const _ => by simp [eval]
  | .name _ => by simp [eval]
  | .tuple es => by simp only [eval, evalList_async es]
  | .list es => by simp only [eval, evalList_async es]
  | .dict kvs => by simp only [eval, evalPairs_async kvs]
  | .cond t x y => by simp only [eval, eval_async t, eval_async x, evalElse_async y]
  | .and_ x y => by simp only [eval, eval_async x, eval_async y]
  | .or_ x y => by simp only [eval, eval_async x, eval_async y]
  | .not_ x => by simp only [eval, eval_async x]
  | .compare e ops => by
    simp only [eval, eval_async e]
    congr; funext v; exact evalCmp_async v ops
  | .bin op x y => by simp only [eval, eval_async x, eval_async y, applyBin_async]
  | .concat es => by simp only [eval, evalList_async es]; rfl
  | .un op x => by simp only [eval, eval_async x, applyUn_async]
  | .getattr e a => by simp only [eval, eval_async e]
  | .getitem e i => by simp only [eval, eval_async e, eval_async i]
  | .slice e x y s => by simp only [eval, eval_async e, evalOpt_async x, evalOpt_async y, evalOpt_async s]
  | .call f args => by simp only [eval, eval_async f, evalList_async args]
  | .filter e name args => by simp only [eval, eval_async e, evalList_async args]
  | .test e name args => by simp only [eval, eval_async e, evalList_async args]
theorem evalList_async : (es : List Expr) → evalList (withAsync c b) ae ctx es = evalList c ae ctx es
  | [] => by simp [evalList]
  | e :: es => by simp only [evalList, eval_async e, evalList_async es]
theorem evalPairs_async : (kvs : List (Expr × Expr)) → evalPairs (withAsync c b) ae ctx kvs = evalPairs c ae ctx kvs
  | [] => by simp [evalPairs]
  | (k, v) :: rest => by simp only [evalPairs, eval_async k, eval_async v, evalPairs_async rest]
theorem evalElse_async : (o : Option Expr) → evalElse (withAsync c b) ae ctx o = evalElse c ae ctx o
  | none => by simp [evalElse]
  | some e => by simp only [evalElse, eval_async e]
theorem evalOpt_async : (o : Option Expr) → evalOpt (withAsync c b) ae ctx o = evalOpt c ae ctx o
  | none => by simp [evalOpt]
  | some e => by simp only [evalOpt, eval_async e]
theorem evalCmp_async (v : Val) : (ops : List (CmpOp × Expr)) → evalCmp (withAsync c b) ae ctx v ops = evalCmp c ae ctx v ops
  | [] => by simp [evalCmp]
  | (op, e) :: rest => by
    simp only [evalCmp, eval_async e]
    congr; funext w; congr; funext r
    split
    · exact evalCmp_async w rest
    · rfl
end

theorem renderExpr_async (e : Expr) : renderExpr (withAsync c b) ae ctx e = renderExpr c ae ctx e := by
  simp only [renderExpr, eval_async]

/-- **async_flag_unobservable_expr**: for every expression, context, configuration (autoescape static or decided at
    run time, sandbox with any interception sets) and optimizer setting, the compiled pipeline for `{{ e }}` — over
    the `Impossible` guards and filter/test tables read from the source on this run — yields the same value, error
    and operator-hook events with `is_async` on and off.  (In async mode filters with an async variant are not
    folded at compile time — the guard `filterAsync` — so the two pipelines differ in *what* they fold; C08 makes
    folding unobservable, `eval_async` makes the run-time part independent of the flag.) -/
theorem async_flag_unobservable_expr (hc : C08.Coherent c ae) (optimized : Bool) (e : Expr) :
    compileRender Gen.ExprTables.guards Gen.ExprTables.tables (withAsync c true) optimized ae ctx e
      = compileRender Gen.ExprTables.guards Gen.ExprTables.tables (withAsync c false) optimized ae ctx e := by
  have h1 : C08.Coherent (withAsync c true) ae := hc
  have h2 : C08.Coherent (withAsync c false) ae := hc
  rw [C02.compiled_is_reference _ ae ctx h1, C02.compiled_is_reference _ ae ctx h2, renderExpr_async, renderExpr_async]
end

/-- the two pipelines really differ in what they fold: `{{ [1, 2]|sum }}` is a compile-time constant in sync mode
    and a run-time filter call in async mode — and both render `3` -/
example :
    let c : CCfg := ⟨false, false, false, [], [], false⟩
    let e : Expr := .filter (.list [.const (.int 1), .const (.int 2)]) "sum" []
    (asConst Gen.ExprTables.guards Gen.ExprTables.tables (withAsync c false) e).isSome = true ∧
    (asConst Gen.ExprTables.guards Gen.ExprTables.tables (withAsync c true) e).isSome = false ∧
    (compileRender Gen.ExprTables.guards Gen.ExprTables.tables (withAsync c true) true false emptyCtx e).2 = .ok "3" ∧
    (compileRender Gen.ExprTables.guards Gen.ExprTables.tables (withAsync c false) true false emptyCtx e).2 = .ok "3" := by
  refine ⟨by rfl, by rfl, by rfl, by rfl⟩

/-! ## 2. awaiting is transparent -/

/-- a sync value handed over as an awaitable resolving to it -/
def wrapAwaitable {α} (v : AV α) : AV α := .awaitable v

/-- a sync iterable handed over as an async iterable of the same items -/
def wrapAsyncIter {α} : AV α → AV α
  | .iter xs => .asyncIter xs
  | v => v

/-- **await_transparent**: `auto_await` returns a non-awaitable value unchanged (through the fast path or not) and an
    awaitable's result — so `await auto_await(wrap v) = v` for both ways a sync value reaches async code -/
theorem await_transparent {α} (v : AV α) (hv : v.isAwaitable = false) :
    autoAwait v = v ∧ autoAwait (wrapAwaitable v) = v := by
  constructor
  · unfold autoAwait; simp [hv]
  · simp [autoAwait, wrapAwaitable, AV.isCommonPrimitive, AV.isAwaitable, awaitOf]

example : autoAwait (wrapAwaitable (AV.plain true (7 : Int))) = .plain true 7 ∧ autoAwait (AV.plain false (7 : Int)) = .plain false 7 := by
  decide

/-- only one level is awaited (Python's `await` is not recursive): a coroutine returning a coroutine stays awaitable -/
theorem await_once {α} (v : AV α) : autoAwait (wrapAwaitable (wrapAwaitable v)) = wrapAwaitable v := by
  simp [autoAwait, wrapAwaitable, AV.isCommonPrimitive, AV.isAwaitable, awaitOf]

theorem asyncFor_eq_foldl {α σ} (step : σ → α → σ) : (it : AIt α) → (s : σ) → asyncFor step s it = it.rest.foldl step s
  | .native [], s => by unfold asyncFor; simp [AIt.anext, AIt.rest]
  | .native (x :: r), s => by
    unfold asyncFor
    simp only [AIt.anext, AIt.rest, List.foldl_cons]
    exact asyncFor_eq_foldl step (.native r) (step s x)
  | .wrapped [], s => by unfold asyncFor; simp [AIt.anext, AIt.rest]
  | .wrapped (x :: r), s => by
    unfold asyncFor
    simp only [AIt.anext, AIt.rest, List.foldl_cons]
    exact asyncFor_eq_foldl step (.wrapped r) (step s x)

theorem collect_eq_rest {α} (it : AIt α) : collect it = it.rest := by
  unfold collect
  rw [asyncFor_eq_foldl]
  have : ∀ (xs acc : List α), (xs.foldl (fun acc x => x :: acc) acc).reverse = acc.reverse ++ xs := by
    intro xs
    induction xs with
    | nil => simp
    | cons x xs ih => intro acc; simp only [List.foldl_cons, ih, List.reverse_cons, List.append_assoc, List.singleton_append]
  rw [this]; simp

/-- **async_for_visits_items**: `async for x in auto_aiter(v)` runs its body on exactly the items a sync `for` sees, in
    order, for a sync iterable and for the async iterable of the same items; a value that is not iterable is a TypeError
    for `auto_aiter` as it is for `iter` -/
theorem async_for_visits_items {α σ} (step : σ → α → σ) (s : σ) (xs : List α) :
    (autoAiter (.iter xs)).map (asyncFor step s) = (syncItems (.iter xs)).map (fun ys => ys.foldl step s) ∧
    (autoAiter (.asyncIter xs)).map (asyncFor step s) = (syncItems (.iter xs)).map (fun ys => ys.foldl step s) ∧
    (∀ p (v : α), autoAiter (AV.plain p v) = .error .typeError ∧ syncItems (AV.plain p v) = .error .typeError) := by
  simp [autoAiter, syncItems, Except.map, asyncFor_eq_foldl, AIt.rest]

/-- **auto_to_list_items**: `await auto_to_list(v)` is the list of items, for sync and async iterables alike -/
theorem auto_to_list_items {α} (xs : List α) : autoToList (.iter xs) = .ok xs ∧ autoToList (.asyncIter xs) = .ok xs := by
  simp [autoToList, autoAiter, Except.map, collect_eq_rest, AIt.rest]

example : autoToList (AV.asyncIter [1, 2, 3]) = .ok [1, 2, 3] ∧ autoToList (AV.plain true (5 : Nat)) = .error .typeError := by
  simp [autoToList, autoAiter, Except.map, collect_eq_rest, AIt.rest]

/-- an async iterable is *not* iterable by sync code: the hypothesis the consumers without an async variant lack
    (DESIGN F17) -/
theorem sync_cannot_iterate_async {α} (xs : List α) : syncItems (AV.asyncIter xs) = .error .typeError ∧
    autoToList (AV.asyncIter xs) = .ok xs := by
  simp [syncItems, (auto_to_list_items xs).2]

/-! ### the shapes of the `@async_variant` pairs -/

/-- shape `syncOnList` (unique, join, slice): the async variant is the sync function on the same items -/
theorem variant_syncOnList {α β} (f : List α → β) (xs : List α) :
    variantSyncOnList f (.iter xs) = .ok (f xs) ∧ variantSyncOnList f (.asyncIter xs) = .ok (f xs) := by
  simp [variantSyncOnList, (auto_to_list_items xs).1, (auto_to_list_items xs).2, Except.map]

/-- shape `fold .rebind` (sum): the explicit loop is `sum(map(g, iterable), start)` -/
theorem variant_fold {α β} (add : β → β → β) (g : α → β) (start : β) (xs : List α) :
    variantFold add g start (.iter xs) = .ok (syncSum add g start xs) ∧
    variantFold add g start (.asyncIter xs) = .ok (syncSum add g start xs) := by
  simp [variantFold, autoAiter, Except.map, asyncFor_eq_foldl, AIt.rest, syncSum]

example : variantFold (· + ·) id 10 (AV.asyncIter [1, 2, 3]) = .ok (16 : Int) := by
  rw [(variant_fold _ _ _ _).2]; rfl

/-- async generators (map, select, reject, selectattr, rejectattr): the items produced are those of the sync generator -/
theorem variant_gen {α β} (emit : α → List β) (xs : List α) :
    variantGen emit (.iter xs) = .ok (syncGen emit xs) ∧ variantGen emit (.asyncIter xs) = .ok (syncGen emit xs) := by
  have : ∀ (ys : List α) (acc : List β),
      (ys.foldl (fun acc x => (emit x).reverse ++ acc) acc).reverse = acc.reverse ++ ys.flatMap emit := by
    intro ys
    induction ys with
    | nil => simp
    | cons y ys ih =>
      intro acc
      simp only [List.foldl_cons, ih, List.flatMap_cons, List.reverse_append, List.reverse_reverse, List.append_assoc]
  simp only [variantGen, autoAiter, Except.map, asyncFor_eq_foldl, AIt.rest, syncGen, this, List.reverse_nil, List.nil_append,
    and_self]

example : variantGen (fun x : Nat => if x % 2 == 1 then [x] else []) (AV.asyncIter [1, 2, 3]) = .ok [1, 3] := by
  rw [(variant_gen _ _).2]; rfl

/-- `first`: `await auto_aiter(seq).__anext__()` is `next(iter(seq))`; exhaustion (→ undefined) coincides -/
theorem variant_first {α} (xs : List α) :
    variantFirst (.iter xs) = .ok xs.head? ∧ variantFirst (.asyncIter xs) = .ok xs.head? := by
  cases xs <;> simp [variantFirst, autoAiter, Except.map, AIt.anext]

/-! ### AsyncLoopContext is LoopContext on the awaited items -/

open JinjaV.Loop (V Op Out)

theorem abs_withBase (s : ASt) (b : Loop.St) (h1 : b.sizedLen = s.sizedLen) (h2 : b.iter = s.iter.rest) (h3 : b.depth0 = s.depth0) :
    (s.withBase b).abs = b := by
  cases b; simp_all [ASt.withBase, ASt.abs]

theorem anext_rest {it it' : AIt V} {x : V} (h : it.anext = some (x, it')) : it.rest = x :: it'.rest := by
  cases it with
  | native r => cases r <;> simp_all [AIt.anext] <;> (obtain ⟨rfl, rfl⟩ := h; simp [AIt.rest])
  | wrapped r => cases r <;> simp_all [AIt.anext] <;> (obtain ⟨rfl, rfl⟩ := h; simp [AIt.rest])

theorem anext_none {it : AIt V} (h : it.anext = none) : it.rest = [] := by
  cases it with
  | native r => cases r <;> simp_all [AIt.anext, AIt.rest]
  | wrapped r => cases r <;> simp_all [AIt.anext, AIt.rest]

theorem apeekNext_sim (s : ASt) : (apeekNext s).1.abs = (Loop.peekNext s.abs).1 ∧ (apeekNext s).2 = (Loop.peekNext s.abs).2 := by
  unfold apeekNext Loop.peekNext
  cases ha : s.after with
  | some a => simp [ASt.abs, ha]
  | none =>
    cases hn : s.iter.anext with
    | none => simp [ASt.abs, ha, anext_none hn]
    | some p =>
      obtain ⟨x, it'⟩ := p
      simp [ASt.abs, ha, anext_rest hn]

theorem agetLength_sim (s : ASt) : (agetLength s).1.abs = (Loop.getLength s.abs).1 ∧ (agetLength s).2 = (Loop.getLength s.abs).2 := by
  unfold agetLength Loop.getLength
  cases hl : s.length with
  | some n => simp [ASt.abs, hl]
  | none =>
    cases hs : s.sizedLen with
    | some n => simp [ASt.abs, hl, hs]
    | none => simp [ASt.abs, hl, hs, collect_eq_rest, AIt.rest]

theorem anextLoop_sim (s : ASt) : (anextLoop s).1.abs = (Loop.next s.abs).1 ∧ (anextLoop s).2 = (Loop.next s.abs).2 := by
  unfold anextLoop Loop.next
  cases ha : s.after with
  | some a => simp [ASt.abs, ha]
  | none =>
    cases hn : s.iter.anext with
    | none => simp [ASt.abs, ha, anext_none hn]
    | some p =>
      obtain ⟨x, it'⟩ := p
      simp [ASt.abs, ha, anext_rest hn]

/-- one operation: the async machine and the sync machine stay in corresponding states and answer the same -/
theorem astep_sim (s : ASt) (op : Op) : (astep s op).1.abs = (Loop.step s.abs op).1 ∧ (astep s op).2 = (Loop.step s.abs op).2 := by
  have hp := apeekNext_sim s
  have hl := agetLength_sim s
  have hn := anextLoop_sim s
  cases op with
  | next => exact hn
  | length => simp only [astep, Loop.step]; exact ⟨hl.1, by rw [hl.2]⟩
  | revindex => simp only [astep, Loop.step]; exact ⟨hl.1, by rw [hl.2]; rfl⟩
  | revindex0 => simp only [astep, Loop.step]; exact ⟨hl.1, by rw [hl.2]; rfl⟩
  | last => simp only [astep, Loop.step]; exact ⟨hp.1, by rw [hp.2]⟩
  | nextitem =>
    simp only [astep, Loop.step]
    rw [← hp.2]
    cases h : (apeekNext s).2 <;> simp [hp.1]
  | first => simp [astep, Loop.step, ASt.withBase, ASt.abs]
  | previtem =>
    simp only [astep, Loop.step]
    split <;> (try split) <;> simp [ASt.withBase, ASt.abs]
  | index => simp [astep, Loop.step, ASt.withBase, ASt.abs]
  | index0 => simp [astep, Loop.step, ASt.withBase, ASt.abs]
  | depth => simp [astep, Loop.step, ASt.withBase, ASt.abs]
  | depth0 => simp [astep, Loop.step, ASt.withBase, ASt.abs]
  | cycle args =>
    simp only [astep, Loop.step]
    split <;> (try split) <;> simp [ASt.withBase, ASt.abs]
  | changed vals =>
    simp only [astep, Loop.step]
    split <;> simp [ASt.withBase, ASt.abs]

theorem arun_sim : (ops : List Op) → (s : ASt) → (arun s ops).2 = (Loop.run s.abs ops).2
  | [], _ => rfl
  | op :: ops, s => by
    have h := astep_sim s op
    simp only [arun, Loop.run, h.2]
    rw [arun_sim ops (astep s op).1, h.1]

/-- **async_loop_is_loop**: for every item list, sized or not, handed over as a sync iterable (wrapped by `auto_aiter`)
    or as an async iterable, and every finite sequence of `__anext__` / attribute operations, `AsyncLoopContext` answers
    exactly what `LoopContext` answers on the same items -/
theorem async_loop_is_loop (xs : List V) (sized native : Bool) (d : Nat) (ops : List Op) :
    (arun (ainit xs sized native d) ops).2 = (Loop.run (Loop.init xs sized d) ops).2 := by
  rw [arun_sim]
  congr 2
  cases native <;> simp [ainit, ASt.abs, Loop.init, AIt.rest]

/-- … hence the documented values of the `loop` variable (C07) hold in async mode too -/
theorem async_loop_attr_values (xs : List V) (sized native : Bool) (d : Nat) (ops : List Op) :
    (arun (ainit xs sized native d) ops).2 = (SpecLoop.run (SpecLoop.init xs d) ops).2 := by
  rw [async_loop_is_loop, C07.loop_attr_values]

example : (arun (ainit [7, 8, 9] false true 0) [.next, .last, .length, .next, .nextitem, .revindex, .next, .last, .next]).2
    = [.item 7, .bool false, .int 3, .item 8, .val 9, .int 2, .item 9, .bool true, .stop] := by
  rw [async_loop_is_loop]; decide

/-! ## 3. the inventory read from filters.py / tests.py is the one the theorems above are about -/

open JinjaV.Gen.AsyncPairs

/-- every `@async_variant` pair, with the shape of its async body: nothing new, nothing changed -/
theorem pairs_known :
    filterPairs.map (fun p => (p.filters, p.syncFn, p.shape, p.asyncGen)) =
      [(["unique"], "sync_do_unique", .syncOnList, false),
       (["join"], "sync_do_join", .syncOnList, false),
       (["first"], "sync_do_first", .erases, false),
       (["slice"], "sync_do_slice", .syncOnList, false),
       (["groupby"], "sync_do_groupby", .erases, false),
       (["sum"], "sync_do_sum", .fold .rebind, false),
       (["list"], "sync_do_list", .erases, false),
       (["map"], "sync_do_map", .erases, true),
       (["select"], "sync_do_select", .erases, true),
       (["reject"], "sync_do_reject", .erases, true),
       (["selectattr"], "sync_do_selectattr", .erases, true),
       (["rejectattr"], "sync_do_rejectattr", .erases, true)] ∧
    testPairs = [] ∧
    helperTwins = [("async_select_or_reject", "select_or_reject", true)] := by decide

/-- no async variant accumulates in place (`rv += …` would modify a list passed as `start`: DESIGN F6) -/
theorem no_inplace_accumulation : ∀ p ∈ filterPairs ++ testPairs, p.shape ≠ .fold .inplace := by decide

/-- every registered filter name with an async variant is listed exactly once in the pair inventory, and vice versa -/
theorem variants_are_pairs :
    (∀ n ∈ filterVariants, n ∈ filterPairs.flatMap (·.filters)) ∧ (∀ n ∈ filterPairs.flatMap (·.filters), n ∈ filterVariants) ∧
    filterVariants.length = (filterPairs.flatMap (·.filters)).length := by decide

/-- the iterable-producing async variants (async generators) are exactly the five known producers -/
theorem producers_known :
    (filterPairs.filter (·.asyncGen)).flatMap (·.filters) = ["map", "select", "reject", "selectattr", "rejectattr"] := by decide

/-- the filters and tests that take an iterable but have *no* async variant — the consumers that cannot take the result
    of a producer in async mode (DESIGN F17, known findings `C09:sync-only-consumer:<name>`); a new one breaks this -/
theorem sync_only_consumers_known :
    (filterConsumers.filter (!·.2)).map (·.1) =
      ["batch", "count", "last", "length", "min", "max", "random", "reverse", "sort", "truncate", "urlencode", "urlize"] ∧
    (testConsumers.filter (!·.2)).map (·.1) = ["sequence", "iterable", "in"] := by decide

/-- the places where the code generator awaits (read from compiler.py): attribute and item access, filter and test calls,
    calls (sandboxed or not), the recursive loop call and the template lookup of an import.  The translation validation
    requires an await at each of them; a site that disappears from the compiler breaks this. -/
theorem await_sites_known :
    awaitWrapped = ["environment.getattr", "environment.getitem", "<filter>", "<test>", "environment.call", "context.call"] ∧
    awaitBare = ["environment.get_template", "loop"] := by decide

/-! ### full-strength statements that do NOT hold (known findings; negations proved in Findings/F17.lean) -/

/-- what "a producer's result can be handed to any consumer in async mode" needs: every filter/test that takes an iterable
    has an async variant.  False (DESIGN F17). -/
def ConsumersHaveVariants : Prop := ∀ c ∈ filterConsumers ++ testConsumers, c.2 = true

/-- what "async mode consumes a one-shot iterable like sync mode" needs: an async variant is lazy (an async generator)
    exactly when its sync function is a generator.  False for `unique` and `slice` (known findings C09:consumption:*). -/
def LazinessPreserved : Prop := ∀ p ∈ filterPairs ++ testPairs, p.syncIsGen = p.asyncGen

/-- … and `unique` and `slice` (sync: generators that read their input when first iterated; async: the input is drained
    when the filter is called) are the only pairs that break it -/
theorem laziness_preserved_except_known :
    ∀ p ∈ filterPairs ++ testPairs, p.filters ≠ ["unique"] → p.filters ≠ ["slice"] → p.syncIsGen = p.asyncGen := by
  decide

end JinjaV.C09
