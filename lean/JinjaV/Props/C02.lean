/-
  C02 — compiled expressions evaluate as the documented expression semantics.
-/
import JinjaV.Lemmas.Expr
import JinjaV.Gen.ExprTables
import JinjaV.Props.C08

namespace JinjaV.C02
open JinjaV.Expr

variable (c : CCfg) (ae : Bool) (ctx : Ctx)

/-! ### attribute syntax: attribute, then item, else undefined -/

theorem getattr_attribute_first (o : Val) (a : String) (v : Val) (h : pyGetattr ctx o a = .ok (some v)) :
    envGetattr ctx o a = .ok v := by simp [envGetattr, h]

theorem getattr_then_item (o : Val) (a : String) (v : Val) (h : pyGetattr ctx o a = .ok none)
    (hi : pyGetitem ctx o (.str a) = .ok v) : envGetattr ctx o a = .ok v := by simp [envGetattr, h, hi]

theorem getattr_missing_undefined (o : Val) (a : String) (h : pyGetattr ctx o a = .ok none)
    (hi : pyGetitem ctx o (.str a) = .error .keyError ∨ pyGetitem ctx o (.str a) = .error .typeError) :
    envGetattr ctx o a = .ok (.undef a) := by
  rcases hi with hi | hi <;> simp [envGetattr, h, hi, undefinedFor]

/-! ### subscript syntax: item, then (string keys) attribute, else undefined -/

theorem getitem_item_first (o k v : Val) (h : pyGetitem ctx o k = .ok v) : envGetitem ctx o k = .ok v := by
  simp [envGetitem, h]

theorem getitem_then_attribute (o : Val) (a : String) (v : Val)
    (hi : pyGetitem ctx o (.str a) = .error .keyError ∨ pyGetitem ctx o (.str a) = .error .typeError)
    (h : pyGetattr ctx o a = .ok (some v)) : envGetitem ctx o (.str a) = .ok v := by
  rcases hi with hi | hi <;> simp [envGetitem, h, hi]

theorem getitem_missing_undefined (o : Val) (a : String)
    (hi : pyGetitem ctx o (.str a) = .error .keyError ∨ pyGetitem ctx o (.str a) = .error .typeError)
    (h : pyGetattr ctx o a = .ok none) : envGetitem ctx o (.str a) = .ok (.undef a) := by
  rcases hi with hi | hi <;> simp [envGetitem, h, hi, undefinedFor]

/-- a data object whose attribute and item of the same name differ: `o.k` is the attribute, `o['k']` the item -/
example :
    let ctx : Ctx := { emptyCtx with
      attrs := fun _ a => if a == "k" then some (.str "attr") else none,
      items := fun _ k => if pyEq k (.str "k") then some (.str "item") else none }
    envGetattr ctx (.obj 0) "k" = .ok (.str "attr") ∧ envGetitem ctx (.obj 0) (.str "k") = .ok (.str "item") := by
  simp [envGetattr, pyGetattr, envGetitem, pyGetitem, pyEq, intOf]

/-! ### names, logic, conditionals -/

theorem missing_name_undefined (n : String) (h : ctx.vars.find? (·.1 == n) = none) :
    eval c ae ctx (.name n) = M.ok (.undef "") := by
  simp [eval, lookupVar, h, pure_def]

theorem bound_name (n : String) (p : String × Val) (h : ctx.vars.find? (·.1 == n) = some p) :
    eval c ae ctx (.name n) = M.ok p.2 := by
  simp [eval, lookupVar, h, pure_def]

/-- `a and b`: a falsy left operand is the result and the right operand is not evaluated (no events, no errors from it) -/
theorem and_short_circuit (a b : Expr) (av : Val) (h : eval c ae ctx a = M.ok av) (hf : truth av = false) :
    eval c ae ctx (.and_ a b) = M.ok av := by
  simp [eval, h, bind_ok, hf, pure_def]

theorem and_right (a b : Expr) (av : Val) (h : eval c ae ctx a = M.ok av) (ht : truth av = true) :
    eval c ae ctx (.and_ a b) = eval c ae ctx b := by
  simp [eval, h, bind_ok, ht]

theorem or_short_circuit (a b : Expr) (av : Val) (h : eval c ae ctx a = M.ok av) (ht : truth av = true) :
    eval c ae ctx (.or_ a b) = M.ok av := by
  simp [eval, h, bind_ok, ht, pure_def]

theorem or_right (a b : Expr) (av : Val) (h : eval c ae ctx a = M.ok av) (hf : truth av = false) :
    eval c ae ctx (.or_ a b) = eval c ae ctx b := by
  simp [eval, h, bind_ok, hf]

theorem cond_without_else_undefined (t a : Expr) (tv : Val) (h : eval c ae ctx t = M.ok tv) (hf : truth tv = false) :
    ∃ hint, eval c ae ctx (.cond t a none) = M.ok (.undef hint) := by
  refine ⟨"the inline if-expression evaluated to false and no else section was defined.", ?_⟩
  simp [eval, evalElse, h, bind_ok, hf, pure_def]

theorem cond_picks_branch (t a b : Expr) (tv : Val) (h : eval c ae ctx t = M.ok tv) :
    eval c ae ctx (.cond t a (some b)) = if truth tv then eval c ae ctx a else eval c ae ctx b := by
  simp [eval, evalElse, h, bind_ok]

/-! ### comparison chains: every operand once, left to right, stop at the first false link -/

theorem chain_stops (e a : Expr) (op : CmpOp) (rest : List (CmpOp × Expr)) (v w : Val)
    (he : eval c ae ctx e = M.ok v) (ha : eval c ae ctx a = M.ok w) (hc : pyCmp op v w = .ok false) :
    eval c ae ctx (.compare e ((op, a) :: rest)) = M.ok (.bool false) := by
  simp [eval, evalCmp, he, ha, bind_ok, hc, lift_ok, pure_def]

theorem chain_continues (e a : Expr) (op : CmpOp) (rest : List (CmpOp × Expr)) (v w : Val)
    (he : eval c ae ctx e = M.ok v) (ha : eval c ae ctx a = M.ok w) (hc : pyCmp op v w = .ok true) :
    eval c ae ctx (.compare e ((op, a) :: rest)) = evalCmp c ae ctx w rest := by
  simp [eval, evalCmp, he, ha, bind_ok, hc, lift_ok]

/-- `1 < 2 < 3 == 3` evaluated by the model -/
example : (eval ⟨false, false, false, [], [], false⟩ false emptyCtx
    (.compare (.const (.int 1)) [(.lt, .const (.int 2)), (.lt, .const (.int 3)), (.eq, .const (.int 3))])).2
      = .ok (.bool true) := by
  simp [eval, evalCmp, pyCmp, pyOrd, pyEq, intOf, isUndef, bind_ok, pure_def, lift_ok, compare, compareOfLessAndEq, Except.map]
  rfl

/-! ### the parser's precedence chain and the operator tables, as read from the source on this run -/

/-- the documented chain (docs/templates.rst, loosest binding first): which level hands over to which -/
def documentedChain : List (String × List String × List String) :=
  [("parse_condexpr", ["parse_condexpr", "parse_or"], ["name:else", "name:if"]),
   ("parse_or", ["parse_and"], ["name:or"]),
   ("parse_and", ["parse_not"], ["name:and"]),
   ("parse_not", ["parse_compare", "parse_not"], ["name:not"]),
   ("parse_compare", ["parse_math1"], ["_compare_operators", "in", "name:in", "name:not", "notin"]),
   ("parse_math1", ["parse_concat"], ["_math_nodes", "add", "sub"]),
   ("parse_concat", ["parse_math2"], ["tilde"]),
   ("parse_math2", ["parse_pow"], ["_math_nodes", "div", "floordiv", "mod", "mul"]),
   ("parse_pow", ["parse_unary"], ["pow"]),
   ("parse_unary", ["parse_filter_expr", "parse_postfix", "parse_primary", "parse_unary"], ["add", "sub"])]

theorem chain_is_documented : Gen.ExprTables.parserChain = documentedChain := by decide

theorem operator_tables_documented :
    Gen.ExprTables.mathNodes = [("add", "nodes.Add"), ("sub", "nodes.Sub"), ("mul", "nodes.Mul"), ("div", "nodes.Div"),
      ("floordiv", "nodes.FloorDiv"), ("mod", "nodes.Mod")] ∧
    Gen.ExprTables.compareOperators = ["eq", "gt", "gteq", "lt", "lteq", "ne"] ∧
    Gen.ExprTables.compilerOperators = [("eq", "'=='"), ("ne", "'!='"), ("gt", "'>'"), ("gteq", "'>='"), ("lt", "'<'"),
      ("lteq", "'<='"), ("in", "'in'"), ("notin", "'not in'")] ∧
    Gen.ExprTables.binopToFunc = [("*", "operator.mul"), ("/", "operator.truediv"), ("//", "operator.floordiv"),
      ("**", "operator.pow"), ("%", "operator.mod"), ("+", "operator.add"), ("-", "operator.sub")] ∧
    Gen.ExprTables.uaopToFunc = [("not", "operator.not_"), ("+", "operator.pos"), ("-", "operator.neg")] ∧
    Gen.ExprTables.cmpopToFunc = [("eq", "operator.eq"), ("ne", "operator.ne"), ("gt", "operator.gt"), ("gteq", "operator.ge"),
      ("lt", "operator.lt"), ("lteq", "operator.le"), ("in", "lambda a, b: a in b"), ("notin", "lambda a, b: a not in b")] ∧
    Gen.ExprTables.visitorOperators = [("visit_Add", "+"), ("visit_Sub", "-"), ("visit_Mul", "*"), ("visit_Div", "/"),
      ("visit_FloorDiv", "//"), ("visit_Pow", "**"), ("visit_Mod", "%"), ("visit_And", "and"), ("visit_Or", "or"),
      ("visit_Pos", "+"), ("visit_Neg", "-"), ("visit_Not", "not ")] := by decide

/-! ### the compiled pipeline is the reference evaluator (over the guards and tables read from the source) -/

theorem guards_present : Gen.ExprTables.guards = Guards.all := by decide

/-- The optimizer's traversal is the one `opt` models: class Optimizer defines nothing but `generic_visit` (no per-node
    rewrites), the evaluation context given to `optimizer.visit(node, frame.eval_ctx)` is forwarded by every child-visit
    call of the visitor classes (positional and keyword arguments alike) and is what `as_const` receives. -/
theorem optimizer_traversal_as_modelled :
    Gen.ExprTables.optimizerMethods = ["__init__", "generic_visit"]
    ∧ Gen.ExprTables.optimizerForwardsCtx = true
    ∧ Gen.ExprTables.visitorWalkCalls = (6, 6)
    ∧ Gen.ExprTables.optimizeconstPassesCtx = true := by decide

/-- Only values of exactly the builtin literal types are written back into generated code as their `repr`
    (`has_safe_repr` tests `type(value)`, never `isinstance`): a subclass instance — the `_GroupTuple` of `groupby`, a
    `str` subclass — is never folded into a constant that would rebuild as the base type. -/
theorem safe_repr_is_exact_type_test :
    Gen.ExprTables.safeReprLooseTests = []
    ∧ Gen.ExprTables.safeReprExactTypes =
        [["Markup", "bool", "complex", "float", "int", "range", "str"], ["frozenset", "list", "set", "tuple"], ["dict"]] := by
  decide

theorem compiled_is_reference (hc : C08.Coherent c ae) (optimized : Bool) (e : Expr) :
    compileRender Gen.ExprTables.guards Gen.ExprTables.tables c optimized ae ctx e = renderExpr c ae ctx e := by
  rw [guards_present]
  exact C08.compile_render_sound Gen.ExprTables.tables c ae ctx hc optimized e

end JinjaV.C02
