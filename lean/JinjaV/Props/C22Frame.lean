/-
  C22, frame half: "the collection filters (sync and async variants) do not modify their arguments" and "the filters that are
  documented to build a new list / iterator do not hand back the argument object".

  The list functions of Model/FiltColl.lean are pure (a Lean function cannot modify its input), so the model has nothing to say
  about a frame.  What CAN be said about the real code is read from it on every run: Gen/FilterMutators.lean
  (translate/filter_mutators.py, Python `ast`) lists, for the functions behind every collection filter name of `FILTERS` and every
  helper of filters.py / async_utils.py they call, each in-place operation whose receiver may be (part of) an argument
  (`mutations`) and what each `return` hands back (`results`).  The theorems below pin that inventory; a source change that sorts,
  reverses, appends to, assigns into or `+=`-es something that may be an argument, or that lets a materialising function return
  its argument, changes the Gen file and the `decide` fails.  The dynamic half (deep snapshot of every argument before and after
  the real call; `result is not argument`) is the harness oracle in harness/props/c22.py.
-/
import JinjaV.Gen.FilterMutators

namespace JinjaV.C22Frame
open JinjaV.Gen.FilterMutators

/-- the collection filters of the property's statement (`count` is `length`'s alias; `items` added) -/
def collectionFilters : List String :=
  ["batch", "slice", "unique", "groupby", "sort", "dictsort", "reverse", "first", "last", "min", "max", "sum", "join", "list",
   "length", "count", "map", "select", "reject", "selectattr", "rejectattr", "items"]

/-- the filters whose contract is "a NEW list / iterator": the result must not be the argument object -/
def newObjectFilters : List String :=
  ["list", "sort", "dictsort", "groupby", "unique", "batch", "slice", "reverse", "map", "select", "reject", "selectattr",
   "rejectattr", "items"]

def isBuiltin (f : String) : Bool := f == "builtin:len"

/-- a result kind that cannot be an argument: a generator object or something built in the function -/
def isFreshKind (k : String) : Bool := k == "generator" || k == "fresh"

/-- every return of `f` hands back a new object (and `f` was analysed and returns something) -/
def returnsFresh (res : List (String × List String)) (f : String) : Bool :=
  match res.lookup f with
  | some ks => !ks.isEmpty && ks.all isFreshKind
  | none => false

def filterReturnsFresh (ros : List (String × List String)) (res : List (String × List String)) (name : String) : Bool :=
  match ros.lookup name with
  | some fs => !fs.isEmpty && fs.all (returnsFresh res)
  | none => false

/-- **roster_covers_collection_filters**: every collection filter name is bound in `FILTERS` and its functions (async and sync
    variant) were analysed, `length`/`count` being the builtin `len` (which has no body to analyse and mutates nothing). -/
theorem roster_covers_collection_filters :
    collectionFilters.all (fun n =>
      match roster.lookup n with
      | some fs => !fs.isEmpty && fs.all (fun f => isBuiltin f || analysed.contains f)
      | none => false) = true := by decide

/-- **async_variants_in_roster**: the filters the property names as having an async variant are analysed in both variants. -/
theorem async_variants_in_roster :
    ["slice", "unique", "groupby", "first", "sum", "join", "list", "map", "select", "reject", "selectattr", "rejectattr"].all
      (fun n => match roster.lookup n with | some fs => fs.length == 2 | none => false) = true := by decide

/-- **no_inplace_mutation_of_arguments** (static frame): in no analysed function is there an in-place operation
    (`.sort(`, `.reverse(`, `.append(`, …, `x[i] = v`, `del x[i]`, `x += v`) whose receiver may be an argument of the filter or an
    object reachable from one. -/
theorem no_inplace_mutation_of_arguments : mutations = [] := by decide

/-- **auto_to_list_fresh**: the materialiser shared by the async variants always builds a new list — this is what makes
    `sorted(await auto_to_list(v))`, `sync_do_slice(await auto_to_list(v), …)` etc. safe, and `v|list` a copy in async mode. -/
theorem auto_to_list_fresh : results.lookup "auto_to_list" = some ["fresh"] := by decide

/-- **new_object_filters_return_fresh**: every function behind a "returns a new list / iterator" filter returns, on every path,
    a generator or an object built in the function — never (something reachable from) an argument. -/
theorem new_object_filters_return_fresh :
    newObjectFilters.all (filterReturnsFresh roster results) = true := by decide

/-! the decision functions are not trivially true: the two edits of a "sort the caller's list in place" change are rejected -/
example : returnsFresh [("auto_to_list", ["alias value", "fresh"])] "auto_to_list" = false := by decide
example : filterReturnsFresh [("list", ["do_list", "sync_do_list"])]
    [("do_list", ["alias await auto_to_list(value)"]), ("sync_do_list", ["fresh"])] "list" = false := by decide
example : filterReturnsFresh [("list", ["do_list", "sync_do_list"])] [("do_list", ["fresh"])] "list" = false := by decide
example : ([("do_groupby", "items", "sort")] : List (String × String × String)) ≠ [] := by decide
example : returnsFresh results "sync_do_unique" = true ∧ returnsFresh results "do_sort" = true := by decide

end JinjaV.C22Frame
