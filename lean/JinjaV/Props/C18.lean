/-
  C18 — unsafe callables are never invoked from a sandboxed template (decision logic).

  Over `Gen/Sandbox.lean` (READ from sandbox.py every run): `SandboxedEnvironment.call`
  has the shape `if <guard>: raise SecurityError; return context.call(obj, …)`.
-/
import JinjaV.Gen.Sandbox

namespace JinjaV.C18
open JinjaV.Gen.Sandbox

/-- the call is forwarded only to callables the safety check admits -/
theorem call_guard (o : Obj) (h : Sandboxed_call o = .invoke) : Sandboxed_is_safe_callable o = true := by
  unfold Sandboxed_call at h
  cases hs : Sandboxed_is_safe_callable o <;> simp_all

/-- callables marked `unsafe_callable` or `alters_data` are not admitted, whatever other
    marker attributes they carry -/
theorem marked_unsafe_rejected (o : Obj)
    (h : o.flag "unsafe_callable" = true ∨ o.flag "alters_data" = true) :
    Sandboxed_is_safe_callable o = false := by
  unfold Sandboxed_is_safe_callable
  rcases h with h | h <;> simp [h]

theorem marked_unsafe_never_invoked (o : Obj)
    (h : o.flag "unsafe_callable" = true ∨ o.flag "alters_data" = true) :
    Sandboxed_call o = .securityError := by
  unfold Sandboxed_call
  simp [marked_unsafe_rejected o h]

-- non-vacuity: unmarked callables go through; both markers are honoured independently
example : Sandboxed_call ⟨[], [], []⟩ = .invoke ∧ Sandboxed_call ⟨[], ["alters_data"], []⟩ = .securityError ∧
    Sandboxed_call ⟨[], ["unsafe_callable"], []⟩ = .securityError := by decide +kernel

end JinjaV.C18
