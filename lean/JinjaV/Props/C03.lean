/-
  C03 — statements and variable scoping follow Jinja's scoping rules.
  Theorems about the reference interpreter (Model/Stmt.lean), for every program, context, state and fuel.
-/
import JinjaV.Model.Stmt
import JinjaV.Lemmas.RenameStmt

namespace JinjaV.C03
open JinjaV.Expr JinjaV.Stmt

/-! ### lookups: innermost scope first, then outwards -/

theorem lookup_innermost_first (f : Frame) (rest : List Frame) (n : String) (p : String × Val)
    (h : f.vars.find? (·.1 == n) = some p) : lookupFrames (f :: rest) n = some p.2 := by
  simp [lookupFrames, h]

theorem lookup_falls_through (f : Frame) (rest : List Frame) (n : String)
    (h : f.vars.find? (·.1 == n) = none) : lookupFrames (f :: rest) n = lookupFrames rest n := by
  simp [lookupFrames, h]

/-! ### what a statement may change -/

/-- `st'` differs from `st` at most in its innermost scope (and namespace cells / the quirk flag) -/
def SameOuter (st st' : St) : Prop :=
  st'.frames.tail = st.frames.tail ∧ st'.frames.length = st.frames.length

theorem SameOuter.refl (st : St) : SameOuter st st := ⟨rfl, rfl⟩

theorem SameOuter.trans {a b c : St} (h1 : SameOuter a b) (h2 : SameOuter b c) : SameOuter a c :=
  ⟨h2.1.trans h1.1, h2.2.trans h1.2⟩

theorem SameOuter.of_frames_eq {a b : St} (h : b.frames = a.frames) : SameOuter a b := by
  simp [SameOuter, h]

/-- the runner for shorter fuel changes only the innermost scope -/
def Preserves (rn : Runner) : Prop :=
  ∀ st body st' out sig, rn st body = .ok (st', out, sig) → SameOuter st st'

theorem noteReads_frames (st : St) (ns : List String) : (noteReads st ns).frames = st.frames := by
  unfold noteReads; split <;> rfl

theorem bind_sameOuter (st : St) (n : String) (v : Val) : SameOuter st (st.bind n v) := by
  unfold St.bind SameOuter
  split <;> simp_all

theorem bindMacro_sameOuter (st : St) (n : String) (m : MacroDef) : SameOuter st (st.bindMacro n m) := by
  unfold St.bindMacro SameOuter
  split <;> simp_all

/-- **a fresh scope never leaks**: whatever `body` does, after `inScope` the scopes are exactly those of `base` -/
theorem inScope_frames (rn : Runner) (base : St) (f : Frame) (body : List Stmt) (st' : St) (out : String) (sig : Sig)
    (h : inScope rn base f body = .ok (st', out, sig)) : st'.frames = base.frames := by
  unfold inScope at h
  split at h
  · simp at h; obtain ⟨rfl, _, _⟩ := h; rfl
  · simp at h

theorem pickBranch_frames (ctxVars : List (String × Val)) (els : List Stmt) :
    ∀ (branches : List (Expr × List Stmt)) (st st' : St) (body : List Stmt),
      pickBranch ctxVars els st branches = .ok (st', body) → st'.frames = st.frames
  | [], st, st', body, h => by simp [pickBranch] at h; obtain ⟨rfl, _⟩ := h; rfl
  | (c, b) :: more, st, st', body, h => by
    simp only [pickBranch] at h
    split at h
    · split at h
      · simp at h; obtain ⟨rfl, _⟩ := h; exact noteReads_frames _ _
      · have := pickBranch_frames ctxVars els more _ st' body h
        rw [this]; exact noteReads_frames _ _
    · simp at h

/-- **a macro call never leaks**: the caller's scopes are untouched, whatever the macro body assigns -/
theorem callMacroWith_frames (rn : Runner) (ctxVars : List (String × Val)) (fuelA : Nat) (st : St) (name : String)
    (args : List Expr) (caller : Option CallerDef) (st' : St) (out : String)
    (h : callMacroWith rn ctxVars fuelA st name args caller = .ok (st', out)) : st'.frames = st.frames := by
  unfold callMacroWith at h
  simp only at h
  iterate 9 (all_goals (try split at h))
  all_goals (try (simp at h; done))
  all_goals (simp at h; obtain ⟨rfl, _⟩ := h; exact noteReads_frames _ _)

/-- **loop iterations never leak**: after any number of iterations the scopes are those before the loop -/
theorem forLoop_frames (rn : Runner) (ctxVars : List (String × Val)) (fuelA : Nat) (target : String) (filt : Option Expr)
    (body : List Stmt) :
    ∀ (items : List Val) (st : St) (acc : String) (ran : Bool) (st' : St) (out : String) (ran' : Bool),
      forLoop rn ctxVars fuelA target filt body st acc ran items = .ok (st', out, ran') → st'.frames = st.frames
  | [], st, acc, ran, st', out, ran', h => by simp [forLoop] at h; obtain ⟨rfl, _, _⟩ := h; rfl
  | item :: more, st, acc, ran, st', out, ran', h => by
    simp only [forLoop] at h
    split at h
    · simp at h
    · -- filtered out
      rename_i stk hk
      have hk' : stk.frames = st.frames := by
        cases filt with
        | none => simp at hk
        | some fe =>
          simp only at hk
          split at hk
          · simp at hk; obtain ⟨rfl, _⟩ := hk; rfl
          · simp at hk
      rw [forLoop_frames rn ctxVars fuelA target filt body more stk acc ran st' out ran' h, hk']
    · rename_i stk hk
      have hk' : stk.frames = st.frames := by
        cases filt with
        | none => simp at hk; obtain ⟨rfl, _⟩ := hk; rfl
        | some fe =>
          simp only at hk
          split at hk
          · simp at hk; obtain ⟨rfl, _⟩ := hk; rfl
          · simp at hk
      split at h
      · simp at h
      · rename_i st1 out1 hin
        simp at h; obtain ⟨rfl, _, _⟩ := h
        rw [inScope_frames rn stk _ body _ out1 .brk hin, hk']
      · rename_i st1 out1 sig1 _ hin
        rw [forLoop_frames rn ctxVars fuelA target filt body more st1 _ true st' out ran' h,
          inScope_frames rn stk _ body st1 out1 sig1 hin, hk']

/-- **one statement changes at most the innermost scope**, provided the runner for its sub-programs does -/
theorem step_sameOuter (rn : Runner) (hrn : Preserves rn) (ctxVars : List (String × Val)) (fuelA : Nat) (st : St) (s : Stmt)
    (st' : St) (out : String) (sig : Sig) (h : step rn ctxVars fuelA st s = .ok (st', out, sig)) : SameOuter st st' := by
  cases s with
  | text t => simp [step] at h; obtain ⟨rfl, _, _⟩ := h; exact SameOuter.refl _
  | out e =>
    simp only [step] at h
    split at h
    · simp at h; obtain ⟨rfl, _, _⟩ := h; exact SameOuter.of_frames_eq (noteReads_frames _ _)
    · simp at h
  | ifs branches els =>
    simp only [step] at h
    split at h
    · rename_i st1 body hp
      have h1 := pickBranch_frames ctxVars els branches st st1 body hp
      exact (SameOuter.of_frames_eq h1).trans (hrn st1 body st' out sig h)
    · simp at h
  | set n e =>
    simp only [step] at h
    split at h
    · simp at h; obtain ⟨rfl, _, _⟩ := h
      exact (SameOuter.of_frames_eq (noteReads_frames st _)).trans (bind_sameOuter _ n _)
    · simp at h
  | setBlock n body =>
    simp only [step] at h
    split at h
    · rename_i st1 out1 sig1 hin
      simp at h; obtain ⟨rfl, _, _⟩ := h
      exact (SameOuter.of_frames_eq (inScope_frames rn st _ body st1 out1 sig1 hin)).trans (bind_sameOuter _ n _)
    · simp at h
  | with_ binds body =>
    simp only [step] at h
    split at h
    · exact (SameOuter.of_frames_eq (noteReads_frames st _)).trans
        (SameOuter.of_frames_eq (inScope_frames rn _ _ body st' out sig h))
    · simp at h
  | filterBlock fname body =>
    simp only [step] at h
    split at h
    · rename_i st1 out1 sig1 hin
      split at h
      · simp at h; obtain ⟨rfl, _, _⟩ := h
        exact SameOuter.of_frames_eq (inScope_frames rn st _ body st1 out1 sig1 hin)
      · simp at h
    · simp at h
  | «macro» n params body =>
    simp [step] at h; obtain ⟨rfl, _, _⟩ := h; exact bindMacro_sameOuter _ n _
  | callMacro n args =>
    simp only [step] at h
    split at h
    · rename_i st1 out1 hc
      simp at h; obtain ⟨rfl, _, _⟩ := h
      exact SameOuter.of_frames_eq (callMacroWith_frames rn ctxVars fuelA st n args none st1 out1 hc)
    · simp at h
  | callBlock n args body =>
    simp only [step] at h
    split at h
    · rename_i st1 out1 hc
      simp at h; obtain ⟨rfl, _, _⟩ := h
      have hf := callMacroWith_frames rn ctxVars fuelA { st with sites := st.sites ++ [st.frames] } n args _ st1 out1 hc
      exact SameOuter.of_frames_eq hf
    · simp at h
  | callerOut =>
    simp only [step] at h
    split at h
    · simp at h
    · split at h
      · simp at h; obtain ⟨rfl, _, _⟩ := h; exact SameOuter.refl _
      · simp at h
  | nsNew n inits =>
    simp only [step] at h
    split at h
    · simp at h; obtain ⟨rfl, _, _⟩ := h
      exact (SameOuter.of_frames_eq (noteReads_frames st _)).trans
        ((SameOuter.of_frames_eq rfl).trans (bind_sameOuter _ n _))
    · simp at h
  | nsSet nsName attr e =>
    simp only [step] at h
    split at h
    · split at h
      · simp at h; obtain ⟨rfl, _, _⟩ := h; exact SameOuter.of_frames_eq (noteReads_frames st _)
      · simp at h
    · simp at h
    · simp at h
    · simp at h
  | break_ => simp [step] at h; obtain ⟨rfl, _, _⟩ := h; exact SameOuter.refl _
  | continue_ => simp [step] at h; obtain ⟨rfl, _, _⟩ := h; exact SameOuter.refl _
  | for_ target iter filt body els =>
    simp only [step] at h
    split at h
    · simp at h
    · split at h
      · simp at h
      · split at h
        · simp at h
        · rename_i st1 out1 hl
          simp at h; obtain ⟨rfl, _, _⟩ := h
          exact (SameOuter.of_frames_eq (noteReads_frames st _)).trans
            (SameOuter.of_frames_eq (forLoop_frames rn ctxVars fuelA target filt body _ _ _ _ _ _ _ hl))
        · rename_i st1 out1 hl
          split at h
          · rename_i st2 out2 sig2 hin
            simp at h; obtain ⟨rfl, _, _⟩ := h
            exact (SameOuter.of_frames_eq (noteReads_frames st _)).trans
              ((SameOuter.of_frames_eq (forLoop_frames rn ctxVars fuelA target filt body _ _ _ _ _ _ _ hl)).trans
                (SameOuter.of_frames_eq (inScope_frames rn st1 _ els st2 out2 sig2 hin)))
          · simp at h

/-- **run_preserves_outer**: executing any statement list, with any fuel, in any state and context, changes at most the
    innermost scope: every enclosing scope (its variables, macros, caller) is exactly what it was, and no scope is
    added or removed -/
theorem run_preserves_outer (ctxVars : List (String × Val)) : ∀ fuel, Preserves (run ctxVars fuel)
  | 0 => by intro st body st' out sig h; simp [run] at h
  | fuel + 1 => by
    intro st body st' out sig h
    cases body with
    | nil => simp [run] at h; obtain ⟨rfl, _, _⟩ := h; exact SameOuter.refl _
    | cons s rest =>
      simp only [run] at h
      split at h
      · simp at h
      · rename_i st1 out1 hs
        have h1 := step_sameOuter (run ctxVars fuel) (run_preserves_outer ctxVars fuel) ctxVars fuel st s st1 out1 .normal hs
        split at h
        · rename_i st2 out2 sig2 hr
          simp at h; obtain ⟨rfl, _, _⟩ := h
          exact h1.trans (run_preserves_outer ctxVars fuel st1 rest st2 out2 sig2 hr)
        · simp at h
      · rename_i st1 out1 sig1 _ hs
        simp at h; obtain ⟨rfl, _, _⟩ := h
        exact step_sameOuter (run ctxVars fuel) (run_preserves_outer ctxVars fuel) ctxVars fuel st s st1 out1 sig1 hs

/-! ### the scoping rules, statement by statement (consequences) -/

/-- loops, `with`, filter blocks and macro calls leave ALL scopes as they were: nothing assigned inside is visible after -/
theorem scoped_no_leak (ctxVars : List (String × Val)) (fuel : Nat) (st st' : St) (out : String) (sig : Sig) (s : Stmt)
    (hs : (∃ t i f b e, s = .for_ t i f b e) ∨ (∃ bs b, s = .with_ bs b) ∨ (∃ f b, s = .filterBlock f b) ∨
          (∃ n a, s = .callMacro n a) ∨ (∃ n a b, s = .callBlock n a b) ∨ s = .callerOut)
    (h : step (run ctxVars fuel) ctxVars fuel st s = .ok (st', out, sig)) : st'.frames = st.frames := by
  rcases hs with ⟨t, i, f, b, e, rfl⟩ | ⟨bs, b, rfl⟩ | ⟨f, b, rfl⟩ | ⟨n, a, rfl⟩ | ⟨n, a, b, rfl⟩ | rfl
  · simp only [step] at h
    split at h
    · simp at h
    · split at h
      · simp at h
      · split at h
        · simp at h
        · rename_i st1 out1 hl
          simp at h; obtain ⟨rfl, _, _⟩ := h
          rw [forLoop_frames _ ctxVars fuel t f b _ _ _ _ _ _ _ hl, noteReads_frames]
        · rename_i st1 out1 hl
          split at h
          · rename_i st2 out2 sig2 hin
            simp at h; obtain ⟨rfl, _, _⟩ := h
            rw [inScope_frames _ st1 _ e st2 out2 sig2 hin, forLoop_frames _ ctxVars fuel t f b _ _ _ _ _ _ _ hl,
              noteReads_frames]
          · simp at h
  · simp only [step] at h
    split at h
    · rw [inScope_frames _ _ _ b st' out sig h, noteReads_frames]
    · simp at h
  · simp only [step] at h
    split at h
    · rename_i st1 out1 sig1 hin
      split at h
      · simp at h; obtain ⟨rfl, _, _⟩ := h
        exact inScope_frames _ st _ b st1 out1 sig1 hin
      · simp at h
    · simp at h
  · simp only [step] at h
    split at h
    · rename_i st1 out1 hc
      simp at h; obtain ⟨rfl, _, _⟩ := h
      exact callMacroWith_frames _ ctxVars fuel st n a none st1 out1 hc
    · simp at h
  · simp only [step] at h
    split at h
    · rename_i st1 out1 hc
      simp at h; obtain ⟨rfl, _, _⟩ := h
      exact callMacroWith_frames _ ctxVars fuel { st with sites := st.sites ++ [st.frames] } n a _ st1 out1 hc
    · simp at h
  · simp only [step] at h
    split at h
    · simp at h
    · split at h
      · simp at h; obtain ⟨rfl, _, _⟩ := h; rfl
      · simp at h

/-- a block set binds exactly its own name: the scopes afterwards are those before with `n` bound to the block's text -/
theorem set_block_binds_only_name (ctxVars : List (String × Val)) (fuel : Nat) (st st' : St) (out : String) (sig : Sig)
    (n : String) (body : List Stmt) (h : step (run ctxVars fuel) ctxVars fuel st (.setBlock n body) = .ok (st', out, sig)) :
    ∃ text ns q, st' = ({ st with ns := ns, quirk := q } : St).bind n (.str text) := by
  simp only [step] at h
  split at h
  · rename_i st1 out1 sig1 hin
    simp at h; obtain ⟨rfl, _, _⟩ := h
    unfold inScope at hin
    split at hin
    · simp at hin; obtain ⟨rfl, rfl, _⟩ := hin; exact ⟨_, _, _, rfl⟩
    · simp at hin
  · simp at h

/-- `if` shares the enclosing scope: the chosen branch runs directly in the current state -/
theorem if_shares_scope (rn : Runner) (ctxVars : List (String × Val)) (fuelA : Nat) (st st1 : St)
    (branches : List (Expr × List Stmt)) (els body : List Stmt)
    (hp : pickBranch ctxVars els st branches = .ok (st1, body)) :
    step rn ctxVars fuelA st (.ifs branches els) = rn st1 body ∧ st1.frames = st.frames := by
  constructor
  · simp [step, hp]
  · exact pickBranch_frames ctxVars els branches st st1 body hp


/-! ### consistent renaming -/

/-- **render_alpha**: renaming every identifier of a program (variables, loop targets, macro names and parameters, namespace
    variables) and of the render context by the same injective map changes neither the output, nor the error, nor whether a
    read-before-later-assignment occurred — for every program, context and fuel.  (Attribute names, filter names and
    namespace attribute names are not identifiers of this kind and stay.) -/
theorem render_alpha (ρ : String → String) (hρ : Function.Injective ρ) (fuel : Nat) (ctxVars : List (String × Val))
    (body : List Stmt) :
    render fuel (renVars ρ ctxVars) (renStmts ρ body) = render fuel ctxVars body := by
  unfold render
  have hinit : initSt (renStmts ρ body) = renSt ρ (initSt body) := by
    simp [initSt, renSt, renFrame, renVars, assignedIn_ren]
  rw [hinit, run_sim ρ hρ ctxVars fuel (initSt body) body]
  cases run ctxVars fuel (initSt body) body with
  | error e => rfl
  | ok r => obtain ⟨st, out, sig⟩ := r; rfl

/-- expression level: value, error and hook events of an expression are invariant under consistent renaming -/
theorem eval_alpha (ρ : String → String) (hρ : Function.Injective ρ) (c : CCfg) (ae : Bool) (ctx : Ctx) (e : Expr) :
    eval c ae (renCtx ρ ctx) (renExpr ρ e) = eval c ae ctx e := eval_rename ρ hρ c ae ctx e

/-- the renaming `a ↦ b, b ↦ a` on a two-variable program -/
example : renStmts (fun n => if n == "a" then "b" else if n == "b" then "a" else n)
    [.set "a" (.name "b"), .out (.name "a")] = [.set "b" (.name "a"), .out (.name "b")] := by
  simp [renStmts, renStmt, renExpr]

/-! ### generated identifiers -/

/-- the Python identifier the code generator uses for template variable `x` of the scope at `depth` (idtracking.py:54) -/
def ident (depth : Nat) (x : List Char) : List Char := "l_".toList ++ (toString depth).toList ++ '_' :: x

/-- within one scope, distinct names get distinct identifiers (for names that Python's parser does not merge:
    identifiers that differ only by NFKC normalisation are merged by CPython — known finding) -/
theorem ident_injective_name (depth : Nat) (x y : List Char) (h : ident depth x = ident depth y) : x = y := by
  unfold ident at h
  have h1 := List.append_cancel_left h
  simpa using h1

example : ident 1 "x".toList = "l_1_x".toList := by decide

end JinjaV.C03
