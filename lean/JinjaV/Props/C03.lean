/-
  C03 — statements and variable scoping follow Jinja's scoping rules.
-/
import JinjaV.Model.Stmt

namespace JinjaV.C03
open JinjaV.Expr JinjaV.Stmt

/-! ### lookups: innermost scope first, then outwards -/

theorem lookup_innermost_first (f : Frame) (rest : List Frame) (n : String) (p : String × Val)
    (h : f.vars.find? (·.1 == n) = some p) : lookupFrames (f :: rest) n = some p.2 := by
  simp [lookupFrames, h]

theorem lookup_falls_through (f : Frame) (rest : List Frame) (n : String)
    (h : f.vars.find? (·.1 == n) = none) : lookupFrames (f :: rest) n = lookupFrames rest n := by
  simp [lookupFrames, h]

end JinjaV.C03
