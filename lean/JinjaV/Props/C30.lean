/-
  C30 (part 2) — template compilation is deterministic: the emitted lines do not depend on the order in which any `set`
  is iterated.

  Model: Model/Symbols.lean (idtracking.Symbols and the generator functions that turn symbols into source lines).  Every
  iteration over a set goes through a chooser constrained only to return a permutation; a `Chooser` gives every visit of
  every iteration site its own, unrelated ordering.  All theorems hold for all programs, all parent chains and all valid
  choosers.  Lemmas: Lemmas/Symbols.lean.  The inventory theorem over the source is in Props/C30Sites.lean.
-/
import JinjaV.Lemmas.Symbols

namespace JinjaV.C30
open JinjaV.Symbols

/-- the invariant the order independence of `branch_update` rests on is established by every sequence of symbol
    operations (including `branch_update` itself, under any chooser), starting from a fresh `Symbols` -/
theorem symbols_invariant {o : Chooser} (ho : o.Valid) (ps : List Sym) (lvl : Nat) (path : List Nat) (prog : Prog) :
    WF (analyze o ps path (emptySym lvl) prog) :=
  (analyze_spec ho ho ps prog path _ (wf_empty lvl)).2.1

/-- `branch_update`'s loop `for name in stores:` never reaches `assert target is not None`, and every write
    `self.loads[target] = …` goes to a key that already exists — so the dict order of `loads` (which `enter_frame` emits in)
    is fixed before the loop starts -/
theorem branchUpdate_targets_exist {s : Sym} {bs : List Sym} (ps : List Sym) (h : WF s)
    (hb : ∀ b ∈ bs, WF b ∧ b.level = s.level) :
    ∀ n ∈ branchNew s bs, ∃ t, findRefFrom (branchMerge s bs).refs ps n = some t ∧ t ∈ (branchMerge s bs).loads.keys :=
  fun _ hn => ⟨_, branch_targets ps h hb hn⟩

/-- `Symbols.branch_update` gives the same symbols whatever order the local set `stores` is iterated in -/
theorem branch_update_order_independent {s : Sym} {bs : List Sym} (ps : List Sym) (h : WF s)
    (hb : ∀ b ∈ bs, WF b ∧ b.level = s.level) {f g : List String → List String}
    (hf : ∀ l, (f l).Perm l) (hg : ∀ l, (g l).Perm l) :
    branchUpdate f ps s bs = branchUpdate g ps s bs := by
  unfold branchUpdate
  simp only
  rw [branchUpdate_perm ps h hb ((hf _).trans (hg _).symm) (fun n hn => (hf _).mem_iff.mp hn)]

/-- the whole symbol analysis of a frame (any nesting of if-branches) is independent of the chooser -/
theorem analyze_order_independent {o₁ o₂ : Chooser} (h₁ : o₁.Valid) (h₂ : o₂.Valid) (ps : List Sym) (lvl : Nat)
    (path : List Nat) (prog : Prog) :
    analyze o₁ ps path (emptySym lvl) prog = analyze o₂ ps path (emptySym lvl) prog :=
  (analyze_spec h₁ h₂ ps prog path _ (wf_empty lvl)).1

/-- `dump_stores` / `dump_local_context` (the code sorts) -/
theorem dump_stores_order_independent {f g : List String → List String} (hf : ∀ l, (f l).Perm l)
    (hg : ∀ l, (g l).Perm l) (chain : List Sym) : dumpLocalContext f chain = dumpLocalContext g chain := by
  unfold dumpLocalContext; rw [dumpStores_perm hf hg]

/-- `pop_assign_tracking`: the unsorted comprehension, `next(iter(vars))` and the sorted loop together emit the same lines
    for every iteration order of the tracked set -/
theorem pop_assign_order_independent {f g : List String → List String} (hf : ∀ l, (f l).Perm l)
    (hg : ∀ l, (g l).Perm l) (fl : Flags) (chain : List Sym) (vars : List String) :
    popAssign f fl chain vars = popAssign g fl chain vars :=
  popAssignWith_perm fl chain (hf vars) (hg vars)

/-- `pull_dependencies` (the code sorts both name sets): same lines, same temporary identifiers, same id maps -/
theorem pull_deps_order_independent {f g : List String → List String} (hf : ∀ l, (f l).Perm l)
    (hg : ∀ l, (g l).Perm l) (st : CgState) (fs ts : List String) : pullDeps f st fs ts = pullDeps g st fs ts :=
  pullDeps_perm hf hg st fs ts

/-- for any two choosers the emitted lines of a template (nested frames, symbol analysis with if-branches, derived
    contexts, assignment tracking, dependency pulls) are equal -/
theorem cg_order_independent {o₁ o₂ : Chooser} (h₁ : o₁.Valid) (h₂ : o₂.Valid) (fl : Flags) (analysis : Prog)
    (body : Code) : cgTemplate o₁ fl analysis body = cgTemplate o₂ fl analysis body := by
  unfold cgTemplate
  rw [cg_spec h₁ h₂]

-- non-vacuity -----------------------------------------------------------------------------------------------------

def revChooser : Chooser := fun _ l => l.reverse
def idChooser : Chooser := fun _ l => l

example : revChooser.Valid := fun _ l => List.reverse_perm l
example : idChooser.Valid := fun _ _ => List.Perm.refl _

/-- `{% if c %}{% set a = 1 %}{% set b = 2 %}{% else %}{% set b = 3 %}{% endif %}{{ a }}{{ b }}` inside a frame whose
    parent knows `a` -/
def exProg : Prog := .load "c" (.branch (.store "a" (.store "b" .done)) .done (.store "b" .done) (.load "a" (.load "b" .done)))
def exParent : Sym := analyze idChooser [] [] (emptySym 0) (.store "a" .done)

-- two names are written by the branch_update loop (in opposite orders under the two choosers), one of them as an alias of
-- the parent's reference, and the resulting loads agree
example : branchNew (load [exParent] (emptySym 1) "c")
    [analyze idChooser [exParent] [] (load [exParent] (emptySym 1) "c") (.store "a" (.store "b" .done)),
     load [exParent] (emptySym 1) "c",
     analyze idChooser [exParent] [] (load [exParent] (emptySym 1) "c") (.store "b" .done)] = ["a", "b"] := by decide
example : (analyze revChooser [exParent] [] (emptySym 1) exProg).loads =
    [("l_1_c", .resolve "c"), ("l_1_a", .alias "l_0_a"), ("l_1_b", .resolve "b")] := by decide
example : analyze revChooser [exParent] [] (emptySym 1) exProg = analyze idChooser [exParent] [] (emptySym 1) exProg := by
  decide

def exCode : Code :=
  .deps ["upper", "e"] ["odd"] (.assign ["x", "_y", "z"] (.frame { loopFrame := true } exProg (.derive (.assign ["q"] .done)) .done))

-- the hypotheses of `cg_order_independent` are satisfiable by two choosers that really differ on this template's sets
example : cgTemplate revChooser { toplevel := true, withPythonScope := true } (.store "x" (.store "_y" (.store "z" .done))) exCode =
    cgTemplate idChooser { toplevel := true, withPythonScope := true } (.store "x" (.store "_y" (.store "z" .done))) exCode :=
  cg_order_independent (fun _ l => List.reverse_perm l) (fun _ _ => List.Perm.refl _) _ _ _
example : revChooser [] ["x", "_y", "z"] ≠ idChooser [] ["x", "_y", "z"] := by decide

end JinjaV.C30
