/-
  C06 — macro argument binding follows the documented rules.

  `Macro.__call__` (cursor over positional arguments, `kwargs.pop`, special-casing of
  caller/kwargs/varargs) computes exactly the declarative binding of Spec/Macro.lean,
  for every signature and every call.
-/
import JinjaV.Model.Macro
import JinjaV.Spec.Macro

namespace JinjaV.C06
open JinjaV.Macro JinjaV.SpecMacro

def keys (kw : Kw) : List String := kw.map Prod.fst

theorem lookup_none_of_not_mem (kw : Kw) (name : String) (h : name ∉ keys kw) : lookup kw name = none := by
  induction kw with
  | nil => rfl
  | cons p r ih =>
    obtain ⟨k, v⟩ := p
    simp [keys] at h
    have hk : ¬ k = name := fun e => h.1 e.symm
    simp [lookup, hk]
    exact ih (by simpa [keys] using h.2)

/-- `pop` is lookup + removal (keys are distinct) -/
theorem pop_eq (kw : Kw) (name : String) (hn : (keys kw).Nodup) :
    pop kw name = (lookup kw name, kw.filter (fun p => p.1 != name)) := by
  induction kw with
  | nil => rfl
  | cons p r ih =>
    obtain ⟨k, v⟩ := p
    simp [keys] at hn
    by_cases hk : k = name
    · subst hk
      simp [pop, lookup]
      symm
      apply List.filter_eq_self.2
      intro q hq
      simp
      intro e
      exact hn.1 q.2 (by rw [← e]; exact hq)
    · have := ih (by simpa [keys] using hn.2)
      simp [pop, lookup, hk, this]

theorem keys_filter_nodup (kw : Kw) (f : String × V → Bool) (hn : (keys kw).Nodup) :
    (keys (kw.filter f)).Nodup := by
  unfold keys at *
  exact (List.Sublist.map _ List.filter_sublist).nodup hn

theorem lookup_filter (kw : Kw) (f : String → Bool) (name : String) (h : f name = true) :
    lookup (kw.filter (fun p => f p.1)) name = lookup kw name := by
  induction kw with
  | nil => rfl
  | cons p r ih =>
    obtain ⟨k, v⟩ := p
    by_cases hk : k = name
    · subst hk; simp [List.filter_cons, h, lookup]
    · by_cases hf : f k = true
      · simp [List.filter_cons, hf, lookup, hk, ih]
      · simp [List.filter_cons, hf, lookup, hk, ih]

/-- the fill loop = look each remaining parameter up by name, and remove those names -/
theorem fillRest_eq (names : List String) (kw : Kw) (hn : (keys kw).Nodup) (hnames : names.Nodup) :
    fillRest names kw = (names.map (byKeyword kw), kw.filter (fun p => !names.contains p.1)) := by
  induction names generalizing kw with
  | nil => simp only [fillRest, List.map_nil, List.contains_nil, Bool.not_false]; rw [List.filter_eq_self.2 (by simp)]
  | cons name names ih =>
    simp at hnames
    simp only [fillRest]
    rw [pop_eq kw name hn]
    simp only
    rw [ih _ (keys_filter_nodup kw _ hn) hnames.2]
    simp only [List.map_cons, Prod.mk.injEq, List.cons.injEq]
    refine ⟨⟨by rfl, ?_⟩, ?_⟩
    · apply List.map_congr_left
      intro n hnm
      have hne : (n != name) = true := by
        simp; intro e; subst e; exact hnames.1 hnm
      simp only [byKeyword]
      rw [lookup_filter kw (fun k => k != name) n hne]
    · rw [List.filter_filter]
      apply List.filter_congr
      intro q _
      by_cases hq : q.1 = name <;> simp [hq, Bool.and_comm]

theorem slots_eq (ps : List String) (args : List V) (kw : Kw) :
    slots ps args kw = (args.take ps.length).map Arg.val ++ (ps.drop args.length).map (byKeyword kw) := by
  induction ps generalizing args with
  | nil => simp [slots]
  | cons p ps ih =>
    cases args with
    | nil =>
      simp only [slots, List.take_nil, List.map_nil, List.nil_append, List.length_nil, List.drop_zero,
        List.map_cons]
      have := ih []
      simp at this
      rw [this]
    | cons a as => simp [slots, ih as]

/-- **C06**: for every signature with distinct parameter names and every call with
    distinct keyword names, the runtime binding equals the documented binding. -/
theorem macro_call_eq_spec (s : Sig) (args : List V) (kw : Kw)
    (hp : s.params.Nodup) (hk : (keys kw).Nodup) :
    call s args kw = bind s args kw := by
  have hoff : ((args.take s.params.length).map Arg.val).length = min s.params.length args.length := by
    simp [Nat.min_comm]
  have hdrop : s.params.drop (min s.params.length args.length) = s.params.drop args.length := by
    by_cases h : args.length ≤ s.params.length
    · rw [Nat.min_eq_right h]
    · have h' : s.params.length ≤ args.length := by omega
      rw [Nat.min_eq_left h', List.drop_length, List.drop_eq_nil_of_le h']
  have hfill : (if (((args.take s.params.length).map Arg.val).length != s.params.length) = true
        then fillRest (s.params.drop ((args.take s.params.length).map Arg.val).length) kw else ([], kw)) =
      ((s.params.drop args.length).map (byKeyword kw),
        kw.filter (fun p => !(s.params.drop args.length).contains p.1)) := by
    rw [hoff, hdrop]
    have hnd : (s.params.drop args.length).Nodup := (List.drop_sublist _ _).nodup hp
    split
    · exact fillRest_eq _ kw hk hnd
    · rename_i hne
      have : min s.params.length args.length = s.params.length := by simpa using hne
      have hle : s.params.length ≤ args.length := by omega
      simp only [List.drop_eq_nil_of_le hle, List.map_nil, List.contains_nil, Bool.not_false]
      rw [List.filter_eq_self.2 (by simp)]
  unfold call SpecMacro.bind
  simp only [hfill]
  rw [slots_eq]
  by_cases hic : implicitCaller s = true
  · -- the body reads `caller` and it is not a declared parameter
    have hcall : (s.caller && !s.params.contains "caller") = true := hic
    have hnc : "caller" ∉ s.params.drop args.length := by
      intro hm
      have := List.mem_of_mem_drop hm
      simp [implicitCaller] at hic
      exact hic.2 this
    have hk1 : (keys (kw.filter (fun p => !(s.params.drop args.length).contains p.1))).Nodup :=
      keys_filter_nodup kw _ hk
    simp only [hcall, hic, if_true]
    rw [pop_eq _ "caller" hk1]
    simp only
    have hl : lookup (kw.filter (fun p => !(s.params.drop args.length).contains p.1)) "caller" =
        lookup kw "caller" :=
      lookup_filter kw (fun k => !(s.params.drop args.length).contains k) "caller" (by simpa using hnc)
    have hlo : (kw.filter (fun p => !(s.params.drop args.length).contains p.1)).filter
          (fun p => p.1 != "caller") = leftover s args kw := by
      unfold leftover consumed
      rw [List.filter_filter, hic]
      apply List.filter_congr
      intro q _
      by_cases hq : q.1 = "caller" <;> simp [List.contains_append, Bool.and_comm, hq]
    rw [hl, hlo]
    simp only [List.append_assoc]
    by_cases hck : s.catchKwargs = true <;> by_cases hcv : s.catchVarargs = true <;>
      simp [hck, hcv, List.drop_eq_nil_iff] <;> (repeat' split) <;> simp_all <;> omega
  · have hcall : (s.caller && !s.params.contains "caller") = false := by
      simpa [implicitCaller] using hic
    have hic' : implicitCaller s = false := by simpa using hic
    have hlo : kw.filter (fun p => !(s.params.drop args.length).contains p.1) = leftover s args kw := by
      unfold leftover consumed
      simp [hic']
    simp only [hcall, hic', hlo]
    by_cases hck : s.catchKwargs = true <;> by_cases hcv : s.catchVarargs = true <;>
      simp [hck, hcv, List.drop_eq_nil_iff] <;> (repeat' split) <;> simp_all <;> omega

-- what the specification says, spelled out for the clauses of the property ------------------

/-- surplus positional arguments fail when the body does not use `varargs` -/
theorem surplus_positional_rejected (s : Sig) (args : List V) (kw : Kw)
    (hv : s.catchVarargs = false) (hlen : s.params.length < args.length) :
    ∀ as, bind s args kw ≠ .ok as := by
  intro as
  unfold SpecMacro.bind
  have : ¬ (args.drop s.params.length).isEmpty = true := by
    simp [List.drop_eq_nil_iff]; omega
  simp only [hv]
  split
  · simp
  · simp [this]

/-- an unknown keyword fails when the body does not use `kwargs` -/
theorem unknown_keyword_rejected (s : Sig) (args : List V) (kw : Kw) (k : String) (v : V)
    (hkw : s.catchKwargs = false) (hmem : (k, v) ∈ kw) (hk : k ∉ consumed s args) :
    ∀ as, bind s args kw ≠ .ok as := by
  intro as
  unfold SpecMacro.bind
  have hlo : (k, v) ∈ leftover s args kw := by
    unfold leftover
    simp [List.mem_filter, hmem]
    simpa using hk
  have : ¬ (leftover s args kw).isEmpty = true := by
    intro h; rw [List.isEmpty_iff] at h; rw [h] at hlo; simp at hlo
  simp [hkw, this]

-- non-vacuity
example : call { params := ["a", "b", "c"], catchKwargs := true, catchVarargs := false, caller := true }
    [1] [("c", 3), ("z", 9), ("caller", 7)] =
    .ok [.val 1, .missing, .val 3, .val 7, .kwargs [("z", 9)]] := by decide

end JinjaV.C06
