/-
  C08 — compile-time constant folding never changes what a template renders.
-/
import JinjaV.Lemmas.Expr

namespace JinjaV.C08
open JinjaV.Expr

variable (t : Tables) (c : CCfg) (ae : Bool) (ctx : Ctx)

/-- in a non-volatile frame the autoescape setting known at compile time is the one in force at run time -/
def Coherent (c : CCfg) (ae : Bool) : Prop := c.volatile = false → ae = c.autoescape

mutual
theorem asConst_sound (hc : Coherent c ae) :
    (e : Expr) → (v : Val) → asConst Guards.all t c e = some v → eval c ae ctx e = M.ok v
  | .const v, w, h => by simp [asConst] at h; simp [eval, pure_def, h]
  | .name _, w, h => by simp [asConst] at h
  | .tuple es, w, h => by
    simp only [asConst, Option.map_eq_some_iff] at h
    obtain ⟨vs, hvs, rfl⟩ := h
    simp [eval, asConstList_sound hc es vs hvs, bind_ok, pure_def]
  | .list es, w, h => by
    simp only [asConst, Option.map_eq_some_iff] at h
    obtain ⟨vs, hvs, rfl⟩ := h
    simp [eval, asConstList_sound hc es vs hvs, bind_ok, pure_def]
  | .dict kvs, w, h => by
    simp only [asConst, Option.bind_eq_some_iff] at h
    obtain ⟨ps, hps, hd⟩ := h
    simp [eval, asConstPairs_sound hc kvs ps hps, bind_ok, lift_ok, okOpt_some hd]
  | .cond tst a b, w, h => by
    simp only [asConst] at h
    split at h
    · simp at h
    · rename_i tv htv
      simp only [eval, asConst_sound hc tst tv htv, bind_ok]
      split at h
      · rename_i ht; simp [ht, asConst_sound hc a w h]
      · rename_i ht
        simp only [ht]
        exact asConstElse_sound hc b w h
  | .and_ a b, w, h => by
    simp only [asConst] at h
    split at h
    · simp at h
    · rename_i av hav
      simp only [eval, asConst_sound hc a av hav, bind_ok]
      split at h
      · rename_i ht; simp [ht, asConst_sound hc b w h]
      · rename_i ht; simp at h; subst h; simp [ht, pure_def]
  | .or_ a b, w, h => by
    simp only [asConst] at h
    split at h
    · simp at h
    · rename_i av hav
      simp only [eval, asConst_sound hc a av hav, bind_ok]
      split at h
      · rename_i ht; simp at h; subst h; simp [ht, pure_def]
      · rename_i ht; simp [ht, asConst_sound hc b w h]
  | .not_ a, w, h => by
    simp only [asConst, Option.map_eq_some_iff] at h
    obtain ⟨av, hav, rfl⟩ := h
    simp [eval, asConst_sound hc a av hav, bind_ok, pure_def]
  | .compare e ops, w, h => by
    simp only [asConst] at h
    split at h
    · simp at h
    · rename_i v hv
      simp only [eval, asConst_sound hc e v hv, bind_ok]
      exact asConstCmp_sound hc v ops w h
  | .bin op a b, w, h => by
    simp only [asConst, Guards.all, Bool.true_and] at h
    split at h
    · simp at h
    · rename_i hic
      split at h
      · rename_i av bv hav hbv
        simp only [eval, asConst_sound hc a av hav, asConst_sound hc b bv hbv, bind_ok, applyBin]
        simp [hic, lift_ok, okOpt_some h]
      · simp at h
  | .concat es, w, h => by
    simp only [asConst, Guards.all, Bool.true_and] at h
    split at h
    · simp at h
    · rename_i hvol
      split at h
      · simp at h
      · rename_i vs hvs
        simp at h hvol
        simp [eval, asConstList_sound hc es vs hvs, bind_ok, pure_def, hvol, ← h]
  | .un op a, w, h => by
    simp only [asConst, Guards.all, Bool.true_and] at h
    split at h
    · simp at h
    · rename_i hic
      split at h
      · rename_i av hav
        simp only [eval, asConst_sound hc a av hav, bind_ok, applyUn]
        simp [hic, lift_ok, okOpt_some h]
      · simp at h
  | .getattr e a, w, h => by
    simp only [asConst] at h
    split at h
    · rename_i v hv
      split at h
      · simp at h
      · rename_i ho
        simp at ho
        simp [eval, asConst_sound hc e v hv, bind_ok, lift_ok, envGetattr_ctx ctx v a ho, okOpt_some (constResult_some h)]
    · simp at h
  | .getitem e i, w, h => by
    simp only [asConst] at h
    split at h
    · rename_i v iv hv hiv
      split at h
      · simp at h
      · rename_i ho
        simp at ho
        simp [eval, asConst_sound hc e v hv, asConst_sound hc i iv hiv, bind_ok, lift_ok,
          envGetitem_ctx ctx v iv ho, okOpt_some (constResult_some h)]
    · simp at h
  | .slice e a b s, w, h => by
    simp only [asConst] at h
    split at h
    · rename_i v av bv sv hv hav hbv hsv
      simp [eval, asConst_sound hc e v hv, asConstOpt_sound hc a av hav, asConstOpt_sound hc b bv hbv,
        asConstOpt_sound hc s sv hsv, bind_ok, lift_ok, okOpt_some (constResult_some h)]
    · simp at h
  | .call _ _, w, h => by simp [asConst] at h
  | .filter e name args, w, h => by
    simp only [asConst, Guards.all, Bool.true_and] at h
    split at h
    · simp at h
    · rename_i hvol
      split at h
      · simp at h
      · split at h
        · simp at h
        · split at h
          · simp at h
          · split at h
            · rename_i v vs hv hvs
              simp at hvol
              have hae : ae = c.autoescape := hc hvol
              have h1 := asConst_sound hc e v hv
              have h2 := asConstList_sound hc args vs hvs
              simp only [eval, h1, h2, bind_ok]
              rw [hae, okOpt_some (constResult_some h)]; rfl
            · simp at h
  | .test e name args, w, h => by
    simp only [asConst, Guards.all, Bool.true_and] at h
    split at h
    · simp at h
    · split at h
      · simp at h
      · split at h
        · simp at h
        · split at h
          · simp at h
          · split at h
            · rename_i v vs hv hvs
              simp [eval, asConst_sound hc e v hv, asConstList_sound hc args vs hvs, bind_ok, lift_ok,
                okOpt_some (constResult_some h)]
            · simp at h
theorem asConstList_sound (hc : Coherent c ae) :
    (es : List Expr) → (vs : List Val) → asConstList Guards.all t c es = some vs → evalList c ae ctx es = M.ok vs
  | [], vs, h => by simp [asConstList] at h; simp [evalList, pure_def, h]
  | e :: es, vs, h => by
    simp only [asConstList] at h
    split at h
    · rename_i v ws hv hws
      simp at h
      simp [evalList, asConst_sound hc e v hv, asConstList_sound hc es ws hws, bind_ok, pure_def, h]
    · simp at h
theorem asConstPairs_sound (hc : Coherent c ae) :
    (kvs : List (Expr × Expr)) → (ps : List (Val × Val)) → asConstPairs Guards.all t c kvs = some ps →
      evalPairs c ae ctx kvs = M.ok ps
  | [], ps, h => by simp [asConstPairs] at h; simp [evalPairs, pure_def, h]
  | (k, v) :: rest, ps, h => by
    simp only [asConstPairs] at h
    split at h
    · rename_i kv vv qs hk hv hq
      simp at h
      simp [evalPairs, asConst_sound hc k kv hk, asConst_sound hc v vv hv, asConstPairs_sound hc rest qs hq,
        bind_ok, pure_def, h]
    · simp at h
theorem asConstOpt_sound (hc : Coherent c ae) :
    (o : Option Expr) → (ov : Option Val) → asConstOpt Guards.all t c o = some ov → evalOpt c ae ctx o = M.ok ov
  | none, ov, h => by simp [asConstOpt] at h; simp [evalOpt, pure_def, h]
  | some e, ov, h => by
    simp only [asConstOpt, Option.map_eq_some_iff] at h
    obtain ⟨v, hv, rfl⟩ := h
    simp [evalOpt, asConst_sound hc e v hv, bind_ok, pure_def]
theorem asConstCmp_sound (hc : Coherent c ae) (v : Val) :
    (ops : List (CmpOp × Expr)) → (w : Val) → asConstCmp Guards.all t c v ops = some w →
      evalCmp c ae ctx v ops = M.ok w
  | [], w, h => by simp [asConstCmp] at h; simp [evalCmp, pure_def, h]
  | (op, e) :: rest, w, h => by
    simp only [asConstCmp] at h
    split at h
    · simp at h
    · rename_i x hx
      split at h
      · simp at h
      · rename_i r hr
        simp only [evalCmp, asConst_sound hc e x hx, bind_ok, hr, lift_ok]
        split at h
        · rename_i hrt; simp only [hrt, if_true]; exact asConstCmp_sound hc x rest w h
        · rename_i hrf; simp at hrf h; subst h; simp [hrf, pure_def]
theorem asConstElse_sound (hc : Coherent c ae) :
    (b : Option Expr) → (w : Val) → asConstElse Guards.all t c b = some w → evalElse c ae ctx b = M.ok w
  | none, w, h => by simp [asConstElse, Guards.all] at h
  | some b, w, h => by simp only [asConstElse] at h; simp [evalElse, asConst_sound hc b w h]
end


/-- folding one node (what `Optimizer.generic_visit` does after visiting the children) is unobservable -/
theorem foldNode_sound (hc : Coherent c ae) (e : Expr) :
    eval c ae ctx (foldNode Guards.all t c e) = eval c ae ctx e := by
  unfold foldNode
  split
  · rename_i v hv
    split
    · simp [eval, pure_def, asConst_sound t c ae ctx hc e v hv]
    · rfl
  · rfl

mutual
/-- **opt_sound**: the optimiser (children first, then the node) never changes the value, the error, or the
    sequence of intercepted-operator events of an expression — for every expression, context and configuration -/
theorem opt_sound (hc : Coherent c ae) : (e : Expr) → eval c ae ctx (opt Guards.all t c e) = eval c ae ctx e
  | .const _ => by simp [opt]
  | .name _ => by simp [opt]
  | .tuple es => by simp only [opt, foldNode_sound t c ae ctx hc, eval, optList_sound hc es]
  | .list es => by simp only [opt, foldNode_sound t c ae ctx hc, eval, optList_sound hc es]
  | .dict kvs => by simp only [opt, foldNode_sound t c ae ctx hc, eval, optPairs_sound hc kvs]
  | .cond tst a b => by
    simp only [opt, foldNode_sound t c ae ctx hc, eval, opt_sound hc tst, opt_sound hc a, optElse_sound hc b]
  | .and_ a b => by simp only [opt, foldNode_sound t c ae ctx hc, eval, opt_sound hc a, opt_sound hc b]
  | .or_ a b => by simp only [opt, foldNode_sound t c ae ctx hc, eval, opt_sound hc a, opt_sound hc b]
  | .not_ a => by simp only [opt, foldNode_sound t c ae ctx hc, eval, opt_sound hc a]
  | .compare e ops => by
    simp only [opt, foldNode_sound t c ae ctx hc, eval, opt_sound hc e]
    congr; funext v; exact optCmp_sound hc v ops
  | .bin op a b => by simp only [opt, foldNode_sound t c ae ctx hc, eval, opt_sound hc a, opt_sound hc b]
  | .concat es => by simp only [opt, foldNode_sound t c ae ctx hc, eval, optList_sound hc es]
  | .un op a => by simp only [opt, foldNode_sound t c ae ctx hc, eval, opt_sound hc a]
  | .getattr e a => by simp only [opt, foldNode_sound t c ae ctx hc, eval, opt_sound hc e]
  | .getitem e i => by simp only [opt, foldNode_sound t c ae ctx hc, eval, opt_sound hc e, opt_sound hc i]
  | .slice e a b s => by
    simp only [opt, foldNode_sound t c ae ctx hc, eval, opt_sound hc e, optOpt_sound hc a, optOpt_sound hc b,
      optOpt_sound hc s]
  | .call f args => by simp only [opt, eval, opt_sound hc f, optList_sound hc args]
  | .filter e name args => by
    simp only [opt, foldNode_sound t c ae ctx hc, eval, opt_sound hc e, optList_sound hc args]
  | .test e name args => by
    simp only [opt, foldNode_sound t c ae ctx hc, eval, opt_sound hc e, optList_sound hc args]
theorem optList_sound (hc : Coherent c ae) :
    (es : List Expr) → evalList c ae ctx (optList Guards.all t c es) = evalList c ae ctx es
  | [] => by simp [optList]
  | e :: es => by simp only [optList, evalList, opt_sound hc e, optList_sound hc es]
theorem optPairs_sound (hc : Coherent c ae) :
    (kvs : List (Expr × Expr)) → evalPairs c ae ctx (optPairs Guards.all t c kvs) = evalPairs c ae ctx kvs
  | [] => by simp [optPairs]
  | (k, v) :: rest => by simp only [optPairs, evalPairs, opt_sound hc k, opt_sound hc v, optPairs_sound hc rest]
theorem optOpt_sound (hc : Coherent c ae) :
    (o : Option Expr) → evalOpt c ae ctx (optOpt Guards.all t c o) = evalOpt c ae ctx o
  | none => by simp [optOpt]
  | some e => by simp only [optOpt, evalOpt, opt_sound hc e]
theorem optElse_sound (hc : Coherent c ae) :
    (o : Option Expr) → evalElse c ae ctx (optOpt Guards.all t c o) = evalElse c ae ctx o
  | none => by simp [optOpt]
  | some e => by simp only [optOpt, evalElse, opt_sound hc e]
theorem optCmp_sound (hc : Coherent c ae) (v : Val) :
    (ops : List (CmpOp × Expr)) → evalCmp c ae ctx v (optCmp Guards.all t c ops) = evalCmp c ae ctx v ops
  | [] => by simp [optCmp]
  | (op, e) :: rest => by
    simp only [optCmp, evalCmp, opt_sound hc e]
    congr; funext w; congr; funext r
    split
    · exact optCmp_sound hc w rest
    · rfl
end

/-- **output_fold_sound**: a piece computed at compile time for `{{ e }}` is exactly what evaluating and
    escaping/stringifying at run time yields (and no operator hook is bypassed) -/
theorem output_fold_sound (hc : Coherent c ae) (e : Expr) (s : String)
    (h : outputConst Guards.all t c e = some s) : renderExpr c ae ctx e = M.ok s := by
  unfold outputConst at h
  simp only [Guards.all, Bool.true_and] at h
  split at h
  · simp at h
  · rename_i hv
    simp at hv
    simp only [Option.map_eq_some_iff] at h
    obtain ⟨v, hv', rfl⟩ := h
    have h1 := asConst_sound t c ae ctx hc e v hv'
    simp only [renderExpr, h1, bind_ok, pure_def]
    rw [hc hv]

theorem outputChild_sound (hc : Coherent c ae) (e : Expr) :
    outputChild Guards.all t c ae ctx e = renderExpr c ae ctx e := by
  unfold outputChild
  split
  · rename_i s hs
    rw [output_fold_sound t c ae ctx hc e s hs]; rfl
  · rfl

/-- **compile_render_sound** (the property): for every expression, context, configuration (autoescape static or
    decided at run time, sandbox with any interception sets, async) and optimizer setting, what the compiled
    template yields for `{{ e }}` — value, error and hook events — is what evaluating `e` without any folding yields -/
theorem compile_render_sound (hc : Coherent c ae) (optimized : Bool) (e : Expr) :
    compileRender Guards.all t c optimized ae ctx e = renderExpr c ae ctx e := by
  unfold compileRender
  rw [outputChild_sound t c ae ctx hc]
  split
  · simp [renderExpr, opt_sound t c ae ctx hc e]
  · rfl

/-- **volatile_no_fold**: when autoescape is decided at run time nothing is folded at the output level and the optimiser
    is not run -/
theorem volatile_no_fold (hv : c.volatile = true) (optimized : Bool) (e : Expr) :
    compileRender Guards.all t c optimized ae ctx e = renderExpr c ae ctx e := by
  simp [compileRender, outputChild, outputConst, hv, Guards.all]

end JinjaV.C08
