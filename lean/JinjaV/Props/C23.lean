/-
  C23 — string and number filters satisfy their documented contracts.

  Model: Model/FiltStr.lean (hand transcriptions of do_truncate, do_indent, do_center, do_trim, do_replace,
  do_wordcount (ASCII), the unit selection of do_filesizeformat; the try/except structure of do_int / do_float over
  Gen/ConvertTable.lean, which is regenerated from filters.py and re-measured on every run).

  Every theorem is for ALL strings / arguments (no bounds) except `convert_total`, `escapingRows_nil` and
  `convert_default_on_failure`, which are finite-table theorems over the regenerated Gen data (re-proved by `decide`
  on every run, so a change of the except clauses that lets another class escape breaks the proof).

  wordwrap is proved only RELATIVE to textwrap's contract (`WrapKeepsText`, `WrapFits` are hypotheses; the harness
  evaluates them on textwrap's actual output for every generated case).

  striptags is modelled for text without `&` (markupsafe's two cut loops + whitespace collapse; `html.unescape` is not
  modelled); format for positional arguments and `%s` / `%d` / `%%` (number rendering is a parameter).

  Not here (Python stdlib behaviour, correspondence-only in harness/props/c23.py): title, capitalize, upper, lower,
  urlencode, round, entity unescaping of striptags, other printf directives and keyword arguments of format.
-/
import JinjaV.Lemmas.FiltStr

namespace JinjaV.C23
open JinjaV.FiltStr JinjaV.Gen.ConvertTable

/-! ### truncate -/


theorem cutLastSpace_spec (t : Str) :
    (' ' ∉ t ∧ cutLastSpace t = t) ∨ (∃ w, ' ' ∉ w ∧ t = cutLastSpace t ++ ' ' :: w) := by
  unfold cutLastSpace
  have hsplit := @List.takeWhile_append_dropWhile _ (fun c : Char => c != ' ') t.reverse
  have htw : ∀ c ∈ t.reverse.takeWhile (fun c : Char => c != ' '), c ≠ ' ' := by
    intro c hc
    have := mem_takeWhile_imp hc
    simpa using this
  cases hd : t.reverse.dropWhile (fun c : Char => c != ' ') with
  | nil =>
    left
    rw [hd, List.append_nil] at hsplit
    refine ⟨?_, rfl⟩
    intro hmem
    have : ' ' ∈ t.reverse := List.mem_reverse.mpr hmem
    rw [← hsplit] at this
    exact htw _ this rfl
  | cons x rest =>
    right
    have hx : x = ' ' := by
      have := @List.head_dropWhile_not _ (fun c : Char => c != ' ') t.reverse (by rw [hd]; simp)
      simp [hd] at this
      exact this
    refine ⟨(t.reverse.takeWhile (fun c : Char => c != ' ')).reverse, ?_, ?_⟩
    · intro hmem
      exact htw _ (List.mem_reverse.mp hmem) rfl
    · rw [hd, hx] at hsplit
      have := congrArg List.reverse hsplit
      simp only [List.reverse_append, List.reverse_cons, List.reverse_reverse, List.append_assoc,
        List.singleton_append] at this
      exact this.symm

theorem cutLastSpace_prefix (t : Str) : cutLastSpace t <+: t := by
  rcases cutLastSpace_spec t with ⟨_, h⟩ | ⟨w, _, h⟩
  · rw [h]; exact List.prefix_refl _
  · exact ⟨' ' :: w, h.symm⟩


/-- the `assert`s: rejected exactly when `length < len(end)` or `leeway < 0` -/
theorem truncate_rejects (s : Str) (n : Int) (kw : Bool) (e : Str) (lw : Int) :
    truncate s n kw e lw = none ↔ (n < (e.length : Int) ∨ lw < 0) := by
  unfold truncate
  constructor
  · intro h
    split at h
    · left; assumption
    · split at h
      · right; assumption
      · split at h
        · cases h
        · split at h <;> cases h
  · rintro (h | h)
    · simp [h]
    · by_cases h1 : n < (e.length : Int)
      · simp [h1]
      · simp [h1, h]

/-- a text that exceeds `length` by at most the leeway is returned unchanged -/
theorem truncate_short {s : Str} {n : Int} {kw : Bool} {e : Str} {lw : Int}
    (h1 : (e.length : Int) ≤ n) (h2 : 0 ≤ lw) (h : (s.length : Int) ≤ n + lw) :
    truncate s n kw e lw = some s := by
  unfold truncate
  rw [if_neg (by omega), if_neg (by omega), if_pos h]

/-- a longer text: the result is `p ++ end` with `p` a prefix of `s`; it never exceeds `length`; with `killwords` it is
    exactly `length` long; without, `p` is the cut at `length - len(end)` reduced to the part before its last space
    (see `cutLastSpace_spec`) -/
theorem truncate_long {s : Str} {n : Int} {kw : Bool} {e : Str} {lw : Int}
    (h1 : (e.length : Int) ≤ n) (h2 : 0 ≤ lw) (h : n + lw < (s.length : Int)) :
    ∃ p, truncate s n kw e lw = some (p ++ e) ∧ p <+: s ∧ ((p ++ e).length : Int) ≤ n ∧
      (kw = true → p = s.take (n - e.length).toNat ∧ ((p ++ e).length : Int) = n) ∧
      (kw = false → p = cutLastSpace (s.take (n - e.length).toNat)) := by
  have hk : (s.take (n - e.length).toNat).length = (n - e.length).toNat := by
    rw [List.length_take]; omega
  unfold truncate
  rw [if_neg (by omega), if_neg (by omega), if_neg (by omega)]
  cases kw with
  | true =>
    refine ⟨s.take (n - e.length).toNat, by simp, List.take_prefix _ _, ?_, ?_, by simp⟩
    · rw [List.length_append, hk]; omega
    · intro _; refine ⟨rfl, ?_⟩; rw [List.length_append, hk]; omega
  | false =>
    refine ⟨cutLastSpace (s.take (n - e.length).toNat), by simp,
      (cutLastSpace_prefix _).trans (List.take_prefix _ _), ?_, by simp, fun _ => rfl⟩
    have := (cutLastSpace_prefix (s.take (n - e.length).toNat)).length_le
    rw [List.length_append]; omega

/-- whatever the arguments, an accepted call returns at most `length + leeway` characters or the text itself -/
theorem truncate_length_bound {s r : Str} {n : Int} {kw : Bool} {e : Str} {lw : Int}
    (h : truncate s n kw e lw = some r) : r = s ∨ (r.length : Int) ≤ n := by
  have hr : ¬ (n < (e.length : Int) ∨ lw < 0) := fun hc => by
    rw [(truncate_rejects s n kw e lw).mpr hc] at h; cases h
  have h1 : (e.length : Int) ≤ n := by omega
  have h2 : 0 ≤ lw := by omega
  by_cases hs : (s.length : Int) ≤ n + lw
  · left; rw [truncate_short h1 h2 hs] at h; exact (Option.some.inj h).symm
  · right
    obtain ⟨p, hp, _, hlen, _⟩ := truncate_long (s := s) (kw := kw) h1 h2 (by omega : n + lw < (s.length : Int))
    rw [hp] at h; rw [← Option.some.inj h]; exact hlen

example : truncate "foo bar baz qux".toList 9 false "...".toList 0 = some "foo...".toList := by decide
example : truncate "foo bar baz qux".toList 9 true "...".toList 0 = some "foo ba...".toList := by decide
example : truncate "foo bar baz qux".toList 11 false "...".toList 5 = some "foo bar baz qux".toList := by decide
example : truncate "abc".toList 2 false "...".toList 0 = none := by decide

/-! ### center -/

/-- `center`: `s` between two runs of spaces whose lengths differ by at most one and add up to `max width len - len` -/
theorem center_spec (s : Str) (w : Int) :
    ∃ l r : Nat, center s w = List.replicate l ' ' ++ s ++ List.replicate r ' ' ∧
      ((l + r : Nat) : Int) = max w s.length - s.length ∧ (l = r ∨ l = r + 1 ∨ r = l + 1) ∧
      ((center s w).length : Int) = max w s.length := by
  unfold center
  by_cases h : w ≤ (s.length : Int)
  · refine ⟨0, 0, by simp [h], ?_, Or.inl rfl, ?_⟩
    · rw [Int.max_eq_right h]; simp
    · rw [if_pos h, Int.max_eq_right h]
  · rw [if_neg h]
    have hm : max w (s.length : Int) = w := Int.max_eq_left (by omega)
    refine ⟨_, _, rfl, ?_, ?_, ?_⟩
    · rw [hm]
      have : ((w - s.length).toNat : Int) = w - s.length := Int.toNat_of_nonneg (by omega)
      have h2 : (w - ↑s.length).toNat / 2 + (w - ↑s.length).toNat % 2 * (w.toNat % 2) ≤ (w - ↑s.length).toNat := by
        have : w.toNat % 2 ≤ 1 := by omega
        have h3 : (w - ↑s.length).toNat % 2 * (w.toNat % 2) ≤ (w - ↑s.length).toNat % 2 := by
          calc _ ≤ (w - ↑s.length).toNat % 2 * 1 := Nat.mul_le_mul_left _ this
            _ = _ := by simp
        omega
      omega
    · have h4 : w.toNat % 2 = 0 ∨ w.toNat % 2 = 1 := by omega
      have h5 : (w - ↑s.length).toNat % 2 = 0 ∨ (w - ↑s.length).toNat % 2 = 1 := by omega
      rcases h4 with h4 | h4 <;> rcases h5 with h5 | h5 <;> rw [h4, h5] <;> omega
    · simp only [List.length_append, List.length_replicate]
      rw [hm]
      have h4 : w.toNat % 2 = 0 ∨ w.toNat % 2 = 1 := by omega
      have h5 : (w - ↑s.length).toNat % 2 = 0 ∨ (w - ↑s.length).toNat % 2 = 1 := by omega
      rcases h4 with h4 | h4 <;> rcases h5 with h5 | h5 <;> rw [h4, h5] <;> omega

example : center "ab".toList 5 = "  ab ".toList ∧ center "abc".toList 6 = " abc  ".toList ∧ center "abc".toList 2 = "abc".toList := by decide

/-! ### indent -/

/-- `s + "\n"` always has a first line (so `lines.pop(0)` in `do_indent` cannot fail) -/
theorem splitlines_snoc_ne_nil (s : Str) : splitlines (s ++ ['\n']) ≠ [] := splitlinesAux_snoc_ne_nil s []

/-- no line returned by `splitlines` contains a line-break character -/
theorem splitlines_no_break (s : Str) : ∀ l ∈ splitlines s, ∀ c ∈ l, isBreak c = false :=
  splitlinesAux_no_break s [] false (by simp)

/-- joining break-free lines with `"\n"` and splitting again gives the same lines -/
theorem splitlines_join (ls : List Str) (hne : ls ≠ []) (h : ∀ l ∈ ls, ∀ c ∈ l, isBreak c = false) :
    splitlines (joinWith ['\n'] ls ++ ['\n']) = ls := by
  unfold splitlines
  induction ls with
  | nil => exact absurd rfl hne
  | cons l rest ih =>
    have hl := h l (List.mem_cons_self ..)
    cases rest with
    | nil =>
      simp only [joinWith]
      rw [splitlinesAux_append_nobreak l _ _ hl]
      simp [splitlinesAux, isBreak]
    | cons l2 rest2 =>
      simp only [joinWith, List.append_assoc]
      rw [splitlinesAux_append_nobreak l _ _ hl]
      have := ih (by simp) (fun l' hl' => h l' (List.mem_cons_of_mem _ hl'))
      simp only [List.singleton_append, splitlinesAux, Bool.false_and, Bool.false_eq_true, if_false]
      have hb : isBreak '\n' = true := by decide
      simp only [hb, if_true, List.append_nil, List.reverse_reverse]
      have hr : ('\n' == '\r') = false := by decide
      rw [hr, this]

/-- the filter's result, declaratively: the lines of `s` (Python `splitlines` of `s + "\n"`), each prefixed or not as
    `decorate` says, joined with `"\n"` — nothing else is inserted or removed -/
theorem indent_eq_spec (s ind : Str) (first blank : Bool) :
    indent s ind first blank = joinWith ['\n'] (decorate ind first blank (splitlines (s ++ ['\n']))) := by
  unfold indent
  have hne := splitlines_snoc_ne_nil s
  cases hls : splitlines (s ++ ['\n']) with
  | nil => exact absurd hls hne
  | cons l0 rest =>
    have key : (if blank = true then joinWith ('\n' :: ind) (l0 :: rest)
        else if rest.isEmpty = true then l0
        else l0 ++ ['\n'] ++ joinWith ['\n'] (rest.map fun l => if l.isEmpty = true then l else ind ++ l))
        = joinWith ['\n'] (l0 :: rest.map (fun l => if blank || !l.isEmpty then ind ++ l else l)) := by
      cases blank with
      | true =>
        simp only [if_true, Bool.true_or]
        exact joinWith_ind ['\n'] ind l0 rest
      | false =>
        have hf : (fun l : Str => if l.isEmpty = true then l else ind ++ l)
            = (fun l : Str => if (false || !l.isEmpty) = true then ind ++ l else l) := by
          funext l; cases l <;> simp
        simp only [Bool.false_eq_true, if_false]
        rw [hf]
        cases rest with
        | nil => rfl
        | cons l1 r => simp [joinWith]
    simp only [decorate]
    cases first with
    | true =>
      simp only [if_true]
      rw [joinWith_head_append, ← key]
    | false =>
      simp only [Bool.false_eq_true, if_false]
      rw [← key]

/-- "only the indentation is inserted": for a break-free indentation string, splitting the indented text into lines
    again gives exactly the decorated lines of `s`, and deleting the indentation from them gives back the lines of `s`
    (which is `s` up to line-break normalisation: `joinWith "\n"` of them) -/
theorem indent_roundtrip (s ind : Str) (first blank : Bool) (hind : ∀ c ∈ ind, isBreak c = false) :
    splitlines (indent s ind first blank ++ ['\n']) = decorate ind first blank (splitlines (s ++ ['\n'])) ∧
    undecorate ind first blank (splitlines (indent s ind first blank ++ ['\n'])) = splitlines (s ++ ['\n']) := by
  have h1 : splitlines (indent s ind first blank ++ ['\n']) = decorate ind first blank (splitlines (s ++ ['\n'])) := by
    rw [indent_eq_spec]
    exact splitlines_join _ (decorate_ne_nil (splitlines_snoc_ne_nil s))
      (decorate_no_break hind (splitlines_no_break _))
  exact ⟨h1, by rw [h1, undecorate_decorate]⟩

/-- with an empty indentation (width 0) the filter only normalises line breaks; a second pass changes nothing -/
theorem indent_zero (s : Str) (first blank : Bool) :
    indent s [] first blank = joinWith ['\n'] (splitlines (s ++ ['\n'])) := by
  rw [indent_eq_spec]
  congr 1
  cases splitlines (s ++ ['\n']) with
  | nil => rfl
  | cons l0 rest =>
    simp [decorate]

example : indent "a\nb\n\nc".toList "  ".toList false false = "a\n  b\n\n  c".toList ∧
    indent "a\r\nb\rc\n".toList ">".toList true true = ">a\n>b\n>c\n>".toList ∧
    splitlines "a\r\n\nb\u2028".toList = ["a".toList, [], "b".toList] := by decide


/-! ### trim -/

/-- `strip`: the result is an infix of `s`; what was removed on either side consists of strip characters only; the
    result neither starts nor ends with a strip character (so nothing more could have been removed) -/
theorem strip_spec (p : Char → Bool) (s : Str) :
    ∃ l r, s = l ++ strip p s ++ r ∧ (∀ c ∈ l, p c = true) ∧ (∀ c ∈ r, p c = true) ∧
      (∀ c, (strip p s).head? = some c → p c = false) ∧ (∀ c, (strip p s).getLast? = some c → p c = false) := by
  unfold strip rstrip lstrip
  refine ⟨s.takeWhile p, ((s.dropWhile p).reverse.takeWhile p).reverse, ?_, ?_, ?_, ?_, ?_⟩
  · have h1 := @List.takeWhile_append_dropWhile _ p s
    have h2 := @List.takeWhile_append_dropWhile _ p (s.dropWhile p).reverse
    have h3 := congrArg List.reverse h2
    simp only [List.reverse_append, List.reverse_reverse] at h3
    rw [List.append_assoc, h3, h1]
  · intro c hc; exact mem_takeWhile_imp hc
  · intro c hc; exact mem_takeWhile_imp (List.mem_reverse.mp hc)
  · intro c hc
    -- the head of the result is the head of `dropWhile p s` unless everything after it was stripped too
    have h2 := @List.takeWhile_append_dropWhile _ p (s.dropWhile p).reverse
    have h3 := congrArg List.reverse h2
    simp only [List.reverse_append, List.reverse_reverse] at h3
    cases hd : ((s.dropWhile p).reverse.dropWhile p).reverse with
    | nil => rw [hd] at hc; cases hc
    | cons x xs =>
      rw [hd] at hc h3
      have hx : x = c := by simpa using hc
      apply head?_dropWhile_not p s c
      rw [← h3, ← hx]; rfl
  · intro c hc
    rw [List.getLast?_reverse] at hc
    exact head?_dropWhile_not p _ c hc

theorem strip_idem (p : Char → Bool) (s : Str) : strip p (strip p s) = strip p s := by
  obtain ⟨_, _, _, _, _, hh, hl⟩ := strip_spec p s
  generalize strip p s = t at hh hl
  unfold strip rstrip lstrip
  have h1 : t.dropWhile p = t := by
    cases t with
    | nil => rfl
    | cons c cs => rw [List.dropWhile_cons_of_neg]; simpa using hh c rfl
  rw [h1]
  have h2 : t.reverse.dropWhile p = t.reverse := by
    cases hr : t.reverse with
    | nil => rfl
    | cons c cs =>
      rw [List.dropWhile_cons_of_neg]
      have : t.getLast? = some c := by
        rw [← List.head?_reverse, hr]; rfl
      simpa using hl c this
  rw [h2, List.reverse_reverse]

/-- `|trim` / `|trim(chars)`: `strip_spec` for whitespace (`str.isspace`) resp. the given character set -/
theorem trim_spec (s : Str) (chars : Option Str) :
    ∃ l r, s = l ++ trim s chars ++ r ∧ (∀ c ∈ l, stripPred chars c = true) ∧ (∀ c ∈ r, stripPred chars c = true) ∧
      (∀ c, (trim s chars).head? = some c → stripPred chars c = false) ∧
      (∀ c, (trim s chars).getLast? = some c → stripPred chars c = false) := strip_spec _ s

theorem trim_idem (s : Str) (chars : Option Str) : trim (trim s chars) chars = trim s chars := strip_idem _ s

example : trim "  a b \n".toList none = "a b".toList ∧ trim "xxhixyx".toList (some "xy".toList) = "hi".toList ∧
    trim " \t ".toList none = [] := by decide

/-! ### wordcount (ASCII) -/

/-- a non-word character separates: the counts on both sides add up -/
theorem wordcount_sep (a b : Str) (sep : Char) (h : isWordAscii sep = false) :
    wordcount (a ++ sep :: b) = wordcount a + wordcount b := wordcountGo_sep a b sep h false

/-- a non-empty run of word characters is one word -/
theorem wordcount_word {s : Str} (hne : s ≠ []) (h : ∀ c ∈ s, isWordAscii c = true) : wordcount s = 1 := by
  cases s with
  | nil => exact absurd rfl hne
  | cons c cs =>
    have hc := h c (List.mem_cons_self ..)
    simp only [wordcount, wordcountGo, hc, if_true]
    rw [wordcountGo_word (fun d hd => h d (List.mem_cons_of_mem _ hd))]
    rfl

/-- text without word characters has no words -/
theorem wordcount_nonword {s : Str} (h : ∀ c ∈ s, isWordAscii c = false) : wordcount s = 0 :=
  wordcountGo_nonword h false

example : wordcount "foo bar_baz, x-y".toList = 4 ∧ wordcount "  ".toList = 0 := by decide

/-! ### filesizeformat: unit selection -/

/-- the value is `num/den` (`den > 0`), `B` the base (1000 / 1024):
    `1 Byte` iff the value is 1; `n Bytes` (n truncated towards zero) iff it is below the base and not 1; otherwise prefix
    `i` (kB, MB, …) with `B^(i+1) ≤ value < B^(i+2)` for `i < 7`, and the last prefix (`i = 7`) for everything `≥ B^8` -/
theorem sizeUnit_spec (num : Int) (den : Nat) (binary : Bool) (_hden : 0 < den) :
    match sizeUnit num den binary with
    | .byte1 => num = den
    | .bytes n => num ≠ den ∧ num < sizeBase binary * den ∧ n = Int.tdiv num den
    | .pref i => i ≤ 7 ∧ ((sizeBase binary ^ (i + 1) : Nat) : Int) * den ≤ num ∧
        (i < 7 → num < ((sizeBase binary ^ (i + 2) : Nat) : Int) * den) := by
  unfold sizeUnit
  simp only
  by_cases h1 : num = (den : Int)
  · simp [h1]
  · rw [if_neg h1]
    by_cases h2 : num < (sizeBase binary : Int) * den
    · rw [if_pos h2]; exact ⟨h1, h2, rfl⟩
    · rw [if_neg h2]
      have hl := prefLoop_spec (fun i => decide (num < ((sizeBase binary ^ (i + 2) : Nat) : Int) * den)) 0 8
      rw [← List.range_eq_range'] at hl
      generalize prefLoop (fun i => decide (num < ((sizeBase binary ^ (i + 2) : Nat) : Int) * den)) (List.range 8) = o at hl
      cases o with
      | some i =>
        obtain ⟨_, hi8, hlt, hprev⟩ := hl
        refine ⟨by omega, ?_, fun _ => by simpa using hlt⟩
        cases i with
        | zero => simpa using Int.not_lt.mp h2
        | succ j =>
          have := hprev j (Nat.zero_le _) (Nat.lt_succ_self _)
          simpa using this
      | none =>
        refine ⟨Nat.le_refl _, ?_, fun h => absurd h (Nat.lt_irrefl _)⟩
        have := hl 6 (Nat.zero_le _) (by omega)
        simpa using this

example : sizeUnit 1500 1 false = .pref 0 ∧ sizeUnit 1 1 false = .byte1 ∧ sizeUnit 1023 1 true = .bytes 1023 ∧
    sizeUnit (10 ^ 30) 1 false = .pref 7 ∧ sizeUnit 999999 1 false = .pref 0 ∧ sizeUnit 1000000 1 false = .pref 1 ∧
    sizeUnit (-3) 2 false = .bytes (-1) := by decide

/-! ### replace -/

theorem pieces_ne_nil (old s : Str) (cnt : Option Nat) : pieces old s cnt ≠ [] := by
  fun_induction pieces old s cnt <;> simp

/-- (a) joining the pieces with `old` gives back the text -/
theorem pieces_join_old (old s : Str) (cnt : Option Nat) : joinWith old (pieces old s cnt) = s := by
  fun_induction pieces old s cnt with
  | case1 => rfl
  | case2 => rfl
  | case3 cnt c cs h0 h ih =>
    have hp : old <+: c :: cs := List.isPrefixOf_iff_prefix.mp h.2
    have hne := pieces_ne_nil old ((c :: cs).drop old.length) (decr cnt)
    cases hps : pieces old ((c :: cs).drop old.length) (decr cnt) with
    | nil => exact absurd hps hne
    | cons p ps =>
      rw [hps] at ih
      simp only [joinWith, List.nil_append]
      rw [ih]
      exact List.prefix_iff_eq_append.mp hp
  | case4 cnt c cs h0 h p ps hps ih =>
    rw [hps] at ih
    cases ps with
    | nil => simp only [joinWith] at ih ⊢; rw [ih]
    | cons q qs => simp only [joinWith, List.cons_append] at ih ⊢; rw [ih]
  | case5 cnt c cs h0 h hps ih => exact absurd hps (pieces_ne_nil _ _ _)


/-- (b) joining the same pieces with `new` gives the result of the scan -/
theorem pieces_join_new (old new s : Str) (cnt : Option Nat) :
    joinWith new (pieces old s cnt) = replaceNE old new s cnt := by
  fun_induction pieces old s cnt with
  | case1 => rw [replaceNE]; rfl
  | case2 c cs => rw [replaceNE, if_pos rfl]; rfl
  | case3 cnt c cs h0 h ih =>
    rw [replaceNE, if_neg h0, dif_pos h, ← ih]
    have hne := pieces_ne_nil old ((c :: cs).drop old.length) (decr cnt)
    cases hps : pieces old ((c :: cs).drop old.length) (decr cnt) with
    | nil => exact absurd hps hne
    | cons p ps => simp [joinWith]
  | case4 cnt c cs h0 h p ps hps ih =>
    rw [replaceNE, if_neg h0, dif_neg h, ← ih, hps]
    cases ps with
    | nil => simp [joinWith]
    | cons q qs => simp [joinWith]
  | case5 cnt c cs h0 h hps ih => exact absurd hps (pieces_ne_nil _ _ _)

/-- (d) at most `n` occurrences are replaced -/
theorem pieces_count (old s : Str) (n : Nat) : (pieces old s (some n)).length ≤ n + 1 := by
  generalize hc : some n = cnt
  fun_induction pieces old s cnt generalizing n with
  | case1 => simp
  | case2 => simp
  | case3 cnt c cs h0 h ih =>
    subst hc
    cases n with
    | zero => exact absurd rfl h0
    | succ m =>
      have := ih m rfl
      simp only [List.length_cons]; omega
  | case4 cnt c cs h0 h p ps hps ih =>
    have := ih n hc
    rw [hps] at this
    simpa using this
  | case5 cnt c cs h0 h hps ih => exact absurd hps (pieces_ne_nil _ _ _)

/-- (c) no piece before the last contains `old`, and with an unlimited count the last one does not either: every
    occurrence is replaced, and a replaced occurrence never starts later than an unreplaced one -/
theorem pieces_no_old (old s : Str) (cnt : Option Nat) (hne : old ≠ []) :
    (∀ p ∈ (pieces old s cnt).dropLast, ¬ old <:+: p) ∧ (cnt = none → ∀ p ∈ pieces old s cnt, ¬ old <:+: p) := by
  have hnil : ¬ old <:+: ([] : Str) := fun h => hne (List.infix_nil.mp h)
  fun_induction pieces old s cnt with
  | case1 => simp [hnil]
  | case2 c cs => exact ⟨by simp, fun h => by cases h⟩
  | case3 cnt c cs h0 h ih =>
    have hne' := pieces_ne_nil old ((c :: cs).drop old.length) (decr cnt)
    constructor
    · intro p hp
      rw [List.dropLast_cons_of_ne_nil hne'] at hp
      rcases List.mem_cons.mp hp with rfl | hp
      · exact hnil
      · exact ih.1 p hp
    · intro hc p hp
      rcases List.mem_cons.mp hp with rfl | hp
      · exact hnil
      · exact ih.2 (by rw [hc]; rfl) p hp
  | case4 cnt c cs h0 h p ps hps ih =>
    rw [hps] at ih
    have hpre : p <+: cs := joinWith_head_prefix old cs p ps (by rw [← hps]; exact pieces_join_old old cs cnt)
    have hcp : ¬ old <:+: p → ¬ old <:+: c :: p := by
      intro hp hinf
      rcases List.infix_cons_iff.mp hinf with h1 | h1
      · apply h
        refine ⟨hne, List.isPrefixOf_iff_prefix.mpr (h1.trans ?_)⟩
        obtain ⟨t, ht⟩ := hpre
        exact ⟨t, by rw [← ht]; rfl⟩
      · exact hp h1
    constructor
    · intro q hq
      cases ps with
      | nil => simp at hq
      | cons r rs =>
        rw [List.dropLast_cons_of_ne_nil (by simp)] at hq
        rcases List.mem_cons.mp hq with rfl | hq
        · apply hcp
          apply ih.1
          rw [List.dropLast_cons_of_ne_nil (by simp)]
          exact List.mem_cons_self ..
        · apply ih.1
          rw [List.dropLast_cons_of_ne_nil (by simp)]
          exact List.mem_cons_of_mem _ hq
    · intro hc q hq
      rcases List.mem_cons.mp hq with rfl | hq
      · exact hcp (ih.2 hc p (List.mem_cons_self ..))
      · exact ih.2 hc q (List.mem_cons_of_mem _ hq)
  | case5 cnt c cs h0 h hps ih => exact absurd hps (pieces_ne_nil _ _ _)

/-- leftmost: inside a piece that is followed by a replaced occurrence, `old` does not start at any earlier position
    (not even overlapping the replaced occurrence) — the replaced occurrence is the first one in the remaining text -/
theorem pieces_leftmost (old s : Str) (cnt : Option Nat) (hne : old ≠ []) :
    ∀ p ∈ (pieces old s cnt).dropLast, ∀ k < p.length, ¬ old <+: (p ++ old).drop k := by
  fun_induction pieces old s cnt with
  | case1 => simp
  | case2 c cs => simp
  | case3 cnt c cs h0 h ih =>
    have hne' := pieces_ne_nil old ((c :: cs).drop old.length) (decr cnt)
    intro p hp
    rw [List.dropLast_cons_of_ne_nil hne'] at hp
    rcases List.mem_cons.mp hp with rfl | hp
    · intro k hk; simp at hk
    · exact ih p hp
  | case4 cnt c cs h0 h p ps hps ih =>
    rw [hps] at ih
    intro q hq
    cases ps with
    | nil => simp at hq
    | cons r rs =>
      rw [List.dropLast_cons_of_ne_nil (by simp)] at hq
      rcases List.mem_cons.mp hq with rfl | hq
      · intro k hk
        cases k with
        | zero =>
          intro hpre
          apply h
          refine ⟨hne, List.isPrefixOf_iff_prefix.mpr (hpre.trans ?_)⟩
          have hj := pieces_join_old old cs cnt
          rw [hps] at hj
          simp only [joinWith] at hj
          refine ⟨joinWith old (r :: rs), ?_⟩
          rw [List.drop_zero, ← hj]; simp
        | succ j =>
          have := ih p (by rw [List.dropLast_cons_of_ne_nil (by simp)]; exact List.mem_cons_self ..) j
            (by simp only [List.length_cons] at hk; omega)
          simpa using this
      · exact ih q (by rw [List.dropLast_cons_of_ne_nil (by simp)]; exact List.mem_cons_of_mem _ hq)
  | case5 cnt c cs h0 h hps ih => exact absurd hps (pieces_ne_nil _ _ _)

/-- `|replace(old, new, count)` for a non-empty `old`, all together: there are pieces `ps` with
    `old.join(ps) = s`, `new.join(ps) = result`, at most `count` joints when a count is given, no occurrence of
    `old` inside a piece before the last, and none at all when every occurrence is to be replaced -/
theorem replace_spec (s old new : Str) (count : Int) (hne : old ≠ []) :
    ∃ ps : List Str, ps ≠ [] ∧ joinWith old ps = s ∧ joinWith new ps = replace s old new count ∧
      (0 ≤ count → (ps.length : Int) ≤ count + 1) ∧
      (∀ p ∈ ps.dropLast, ¬ old <:+: p) ∧ (count < 0 → ∀ p ∈ ps, ¬ old <:+: p) := by
  refine ⟨pieces old s (countOf count), pieces_ne_nil _ _ _, pieces_join_old _ _ _, ?_, ?_,
    (pieces_no_old old s _ hne).1, ?_⟩
  · unfold replace
    have : old.isEmpty = false := by cases old with | nil => exact absurd rfl hne | cons _ _ => rfl
    rw [this]; exact pieces_join_new old new s _
  · intro h
    have : countOf count = some count.toNat := by unfold countOf; rw [if_neg (by omega)]
    rw [this]
    have := pieces_count old s count.toNat
    omega
  · intro h
    have : countOf count = none := by unfold countOf; rw [if_pos h]
    rw [this]
    exact (pieces_no_old old s none hne).2 rfl

/-- an empty `old`: `new` goes before every character and at the end -/
theorem replace_empty_unlimited (s new : Str) (count : Int) (h : count < 0) :
    replace s [] new count = s.flatMap (fun c => new ++ [c]) ++ new := by
  unfold replace
  have : countOf count = none := by unfold countOf; rw [if_pos h]
  simp only [List.isEmpty_nil, if_true, this]
  induction s with
  | nil => rfl
  | cons c cs ih => simp only [replaceEmpty, decr, List.flatMap_cons, List.append_assoc, List.cons_append, List.nil_append]; rw [ih]

/-- an empty `old` with a count: only the first `count` gaps receive `new` -/
theorem replace_empty_count (s new : Str) (n : Nat) :
    replace s [] new (n : Int) =
      if n ≤ s.length then (s.take n).flatMap (fun c => new ++ [c]) ++ s.drop n
      else s.flatMap (fun c => new ++ [c]) ++ new := by
  unfold replace
  have : countOf (n : Int) = some n := by unfold countOf; rw [if_neg (by omega)]; simp
  simp only [List.isEmpty_nil, if_true, this]
  exact replaceEmpty_some new s n

example : replace "aaaaargh".toList "a".toList "d'oh, ".toList 2 = "d'oh, d'oh, aaargh".toList ∧
    replace "aaa".toList "aa".toList "b".toList (-1) = "ba".toList ∧
    replace "abc".toList [] "-".toList (-1) = "-a-b-c-".toList ∧ replace "abc".toList [] "-".toList 2 = "-a-bc".toList := by decide +kernel
example : pieces "aa".toList "xaaaay".toList none = ["x".toList, [], "y".toList] := by decide +kernel

/-! ### wordwrap (relative to textwrap's contract) -/

/-- wordwrap keeps all non-whitespace text of `s`, in order — provided `textwrap.wrap` does so for each paragraph
    (`WrapKeepsText`, assumed) and the wrap string is whitespace (the default is the newline sequence) -/
theorem wordwrap_keeps_text (wrap : Str → List Str) (ws s : Str) (hws : ∀ c ∈ ws, isPySpace c = true)
    (hwrap : WrapKeepsText wrap) : nonws (wordwrap wrap ws s) = nonws s := by
  have hws' : nonws ws = [] := by
    unfold nonws; rw [List.filter_eq_nil_iff]; intro c hc; simp [hws c hc]
  unfold wordwrap
  rw [nonws_joinWith ws hws', List.map_map]
  have : (nonws ∘ fun line => joinWith ws (wrap line)) = nonws := by
    funext line
    simp only [Function.comp]
    rw [nonws_joinWith ws hws', ← hwrap line]
    unfold nonws
    rw [List.filter_flatten]
  rw [this]
  have := nonws_splitlinesAux s [] false
  simpa [splitlines] using this

/-- wordwrap's result is its produced lines joined by the wrap string, and none of them exceeds the width — provided
    `textwrap.wrap` never returns a longer line (`WrapFits`: its contract for `break_long_words=True`, assumed) -/
theorem wordwrap_fits (wrap : Str → List Str) (ws s : Str) (width : Nat) (hwrap : WrapFits wrap width) :
    wordwrap wrap ws s = joinWith ws (wrappedLines wrap s) ∧ ∀ l ∈ wrappedLines wrap s, l.length ≤ width := by
  unfold wordwrap wrappedLines
  constructor
  · induction splitlines s with
    | nil => rfl
    | cons line rest ih =>
      have hone : joinWith ws (if (wrap line).isEmpty then [[]] else wrap line) = joinWith ws (wrap line) := by
        split
        · rename_i h; rw [List.isEmpty_iff.mp h]; rfl
        · rfl
      have hne1 : (if (wrap line).isEmpty then [[]] else wrap line) ≠ [] := by
        split
        · simp
        · rename_i h; intro h0; rw [h0] at h; exact h rfl
      cases rest with
      | nil => simp only [List.map_cons, List.map_nil, joinWith, List.flatMap_cons, List.flatMap_nil, List.append_nil]; exact hone.symm
      | cons l2 r =>
        have hne2 : (List.flatMap (fun line => if (wrap line).isEmpty then [[]] else wrap line) (l2 :: r)) ≠ [] := by
          simp only [List.flatMap_cons]
          intro h0
          have := (List.append_eq_nil_iff.mp h0).1
          split at this
          · cases this
          · rename_i h; rw [this] at h; exact h rfl
        rw [List.flatMap_cons, joinWith_append ws _ _ hne1 hne2, ← ih, hone]
        simp [joinWith]
  · intro l hl
    obtain ⟨line, _, hl⟩ := List.mem_flatMap.mp hl
    split at hl
    · rw [List.mem_singleton.mp hl]; exact Nat.zero_le _
    · exact hwrap line l hl

-- non-vacuity: a one-word-per-line wrapper satisfies both hypotheses on these inputs
example : wordwrap (fun l => [l]) ['\n'] "ab cd\n\nef".toList = "ab cd\n\nef".toList := by decide
-- both hypotheses hold together for a (crude) wrapper: one character per line, width 1
example : WrapKeepsText (fun l => l.map fun c => [c]) ∧ WrapFits (fun l => l.map fun c => [c]) 1 := by
  constructor
  · intro line
    have : (line.map fun c => [c]).flatten = line := by induction line <;> simp_all
    rw [this]
  · intro line l hl
    obtain ⟨c, _, rfl⟩ := List.mem_map.mp hl
    exact Nat.le_refl _

/-! ### striptags -/

/-- the loop ends only when nothing more can be cut -/
theorem stripAll_fixpoint (opn close s : Str) (hc : close ≠ []) :
    stripStep opn close (stripAll opn close s) = none := by
  fun_induction stripAll opn close s with
  | case1 s h => exact h
  | case2 s s' h hlt ih => exact ih
  | case3 s s' h hlt => exact absurd (stripStep_shorter opn close s s' hc h) hlt

/-- only deletions: the result is a subsequence of the text -/
theorem stripAll_sublist (opn close s : Str) : (stripAll opn close s).Sublist s := by
  fun_induction stripAll opn close s with
  | case1 s h => exact List.Sublist.refl _
  | case2 s s' h hlt ih =>
    obtain ⟨a, m, b, hs, hs', _, _⟩ := stripStep_spec opn close s s' h
    refine ih.trans ?_
    rw [hs, hs', List.append_assoc]
    exact List.Sublist.append (List.Sublist.refl _) (List.sublist_append_right _ _)
  | case3 s s' h hlt => exact List.Sublist.refl _

/-- one tag: the leftmost `<` and everything up to the first `>` after it is deleted, and the loop goes on -/
theorem stripAll_tag_step (a t b : Str) (ha : '<' ∉ a) (ht : '>' ∉ t) :
    stripAll ['<'] ['>'] (a ++ '<' :: t ++ '>' :: b) = stripAll ['<'] ['>'] (a ++ b) := by
  rw [stripAll_unfold _ _ _ (by simp)]
  have : stripStep ['<'] ['>'] (a ++ '<' :: t ++ '>' :: b) = some (a ++ b) := by
    unfold stripStep
    have e1 : a ++ '<' :: t ++ '>' :: b = a ++ '<' :: (t ++ '>' :: b) := by simp
    rw [e1, splitFirst_char_eq '<' a _ ha]
    simp only [List.drop_left']
    have hlt : '>' ∉ '<' :: t := by
      intro hm; rcases List.mem_cons.mp hm with e | hm
      · cases e
      · exact ht hm
    have e2 : '<' :: (t ++ '>' :: b) = ('<' :: t) ++ '>' :: b := rfl
    rw [e2, splitFirst_char_eq '>' _ _ hlt]
  rw [this]

/-- text in which no `<` is followed by a `>` is left alone (in particular text without `<`) -/
theorem stripAll_tag_free (s : Str) (h : ∀ x y, s = x ++ '<' :: y → '>' ∉ y) : stripAll ['<'] ['>'] s = s := by
  rw [stripAll_unfold _ _ _ (by simp)]
  cases hs : stripStep ['<'] ['>'] s with
  | none => rfl
  | some s' =>
    exfalso
    unfold stripStep at hs
    cases h1 : splitFirst ['<'] s with
    | none => rw [h1] at hs; cases hs
    | some ax =>
      obtain ⟨a, x⟩ := ax
      rw [h1] at hs
      simp only at hs
      obtain ⟨e1, _⟩ := splitFirst_char_some '<' s a x h1
      cases h2 : splitFirst ['>'] (s.drop a.length) with
      | none => rw [h2] at hs; cases hs
      | some mb =>
        obtain ⟨m0, b⟩ := mb
        obtain ⟨e2, _⟩ := splitFirst_char_some '>' _ m0 b h2
        have hd : s.drop a.length = '<' :: x := by rw [e1]; simp
        rw [hd] at e2
        have : '>' ∈ x := by
          cases m0 with
          | nil => simp at e2
          | cons d ds =>
            simp only [List.cons_append, List.cons.injEq] at e2
            rw [e2.2]; simp
        exact h a x e1 this

/-- no complete tag is left: in the result no `<` is followed (anywhere later) by a `>` -/
theorem stripAll_no_tag_left (s x y : Str) (h : stripAll ['<'] ['>'] s = x ++ '<' :: y) : '>' ∉ y := by
  have hfix := stripAll_fixpoint ['<'] ['>'] s (by simp)
  rw [h] at hfix
  intro hy
  -- the first `<` of the result lies in `x` or is this one; either way a `>` follows it
  have hmem : '<' ∈ x ++ '<' :: y := by simp
  unfold stripStep at hfix
  cases h1 : splitFirst ['<'] (x ++ '<' :: y) with
  | none => exact splitFirst_char_none _ _ h1 hmem
  | some ax =>
    obtain ⟨a, r⟩ := ax
    rw [h1] at hfix
    simp only at hfix
    obtain ⟨e1, hna⟩ := splitFirst_char_some '<' _ a r h1
    have hd : (x ++ '<' :: y).drop a.length = '<' :: r := by rw [e1]; simp
    rw [hd] at hfix
    have hgt : '>' ∈ '<' :: r := by
      -- `y` is a suffix of `r`, or this `<` is the first one
      have : '>' ∈ (x ++ '<' :: y).drop a.length := by
        have hle : a.length ≤ x.length := by
          -- `a` has no `<`, and is a prefix of the result, so it ends before the `<` after `x`
          by_cases hlt : a.length ≤ x.length
          · exact hlt
          · exfalso
            have hx : x.length < a.length := by omega
            have : (x ++ '<' :: y)[x.length]? = some '<' := by simp
            rw [e1, List.getElem?_append_left hx] at this
            exact hna (List.mem_of_getElem? this)
        rw [List.drop_append_of_le_length hle]
        exact List.mem_append_right _ (List.mem_cons_of_mem _ hy)
      rw [hd] at this; exact this
    cases h2 : splitFirst ['>'] ('<' :: r) with
    | none => exact splitFirst_char_none _ _ h2 hgt
    | some mb => rw [h2] at hfix; cases hfix

example : stripAll ['<'] ['>'] "a<b>c<d".toList = "ac<d".toList ∧
    stripAll "<!--".toList "-->".toList "x<!<!---->--a>b-->y".toList = "xy".toList ∧
    striptags "<p>a  <!-- <i> -->b</p>\n c ".toList = "a b c".toList := by decide +kernel

/-! ### striptags: whitespace collapse -/

/-- `value.split()`: every word is non-empty and free of whitespace -/
theorem splitWs_words (s : Str) : ∀ w ∈ splitWs s, w ≠ [] ∧ ∀ c ∈ w, isPySpace c = false :=
  splitWsAux_words s [] (by simp)

/-- collapsing keeps all non-whitespace text in order -/
theorem collapse_keeps_text (s : Str) : nonws (collapse s) = nonws s := by
  unfold collapse
  rw [nonws_joinWith [' '] (by decide)]
  have := nonws_splitWsAux s []
  simpa [splitWs] using this

/-- the collapsed text has the same words; collapsing again changes nothing -/
theorem collapse_words (s : Str) : splitWs (collapse s) = splitWs s := splitWs_join _ (splitWs_words s)

theorem collapse_idem (s : Str) : collapse (collapse s) = collapse s := by
  show joinWith [' '] (splitWs (collapse s)) = collapse s
  rw [collapse_words]; rfl

/-- the only whitespace left is the single plain space between two words: every whitespace character of the result is
    `' '`, and the result neither starts nor ends with whitespace -/
theorem collapse_shape (s : Str) :
    (∀ c ∈ collapse s, isPySpace c = true → c = ' ') ∧
    (∀ c, (collapse s).head? = some c → isPySpace c = false) ∧
    (∀ c, (collapse s).getLast? = some c → isPySpace c = false) := by
  have hw := splitWs_words s
  unfold collapse
  refine ⟨?_, ?_, ?_⟩
  · intro c hc hsp
    rcases mem_joinWith _ _ _ hc with h | ⟨w, hw', hcw⟩
    · exact List.mem_singleton.mp h
    · rw [(hw w hw').2 c hcw] at hsp; cases hsp
  · intro c hc
    cases hs : splitWs s with
    | nil => rw [hs] at hc; cases hc
    | cons w rest =>
      rw [hs] at hc hw
      have h1 := hw w (List.mem_cons_self ..)
      rw [head?_joinWith _ _ _ h1.1] at hc
      exact h1.2 c (List.mem_of_head? hc)
  · intro c hc
    cases hs : splitWs s with
    | nil => rw [hs] at hc; cases hc
    | cons w rest =>
      rw [hs] at hc hw
      rw [getLast?_joinWith _ _ (fun w' hw' => (hw w' hw').1) (by simp)] at hc
      have hmem := List.getLast_mem (l := w :: rest) (by simp)
      exact (hw _ hmem).2 c (List.mem_of_getLast? hc)

/-- `|striptags` on text without `&`, all together: the result is the collapse of a text `t` obtained from `s` by
    deletions only (comments first, then tags), in `t` no `<` is followed by a `>`, and the non-whitespace text of the
    result is a subsequence of that of `s` -/
theorem striptags_spec (s : Str) :
    ∃ t, striptags s = collapse t ∧ t.Sublist s ∧ (∀ x y, t = x ++ '<' :: y → '>' ∉ y) ∧
      (nonws (striptags s)).Sublist (nonws s) := by
  refine ⟨stripAll ['<'] ['>'] (stripAll ['<', '!', '-', '-'] ['-', '-', '>'] s), rfl,
    (stripAll_sublist _ _ _).trans (stripAll_sublist _ _ _), fun x y h => stripAll_no_tag_left _ x y h, ?_⟩
  unfold striptags
  rw [collapse_keeps_text]
  exact ((stripAll_sublist _ _ _).trans (stripAll_sublist _ _ _)).filter _

/-- text without `<` only has its whitespace collapsed -/
theorem striptags_plain (s : Str) (h : '<' ∉ s) : striptags s = collapse s := by
  unfold striptags
  have h1 : stripAll ['<', '!', '-', '-'] ['-', '-', '>'] s = s := by
    rw [stripAll_unfold _ _ _ (by simp)]
    cases hs : stripStep ['<', '!', '-', '-'] ['-', '-', '>'] s with
    | none => rfl
    | some s' =>
      exfalso
      unfold stripStep at hs
      cases h1 : splitFirst ['<', '!', '-', '-'] s with
      | none => rw [h1] at hs; cases hs
      | some ax =>
        have := splitFirst_some _ s ax.1 ax.2 h1
        apply h; rw [this]; simp
  rw [h1, stripAll_tag_free s (fun x y hxy => absurd (by rw [hxy]; simp) h)]

/-! ### format (`%s`, `%d`, `%%`) -/

/-- the scanner of the model is "parse, then substitute" -/
theorem format_eq_spec (fmt : Str) (args : List FmtArg) (segs : List Seg) (h : parseFmt fmt = some segs) :
    format fmt args = fill segs args := by
  unfold format
  fun_induction parseFmt fmt generalizing args segs with
  | case1 => cases h; cases args <;> rfl
  | case2 rest ih =>
    obtain ⟨r, hr, rfl⟩ := Option.map_eq_some_iff.mp h
    simp only [formatGo, fill]; rw [ih args r hr]
  | case3 rest ih =>
    obtain ⟨r, hr, rfl⟩ := Option.map_eq_some_iff.mp h
    cases args with
    | nil => rfl
    | cons a as => simp only [formatGo, fill]; rw [ih as r hr]
  | case4 rest ih =>
    obtain ⟨r, hr, rfl⟩ := Option.map_eq_some_iff.mp h
    cases args with
    | nil => rfl
    | cons a as =>
      simp only [formatGo, fill]
      cases a.d with
      | none => rfl
      | some d => simp only; rw [ih as r hr]
  | case5 => cases h
  | case6 c rest h1 h2 h3 h4 ih =>
    obtain ⟨r, hr, rfl⟩ := Option.map_eq_some_iff.mp h
    have hlit := formatGo_lit c rest args (fun hc => h4 hc)
    rw [hlit, ih args r hr]; rfl


/-- a successful result means the format string is made of `%s`, `%d`, `%%` and ordinary characters only -/
theorem format_ok_parses (fmt : Str) (args : List FmtArg) (out : Str) (h : format fmt args = .ok out) :
    (parseFmt fmt).isSome = true := by
  unfold format at h
  fun_induction parseFmt fmt generalizing args out with
  | case1 => rfl
  | case2 rest ih =>
    simp only [formatGo] at h
    cases hr : formatGo rest args with
    | ok o => have := ih args o hr; simp_all [Option.isSome_map]
    | _ => rw [hr] at h; cases h
  | case3 rest ih =>
    cases args with
    | nil => cases h
    | cons a as =>
      simp only [formatGo] at h
      cases hr : formatGo rest as with
      | ok o => have := ih as o hr; simp_all [Option.isSome_map]
      | _ => rw [hr] at h; cases h
  | case4 rest ih =>
    cases args with
    | nil => cases h
    | cons a as =>
      simp only [formatGo] at h
      cases hd : a.d with
      | none => rw [hd] at h; cases h
      | some d =>
        rw [hd] at h
        cases hr : formatGo rest as with
        | ok o => have := ih as o hr; simp_all [Option.isSome_map]
        | _ => rw [hr] at h; simp only [FmtRes.cons] at h; cases h
  | case5 t h1 h2 h3 =>
    exfalso
    cases t with
    | nil => cases args <;> simp [formatGo] at h
    | cons x xs =>
      rw [formatGo_oom x xs args (fun e => h1 xs (by rw [e])) (fun e => h2 xs (by rw [e])) (fun e => h3 xs (by rw [e]))] at h
      cases h
  | case6 c rest h1 h2 h3 h4 ih =>
    rw [formatGo_lit c rest args (fun hc => h4 hc)] at h
    cases hr : formatGo rest args with
    | ok o => have := ih args o hr; simp_all [Option.isSome_map]
    | _ => rw [hr] at h; cases h

/-- exactly as many arguments as directives -/
theorem fill_ok_length (segs : List Seg) (args : List FmtArg) (out : Str) (h : fill segs args = .ok out) :
    args.length = nDir segs := by
  fun_induction fill segs args generalizing out with
  | case1 => rfl
  | case2 => cases h
  | case3 c r args ih =>
    cases hr : fill r args with
    | ok o => simpa [nDir] using ih o hr
    | _ => rw [hr] at h; cases h
  | case4 r args ih =>
    cases hr : fill r args with
    | ok o => simpa [nDir] using ih o hr
    | _ => rw [hr] at h; cases h
  | case5 => cases h
  | case6 r a as ih =>
    cases hr : fill r as with
    | ok o => simp [nDir, ih o hr]
    | _ => rw [hr] at h; cases h
  | case7 => cases h
  | case8 r a as hd => cases h
  | case9 r a as d hd ih =>
    cases hr : fill r as with
    | ok o => simp [nDir, ih o hr]
    | _ => rw [hr] at h; cases h

/-- substitution is compositional: formats concatenate, argument lists concatenate, results concatenate -/
theorem fill_append (a b : List Seg) (xs ys : List FmtArg) (oa ob : Str)
    (ha : fill a xs = .ok oa) (hb : fill b ys = .ok ob) : fill (a ++ b) (xs ++ ys) = .ok (oa ++ ob) := by
  fun_induction fill a xs generalizing oa with
  | case1 => cases ha; simpa using hb
  | case2 => cases ha
  | case3 c r args ih =>
    cases hr : fill r args with
    | ok o => rw [hr] at ha; cases ha; simp [fill, ih o hr, FmtRes.cons]
    | _ => rw [hr] at ha; cases ha
  | case4 r args ih =>
    cases hr : fill r args with
    | ok o => rw [hr] at ha; cases ha; simp [fill, ih o hr, FmtRes.cons]
    | _ => rw [hr] at ha; cases ha
  | case5 => cases ha
  | case6 r x as ih =>
    cases hr : fill r as with
    | ok o => rw [hr] at ha; cases ha; simp [fill, ih o hr, FmtRes.cons]
    | _ => rw [hr] at ha; cases ha
  | case7 => cases ha
  | case8 r x as hd => cases ha
  | case9 r x as d hd ih =>
    cases hr : fill r as with
    | ok o => rw [hr] at ha; cases ha; simp [fill, hd, ih o hr, FmtRes.cons]
    | _ => rw [hr] at ha; cases ha

/-- the single pieces: ordinary text is copied, `%%` gives one `%`, `%s` the argument's `str()`, `%d` its number form -/
theorem fill_pieces (cs : Str) (a : FmtArg) (d : Str) (hd : a.d = some d) :
    fill (cs.map Seg.lit) [] = .ok cs ∧ fill [.pct] [] = .ok ['%'] ∧ fill [.s] [a] = .ok a.s ∧ fill [.d] [a] = .ok d := by
  refine ⟨?_, rfl, by simp [fill, FmtRes.cons], by simp [fill, hd, FmtRes.cons]⟩
  induction cs with
  | nil => rfl
  | cons c cs ih => simp [fill, ih, FmtRes.cons]

/-- a format string without `%` and without arguments is returned unchanged -/
theorem format_literal (fmt : Str) (h : '%' ∉ fmt) : format fmt [] = .ok fmt := by
  unfold format
  induction fmt with
  | nil => rfl
  | cons c cs ih =>
    rw [formatGo_lit c cs [] (fun hc => h (hc ▸ List.mem_cons_self ..)), ih (fun hm => h (List.mem_cons_of_mem _ hm))]
    rfl

example : format "%s, %d%%!".toList [⟨"x".toList, none⟩, ⟨"3".toList, some "3".toList⟩] = .ok "x, 3%!".toList ∧
    format "%d".toList [⟨"x".toList, none⟩] = .typeError ∧ format "%s".toList [] = .typeError ∧
    format "a".toList [⟨"x".toList, none⟩] = .typeError ∧ format "50%".toList [] = .valueError ∧
    parseFmt "%s, %d%%!".toList = some [.s, .lit ',', .lit ' ', .d, .pct, .lit '!'] := by decide

/-! ### int / float -/

/-- `raised ⊆ caught ⇒ no exception leaves the filter`, for any handler lists and any conversion outcomes -/
theorem doFloat_total (handler : List String) (r : Row)
    (h : ∀ mro, r.flt = .raises mro → catches handler mro = true) : (doFloat handler r).isRaise = false := by
  unfold doFloat
  cases hr : r.flt with
  | ok => rfl
  | raises mro => simp only [h mro hr, if_true]; rfl

theorem doInt_total (outer inner : List String) (r : Row)
    (h1 : ∀ mro, r.int1 = .raises mro → catches outer mro = true)
    (h2 : ∀ mro, r.intflt = .raises mro → catches inner mro = true) : (doInt outer inner r).isRaise = false := by
  unfold doInt
  cases hr : r.int1 with
  | ok => rfl
  | raises mro =>
    simp only [h1 mro hr, if_true]
    cases hr2 : r.intflt with
    | ok => rfl
    | raises mro2 => simp only [h2 mro2 hr2, if_true]; rfl

/-- an uncaught class escapes: the converse, so the table theorem below is not vacuous about handlers -/
theorem doFloat_escapes (handler : List String) (r : Row) (mro : List String)
    (h : r.flt = .raises mro) (hc : catches handler mro = false) : (doFloat handler r).isRaise = true := by
  unfold doFloat; rw [h]; simp only [hc, Bool.false_eq_true, if_false]; rfl

/-- the full-strength statement: for every sampled value class (row of the measured table: value × base) neither filter
    lets an exception out — every class raised by `int(x[, base])`, `int(float(x))`, `float(x)` is caught by the handlers
    read from `do_int` / `do_float`, so a value or the default is returned.  (`intOut`/`floatOut`: Model/FiltStr.lean.) -/
def ConvertTotal : Prop := ∀ r ∈ rows, (intOut r).isRaise = false ∧ (floatOut r).isRaise = false

/-- `convert_total`, at full strength since the repair of finding F7 (/repo 15bb75e: `OverflowError` is caught): re-proved
    by `decide` over the regenerated Gen table on every run; a handler that lets any class escape on any row breaks it. -/
theorem convert_total : ConvertTotal := by
  unfold ConvertTotal
  decide +kernel

/-- the counterexample finder (served by the driver as `(fs conv-escapes)`; the runner replays its rows on the real
    code when this stops proving) finds nothing -/
theorem escapingRows_nil : escapingRows = [] := by decide +kernel

/-- on every row where the conversions themselves fail with a caught class, the result is the default (not a value) -/
theorem convert_default_on_failure :
    ∀ r ∈ rows, (r.flt ≠ .ok → floatOut r ≠ .value) ∧ (r.int1 ≠ .ok → r.intflt ≠ .ok → intOut r ≠ .value) := by
  decide +kernel

-- (explicit handler lists here: examples must keep building when /repo's handlers are repaired)
example : doInt ["TypeError", "ValueError"] ["TypeError", "ValueError", "OverflowError"]
    ⟨"x", "str", 10, .raises ["ValueError", "Exception"], .ok, .raises ["OverflowError", "ArithmeticError"]⟩ = .default := by decide
example : doFloat ["TypeError", "ValueError"]
    ⟨"x", "hugeint", 10, .ok, .raises ["OverflowError", "ArithmeticError"], .raises ["OverflowError"]⟩ = .raises "OverflowError" := by decide
example : doFloat ["TypeError", "ArithmeticError"]
    ⟨"x", "hugeint", 10, .ok, .raises ["OverflowError", "ArithmeticError"], .raises ["OverflowError"]⟩ = .default := by decide
-- not vacuous for the formerly failing samples: they are rows of the table, the conversions do raise OverflowError
example : (rows.any fun r => r.name == "float-inf" && (match r.int1 with | .raises m => m.contains "OverflowError" | .ok => false)) = true ∧
    (rows.any fun r => r.name == "hugeint" && (match r.flt with | .raises m => m.contains "OverflowError" | .ok => false)) = true := by
  decide +kernel
example : (rows.any fun r => floatOut r == .default) = true ∧ (rows.any fun r => intOut r == .default) = true ∧
    (rows.any fun r => intOut r == .value && r.int1 != .ok) = true := by decide +kernel

/-! ### the filters are functions of their arguments: no memoising decorator on any worker -/

open JinjaV.Gen.FilterWorkers in
/-- over the functions READ from filters.py / utils.py as reachable from the C23 entries of `FILTERS` (regenerated every
    run): every decorator is a call marker, none caches results by argument value -/
theorem no_memoised_worker : ∀ w ∈ workers, ∀ d ∈ w.decorators, d ∈ allowedDecorators := by decide +kernel

theorem suspectWorkers_nil : suspectWorkers = [] := by decide +kernel

-- not vacuous: the table reaches `utils.url_quote` from `urlencode` and sees the decorators that do exist
open JinjaV.Gen.FilterWorkers in
example : (workers.any fun w => w.module == "utils" && w.name == "url_quote" && w.filters.contains "urlencode") = true ∧
    (workers.any fun w => w.name == "do_truncate" && w.decorators == ["pass_environment"]) = true := by decide +kernel

end JinjaV.C23
