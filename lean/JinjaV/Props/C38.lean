/-
  C38 — exceptions from data propagate unchanged.

  Part 1 (over Gen/ExceptSites.lean, READ from src/jinja2/*.py on every run, re-proved by `decide +kernel`):
    every render-time `except` handler either re-raises the same object or catches only classes that the documentation
    names as signals at that very site (`handlers_within_policy`); every *broad* handler (Exception / BaseException / bare)
    re-raises the same object or is on the explicit allow-list (`broad_handlers_ok`).
  Part 2 (model, Model/ExnFlow.lean, whose handlers are looked up in the same table): for every construct tree and every
    fault position, an exception outside the documented signal sets of the enclosing guards leaves `render` as the very
    same object (`exn_transparent`).
-/
import JinjaV.Model.ExnFlow

namespace JinjaV.C38
open JinjaV.Gen.ExceptSites JinjaV.ExceptPolicy JinjaV.ExnFlow

/-! ### Part 1 — the source table -/

/-- `Environment.handle_exception` is `raise rewrite_traceback_stack(..)`, which returns `exc_value.with_traceback(..)`
    for the `exc_value` of `sys.exc_info()`: "call handle_exception" re-raises the same object -/
theorem handle_exception_reraises_same : handleExceptionSame = true := by decide +kernel

/-- every render-time handler re-raises the same object, or a documented row for exactly that
    handler lists every class it catches -/
theorem handlers_within_policy :
    ∀ s ∈ sites, renderTime s = true → reraises s = true ∨ coveredBy (documented) s = true := by
  decide +kernel

-- The allow-list of broad render-time handlers (`allowedBroad`: three sites, each named by module + function + ordinal with
-- what it guards and why it is acceptable) is written out in Spec/ExceptPolicy.lean, because the counterexample finder
-- served by the driver must not depend on this file's proofs.

/-- every render-time handler that catches Exception / BaseException / everything re-raises the same object or is on the
    documented allow-list (full strength: the former known finding F15 is repaired, /repo 9a4c10c) -/
theorem broad_handlers_ok :
    ∀ s ∈ sites, broad s = true → renderTime s = true → reraises s = true ∨ keyOf s ∈ allowedBroad := by
  decide +kernel

-- counterexample finder: `ExnFlow.broadOffenders` (twin of `broad_handlers_ok`; served by Wire as `c38-audit`)
theorem broad_offenders_none : broadOffenders = [] := by decide +kernel

/-- a policy row that names data hooks sits on a handler whose try body does contain a call into data -/
theorem hook_rows_guard_data_calls : hookRowsWithoutDataCall (documented) = [] := by
  decide +kernel

/-- the allow-listed broad handlers are documented rows (so the model below treats them as signals, not as transparent) -/
theorem allowed_broad_documented :
    ∀ g ∈ allowedBroad, (entriesAt documented g.module g.func g.idx).isEmpty = false := by decide +kernel

-- non-vacuity: the table has broad render-time handlers of each sort
example : (sites.filter fun s => broad s && renderTime s && reraises s).length ≥ 6 := by decide +kernel
example : (sites.filter fun s => broad s && renderTime s && !reraises s).length ≥ 3 := by decide +kernel
example : (sites.filter fun s => renderTime s && !reraises s).length ≥ 40 := by decide +kernel

/-! ### Part 2 — propagation -/

private theorem eval_outside (k : Nat) (e : Exn) (t : Tree) :
    ∀ n, (k < n ∨ n + t.events ≤ k) → eval k e t n = .done := by
  induction t with
  | skip => intro n _; rfl
  | event =>
    intro n h
    simp only [Tree.events] at h
    have : n ≠ k := by omega
    simp [eval, this]
  | seq a b iha ihb =>
    intro n h
    simp only [Tree.events] at h
    have ha : eval k e a n = .done := iha n (by omega)
    have hb : eval k e b (n + a.events) = .done := ihb (n + a.events) (by omega)
    simp [eval, ha, hb]
  | guard g b ih =>
    intro n h
    simp only [Tree.events] at h
    have hb : eval k e b n = .done := ih n h
    simp [eval, hb]

/-- a clean run (no event carries the fault) raises nothing: the engine adds no exception of its own in the model -/
theorem clean_run_no_raise (entry : Key) (t : Tree) (k : Nat) (e : Exn) (h : t.events ≤ k) :
    render entry t k e = .done := by
  unfold render
  exact eval_outside k e (.guard entry t) 0 (Or.inr (by simpa [Tree.events] using h))

/-- bridge between the source table and the documentation: a render-time guard whose documented rows do not name the class
    has no source handler that catches it (by `handlers_within_policy`) -/
theorem handlerFor_none (g : Key) (bases : List String) (hr : renderGuard g = true)
    (hs : specSignal g bases = false) : handlerFor g bases = none := by
  unfold handlerFor
  rw [List.find?_eq_none]
  intro s hs_mem hp
  simp only [Bool.and_eq_true, Bool.not_eq_true'] at hp
  obtain ⟨⟨hat, hnr⟩, hcatch⟩ := hp
  simp only [siteAt, Bool.and_eq_true, beq_iff_eq] at hat
  obtain ⟨⟨hm, hf⟩, hi⟩ := hat
  have hrt : renderTime s = true := by
    simp only [renderTime, hm, hf]; exact hr
  rcases handlers_within_policy s hs_mem hrt with h | h
  · simp [h] at hnr
  · simp only [coveredBy, List.any_eq_true] at h
    obtain ⟨en, hen, hall⟩ := h
    have : specSignal g bases = true := by
      simp only [specSignal, isSignalAt, List.any_eq_true]
      refine ⟨en, ?_, ?_⟩
      · rw [← hm, ← hf, ← hi]; exact hen
      · simp only [catchesAny, List.any_eq_true] at hcatch ⊢
        obtain ⟨c, hc, hcc⟩ := hcatch
        refine ⟨c, ?_, hcc⟩
        have := List.all_eq_true.mp hall c hc
        simpa using this
    rw [hs] at this
    exact Bool.noConfusion this

private theorem enclosing_sub_guards (t : Tree) : ∀ k n, ∀ g ∈ enclosing t k n, g ∈ t.guards := by
  induction t with
  | skip => intro k n g h; simp [enclosing] at h
  | event => intro k n g h; simp [enclosing] at h
  | seq a b iha ihb =>
    intro k n g h
    simp only [enclosing] at h
    simp only [Tree.guards, List.mem_append]
    split at h
    · exact Or.inl (iha k n g h)
    · exact Or.inr (ihb k _ g h)
  | guard g' b ih =>
    intro k n g h
    simp only [enclosing, List.mem_append, List.mem_singleton] at h
    simp only [Tree.guards, List.mem_cons]
    rcases h with h | h
    · exact Or.inr (ih k n g h)
    · exact Or.inl h

private theorem eval_transparent (k : Nat) (e : Exn) (t : Tree) :
    ∀ n, n ≤ k → k < n + t.events →
      (∀ g ∈ t.guards, renderGuard g = true) →
      (∀ g ∈ enclosing t k n, specSignal g e.bases = false) →
      eval k e t n = .raised (.orig e) := by
  induction t with
  | skip => intro n _ h2; simp [Tree.events] at h2; omega
  | event =>
    intro n h1 h2 _ _
    simp only [Tree.events] at h2
    have : n = k := by omega
    simp [eval, this]
  | seq a b iha ihb =>
    intro n h1 h2 hg hs
    simp only [Tree.events] at h2
    simp only [Tree.guards, List.mem_append] at hg
    simp only [enclosing] at hs
    by_cases hk : k < n + a.events
    · simp only [hk, if_true] at hs
      have := iha n h1 hk (fun g h => hg g (Or.inl h)) hs
      simp [eval, this]
    · simp only [hk, if_false] at hs
      have ha : eval k e a n = .done := eval_outside k e a n (Or.inr (by omega))
      have := ihb (n + a.events) (by omega) (by omega) (fun g h => hg g (Or.inr h)) hs
      simp [eval, ha, this]
  | guard g b ih =>
    intro n h1 h2 hg hs
    simp only [Tree.events] at h2
    simp only [Tree.guards, List.mem_cons] at hg
    simp only [enclosing, List.mem_append, List.mem_singleton] at hs
    have hb := ih n h1 h2 (fun g' h => hg g' (Or.inr h)) (fun g' h => hs g' (Or.inl h))
    have hnone : handlerFor g e.bases = none :=
      handlerFor_none g e.bases (hg g (Or.inl rfl)) (hs g (Or.inr rfl))
    simp [eval, hb, handle, Raised.bases, hnone]

/-- **exn_transparent.**  For every construct tree built from render-time guards, every entry point, every fault position
    `k` inside the tree and every exception `e`: if the class of `e` is outside the documented signal set of each guard
    that encloses event `k`, the render result is exactly that exception object. -/
theorem exn_transparent (entry : Key) (hentry : entry ∈ entryPoints) (t : Tree) (k : Nat) (e : Exn)
    (hk : k < t.events)
    (hguards : ∀ g ∈ t.guards, renderGuard g = true)
    (hsig : ∀ g ∈ enclosing t k 0, specSignal g e.bases = false) :
    render entry t k e = .raised (.orig e) := by
  unfold render
  have hb := eval_transparent k e t 0 (Nat.zero_le _) (by simpa using hk) hguards hsig
  -- the entry point's own handler calls handle_exception, i.e. re-raises the same object: no handler catches
  have hnone : handlerFor entry e.bases = none := by
    have hre : ∀ g ∈ entryPoints, ∀ s ∈ sites, siteAt g s = true → reraises s = true := by decide +kernel
    unfold handlerFor
    rw [List.find?_eq_none]
    intro s hs hp
    simp only [Bool.and_eq_true, Bool.not_eq_true'] at hp
    have := hre entry hentry s hs hp.1.1
    simp [this] at hp
  simp [eval, hb, handle, Raised.bases, hnone]

/-- corollary: a class that is a signal nowhere in the tree propagates unchanged from every position -/
theorem private_exception_transparent (entry : Key) (hentry : entry ∈ entryPoints) (t : Tree) (e : Exn)
    (hguards : ∀ g ∈ t.guards, renderGuard g = true)
    (hpriv : ∀ g ∈ t.guards, specSignal g e.bases = false) :
    ∀ k, k < t.events → render entry t k e = .raised (.orig e) := by
  intro k hk
  exact exn_transparent entry hentry t k e hk hguards
    (fun g h => hpriv g (enclosing_sub_guards t k 0 g h))

/-- a plain `Exception` subclass is a signal only at the allow-listed sites -/
theorem plain_exception_signal_sites :
    ∀ en ∈ documented, catchesAny en.signals ["Exception", "BaseException"] = true →
      (⟨en.module, en.func, en.idx⟩ : Key) ∈ allowedBroad := by
  decide +kernel

-- non-vacuity ---------------------------------------------------------------------------------------------------------
/-- `{{ m() }}` where the macro body reads `o.a` then `xs|first`: guards Context.call ⊃ (getattr ; first) -/
def sample : Tree :=
  .guard ⟨"runtime", "Context.call", 0⟩
    (.seq (.guard ⟨"environment", "Environment.getattr", 0⟩ .event)
          (.seq .event (.guard ⟨"filters", "sync_do_first", 0⟩ .event)))

def boom : Exn := ⟨7, ["Boom", "Exception", "BaseException"]⟩
def stop : Exn := ⟨8, ["MyStop", "StopIteration", "Exception", "BaseException"]⟩
def attrErr : Exn := ⟨9, ["MyAttr", "AttributeError", "Exception", "BaseException"]⟩

example : sample.events = 3 ∧ (∀ g ∈ sample.guards, renderGuard g = true) ∧
    (∀ g ∈ sample.guards, specSignal g boom.bases = false) := by decide +kernel
example : render ⟨"environment", "Template.render", 0⟩ sample 0 boom = .raised (.orig boom) := by decide +kernel
example : render ⟨"environment", "Template.render", 0⟩ sample 2 boom = .raised (.orig boom) := by decide +kernel
-- signals are taken: StopIteration inside the call → undefined; AttributeError at getattr → fall through
example : render ⟨"environment", "Template.render", 0⟩ sample 1 stop = .done := by decide +kernel
example : render ⟨"environment", "Template.render", 0⟩ sample 0 attrErr = .done := by decide +kernel
-- … but the same AttributeError from the bare event (position 1, not under a lookup guard) propagates
example : render ⟨"environment", "Template.render", 0⟩ sample 1 attrErr = .raised (.orig attrErr) := by decide +kernel
-- a translate handler makes a new object (do_reverse: TypeError → FilterArgumentError)
example : render ⟨"environment", "Template.render", 0⟩ (.guard ⟨"filters", "do_reverse", 1⟩ .event) 0
    ⟨1, ["TypeError", "Exception", "BaseException"]⟩ =
    .raised (.translated "filters" "do_reverse" 1 "FilterArgumentError" ⟨1, ["TypeError", "Exception", "BaseException"]⟩) := by
  decide +kernel

/-! ### Part 3 — the engine is left usable: the module cache after a failed render -/

/-- a run in which the fault does not strike is the clean run -/
private theorem runSt_ok_eq_clean (k : Nat) (t : RTree) : ∀ n st n' st',
    runSt (some k) t n st = (true, n', st') → runSt none t n st = (true, n', st') := by
  induction t with
  | skip => intro n st n' st' h; simpa [runSt] using h
  | ev => intro n st n' st' h; simp [runSt] at h ⊢; exact ⟨h.2.1, h.2.2⟩
  | seq a b iha ihb =>
    intro n st n' st' h
    simp only [runSt] at h ⊢
    generalize ha : runSt (some k) a n st = ra at h
    obtain ⟨oka, na, sta⟩ := ra
    cases oka with
    | false => simp at h
    | true =>
      simp only at h
      rw [iha n st na sta ha]
      exact ihb na sta n' st' h
  | imp name body ih =>
    intro n st n' st' h
    simp only [runSt] at h ⊢
    by_cases hc : name ∈ st
    · simp only [hc, if_true] at h ⊢; exact h
    · simp only [hc, if_false] at h ⊢
      generalize hb : runSt (some k) body n st = rb at h
      obtain ⟨okb, nb, stb⟩ := rb
      cases okb with
      | false => simp at h
      | true =>
        simp only at h
        rw [ih n st nb stb hb]
        exact h

/-- a clean run always completes (the engine itself never fails in the model) -/
theorem runSt_clean_ok (t : RTree) : ∀ n st, (runSt none t n st).1 = true := by
  induction t with
  | skip => intro n st; rfl
  | ev => intro n st; simp [runSt]
  | seq a b iha ihb =>
    intro n st
    simp only [runSt]
    generalize ha : runSt none a n st = ra
    obtain ⟨oka, na, sta⟩ := ra
    have := iha n st; rw [ha] at this; simp only at this; subst this
    exact ihb na sta
  | imp name body ih =>
    intro n st
    simp only [runSt]
    by_cases hc : name ∈ st
    · simp only [hc, if_true]
    · simp only [hc, if_false]
      generalize hb : runSt none body n st = rb
      obtain ⟨okb, nb, stb⟩ := rb
      have := ih n st; rw [hb] at this; simp only at this; subst this
      rfl

/-- the cache state of a clean run does not depend on event numbering -/
private theorem runSt_clean_state_indep (t : RTree) : ∀ n m st, (runSt none t n st).2.2 = (runSt none t m st).2.2 := by
  induction t with
  | skip => intro n m st; rfl
  | ev => intro n m st; simp [runSt]
  | seq a b iha ihb =>
    intro n m st
    simp only [runSt]
    generalize ha : runSt none a n st = ra
    generalize ha2 : runSt none a m st = ra2
    obtain ⟨oka, na, sta⟩ := ra
    obtain ⟨oka2, na2, sta2⟩ := ra2
    have h1 := runSt_clean_ok a n st; rw [ha] at h1; simp only at h1; subst h1
    have h2 := runSt_clean_ok a m st; rw [ha2] at h2; simp only at h2; subst h2
    have h3 := iha n m st; rw [ha, ha2] at h3; simp only at h3; subst h3
    exact ihb na na2 sta
  | imp name body ih =>
    intro n m st
    simp only [runSt]
    by_cases hc : name ∈ st
    · simp only [hc, if_true]
    · simp only [hc, if_false]
      generalize hb : runSt none body n st = rb
      generalize hb2 : runSt none body m st = rb2
      obtain ⟨okb, nb, stb⟩ := rb
      obtain ⟨okb2, nb2, stb2⟩ := rb2
      have h1 := runSt_clean_ok body n st; rw [hb] at h1; simp only at h1; subst h1
      have h2 := runSt_clean_ok body m st; rw [hb2] at h2; simp only at h2; subst h2
      have h3 := ih n m st; rw [hb, hb2] at h3; simp only at h3; subst h3
      rfl

private theorem state_after_fault_is_clean_state (k : Nat) (t : RTree) : ∀ n st,
    (runSt none (prune k t n st) n st).2.2 = (runSt (some k) t n st).2.2 := by
  induction t with
  | skip => intro n st; rfl
  | ev => intro n st; simp [runSt, prune]
  | seq a b iha ihb =>
    intro n st
    simp only [prune, runSt]
    generalize ha : runSt (some k) a n st = ra
    obtain ⟨oka, na, sta⟩ := ra
    cases oka with
    | true =>
      simp only [runSt]
      rw [runSt_ok_eq_clean k a n st na sta ha]
      exact ihb na sta
    | false =>
      simp only
      have := iha n st
      rw [ha] at this
      exact this
  | imp name body ih =>
    intro n st
    simp only [prune, runSt]
    by_cases hc : name ∈ st
    · simp only [hc, if_true, runSt]
    · simp only [hc, if_false]
      generalize hb : runSt (some k) body n st = rb
      obtain ⟨okb, nb, stb⟩ := rb
      cases okb with
      | true =>
        simp only [runSt, hc, if_false]
        rw [runSt_ok_eq_clean k body n st nb stb hb]
      | false =>
        simp only
        have := ih n st
        rw [hb] at this
        exact this

/-- **engine_state_after_error_reachable.**  Whatever the render tree, the prior cache state and the position of the fault:
    the module-cache state a *failed* render leaves behind is exactly the state that a *successful* render (of the part
    that had been completed, `prune`) leaves from the same prior state — a module is cached only if its body was evaluated
    to the end, so no half-evaluated module survives the exception. -/
theorem engine_state_after_error_reachable (k : Nat) (t : RTree) (n : Nat) (st : CacheSt) :
    ∃ t', (runSt none t' 0 st).1 = true ∧ (runSt none t' 0 st).2.2 = (runSt (some k) t n st).2.2 := by
  refine ⟨prune k t n st, runSt_clean_ok _ _ _, ?_⟩
  rw [runSt_clean_state_indep _ 0 n st]
  exact state_after_fault_is_clean_state k t n st

-- non-vacuity: `a` is imported cleanly; the fault strikes in the body of `b` after `b` has imported `c`:
-- `a` and `c` are cached, `b` is not; the clean run caches all three
example : runSt (some 2) (.seq (.imp "a" .ev) (.imp "b" (.seq (.imp "c" .ev) .ev))) 0 [] = (false, 3, ["c", "a"]) := by decide +kernel
example : runSt none (.seq (.imp "a" .ev) (.imp "b" (.seq (.imp "c" .ev) .ev))) 0 [] = (true, 3, ["b", "c", "a"]) := by decide +kernel
example : runSt (some 0) (.seq (.imp "a" .ev) (.imp "a" .ev)) 0 ["a"] = (true, 0, ["a"]) := by decide +kernel

end JinjaV.C38
