/-
  C35 — errors point at the template line that caused them.

  Two halves.
  * Syntax side (over Model/Lex.lean, re-using C39): every token's line number — the number a
    `TemplateSyntaxError` raised at that token carries, and the `lineno` the parser gives to the node that
    starts there — is 1 + the number of line breaks of the preprocessed source before the token, and lies
    within 1 … 1 + line breaks of the source; the same for errors raised by the lexer itself.
  * Runtime side (over Model/DebugInfo.lean): for EVERY sequence of `write/newline/indent/outdent` calls the
    table `debug_info` is strictly increasing in the code line, `code_lineno` is the number of the line being
    written, the text encoding of the table round-trips, `get_corresponding_lineno` finds the entry whose code
    interval contains the line, and the code written after `newline(node)` maps back to `node.lineno` until a
    node on another line is announced.
  What is NOT here (correspondence only, see harness/props/c35.py): that CPython reports `tb_lineno` = the line of
  the generated source, `rewrite_traceback_stack`/`fake_traceback`, which node the compiler announces for which
  statement, and the parser's choice of the token whose line a node carries.
-/
import JinjaV.Lemmas.DebugInfo
import JinjaV.Props.C39

namespace JinjaV.C35
open JinjaV.DebugInfo

/-! ### syntax side -/

/-- **token line**: the line carried by a token is 1 + the line breaks before it (C39's `token_line_any`), hence
    a line of the template: between 1 and 1 + the number of line breaks of the preprocessed source -/
theorem token_line_in_source (cfg : Lex.Cfg) (src : Lex.Str) (toks : List Lex.Tok)
    (h : Lex.tokeniter cfg src = .ok toks) (a : List Lex.Tok) (t : Lex.Tok) (b : List Lex.Tok)
    (hs : toks = a ++ t :: b) :
    t.lineno = 1 + Lex.countNl (C39.texts a) ∧ 1 ≤ t.lineno ∧ t.lineno ≤ 1 + Lex.countNl (Lex.preprocess cfg src) := by
  have hl := C39.token_line_any cfg src toks h a t b hs
  have hx := C39.lex_lossless cfg src toks h
  refine ⟨hl, by omega, ?_⟩
  rw [hl, ← hx, hs, C39.texts_append, C39.countNl_append]
  omega

example : (Lex.tokeniter ⟨"{%".toList, "%}".toList, "{{".toList, "}}".toList, "{#".toList, "#}".toList, none, none,
      false, false, false⟩ "a\n{{ x\n}}".toList) =
    .ok [⟨1, .data, "a\n".toList⟩, ⟨2, .variableBegin, "{{".toList⟩, ⟨2, .whitespace, " ".toList⟩,
      ⟨2, .name, "x".toList⟩, ⟨2, .whitespace, "\n".toList⟩, ⟨3, .variableEnd, "}}".toList⟩] := by decide +kernel

/-- **lexer error line**: an error raised by the lexer carries the line reached in the source (1 + the line breaks
    of the text consumed so far), a line of the template -/
theorem lexer_error_line_in_source (cfg : Lex.Cfg) (src : Lex.Str) (toks : List Lex.Tok) (k : Lex.ErrKind) (ln : Nat)
    (h : Lex.tokeniter cfg src = .syntaxError toks k ln) :
    ln = 1 + Lex.countNl (C39.texts toks) ∧ 1 ≤ ln ∧ ln ≤ 1 + Lex.countNl (Lex.preprocess cfg src) := by
  obtain ⟨_, h2, h3⟩ := C39.error_line cfg src toks k ln h
  exact ⟨h2, by omega, h3⟩

def errorLineOf : Lex.LexRes → Option Nat
  | .syntaxError _ _ ln => some ln
  | _ => none

example : errorLineOf (Lex.tokeniter ⟨"{%".toList, "%}".toList, "{{".toList, "}}".toList, "{#".toList, "#}".toList, none, none,
      false, false, false⟩ "a\n\n{{ ) }}".toList) = some 3 := by decide +kernel

/-! ### runtime side: the generator's table -/

/-- **debug_info_monotone**: after any sequence of generator calls the recorded code lines are strictly increasing,
    each is at least 2 and at most the current `code_lineno` — which is what makes the reversed scan of
    `get_corresponding_lineno` correct -/
theorem debug_info_monotone (ops : List Op) :
    Monotone (run init ops).debugInfo ∧
    ∀ p ∈ (run init ops).debugInfo, 2 ≤ p.2 ∧ p.2 ≤ (run init ops).codeLineno :=
  let h := inv_run init ops inv_init
  ⟨h.mono, h.bound⟩

example : (run init (writeline "a".toList none 0 ++ writeline "b".toList (some 3) 0 ++ [.indent] ++
    writeline "c".toList (some 3) 0 ++ writeline "d".toList (some 7) 1)).debugInfo = [(3, 2), (7, 5)] := by decide

/-- **code_lineno_tracks_stream**: as long as no `write` text contains a line break, `code_lineno` is exactly
    1 + the number of line breaks written so far, i.e. the number of the line the next text goes to -/
theorem code_lineno_tracks_stream (ops : List Op) (h : NoNl ops) :
    (run init ops).codeLineno = 1 + countNl (run init ops).stream := by
  have := tracks_run init ops (by simp [Tracks, init, countNl]) h
  unfold Tracks at this
  rw [this]
  simp [Gen.stream, countNl]

example : (run init (writeline "a".toList none 0 ++ writeline "b".toList (some 3) 2)).stream = "a\n\n\nb".toList ∧
    (run init (writeline "a".toList none 0 ++ writeline "b".toList (some 3) 2)).codeLineno = 4 := by decide

/-- **recorded lines are node lines**: every template line in the table, hence every answer of
    `get_corresponding_lineno` other than the default 1, is the `lineno` of a node that was passed to `newline` -/
theorem reported_line_is_a_node_line (ops : List Op) (ℓ : Nat) :
    correspondingLineno (run init ops).debugInfo ℓ = 1 ∨
    ∃ e, Op.newline (some (correspondingLineno (run init ops).debugInfo ℓ)) e ∈ ops := by
  have h := fromNodes_run init ops [] ⟨by simp [init], by simp [init]⟩
  rcases scan_mem ℓ (run init ops).debugInfo.reverse with h1 | ⟨p, hp, e⟩
  · left; exact h1
  · right
    have := h.table p (by simpa using hp)
    simp only [List.nil_append] at this
    unfold correspondingLineno
    rw [← e]; exact this

/-! ### runtime side: the lookup -/

/-- **corresponding_lineno_spec**: for a table with increasing code lines and every code line ℓ: if the table
    splits as `a ++ (tl, cl) :: b` with `cl ≤ ℓ` and the next entry (if any) above ℓ, the answer is `tl`; if the
    first entry (if any) is above ℓ, the answer is 1 -/
theorem corresponding_lineno_spec (t : List (Nat × Nat)) (hm : Monotone t) (ℓ : Nat) :
    (∀ a tl cl b, t = a ++ (tl, cl) :: b → cl ≤ ℓ → (∀ q, b.head? = some q → ℓ < q.2) →
      correspondingLineno t ℓ = tl) ∧
    ((∀ q, t.head? = some q → ℓ < q.2) → correspondingLineno t ℓ = 1) := by
  constructor
  · intro a tl cl b ht hle hb
    subst ht
    have hmb : Monotone b := by
      unfold Monotone at hm
      exact ((List.pairwise_append.mp hm).2.1).of_cons
    have hall := monotone_tail_gt b ℓ hmb hb
    unfold correspondingLineno
    simp only [List.reverse_append, List.reverse_cons, List.append_assoc, List.singleton_append]
    rw [scan_skip ℓ b.reverse _ (by intro p hp; exact hall p (by simpa using hp))]
    simp [scan, hle]
  · intro hh
    have hall := monotone_tail_gt t ℓ hm hh
    unfold correspondingLineno
    exact scan_nil_of_all_gt ℓ _ (by intro p hp; exact hall p (by simpa using hp))

example : correspondingLineno [(3, 2), (7, 5), (4, 9)] 8 = 7 ∧ correspondingLineno [(3, 2), (7, 5)] 1 = 1 ∧
    correspondingLineno [(3, 2), (7, 5), (4, 9)] 100 = 4 := by decide

/-- **generated_table_lookup**: the two previous facts composed — in the table produced by ANY op sequence, every code
    line from an entry's code line up to (excluding) the next entry's code line is answered with that entry's template line -/
theorem generated_table_lookup (ops : List Op) (a : List (Nat × Nat)) (tl cl : Nat) (b : List (Nat × Nat))
    (h : (run init ops).debugInfo = a ++ (tl, cl) :: b) (ℓ : Nat) (hle : cl ≤ ℓ)
    (hnext : ∀ q, b.head? = some q → ℓ < q.2) :
    correspondingLineno (run init ops).debugInfo ℓ = tl :=
  (corresponding_lineno_spec _ (debug_info_monotone ops).1 ℓ).1 a tl cl b h hle hnext

example : (run init (writeline "a".toList none 0 ++ writeline "b".toList (some 3) 0 ++ writeline "c".toList none 0 ++
    writeline "d".toList (some 7) 1)).debugInfo = [] ++ (3, 2) :: [(7, 5)] := by decide

/-- **debug_info_roundtrip**: decoding the `debug_info` string of any table gives the table back -/
theorem debug_info_roundtrip (t : List (Nat × Nat)) : decode (encode t) = some t := decode_encode t

example : encode [(3, 2), (17, 105)] = "3=2&17=105".toList ∧ decode "3=2&17=105".toList = some [(3, 2), (17, 105)] ∧
    decode [] = some [] := by decide

/-! ### runtime side: a node's code reports the node's line -/

/-- **node_line_recorded**: for every prior history `pre` in which something was already written, after
    `newline(node)` followed by a `write`, the code line of that write maps back to `node.lineno`; and so does
    every later code line, whatever is emitted afterwards (`more`), until a node on a different line is announced.
    (`1 ≤ n`: template lines start at 1, `token_line_in_source`.) -/
theorem node_line_recorded (pre more : List Op) (n e : Nat) (x : Str)
    (hf : (run init pre).firstWrite = false) (hn : 1 ≤ n) (hq : ∀ op ∈ more, op.quiet n) (ℓ : Nat)
    (hl : (run init (pre ++ writeline x (some n) e)).codeLineno ≤ ℓ) :
    correspondingLineno (run init (pre ++ writeline x (some n) e ++ more)).debugInfo ℓ = n := by
  have hi := inv_run init pre inv_init
  have h0 := holds_after_newline_write (run init pre) n e x hi hf hn
  have e1 : run init (pre ++ writeline x (some n) e) = write (newline (run init pre) (some n) e) x := by
    simp [writeline, run, step]
  rw [e1] at hl
  rw [run_append, e1]
  exact holds_corresponding n _ _ (holds_run n _ _ more h0 hq) ℓ hl

example : let ops := writeline "import".toList none 0 ++ writeline "yield a".toList (some 4) 0
    (run init ops).codeLineno = 2 ∧
    correspondingLineno (run init (ops ++ [.indent] ++ writeline "x".toList none 0 ++ writeline "y".toList (some 4) 1)).debugInfo 5 = 4 := by
  decide

/-- **first write**: the hypothesis `firstWrite = false` is needed — a node announced before the very first `write`
    is not recorded by that write (it stays pending); the real generator's first write is the import line, which
    carries no node -/
theorem first_write_records_nothing (n e : Nat) (x : Str) :
    (run init (writeline x (some n) e)).debugInfo = [] ∧ (run init (writeline x (some n) e)).codeLineno = 1 := by
  by_cases h : n = 0 <;> simp [run, writeline, step, newline, write, init, h]

/-- **node line at its stream position**: with line-break-free texts, the text written for the node starts on the
    line of the generated source whose number is mapped back to `node.lineno` -/
theorem node_text_line (pre : List Op) (n e : Nat) (x : Str) (hnl : NoNl pre)
    (hf : (run init pre).firstWrite = false) (hn : 1 ≤ n) :
    ∃ before, (run init (pre ++ writeline x (some n) e)).stream = before ++ x ∧
      correspondingLineno (run init (pre ++ writeline x (some n) e)).debugInfo (1 + countNl before) = n := by
  have ht := tracks_run init pre (by simp [Tracks, init, countNl]) hnl
  have hq := node_line_recorded pre [] n e x hf hn (by simp) (run init (pre ++ writeline x (some n) e)).codeLineno (Nat.le_refl _)
  simp only [List.append_nil] at hq
  have hmax : max (run init pre).newLines (1 + e) ≠ 0 := by omega
  have e1 : run init (pre ++ writeline x (some n) e) = write (newline (run init pre) (some n) e) x := by
    simp [writeline, run, step]
  have hnln : ∀ m : Option Nat, (newline (run init pre) m e).newLines = max (run init pre).newLines (1 + e) := by
    intro m; cases m <;> simp [newline]; split <;> rfl
  refine ⟨((indentText (run init pre).indentation).reverse ++
      (List.replicate (max (run init pre).newLines (1 + e)) '\n' ++ (run init pre).streamRev)).reverse, ?_, ?_⟩
  · rw [e1]
    have hfw : (newline (run init pre) (some n) e).firstWrite = false := by
      simp only [newline]; split <;> exact hf
    have hind : (newline (run init pre) (some n) e).indentation = (run init pre).indentation := by
      simp only [newline]; split <;> rfl
    have hsr : (newline (run init pre) (some n) e).streamRev = (run init pre).streamRev := by
      simp only [newline]; split <;> rfl
    simp only [Gen.stream, write, hnln, hfw]
    simp only [bne_iff_ne, ne_eq, hmax, not_false_eq_true, if_true, Bool.not_false]
    cases (newline (run init pre) (some n) e).writeDebugInfo <;>
      simp [hind, hsr]
  · have hc : (run init (pre ++ writeline x (some n) e)).codeLineno =
        (run init pre).codeLineno + max (run init pre).newLines (1 + e) := by
      rw [e1]
      have hfw : (newline (run init pre) (some n) e).firstWrite = false := by
        simp only [newline]; split <;> exact hf
      have hcl : (newline (run init pre) (some n) e).codeLineno = (run init pre).codeLineno := by
        simp only [newline]; split <;> rfl
      simp only [write, hnln, hfw]
      simp only [bne_iff_ne, ne_eq, hmax, not_false_eq_true, if_true, Bool.not_false]
      cases (newline (run init pre) (some n) e).writeDebugInfo <;> simp [hcl]
    have hcount : 1 + countNl ((indentText (run init pre).indentation).reverse ++
        (List.replicate (max (run init pre).newLines (1 + e)) '\n' ++ (run init pre).streamRev)).reverse =
        (run init pre).codeLineno + max (run init pre).newLines (1 + e) := by
      unfold Tracks at ht
      have hi0 := countNl_indent (run init pre).indentation
      unfold countNl at *
      simp only [List.count_reverse, List.count_append, hi0, List.count_replicate_self, ht]
      omega
    rw [hcount, ← hc]
    exact hq

example : NoNl (writeline "import".toList none 0) ∧
    (run init (writeline "import".toList none 0)).firstWrite = false := by
  refine ⟨?_, by decide⟩
  intro x hx
  simp [writeline] at hx
  subst hx; decide

end JinjaV.C35
