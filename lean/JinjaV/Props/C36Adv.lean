/-
  C36, second part — the adversary matters only through the position of its first attack.

  `bracketed_closed` (Props/C36.lean) quantifies over every adversary choice sequence.  The correspondence runs
  (L-sem, L-e2e) enumerate single attacks: "no attack" and "attack at the k-th suspension point" for every k.
  `run_depends_on_first_attack` shows this enumeration is exhaustive for the model: choices after the first attack are
  never consumed (after a stop or a cancellation the run only unwinds), so two adversaries whose first attack is at the
  same position give the same run; `firstAttack_singleAttack`: every adversary has a single-attack representative.

  Proof: a relational induction over `exec` (two runs against related consumers stay related), with `exec_payload`
  (the pending outcome a closed/abandoned frame reports is one its consumer handed to it) to know that a frame that
  was closed never reports `done`.
-/
import JinjaV.Model.GenTree
namespace JinjaV.C36
open JinjaV.GenTree

/-- position of the adversary's first attack -/
def firstAttack : List Bool → Option Nat
  | [] => none
  | true :: _ => some 0
  | false :: r => (firstAttack r).map (· + 1)

/-- same generators opened, same generators closed, same number of suspension points passed -/
def Agree (s₁ s₂ : St) : Prop := s₁.nOpened = s₂.nOpened ∧ s₁.closed = s₂.closed ∧ s₁.points = s₂.points

def RelSt (s₁ s₂ : St) : Prop := Agree s₁ s₂ ∧ firstAttack s₁.adv = firstAttack s₂.adv

def RelOut (r₁ r₂ : St × Out) : Prop :=
  Agree r₁.1 r₂.1 ∧ r₁.2 = r₂.2 ∧ (r₁.2 = .done → firstAttack r₁.1.adv = firstAttack r₂.1.adv)

def RelSig (r₁ r₂ : St × Sig) : Prop :=
  Agree r₁.1 r₂.1 ∧ r₁.2 = r₂.2 ∧ (r₁.2 = .resume → firstAttack r₁.1.adv = firstAttack r₂.1.adv)

def RelC (c₁ c₂ : Consumer) : Prop := ∀ s₁ s₂, RelSt s₁ s₂ → RelSig (c₁ s₁) (c₂ s₂)

private theorem map_succ_inj {a b : Option Nat} (h : a.map (· + 1) = b.map (· + 1)) : a = b := by
  cases a <;> cases b <;> simp_all

private theorem choice_rel {s₁ s₂ : St} (h : RelSt s₁ s₂) :
    Agree s₁.choice.1 s₂.choice.1 ∧ s₁.choice.2 = s₂.choice.2 ∧
      (s₁.choice.2 = false → firstAttack s₁.choice.1.adv = firstAttack s₂.choice.1.adv) := by
  obtain ⟨⟨h1, h2, h3⟩, ha⟩ := h
  unfold St.choice
  rcases e₁ : s₁.adv with _ | ⟨b₁, r₁⟩ <;> rcases e₂ : s₂.adv with _ | ⟨b₂, r₂⟩ <;> rw [e₁, e₂] at ha
  · exact ⟨⟨h1, h2, by simp [h3]⟩, rfl, fun _ => rfl⟩
  · cases b₂ with
    | true => simp [firstAttack] at ha
    | false =>
      simp only [firstAttack] at ha
      refine ⟨⟨h1, h2, by simp [h3]⟩, rfl, fun _ => ?_⟩
      simp only [firstAttack]
      cases hf : firstAttack r₂ <;> simp_all
  · cases b₁ with
    | true => simp [firstAttack] at ha
    | false =>
      simp only [firstAttack] at ha
      refine ⟨⟨h1, h2, by simp [h3]⟩, rfl, fun _ => ?_⟩
      simp only [firstAttack]
      cases hf : firstAttack r₁ <;> simp_all
  · cases b₁ <;> cases b₂
    · simp only [firstAttack] at ha
      exact ⟨⟨h1, h2, by simp [h3]⟩, rfl, fun _ => map_succ_inj ha⟩
    · simp only [firstAttack] at ha; cases hf : firstAttack r₁ <;> simp_all
    · simp only [firstAttack] at ha; cases hf : firstAttack r₂ <;> simp_all
    · exact ⟨⟨h1, h2, by simp [h3]⟩, rfl, fun h => by cases h⟩

/-- payloads: whatever pending outcome a frame reports after being closed/abandoned was handed to it by its consumer -/
theorem exec_payload (g : G) : ∀ (Q : Out → Prop) (c : Consumer),
    (∀ t p, (c t).2 = .exit p ∨ (c t).2 = .abandon p → Q p) →
    ∀ s p, (exec g c s).2 = .exited p ∨ (exec g c s).2 = .abandoned p → Q p := by
  induction g with
  | nil => intro Q c _ s p h; simp [exec] at h
  | yld k ih =>
    intro Q c hc s p h
    unfold exec at h
    rcases hcs : c s with ⟨s', sg⟩
    rw [hcs] at h
    cases sg with
    | resume => exact ih Q c hc s' p h
    | exit q =>
      simp only at h
      rcases h with h | h
      · cases h; exact hc s p (Or.inl (by rw [hcs]))
      · cases h
    | abandon q =>
      simp only at h
      rcases h with h | h
      · cases h
      · cases h; exact hc s p (Or.inr (by rw [hcs]))
  | awt k ih =>
    intro Q c hc s p h
    unfold exec at h
    rcases hcs : s.choice with ⟨s', b⟩
    rw [hcs] at h
    cases b with
    | true => simp at h
    | false => exact ih Q c hc s' p h
  | opn br child body k ihc ihb ihk =>
    intro Q c hc s p h
    -- payloads of the derived consumer: a non-`done` outcome of `body` whose own payload came from `c`
    let Q' : Out → Prop := fun o => o ≠ .done ∧ ∀ q, o = .exited q ∨ o = .abandoned q → Q q
    have hcons : ∀ t o, (sigOf br (exec body c t).2 = .exit o ∨ sigOf br (exec body c t).2 = .abandon o) → Q' o := by
      intro t o ho
      have hb := ihb Q c hc t
      cases hbo : (exec body c t).2 with
      | done => rw [hbo] at ho; simp [sigOf] at ho
      | raised =>
        rw [hbo] at ho
        cases br <;> simp [sigOf] at ho <;> subst ho <;> exact ⟨by simp, fun q hq => by simp at hq⟩
      | exited q =>
        rw [hbo] at ho
        have := hb q (Or.inl hbo)
        cases br <;> simp [sigOf] at ho <;> subst ho <;>
          exact ⟨by simp, fun q' hq => by rcases hq with hq | hq <;> cases hq; exact this⟩
      | abandoned q =>
        rw [hbo] at ho
        have := hb q (Or.inr hbo)
        simp [sigOf] at ho; subst ho
        exact ⟨by simp, fun q' hq => by rcases hq with hq | hq <;> cases hq; exact this⟩
    have hch := ihc Q' (fun t => ((exec body c t).1, sigOf br (exec body c t).2)) (fun t o ho => hcons t o ho) s.openGen.1
    unfold exec at h
    simp only at h
    cases hco : (exec child (fun t => ((exec body c t).1, sigOf br (exec body c t).2)) s.openGen.1).2 with
    | done => rw [hco] at h; simp only [afterChild] at h; exact ihk Q c hc _ p h
    | raised => rw [hco] at h; simp [afterChild] at h
    | exited o =>
      rw [hco] at h; simp only [afterChild] at h
      exact (hch o (Or.inl hco)).2 p h
    | abandoned o =>
      rw [hco] at h; simp only [afterChild] at h
      exact (hch o (Or.inr hco)).2 p h
  | drain child k ihc ihk =>
    intro Q c hc s p h
    have hch := ihc (fun _ => False) (fun t => (t, Sig.resume)) (fun t o ho => by simp at ho) s.openGen.1
    unfold exec at h
    simp only at h
    cases hco : (exec child (fun t => (t, Sig.resume)) s.openGen.1).2 with
    | done => rw [hco] at h; simp only [afterChild] at h; exact ihk Q c hc _ p h
    | raised => rw [hco] at h; simp [afterChild] at h
    | exited o => exact (hch o (Or.inl hco)).elim
    | abandoned o => exact (hch o (Or.inr hco)).elim

private theorem sigOf_resume {br : Br} {o : Out} (h : sigOf br o = .resume) : o = .done := by
  cases o <;> cases br <;> simp [sigOf] at h ⊢

private theorem sigOf_payload {br : Br} {o p : Out} (h : sigOf br o = .exit p ∨ sigOf br o = .abandon p) : p ≠ .done := by
  cases o <;> cases br <;> simp [sigOf] at h <;> (try subst h) <;> simp

private theorem agree_close {s₁ s₂ : St} (h : Agree s₁ s₂) (i : Nat) : Agree (s₁.close i) (s₂.close i) :=
  ⟨h.1, by simp [St.close, h.2.1], h.2.2⟩

private theorem afterChild_rel {s₁ s₂ : St} {r₁ r₂ : St × Out} (hs : s₁.nOpened = s₂.nOpened) (hr : RelOut r₁ r₂)
    (hp : ∀ p, r₁.2 = .exited p ∨ r₁.2 = .abandoned p → p ≠ .done) :
    Agree (afterChild s₁.openGen.2 r₁.1 r₁.2).1 (afterChild s₂.openGen.2 r₂.1 r₂.2).1
    ∧ (afterChild s₁.openGen.2 r₁.1 r₁.2).2 = (afterChild s₂.openGen.2 r₂.1 r₂.2).2
    ∧ ((afterChild s₁.openGen.2 r₁.1 r₁.2).2 = none →
        firstAttack (afterChild s₁.openGen.2 r₁.1 r₁.2).1.adv = firstAttack (afterChild s₂.openGen.2 r₂.1 r₂.2).1.adv)
    ∧ (afterChild s₁.openGen.2 r₁.1 r₁.2).2 ≠ some .done := by
  obtain ⟨ha, ho, hd⟩ := hr
  have hid : s₁.openGen.2 = s₂.openGen.2 := by simp [St.openGen, hs]
  rw [← ho, ← hid]
  cases h : r₁.2 with
  | done => exact ⟨agree_close ha _, rfl, fun _ => by simpa [afterChild, St.close] using hd h, by simp [afterChild]⟩
  | raised => exact ⟨agree_close ha _, rfl, fun h' => by simp [afterChild] at h', by simp [afterChild]⟩
  | exited p =>
    refine ⟨agree_close ha _, rfl, fun h' => by simp [afterChild] at h', ?_⟩
    have := hp p (Or.inl h); simpa [afterChild] using this
  | abandoned p =>
    refine ⟨ha, rfl, fun h' => by simp [afterChild] at h', ?_⟩
    have := hp p (Or.inr h); simpa [afterChild] using this

/-- Two runs of the same body from agreeing states, against consumers that agree, under adversaries whose first attack
    is at the same position, open and close the same generators and end the same way. -/
theorem exec_rel (g : G) : ∀ c₁ c₂, RelC c₁ c₂ → ∀ s₁ s₂, RelSt s₁ s₂ → RelOut (exec g c₁ s₁) (exec g c₂ s₂) := by
  induction g with
  | nil => intro c₁ c₂ _ s₁ s₂ h; exact ⟨h.1, rfl, fun _ => h.2⟩
  | yld k ih =>
    intro c₁ c₂ hc s₁ s₂ h
    have hs := hc s₁ s₂ h
    unfold exec
    rcases e₁ : c₁ s₁ with ⟨t₁, g₁⟩
    rcases e₂ : c₂ s₂ with ⟨t₂, g₂⟩
    rw [e₁, e₂] at hs
    obtain ⟨ha, hg, hr⟩ := hs
    simp only at ha hg hr
    subst hg
    cases g₁ with
    | resume => exact ih c₁ c₂ hc t₁ t₂ ⟨ha, hr rfl⟩
    | exit p => exact ⟨ha, rfl, fun h' => by cases h'⟩
    | abandon p => exact ⟨ha, rfl, fun h' => by cases h'⟩
  | awt k ih =>
    intro c₁ c₂ hc s₁ s₂ h
    have hs := choice_rel h
    unfold exec
    rcases e₁ : s₁.choice with ⟨t₁, b₁⟩
    rcases e₂ : s₂.choice with ⟨t₂, b₂⟩
    rw [e₁, e₂] at hs
    obtain ⟨ha, hb, hr⟩ := hs
    simp only at ha hb hr
    subst hb
    cases b₁ with
    | true => exact ⟨ha, rfl, fun h' => by cases h'⟩
    | false => exact ih c₁ c₂ hc t₁ t₂ ⟨ha, hr rfl⟩
  | opn br child body k ihc ihb ihk =>
    intro c₁ c₂ hc s₁ s₂ h
    have hcons : RelC (fun t => ((exec body c₁ t).1, sigOf br (exec body c₁ t).2))
        (fun t => ((exec body c₂ t).1, sigOf br (exec body c₂ t).2)) := by
      intro t₁ t₂ ht
      obtain ⟨ha, ho, hd⟩ := ihb c₁ c₂ hc t₁ t₂ ht
      exact ⟨ha, by simp only [ho], fun hr => hd (sigOf_resume hr)⟩
    have hopen : RelSt s₁.openGen.1 s₂.openGen.1 := ⟨⟨by simp [St.openGen, h.1.1], h.1.2.1, h.1.2.2⟩, h.2⟩
    have hr := ihc _ _ hcons _ _ hopen
    have hp := exec_payload child (· ≠ .done) (fun t => ((exec body c₁ t).1, sigOf br (exec body c₁ t).2))
      (fun t p hp => sigOf_payload hp) s₁.openGen.1
    have hac := afterChild_rel h.1.1 hr hp
    unfold exec
    simp only
    rcases e₁ : afterChild s₁.openGen.2 _ _ with ⟨u₁, o₁⟩
    rcases e₂ : afterChild s₂.openGen.2 _ _ with ⟨u₂, o₂⟩
    rw [e₁, e₂] at hac
    obtain ⟨ha, ho, hn, hnd⟩ := hac
    simp only at ha ho hn hnd
    subst ho
    cases o₁ with
    | none => exact ihk c₁ c₂ hc u₁ u₂ ⟨ha, hn rfl⟩
    | some o => exact ⟨ha, rfl, fun h' => by subst h'; exact absurd rfl hnd⟩
  | drain child k ihc ihk =>
    intro c₁ c₂ hc s₁ s₂ h
    have hcons : RelC (fun t => (t, Sig.resume)) (fun t => (t, Sig.resume)) := fun t₁ t₂ ht => ⟨ht.1, rfl, fun _ => ht.2⟩
    have hopen : RelSt s₁.openGen.1 s₂.openGen.1 := ⟨⟨by simp [St.openGen, h.1.1], h.1.2.1, h.1.2.2⟩, h.2⟩
    have hr := ihc _ _ hcons _ _ hopen
    have hp := exec_payload child (· ≠ .done) (fun t => (t, Sig.resume)) (fun t p hp => by simp at hp) s₁.openGen.1
    have hac := afterChild_rel h.1.1 hr hp
    unfold exec
    simp only
    rcases e₁ : afterChild s₁.openGen.2 _ _ with ⟨u₁, o₁⟩
    rcases e₂ : afterChild s₂.openGen.2 _ _ with ⟨u₂, o₂⟩
    rw [e₁, e₂] at hac
    obtain ⟨ha, ho, hn, hnd⟩ := hac
    simp only at ha ho hn hnd
    subst ho
    cases o₁ with
    | none => exact ihk c₁ c₂ hc u₁ u₂ ⟨ha, hn rfl⟩
    | some o => exact ⟨ha, rfl, fun h' => by subst h'; exact absurd rfl hnd⟩

private theorem relC_top : RelC topConsumer topConsumer := by
  intro s₁ s₂ h
  have hs := choice_rel h
  unfold topConsumer
  rcases e₁ : s₁.choice with ⟨t₁, b₁⟩
  rcases e₂ : s₂.choice with ⟨t₂, b₂⟩
  rw [e₁, e₂] at hs
  obtain ⟨ha, hb, hr⟩ := hs
  simp only at ha hb hr
  subst hb
  cases b₁ with
  | true => exact ⟨ha, rfl, fun h' => by cases h'⟩
  | false => exact ⟨ha, rfl, fun _ => hr rfl⟩

/-- **The adversary matters only through the position of its first attack.**  Two adversaries that first attack at the
    same suspension point (or both never) give the same run: same generators opened, same generators closed, same
    outcome.  Hence enumerating single attacks `[false,…,false,true]` and the empty adversary enumerates ALL adversaries. -/
theorem run_depends_on_first_attack (g : G) (a₁ a₂ : List Bool) (h : firstAttack a₁ = firstAttack a₂) :
    (run g a₁).1.nOpened = (run g a₂).1.nOpened ∧ (run g a₁).1.closed = (run g a₂).1.closed
    ∧ (run g a₁).2 = (run g a₂).2 ∧ leaked (run g a₁).1 = leaked (run g a₂).1 := by
  have hr := exec_rel g topConsumer topConsumer relC_top
    { nOpened := 1, closed := [], adv := a₁, points := 0 } { nOpened := 1, closed := [], adv := a₂, points := 0 }
    ⟨⟨rfl, rfl, rfl⟩, h⟩
  obtain ⟨⟨h1, h2, _⟩, ho, _⟩ := hr
  have key : (run g a₁).1.nOpened = (run g a₂).1.nOpened ∧ (run g a₁).1.closed = (run g a₂).1.closed
      ∧ (run g a₁).2 = (run g a₂).2 := by
    unfold run
    simp only
    rw [← ho]
    cases (exec g topConsumer { nOpened := 1, closed := [], adv := a₁, points := 0 }).2 <;>
      simp [St.close, h1, h2, ho]
  refine ⟨key.1, key.2.1, key.2.2, ?_⟩
  unfold leaked
  rw [key.1, key.2.1]

/-- every adversary is equivalent to the single-attack adversary at its first attack (or to the empty one) -/
def singleAttack : Option Nat → List Bool
  | none => []
  | some k => List.replicate k false ++ [true]

theorem firstAttack_singleAttack (a : List Bool) : firstAttack (singleAttack (firstAttack a)) = firstAttack a := by
  induction a with
  | nil => rfl
  | cons b r ih =>
    cases b with
    | true => rfl
    | false =>
      simp only [firstAttack]
      cases hf : firstAttack r with
      | none => rfl
      | some k =>
        rw [hf] at ih
        simp only [Option.map_some, singleAttack, List.replicate_succ, List.cons_append, firstAttack]
        simp only [singleAttack] at ih
        rw [ih]; rfl

/-- a run against any adversary equals the run against its single-attack representative -/
theorem run_eq_single_attack (g : G) (a : List Bool) :
    leaked (run g a).1 = leaked (run g (singleAttack (firstAttack a))).1
    ∧ (run g a).2 = (run g (singleAttack (firstAttack a))).2 := by
  have h := run_depends_on_first_attack g a (singleAttack (firstAttack a)) (firstAttack_singleAttack a).symm
  exact ⟨h.2.2.2, h.2.2.1⟩

-- non-vacuity: a second attack after the first changes nothing (here: cancel at the 2nd point, then garbage)
example : firstAttack [false, true, true, false, true] = firstAttack [false, true] := by decide
example : leaked (run (.opn .bare (.yld (.yld .nil)) (.awt (.yld .nil)) .nil) [false, true, true, false, true]).1
    = leaked (run (.opn .bare (.yld (.yld .nil)) (.awt (.yld .nil)) .nil) [false, true]).1 := by decide

end JinjaV.C36
