/-
  C27 — the bytecode cache never yields stale code and tolerates interrupted writes.

  The model is Model/BcCache.lean; the exception classes each handler of `Bucket.load_bytecode` catches, the statement
  lists of `load_bytecode` / `FileSystemBytecodeCache.dump_bytecode` and the memcached guards are READ from bccache.py
  on every run (Gen/BcCacheSites.lean), and the theorems below that mention `Gen` are re-proved over what was read.

  Decoders (`pickle.load`, `marshal.load`) and SHA-1 are parameters; their contracts are hypotheses:
  `RaisesOnly d set` (total, raises only members of the set), `RoundTrip enc d`, `Function.Injective hash`.
-/
import JinjaV.Lemmas.BcCache

namespace JinjaV.C27
open JinjaV.BcCache
open JinjaV.Gen.BcCacheSites

/-! ### the configuration read from the source -/


/-- per call site: is the decoder call under a handler covering the decoder's exception set? -/
def pickleGuarded : Bool := covers (caughtAt "pickle.load") pickleExc
def marshalGuarded : Bool := covers (caughtAt "marshal.load") marshalExc

/-- the statement order the model transcribes: read magic, compare, unpickle the checksum, compare, unmarshal; and
    the writer emits the parts in the order the loader reads them; `get_bucket` computes the checksum from the current
    source and `BaseLoader.load` compiles exactly when the bucket came back empty; the checksum is the SHA-1 of the whole unmodified source (the
    injectivity hypothesis of `history_fresh` is SHA-1's, not weakened by any normalisation) -/
theorem load_shape :
    loadSteps = [.readMagic, .checkMagic, .loadChecksum (caughtAt "pickle.load"), .checkChecksum,
                 .loadCode (caughtAt "marshal.load")] ∧
    writeParts = ["magic", "checksum", "code"] ∧ checksumInputs = ["source"] ∧ getBucketShape = true ∧
    setBucketDumps = true ∧ loaderLoadShape = true ∧ clearUsesPattern = true ∧
    checksumIsSha1OfWholeSource = true ∧ keyIsSha1OfNameAndFilename = true := by decide

/-- the magic every entry starts with and `load_bytecode` compares first is computed from the cache format version AND
    from the running interpreter's major and minor version (`sys.version_info[0]`, `sys.version_info[1]`): an entry written
    by another CPython version has another magic, which `foreign_magic_miss` turns into a miss -/
theorem magic_depends_on_interpreter :
    "sys.version_info[0]" ∈ magicDependsOn ∧ "sys.version_info[1]" ∈ magicDependsOn ∧ "bc_version" ∈ magicDependsOn := by
  decide

/-! ### load_total -/

/-- an exception value carries its superclasses: its MRO contains the whole MRO of each class of `set` it contains
    (true of every Python exception; checked on each measured exception by the harness) -/
def MroClosed (set : List String) (e : Exc) : Prop := ∀ c ∈ set, c ∈ e → ∀ x ∈ mroOf c, x ∈ e

instance (set : List String) (e : Exc) : Decidable (MroClosed set e) := by unfold MroClosed; infer_instance

theorem catches_of_covers {caught set : List String} {e : Exc}
    (hc : covers caught set = true) (he : inSet set e = true) (hsub : MroClosed set e) : catches caught e = true := by
  simp only [inSet, List.any_eq_true, List.contains_iff_mem] at he
  obtain ⟨c, hce, hcs⟩ := he
  simp only [covers, List.all_eq_true] at hc
  have h1 := hc c hcs
  simp only [catches, List.any_eq_true, List.contains_iff_mem] at h1 ⊢
  obtain ⟨x, hx, hxc⟩ := h1
  exact ⟨x, hsub c hcs hce x hx, hxc⟩

/-- contract of a decoder: total, raises only members of `set` (and exceptions carry their superclasses) -/
def Contract {α} (d : Bytes → Dec α) (set : List String) : Prop :=
  ∀ b e, d b = .raise e → inSet set e = true ∧ MroClosed set e

theorem caught_of_contract {α} {d : Bytes → Dec α} {set caught : List String} (hd : Contract d set)
    (hc : covers caught set = true) {b e} (h : d b = .raise e) : catches caught e = true :=
  catches_of_covers hc (hd b e h).1 (hd b e h).2

/-- the full statement: loading any byte string raises nothing -/
def LoadTotal (cfg : LoadCfg) : Prop :=
  ∀ {Ck Code : Type} [DecidableEq Ck] (pl : Bytes → Dec Ck) (ml : Bytes → Dec Code),
    Contract pl pickleExc → Contract ml marshalExc →
    ∀ ck b, (loadBytecode cfg pl ml ck b).quiet = true

/-- if each decoder call is under a handler covering its exception set, every byte string loads as a miss or a hit -/
theorem load_total_of_guarded (cfg : LoadCfg) (hp : covers cfg.pickleCaught pickleExc = true)
    (hm : covers cfg.marshalCaught marshalExc = true) : LoadTotal cfg := by
  intro Ck Code _ pl ml cp cm ck b
  unfold loadBytecode
  split
  · rfl
  · split
    · rename_i e he
      rw [caught_of_contract cp hp he]; rfl
    · split
      · rfl
      · split
        · rename_i e he
          rw [caught_of_contract cm hm he]; rfl
        · rfl

/-- both decoder call sites are guarded (re-proved over the handlers read from the source on every run) -/
theorem decoder_sites_guarded : pickleGuarded = true ∧ marshalGuarded = true := by decide

/-- no decoder call of `Bucket.load_bytecode` is outside a handler covering its exception set -/
def unguardedSites : List String :=
  (decoderSites.filter (fun s => !covers s.caught (if s.call == "pickle.load" then pickleExc else marshalExc))).map (·.call)

theorem no_unguarded_sites : unguardedSites = [] := by decide

/-- **load_total** (full strength): whatever the magic, for every byte string (every prefix of a valid entry, entries of
    other sources, other magic, damaged entries), every bucket checksum and decoders within their contracts,
    `Bucket.load_bytecode` with the handlers as they are in the source ends in a miss or a hit and raises nothing -/
theorem load_total (magic : Bytes) : LoadTotal (genCfg magic) :=
  load_total_of_guarded (genCfg magic) decoder_sites_guarded.1 decoder_sites_guarded.2

/-! ### load_sound -/

/-- what `load_bytecode` makes of an entry `write_bytecode` produced -/
theorem load_written {Ck Code : Type} [DecidableEq Ck] (cfg : LoadCfg) (encCk : Ck → Bytes) (encCode : Code → Bytes)
    (pl : Bytes → Dec Ck) (ml : Bytes → Dec Code) (rp : RoundTrip encCk pl) (rm : RoundTrip encCode ml)
    (ck ck' : Ck) (code : Code) :
    loadBytecode cfg pl ml ck' (writeBytecode cfg.magic encCk encCode ck code) = if ck' = ck then .hit code else .miss := by
  unfold loadBytecode writeBytecode
  rw [List.take_left, List.drop_left, rp ck (encCode code)]
  have := rm code []
  rw [List.append_nil] at this
  simp only [ne_eq, not_true_eq_false, if_false, this]
  by_cases h : ck' = ck <;> simp [h]

/-- `load (write (ck, code))` is a hit with exactly `code` iff the bucket's checksum (that of the *current* source)
    equals the stored one; any other stored checksum is a miss; neither raises -/
theorem load_sound {Ck Code : Type} [DecidableEq Ck] (cfg : LoadCfg) (encCk : Ck → Bytes) (encCode : Code → Bytes)
    (pl : Bytes → Dec Ck) (ml : Bytes → Dec Code) (rp : RoundTrip encCk pl) (rm : RoundTrip encCode ml)
    (ck ck' : Ck) (code : Code) :
    (loadBytecode cfg pl ml ck' (writeBytecode cfg.magic encCk encCode ck code) = .hit code ↔ ck' = ck) ∧
    (ck' ≠ ck → loadBytecode cfg pl ml ck' (writeBytecode cfg.magic encCk encCode ck code) = .miss) := by
  rw [load_written cfg encCk encCode pl ml rp rm]
  by_cases h : ck' = ck <;> simp [h]

/-- an entry written under another magic (other Python version, other `bc_version`) of the same length is a miss
    before any decoder runs -/
theorem foreign_magic_miss {Ck Code : Type} [DecidableEq Ck] (cfg : LoadCfg) (pl : Bytes → Dec Ck) (ml : Bytes → Dec Code)
    (ck : Ck) (magic' rest : Bytes) (hl : magic'.length = cfg.magic.length) (hne : magic' ≠ cfg.magic) :
    loadBytecode cfg pl ml ck (magic' ++ rest) = .miss := by
  unfold loadBytecode
  rw [← hl, List.take_left]
  simp [hne]

/-- an entry cut inside the magic is a miss before any decoder runs -/
theorem short_entry_miss {Ck Code : Type} [DecidableEq Ck] (cfg : LoadCfg) (pl : Bytes → Dec Ck) (ml : Bytes → Dec Code)
    (ck : Ck) (b : Bytes) (hl : b.length < cfg.magic.length) : loadBytecode cfg pl ml ck b = .miss := by
  unfold loadBytecode
  have : List.take cfg.magic.length b ≠ cfg.magic := by
    intro h
    have := congrArg List.length h
    simp at this
    omega
  simp [this]

/-! a concrete codec for the examples: checksum and code are one byte each -/

theorem exDec_rt : RoundTrip (fun n : Nat => [n]) exDec := by intro v r; rfl
theorem exDec_contract (set : List String) (h : "EOFError" ∈ set) (hc : MroClosed set (mroOf "EOFError")) :
    Contract exDec set := by
  intro b e hb
  cases b with
  | nil => simp [exDec] at hb; subst hb; exact ⟨by simp [inSet, mroOf, h], hc⟩
  | cons x r => simp [exDec] at hb

example : loadBytecode (genCfg [7, 7]) exDec exDec 5 (writeBytecode [7, 7] (fun n => [n]) (fun n => [n]) 5 9) = .hit 9 := by decide
example : loadBytecode (genCfg [7, 7]) exDec exDec 6 (writeBytecode [7, 7] (fun n => [n]) (fun n => [n]) 5 9) = .miss := by decide
example : loadBytecode (Code := Nat) (genCfg [7, 7]) exDec exDec 5 [7, 7, 5] = .miss := by decide   -- cut before the code
example : Contract exDec pickleExc := exDec_contract _ (by decide) (by decide)
example : (loadBytecode (Code := Nat) (genCfg [7, 7]) exDec exDec 5 [7, 7]).quiet = true :=
  load_total [7, 7] exDec exDec (exDec_contract _ (by decide) (by decide)) (exDec_contract _ (by decide) (by decide)) 5 [7, 7]
example : loadBytecode (Code := Nat) (genCfg [7, 7]) exDec exDec 5 [7, 7] = .miss := by decide   -- cut right after the magic
example : Contract exDec marshalExc := exDec_contract _ (by decide) (by decide)

/-! ### memcache_errors -/


/-- both memcached client calls are inside `try … except Exception: if not self.ignore_memcache_errors: raise`, and the
    value fetched goes to `bytecode_from_string` only when `get` did not raise -/
theorem memcache_guards :
    mcGuards.map (fun g => (g.call, g.reraiseUnlessIgnore)) = [("client.get", true), ("client.set", true)] ∧
    covers (mcCaught "client.get") ["Exception"] = true ∧ covers (mcCaught "client.set") ["Exception"] = true ∧
    (mcGuards.find? (fun g => g.call == "client.get")).map (·.elseLoads) = some true := by decide

/-- with `ignore_memcache_errors` a failing client is a miss; without it the client's exception propagates unchanged;
    a value (also a truncated one, also `None`) is handed to `Bucket.load_bytecode` as is -/
theorem memcache_errors {Ck Code : Type} [DecidableEq Ck] (magic : Bytes) (pl : Bytes → Dec Ck) (ml : Bytes → Dec Code) (ck : Ck)
    (e : Exc) (he : "Exception" ∈ e) (b : Bytes) :
    mcLoad (Code := Code) (genCfg magic) (mcCaught "client.get") true pl ml ck (.fails e) = .miss ∧
    mcLoad (Code := Code) (genCfg magic) (mcCaught "client.get") false pl ml ck (.fails e) = .raises e ∧
    (∀ ig, mcLoad (genCfg magic) (mcCaught "client.get") ig pl ml ck (.value b) = loadBytecode (genCfg magic) pl ml ck b) := by
  have hc : catches (mcCaught "client.get") e = true := by
    have : mcCaught "client.get" = ["Exception"] := by decide
    rw [this]; simp [catches, he]
  simp [mcLoad, hc]

example : mcLoad (Code := Nat) (genCfg [7]) (mcCaught "client.get") true exDec exDec 5 (.fails (mroOf "OSError")) = .miss := by decide

/-! ### fs_crash_safe -/

/-- what the complete protocol leaves behind: the new entry under the entry's name, nothing under the temporary's -/
theorem protocol_complete (tmp name : String) (hne : tmp ≠ name) (chunks : List Bytes) (d : Dir) :
    let d' := runOps tmp name d (protocolOps chunks)
    d'.get name = some chunks.flatten ∧ d'.get tmp = none ∧ ∀ m, m ≠ tmp → m ≠ name → d'.get m = d.get m := by
  have hsplit : protocolOps chunks = FsOp.createTmp :: (chunks.map FsOp.writeTmp ++ [FsOp.closeTmp, FsOp.replaceTmp]) := rfl
  have run_append : ∀ (a b : List FsOp) (d : Dir), runOps tmp name d (a ++ b) = runOps tmp name (runOps tmp name d a) b := by
    intro a b d; induction a generalizing d with
    | nil => rfl
    | cons x xs ih => simp [runOps, ih]
  intro d'
  have hd' : d' = runOps tmp name d (protocolOps chunks) := rfl
  rw [hsplit] at hd'
  simp only [runOps, run_append, FsOp.apply] at hd'
  have hw := writes_accumulate tmp name chunks (d.put tmp []) [] (get_put_same ..)
  rw [List.nil_append] at hw
  rw [hw] at hd'
  have hpres : ∀ m, m ≠ tmp → (runOps tmp name (d.put tmp []) (chunks.map FsOp.writeTmp)).get m = d.get m := by
    intro m hm
    rw [tmpOnly_preserves tmp name _ (by intro op hop; simp at hop; obtain ⟨c, _, rfl⟩ := hop; rfl) _ m hm]
    exact get_put_ne d tmp m _ hm
  simp only at hd'
  rw [hd']
  refine ⟨get_put_same .., ?_, ?_⟩
  · rw [get_put_ne _ _ _ _ hne]; exact get_del_same ..
  · intro m h1 h2
    rw [get_put_ne _ _ _ _ h2, get_del_ne _ _ _ h1]
    exact hpres m h1

/-- crash safety of the protocol: after ANY prefix of the operation list (a crash between any two operations), from ANY
    prior directory, the entry's name holds what it held before or the complete new entry — never a part — and no
    other name but the temporary's has changed -/
theorem protocol_crash_safe (tmp name : String) (hne : tmp ≠ name) (chunks : List Bytes) (d : Dir) (k : Nat) :
    let d' := runOps tmp name d ((protocolOps chunks).take k)
    (d'.get name = d.get name ∨ d'.get name = some chunks.flatten) ∧
    ∀ m, m ≠ tmp → m ≠ name → d'.get m = d.get m := by
  have hsplit : protocolOps chunks = (FsOp.createTmp :: (chunks.map FsOp.writeTmp ++ [FsOp.closeTmp])) ++ [FsOp.replaceTmp] := by
    simp [protocolOps]
  have hpre : ∀ op ∈ (FsOp.createTmp :: (chunks.map FsOp.writeTmp ++ [FsOp.closeTmp])), tmpOnly op = true := by
    intro op hop
    simp at hop
    rcases hop with rfl | ⟨c, _, rfl⟩ | rfl <;> rfl
  intro d'
  by_cases hk : k ≤ (FsOp.createTmp :: (chunks.map FsOp.writeTmp ++ [FsOp.closeTmp])).length
  · have : (protocolOps chunks).take k = (FsOp.createTmp :: (chunks.map FsOp.writeTmp ++ [FsOp.closeTmp])).take k := by
      rw [hsplit, List.take_append_of_le_length hk]
    have hall : ∀ op ∈ (protocolOps chunks).take k, tmpOnly op = true := by
      rw [this]; intro op hop; exact hpre op (List.mem_of_mem_take hop)
    have hp := tmpOnly_preserves tmp name _ hall d
    exact ⟨Or.inl (hp name (Ne.symm hne)), fun m h1 _ => hp m h1⟩
  · have : (protocolOps chunks).take k = protocolOps chunks := by
      apply List.take_of_length_le
      rw [hsplit, List.length_append]
      simp at hk ⊢
      omega
    have hc := protocol_complete tmp name hne chunks d
    simp only at hc
    have hd' : d' = runOps tmp name d (protocolOps chunks) := by show runOps tmp name d _ = _; rw [this]
    rw [hd']
    exact ⟨Or.inr hc.1, hc.2.2⟩

/-- `dump_bytecode` as it is in the source IS that protocol, and its temporary is created beside the entry, with the
    entry's name as a strict prefix of its own, and survives `close` -/
theorem dump_is_protocol (chunks : List Bytes) :
    expand chunks dumpSteps = protocolOps chunks ∧ tmpWellFormed dumpSteps = true := by
  refine ⟨?_, by decide⟩
  simp [dumpSteps, expand, protocolOps]

theorem tmp_ne_name (name rnd : String) : tmpName name rnd (tmpSuffix dumpSteps) ≠ name := by
  intro h
  have h1 := congrArg String.length h
  have h2 : (tmpSuffix dumpSteps).length > 0 := by decide
  simp [tmpName, String.length_append] at h1
  omega

/-- **fs_crash_safe**: for every prefix of `FileSystemBytecodeCache.dump_bytecode`'s operations (as read from the
    source), every prior directory, every entry name, every random part of the temporary's name and every chunking of
    the data: the file at the entry's name is what it was (absent or the old entry) or the complete new entry; no other
    file but the temporary is touched; the temporary's name is never the entry's name -/
theorem fs_crash_safe (name rnd : String) (chunks : List Bytes) (d : Dir) (k : Nat) :
    let tmp := tmpName name rnd (tmpSuffix dumpSteps)
    let d' := runOps tmp name d ((expand chunks dumpSteps).take k)
    tmp ≠ name ∧ (d'.get name = d.get name ∨ d'.get name = some chunks.flatten) ∧
    ∀ m, m ≠ tmp → m ≠ name → d'.get m = d.get m := by
  intro tmp d'
  have hne := tmp_ne_name name rnd
  have := protocol_crash_safe tmp name hne chunks d k
  rw [← (dump_is_protocol chunks).1] at this
  exact ⟨hne, this⟩

example : runOps "e.x.tmp" "e" [("e", [1])] ((expand [[7], [8]] dumpSteps).take 3) = [("e.x.tmp", [7, 8]), ("e", [1])] := by decide
example : runOps "e.x.tmp" "e" [("e", [1])] (expand [[7], [8]] dumpSteps) = [("e", [7, 8])] := by decide

/-! ### leftover temporaries (a crash between create and replace leaves one behind) -/

/-- a leftover temporary is never opened as a cache entry: for every pattern, every key and every other key of the same
    length (keys are SHA-1 hex digests) its name differs from the file name `load_bytecode` opens -/
theorem leftover_tmp_never_loaded (pre post key key' rnd : List Char) (hk : key'.length = key.length) :
    tmpFile pre post key rnd (tmpSuffix dumpSteps).toList ≠ entryFile pre post key' := by
  intro h
  have h1 := congrArg List.length h
  have h2 : (tmpSuffix dumpSteps).toList.length > 0 := by decide
  simp only [tmpFile, entryFile, List.length_append, hk] at h1
  omega

/-- with the default pattern `clear()`'s glob does not match a leftover temporary either: `clear()` neither mistakes it for
    an entry nor removes it (temporaries of crashed writers accumulate until removed by other means) -/
theorem leftover_tmp_not_matched_by_clear (key rnd : List Char) :
    globMatch defaultPatternPre.toList defaultPatternPost.toList
      (tmpFile defaultPatternPre.toList defaultPatternPost.toList key rnd (tmpSuffix dumpSteps).toList) = false := by
  have hs : (tmpSuffix dumpSteps).toList = ['.', 't', 'm', 'p'] := by decide
  have hp : defaultPatternPost.toList = ['.', 'c', 'a', 'c', 'h', 'e'] := by decide
  have : List.isSuffixOf defaultPatternPost.toList
      (tmpFile defaultPatternPre.toList defaultPatternPost.toList key rnd (tmpSuffix dumpSteps).toList) = false := by
    rw [hs, hp]
    simp [tmpFile, List.isSuffixOf, List.reverse_append, List.isPrefixOf]
  simp [globMatch, this]

/-- while every complete entry IS matched by `clear()`'s glob (so `clear()` empties the cache), for every key -/
theorem entry_matched_by_clear (pre post key : List Char) : globMatch pre post (entryFile pre post key) = true := by
  simp [globMatch, entryFile, List.isSuffixOf, List.reverse_append]

example : globMatch "__jinja2_".toList ".cache".toList "__jinja2_ab.cachexyz.tmp".toList = false := by decide
example : globMatch "__jinja2_".toList ".cache".toList "__jinja2_ab.cache".toList = true := by decide

/-! ### fs_fault_safe: exceptions instead of crashes -/

def faultExc : Fault → Option Exc
  | .none => Option.none
  | .atCreate e | .atWrite _ e | .atReplace e => some e

/-- **fs_fault_safe**: an exception raised by any step of `dump_bytecode` (creating the temporary, any write or the
    close, `os.replace`) leaves the entry's name with its previous content, every other file untouched and no temporary
    behind; it leaves the function unchanged, except an `OSError` from `os.replace`, which is swallowed (the entry is
    then simply not cached).  Without a fault the complete new entry is in place. -/
theorem fs_fault_safe (name rnd : String) (chunks : List Bytes) (d : Dir) (f : Fault) :
    let tmp := tmpName name rnd (tmpSuffix dumpSteps)
    let r := dumpRun tmp name chunks f dumpSteps d
    d.get tmp = none → (∀ e, faultExc f = some e → "BaseException" ∈ e) →
    (∀ m, m ≠ tmp → m ≠ name → r.1.get m = d.get m) ∧ r.1.get tmp = none ∧
    (match f with
     | .none => r.2 = none ∧ r.1.get name = some chunks.flatten
     | .atCreate e => r.2 = some e ∧ r.1.get name = d.get name
     | .atWrite _ e => r.2 = some e ∧ r.1.get name = d.get name
     | .atReplace e => r.1.get name = d.get name ∧ (if "OSError" ∈ e then r.2 = none else r.2 = some e)) := by
  intro tmp r hfresh hbase
  have hne : tmp ≠ name := tmp_ne_name name rnd
  have hne' : name ≠ tmp := fun h => hne h.symm
  cases f with
  | none =>
    have hr : r = (runOps tmp name d (protocolOps chunks), none) := by
      show dumpRun tmp name chunks Fault.none dumpSteps d = _
      have hclose : ∀ d, FsOp.apply tmp name d .closeTmp = d := fun _ => rfl
      simp [dumpSteps, dumpRun, protocolOps, runOps, run_append, hclose]
    have hc := protocol_complete tmp name hne chunks d
    simp only at hc
    rw [hr]
    exact ⟨hc.2.2, hc.2.1, rfl, hc.1⟩
  | atCreate e =>
    have hr : r = (d, some e) := by
      show dumpRun tmp name chunks (Fault.atCreate e) dumpSteps d = _
      simp [dumpSteps, dumpRun]
    rw [hr]
    exact ⟨fun _ _ _ => rfl, hfresh, rfl, rfl⟩
  | atWrite k e =>
    have hb : "BaseException" ∈ e := hbase e rfl
    have hr : r = (FsOp.removeTmp.apply tmp name
        (runOps tmp name (FsOp.createTmp.apply tmp name d) ((chunks.take k).map FsOp.writeTmp)), some e) := by
      show dumpRun tmp name chunks (Fault.atWrite k e) dumpSteps d = _
      simp [dumpSteps, dumpRun, handle, catches_single, hb]
    rw [hr]
    simp only [FsOp.apply]
    refine ⟨fun m h1 _ => ?_, get_del_same .., by first | rfl | trivial, ?_⟩
    · rw [get_del_ne _ _ _ h1]; exact partial_write_preserves tmp name _ d m h1
    · rw [get_del_ne _ _ _ hne']; exact partial_write_preserves tmp name _ d name hne'
  | atReplace e =>
    have hb : "BaseException" ∈ e := hbase e rfl
    have hd : (dumpRun tmp name chunks (Fault.atReplace e) dumpSteps d).1 = FsOp.removeTmp.apply tmp name
        (runOps tmp name (FsOp.createTmp.apply tmp name d) (chunks.map FsOp.writeTmp)) ∧
        (dumpRun tmp name chunks (Fault.atReplace e) dumpSteps d).2 = if "OSError" ∈ e then none else some e := by
      by_cases ho : "OSError" ∈ e <;> simp [dumpSteps, dumpRun, handle, catches_single, hb, ho]
    have hr1 : r.1 = _ := hd.1
    have hr2 : r.2 = _ := hd.2
    rw [hr1, hr2]
    simp only [FsOp.apply]
    refine ⟨fun m h1 _ => ?_, get_del_same .., ?_, ?_⟩
    · rw [get_del_ne _ _ _ h1]; exact partial_write_preserves tmp name _ d m h1
    · rw [get_del_ne _ _ _ hne']; exact partial_write_preserves tmp name _ d name hne'
    · by_cases ho : "OSError" ∈ e <;> simp [ho]

example : dumpRun "e.x.tmp" "e" [[7], [8]] (.atWrite 1 (mroOf "OSError")) dumpSteps [("e", [1])] = ([("e", [1])], some (mroOf "OSError")) := by decide
example : dumpRun "e.x.tmp" "e" [[7], [8]] (.atReplace (mroOf "FileNotFoundError")) dumpSteps [("e", [1])] = ([("e", [1])], none) := by decide

/-! ### file-system errors while a template is loaded -/

/-- **rename failure is a miss, for EVERY `OSError`**: whatever class the operating system reports for the failing
    `os.replace` (IsADirectoryError for a directory at the entry's path, EXDEV, EIO, ENOSPC, EROFS, …: anything with
    `OSError` among its bases), `dump_bytecode` with the handlers read from the source returns normally, the entry keeps its
    previous content and no temporary stays.  Narrowing the handler's tuple breaks this proof. -/
theorem replace_oserror_is_miss (name rnd : String) (chunks : List Bytes) (d : Dir) (e : Exc)
    (hos : "OSError" ∈ e) (hb : "BaseException" ∈ e) :
    let tmp := tmpName name rnd (tmpSuffix dumpSteps)
    let r := dumpRun tmp name chunks (.atReplace e) dumpSteps d
    d.get tmp = none → r.2 = none ∧ r.1.get name = d.get name ∧ r.1.get tmp = none := by
  intro tmp r hfresh
  have h := fs_fault_safe name rnd chunks d (.atReplace e) hfresh (fun e' he' => by
    simp only [faultExc, Option.some.injEq] at he'; subst he'; exact hb)
  simp only [hos, if_true] at h
  exact ⟨h.2.2.2, h.2.2.1, h.2.1⟩

/-- counterexample finder for `replace_oserror_is_miss` over the operating system's error classes: those a failing
    rename would let escape from `dump_bytecode` -/
def replaceEscapes : List String :=
  osErrorClasses.filter (fun c => (dumpRun "t" "e" [] (.atReplace (mroOf c)) dumpSteps []).2.isSome)

theorem no_replace_escapes : replaceEscapes = [] := by decide

/-- `load_bytecode` treats a missing entry, a directory at the entry's path and an unreadable entry as a miss (the three
    classes are in the handler around `open`, re-read from the source); together with `replace_oserror_is_miss` a directory
    sitting at the entry's path never makes a load fail -/
theorem open_obstacles_are_misses :
    ∀ c ∈ ["FileNotFoundError", "IsADirectoryError", "PermissionError"],
      fsOpenFails (Code := Nat) fsOpenCaught (mroOf c) = .miss := by decide

/-- the `OSError` classes that `open` in `load_bytecode` would let escape (finder; what the fault runs report per class) -/
def openEscapes : List String :=
  osErrorClasses.filter (fun c => fsOpenFails (Code := Nat) fsOpenCaught (mroOf c) != .miss)

example : (dumpRun "e.x.tmp" "e" [[7]] (.atReplace (mroOf "IsADirectoryError")) dumpSteps [("e", [1])]).2 = none := by decide

/-! ### history_fresh -/

section History
variable {Src Ck Code Cfg : Type} [DecidableEq Ck]

/-- the reference: what compiling the current source with the loading configuration gives, step by step -/
def specOut (compile : Cfg → Src → Code) (src : Nat → Src) : Op Src Cfg → Out Code
  | .load cfg n => .served (compile cfg (src n))
  | _ => .none

def specSrc (src : Nat → Src) : Op Src Cfg → (Nat → Src)
  | .modify n v => fun k => if k = n then v else src k
  | _ => src

def specRun (compile : Cfg → Src → Code) (src : Nat → Src) : List (Op Src Cfg) → List (Out Code)
  | [] => []
  | op :: ops => specOut compile src op :: specRun compile (specSrc src op) ops

/-- every entry in the cache was written by `write_bytecode` for some source, with the code `comp` makes of it -/
def WF (cd : Codec Src Ck Code) (comp : Src → Code) (s : Sys Src) : Prop :=
  ∀ n b, s.cache n = some b → ∃ s0, b = writeBytecode cd.magic cd.encCk cd.encCode (cd.hash s0) (comp s0)

/-- the operation loads (if it loads) with a configuration that compiles like `comp` -/
def CompilesLike (compile : Cfg → Src → Code) (comp : Src → Code) : Op Src Cfg → Prop
  | .load cfg _ => compile cfg = comp
  | _ => True

theorem step_fresh (lc : LoadCfg) (cd : Codec Src Ck Code) (compile : Cfg → Src → Code) (comp : Src → Code)
    (hmagic : lc.magic = cd.magic) (hinj : ∀ a b, cd.hash a = cd.hash b → a = b)
    (rp : RoundTrip cd.encCk cd.pl) (rm : RoundTrip cd.encCode cd.ml)
    (s : Sys Src) (hw : WF cd comp s) (op : Op Src Cfg) (hop : CompilesLike compile comp op) :
    (Sys.step lc cd compile s op).2 = specOut compile s.src op ∧
    (Sys.step lc cd compile s op).1.src = specSrc s.src op ∧
    WF cd comp (Sys.step lc cd compile s op).1 := by
  cases op with
  | load cfg n =>
    have hcfg : compile cfg = comp := hop
    have hstore : WF cd comp (s.store n (writeBytecode cd.magic cd.encCk cd.encCode (cd.hash (s.src n)) (compile cfg (s.src n)))) := by
      intro m b hb
      simp only [Sys.store] at hb
      by_cases hm : m = n
      · simp [hm] at hb; exact ⟨s.src n, by rw [← hb, hcfg]⟩
      · simp [hm] at hb; exact hw m b hb
    simp only [Sys.step, specOut, specSrc]
    cases hc : s.cache n with
    | none => exact ⟨rfl, rfl, hstore⟩
    | some b =>
      obtain ⟨s0, hb⟩ := hw n b hc
      have hl := load_written lc cd.encCk cd.encCode cd.pl cd.ml rp rm (cd.hash s0) (cd.hash (s.src n)) (comp s0)
      rw [hmagic, ← hb] at hl
      simp only [hl]
      by_cases hh : cd.hash (s.src n) = cd.hash s0
      · have := hinj _ _ hh
        simp only [hh, if_true]
        exact ⟨by rw [← this, hcfg], trivial, hw⟩
      · simp only [hh, if_false]
        exact ⟨trivial, rfl, hstore⟩
  | modify n v => exact ⟨rfl, rfl, hw⟩
  | clear => exact ⟨rfl, rfl, fun n b hb => by simp [Sys.step] at hb⟩
  | drop n =>
    refine ⟨rfl, rfl, fun m b hb => ?_⟩
    simp only [Sys.step] at hb
    by_cases hm : m = n
    · simp [hm] at hb
    · simp [hm] at hb; exact hw m b hb

/-- **history_fresh**: for every history of loads, source modifications, cache clears and lost entries, starting from any
    cache whose entries were written by this code, through configurations that all compile alike (in particular: one
    configuration), every load executes exactly the code compiling the *current* source with the loading configuration
    gives, and nothing raises — assuming the checksum is injective (SHA-1) and the decoders round-trip -/
theorem history_fresh (lc : LoadCfg) (cd : Codec Src Ck Code) (compile : Cfg → Src → Code) (comp : Src → Code)
    (hmagic : lc.magic = cd.magic) (hinj : ∀ a b, cd.hash a = cd.hash b → a = b)
    (rp : RoundTrip cd.encCk cd.pl) (rm : RoundTrip cd.encCode cd.ml)
    (ops : List (Op Src Cfg)) (hops : ∀ op ∈ ops, CompilesLike compile comp op) (s : Sys Src) (hw : WF cd comp s) :
    (Sys.run lc cd compile s ops).2 = specRun compile s.src ops := by
  induction ops generalizing s with
  | nil => rfl
  | cons op ops ih =>
    obtain ⟨h1, h2, h3⟩ := step_fresh lc cd compile comp hmagic hinj rp rm s hw op (hops op (List.mem_cons_self ..))
    simp only [Sys.run, specRun]
    rw [h1, ih (fun o ho => hops o (List.mem_cons_of_mem _ ho)) _ h3, h2]

/-- the single-configuration case of the property -/
theorem history_fresh_single_cfg (lc : LoadCfg) (cd : Codec Src Ck Code) (compile : Cfg → Src → Code) (cfg : Cfg)
    (hmagic : lc.magic = cd.magic) (hinj : ∀ a b, cd.hash a = cd.hash b → a = b)
    (rp : RoundTrip cd.encCk cd.pl) (rm : RoundTrip cd.encCode cd.ml)
    (ops : List (Op Src Cfg)) (hops : ∀ op ∈ ops, ∀ c n, op = .load c n → c = cfg) (src : Nat → Src) :
    (Sys.run lc cd compile { src := src, cache := fun _ => none } ops).2 = specRun compile src ops := by
  apply history_fresh lc cd compile (compile cfg) hmagic hinj rp rm ops _ _ (fun n b hb => by simp at hb)
  intro op hop
  cases op with
  | load c n => show compile c = compile cfg; rw [hops _ hop c n rfl]
  | _ => trivial

end History

/-- the key and the checksum are computed from the template name, file name and source only — the loading
    environment's configuration does not enter (why `history_fresh` needs `CompilesLike`; F10a) -/
theorem key_ignores_configuration : keyInputs = ["filename", "name"] ∧ checksumInputs = ["source"] := by decide

/-! a concrete system for the examples: sources, checksums and code are numbers; configuration `c` compiles `s` to `10*c+s` -/

example : (Sys.run (genCfg [7, 7]) exCodec (fun c s => 10 * c + s) { src := fun _ => 1, cache := fun _ => none }
            [.load 1 0, .load 1 0, .modify 0 2, .load 1 0, .clear, .load 1 0]).2
          = [.served 11, .served 11, .none, .served 12, .none, .served 12] := by decide

end JinjaV.C27
