import JinjaV.Model.Literal
import JinjaV.Lemmas.PyLiteral
namespace JinjaV.C14
open JinjaV.Lex JinjaV.Literal

theorem adjacent_concat_stub (v : List CP) (rest : List PTok) :
    (stringRun (.string v :: [])).1 = [v] := rfl

end JinjaV.C14
