/-
  C14 — template literals denote the same values as Python literals.

  Model: `Model/Lex.lean` (scanners `matchInt`, `matchFloat`, `matchString`, `tagRule`), `Model/Literal.lean`
  (conversions of `Lexer.wrap`, adjacent strings of `parse_primary`).  Reference: `Spec/PyLiteral.lean`
  (Python's lexical grammar as data; `Lemmas/PyLiteral.lean` proves that the matcher the driver runs decides it).
-/
import JinjaV.Model.Literal
import JinjaV.Lemmas.PyLiteral
import JinjaV.Lemmas.Literal
namespace JinjaV.C14
open JinjaV.Lex JinjaV.Literal

-- strings -------------------------------------------------------------------------------------------------

/-- Value level, all code points (lone surrogates included): whatever mixture of raw characters, single-character
    escapes, `\xhh`, `\ooo`, `\uhhhh`, `\Uhhhhhhhh` is used to write `v` between quotes `q`, `wrap`'s
    normalise / backslashreplace / unicode-escape pipeline gives back exactly `v`. -/
theorem string_value_roundtrip (q : Nat) (sts : List Style) (v : List Nat) (h : stylesOk q sts v = true) :
    unescapeBody (spellBody sts v) = .ok v :=
  unescape_spelled q sts v h

example : stylesOk 39 [.raw, .simple, .hex2, .oct3, .u4, .u8, .raw, .u4] [97, 39, 233, 10, 0x4e2d, 0x1f600, 0x1f600, 0xd800] = true ∧
    spellBody [.raw, .simple, .hex2] [97, 39, 233] = [97, 92, 39, 92, 120, 101, 57] := by decide

/-- Token level: for every string `v`, both quote characters and every applicable choice of styles (raw code points
    being scalar values, as source text is `List Char`), the tag rule reads the quoted spelling as *one* string token
    wherever it stands, and the value `wrap` computes for that token is `v`. -/
theorem string_roundtrip (q : Char) (hq : q = '\'' ∨ q = '"') (sts : List Style) (v : List Nat)
    (hok : stylesOk q.toNat sts v = true) (hraw : rawScalar sts v = true) (prev : Option Char) (rest : Str) :
    tagRule prev (quoted q (spellBody sts v) ++ rest) = .tok .string (quoted q (spellBody sts v)) rest ∧
    stringValue (quoted q (spellBody sts v)) = .ok v := by
  constructor
  · have hb := strBody_spelled q hq rest sts v hok
    have hm : matchString (q :: ((spellBody sts v).map Char.ofNat ++ q :: rest)) =
        some (q :: ((spellBody sts v).map Char.ofNat ++ [q]), rest) := by
      rcases hq with rfl | rfl <;> simp [matchString, hb]
    have e : quoted q (spellBody sts v) ++ rest = q :: ((spellBody sts v).map Char.ofNat ++ q :: rest) := by
      simp [quoted]
    rw [e, tagRule_quote q hq prev _ _ hm]
    rfl
  · have e : ((quoted q (spellBody sts v)).drop 1).dropLast = (spellBody sts v).map Char.ofNat := by
      unfold quoted; simp
    unfold stringValue
    rw [e, map_toNat_ofNat _ (spelled_valid q.toNat sts v hok hraw)]
    exact unescape_spelled q.toNat sts v hok

example : rawScalar [.raw, .u4] [0x1f600, 0xd800] = true ∧ stylesOk '"'.toNat [.raw, .u4] [0x1f600, 0xd800] = true := by decide

/-- The spelling `repr()` produces (whichever code points `str.isprintable` leaves unescaped, as long as those are
    scalar values), in either quote character, is read as one string token with value `v`. -/
theorem repr_roundtrip (printable : Nat → Bool)
    (hp : ∀ c, printable c = true → (c < 0xd800 ∨ (0xdfff < c ∧ c < 0x110000)))
    (q : Char) (hq : q = '\'' ∨ q = '"') (v : List Nat) (hv : ∀ c ∈ v, c < 0x110000) (prev : Option Char) (rest : Str) :
    tagRule prev (quoted q (reprBody printable q.toNat v) ++ rest) =
      .tok .string (quoted q (reprBody printable q.toNat v)) rest ∧
    stringValue (quoted q (reprBody printable q.toNat v)) = .ok v := by
  have hqn : q.toNat = 39 ∨ q.toNat = 34 := by rcases hq with rfl | rfl <;> simp
  exact string_roundtrip q hq _ v (repr_stylesOk printable q.toNat hqn v hv) (repr_rawScalar printable q.toNat hp v) prev rest

example : reprBody (fun c => c == 233) 39 [97, 39, 233, 0x80, 0xd800, 10] =
    [97, 92, 39, 233, 92, 120, 56, 48, 92, 117, 100, 56, 48, 48, 92, 110] := by decide

-- adjacent string literals ------------------------------------------------------------------------------------

/-- `parse_primary`: a run of string tokens (up to the first token that is not a string) denotes the concatenation
    of their values, and parsing continues after the run. -/
theorem adjacent_concat (v : List Nat) (vs : List (List Nat)) (rest : List PTok) (hrest : ∀ w r, rest ≠ .string w :: r) :
    primaryString ((v :: vs).map .string ++ rest) = some ((v :: vs).flatten, rest) := by
  have := stringRun_strings (v :: vs) rest hrest
  simp only [List.map_cons, List.cons_append] at this
  simp only [List.map_cons, List.cons_append, primaryString, this]

example : primaryString [.string [97], .string [98, 99], .other .operator ['+'], .string [100]] =
    some ([97, 98, 99], [.other .operator ['+'], .string [100]]) := by decide


-- integers ------------------------------------------------------------------------------------------------------

open JinjaV.Spec.PyLit (Derives integerValue pyInteger?) in
/-- Whatever text `integer_re` (as modelled by `matchInt`) matches at any position is a Python `integer` literal
    by the reference grammar, `int(text.replace("_", ""), 0)` succeeds on it (no ValueError branch), and the result is
    the value the reference assigns to the spelling *with* its underscores.  The last clause restates it with the
    executable reference the driver runs. -/
theorem int_token_python (s m r : Str) (h : matchInt s = some (m, r)) :
    Derives JinjaV.Spec.PyLit.integer m ∧ intValue m = some (integerValue m) ∧ pyInteger? m = intValue m := by
  have key : Derives JinjaV.Spec.PyLit.integer m ∧ intValue m = some (integerValue m) := by
    unfold matchInt at h
    split at h
    · rename_i mm hb
      cases h
      have := prefInt_python 'b' 'B' 2 isBin JinjaV.Spec.PyLit.isBinC s m r (Or.inl ⟨rfl, rfl, rfl⟩)
        (fun _ h => h) good_isBin (by decide) hb
      exact ⟨.altR (.altL this.1), this.2⟩
    · split at h
      · rename_i mm ho
        cases h
        have := prefInt_python 'o' 'O' 8 isOct JinjaV.Spec.PyLit.isOctC s m r (Or.inr (Or.inl ⟨rfl, rfl, rfl⟩))
          (fun _ h => h) good_isOct (by decide) ho
        exact ⟨.altR (.altR (.altL this.1)), this.2⟩
      · split at h
        · rename_i mm hx
          cases h
          have := prefInt_python 'x' 'X' 16 Lex.isHex JinjaV.Spec.PyLit.isHexC s m r (Or.inr (Or.inr ⟨rfl, rfl, rfl⟩))
            isHexC_of_isHex good_isHex (by decide) hx
          exact ⟨.altR (.altR (.altR this.1)), this.2⟩
        · have := decInt_python s m r h
          exact ⟨.altL this.1, this.2⟩
  refine ⟨key.1, key.2, ?_⟩
  have hacc : JinjaV.Spec.PyLit.integer.accepts m = true := (JinjaV.Spec.PyLit.accepts_iff _ _).2 key.1
  simp only [pyInteger?, hacc, if_true, key.2]

example : matchInt "0x_fF+1".toList = some ("0x_fF".toList, "+1".toList) ∧ intValue "0x_fF".toList = some 255 ∧
    matchInt "1_000_".toList = some ("1_000".toList, "_".toList) ∧ matchInt "0_7".toList = some ("0".toList, "_7".toList) := by
  decide


-- floats ----------------------------------------------------------------------------------------------------------

open JinjaV.Spec.PyLit (Derives pyFloat? floatDecimal) in
/-- Whatever text `float_re` (as modelled by `matchFloat`, look-behind included) matches is a Python `floatnumber` by the
    reference grammar (so `1_`, `1._0`, `1.e5`, `1e` … are never read as one float); `literal_eval(text.replace("_", ""))`
    as modelled succeeds on it with a *float* whose exact decimal `mant * 10 ^ exp` is the one the reference assigns to the
    spelling with its underscores; restated for the executable reference the driver runs.  (Rounding of that decimal to an
    IEEE double is Python's on both sides and is not modelled.) -/
theorem float_token_python (prev : Option Char) (s m r : Str) (h : matchFloat prev s = some (m, r)) :
    Derives JinjaV.Spec.PyLit.floatnumber m ∧
    floatValue m = some ⟨(floatDecimal m).1, (floatDecimal m).2⟩ ∧
    pyFloat? m = some (floatDecimal m) := by
  have hd := matchFloat_derives prev s m r h
  have hacc : JinjaV.Spec.PyLit.floatnumber.accepts m = true := (JinjaV.Spec.PyLit.accepts_iff _ _).2 hd
  exact ⟨hd, matchFloat_value prev s m r h, by simp only [pyFloat?, hacc, if_true]⟩

example : matchFloat none "1_0.5e-3_".toList = some ("1_0.5e-3".toList, "_".toList) ∧
    floatValue "1_0.5e-3".toList = some ⟨105, -4⟩ ∧ JinjaV.Spec.PyLit.floatDecimal "1_0.5e-3".toList = (105, -4) ∧
    matchFloat none "1.e5".toList = none ∧ matchFloat (some '.') "1.5".toList = none := by decide

-- the tag rule ------------------------------------------------------------------------------------------------------

open JinjaV.Spec.PyLit (Derives integerValue) in
/-- DESIGN's `number_never_longer`: a number token emitted by the tag rule (float rule first, then integer rule) is
    never a spelling Python rejects or reads as the other kind — an `integer` token is a Python `integer` with the
    converted value, a `float` token is a Python `floatnumber` with the converted decimal. -/
theorem number_token_python (prev : Option Char) (s text rest : Str) (k : TK) (h : tagRule prev s = .tok k text rest) :
    (k = .integer → Derives JinjaV.Spec.PyLit.integer text ∧ intValue text = some (integerValue text)) ∧
    (k = .float → Derives JinjaV.Spec.PyLit.floatnumber text ∧
      floatValue text = some ⟨(JinjaV.Spec.PyLit.floatDecimal text).1, (JinjaV.Spec.PyLit.floatDecimal text).2⟩) := by
  unfold tagRule at h
  split at h
  · cases h; exact ⟨(fun e => nomatch e), (fun e => nomatch e)⟩
  · split at h
    · rename_i m hm
      cases h
      exact ⟨(fun e => nomatch e), fun _ => ⟨(float_token_python prev s m.1 m.2 hm).1, (float_token_python prev s m.1 m.2 hm).2.1⟩⟩
    · split at h
      · rename_i m hm
        cases h
        have := int_token_python s m.1 m.2 hm
        exact ⟨fun _ => ⟨this.1, this.2.1⟩, (fun e => nomatch e)⟩
      · split at h
        · cases h; exact ⟨(fun e => nomatch e), (fun e => nomatch e)⟩
        · split at h
          · cases h; exact ⟨(fun e => nomatch e), (fun e => nomatch e)⟩
          · split at h
            · cases h; exact ⟨(fun e => nomatch e), (fun e => nomatch e)⟩
            · cases h

example : tagRule (some ' ') "09 }}".toList = .tok .integer ['0'] "9 }}".toList ∧
    tagRule (some ' ') "1_ }}".toList = .tok .integer ['1'] "_ }}".toList ∧
    tagRule (some ' ') "1e5 }}".toList = .tok .float "1e5".toList " }}".toList := ⟨rfl, rfl, rfl⟩

-- escape sequences: the decoder against the reference table ---------------------------------------------------------

open JinjaV.Spec.PyLit (strValue StrErr) in
/-- the model's result and the reference's result are the same value / both a syntax error / both a `\N{…}` decline -/
def SameStringResult : Except DErr (List Nat) → Except StrErr (List Nat) → Prop
  | .ok v, .ok w => v = w
  | .error .syntax, .error .syntax => True
  | .error .oom, .error .named => True
  | _, _ => False

/-- the full statement: `wrap`'s pipeline reads every body the way Python's escape table does -/
def StringEscapeSpecStatement : Prop :=
  ∀ body : List Nat, (∀ c ∈ body, c < 0x110000) →
    SameStringResult (unescapeBody body) (JinjaV.Spec.PyLit.strValue (normNl body))

/-- `string_escape_spec` outside the shape of finding F13: for every body of code points < 0x110000 in which, after
    line-break normalisation, no escape-position backslash is directly followed by a non-ASCII code point,
    `encode("ascii","backslashreplace").decode("unicode-escape")` yields exactly what the reference escape table yields —
    the same value (unknown escapes kept, octal of 1–3 digits, `\x \u \U` of exact width, line continuation), a syntax
    error exactly where the reference has one (truncated hex, code point above 0x10ffff, trailing backslash), and `\N`
    declined on both sides.  PARTIAL with respect to `StringEscapeSpecStatement` only by the F13 exclusion, which is a
    genuine defect of the code (`Findings/F13.lean` refutes the full statement in the model). -/
theorem string_escape_spec_partial (body : List Nat) (hb : ∀ c ∈ body, c < 0x110000)
    (hf : f13Free (normNl body) = true) :
    SameStringResult (unescapeBody body) (JinjaV.Spec.PyLit.strValue (normNl body)) := by
  have h := unescape_spec body hb hf
  cases hu : unescapeBody body with
  | ok v => rw [hu] at h; simp only [toSpec] at h; rw [← h]; rfl
  | error e =>
    rw [hu] at h
    cases e <;> (simp only [toSpec] at h; rw [← h]; trivial)

example : f13Free (normNl [97, 92, 120, 52, 49, 92, 122, 233, 92, 13, 10, 92, 55, 55, 55]) = true ∧
    unescapeBody [97, 92, 120, 52, 49, 92, 122, 233, 92, 13, 10, 92, 55, 55, 55] = .ok [97, 65, 92, 122, 233, 511] ∧
    f13Free [92, 233] = false := ⟨rfl, rfl, rfl⟩

end JinjaV.C14
