/-
  C24 — HTML-producing filters cannot be used to inject markup.

  Models: Model/Escape.lean (markupsafe escaping, Markup-vs-plain values), Model/HtmlFilt.lean (tojson, xmlattr, urlize,
  indent, replace, join, format, truncate, wordwrap, forceescape).  The replace chain of `htmlsafe_json_dumps`, the
  regular-expression pattern strings and `_attr_key_re`'s character class are READ from utils.py / filters.py on every
  run (Gen/HtmlRegex.lean); the theorems that mention `Gen.HtmlRegex.*` are re-proved over what the source says now.
  Helper lemmas: Lemmas/Escape.lean, Lemmas/HtmlFilt.lean.
-/
import JinjaV.Lemmas.Escape
import JinjaV.Lemmas.HtmlFilt

namespace JinjaV.C24
open JinjaV.Escape JinjaV.HtmlFilt JinjaV.Gen.HtmlRegex

/-! ## escape, forceescape -/

/-- **escape_clean**: for every string, `escape s` is made of ordinary characters and complete entities; hence it
    contains none of `< > " '`, and every `&` in it starts one of the five entities -/
theorem escape_clean (s : List Char) :
    Esc (escape s) ∧ MFree (escape s) ∧
    ∀ pre post, escape s = pre ++ '&' :: post → ∃ e c, (e, c) ∈ entities ∧ e <+: ('&' :: post) :=
  ⟨escape_esc s, (escape_esc s).mfree, fun pre post h => (escape_esc s).amp pre post h⟩

example : escape "<a href='x'>&\"".toList = "&lt;a href=&#39;x&#39;&gt;&amp;&#34;".toList := by decide +kernel

/-- **escape_spec**: the five chained `str.replace` calls of markupsafe's Python escaper equal the single left-to-right
    pass of its C escaper (the `&` of an entity written by an earlier step is never rewritten by a later one) -/
theorem escape_spec (s : List Char) : escape s = escape1 s := escape_eq_escape1 s

example : escape "&amp;<".toList = "&amp;amp;&lt;".toList ∧ escape1 "&amp;<".toList = "&amp;amp;&lt;".toList := by decide +kernel

/-- **forceescape_spec**: `forceescape` escapes the text of its input even when it is already Markup: the result is
    escaped text that unescapes (once) to exactly the input's text; the `escape` filter does the same to plain values
    and leaves Markup alone -/
theorem forceescape_spec (v : Val) :
    Esc (doForceescape v).text ∧ unescape (doForceescape v).text = v.text ∧ (doForceescape v).isMarkup = true ∧
    (∀ s, doEscape (.plain s) = doForceescape (.plain s)) ∧ (∀ s, doEscape (.markup s) = .markup s) := by
  refine ⟨escape_esc _, ?_, rfl, fun _ => rfl, fun _ => rfl⟩
  show unescape (escape v.text) = v.text
  generalize v.text = s
  induction s with
  | nil => rw [escape_nil]; rfl
  | cons c s ih => rw [escape_cons, unescape_escChar, ih]

example : doForceescape (.markup "&lt;b".toList) = .markup "&amp;lt;b".toList := by decide +kernel

/-! ## tojson -/

/-- **tojson_clean**: whatever string `dumps` returns, after the replace chain READ from `htmlsafe_json_dumps` none of
    `< > & '` is left.  (Proved from a decidable condition on the generated chain: each of the four characters is
    replaced at some step by text without it and no later step writes it.) -/
theorem tojson_clean (d : List Char) :
    ∀ c ∈ (tojson d).text, c ≠ '<' ∧ c ≠ '>' ∧ c ≠ '&' ∧ c ≠ '\'' := by
  intro c hc
  have h1 : '<' ∉ applyChain tojsonChain d := chainKills_sound (by decide) d
  have h2 : '>' ∉ applyChain tojsonChain d := chainKills_sound (by decide) d
  have h3 : '&' ∉ applyChain tojsonChain d := chainKills_sound (by decide) d
  have h4 : '\'' ∉ applyChain tojsonChain d := chainKills_sound (by decide) d
  refine ⟨?_, ?_, ?_, ?_⟩ <;> (intro h; subst h; first | exact h1 hc | exact h2 hc | exact h3 hc | exact h4 hc)

/-- counterexample finder for `tojson_clean`: the characters the generated chain lets through -/
def tojsonSurvivors : List Char := ['<', '>', '&', '\''].filter fun x => !chainKills x tojsonChain

example : (tojson "\"</script>&'\"".toList).text = "\"\\u003c/script\\u003e\\u0026\\u0027\"".toList := by decide +kernel

/-- **tojson_roundtrip_partial**: the chain acts character by character (so what it does to a character does not depend on
    where it stands); text without the four characters is untouched; and inside the body of a JSON string literal it
    only rewrites a character into a `\uXXXX` escape that json's string scanner reads back as that same character —
    a literal body that scans to `v` before the chain scans to `v` after it.  Partial: that `json.dumps` emits the four
    characters only inside string literals is assumed (checked with `json.loads` on every generated value). -/
theorem tojson_roundtrip_partial :
    (∀ a b, (tojson (a ++ b)).text = (tojson a).text ++ (tojson b).text) ∧
    (∀ d, (∀ c ∈ d, c ≠ '<' ∧ c ≠ '>' ∧ c ≠ '&' ∧ c ≠ '\'') → (tojson d).text = d) ∧
    (∀ b v, jsonStrDecode b = some v → jsonStrDecode (tojson b).text = some v) := by
  refine ⟨fun a b => applyChain_append _ a b, ?_, ?_⟩
  · intro d hd
    show applyChain tojsonChain d = d
    induction d with
    | nil => exact applyChain_nil _
    | cons c d ih =>
      rw [applyChain_cons_str, ih (fun x hx => hd x (List.mem_cons_of_mem _ hx))]
      have hc := hd c (by simp)
      have : c ∉ targets tojsonChain := by
        intro hm
        have hm' : c ∈ ['<', '>', '&', '\''] := by
          have ht : targets tojsonChain ⊆ ['<', '>', '&', '\''] := by decide
          exact ht hm
        simp only [List.mem_cons, List.not_mem_nil, or_false] at hm'
        rcases hm' with h | h | h | h
        · exact hc.1 h
        · exact hc.2.1 h
        · exact hc.2.2.1 h
        · exact hc.2.2.2 h
      rw [applyChain_nontarget this]; rfl
  · intro b v h
    exact json_roundtrip_aux (ch := tojsonChain) (by decide) b.length b v (Nat.le_refl _) h

example : jsonStrDecode "a<\\\\u003c\\n'".toList = some [97, 60, 92, 117, 48, 48, 51, 99, 10, 39] ∧
    jsonStrDecode (tojson "a<\\\\u003c\\n'".toList).text = some [97, 60, 92, 117, 48, 48, 51, 99, 10, 39] := by decide +kernel

/-! ## pinned regular expressions (their matching is a parameter of `urlize_shape`) -/

/-- **regex_pins**: the pattern strings and flags the abstracted predicates stand for are the ones this model was
    written against; a change of `_http_re`, `_email_re`, `_attr_key_re`, `_uri_scheme_re` or of the patterns used inside
    `urlize` makes this fail (→ the tie is re-examined) -/
theorem regex_pins :
    httpRePattern = "\n    ^\n    (\n        (https?://|www\\.)  # scheme or www\n        (([\\w%-]+\\.)+)?  # subdomain\n        (\n            [a-z]{2,63}  # basic tld\n        |\n            xn--[\\w%]{2,59}  # idna tld\n        )\n    |\n        ([\\w%-]{2,63}\\.)+  # basic domain\n        (com|net|int|edu|gov|org|info|mil)  # basic tld\n    |\n        (https?://)  # scheme\n        (\n            (([\\d]{1,3})(\\.[\\d]{1,3}){3})  # IPv4\n        |\n            (\\[([\\da-f]{0,4}:){2}([\\da-f]{0,4}:?){1,6}])  # IPv6\n        )\n    )\n    (?::[\\d]{1,5})?  # port\n    (?:[/?#]\\S*)?  # path, query, and fragment\n    $\n    " ∧
    httpReFlags = ["IGNORECASE", "VERBOSE"] ∧
    emailRePattern = "^\\S+@\\w[\\w.-]*\\.\\w+$" ∧ emailReFlags = [] ∧
    attrKeyRePattern = "[\\s/>=]" ∧ attrKeyReFlags = ["ASCII"] ∧
    uriSchemeRePattern = "^([\\w.+-]{2,}:(/){0,2})$" ∧ uriSchemeReFlags = [] ∧
    urlizeSplitPattern = "(\\s+)" ∧ urlizeHeadPattern = "^([(<]|&lt;)+" ∧ urlizeTailPattern = "([)>.,\\n]|&gt;)+$" ∧
    urlizeTailEndswith = [")", ">", ".", ",", "\n", "&gt;"] ∧
    urlizeBalancePairs = [("(", ")"), ("<", ">"), ("&lt;", "&gt;")] :=
  ⟨rfl, rfl, rfl, rfl, rfl, rfl, rfl, rfl, rfl, rfl, rfl, rfl, rfl⟩

/-! ## xmlattr -/

/-- **xmlattr_keys**: if an item that is kept (value neither `None` nor undefined) has a key containing a space, tab,
    line feed, carriage return, form feed, vertical tab, `/`, `>` or `=`, the filter raises (ValueError) — whatever the
    other items, `autospace` and the autoescape setting.  The rejected class is READ from `_attr_key_re`, and that
    `do_xmlattr` raises when it matches is READ from the function body. -/
theorem xmlattr_keys (ae asp : Bool) (items : List (List Char × XVal)) (k : List Char) (v : Val)
    (hm : (k, XVal.val v) ∈ items)
    (hbad : ∃ c ∈ k, c ∈ [' ', '\t', '\n', '\r', Char.ofNat 0x0c, Char.ofNat 0x0b, '/', '>', '=']) :
    xmlattrKeyCheckRaises = true ∧ ∃ e, xmlattr ae items asp = .error e := by
  refine ⟨by decide, ?_⟩
  obtain ⟨c, hck, hc⟩ := hbad
  have hsub : ∀ c ∈ [' ', '\t', '\n', '\r', Char.ofNat 0x0c, Char.ofNat 0x0b, '/', '>', '='], attrKeyChars.contains c = true := by decide
  have hb : keyBad k = true := by
    unfold keyBad
    exact List.any_eq_true.mpr ⟨c, hck, hsub c hc⟩
  obtain ⟨e, he⟩ := xmlattrItems_bad hm hb
  exact ⟨e, by simp [xmlattr, he]⟩

example : xmlattr true [("a".toList, .val (.plain "1".toList)), ("x y".toList, .val (.plain "2".toList))] true = .error "x y".toList := by decide +kernel
example : xmlattr true [("on/x".toList, .none), ("b".toList, .undefined)] true = .ok (.markup []) := by decide +kernel

/-- **xmlattr_values**: when the filter returns, its text is the `" "`-joined list (with a leading space iff `autospace`
    and the list is non-empty) of `k="v"` for exactly the kept items in order, where `k` is the escaped key (escaped
    text: no `< > " '`), `v` is the escaped value for a plain value (escaped text) and the Markup text for a Markup value,
    and no emitted key contains a rejected character; `None` and undefined values contribute nothing -/
theorem xmlattr_values (ae asp : Bool) (items : List (List Char × XVal)) (r : Val) (h : xmlattr ae items asp = .ok r) :
    (r.text = (if asp && !([' '].intercalate ((keptItems items).map attrPiece)).isEmpty then [' '] else []) ++
        [' '].intercalate ((keptItems items).map attrPiece)) ∧
    r.isMarkup = ae ∧
    (∀ kv ∈ keptItems items, keyBad kv.1 = false ∧ Esc (escape kv.1) ∧ (kv.2.isMarkup = false → Esc kv.2.esc)) := by
  unfold xmlattr at h
  cases hi : xmlattrItems items with
  | error e => simp [hi] at h
  | ok its =>
    obtain ⟨h1, h2⟩ := xmlattrItems_ok hi
    simp only [hi, Except.ok.injEq] at h
    subst h h1
    refine ⟨?_, ?_, ?_⟩
    · generalize [' '].intercalate ((keptItems items).map attrPiece) = rv
      by_cases hc : (asp && !rv.isEmpty) = true <;> cases ae <;> simp [Val.text, hc]
    · cases ae <;> rfl
    · intro kv hkv
      refine ⟨h2 kv hkv, escape_esc _, ?_⟩
      intro hp
      cases hv : kv.2 with
      | plain s => exact escape_esc s
      | markup s => rw [hv] at hp; cases hp

example : xmlattr true [("id".toList, .val (.plain "a\"><b".toList)), ("n".toList, .none), ("c&".toList, .val (.markup "<i>".toList))] true
    = .ok (.markup " id=\"a&#34;&gt;&lt;b\" c&amp;=\"<i>\"".toList) := by decide +kernel

/-! ## urlize -/

/-- **urlize_shape**: for ANY url / e-mail predicates whose matches contain at least one non-space character (true of
    `_http_re` and `_email_re`, which need `http`/`www`/a domain resp. `\S+@`), any trim limit, `rel` and `target`
    attribute texts free of `< > " '` (the escaped arguments: `attr_args_escaped`), and extra schemes that are non-empty and start
    with a character other than `<` and white space (what `_uri_scheme_re` validation guarantees: `scheme_validation`), the
    output is the concatenation of pieces each of which is either text free of `< > " '` (a piece of the escaped input) or
    an anchor `<a href="U"[ rel="R"][ target="T"]>X</a>` with `U, R, T, X` free of `< > " '` and `U` free of white space -/
theorem urlize_shape (A : UrlizeArgs) (text : List Char)
    (hurl : ∀ m, A.isUrl m = true → ∃ c ∈ m, pyIsSpace c = false)
    (hmail : ∀ m, A.isEmail m = true → ∃ c ∈ m, pyIsSpace c = false)
    (hrel : ∀ v, A.rel = some v → MFree v) (htarget : ∀ v, A.target = some v → MFree v)
    (hsch : ∀ ss, A.schemes = some ss → ∀ s ∈ ss, ∃ c r, s = c :: r ∧ c ≠ '<' ∧ pyIsSpace c = false) :
    urlize A text = (urlizeSegs A text).flatMap Seg.render ∧ ∀ seg ∈ urlizeSegs A text, seg.WF := by
  refine ⟨rfl, ?_⟩
  intro seg hseg
  obtain ⟨w, hw, hsw⟩ := List.mem_flatMap.mp hseg
  have hM : MFree w := fun c hc => (escape_esc text).mfree c (splitWsF_subset _ _ w hw hc)
  exact wordSegs_wf A w hurl hmail hrel htarget hsch hM (splitWsF_uniform _ _ w hw) seg hsw

/-- the `rel` / `target` attribute texts handed to `urlize_shape` are escaped arguments -/
theorem attr_args_escaped (v : Val) (hv : v.Clean) : ∀ x, attrArg (some v) = some x → MFree x := attrArg_clean hv

/-- what the filter's `_uri_scheme_re.fullmatch` validation gives `urlize_shape`: a valid scheme is non-empty and starts
    with a word character or `. + -`, so not with `<` or white space (for any `\w` that excludes them) -/
theorem scheme_validation (isWord : Char → Bool) (s : List Char) (h : validScheme isWord s = true)
    (hw : ∀ c, isWord c = true → c ≠ '<' ∧ pyIsSpace c = false) :
    ∃ c r, s = c :: r ∧ c ≠ '<' ∧ pyIsSpace c = false := validScheme_head h hw

def exArgs : UrlizeArgs :=
  { isUrl := fun m => m == "http://a.com/&lt;x&gt;".toList || m == "www.b.org".toList,
    isEmail := fun m => m == "me@x.org".toList, limit := some 12,
    rel := attrArg (some (.plain "no\"follow".toList)), target := none, schemes := some ["ftp://".toList] }

example : urlize exArgs "(see http://a.com/<x>, www.b.org) me@x.org ftp://h/'q' <b>".toList =
    "(see <a href=\"http://a.com/&lt;x&gt;\" rel=\"no&#34;follow\">http://a.com...</a>, ".toList ++
    "<a href=\"https://www.b.org\" rel=\"no&#34;follow\">www.b.org</a>) ".toList ++
    "<a href=\"mailto:me@x.org\">me@x.org</a> ".toList ++
    "<a href=\"ftp://h/&#39;q&#39;\" rel=\"no&#34;follow\">ftp://h/&#39;q&#39;</a> &lt;b&gt;".toList := by decide +kernel

/-! ## Markup-aware filters escape their plain arguments -/

/-- **markup_args_escaped**: for indent, replace, join, format, truncate and wordwrap under autoescape: if every Markup
    value among the inputs is free of `< > " '`, then so is a Markup result — whatever the *plain* receiver and arguments
    (indentation string, replacement, separator, items, format arguments, ellipsis, wrap string) contain: plain text only
    ever enters a Markup result through `escape`.  (`Val.Clean` is `True` for a plain value — the output step escapes
    it — and "text free of `< > \" '`" for Markup.)  `wrap` (textwrap) is arbitrary. -/
theorem markup_args_escaped :
    (∀ (s : Val) (width : Width) (first blank : Bool) (r : Val), s.Clean → (∀ v, width = .str v → v.Clean) →
        doIndent s width first blank = some r → r.Clean) ∧
    (∀ (s old new : Val) (cnt : Option Nat), s.Clean → new.Clean → (doReplace true s old new cnt).Clean) ∧
    (∀ (items : List Val) (d : Val), (∀ v ∈ items, v.Clean) → d.Clean → (doJoin true items d).Clean) ∧
    (∀ (f : Val) (args : List Val) (r : Val), f.Clean → (∀ a ∈ args, a.Clean) → doFormat f args = some (.ok r) → r.Clean) ∧
    (∀ (s end_ : Val) (length leeway : Nat) (kill : Bool) (r : Val), s.Clean → end_.Clean →
        doTruncate s length kill end_ leeway = some r → r.Clean) ∧
    (∀ (wrap : List Char → List (List Char)) (s ws : Val), ws.Clean → (doWordwrap wrap s ws).Clean) :=
  ⟨fun _ _ _ _ _ hs hw h => doIndent_clean hs hw h,
   fun _ _ _ cnt hs hn => doReplace_clean cnt hs hn,
   fun _ _ hv hd => doJoin_clean hv hd,
   fun _ _ _ hf ha h => vMod_clean hf ha h,
   fun _ _ _ _ _ _ hs he h => doTruncate_clean hs he h,
   fun wrap _ _ hws => doWordwrap_clean wrap hws⟩

/-- `indent` never reaches its `lines.pop(0)` on an empty list (so the `none` of the model is not what makes the
    theorem above true): a string with a newline appended has at least one line -/
theorem indent_total (s : Val) (width : Width) (first blank : Bool) : (doIndent s width first blank).isSome = true := by
  have hne : ∀ (t : List Char) (cur : List Char) (cr : Bool), splitlinesAux cur cr (t ++ ['\n']) ≠ [] ∨ (cr = true ∧ t = [] ∧ cur = []) := by
    intro t
    induction t with
    | nil =>
      intro cur cr
      by_cases hcr : cr = true
      · subst hcr
        by_cases hcur : cur = []
        · exact Or.inr ⟨rfl, rfl, hcur⟩
        · left; simp [splitlinesAux, hcur]
      · left
        have : cr = false := by simpa using hcr
        subst this
        simp only [List.nil_append, splitlinesAux]
        simp [lineBreaks]
    | cons a t ih =>
      intro cur cr
      left
      simp only [List.cons_append, splitlinesAux]
      split
      · rcases ih cur false with h | ⟨h, _⟩
        · exact h
        · cases h
      · split
        · simp
        · split
          · simp
          · rcases ih (a :: cur) false with h | ⟨h, _⟩
            · exact h
            · cases h
  have hlines : ∀ v nl : Val, nl.text = ['\n'] → vSplitlines (vAdd v nl) ≠ [] := by
    intro v nl hnl
    have htext : ∃ t, (vAdd v nl).text = t ++ ['\n'] := by
      cases v with
      | plain x => cases nl with
        | plain y => exact ⟨x, by simp [vAdd, Val.text] at hnl ⊢; rw [hnl]⟩
        | markup y => exact ⟨escape x, by simp [vAdd, Val.text] at hnl ⊢; rw [hnl]⟩
      | markup x => cases nl with
        | plain y =>
          have he : escape ['\n'] = ['\n'] := by decide
          exact ⟨x, by simp only [vAdd, Val.text, Val.esc] at hnl ⊢; rw [hnl, he]⟩
        | markup y => exact ⟨x, by simp [vAdd, Val.text, Val.esc] at hnl ⊢; rw [hnl]⟩
    obtain ⟨t, ht⟩ := htext
    unfold vSplitlines splitlines
    rw [ht]
    rcases hne t [] false with h | ⟨h, _⟩
    · simpa using h
    · cases h
  unfold doIndent
  simp only [Option.isSome_map]
  have hnl : (indentArgs s width).2.text = ['\n'] := by
    unfold indentArgs; simp only; split <;> rfl
  have := hlines s _ hnl
  unfold indentBody
  split
  · rfl
  · split
    · rename_i heq; exact absurd heq this
    · split <;> rfl

example : doIndent (.markup "a\nb".toList) (.str (.plain "<x>".toList)) true false = some (.markup "&lt;x&gt;a\n&lt;x&gt;b".toList) := by decide +kernel
example : doReplace true (.markup "a b".toList) (.plain " ".toList) (.plain "<i>".toList) none = .markup "a&lt;i&gt;b".toList := by decide +kernel
example : doJoin true [.plain "<a>".toList, .markup "<b>".toList] (.plain "'".toList) = .markup "&lt;a&gt;&#39;<b>".toList := by decide +kernel
example : doFormat (.markup "<p>%s</p>%%".toList) [.plain "<x>".toList] = some (.ok (.markup "<p>&lt;x&gt;</p>%".toList)) := by decide +kernel
example : doTruncate (.markup "aaa bbb ccc".toList) 6 false (.plain ">>".toList) 0 = some (.markup "aaa&gt;&gt;".toList) := by decide +kernel
example : doWordwrap (fun l => [l.take 2, l.drop 2]) (.markup "abcd".toList) (.markup "|".toList) = .markup "ab|cd".toList := by decide +kernel

end JinjaV.C24
