/-
  C29 — rendering is repeatable and does not modify its inputs.

  Part 1 (over Gen/CtxWrites.lean, READ from compiler.py / runtime.py / environment.py on every run): the code generator
  emits stores only into the context's own state, frame locals and buffers; the runtime stores only into its own objects.
  Part 2 (Model/CtxState.lean: dict objects with identity): `new_context` never writes into a dict of its caller, a render
  leaves every pre-existing dict unchanged, and its output is a function of the *contents* of data and globals — so
  repeating it, alone or after other renders, gives the same output.
-/
import JinjaV.Model.CtxAudit
import JinjaV.Lemmas.CtxState

namespace JinjaV.C29
open JinjaV.Gen.CtxWrites JinjaV.CtxAudit JinjaV.CtxState

/-! ### Part 1 — what is written -/

/-- every store the code generator emits targets context.vars / exported_vars / blocks / eval_ctx, the vars of a derived
    context, frame-local dicts, buffers, locals, assignment targets or a namespace attribute — none targets
    `context.parent`, `environment.*`, a template object or anything else; and namespace attribute stores are guarded, for every namespace ref of a (tuple) target -/
theorem render_writes_only_own :
    (∀ e ∈ emitted, e.cls ∈ allowedEmitted) ∧ nsrefGuarded = true ∧ nsrefGuardCoversEvery = true := by decide +kernel

/-- every store / mutating call in runtime.py and environment.py is on the object's own state, the module cache, a derived
    context, a local container, the template cache, or in configuration API — none is rooted at `self.parent`,
    `self.environment`, `environment.globals`, `context.parent`, or a `globals` / `vars` argument -/
theorem engine_writes_only_own : ∀ s ∈ stores, s.cls ∈ allowedStores := by decide +kernel

theorem offenders_none : emittedOffenders = [] ∧ storeOffenders = [] := by decide +kernel

-- non-vacuity: the tables are populated with the interesting rows
example : (emitted.filter fun e => e.cls == .ctxVars).length ≥ 5 ∧ (emitted.filter fun e => e.cls == .ctxExported).length ≥ 4 ∧
    (emitted.filter fun e => e.cls == .namespaceAttr).length = 1 ∧ (stores.filter fun s => s.cls == .newCtxParent).length = 1 ∧
    (stores.filter fun s => s.cls == .moduleCache).length = 2 := by decide +kernel

/-! ### Part 2 — which dict objects are written -/

/-- **new_context_copies.**  For a valid `vars` dict:
    * every dict object that existed before the call is unchanged afterwards (whatever `shared` and `locals` are);
    * `shared = false`: the parent is a *new* dict (not the caller's vars, not the globals);
    * `shared = true` with locals: a *new* dict (a copy) receives the locals;
    * `shared = true` without locals: the parent *is* the caller's dict (aliased) — and nothing was written;
    * the context's own `vars` (where every later store goes, Part 1) is a new empty dict, different from the parent. -/
theorem new_context_copies (h : Heap) (vars : Nat) (shared : Bool) (globals : Option Nat)
    (locals : List (String × Option Val)) (hv : vars < h.size) :
    let r := newContext h vars shared globals locals
    Ext h r.1 ∧
    (shared = false → h.size ≤ r.2.parent) ∧
    (shared = true → locals.isEmpty = false → h.size ≤ r.2.parent) ∧
    (shared = true → locals.isEmpty = true → r.2.parent = vars) ∧
    h.size ≤ r.2.vars ∧ r.1.get r.2.vars = [] ∧ r.2.parent ≠ r.2.vars ∧
    r.1.get r.2.parent = parentContent h vars shared globals locals := by
  have s := newContext_spec h vars shared globals locals hv
  simp only at s ⊢
  obtain ⟨s1, _, s3, s4, _, s6, s7, s8, s9⟩ := s
  exact ⟨s1, fun hs => s8 (Or.inl hs), fun _ hl => s8 (Or.inr hl), s9, s3, s4, s6, s7⟩

example : let r := newContext ⟨[[("x", 1)], [("g", 5)]]⟩ 0 true none [("l", some 2)]
    r.2.parent = 2 ∧ r.1.get 0 = [("x", 1)] ∧ r.1.get 2 = [("x", 1), ("l", 2)] := by decide +kernel
example : (newContext ⟨[[("x", 1)], [("g", 5)]]⟩ 0 true none []).2.parent = 0 := by decide +kernel

/-- a render leaves every dict that existed before (the data, the globals, anything else) unchanged, and its output is the
    heap-free meaning `prender` of the contents of data and globals -/
theorem render_spec (h : Heap) (vars globals : Nat) (prog : List Op) (hv : vars < h.size) :
    Ext h (render h vars globals prog).1 ∧
    (render h vars globals prog).2 = prender (h.get vars) (h.get globals) prog := by
  have s := newContext_spec h vars false (some globals) [] hv
  unfold render
  generalize hn : newContext h vars false (some globals) [] = n at s
  obtain ⟨h1, c⟩ := n
  simp only at s ⊢
  obtain ⟨e1, s2, s3, s4, s5, s6, s7, _, _⟩ := s
  have r := exec_refines.2 h1 c prog s2 s5 (Ne.symm s6)
  rw [s4, s7] at r
  obtain ⟨r1, r2, _, r4⟩ := r
  refine ⟨⟨Nat.le_trans e1.1 r1, fun x hx => ?_⟩, ?_⟩
  · rw [r2 x (Nat.lt_of_lt_of_le hx e1.1) (by omega), e1.2 x hx]
  · rw [r4]; rfl

theorem render_preserves_inputs (h : Heap) (vars globals : Nat) (prog : List Op) (hv : vars < h.size) :
    Ext h (render h vars globals prog).1 := (render_spec h vars globals prog hv).1

/-- **repeat_same.**  Render `prog` on (data, globals); then render any other program on any other data (sharing the
    globals or not); then render `prog` on (data, globals) again: both outputs are equal, and data and globals still have
    their original contents. -/
theorem repeat_same (h : Heap) (vars globals vars' globals' : Nat) (prog other : List Op)
    (hv : vars < h.size) (hg : globals < h.size) (hv' : vars' < h.size) :
    let r1 := render h vars globals prog
    let r2 := render r1.1 vars' globals' other
    let r3 := render r2.1 vars globals prog
    r3.2 = r1.2 ∧ r3.1.get vars = h.get vars ∧ r3.1.get globals = h.get globals := by
  intro r1 r2 r3
  have s1 := render_spec h vars globals prog hv
  have s2 := render_spec r1.1 vars' globals' other (Nat.lt_of_lt_of_le hv' s1.1.1)
  have e12 : Ext h r2.1 := s1.1.trans s2.1
  have s3 := render_spec r2.1 vars globals prog (Nat.lt_of_lt_of_le hv e12.1)
  have e13 : Ext h r3.1 := e12.trans s3.1
  refine ⟨?_, e13.2 vars hv, e13.2 globals hg⟩
  rw [s3.2, s1.2, e12.2 vars hv, e12.2 globals hg]

-- non-vacuity: a program with a set, a scope with locals, shadowing and a lookup that falls through to the globals
example : (render ⟨[[("x", 1)], [("g", 5), ("x", 0)]]⟩ 0 1
    [.out "x", .out "g", .set "y" 3, .scope [("z", some 9)] [.out "y", .out "z", .set "x" 7, .out "x"], .out "x", .out "z"]).2
    = [some 1, some 5, some 3, some 9, some 7, some 1, none] := by decide +kernel

end JinjaV.C29
