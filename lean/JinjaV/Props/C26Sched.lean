/-
  C26 — schedule part.

  Every method the template/lexer caches call concurrently (`get`, `__getitem__`,
  `__setitem__`, `__delitem__`, `__contains__`, `clear`) performs *all* its accesses
  to `_mapping`/`_queue` inside one `with self._wlock:` block (that fact is read from
  the source into `Gen/LRUSteps.lean` on every run and re-checked here by `decide`).

  The generic theorem below says: if threads only touch the shared state inside such
  critical sections, then *every* interleaving at line granularity ends in exactly the
  state (shared and thread-local, i.e. including every return value) that results
  from executing the sections one after the other, atomically, in the order in which
  the lock was acquired.  A lock acquisition lies between the call's invocation and
  its return, so that order is consistent with real-time order: the history is
  linearizable, and by `C26.lru_eq_reference` each call returns what the reference
  LRU map returns at its linearization point.
-/
import JinjaV.Props.C26
import JinjaV.Gen.LRUSteps

namespace JinjaV.C26Sched

variable {σ : Type} {lam : Type}

/-- one source line inside a critical section: acts on the shared state and on the
    executing thread's local state -/
abbrev Line (σ lam : Type) := σ × lam → σ × lam

structure Thread (σ lam : Type) where
  loc : lam
  cur : List (Line σ lam)          -- remaining lines of the section being executed
  todo : List (List (Line σ lam))  -- sections (calls) not yet started

structure Cfg (σ lam : Type) where
  shared : σ
  owner : Option Nat               -- which thread holds the lock
  th : Nat → Thread σ lam

def upd (f : Nat → Thread σ lam) (i : Nat) (t : Thread σ lam) : Nat → Thread σ lam :=
  fun j => if j = i then t else f j

def runLines (ls : List (Line σ lam)) (st : σ × lam) : σ × lam := ls.foldl (fun s l => l s) st

/-- one scheduler step of thread `i` at line granularity (`none`: not enabled) -/
def stepFine (i : Nat) (c : Cfg σ lam) : Option (Cfg σ lam) :=
  match c.owner with
  | some o =>
    if o = i then
      match (c.th i).cur with
      | l :: ls =>
        let r := l (c.shared, (c.th i).loc)
        some { c with shared := r.1, th := upd c.th i { (c.th i) with loc := r.2, cur := ls } }
      | [] => some { c with owner := none }                              -- release
    else none                                                              -- blocked or outside
  | none =>
    match (c.th i).todo with
    | s :: ss => some { c with owner := some i, th := upd c.th i { (c.th i) with cur := s, todo := ss } }
    | [] => none                                                           -- finished

/-- thread `i` executes its next section atomically -/
def stepAtomic (i : Nat) (c : Cfg σ lam) : Cfg σ lam :=
  match (c.th i).todo with
  | s :: ss =>
    let r := runLines s (c.shared, (c.th i).loc)
    { c with shared := r.1, th := upd c.th i { loc := r.2, cur := [], todo := ss } }
  | [] => c

/-- finish the section in progress (if any) and release -/
def collapse (c : Cfg σ lam) : Cfg σ lam :=
  match c.owner with
  | none => c
  | some o =>
    let r := runLines (c.th o).cur (c.shared, (c.th o).loc)
    { shared := r.1, owner := none, th := upd c.th o { (c.th o) with loc := r.2, cur := [] } }

/-- run a schedule; picks that are not enabled are skipped.  Returns the final
    configuration and the order in which the lock was acquired. -/
def runSched : List Nat → Cfg σ lam → Cfg σ lam × List Nat
  | [], c => (c, [])
  | i :: is, c =>
    match stepFine i c with
    | none => runSched is c
    | some c' =>
      let r := runSched is c'
      (r.1, if c.owner.isNone then i :: r.2 else r.2)

def runAtomic : List Nat → Cfg σ lam → Cfg σ lam
  | [], c => c
  | i :: is, c => runAtomic is (stepAtomic i c)

/-- threads not inside a section have no pending lines -/
def WF (c : Cfg σ lam) : Prop := ∀ j, c.owner ≠ some j → (c.th j).cur = []

theorem upd_same (f : Nat → Thread σ lam) (i : Nat) (t : Thread σ lam) : upd f i t i = t := by
  simp [upd]

theorem upd_upd (f : Nat → Thread σ lam) (i : Nat) (t t' : Thread σ lam) :
    upd (upd f i t) i t' = upd f i t' := by
  funext j; by_cases h : j = i <;> simp [upd, h]

theorem upd_self (f : Nat → Thread σ lam) (i : Nat) : upd f i (f i) = f := by
  funext j; simp [upd]; intro h; rw [h]

/-- the key simulation lemma: under `collapse`, a fine-grained step is either invisible
    (a line or the release inside a section) or is exactly the atomic execution of
    the whole section (the acquire) -/
theorem stepFine_collapse (i : Nat) (c c' : Cfg σ lam) (hwf : WF c) (h : stepFine i c = some c') :
    WF c' ∧
    ((c.owner.isSome ∧ collapse c' = collapse c) ∨
     (c.owner = none ∧ collapse c' = stepAtomic i c)) := by
  unfold stepFine at h
  cases ho : c.owner with
  | some o =>
    rw [ho] at h
    by_cases hoi : o = i
    · subst hoi
      simp only [if_true] at h
      cases hc : (c.th o).cur with
      | nil =>
        rw [hc] at h; simp at h; subst h
        refine ⟨?_, Or.inl ⟨rfl, ?_⟩⟩
        · intro j _
          by_cases hj : j = o
          · subst hj; exact hc
          · exact hwf j (by rw [ho]; intro h; injection h with h; exact hj h.symm)
        · simp only [collapse, ho, hc, runLines, List.foldl_nil]
          have : upd c.th o { (c.th o) with loc := (c.th o).loc, cur := [] } = c.th := by
            have e : ({ (c.th o) with loc := (c.th o).loc, cur := [] } : Thread σ lam) = c.th o := by
              cases hto : c.th o with
              | mk l cu td => rw [hto] at hc; simp at hc; subst hc; rfl
            rw [e, upd_self]
          rw [this]

      | cons l ls =>
        rw [hc] at h; simp at h; subst h
        refine ⟨?_, Or.inl ⟨rfl, ?_⟩⟩
        · intro j hj
          have hjo : j ≠ o := by intro e; subst e; exact hj rfl
          simp only [upd, hjo, if_false]
          exact hwf j (by rw [ho]; intro h; injection h with h; exact hjo h.symm)
        · simp only [collapse, ho, upd_same, upd_upd, hc, runLines, List.foldl_cons]
    · simp [hoi] at h
  | none =>
    rw [ho] at h
    cases ht : (c.th i).todo with
    | nil => rw [ht] at h; simp at h
    | cons s ss =>
      rw [ht] at h; simp at h; subst h
      refine ⟨?_, Or.inr ⟨rfl, ?_⟩⟩
      · intro j hj
        have hji : j ≠ i := by intro e; subst e; exact hj rfl
        simp only [upd, hji, if_false]
        exact hwf j (by rw [ho]; simp)
      · simp only [collapse, stepAtomic, ht, upd_same, upd_upd]
        rw [ho]

/-- **locked ⇒ serial**: for every schedule, finishing the section in progress gives
    exactly the atomic, one-after-the-other execution in lock-acquisition order -/
theorem sched_serial (sch : List Nat) (c : Cfg σ lam) (hwf : WF c) :
    collapse (runSched sch c).1 =
      runAtomic (runSched sch c).2 (collapse c) := by
  induction sch generalizing c with
  | nil => rfl
  | cons i is ih =>
    simp only [runSched]
    cases h : stepFine i c with
    | none => exact ih c hwf
    | some c' =>
      obtain ⟨hwf', hcase⟩ := stepFine_collapse i c c' hwf h
      simp only
      rw [ih c' hwf']
      rcases hcase with ⟨ho, hc⟩ | ⟨ho, hc⟩
      · have : c.owner.isNone = false := by
          cases hoo : c.owner <;> simp_all
        simp only [this]
        rw [hc]; rfl
      · simp only [ho, Option.isNone_none, if_true, runAtomic]
        rw [hc]
        simp [collapse, ho]

/-- corollary for complete executions: if the schedule ends with the lock free, the
    final configuration *is* the serial one -/
theorem sched_serial_quiescent (sch : List Nat) (c : Cfg σ lam) (hwf : WF c)
    (hstart : c.owner = none) (hend : (runSched sch c).1.owner = none) :
    (runSched sch c).1 = runAtomic (runSched sch c).2 c := by
  have := sched_serial sch c hwf
  simp only [collapse, hstart, hend] at this
  exact this

-- the tie: which methods are one critical section (read from utils.py every run) ----------

open JinjaV.Gen.LRUSteps in
/-- every method in the property's concurrent set touches `_mapping`/`_queue` only
    inside one `with self._wlock` block, or only through exactly one call of such a
    method (`get` → `__getitem__`) -/
theorem concurrent_methods_locked :
    ∀ m ∈ ["get", "__getitem__", "__setitem__", "__delitem__", "__contains__", "clear"],
      lockAtomic m = true := by decide

-- non-vacuity: two threads, the second pre-empts inside the first one's section ------------
private def demo : Cfg Nat Nat :=
  { shared := 0, owner := none,
    th := fun j => if j = 0 then { loc := 0, cur := [], todo := [[fun s => (s.1 + 1, s.2), fun s => (s.1 * 2, s.1)]] }
                   else { loc := 0, cur := [], todo := [[fun s => (s.1 + 10, s.1)]] } }

example : (runSched [0, 1, 0, 1, 0, 0, 1, 1, 1] demo).2 = [0, 1] ∧
          (runSched [0, 1, 0, 1, 0, 0, 1, 1, 1] demo).1.shared = 12 := by decide

end JinjaV.C26Sched
