/-
  C01 — every template source either compiles or fails with a template syntax error.

  What is proved here, for all sources and all valid configurations (no bound):

  lexer (Model/Lex.lean, the transcription of Lexer.tokeniter):
    * the loop strictly decreases `2 * |remaining input| + |state stack|`, so it terminates within the model's
      fuel: the result is tokens or one of the five TemplateSyntaxError kinds (`lex_total`);
    * the three `RuntimeError` branches of tokeniter are unreachable: no rule without a state change matches
      the empty string, every match of the root rule names its group;
    * an error carries a line `1 ≤ ℓ ≤ 1 + line breaks of the source`;
    * the raw token stream is a word of the begin/end automaton, and what `wrap` hands to the parser has the
      shape `(data | variable_begin t* variable_end | block_begin t* block_end)*`, cut short only by the end
      of input (or by a conversion error in `wrap`: the shape is prefix closed).
  parser (Model/ParseShape.lean, PARTIAL: the sub-parsers are abstract parameters):
    * on every stream of that shape `Parser.subparse` never reaches `AssertionError("internal parsing error")`.
  inventory (Gen/FailSites.lean, read from the source on every run):
    * every `raise`/`assert` site of the load path that is not a template syntax error or control flow
      caught in place is on the allow-list below, each entry with the reason why it cannot be reached;
      the classes handed to `Parser.fail` and `Failure` are template syntax errors; every statement keyword
      has its `parse_<keyword>` method.

  The parser proper, the optimizer, the code generator and CPython's `compile()` are NOT modelled: that
  stage of the property is decided by the direct oracle of harness/props/c01.py.
-/
import JinjaV.Lemmas.C01Lex
import JinjaV.Lemmas.ParseShape
import JinjaV.Model.FailAllow

namespace JinjaV.C01
open JinjaV.Lex

-- ---------------------------------------------------------------------------------------------------
-- lexer: termination and the unreachable internal branches
-- ---------------------------------------------------------------------------------------------------

def defaultCfg : Cfg :=
  ⟨"{%".toList, "%}".toList, "{{".toList, "}}".toList, "{#".toList, "#}".toList, none, none, false, false, false⟩

/-- one iteration of the `while True` loop strictly decreases the measure -/
theorem lex_step_decreases (cfg : Cfg) (hv : cfg.Valid = true) (alts : List RootKind) (l l' : Loop) (s rest : Str)
    (hinv : ShapeInv l) (h : step cfg alts l s = .cont l' rest) : mu l' rest < mu l s := by
  rcases hinv.stack with hst | ⟨t, hst, ht⟩
  · exact step_root cfg hv alts l s l' rest hst h
  · rcases step_cons cfg alts l s l' rest t [] hst ht h with ⟨h1, h2⟩ | ⟨h1, h2⟩
    · simp only [mu, h1, hst, List.length_nil, List.length_cons]; omega
    · simp only [mu, h1, hst, List.length_cons]; omega

example : (match step defaultCfg [.raw, .comment, .block, .vari] initLoop "a{{ x".toList with
    | .cont l' rest => rest == " x".toList && l'.stack == [.vari] && mu l' rest == 5 && mu initLoop "a{{ x".toList == 10
    | .done _ => false) = true := by decide +kernel

theorem step_shape (cfg : Cfg) (alts : List RootKind) (l : Loop) (s : Str) (h : ShapeInv l) :
    match step cfg alts l s with
    | .cont l' _ => ShapeInv l'
    | .done r => Accepted (toksOf r) := by
  rcases h.stack with hst | ⟨t, hst, ht⟩
  · exact step_shape_root cfg alts l s h hst
  · exact step_shape_cons cfg alts l s h t hst ht

example : ShapeInv initLoop := ⟨Or.inl rfl, rfl⟩

/-- a finished iteration never reports `fuel` -/
theorem step_done_not_fuel (cfg : Cfg) (alts : List RootKind) (l : Loop) (s : Str) (r : LexRes)
    (h : step cfg alts l s = .done r) : ∀ t, r ≠ .fuel t := by
  intro t ht
  subst ht
  unfold step at h
  simp only at h
  repeat' split at h
  all_goals try (simp at h)

theorem loop_no_fuel (cfg : Cfg) (hv : cfg.Valid = true) (alts : List RootKind) :
    ∀ fuel l s, ShapeInv l → mu l s < fuel → ∀ t, loop cfg alts fuel l s ≠ .fuel t := by
  intro fuel
  induction fuel with
  | zero => intro l s _ h; omega
  | succ n ih =>
    intro l s hinv hmu t
    unfold loop
    have hs := step_shape cfg alts l s hinv
    split
    · rename_i l' rest hstep
      rw [hstep] at hs
      have := lex_step_decreases cfg hv alts l l' s rest hinv hstep
      exact ih l' rest hs (by omega) t
    · rename_i r hstep
      exact step_done_not_fuel cfg alts l s r hstep t

/-- **tokeniter is total**: for every valid configuration and every source the lexer model returns tokens or
    one of the modelled TemplateSyntaxError kinds; it never exhausts its fuel (the model's stand-in for
    "does not terminate") -/
theorem lex_total (cfg : Cfg) (hv : cfg.Valid = true) (src : Str) :
    (∃ toks, tokeniter cfg src = .ok toks) ∨ (∃ toks k ln, tokeniter cfg src = .syntaxError toks k ln) := by
  have h := loop_no_fuel cfg hv (rootAlts cfg) (2 * (preprocess cfg src).length + 4) initLoop (preprocess cfg src)
    ⟨Or.inl rfl, rfl⟩ (by simp [mu, initLoop])
  unfold tokeniter
  simp only
  cases hr : loop cfg (rootAlts cfg) (2 * (preprocess cfg src).length + 4) initLoop (preprocess cfg src) with
  | ok toks => exact Or.inl ⟨toks, rfl⟩
  | syntaxError toks k ln => exact Or.inr ⟨toks, k, ln, rfl⟩
  | fuel toks => exact absurd hr (h toks)

example : defaultCfg.Valid = true := by decide
example : tokeniter defaultCfg "{{ x ) }}".toList =
    .syntaxError [⟨1, .variableBegin, "{{".toList⟩, ⟨1, .whitespace, " ".toList⟩, ⟨1, .name, "x".toList⟩,
      ⟨1, .whitespace, " ".toList⟩] (.unexpectedClose ')') 1 := by decide +kernel

/-- lexer.py:851-855 (`yielded empty string without stack change`) is unreachable: a rule of a block, variable
    or line-statement state that matches without changing the state consumes at least one character -/
theorem no_empty_match_without_state_change (l l' : Loop) (s rest : Str) (h : tagStep l s = .ok (l', rest))
    (hs : s ≠ []) : rest.length < s.length ∧ l'.stack = l.stack :=
  tagStep_progress l l' s rest h hs

example : (match tagStep { initLoop with stack := [.vari] } "x }}".toList with
    | .ok (l', rest) => rest == " }}".toList && l'.stack == [.vari]
    | .error _ => false) = true := by decide +kernel

/-- lexer.py:774 and :840 (`wanted to resolve the token/new state dynamically but no group matched`) are
    unreachable: whenever the root rule matches, the match names one of the rule's alternatives and that
    alternative is the one that matched at the position -/
theorem root_match_names_group (cfg : Cfg) (alts : List RootKind) (prev : Option Char) (s t : Str)
    (k : RootKind) (m sg r : Str) (h : findRoot cfg alts prev s = some (t, k, m, sg, r)) :
    k ∈ alts ∧ ∃ prev', matchAlt cfg prev' (m ++ r) k = some (m, sg, r) :=
  findRoot_mem cfg alts prev s t k m sg r h

example : findRoot defaultCfg (rootAlts defaultCfg) none "a{%- x".toList =
    some ("a".toList, .block, "{%-".toList, "-".toList, " x".toList) := by decide +kernel

-- ---------------------------------------------------------------------------------------------------
-- lexer: error lines
-- ---------------------------------------------------------------------------------------------------

/-- preprocessing never adds line breaks: the preprocessed source has at most as many `\n` as the
    source has line breaks -/
theorem preprocess_newlines_le (cfg : Cfg) (src : Str) : countNl (preprocess cfg src) ≤ lineBreaks src := by
  unfold preprocess
  simp only
  have hn := splitLines_noNl src
  have hl := splitLines_length src
  split
  · rw [countNl_joinNl _ (fun l hl' => hn l ((List.dropLast_sublist _).subset hl'))]
    simp; omega
  · rw [countNl_joinNl _ hn]; omega

/-- **a lexer failure is a TemplateSyntaxError whose line lies in the source**: every error result of the
    model carries a line between 1 and 1 + the number of line breaks of the (unpreprocessed) source -/
theorem lex_error_is_syntax_error_with_line_in_source (cfg : Cfg) (src : Str) (toks : List Tok) (k : ErrKind) (ln : Nat)
    (h : tokeniter cfg src = .syntaxError toks k ln) : 1 ≤ ln ∧ ln ≤ 1 + lineBreaks src := by
  obtain ⟨_, h2, h3⟩ := C39.error_line cfg src toks k ln h
  have := preprocess_newlines_le cfg src
  omega

example : tokeniter defaultCfg "a\r\n{#\rb".toList = .syntaxError [⟨1, .data, "a\n".toList⟩, ⟨2, .commentBegin, "{#".toList⟩]
    .missingEndComment 2 ∧ lineBreaks "a\r\n{#\rb".toList = 2 := by decide +kernel

-- ---------------------------------------------------------------------------------------------------
-- lexer: the shape of the token stream
-- ---------------------------------------------------------------------------------------------------

theorem loop_accepted (cfg : Cfg) (alts : List RootKind) :
    ∀ fuel l s, ShapeInv l → Accepted (toksOf (loop cfg alts fuel l s)) := by
  intro fuel
  induction fuel with
  | zero => intro l s h; exact accepted_of_run h.run
  | succ n ih =>
    intro l s hinv
    unfold loop
    have hs := step_shape cfg alts l s hinv
    split
    · rename_i l' rest hstep; rw [hstep] at hs; exact ih l' rest hs
    · rename_i r hstep; rw [hstep] at hs; exact hs

/-- **begin/end tokens are balanced and never nested**: whatever tokeniter yields (completely, or up to an
    error) is a word of the automaton `delta7`: root --x_begin--> x --…--> x --x_end--> root with only
    expression tokens inside block/variable/line-statement, only data inside raw, only comment text inside
    comments -/
theorem lex_stream_shape (cfg : Cfg) (src : Str) : Accepted (toksOf (tokeniter cfg src)) :=
  loop_accepted cfg (rootAlts cfg) _ initLoop _ ⟨Or.inl rfl, rfl⟩

example : run7 .root (tkinds [⟨1, .data, ['a']⟩, ⟨1, .blockBegin, []⟩, ⟨1, .name, []⟩, ⟨1, .blockEnd, []⟩, ⟨1, .variableBegin, []⟩])
    = some .vari := by decide

open JinjaV.ParseShape in
/-- `Lexer.wrap` (lexer.py:617-667) on token kinds: ignored tokens and raw_begin/raw_end are dropped, line
    statements become blocks -/
def wrapKind (t : Tok) : Option PK :=
  match t.kind with
  | .data => some .data
  | .blockBegin | .lineStmtBegin => some .blockBegin
  | .blockEnd | .lineStmtEnd => some .blockEnd
  | .variableBegin => some .variableBegin
  | .variableEnd => some .variableEnd
  | .name => some .name
  | .operator => some (if t.text = [':'] then .colon else .other)
  | .float | .integer | .string => some .other
  | _ => none

def wrap (toks : List Tok) : List ParseShape.PTok :=
  toks.filterMap fun t => (wrapKind t).map fun k => ⟨k, String.ofList t.text⟩

def proj : St → ParseShape.PS
  | .block | .lineStmt => .block
  | .vari => .vari
  | _ => .root

theorem wrap_step (st st' : St) (t : Tok) (h : delta7 st t.kind = some st') :
    (wrapKind t = none ∧ proj st' = proj st) ∨
    (∃ pk, wrapKind t = some pk ∧ ParseShape.delta (proj st) pk = some (proj st')) := by
  obtain ⟨ln, k, text⟩ := t
  simp only at h
  cases st <;> cases k <;> simp [delta7, isTagTok] at h <;> subst h <;>
    (by_cases hc : text = [':'] <;> simp [wrapKind, proj, ParseShape.delta, ParseShape.isInner, hc])

theorem wrap_run (toks : List Tok) : ∀ st st', run7 st (tkinds toks) = some st' →
    ParseShape.run (proj st) (ParseShape.kinds (wrap toks)) = some (proj st') := by
  induction toks with
  | nil => intro st st' h; simp [run7, tkinds] at h; subst h; simp [wrap, ParseShape.kinds, ParseShape.run]
  | cons t ts ih =>
    intro st st' h
    simp only [tkinds, List.map_cons, run7] at h
    cases hd : delta7 st t.kind with
    | none => rw [hd] at h; simp at h
    | some s1 =>
      rw [hd] at h
      have ih' := ih s1 st' h
      rcases wrap_step st s1 t hd with ⟨hw, hp⟩ | ⟨pk, hw, hp⟩
      · simp only [wrap, List.filterMap_cons, hw, Option.map_none]
        rw [← hp]; exact ih'
      · simp only [wrap, List.filterMap_cons, hw, Option.map_some, ParseShape.kinds, List.map_cons, ParseShape.run, hp]
        exact ih'

/-- **wrap_shape**: the token stream handed to the parser has the regular shape
    `(data | variable_begin t* variable_end | block_begin t* block_end)*`, possibly cut short -/
theorem wrap_shape (toks : List Tok) (h : Accepted toks) : ParseShape.Shape (wrap toks) := by
  unfold Accepted at h
  cases hr : run7 .root (tkinds toks) with
  | none => exact absurd hr h
  | some st' =>
    have := wrap_run toks .root st' hr
    unfold ParseShape.Shape
    simp only [proj] at this
    rw [this]; simp

/-- the shape is prefix closed (a stream cut by the end of input or by a conversion error of `wrap` still
    has it) -/
theorem shape_prefix_closed (toks : List ParseShape.PTok) (p : Nat) (h : ParseShape.Shape toks) :
    ParseShape.Shape (toks.take p) :=
  ParseShape.shape_prefix toks p h

example : ParseShape.kinds (wrap [⟨1, .data, ['a']⟩, ⟨1, .lineStmtBegin, ['#']⟩, ⟨1, .whitespace, [' ']⟩, ⟨1, .name, ['i', 'f']⟩,
      ⟨1, .operator, [':']⟩, ⟨1, .lineStmtEnd, []⟩, ⟨1, .rawBegin, []⟩, ⟨1, .data, ['r']⟩, ⟨1, .rawEnd, []⟩]) =
    [.data, .blockBegin, .name, .colon, .blockEnd, .data] := by decide

-- ---------------------------------------------------------------------------------------------------
-- parser: the `internal parsing error` branch (sub-parsers abstract)
-- ---------------------------------------------------------------------------------------------------

/-- **subparse_no_internal**: on every token stream of the regular shape, from every position between two
    segments, for all expression/statement parsers that either move the position or raise
    TemplateSyntaxError and re-enter `subparse` only through `parse_statements`, `Parser.subparse` does not
    reach `raise AssertionError("internal parsing error")` (parser.py:1028) -/
theorem subparse_no_internal (P : ParseShape.Parsers) (hP : P.Faithful) (toks : List ParseShape.PTok)
    (hS : ParseShape.Shape toks) (fuel : Nat) (ends : Option (List String)) (p : Nat)
    (hp : ParseShape.RootPos toks p) : ParseShape.subparse P toks fuel ends p ≠ .internal :=
  ParseShape.subparse_no_internal_aux P hP toks hS fuel ends p hp

/-- **parse_no_internal**: lexer shape + parser loop: whatever the lexer model yields for a source, parsing
    its wrapped tokens never reaches the internal error (sub-parsers abstract, as above) -/
theorem parse_no_internal (cfg : Cfg) (src : Str) (P : ParseShape.Parsers) (hP : P.Faithful) (fuel : Nat) :
    ParseShape.parse P (wrap (toksOf (tokeniter cfg src))) fuel ≠ .internal :=
  subparse_no_internal P hP _ (wrap_shape _ (lex_stream_shape cfg src)) fuel none 0 (ParseShape.rootPos_zero _)

/-- **trans_block_no_internal**: the loop of the i18n extension over the body of a `{% trans %}` block
    (ext.py:471-517, fully modelled, entered after a `block_end`) never reaches
    `raise RuntimeError("internal parser error")` (ext.py:514) on a stream of the regular shape -/
theorem trans_block_no_internal (toks : List ParseShape.PTok) (hS : ParseShape.Shape toks) (allowPluralize : Bool)
    (fuel p : Nat) (hp : ParseShape.RootPos toks p) : ParseShape.transBlock toks allowPluralize fuel p ≠ .internal :=
  ParseShape.transBlock_no_internal_aux toks hS allowPluralize fuel p hp

example : ParseShape.transBlock [⟨.blockBegin, ""⟩, ⟨.name, "trans"⟩, ⟨.blockEnd, ""⟩, ⟨.data, "hi "⟩, ⟨.variableBegin, ""⟩,
      ⟨.name, "n"⟩, ⟨.variableEnd, ""⟩, ⟨.blockBegin, ""⟩, ⟨.name, "endtrans"⟩, ⟨.blockEnd, ""⟩] true 10 3 = .ok 8 ∧
    ParseShape.transBlock [⟨.blockEnd, ""⟩] true 10 0 = .internal := by decide +kernel

/-- a concrete faithful parser family: `if` … `endif` with a body, any expression = one token -/
def demoParsers : ParseShape.Parsers where
  tuple := fun p => some (p + 1)
  stmt := fun tag =>
    if tag = "if" then some (fun cb p => match cb ["endif"] true (p + 2) with | .ok q => .ok q | x => x)
    else if tag = "set" then some (fun _ p => .ok (p + 4))
    else none

example : demoParsers.Faithful := by
  intro tag f hf cb p hi
  simp only [demoParsers] at hf
  split at hf
  · simp at hf; subst hf
    simp only at hi
    split at hi
    · simp at hi
    · rename_i x hx; exact ⟨_, _, _, hi⟩
  · split at hf
    · simp at hf; subst hf; simp at hi
    · simp at hf

example : ParseShape.parse demoParsers
    [⟨.data, "a"⟩, ⟨.blockBegin, ""⟩, ⟨.name, "if"⟩, ⟨.name, "x"⟩, ⟨.blockEnd, ""⟩, ⟨.variableBegin, ""⟩, ⟨.name, "y"⟩,
     ⟨.variableEnd, ""⟩, ⟨.blockBegin, ""⟩, ⟨.name, "endif"⟩, ⟨.blockEnd, ""⟩] 20 = .ok 11 := by decide +kernel

/-- the unreachable branch exists: a stream that is not of the shape does reach it -/
example : ParseShape.parse demoParsers [⟨.variableEnd, ""⟩] 5 = .internal := by decide +kernel

-- ---------------------------------------------------------------------------------------------------
-- inventory of raise / assert sites (read from the source by translate/fail_sites.py)
-- ---------------------------------------------------------------------------------------------------

open JinjaV.Gen.FailSites

/-- **every raise site of the load path that is not a template syntax error (or control flow caught in
    place) is on the justified allow-list** — a new `raise` of another class anywhere in lexer, parser,
    compiler, idtracking, nodes, optimizer, visitor or ext breaks this proof and `firstUnlisted` names it -/
theorem non_syntax_raise_sites_allowed : raiseSites.all siteAllowed = true := by decide +kernel

theorem assert_sites_allowed : assertSites.all assertAllowed = true := by decide +kernel

/-- the allow-list has no stale entry: each one still matches a site -/
theorem allow_list_entries_used :
    allowList.all (fun a => raiseSites.any fun s => a.file == s.file && a.func == s.func && a.cls == s.cls) = true := by
  decide +kernel

/-- `Parser.fail` (`raise exc(...)`) is only ever asked for template syntax errors -/
theorem fail_raises_syntax_errors :
    syntaxClasses.contains failDefault = true ∧ failExcArgs.all (fun a => syntaxClasses.contains a.2) = true := by
  decide +kernel

/-- the lexer's `Failure` rules raise TemplateSyntaxError -/
theorem failure_rules_raise_syntax_errors :
    failureClasses ≠ [] ∧ failureClasses.all (fun a => a.2 == "TemplateSyntaxError") = true := by decide +kernel

/-- `getattr(self, f"parse_{tag}")` in parse_statement cannot raise AttributeError: every statement keyword
    has its method; and the dispatch has the order the ParseShape model assumes -/
theorem statement_keywords_have_parsers :
    statementKeywords.all (fun k => parserMethods.contains ("parse_" ++ k)) = true ∧
    dispatchShape = ["require-name", "keywords", "tag:call", "tag:filter", "extensions", "fail-unknown-tag"] := by
  decide +kernel

example : raiseSites.length ≥ 55 ∧ (raiseSites.filter fun s => !syntaxClasses.contains s.cls && !controlFlowClasses.contains s.cls).length ≥ 20 := by
  decide +kernel

end JinjaV.C01
