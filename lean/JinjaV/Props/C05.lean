/-
  C05 — include and import honor the documented context visibility.

  Model: Model/CtxFlow.lean (`targetCtx`: the context a target template is rendered with, transcribed from the code
  emitted by visit_Include / _import_common and from new_context / get_all / _get_default_module; `bindTop` /
  `getExported`: the exported_vars bookkeeping; `includeResolve` / `selectTemplate`).
  Spec: Spec/CtxFlow.lean (docs/templates.rst).  Every theorem holds for all contexts, locals, globals, flags, value
  types; nothing is bounded.

  F16 (fixed in /repo by 1454414): `_get_default_module` used to read the importer's extra global keys from
  `ctx.parent`; the statement for a default import was false then (Findings/F16.lean keeps the witnesses against the
  old read site).  With the values read from `ctx._globals` the full-strength `ImportStatement` is a theorem
  (`import_ctx`); its only hypothesis says which template the importing context was created for.
-/
import JinjaV.Model.CtxFlow
import JinjaV.Spec.CtxFlow
import JinjaV.Lemmas.CtxFlow

namespace JinjaV.C05
open JinjaV.CtxFlow JinjaV.SpecCtxFlow

variable {α : Type}

/-- what a lookup in a context finds, as a spec-side lookup function -/
def sees (c : Ctx α) : Lookup α := c.resolve

/-! ### with context -/

/-- `context.get_all()` may be the parent dict, the vars dict or a merged copy: in all three cases a lookup in it is
    `resolve_or_missing` on the context. -/
theorem get_all_is_resolve (c : Ctx α) (n : Name) : Env.get c.getAll n = c.resolve n := getAll_get c n

example : Env.get ({ parent := [("a", 1), ("b", 2)], vars := [("a", 3)] } : Ctx Nat).getAll "a" = some 3 := by decide

/-- `with context` (include and import alike): the target sees the current local variables over the current
    context — a local that is not `missing` wins, a `missing` one is skipped. -/
theorem with_context_sees (s : Situation α) (h : s.withCtx = true) (n : Name) :
    sees (targetCtx s) n = withContextSees (Locals.val s.locals) s.ctx.resolve n := by
  simp only [sees, targetCtx, h, if_true]
  rw [newContext_resolve]
  simp only [if_true, Option.getD_some, getAll_get]
  unfold withContextSees orElse
  rfl

/-- What "the current local variables" are: the dict built by `dump_local_context` gives every name the value of its
    *innermost* declaration among the enclosing scopes — an inner loop variable / macro parameter / `with` binding hides
    an outer `set`; and when the innermost Python local is still `missing`, the name counts as having no local value
    (the lookup then falls through to the context, not to an outer scope's local). -/
theorem locals_are_innermost (frames : List (Frame α)) (n : Name) :
    Locals.val (dumpLocals frames) n = (findDecl frames n).getD none := by
  rw [dumpLocals, Locals.val_dedupFirst, findDecl_flatten]

example : Locals.val (dumpLocals [[("i", some 2), ("y", none)], [("x", some 1), ("i", some 0), ("y", some 7)]]) "i" = some 2 ∧
    Locals.val (dumpLocals [[("i", some 2), ("y", none)], [("x", some 1), ("i", some 0), ("y", some 7)]]) "y" = none ∧
    Locals.val (dumpLocals [[("i", some 2), ("y", none)], [("x", some 1), ("i", some 0), ("y", some 7)]]) "x" = some 1 := by
  decide

/-- include: with context as above, without context exactly the target template's own globals -/
theorem include_ctx (s : Situation α) (hk : s.kind = .inc) (n : Name) :
    sees (targetCtx s) n = includeSees s.withCtx (Locals.val s.locals) s.ctx.resolve s.tgtGlobals.get n := by
  cases hw : s.withCtx with
  | true => rw [with_context_sees s hw n]; simp [includeSees]
  | false =>
    simp only [sees, targetCtx, hw, hk, Bool.false_eq_true, if_false]
    rw [newContext_resolve]
    simp [includeSees, Locals.val, Env.get_nil]

/-- a loop variable `l`, a not yet assigned `m`, render variable `r`, the includer's global `g`, the target's global `t` -/
def exInclude : Situation String :=
  { ctx := rootContext [("g", "G")] [("r", "R")]
    locals := [("l", some "L"), ("m", none)]
    srcGlobals := [("g", "G")]
    tgtGlobals := [("t", "T")]
    kind := .inc
    withCtx := true }

example : sees (targetCtx exInclude) "l" = some "L" ∧ sees (targetCtx exInclude) "r" = some "R" ∧
    sees (targetCtx exInclude) "g" = some "G" ∧ sees (targetCtx exInclude) "t" = none ∧
    sees (targetCtx exInclude) "m" = none :=
  ⟨by decide, by decide, by decide, by decide, by decide⟩

/-- `without context` cuts the target off completely: nothing of the including template (context, render variables,
    locals, its globals) can influence what an included template sees. -/
theorem include_without_independent (s s' : Situation α) (hk : s.kind = .inc) (hk' : s'.kind = .inc)
    (hw : s.withCtx = false) (hw' : s'.withCtx = false) (hg : s.tgtGlobals = s'.tgtGlobals) :
    targetCtx s = targetCtx s' := by
  simp [targetCtx, hk, hk', hw, hw', hg]

/-! ### default import -/

/-- The importing context was created for the importing template: its `_globals` read like that template's globals
    and every key of those is among its `globals_keys`.  This is what `new_context(…, globals=template.globals)`
    establishes and `Context.derived` preserves (`created_for_new_context`, `created_for_derived`); it is the only
    hypothesis of the import theorem — it says *which* template "the importing template" is. -/
def CreatedFor (s : Situation α) : Prop :=
  (∀ n, s.ctx.globals.get n = s.srcGlobals.get n) ∧ (∀ k, k ∈ s.srcGlobals.keys → k ∈ s.ctx.gkeys)

/-- conclusion of the import property for one situation -/
def ImportHolds (s : Situation α) : Prop :=
  ∀ n, sees (targetCtx s) n =
    importSees s.withCtx (Locals.val s.locals) s.ctx.resolve s.tgtGlobals.get s.srcGlobals.get n

/-- The full-strength statement: "imports see only globals unless with context" — whatever the render variables,
    context variables and locals are, whether the context is a root, shared or derived one. -/
def ImportStatement : Prop :=
  ∀ (α : Type) (s : Situation α), s.kind = .imp → CreatedFor s → ImportHolds s

private theorem default_import_lookup (s : Situation α) (cf : CreatedFor s) (n : Name) :
    orElse (Env.get (defaultModuleVars s.ctx s.tgtGlobals) n) (Env.get s.tgtGlobals n) =
      orElse (Env.get s.tgtGlobals n) (Env.get s.srcGlobals n) := by
  rw [defaultModuleVars_get]
  by_cases hx : n ∈ extraKeys s.ctx s.tgtGlobals
  · obtain ⟨_, ht⟩ := (mem_extraKeys _ _ _).mp hx
    have hnone : Env.get s.tgtGlobals n = none := (Env.get_eq_none_iff _ _).mpr ht
    simp only [hx, if_true, hnone, orElse_none]
    rw [cf.1 n]
    cases Env.get s.srcGlobals n <;> rfl
  · simp only [hx, if_false, orElse_none]
    cases ht : Env.get s.tgtGlobals n with
    | some v => rfl
    | none =>
      have hnt : n ∉ s.tgtGlobals.keys := (Env.get_eq_none_iff _ _).mp ht
      have hng : n ∉ s.ctx.gkeys := fun hg => hx ((mem_extraKeys _ _ _).mpr ⟨hg, hnt⟩)
      have : n ∉ s.srcGlobals.keys := fun h => hng (cf.2 n h)
      simp [(Env.get_eq_none_iff _ _).mpr this]

/-- import: with context like an include; by default exactly the imported template's globals, then the importing
    template's globals — nothing else of the importing context. -/
theorem import_ctx : ImportStatement := by
  intro α s hk cf n
  cases hw : s.withCtx with
  | true => rw [with_context_sees s hw n]; simp [importSees]
  | false =>
    have key := default_import_lookup s cf n
    have spec : importSees false (Locals.val s.locals) s.ctx.resolve s.tgtGlobals.get s.srcGlobals.get n
        = orElse (Env.get s.tgtGlobals n) (Env.get s.srcGlobals n) := by
      simp only [importSees]; unfold orElse; rfl
    rw [spec, ← key]
    by_cases hem : (extraKeys s.ctx s.tgtGlobals).isEmpty = true
    · have hnil : extraKeys s.ctx s.tgtGlobals = [] := by
        cases hx : extraKeys s.ctx s.tgtGlobals with
        | nil => rfl
        | cons _ _ => simp [hx] at hem
      simp only [sees, targetCtx, hw, hk, hem, Bool.false_eq_true, if_false, if_true]
      rw [newContext_resolve]
      simp [Locals.val, Env.get_nil, defaultModuleVars, hnil]
    · simp only [sees, targetCtx, hw, hk, hem, Bool.false_eq_true, if_false]
      rw [newContext_resolve]
      simp [Locals.val]

/-- every context made by `new_context` for a template with globals `g` (root render, `make_module`, the context of
    an included / imported template) is `CreatedFor` that template -/
theorem created_for_new_context (g : Env α) (vars : Option (Env α)) (shared : Bool) (l : Locals α)
    (cvars : Env α) (exported : List Name) (locals : Locals α) (tg : Env α) (k : Kind) (w : Bool) :
    CreatedFor { ctx := { newContext g vars shared l with vars := cvars, exported := exported }
                 locals := locals
                 srcGlobals := g
                 tgtGlobals := tg
                 kind := k
                 withCtx := w } :=
  ⟨fun _ => rfl, fun _ h => h⟩

/-- … and `Context.derived` (scoped blocks) hands the property on -/
theorem created_for_derived (s : Situation α) (cf : CreatedFor s) (l : Locals α) :
    CreatedFor { s with ctx := s.ctx.derived l } :=
  ⟨fun n => cf.1 n, fun k h => cf.2 k h⟩

/-- main loaded with globals {g: GLOBAL}, rendered with g=LOCAL, imports lib without context: lib sees GLOBAL (F16) -/
def exImport : Situation String :=
  { ctx := rootContext [("g", "GLOBAL")] [("g", "LOCAL")]
    locals := [("g", some "LOOPVAR")]
    srcGlobals := [("g", "GLOBAL")]
    tgtGlobals := [("e", "E")]
    kind := .imp
    withCtx := false }

example : sees (targetCtx exImport) "g" = some "GLOBAL" ∧ sees (targetCtx exImport) "e" = some "E" :=
  ⟨by decide, by decide⟩

example : ImportHolds exImport := import_ctx String exImport rfl ⟨fun _ => rfl, fun _ h => h⟩

/-- A default import is cut off from everything but globals: two importing contexts with the same `globals_keys` and
    `_globals` give the imported module the same context, whatever their render variables, context variables, shared
    parents and locals are (no hypothesis). -/
theorem import_without_independent (s s' : Situation α) (hk : s.kind = .imp) (hk' : s'.kind = .imp)
    (hw : s.withCtx = false) (hw' : s'.withCtx = false) (hg : s.tgtGlobals = s'.tgtGlobals)
    (hkeys : s.ctx.gkeys = s'.ctx.gkeys) (hglob : s.ctx.globals = s'.ctx.globals) :
    targetCtx s = targetCtx s' := by
  simp [targetCtx, hk, hk', hw, hw', hg, extraKeys, defaultModuleVars, hkeys, hglob]

/-- "imports are cached": whenever the statement is served from `Template._module`, the context it would have been
    rendered with is the context of `make_module()` with no arguments — the cached module is never one that saw
    anything of a particular importer (so reusing it for the next importer is sound). -/
theorem cached_module_is_context_free (s : Situation α) (h : servedFromCache s = true) :
    targetCtx s = newContext s.tgtGlobals none false [] := by
  simp only [servedFromCache, Bool.and_eq_true, Bool.not_eq_true'] at h
  obtain ⟨hw, hk⟩ := h
  cases hkind : s.kind with
  | inc => simp [targetCtx, hw, hkind]
  | imp =>
    simp only [hkind] at hk
    simp [targetCtx, hw, hkind, hk]

/-- … and a default import that is *not* served from the cache is rendered for this importer alone with at least one
    extra key -/
theorem uncached_import_has_extra (s : Situation α) (hk : s.kind = .imp) (hw : s.withCtx = false)
    (h : servedFromCache s = false) : ∃ k, k ∈ s.ctx.gkeys ∧ k ∉ s.tgtGlobals.keys := by
  simp only [servedFromCache, hw, hk, Bool.not_false, Bool.true_and] at h
  cases hx : extraKeys s.ctx s.tgtGlobals with
  | nil => simp [hx] at h
  | cons k r =>
    have : k ∈ extraKeys s.ctx s.tgtGlobals := by simp [hx]
    exact ⟨k, (mem_extraKeys _ _ _).mp this⟩

/-! ### module exports -/

def toHistory : TopBind α → String × Bool × α
  | .assign n v => (n, true, v)
  | .imported n v => (n, false, v)

/-- the last binding of `n` in a list of top-level bindings -/
def lastBind (binds : List (TopBind α)) (n : Name) : Option (TopBind α) :=
  binds.reverse.find? fun b => b.name = n

private theorem lastBind_snoc (bs : List (TopBind α)) (b : TopBind α) (n : Name) :
    lastBind (bs ++ [b]) n = if b.name = n then some b else lastBind bs n := by
  simp [lastBind, List.find?_cons]
  by_cases h : b.name = n <;> simp [h]

private theorem vars_after (c0 : Ctx α) (h0 : c0.vars = []) (binds : List (TopBind α)) (n : Name) :
    Env.get (binds.foldl Ctx.bindTop c0).vars n =
      (lastBind binds n).map fun b => match b with | .assign _ v => v | .imported _ v => v := by
  induction binds using snoc_induction with
  | nil => simp [lastBind, h0, Env.get]
  | snoc bs b ih =>
    rw [List.foldl_append, lastBind_snoc]
    simp only [List.foldl_cons, List.foldl_nil]
    cases b with
    | assign k v =>
      simp only [Ctx.bindTop, Env.set, Env.get_cons, TopBind.name]
      by_cases h : k = n <;> simp [h, ih]
    | imported k v =>
      simp only [Ctx.bindTop, Env.set, Env.get_cons, TopBind.name]
      by_cases h : k = n <;> simp [h, ih]

private theorem exported_after (c0 : Ctx α) (h0 : c0.exported = []) (binds : List (TopBind α)) (n : Name) :
    n ∈ (binds.foldl Ctx.bindTop c0).exported ↔
      isPublic n = true ∧ ∃ v, lastBind binds n = some (.assign n v) := by
  induction binds using snoc_induction with
  | nil => simp [lastBind, h0]
  | snoc bs b ih =>
    rw [List.foldl_append, lastBind_snoc]
    simp only [List.foldl_cons, List.foldl_nil]
    cases b with
    | assign k v =>
      simp only [Ctx.bindTop, TopBind.name]
      by_cases hkn : k = n
      · subst hkn
        by_cases hp : isPublic k = true
        · simp [hp]
        · simp only [hp, Bool.false_eq_true, if_false, if_true, false_and, iff_false]
          intro hmem; exact hp (ih.mp hmem).1
      · have hnk : ¬ n = k := fun e => hkn e.symm
        by_cases hp : isPublic k = true
        · simp [hp, hkn, hnk, ih]
        · simp [hp, hkn, ih]
    | imported k v =>
      simp only [Ctx.bindTop, TopBind.name]
      by_cases hkn : k = n
      · subst hkn
        by_cases hp : isPublic k = true
        · simp [hp]
        · simp only [hp, Bool.false_eq_true, if_false, if_true, Option.some.injEq, reduceCtorEq, exists_false,
            and_false, iff_false]
          intro hmem; exact hp (ih.mp hmem).1
      · have hnk : ¬ n = k := fun e => hkn e.symm
        by_cases hp : isPublic k = true
        · simp [hp, hkn, hnk, ih]
        · simp [hp, hkn, ih]

private theorem history_find (l : List (TopBind α)) (n : Name) :
    (match (l.map toHistory).find? (fun b => b.1 = n) with
      | some (_, true, v) => some v
      | _ => none) =
    (match l.find? (fun b => b.name = n) with
      | some (.assign _ v) => some v
      | _ => none) := by
  induction l with
  | nil => rfl
  | cons b r ih =>
    rw [List.map_cons, List.find?_cons, List.find?_cons]
    cases b with
    | assign k v =>
      by_cases h : k = n
      · simp only [toHistory, TopBind.name, h, decide_true]
      · simp only [toHistory, TopBind.name, h, decide_false]; exact ih
    | imported k v =>
      by_cases h : k = n
      · simp only [toHistory, TopBind.name, h, decide_true]
      · simp only [toHistory, TopBind.name, h, decide_false]; exact ih

private theorem spec_exports_eq (binds : List (TopBind α)) (n : Name) :
    exports isPublic (binds.map toHistory) n =
      if isPublic n = true then
        match lastBind binds n with
        | some (.assign _ v) => some v
        | _ => none
      else none := by
  unfold exports lastBind
  by_cases hp : isPublic n = true
  · simp only [hp, if_true]
    rw [← List.map_reverse]
    exact history_find binds.reverse n
  · simp [hp]

/-- The attributes of a `TemplateModule` (`get_exported()` after the module body ran) are exactly the public names
    whose *current* top-level binding was made by a `set` / block `set` / `macro`, with that binding's value — for
    every sequence of top-level assignments and imports, in every order (re-assignment after an import re-exports,
    an import over an assignment hides). -/
theorem module_exports (c0 : Ctx α) (hv : c0.vars = []) (he : c0.exported = []) (binds : List (TopBind α)) (n : Name) :
    Env.get (binds.foldl Ctx.bindTop c0).getExported n = exports isPublic (binds.map toHistory) n := by
  rw [getExported_get, spec_exports_eq, vars_after c0 hv]
  by_cases hmem : n ∈ (binds.foldl Ctx.bindTop c0).exported
  · obtain ⟨hp, v, hl⟩ := (exported_after c0 he binds n).mp hmem
    simp [hmem, hp, hl]
  · simp only [hmem, if_false]
    by_cases hp : isPublic n = true
    · simp only [hp, if_true]
      cases hl : lastBind binds n with
      | none => rfl
      | some b =>
        cases b with
        | imported k v => rfl
        | assign k v =>
          exfalso
          have hk : k = n := by
            have := List.find?_some (show List.find? (fun b => decide (b.name = n)) binds.reverse = _ from hl)
            exact of_decide_eq_true this
          subst hk
          exact hmem ((exported_after c0 he binds k).mpr ⟨hp, v, hl⟩)
    · simp [hp]

example : Env.get ([TopBind.assign "x" 1, .imported "x" 2, .assign "y" 3, .assign "_z" 4, .assign "x" 5].foldl
    Ctx.bindTop ({ parent := [] } : Ctx Nat)).getExported "x" = some 5 := by decide +kernel

/-! ### which template is rendered -/

/-- a list selects the first entry that exists: a `Template` object or a loadable name is rendered, an existing but
    non-compiling template surfaces its syntax error, nothing existing raises `TemplatesNotFound` -/
theorem select_first_existing (items : List Item) :
    selectTemplate items =
      match selectFirst Item.existing items with
      | some (.obj t) => .ok t
      | some (.name (.found t)) => .ok t
      | some (.name .broken) => .error .syntaxError
      | some _ => .error .templatesNotFound
      | none => .error .templatesNotFound := by
  unfold selectTemplate selectFirst
  induction items with
  | nil => rfl
  | cons i r ih =>
    cases i with
    | obj t => simp [selectLoop, List.find?_cons, Item.existing]
    | name l => cases l <;> simp [selectLoop, List.find?_cons, Item.existing, ih]

example : selectTemplate [.name .notFound, .name .undefinedName, .name (.found "b"), .name (.found "c")] = .ok "b" := rfl

/-- `ignore missing` skips the statement exactly when nothing that is named exists (one missing name; a list whose
    every entry is missing or undefined, the empty list included) -/
theorem ignore_missing_only_missing (t : IncTarget) :
    includeResolve t true = .ok none ↔
      match t with
      | .single i => i = .name .notFound
      | .many items => ignoredWhen Item.existing items = true := by
  cases t with
  | single i =>
    cases i with
    | obj t => simp [includeResolve, IncTarget.load, getTemplate]
    | name l => cases l <;> simp [includeResolve, IncTarget.load, getTemplate, Err.isNotFound]
  | many items =>
    simp only [includeResolve, IncTarget.load, ignoredWhen]
    rw [select_first_existing]
    unfold selectFirst
    cases hf : items.find? Item.existing with
    | none =>
      simp only [Err.isNotFound, Bool.and_self, if_true, true_iff]
      rw [List.all_eq_true]
      intro x hx
      have := List.find?_eq_none.mp hf x hx
      simpa using this
    | some i =>
      have hex : i.existing = true := List.find?_some hf
      have hmem : i ∈ items := List.mem_of_find?_eq_some hf
      have hnot : ¬ (items.all fun n => !n.existing) = true := by
        rw [List.all_eq_true]
        intro hall
        have := hall i hmem
        simp [hex] at this
      cases i with
      | obj t => simp [hnot]
      | name l => cases l <;> simp [Item.existing] at hex <;> simp [Err.isNotFound, hnot]

/-- … and changes nothing else: a statement that resolves without the flag resolves to the same template with it; an
    error that is not a not-found error is raised with and without it; without the flag nothing is ever skipped -/
theorem ignore_missing_keeps_everything_else (t : IncTarget) :
    (∀ r, includeResolve t false = .ok r → r ≠ none ∧ includeResolve t true = .ok r) ∧
    (∀ e, e.isNotFound = false → (includeResolve t true = .error e ↔ includeResolve t false = .error e)) ∧
    (∀ e, includeResolve t true = .error e → e.isNotFound = false) := by
  unfold includeResolve
  cases h : t.load with
  | ok n => simp
  | error e =>
    cases hn : e.isNotFound with
    | true =>
      refine ⟨?_, ?_, ?_⟩
      · intro r hr; simp at hr
      · intro e' he'
        simp only [Bool.true_and, hn, if_true, Bool.false_and, Bool.false_eq_true, if_false]
        constructor
        · intro h'; cases h'
        · intro h'; injection h' with h'; subst h'; simp [hn] at he'
      · intro e' h'; simp [hn] at h'
    | false =>
      refine ⟨?_, ?_, ?_⟩
      · intro r hr; simp at hr
      · intro e' _; simp [hn]
      · intro e' h'; simp [hn] at h'; subst h'; exact hn

example : includeResolve (.many [.name .notFound, .name .broken, .name (.found "a")]) true = .error .syntaxError := rfl

/-- `ignore missing` guards the lookup only (`includeGuard`: the `try:` body holds the lookup, the target is rendered in
    the `else:` arm): once the named template is found, the statement does exactly what rendering that template does —
    its text, or ANY exception raised while it renders, a `TemplateNotFound` / `TemplatesNotFound` of a template the
    target itself includes, imports or extends included — with the flag as without it. -/
theorem ignore_missing_guards_lookup_only (t : IncTarget) (ignoreMissing : Bool) (render : Name → Except Err String)
    (n : Name) (h : t.load = .ok n) : includeStmt t ignoreMissing render = render n := by
  simp [includeStmt, includeResolve, h]

/-- … and the flag turns exactly a failed lookup with a not-found error into "no output"; every other failed lookup
    fails the statement as before -/
theorem ignore_missing_statement (t : IncTarget) (render : Name → Except Err String) (e : Err) (h : t.load = .error e) :
    includeStmt t true render = (if e.isNotFound then .ok "" else .error e) ∧ includeStmt t false render = .error e := by
  cases hn : e.isNotFound <;> simp [includeStmt, includeResolve, h, hn]

example : includeStmt (.single (.name (.found "partial"))) true (fun _ => .error .templateNotFound)
    = .error .templateNotFound := rfl

end JinjaV.C05
